(* C10 -- binary pack format.  Statements only; the model is Model.Pack (codecs) + Model.PackSpec (format limits
   pack_ok, expected result of unpack), the proofs are in Proofs.PackBits / PackRoundtrip / PackRoundtripGraph /
   PackRoundtripMol / PackLayout / PackElements / PackProofs / PackRxn / PackRxnLen / PackV0 / F16Proofs. *)
From Coq Require Import ZArith List Bool.
From Model Require Import PyBase Graph StereoRegistry Pack PackSpec PackSpecV0 PackApi PackRxnApi PackStereo PackStereoSpec PackMol PackTop PackLen PackRxnRt F16.
From Gen Require Import Elements PackSpecGen PackTopGen PackLenGen PackRxnGen.
From Proofs Require Import PackBits PackRoundtrip PackRoundtripGraph PackRoundtripMol PackLayout PackElements PackApiProofs PackProofs PackRxn PackRxnLen PackV0 PackV0Unpack PackStereoProofs PackStereoDisjoint PackApiRegistry PackMolProofs PackApiExt PackSpecGenProofs PackTopProofs PackTopApi PackLenTie PackRxnLenV0 PackRxnTie F16Proofs.
Import ListNotations.
Open Scope Z_scope.

(* ROUND TRIP, molecule level.  For EVERY molecule within the format limits (pack_ok: atom numbers 1..4095 without
   repetition, <= 15 neighbours, isotope offset 1..31, charge -4..4, hydrogens 0..6 or None, bond orders 1,2,3,4,8, symmetric
   neighbour tables without loops, terminals known for labelled bonds, < 4096 cis/trans labels) pack succeeds, and unpack
   of the produced bytes -- followed by ANY other bytes, as inside a reaction pack -- returns: the atoms in the same
   order with number, neighbour count, element, isotope, atom stereo label, hydrogens (incl. None), charge, radical flag
   and the four coordinate bytes; every atom's neighbours in the same order with the bond orders; the cis/trans records
   (terminal pair, sign) of the labelled bonds in first-encounter order; and as consumed length the number of bytes
   written. *)
Theorem C10_unpack_pack : forall (m : pmol) (suf : list Z), pack_ok m = true ->
  exists bytes, pack m = Ok bytes /\
    unpack (bytes ++ suf) = Ok (unpacked_of m (Z.of_nat (length bytes))).
Proof. exact unpack_pack. Qed.
Print Assumptions C10_unpack_pack.

(* non-vacuity: a molecule at the limits (atom number 4095 with 15 neighbours, isotope, charge -4, unknown hydrogens,
   atom stereo, one labelled bond, orders 1,2,3,4,8) satisfies the hypothesis *)
Theorem C10_unpack_pack_nonvacuous :
  pack_ok pack_example = true /\
  (exists a, In a (pm_atoms pack_example) /\ pa_n a = 4095 /\ length (pa_nbrs a) = 15%nat /\ pa_stereo a = Some true /\
             pa_iso a = Some 238 /\ pa_chg a = -4 /\ pa_h a = None) /\
  length (pm_atoms pack_example) = 16%nat /\ length (mol_fwd [] (pm_atoms pack_example)) = 19%nat /\
  fwd_ct (pm_terminals pack_example) (mol_fwd [] (pm_atoms pack_example)) = [(3, 4, true)].
Proof. exact pack_example_ok. Qed.
Print Assumptions C10_unpack_pack_nonvacuous.

(* the atom limits cover every element 1..118 with every tabulated isotope (and no isotope): the isotope offset relative
   to the .pyx table is 1..31 *)
Theorem C10_tabulated_isotopes_ok : forall e, In e elements ->
  1 <= e_num e <= 118 /\ iso_ok (e_num e) None = true /\ forall k, In k (keys (e_dist e)) -> iso_ok (e_num e) (Some k) = true.
Proof. exact tabulated_isotopes_ok. Qed.
Print Assumptions C10_tabulated_isotopes_ok.

(* the Python level limits check of MoleculeContainer.pack(check=True) passes for every non-empty molecule within the
   format limits (so the API call is the .pyx packer) and raises ValueError for an empty molecule, an atom number below
   1 or above 4095 or more than 15 neighbours *)
Theorem C10_mol_pack_within_limits : forall m, pack_ok m = true -> pm_atoms m <> [] -> mol_pack true m = pack m.
Proof. exact mol_pack_within_limits. Qed.
Print Assumptions C10_mol_pack_within_limits.

Theorem C10_mol_pack_rejects : forall m,
  pm_atoms m = [] \/ (exists a, In a (pm_atoms m) /\ (pa_n a < 1 \/ 4095 < pa_n a \/ (15 < length (pa_nbrs a))%nat)) ->
  mol_pack true m = Err ValueError.
Proof. exact mol_pack_rejects. Qed.
Print Assumptions C10_mol_pack_rejects.

(* LAYOUT, bit for bit: for every molecule within the format limits the bytes pack writes are the bytes of the published
   version 2 layout (PackSpec.layout_v2: ONE bit stream written from the docstring -- 8 bit 0x02, 12 bit atom count,
   12 bit cis/trans count; per atom 12 bit number, 4 bit neighbours, 2+2 bit stereo, 5 bit isotope offset, 7 bit element,
   32 bit coordinates, 3 bit hydrogens, 4 bit charge+4, 1 bit radical; 12 bit neighbour numbers; 3 bit order codes
   zero padded to a byte; per labelled bond 12+12 bit terminals, 7 bit zero, 1 bit sign) *)
Theorem C10_pack_is_layout : forall m, pack_ok m = true -> pack m = Ok (bytes_of_bits (layout_v2 m)).
Proof. exact pack_is_layout. Qed.
Print Assumptions C10_pack_is_layout.

(* LAYOUT, block level: pack m is header ++ 9-byte atom records ++ connection table ++ order block ++ cis/trans block *)
Theorem C10_pack_blocks : forall m, pack_ok m = true ->
  pack m = Ok (header_bytes (Z.of_nat (length (pm_atoms m))) (pm_ct_count m) ++ atoms_block (pm_atoms m) ++
               conn_bytes (mol_conns (pm_atoms m)) ++ order_bytes (fwd_orders (mol_fwd [] (pm_atoms m))) ++
               flat_map ct_record (fwd_ct (pm_terminals m) (mol_fwd [] (pm_atoms m)))).
Proof. exact pack_blocks. Qed.
Print Assumptions C10_pack_blocks.

(* LAYOUT of the bond order block: the 8-state writer produces exactly the 3-bit fields, most significant bit first,
   zero padded to a whole byte -- for ALL lists of order codes 0..7 *)
Theorem C10_order_block_layout : forall os, Forall (fun o => 0 <= o < 8) os ->
  order_bytes os = bytes_of_bits (flat_map bits3 os).
Proof. exact order_bytes_layout. Qed.
Print Assumptions C10_order_block_layout.

(* LAYOUT of the connection table: two 12-bit numbers per 3 bytes *)
Theorem C10_conn_table_layout : forall ms, Forall (fun m => 0 <= m < 4096) ms -> Nat.Even (length ms) ->
  conn_bytes ms = pair_bytes ms.
Proof. exact conn_bytes_layout. Qed.
Print Assumptions C10_conn_table_layout.

(* version 0 (legacy packs; no writer in the repository): the order block reader inverts the version 0 layout -- per
   5 bonds one zero bit and five 3-bit fields in 2 bytes -- for ALL lists of groups *)
Theorem C10_read_orders_v0_layout : forall groups, Forall v0_group_ok groups ->
  read_orders_v0 (flat_map v0_group_bytes groups) = Some (flat_map v0_group_orders groups).
Proof. exact read_orders_v0_layout. Qed.
Print Assumptions C10_read_orders_v0_layout.

(* VERSION 0, whole pack: for EVERY molecule within the format limits, unpack of the bytes of the declarative version 0
   layout (PackSpecV0.layout_v0: version byte 0, order block of 5 orders per 2 bytes, everything else as version 2)
   followed by ANY suffix returns the same atoms, neighbour tables with orders, cis/trans records and the pack length *)
Theorem C10_unpack_layout_v0 : forall (m : pmol) (suf : list Z), pack_ok m = true ->
  unpack (bytes_of_bits (layout_v0 m) ++ suf) = Ok (unpacked_of m (Z.of_nat (length (bytes_of_bits (layout_v0 m))))).
Proof. exact unpack_layout_v0. Qed.
Print Assumptions C10_unpack_layout_v0.

(* non-vacuity, evaluated on the molecule at the format limits (19 bonds: four groups, the last one padded) *)
Theorem C10_unpack_v0_example :
  pack_ok pack_example = true /\ hd 1 (bytes_of_bits (layout_v0 pack_example)) = 0 /\
  length (v0_order_bytes (fwd_orders (mol_fwd [] (pm_atoms pack_example)))) = 8%nat /\
  pyres_eqb (fun u v => (up_size u =? up_size v) && list_eqb (fun x y => (fst x =? fst y)) (up_adj u) (up_adj v))
            (unpack (bytes_of_bits (layout_v0 pack_example)))
            (Ok (unpacked_of pack_example (Z.of_nat (length (bytes_of_bits (layout_v0 pack_example)))))) = true.
Proof. exact unpack_v0_example. Qed.
Print Assumptions C10_unpack_v0_example.

(* the size pack computes before allocating is the number of bytes it writes (no byte of the buffer is left unwritten
   or written twice) *)
Theorem C10_pack_size_correct : forall m bytes, pack_ok m = true -> pack m = Ok bytes ->
  pack_size m = Z.of_nat (length bytes).
Proof. exact pack_size_correct. Qed.
Print Assumptions C10_pack_size_correct.

(* MoleculeContainer.pack_len reads the atom count back *)
Theorem C10_pack_len_correct : forall m bytes suf, pack_ok m = true -> pack m = Ok bytes ->
  mol_pack_len (bytes ++ suf) = Ok (Z.of_nat (length (pm_atoms m))).
Proof. exact mol_pack_len_correct. Qed.
Print Assumptions C10_pack_len_correct.

(* reactions: the role split by counts restores reactants / reagents / products for ALL role sizes incl. empty sides *)
Theorem C10_rxn_split_correct : forall (A : Type) (rs ags ps : list A),
  rxn_split (rs ++ ags ++ ps) (Z.of_nat (length rs)) (Z.of_nat (length ags)) (Z.of_nat (length ps)) = (rs, ags, ps).
Proof. exact @rxn_split_correct. Qed.
Print Assumptions C10_rxn_split_correct.

(* REACTION ROUND TRIP for ALL role sizes 0..255, empty sides included: ReactionContainer.pack of the molecule packs of
   the three roles followed by unpack returns, role by role and in order, the molecule level result for every molecule
   (pack_size m = the number of bytes of its pack, C10_pack_size_correct) *)
Theorem C10_rxn_roundtrip : forall (rs ags ps : list pmol) (prs pas pps : list (list Z)),
  Forall (fun m => pack_ok m = true) rs -> Forall (fun m => pack_ok m = true) ags -> Forall (fun m => pack_ok m = true) ps ->
  map pack rs = map (@Ok _) prs -> map pack ags = map (@Ok _) pas -> map pack ps = map (@Ok _) pps ->
  (length rs <= 255)%nat -> (length ags <= 255)%nat -> (length ps <= 255)%nat ->
  exists bytes, rxn_pack prs pas pps = Ok bytes /\
    rxn_unpack bytes = Ok (map (fun m => unpacked_of m (pack_size m)) rs, map (fun m => unpacked_of m (pack_size m)) ags,
                           map (fun m => unpacked_of m (pack_size m)) ps).
Proof. exact rxn_roundtrip. Qed.
Print Assumptions C10_rxn_roundtrip.

(* ReactionContainer.pack_len returns the atom counts of the molecules role by role, for ALL role sizes 0..255 with at
   least one molecule, empty sides included (it walks the packs reading only the atom count, the neighbour nibbles and
   the cis/trans count of every molecule but the last) *)
Theorem C10_rxn_pack_len_correct : forall (rs ags ps : list pmol) (prs pas pps : list (list Z)),
  Forall (fun m => pack_ok m = true) rs -> Forall (fun m => pack_ok m = true) ags -> Forall (fun m => pack_ok m = true) ps ->
  map pack rs = map (@Ok _) prs -> map pack ags = map (@Ok _) pas -> map pack ps = map (@Ok _) pps ->
  (length rs <= 255)%nat -> (length ags <= 255)%nat -> (length ps <= 255)%nat -> (1 <= length rs + length ags + length ps)%nat ->
  exists bytes, rxn_pack prs pas pps = Ok bytes /\
    rxn_pack_len bytes = Ok (map (fun m => Z.of_nat (length (pm_atoms m))) rs, map (fun m => Z.of_nat (length (pm_atoms m))) ags,
                             map (fun m => Z.of_nat (length (pm_atoms m))) ps).
Proof. exact rxn_pack_len_correct. Qed.
Print Assumptions C10_rxn_pack_len_correct.

(* more than 255 molecules in a role: ValueError (bytearray of the header) *)
Theorem C10_rxn_pack_limit : forall prs pas pps : list (list Z),
  (255 < length prs \/ 255 < length pas \/ 255 < length pps)%nat -> rxn_pack prs pas pps = Err ValueError.
Proof. exact rxn_pack_limit. Qed.
Print Assumptions C10_rxn_pack_limit.

(* HALF FLOAT coordinates.  All 63487 bit patterns with exponent field < 31 other than negative zero decode to a value
   that encodes back to the same two bytes *)
Theorem C10_f16_exact : forall a b, 0 <= a < 256 -> 0 <= b < 256 -> is_exception a b = false ->
  let '(neg, M, E) := f16_decode a b in f16_encode neg M E = (a, b).
Proof. exact f16_exact. Qed.
Print Assumptions C10_f16_exact.

(* the exceptions: negative zero and the 2048 patterns with exponent field 31 (no infinities in this format: they decode
   to 65536..131008) are stored back as 0 0 *)
Theorem C10_f16_exceptions : forall a b, 0 <= a < 256 -> 0 <= b < 256 -> is_exception a b = true ->
  let '(neg, M, E) := f16_decode a b in f16_encode neg M E = (0, 0).
Proof. exact f16_exceptions. Qed.
Print Assumptions C10_f16_exceptions.

(* truncation law, for EVERY dyadic +-M * 2^E with 2^-14 <= |x| < 65536 (e = floor log2 |x|): the stored value is
   +-M' * 2^(e-10) with M' = floor (M * 2^(11 - bitlen M)) in [1024, 2048), i.e. |x| truncated toward zero to 11 bits *)
Theorem C10_f16_truncates_normal : forall neg M E, 0 < M ->
  let e := bitlen M + E - 1 in -14 <= e < 16 ->
  let M' := scale M (11 - bitlen M) in
  (let '(a, b) := f16_encode neg M E in f16_decode a b = (neg, M', e - 10)) /\
  1024 <= M' < 2048 /\ is_floor_scaled M' M (11 - bitlen M) /\ (e - 10) + (11 - bitlen M) = E.
Proof. exact f16_truncates_normal. Qed.
Print Assumptions C10_f16_truncates_normal.

(* 2^-25 <= |x| < 2^-14: truncated toward zero to a multiple of 2^-24 *)
Theorem C10_f16_truncates_subnormal : forall neg M E, 0 < M ->
  let e := bitlen M + E - 1 in -25 <= e < -14 ->
  let M' := scale M (E + 24) in
  (let '(a, b) := f16_encode neg M E in f16_decode a b = (neg, M', -24)) /\
  0 <= M' < 1024 /\ is_floor_scaled M' M (E + 24).
Proof. exact f16_truncates_subnormal. Qed.
Print Assumptions C10_f16_truncates_subnormal.

(* zero, |x| >= 65536 and |x| < 2^-25 are stored as 0 0 *)
Theorem C10_f16_out_of_range : forall neg M E, 0 <= M ->
  let e := bitlen M + E - 1 in M = 0 \/ 16 <= e \/ e < -25 -> f16_encode neg M E = (0, 0).
Proof. exact f16_out_of_range. Qed.
Print Assumptions C10_f16_out_of_range.

(* non-vacuity of the truncation law: the double nearest 1/3 *)
Theorem C10_f16_example :
  f16_encode false 6004799503160661 (-54) = (53, 85) /\ f16_decode 53 85 = (false, 1365, -12) /\
  bitlen 6004799503160661 + (-54) - 1 = -2.
Proof. exact f16_example. Qed.
Print Assumptions C10_f16_example.

(* non-vacuity of the reaction theorems: a reaction with an empty reagent side built from the molecule at the format
   limits, evaluated in the model *)
Theorem C10_rxn_example : exists p bytes,
  pack pack_example = Ok p /\ pack_ok pack_example = true /\ rxn_pack [p] [] [p; p] = Ok bytes /\
  rxn_pack_len bytes = Ok ([16], [], [16; 16]) /\
  rxn_unpack bytes = Ok ([unpacked_of pack_example (pack_size pack_example)], [],
                         [unpacked_of pack_example (pack_size pack_example); unpacked_of pack_example (pack_size pack_example)]).
Proof. exact rxn_example. Qed.
Print Assumptions C10_rxn_example.

(* PYTHON SIDE of MoleculeContainer.pack / unpack around the codecs (Model.PackStereo: the atom-keyed dicts
   _stereo_cis_trans_terminals / _stereo_cis_trans_centers built from the registered (stereogenic, even) cumulene paths
   with later paths overwriting, _cis_trans_count, and the re-attachment of the decoded records to bonds).  The path
   list is an input: it is a function of the label-free structure (checked on every input by the correspondence).
   ROUND TRIP incl. the bond stereo labels, for every molecule within the format limits, under the registry invariant
   (Model.PackStereoSpec: registered paths never share an atom -- guaranteed by stereogenic_cumulenes since fix 2e29c31 and
   evaluated on every correspondence input -- and every labelled bond is the central bond of a registered path) *)
Theorem C10_api_roundtrip : forall (atoms : list patom) (paths : list (list Z)) (suf : list Z),
  pack_ok (api_pmol atoms paths) = true -> labels_sym_b atoms = true ->
  paths_disjoint_b paths = true -> labelled_registered_b atoms paths = true ->
  exists bytes, api_pack atoms paths = Ok bytes /\
    api_unpack paths (bytes ++ suf) = Ok (map uatom_of atoms, ladj_of_atoms atoms, Z.of_nat (length bytes)).
Proof. exact api_roundtrip. Qed.
Print Assumptions C10_api_roundtrip.

(* the disjointness hypothesis DISCHARGED from the model of the registry construction (property C12: Model.StereoRegistry,
   cumulenes / stereogenic_cumulenes incl. fix 2e29c31; theorem sg_cumulenes_disjoint): when the path list is the key
   list of stereogenic_cumulenes computed by the registry model on a well-formed molecule graph, the registered paths
   never share an atom, and the round trip incl. the labels needs no hypothesis on the paths.  That g and atoms describe
   the same real molecule and that the registry model computes the real path list is the correspondence (reg_tie) *)
Theorem C10_registry_paths_disjoint : forall (fs fd : Z -> bool) (g : mol) ps, wf_mol g = true -> cumulenes fd g = Ok ps ->
  paths_disjoint_b (map fst (sg_cumulenes_of fs g ps)) = true.
Proof. exact registry_paths_disjoint. Qed.
Print Assumptions C10_registry_paths_disjoint.

Theorem C10_api_roundtrip_registry : forall (fs fd : Z -> bool) (g : mol) ps (atoms : list patom) (suf : list Z),
  wf_mol g = true -> cumulenes fd g = Ok ps ->
  let paths := map fst (sg_cumulenes_of fs g ps) in
  pack_ok (api_pmol atoms paths) = true -> labels_sym_b atoms = true -> labelled_registered_b atoms paths = true ->
  exists bytes, api_pack atoms paths = Ok bytes /\
    api_unpack paths (bytes ++ suf) = Ok (map uatom_of atoms, ladj_of_atoms atoms, Z.of_nat (length bytes)).
Proof. exact api_roundtrip_registry. Qed.
Print Assumptions C10_api_roundtrip_registry.

(* non-vacuity: F/C(Cl)=C=C=C(/F)Cl, one 4-atom path, the label on the central bond *)
Theorem C10_api_roundtrip_example :
  pack_ok (api_pmol cumulene_atoms cumulene_paths) = true /\ labels_sym_b cumulene_atoms = true /\
  paths_disjoint_b cumulene_paths = true /\ labelled_registered_b cumulene_atoms cumulene_paths = true /\
  terminals_of cumulene_paths = [(2, (2, 6)); (6, (2, 6)); (5, (2, 6)); (4, (2, 6))] /\
  centers_of cumulene_paths = [(2, (4, 5)); (6, (4, 5))] /\ cis_trans_count cumulene_atoms = 1.
Proof. exact api_roundtrip_example. Qed.
Print Assumptions C10_api_roundtrip_example.

(* the general form: the exact condition on the two dicts (for every labelled bond, first met from atom n, the terminals
   entry of n leads through the centers dict back to this bond), and that the registry invariant implies it *)
Theorem C10_api_roundtrip_consistent : forall (atoms : list patom) (paths : list (list Z)) (suf : list Z),
  pack_ok (api_pmol atoms paths) = true -> labels_sym_b atoms = true -> ct_consistent_b atoms paths = true ->
  exists bytes, api_pack atoms paths = Ok bytes /\
    api_unpack paths (bytes ++ suf) = Ok (map uatom_of atoms, ladj_of_atoms atoms, Z.of_nat (length bytes)).
Proof. exact api_roundtrip_partial. Qed.
Print Assumptions C10_api_roundtrip_consistent.

Theorem C10_ct_consistent_of_disjoint : forall atoms paths,
  paths_disjoint_b paths = true -> labelled_registered_b atoms paths = true -> ct_consistent_b atoms paths = true.
Proof. exact ct_consistent_of_disjoint. Qed.
Print Assumptions C10_ct_consistent_of_disjoint.

(* the invariant cannot be dropped: with two registered paths sharing atom 2 -- the registry produced such lists for
   C/S(C)(=C(/F)Cl)=C(F)Cl before fix 2e29c31 -- every other hypothesis holds and the label of 2=4 comes back on 2=7 *)
Theorem C10_api_roundtrip_needs_disjoint :
  paths_disjoint_b ct_shared_paths = false /\ labelled_registered_b ct_shared_atoms ct_shared_paths = true /\
  pack_ok (api_pmol ct_shared_atoms ct_shared_paths) = true /\ labels_sym_b ct_shared_atoms = true /\
  ct_consistent_b ct_shared_atoms ct_shared_paths = false /\
  exists bytes adj size,
    api_pack ct_shared_atoms ct_shared_paths = Ok bytes /\
    api_unpack ct_shared_paths bytes = Ok (map uatom_of ct_shared_atoms, adj, size) /\
    adj <> ladj_of_atoms ct_shared_atoms /\
    zget (ladj_of_atoms ct_shared_atoms) 2 = Some [(1, (1, None)); (3, (1, None)); (4, (2, Some false)); (7, (2, None))] /\
    zget adj 2 = Some [(1, (1, None)); (3, (1, None)); (4, (2, None)); (7, (2, Some false))].
Proof. exact api_roundtrip_needs_disjoint_full. Qed.
Print Assumptions C10_api_roundtrip_needs_disjoint.

(* ReactionContainer.pack at API level (Model.PackRxnApi: header bytearray first, then every molecule through
   MoleculeContainer.pack(check=True) in the order reactants, reagents, products).
   HEADER: within the limits the pack is 1, the three counts, the molecule packs *)
Theorem C10_rxn_api_pack_header : forall rs ags ps : list pmol,
  Forall api_ok rs -> Forall api_ok ags -> Forall api_ok ps ->
  (length rs <= 255)%nat -> (length ags <= 255)%nat -> (length ps <= 255)%nat ->
  rxn_api_pack true rs ags ps =
  Ok ([1; Z.of_nat (length rs); Z.of_nat (length ags); Z.of_nat (length ps)] ++ concat (map pack_layout (rs ++ ags ++ ps))).
Proof. exact rxn_api_pack_header. Qed.
Print Assumptions C10_rxn_api_pack_header.

(* API level round trip of reactions for all role sizes 0..255: unpack returns every molecule in its role, pack_len the
   atom counts *)
Theorem C10_rxn_api_roundtrip : forall rs ags ps : list pmol,
  Forall api_ok rs -> Forall api_ok ags -> Forall api_ok ps ->
  (length rs <= 255)%nat -> (length ags <= 255)%nat -> (length ps <= 255)%nat ->
  exists bytes, rxn_api_pack true rs ags ps = Ok bytes /\
    rxn_unpack bytes = Ok (map (fun m => unpacked_of m (pack_size m)) rs, map (fun m => unpacked_of m (pack_size m)) ags,
                           map (fun m => unpacked_of m (pack_size m)) ps) /\
    ((1 <= length rs + length ags + length ps)%nat ->
     rxn_pack_len bytes = Ok (map natoms rs, map natoms ags, map natoms ps)).
Proof. exact rxn_api_roundtrip. Qed.
Print Assumptions C10_rxn_api_roundtrip.

(* 255 LIMIT at API level: more than 255 molecules in a role raise ValueError whatever the molecules are, checked or not
   (the header is built before any molecule is packed) *)
Theorem C10_rxn_api_pack_limit : forall (check : bool) (rs ags ps : list pmol),
  (255 < length rs \/ 255 < length ags \/ 255 < length ps)%nat -> rxn_api_pack check rs ags ps = Err ValueError.
Proof. exact rxn_api_pack_limit. Qed.
Print Assumptions C10_rxn_api_pack_limit.

(* the first molecule outside the checked limits raises ValueError *)
Theorem C10_rxn_api_pack_rejects : forall (rs ags ps pre : list pmol) (m : pmol) (post : list pmol),
  (length rs <= 255)%nat -> (length ags <= 255)%nat -> (length ps <= 255)%nat ->
  rs ++ ags ++ ps = pre ++ m :: post -> Forall api_ok pre -> mol_pack true m = Err ValueError ->
  rxn_api_pack true rs ags ps = Err ValueError.
Proof. exact rxn_api_pack_rejects. Qed.
Print Assumptions C10_rxn_api_pack_rejects.

(* EXTENT OF THE LIMITS CHECK of MoleculeContainer.pack(check=True): it accepts exactly the non-empty molecules with all
   atom numbers <= 4095 and at most 15 neighbours per atom *)
Theorem C10_mol_pack_check_characterised : forall m,
  mol_pack_check m = Ok tt <->
  pm_atoms m <> [] /\ (forall a, In a (pm_atoms m) -> 1 <= pa_n a <= 4095) /\ (forall a, In a (pm_atoms m) -> (length (pa_nbrs a) <= 15)%nat).
Proof. exact mol_pack_check_characterised. Qed.
Print Assumptions C10_mol_pack_check_characterised.

(* atom numbers below 1 are rejected since fix c3175c9 (a negative number used to wrap to 65535 and make the packer write
   outside its 4096 cell table) *)
Theorem C10_mol_pack_nonpositive_rejected :
  mol_pack true unrep_negative = Err ValueError /\ mol_pack true unrep_zero = Err ValueError.
Proof. exact mol_pack_nonpositive_rejected. Qed.
Print Assumptions C10_mol_pack_nonpositive_rejected.

(* "what the check accepts is within the format limits" is still FALSE for values that can only be written through
   private attributes (public setters validate isotope and charge, hydrogens are computed): hydrogens 7 and 8, charges
   12 and -5, isotope offset 32 are accepted, are outside the limits, and decode to a different atom *)
Theorem C10_mol_pack_check_complete_refuted :
  (mol_pack true unrep_h7 = pack unrep_h7 /\ pack_ok unrep_h7 = false /\
   option_map (map ua_h) (decoded_atoms unrep_h7) = Some [None]) /\
  (mol_pack true unrep_h8 = pack unrep_h8 /\ pack_ok unrep_h8 = false /\
   option_map (map ua_h) (decoded_atoms unrep_h8) = Some [Some 0]) /\
  (mol_pack true unrep_charge12 = pack unrep_charge12 /\ pack_ok unrep_charge12 = false /\
   option_map (map (fun u => (ua_chg u, ua_h u))) (decoded_atoms unrep_charge12) = Some [(-4, Some 1)]) /\
  (mol_pack true unrep_charge_m5 = pack unrep_charge_m5 /\ pack_ok unrep_charge_m5 = false /\
   option_map (map (fun u => (ua_chg u, ua_h u))) (decoded_atoms unrep_charge_m5) = Some [(11, None)]) /\
  (mol_pack true unrep_isotope = pack unrep_isotope /\ pack_ok unrep_isotope = false /\
   option_map (map (fun u => (ua_iso u, ua_stereo u))) (decoded_atoms unrep_isotope) = Some [(None, Some true)]).
Proof. exact mol_pack_check_complete_refuted. Qed.
Print Assumptions C10_mol_pack_check_complete_refuted.

(* what the check does guarantee (the other limits -- isotope offset, hydrogens, charge -- are missing) *)
Theorem C10_mol_pack_check_complete_partial : forall m, mol_pack_check m = Ok tt ->
  forall a, In a (pm_atoms m) -> 1 <= pa_n a < 4096 /\ (length (pa_nbrs a) <= 15)%nat.
Proof. exact mol_pack_check_complete_partial. Qed.
Print Assumptions C10_mol_pack_check_complete_partial.

(* MoleculeContainer.pack / unpack ON ONE OBJECT (Model.PackMol): the molecule is a Graph.mol (_atoms / _bonds), nothing else
   is an input besides the four coordinate bytes per atom.  The record read by the .pyx packer (atoms, neighbour dicts,
   _cis_trans_count, _stereo_cis_trans_terminals) is derived from the molecule; the registered cumulene paths are
   COMPUTED by the registry model on the packed molecule and again on the DECODED molecule before its labels are attached
   (as the code does); the result is a Graph.mol.  For every molecule satisfying the executable precondition mc_ok (well
   formed, not empty, within the format limits, labelled bonds registered) unpack (pack g ++ anything) is g itself: atoms
   in order with element, isotope, charge, radical, hydrogens, atom stereo; neighbour tables in order with orders and
   cis/trans labels; the coordinate bytes; the pack length *)
Theorem C10_mc_roundtrip : forall (g : mol) (xyf : Z -> list Z) (suf : list Z), mc_ok g xyf = true ->
  exists bytes, mc_pack g xyf = Ok bytes /\
    mc_unpack (bytes ++ suf) = Ok (g, map xyf (ids g), Z.of_nat (length bytes)).
Proof. exact mc_roundtrip. Qed.
Print Assumptions C10_mc_roundtrip.

(* the registry of the decoded molecule (no bond labels yet) is the registry of the original: the construction never
   looks at bond stereo labels (this was an assumption checked by the correspondence before) *)
Theorem C10_reg_paths_erase : forall g, reg_paths (erase g) = reg_paths g.
Proof. exact reg_paths_erase. Qed.
Print Assumptions C10_reg_paths_erase.

(* both directions of a bond carry the same label in a well formed molecule (one Bond object) *)
Theorem C10_wf_labels_sym : forall g xyf, wf_mol g = true -> labels_sym_b (atoms_of_mol g xyf) = true.
Proof. exact wf_labels_sym. Qed.
Print Assumptions C10_wf_labels_sym.

(* non-vacuity, evaluated: F/C(Cl)=C=C=C(/F)Cl with a labelled central bond, an isotope, a charged radical *)
Theorem C10_mc_roundtrip_example :
  mc_ok ex_mol ex_xy = true /\ reg_paths ex_mol = Ok [[2; 4; 5; 6]] /\
  match mc_pack ex_mol ex_xy with
  | Ok b => match mc_unpack b with Ok (g, xy, sz) => mol_eqb g ex_mol && (sz =? 104) && (Z.of_nat (length b) =? 104) | Err _ => false end
  | Err _ => false
  end = true.
Proof. exact mc_roundtrip_example. Qed.
Print Assumptions C10_mc_roundtrip_example.

(* TIE TO THE SOURCE TEXT (coq/gen/PackSpecGen.v is regenerated on every run by tools/gen_packspec.py, fail closed):
   the `N bit - ...` lines of the published format specification -- three copies in the sources, required identical --
   are the widths of the fields of the declarative layout (header, atom record, connection entry, bond order, cis/trans
   record), field by field *)
Theorem C10_spec_widths :
  (forall ac ct, bits_of 8 2 ++ bits_of 12 ac ++ bits_of 12 ct = concat (header_fields ac ct) /\ widths (header_fields ac ct) = spec_header_widths) /\
  (forall a, length (pa_xy a) = 4%nat -> atom_bits a = concat (atom_fields a) /\ widths (atom_fields a) = spec_atom_widths) /\
  (forall m1 m2, widths [bits_of 12 m1 ++ bits_of 12 m2] = spec_conn_widths) /\
  (forall o, widths [bits_of 3 o] = spec_order_widths) /\
  (forall t, ct_bits t = concat (ct_fields t) /\ widths (ct_fields t) = spec_cis_trans_widths).
Proof. exact spec_widths. Qed.
Print Assumptions C10_spec_widths.

(* the constants and branch tables of the hand written model are those read from the sources: version byte, unknown
   hydrogens byte, the four stereo nibbles of the packer with their conditions, the if/elif chain of the decoder, the three
   limits of the `if check:` block, the accepted version bytes, the reaction header byte, the size of the `seen` table *)
Theorem C10_source_constants :
  (forall ac ct, hd 0 (header_bytes ac ct) = gen_version) /\
  hcr_field None (-4) false = gen_h_none_byte /\
  (forall st ngb, stereo_bits st ngb = stereo_bits_gen st ngb) /\
  (forall s, stereo_of_nibble s = eval_chain gen_unpack_stereo_chain gen_unpack_stereo_else s) /\
  (forall m, mol_pack_check m = mol_pack_check_gen m) /\
  (forall v, ((v =? 0) || (v =? 2)) = existsb (Z.eqb v) gen_accepted_versions) /\
  rxn_pack [] [] [] = Ok [gen_rxn_header; 0; 0; 0] /\
  (forall a, atom_ok a = true -> pa_n a < gen_seen_size).
Proof. exact source_constants. Qed.
Print Assumptions C10_source_constants.

Theorem C10_h_none_decode :
  forallb (fun e => option_eqb Z.eqb (ua_h (decode_atom 0 0 0 0 0 0 0 0 e))
                                     (if Z.shiftr e 5 =? gen_h_none_value then None else Some (Z.shiftr e 5))) (zrange 0 256) = true.
Proof. exact h_decode_sweep. Qed.
Print Assumptions C10_h_none_decode.

(* ============================================================================================================
   PUBLIC DECODE ENTRY POINTS (round 4).  TIE BY TRANSLATION: coq/gen/PackTopGen.v is regenerated on every run by
   tools/gen_packtop.py (fail closed) from the BODIES of chython.containers.unpach (__init__.py),
   MoleculeContainer.unpack (molecule.py) and ReactionContainer.unpack (reaction.py), statement by statement; what the
   bodies call (zlib, the .pyx decoder, mol.bond(..)._stereo = s, calc_labels) are parameters.
   (a) the generic dispatcher: molecule decoder first, ONLY ValueError falls through to the reaction decoder *)
Theorem C10_gen_unpach_is_model : forall (M R : Type) dec (mu : list Z -> pyres M) (ru : list Z -> pyres R) c d,
  gen_unpach dec mu ru c d = top_unpack dec mu ru c d.
Proof. exact gen_unpach_is_model. Qed.
Print Assumptions C10_gen_unpach_is_model.

(* (b) MoleculeContainer.unpack: header test `data[0] in (0, 2)`, decode, the loop `for n, m, s in cis_trans: if n in
   centers: mol.bond( *centers[n])._stereo = s`, else-branch ValueError, calc_labels unless skipped, the two return shapes
   == the hand model api_unpack (PackStereo) used by the API level round-trip theorems, for ALL byte strings *)
Theorem C10_gen_mol_unpack_is_model : forall paths (calc : amol -> amol) (skip ret : bool) dec data,
  gen_mol_unpack dec unpack3 (fun _ => centers_of paths) set_bond calc false skip ret data =
  match api_unpack paths data with
  | Ok (a, adj, sz) => let g := if skip then (a, adj) else calc (a, adj) in Ok (if ret then inl (g, sz) else inr g)
  | Err e => Err e
  end.
Proof. exact gen_mol_unpack_is_model. Qed.
Print Assumptions C10_gen_mol_unpack_is_model.

(* (c) ReactionContainer.unpack: header test `data[0] != 1`, the three counts, the walk `m, pl = MoleculeContainer.unpack(
   data[shift:], ..); molecules.append(m); shift += pl`, the role slices placed by the parameter names of __init__ ==
   the hand model rxn_unpack_with (cons recursion, rxn_split), for ALL byte strings and any molecule decoder *)
Theorem C10_gen_rxn_unpack_is_model : forall (M : Type) dec (f : list Z -> pyres (M * Z)) data,
  gen_rxn_unpack dec f false data = rxn_unpack_with f data.
Proof. exact gen_rxn_unpack_is_model. Qed.
Print Assumptions C10_gen_rxn_unpack_is_model.

(* chython.unpack / unpach on a MOLECULE pack of EITHER version (vbytes: the declarative version 2 or version 0 bit
   layout), followed by anything: the molecule -- legacy version 0 packs keep decoding through the generic entry point *)
Theorem C10_top_unpack_molecule : forall (vm : bool * pmol) suf, pack_ok (snd vm) = true ->
  top_unpack_raw (vbytes vm ++ suf) = Ok (inl (unpacked_of (snd vm) (Z.of_nat (length (vbytes vm))))).
Proof. exact top_unpack_molecule. Qed.
Print Assumptions C10_top_unpack_molecule.

(* ReactionContainer.unpack with the molecule headers checked (each molecule goes through MoleculeContainer.unpack), on
   reaction packs whose molecule packs are version 2 or version 0 IN ANY MIXTURE, all role sizes 0..255 incl. empty
   sides, followed by anything (formerly search only for version 0) *)
Theorem C10_rxn_unpack_versions : forall (rs ags ps : list (bool * pmol)) suf,
  Forall vok rs -> Forall vok ags -> Forall vok ps ->
  (length rs <= 255)%nat -> (length ags <= 255)%nat -> (length ps <= 255)%nat ->
  rxn_unpack_h (rxn_bytes rs ags ps ++ suf) = Ok (map vresult rs, map vresult ags, map vresult ps).
Proof. exact rxn_h_roundtrip. Qed.
Print Assumptions C10_rxn_unpack_versions.

(* chython.unpack on such a reaction pack: the molecule decoder refuses header byte 1 with ValueError, the reaction comes back *)
Theorem C10_top_unpack_reaction : forall (rs ags ps : list (bool * pmol)) suf,
  Forall vok rs -> Forall vok ags -> Forall vok ps ->
  (length rs <= 255)%nat -> (length ags <= 255)%nat -> (length ps <= 255)%nat ->
  top_unpack_raw (rxn_bytes rs ags ps ++ suf) = Ok (inr (map vresult rs, map vresult ags, map vresult ps)).
Proof. exact top_unpack_reaction. Qed.
Print Assumptions C10_top_unpack_reaction.

(* and on what ReactionContainer.pack(check=True) writes *)
Theorem C10_top_unpack_rxn_api : forall rs ags ps : list pmol,
  Forall api_ok rs -> Forall api_ok ags -> Forall api_ok ps ->
  (length rs <= 255)%nat -> (length ags <= 255)%nat -> (length ps <= 255)%nat ->
  exists bytes, rxn_api_pack true rs ags ps = Ok bytes /\
    top_unpack_raw bytes = Ok (inr (map (fun m => unpacked_of m (pack_size m)) rs, map (fun m => unpacked_of m (pack_size m)) ags,
                                    map (fun m => unpacked_of m (pack_size m)) ps)).
Proof. exact top_unpack_rxn_api. Qed.
Print Assumptions C10_top_unpack_rxn_api.

(* the dispatcher at API level (labels re-attached; any reaction decoder, any zlib): chython.unpack(m.pack()) is m, for
   every molecule of C10_api_roundtrip resp. C10_mc_roundtrip, uncompressed and -- when decompress returns the pack -- compressed *)
Theorem C10_top_unpack_api : forall (R : Type) dec (ru : list Z -> pyres R) atoms paths suf,
  pack_ok (api_pmol atoms paths) = true -> labels_sym_b atoms = true ->
  paths_disjoint_b paths = true -> labelled_registered_b atoms paths = true ->
  exists bytes, api_pack atoms paths = Ok bytes /\
    top_unpack dec (api_unpack paths) ru false (bytes ++ suf) = Ok (inl (map uatom_of atoms, ladj_of_atoms atoms, Z.of_nat (length bytes))) /\
    forall z, dec z = Ok (bytes ++ suf) ->
      top_unpack dec (api_unpack paths) ru true z = Ok (inl (map uatom_of atoms, ladj_of_atoms atoms, Z.of_nat (length bytes))).
Proof. exact top_unpack_api. Qed.
Print Assumptions C10_top_unpack_api.

Theorem C10_top_unpack_mc : forall (R : Type) dec (ru : list Z -> pyres R) g xyf suf, mc_ok g xyf = true ->
  exists bytes, mc_pack g xyf = Ok bytes /\
    top_unpack dec mc_unpack ru false (bytes ++ suf) = Ok (inl (g, map xyf (ids g), Z.of_nat (length bytes))) /\
    forall z, dec z = Ok (bytes ++ suf) ->
      top_unpack dec mc_unpack ru true z = Ok (inl (g, map xyf (ids g), Z.of_nat (length bytes))).
Proof. exact top_unpack_mc. Qed.
Print Assumptions C10_top_unpack_mc.

(* errors of the dispatcher: empty -> IndexError; first byte other than 0, 1, 2 -> ValueError; an error of the molecule
   decoder other than ValueError (truncated molecule pack) is not retried as a reaction *)
Theorem C10_top_unpack_errors :
  top_unpack_raw [] = Err IndexError /\
  (forall h rest, h <> 0 -> h <> 1 -> h <> 2 -> top_unpack_raw (h :: rest) = Err ValueError) /\
  (forall data e, hdr_unpack data = Err e -> e <> ValueError -> top_unpack_raw data = Err e).
Proof. exact top_unpack_errors. Qed.
Print Assumptions C10_top_unpack_errors.

(* non-vacuity, evaluated: the molecule at the format limits in both versions, alone and in a reaction pack with an empty
   reagent side whose product packs are of different versions *)
Theorem C10_top_unpack_example :
  vok (true, pack_example) /\ hd 9 (vbytes (true, pack_example)) = 2 /\ hd 9 (vbytes (false, pack_example)) = 0 /\
  match top_unpack_raw (vbytes (false, pack_example)) with Ok (inl u) => up_size u =? Z.of_nat (length (vbytes (false, pack_example))) | _ => false end = true /\
  match top_unpack_raw (rxn_bytes [(false, pack_example)] [] [(true, pack_example); (false, pack_example)]) with
  | Ok (inr (r, a, p)) => (Z.of_nat (length r) =? 1) && (Z.of_nat (length a) =? 0) && (Z.of_nat (length p) =? 2)
  | _ => false
  end = true.
Proof. exact top_unpack_example. Qed.
Print Assumptions C10_top_unpack_example.

(* LENGTH HELPERS, tie by translation (coq/gen/PackLenGen.v, regenerated on every run from the bodies of
   MoleculeContainer.pack_len and ReactionContainer.pack_len): the header tests, `int.from_bytes(data[1:3], 'big') >> 4`, the
   walk over the molecule packs -- `acs >> 12`, the neighbour nibbles `data[shift] & 0x0f` every 9 bytes, `neighbors //= 2`, the
   version dependent step `3 * neighbors + ceil(neighbors * 3 / 8) + (acs & 0x0fff) * 4` resp. `.. ceil(neighbors / 5) * 2 ..`,
   the last molecule, the role slices -- are the hand models mol_pack_len / rxn_pack_len of the length theorems
   (C10_pack_len_correct, C10_rxn_pack_len_correct, C10_rxn_api_roundtrip), for ALL byte strings *)
Theorem C10_gen_mol_pack_len_is_model : forall dec data, gen_mol_pack_len dec false data = mol_pack_len data.
Proof. exact gen_mol_pack_len_is_model. Qed.
Print Assumptions C10_gen_mol_pack_len_is_model.

Theorem C10_gen_rxn_pack_len_is_model : forall dec data, gen_rxn_pack_len dec false data = rxn_pack_len data.
Proof. exact gen_rxn_pack_len_is_model. Qed.
Print Assumptions C10_gen_rxn_pack_len_is_model.

(* ReactionContainer.pack_len on reaction packs PUBLISHED EARLIER (every molecule pack in the version 0 layout), all role
   sizes 0..255 with at least one molecule, empty sides included: the atom counts role by role (the walk steps over 2
   bytes per 5 bonds; formerly search only) *)
Theorem C10_rxn_pack_len_v0_correct : forall rs ags ps : list pmol,
  Forall (fun m => pack_ok m = true) rs -> Forall (fun m => pack_ok m = true) ags -> Forall (fun m => pack_ok m = true) ps ->
  (length rs <= 255)%nat -> (length ags <= 255)%nat -> (length ps <= 255)%nat -> (1 <= length rs + length ags + length ps)%nat ->
  rxn_pack_len ([1; Z.of_nat (length rs); Z.of_nat (length ags); Z.of_nat (length ps)] ++
                concat (map (fun m => bytes_of_bits (layout_v0 m)) (rs ++ ags ++ ps)))
  = Ok (map natoms rs, map natoms ags, map natoms ps).
Proof. exact rxn_pack_len_v0_correct. Qed.
Print Assumptions C10_rxn_pack_len_v0_correct.

Theorem C10_rxn_pack_len_v0_example :
  pack_ok pack_example = true /\
  rxn_pack_len ([1; 1; 0; 2] ++ concat (map (fun m => bytes_of_bits (layout_v0 m)) [pack_example; pack_example; pack_example]))
  = Ok ([16], [], [16; 16]).
Proof. exact rxn_pack_len_v0_example. Qed.
Print Assumptions C10_rxn_pack_len_v0_example.

(* ReactionContainer.pack, tie by translation (coq/gen/PackRxnGen.v): the header `bytearray((1, len(self.reactants),
   len(self.reagents), len(self.products)))` element by element, the order in which molecules() chains the roles, the call
   m.pack(compressed=False, check=check), the compression switch == the hand model rxn_api_pack of the reaction theorems, for
   all reactions *)
Theorem C10_gen_rxn_pack_is_model : forall compress check (rs ags ps : list pmol),
  gen_rxn_pack compress mol_pack false check rs ags ps = rxn_api_pack check rs ags ps.
Proof. exact gen_rxn_pack_is_model. Qed.
Print Assumptions C10_gen_rxn_pack_is_model.
