(* C10 -- binary pack format.  Statements only; proofs in Proofs.PackProofs (and PackRoundtrip*, F16Proofs). *)
From Coq Require Import ZArith List Bool.
From Model Require Import PyBase Pack.
From Proofs Require Import PackProofs.
Import ListNotations.
Open Scope Z_scope.

(* reactions: the (repaired) role split restores reactants / reagents / products for ALL role sizes incl. empty sides *)
Theorem C10_rxn_split_fixed_correct : forall (A : Type) (rs ags ps : list A),
  rxn_split true (rs ++ ags ++ ps) (Z.of_nat (length rs)) (Z.of_nat (length ags)) (Z.of_nat (length ps)) = (rs, ags, ps).
Proof. exact @rxn_split_fixed_correct. Qed.
Print Assumptions C10_rxn_split_fixed_correct.

(* the split as originally written fails exactly for an empty product side (fixed in /repo by a fix: commit) *)
Theorem C10_rxn_split_orig_refuted :
  rxn_split false [10; 20] 1 1 0 = ([10], [], [10; 20]) /\ rxn_split true [10; 20] 1 1 0 = ([10], [20], []).
Proof. exact rxn_split_orig_refuted. Qed.
Print Assumptions C10_rxn_split_orig_refuted.

Theorem C10_rxn_split_orig_partial : forall (A : Type) (rs ags ps : list A), ps <> [] ->
  rxn_split false (rs ++ ags ++ ps) (Z.of_nat (length rs)) (Z.of_nat (length ags)) (Z.of_nat (length ps)) = (rs, ags, ps).
Proof. exact @rxn_split_orig_partial. Qed.
Print Assumptions C10_rxn_split_orig_partial.
