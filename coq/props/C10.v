(* C10 -- binary pack format.  Statements only; the model is Model.Pack (codecs) + Model.PackSpec (format limits
   pack_ok, expected result of unpack), the proofs are in Proofs.PackBits / PackRoundtrip / PackRoundtripGraph /
   PackRoundtripMol / PackProofs. *)
From Coq Require Import ZArith List Bool.
From Model Require Import PyBase Pack PackSpec.
From Proofs Require Import PackBits PackRoundtrip PackRoundtripGraph PackRoundtripMol PackProofs.
Import ListNotations.
Open Scope Z_scope.

(* ROUND TRIP, molecule level.  For EVERY molecule within the format limits (pack_ok: atom numbers 1..4095 without
   repetition, <= 15 neighbours, isotope offset 1..31, charge -4..4, hydrogens 0..6 or None, bond orders 1,2,3,4,8, symmetric
   neighbour tables without loops, terminals known for labelled bonds, < 4096 cis/trans labels) pack succeeds, and unpack
   of the produced bytes -- followed by ANY other bytes, as inside a reaction pack -- returns: the atoms in the same
   order with number, neighbour count, element, isotope, atom stereo label, hydrogens (incl. None), charge, radical flag
   and the four coordinate bytes; every atom's neighbours in the same order with the bond orders; the cis/trans records
   (terminal pair, sign) of the labelled bonds in first-encounter order; and as consumed length the number of bytes
   written. *)
Theorem C10_unpack_pack : forall (m : pmol) (suf : list Z), pack_ok m = true ->
  exists bytes, pack m = Ok bytes /\
    unpack (bytes ++ suf) =
    Ok (mkUnpacked (map uatom_of (pm_atoms m)) (map adj_entry (pm_atoms m))
                   (fwd_ct (pm_terminals m) (mol_fwd [] (pm_atoms m))) (Z.of_nat (length bytes))).
Proof. exact unpack_pack. Qed.
Print Assumptions C10_unpack_pack.

(* non-vacuity: a molecule at the limits (atom number 4095 with 15 neighbours, isotope, charge -4, unknown hydrogens,
   atom stereo, one labelled bond, orders 1,2,3,4,8) satisfies the hypothesis *)
Theorem C10_unpack_pack_nonvacuous :
  pack_ok pack_example = true /\
  (exists a, In a (pm_atoms pack_example) /\ pa_n a = 4095 /\ length (pa_nbrs a) = 15%nat /\ pa_stereo a = Some true /\
             pa_iso a = Some 238 /\ pa_chg a = -4 /\ pa_h a = None) /\
  length (pm_atoms pack_example) = 16%nat /\ length (mol_fwd [] (pm_atoms pack_example)) = 19%nat /\
  fwd_ct (pm_terminals pack_example) (mol_fwd [] (pm_atoms pack_example)) = [(3, 4, true)].
Proof. exact pack_example_ok. Qed.
Print Assumptions C10_unpack_pack_nonvacuous.

(* LAYOUT, block level: pack m is header ++ 9-byte atom records ++ connection table ++ order block ++ cis/trans block *)
Theorem C10_pack_blocks : forall m, pack_ok m = true ->
  pack m = Ok (header_bytes (Z.of_nat (length (pm_atoms m))) (pm_ct_count m) ++ atoms_block (pm_atoms m) ++
               conn_bytes (mol_conns (pm_atoms m)) ++ order_bytes (fwd_orders (mol_fwd [] (pm_atoms m))) ++
               flat_map ct_record (fwd_ct (pm_terminals m) (mol_fwd [] (pm_atoms m)))).
Proof. exact pack_blocks. Qed.
Print Assumptions C10_pack_blocks.

(* LAYOUT of the bond order block: the 8-state writer produces exactly the 3-bit fields, most significant bit first,
   zero padded to a whole byte -- for ALL lists of order codes 0..7 *)
Theorem C10_order_block_layout : forall os, Forall (fun o => 0 <= o < 8) os ->
  order_bytes os = bytes_of_bits (flat_map bits3 os).
Proof. exact order_bytes_layout. Qed.
Print Assumptions C10_order_block_layout.

(* LAYOUT of the connection table: two 12-bit numbers per 3 bytes *)
Theorem C10_conn_table_layout : forall ms, Forall (fun m => 0 <= m < 4096) ms -> Nat.Even (length ms) ->
  conn_bytes ms = pair_bytes ms.
Proof. exact conn_bytes_layout. Qed.
Print Assumptions C10_conn_table_layout.

(* the size pack computes before allocating is the number of bytes it writes (no byte of the buffer is left unwritten
   or written twice) *)
Theorem C10_pack_size_correct : forall m bytes, pack_ok m = true -> pack m = Ok bytes ->
  pack_size m = Z.of_nat (length bytes).
Proof. exact pack_size_correct. Qed.
Print Assumptions C10_pack_size_correct.

(* MoleculeContainer.pack_len reads the atom count back *)
Theorem C10_pack_len_correct : forall m bytes suf, pack_ok m = true -> pack m = Ok bytes ->
  mol_pack_len (bytes ++ suf) = Ok (Z.of_nat (length (pm_atoms m))).
Proof. exact mol_pack_len_correct. Qed.
Print Assumptions C10_pack_len_correct.

(* reactions: the role split by counts restores reactants / reagents / products for ALL role sizes incl. empty sides *)
Theorem C10_rxn_split_correct : forall (A : Type) (rs ags ps : list A),
  rxn_split (rs ++ ags ++ ps) (Z.of_nat (length rs)) (Z.of_nat (length ags)) (Z.of_nat (length ps)) = (rs, ags, ps).
Proof. exact @rxn_split_correct. Qed.
Print Assumptions C10_rxn_split_correct.
