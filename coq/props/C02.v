(* C02 -- SMILES write -> read is lossless; canonical strings never collide.  Statements only.
   Model: Model.Writer (writer: Smiles._smiles, _format_atom, _format_bond, __ct_map, _format_cxsmiles; reader side: _tokenize
   on the SMILES alphabet and _atom_parse).  Tables regenerated from chython/algorithms/smiles.py,
   chython/files/daylight/tokenize.py and chython/periodictable on every run (Gen.SmilesTables, Gen.Elements).
   Proofs: Proofs.WriterProofs*. *)
From Coq Require Import ZArith List String Ascii Bool.
From Model Require Import PyBase Graph PeriodicTable Stereo Writer.
From Gen Require Import Elements SmilesTables.
From Proofs Require Import WriterProofs WriterProofsAtom WriterProofsTokens.
Import ListNotations.
Open Scope Z_scope.

(* ---- layer 0: the writer's tables against the reader's tables ---- *)

(* every charge -4..4 has a spelling, and charge_dict maps that spelling back to the same charge *)
Theorem C02_charge_tables_agree : forall c, -4 <= c <= 4 -> c <> 0 ->
  exists s, zget charge_str c = Some s /\ sget1 charge_dict s = Some c.
Proof. exact charge_tables_agree. Qed.
Print Assumptions C02_charge_tables_agree.

(* every ring closure number the heap can hand out is read back as that number, also when two are written in a row *)
Theorem C02_closure_roundtrip : forall c, heap_lo <= c < heap_hi -> tokenize (format_closure c) = Ok [RClosure c].
Proof. exact closure_roundtrip. Qed.
Print Assumptions C02_closure_roundtrip.

Theorem C02_closure_pair_roundtrip : forall c d, heap_lo <= c < heap_hi -> heap_lo <= d < heap_hi ->
  tokenize (format_closure c ++ format_closure d) = Ok [RClosure c; RClosure d].
Proof. exact closure_pair_roundtrip. Qed.
Print Assumptions C02_closure_pair_roundtrip.

(* the token _format_bond writes for a bond denotes the order of that bond, for every molecule and option set *)
Theorem C02_format_bond_denotes : forall g o ctm n m b s,
  bond_of g n m = Some b -> valid_order (b_ord b) -> format_bond g o ctm n m = Ok s ->
  (s = EmptyString /\ (o_bonds o = false \/ b_ord b = 1 \/ (b_ord b = 4 /\ o_aromatic o = true))) \/
  ((s = "/"%string \/ s = "\"%string) /\ b_ord b = 1 /\ o_stereo o = true) \/
  tokenize s = Ok [RBond (b_ord b)].
Proof. exact format_bond_denotes. Qed.
Print Assumptions C02_format_bond_denotes.

Theorem C02_updown_tokens : tokenize "/" = Ok [RUpDown true] /\ tokenize "\" = Ok [RUpDown false].
Proof. exact updown_tokens. Qed.
Print Assumptions C02_updown_tokens.

(* every element symbol of the periodic table is read as that element; its lower-case form as the aromatic atom *)
Theorem C02_element_symbols_parse : forall e, In e elements ->
  atom_parse (e_sym e) = Ok (plain_parsed 0 (e_sym e)) /\
  (smem (lower_string (e_sym e)) aromatic_bracket_symbols = true ->
   atom_parse (lower_string (e_sym e)) = Ok (plain_parsed 8 (e_sym e))).
Proof. exact element_symbols_parse. Qed.
Print Assumptions C02_element_symbols_parse.

Theorem C02_organic_symbols_tokenize :
  forallb (fun s => pyres_eqb (list_eqb rtok_eqb) (tokenize s) (Ok [RAtom s])) organic_set = true /\
  forallb (fun s => pyres_eqb (list_eqb rtok_eqb) (tokenize (lower_string s)) (Ok [RArom s])) ["B"; "C"; "N"; "O"; "P"; "S"]%string = true /\
  forallb (fun s => match from_symbol s with Some _ => true | None => false end) organic_set = true.
Proof. exact organic_symbols_tokenize. Qed.
Print Assumptions C02_organic_symbols_tokenize.

(* ---- layer 1: bracket atoms.  atom_parse (the matcher for atom_re) inverts what _format_atom writes ---- *)

(* the matcher, for every well-formed combination of the six groups of atom_re (isotope 1-3 digits not starting with 0,
   one- or two-letter symbol, @ / @@, H / H1-H4, a charge spelling of charge_str, :1-4 digits) *)
Theorem C02_parse_components : forall isoL iso symL stL st hL h chgL chg mapL mp,
  iso_comp isoL iso -> sym_comp symL -> st_comp stL st -> h_comp hL h -> chg_comp chgL chg -> map_comp mapL mp ->
  atom_parse_chars (isoL ++ symL ++ stL ++ hL ++ chgL ++ mapL) = Ok (parsed_of symL iso st h chg mp).
Proof. exact parse_components. Qed.
Print Assumptions C02_parse_components.

(* all field values in the ranges of the pattern x all 118 element symbols (and the nine lower-case aromatic forms) *)
Theorem C02_atom_body_roundtrip : forall e (arom : bool) iso st h chg mp,
  In e elements -> (arom = true -> smem (lower_string (e_sym e)) aromatic_bracket_symbols = true) ->
  iso_in_range iso -> h_in_range h -> -4 <= chg <= 4 -> map_in_range mp ->
  atom_parse (atom_body iso (if arom then lower_string (e_sym e) else e_sym e) st h chg mp) =
  Ok (mkParsed (if arom then 8 else 0) (e_sym e) (iso_val iso) mp chg (h_val h) st).
Proof. exact atom_body_roundtrip. Qed.
Print Assumptions C02_atom_body_roundtrip.

(* the writer: whenever _format_atom (atom_fields) writes atom n of ANY molecule in brackets under ANY options, the text
   between the brackets is parsed back into the atom's element (aromatic iff written in lower case), isotope, charge
   (0 under !z), hydrogen count, the stereo mark written, and n as atom map under `m`.  The hypotheses are the ranges of
   the reader's pattern; the two of them that real molecules can violate are the recorded findings below. *)
Theorem C02_atom_token_roundtrip : forall g o tabs n adj a f e,
  atom_of g n = Some a -> atom_fields g o tabs n adj = Ok f -> af_br f = true ->
  In e elements -> from_number (a_num a) = Some e ->
  (o_aromatic o = true -> hybridization g n = 4 -> smem (lower_string (e_sym e)) aromatic_bracket_symbols = true) ->
  iso_in_range (a_iso a) -> h_in_range (a_h a) -> (o_mapping o = true -> 0 <= n <= 9999) ->
  spell_atom f = scat ["["%string; scat [af_iso f; af_sym f; af_st f; af_h f; af_chg f; af_map f]; "]"%string] /\
  atom_parse (scat [af_iso f; af_sym f; af_st f; af_h f; af_chg f; af_map f]) =
  Ok (mkParsed (if o_aromatic o && (hybridization g n =? 4) then 8 else 0) (e_sym e) (iso_val (a_iso a))
               (if o_mapping o then Some n else None)
               (if o_charges o then a_chg a else 0)
               (if String.eqb (af_h f) "" then 0 else h_val (a_h a))
               (st_of_mark (af_st f))).
Proof. exact atom_token_roundtrip. Qed.
Print Assumptions C02_atom_token_roundtrip.

(* non-vacuity: a bracket atom with every field set, written by the model and parsed back *)
Theorem C02_atom_token_example :
  let g := mkMol [(7, mkAtom 6 (Some 13) (-1) false (Some 2) None)] [(7, [])] in
  atom_fields g (opts_of_spec "m") no_stabs 7 [(7, [])] =
    Ok (mkAF true "13" "C" "" "H2" "-" ":7") /\
  atom_parse "13CH2-:7" = Ok (mkParsed 0 "C" (Some 13) (Some 7) (-1) 2 None).
Proof. exact atom_token_example. Qed.
Print Assumptions C02_atom_token_example.

(* the hypotheses are needed: the two recorded defects of the unchanged code, as facts about the reader's matcher
   (replayed on the implementation by the check: keys aromatic-atom-of-element-without-lowercase-symbol, atom-map-above-9999) *)
Theorem C02_atom_token_roundtrip_refuted_aromatic :
  exists e p, In e elements /\ atom_parse (lower_string (e_sym e)) = Ok p /\ from_symbol (p_elem p) = None.
Proof. exact aromatic_foreign_symbol_unreadable. Qed.
Print Assumptions C02_atom_token_roundtrip_refuted_aromatic.

Theorem C02_atom_token_roundtrip_refuted_map :
  atom_parse "CH3:10000" = Err IncorrectSmiles /\ atom_parse "CH3:9999" = Ok (mkParsed 0 "C" None (Some 9999) 0 3 None).
Proof. exact atom_map_limit. Qed.
Print Assumptions C02_atom_token_roundtrip_refuted_map.

(* ---- layer 2: the token stream.  _tokenize splits the concatenation of written tokens into exactly these tokens ---- *)

(* the tokenizer never inspects the tokens it has already produced *)
Theorem C02_tokenizer_frame : forall p l st, tk_loop (pre p st) l = lift p (tk_loop st l).
Proof. exact (fun p l st => tk_loop_frame p l st). Qed.
Print Assumptions C02_tokenizer_frame.

(* for EVERY sequence of writer tokens (bare organic atoms, lower-case aromatic atoms, bracket atoms with any non-empty
   bracket-free body, bond symbols, direction marks, closure numbers 1..99 as _format_closure writes them, parentheses,
   dots) in which '(' is not directly followed by a closure number or a parenthesis *)
Theorem C02_tokens_roundtrip : forall ts, wtoks_ok false ts = true -> tokenize (spellws ts) = Ok (map rt_of ts).
Proof. exact tokens_roundtrip. Qed.
Print Assumptions C02_tokens_roundtrip.

Theorem C02_tokens_roundtrip_needs_side_condition :
  tokenize (spellws [WBare "C"; WOpen; WClosure 1; WBare "C"; WClose; WBare "C"; WClosure 1]) = Err IncorrectSmiles.
Proof. exact tokens_roundtrip_needs_side_condition. Qed.
Print Assumptions C02_tokens_roundtrip_needs_side_condition.

Theorem C02_tokens_roundtrip_example :
  let ts := [WBare "C"; WOpen; WBond 2; WBare "O"; WClose; WBracket "O-"; WDot; WArom "C"; WClosure 1; WArom "C"; WArom "C";
             WBracket "nH"; WArom "C"; WClosure 1; WClosure 12; WUpDown true; WBare "C"; WBond 2; WBare "C"; WUpDown false;
             WBare "Cl"]%string in
  wtoks_ok false ts = true /\ spellws ts = "C(=O)[O-].c1cc[nH]c1%12/C=C\Cl"%string /\
  tokenize "C(=O)[O-].c1cc[nH]c1%12/C=C\Cl" = Ok (map rt_of ts).
Proof. exact tokens_roundtrip_example. Qed.
Print Assumptions C02_tokens_roundtrip_example.
