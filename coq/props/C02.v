(* C02 -- SMILES write -> read is lossless; canonical strings never collide.  Statements only.
   Model: Model.Writer (writer: Smiles._smiles, _format_atom, _format_bond, __ct_map, _format_cxsmiles; reader side: _tokenize
   on the SMILES alphabet and _atom_parse).  Tables regenerated from chython/algorithms/smiles.py,
   chython/files/daylight/tokenize.py and chython/periodictable on every run (Gen.SmilesTables, Gen.SmilesMore, Gen.Elements).
   Reader's parser: Model.Parser / Model.SmilesAst (C03), used by the read_write_graph clauses at the end.
   Proofs: Proofs.WriterProofs*, WriterWf*, WriterSeq*, WriterGenTies. *)
From Coq Require Import ZArith List String Ascii Bool.
From Model Require Import PyBase Graph PeriodicTable Stereo Writer.
From Gen Require Import Elements SmilesTables SmilesMore SmilesEntry CtMap FormatAtom.
From Coq Require Import Permutation Sorted.
From Proofs Require Import WriterProofs WriterProofsAtom WriterProofsTokens WriterProofsStream WriterProofsClosures WriterProofsRefuted
                           WriterWfAtoms WriterWfFlatten WriterWfStream WriterWfDfs WriterWfEvents WriterWfTree WriterWfClosures WriterWfParens
                           WriterWfComplete WriterWfFlatten2 WriterWfDistinct WriterWfFinal WriterWfRun
                           WriterWfFuelDfs WriterWfFuelFlat WriterWfFuelRun WriterWfFuelBfs WriterSeqFlatten WriterSeqTree WriterSeqAtoms WriterGenTies WriterSeqBonds WriterSeqRings WriterSeqDisc WriterEntryTies WriterCtMapTie WriterCtMapAnti WriterAtomTie WriterCxProofs.
Import ListNotations.
Open Scope Z_scope.

(* ---- layer 0: the writer's tables against the reader's tables ---- *)

(* every charge -4..4 has a spelling, and charge_dict maps that spelling back to the same charge *)
Theorem C02_charge_tables_agree : forall c, -4 <= c <= 4 -> c <> 0 ->
  exists s, zget charge_str c = Some s /\ sget1 charge_dict s = Some c.
Proof. exact charge_tables_agree. Qed.
Print Assumptions C02_charge_tables_agree.

(* every ring closure number the heap can hand out is read back as that number, also when two are written in a row *)
Theorem C02_closure_roundtrip : forall c, heap_lo <= c < heap_hi -> tokenize (format_closure c) = Ok [RClosure c].
Proof. exact closure_roundtrip. Qed.
Print Assumptions C02_closure_roundtrip.

Theorem C02_closure_pair_roundtrip : forall c d, heap_lo <= c < heap_hi -> heap_lo <= d < heap_hi ->
  tokenize (format_closure c ++ format_closure d) = Ok [RClosure c; RClosure d].
Proof. exact closure_pair_roundtrip. Qed.
Print Assumptions C02_closure_pair_roundtrip.

(* the token _format_bond writes for a bond denotes the order of that bond, for every molecule and option set *)
Theorem C02_format_bond_denotes : forall g o ctm n m b s,
  bond_of g n m = Some b -> valid_order (b_ord b) -> format_bond g o ctm n m = Ok s ->
  (s = EmptyString /\ (o_bonds o = false \/ b_ord b = 1 \/ (b_ord b = 4 /\ o_aromatic o = true))) \/
  ((s = "/"%string \/ s = "\"%string) /\ b_ord b = 1 /\ o_stereo o = true) \/
  tokenize s = Ok [RBond (b_ord b)].
Proof. exact format_bond_denotes. Qed.
Print Assumptions C02_format_bond_denotes.

Theorem C02_updown_tokens : tokenize "/" = Ok [RUpDown true] /\ tokenize "\" = Ok [RUpDown false].
Proof. exact updown_tokens. Qed.
Print Assumptions C02_updown_tokens.

(* every element symbol of the periodic table is read as that element; its lower-case form as the aromatic atom *)
Theorem C02_element_symbols_parse : forall e, In e elements ->
  atom_parse (e_sym e) = Ok (plain_parsed 0 (e_sym e)) /\
  (smem (lower_string (e_sym e)) aromatic_bracket_symbols = true ->
   atom_parse (lower_string (e_sym e)) = Ok (plain_parsed 8 (e_sym e))).
Proof. exact element_symbols_parse. Qed.
Print Assumptions C02_element_symbols_parse.

Theorem C02_organic_symbols_tokenize :
  forallb (fun s => pyres_eqb (list_eqb rtok_eqb) (tokenize s) (Ok [RAtom s])) organic_set = true /\
  forallb (fun s => pyres_eqb (list_eqb rtok_eqb) (tokenize (lower_string s)) (Ok [RArom s])) ["B"; "C"; "N"; "O"; "P"; "S"]%string = true /\
  forallb (fun s => match from_symbol s with Some _ => true | None => false end) organic_set = true.
Proof. exact organic_symbols_tokenize. Qed.
Print Assumptions C02_organic_symbols_tokenize.

(* ---- layer 1: bracket atoms.  atom_parse (the matcher for atom_re) inverts what _format_atom writes ---- *)

(* the matcher, for every well-formed combination of the six groups of atom_re (isotope 1-3 digits not starting with 0,
   one- or two-letter symbol, @ / @@, H / H1-H4, a charge spelling of charge_str, : and one or more digits) *)
Theorem C02_parse_components : forall isoL iso symL stL st hL h chgL chg mapL mp,
  iso_comp isoL iso -> sym_comp symL -> st_comp stL st -> h_comp hL h -> chg_comp chgL chg -> map_comp mapL mp ->
  atom_parse_chars (isoL ++ symL ++ stL ++ hL ++ chgL ++ mapL) = Ok (parsed_of symL iso st h chg mp).
Proof. exact parse_components. Qed.
Print Assumptions C02_parse_components.

(* all field values in the ranges of the pattern x all 118 element symbols (and the nine lower-case aromatic forms) *)
Theorem C02_atom_body_roundtrip : forall e (arom : bool) iso st h chg mp,
  In e elements -> (arom = true -> smem (lower_string (e_sym e)) aromatic_bracket_symbols = true) ->
  iso_in_range iso -> h_in_range h -> -4 <= chg <= 4 -> map_in_range mp ->
  atom_parse (atom_body iso (if arom then lower_string (e_sym e) else e_sym e) st h chg mp) =
  Ok (mkParsed (if arom then 8 else 0) (e_sym e) (iso_val iso) mp chg (h_val h) st).
Proof. exact atom_body_roundtrip. Qed.
Print Assumptions C02_atom_body_roundtrip.

(* the writer: whenever _format_atom (atom_fields) writes atom n of ANY molecule in brackets under ANY options, the text
   between the brackets is parsed back into the atom's element (aromatic iff written in lower case), isotope, charge
   (0 under !z), hydrogen count, the stereo mark written, and n as atom map under `m`.  The hypotheses are the ranges of
   the reader's pattern; the aromatic one is violated by real molecules (recorded finding below); atom maps above 9999 are accepted by the matcher since fix 6e5bd93 (C02_parse_components covers them), the bound here is only that of the str() sweep. *)
Theorem C02_atom_token_roundtrip : forall g o tabs n adj a f e,
  atom_of g n = Some a -> atom_fields g o tabs n adj = Ok f -> af_br f = true ->
  In e elements -> from_number (a_num a) = Some e ->
  (o_aromatic o = true -> hybridization g n = 4 -> smem (lower_string (e_sym e)) aromatic_bracket_symbols = true) ->
  iso_in_range (a_iso a) -> h_in_range (a_h a) -> (o_mapping o = true -> 0 <= n <= 9999) ->
  spell_atom f = scat ["["%string; scat [af_iso f; af_sym f; af_st f; af_h f; af_chg f; af_map f]; "]"%string] /\
  atom_parse (scat [af_iso f; af_sym f; af_st f; af_h f; af_chg f; af_map f]) =
  Ok (mkParsed (if o_aromatic o && (hybridization g n =? 4) then 8 else 0) (e_sym e) (iso_val (a_iso a))
               (if o_mapping o then Some n else None)
               (if o_charges o then a_chg a else 0)
               (if String.eqb (af_h f) "" then 0 else h_val (a_h a))
               (st_of_mark (af_st f))).
Proof. exact atom_token_roundtrip. Qed.
Print Assumptions C02_atom_token_roundtrip.

(* non-vacuity: a bracket atom with every field set, written by the model and parsed back *)
Theorem C02_atom_token_example :
  let g := mkMol [(7, mkAtom 6 (Some 13) (-1) false (Some 2) None)] [(7, [])] in
  atom_fields g (opts_of_spec "m") no_stabs 7 [(7, [])] =
    Ok (mkAF true "13" "C" "" "H2" "-" ":7") /\
  atom_parse "13CH2-:7" = Ok (mkParsed 0 "C" (Some 13) (Some 7) (-1) 2 None).
Proof. exact atom_token_example. Qed.
Print Assumptions C02_atom_token_example.

(* the aromatic hypothesis is needed: recorded defect of the unchanged code, as a fact about the reader's matcher
   (replayed on the implementation by the check: key aromatic-atom-of-element-without-lowercase-symbol) *)
Theorem C02_atom_token_roundtrip_refuted_aromatic :
  exists e p, In e elements /\ atom_parse (lower_string (e_sym e)) = Ok p /\ from_symbol (p_elem p) = None.
Proof. exact aromatic_foreign_symbol_unreadable. Qed.
Print Assumptions C02_atom_token_roundtrip_refuted_aromatic.

(* the second range hypothesis (atom maps) is no longer a defect: since fix 6e5bd93 the map group takes any number of digits *)
Theorem C02_atom_map_long : atom_parse "CH3:10000" = Ok (mkParsed 0 "C" None (Some 10000) 0 3 None) /\
                            atom_parse "CH3:123456789012" = Ok (mkParsed 0 "C" None (Some 123456789012) 0 3 None).
Proof. exact atom_map_long. Qed.
Print Assumptions C02_atom_map_long.

(* ---- layer 2: the token stream.  _tokenize splits the concatenation of written tokens into exactly these tokens ---- *)

(* the tokenizer never inspects the tokens it has already produced *)
Theorem C02_tokenizer_frame : forall p l st, tk_loop (pre p st) l = lift p (tk_loop st l).
Proof. exact (fun p l st => tk_loop_frame p l st). Qed.
Print Assumptions C02_tokenizer_frame.

(* for EVERY sequence of writer tokens (bare organic atoms, lower-case aromatic atoms, bracket atoms with any non-empty
   bracket-free body, bond symbols, direction marks, closure numbers 1..99 as _format_closure writes them, parentheses,
   dots) in which '(' is not directly followed by a closure number or a parenthesis *)
Theorem C02_tokens_roundtrip : forall ts, wtoks_ok false ts = true -> tokenize (spellws ts) = Ok (map rt_of ts).
Proof. exact tokens_roundtrip. Qed.
Print Assumptions C02_tokens_roundtrip.

Theorem C02_tokens_roundtrip_needs_side_condition :
  tokenize (spellws [WBare "C"; WOpen; WClosure 1; WBare "C"; WClose; WBare "C"; WClosure 1]) = Err IncorrectSmiles.
Proof. exact tokens_roundtrip_needs_side_condition. Qed.
Print Assumptions C02_tokens_roundtrip_needs_side_condition.

Theorem C02_tokens_roundtrip_example :
  let ts := [WBare "C"; WOpen; WBond 2; WBare "O"; WClose; WBracket "O-"; WDot; WArom "C"; WClosure 1; WArom "C"; WArom "C";
             WBracket "nH"; WArom "C"; WClosure 1; WClosure 12; WUpDown true; WBare "C"; WBond 2; WBare "C"; WUpDown false;
             WBare "Cl"]%string in
  wtoks_ok false ts = true /\ spellws ts = "C(=O)[O-].c1cc[nH]c1%12/C=C\Cl"%string /\
  tokenize "C(=O)[O-].c1cc[nH]c1%12/C=C\Cl" = Ok (map rt_of ts).
Proof. exact tokens_roundtrip_example. Qed.
Print Assumptions C02_tokens_roundtrip_example.

(* ---- layer 2b: the writer's list of strings against the token stream (verified checker, evaluated by the check on
   every output of the model) ---- *)

(* whenever the checker recognises the list of strings the writer produced (wtoks_of) and the side condition holds,
   the text is tokenized into exactly these tokens, for every molecule, weight function, tie-break and option set *)
Theorem C02_writer_text_tokenizes : forall g w tb o tabs out order ts,
  smiles_tokens g w tb o tabs = Ok (Some (out, order)) -> wtoks_of out = Some ts -> wtoks_ok false ts = true ->
  tokenize (spell out) = Ok (map rt_of ts) /\
  (format_cxsmiles g order = None \/ o_cx o = false -> smiles_text g w tb o tabs = Ok (spell out, order)).
Proof. exact writer_text_tokenizes. Qed.
Print Assumptions C02_writer_text_tokenizes.

Theorem C02_stream_example :
  match smiles_tokens ex_mol (fun n => n) (fun n => n) default_opts no_stabs with
  | Ok (Some (out, order)) => stream_ok out = true /\ spell out = "[nH]1cccc1.[Na+]"%string
  | _ => False
  end.
Proof. exact stream_example. Qed.
Print Assumptions C02_stream_example.

(* ---- layer 3: ring-closure numbers (heap with delayed release) ---- *)

(* one atom: for ANY state satisfying the invariant and ANY closure list in which no cycle appears twice and every cycle
   is either open or new: open cycles keep their numbers; the numbers of all cycles that are open somewhere at this atom
   (open before it, ending at it, or starting at it) are pairwise different; the invariant holds again after the delayed
   release.  [good] is any property of the numbers of the initial heap. *)
Theorem C02_closure_numbers_atom : forall (good : Z -> Prop) cl casted heap open seen casted' heap' rel,
  Inv good casted heap open seen -> NoDup open ->
  NoDup (map snd cl) -> (forall c, In c (map snd cl) -> In c open \/ ~ In c seen) ->
  number_closures cl casted heap [] = Ok (casted', heap', rel) ->
  let cs := map snd cl in
  (forall c, In c open -> cnum casted' c = cnum casted c) /\
  NoDup (map (cnum casted') (open ++ opening seen cs)) /\
  Inv good casted' (fold_left (fun h c => heap_push c h) rel heap') (open_after open seen cs) (seen ++ opening seen cs) /\
  NoDup (open_after open seen cs).
Proof. exact atom_no_clash. Qed.
Print Assumptions C02_closure_numbers_atom.

(* all atoms of a component, any number of atoms and cycles: the invariant is preserved by number_atoms, so the atom theorem
   applies at every atom of the run; cycles that were open at the start keep their numbers to the end *)
Theorem C02_closure_numbers_consistent : forall (good : Z -> Prop) tokens ro todo casted heap open seen casted' heap',
  Inv good casted heap open seen -> NoDup open ->
  wf_events open seen (map (fun a => map snd (atom_closures tokens ro (fst a))) todo) ->
  number_atoms tokens ro todo casted heap = Ok (casted', heap') ->
  exists open' seen', Inv good casted' heap' open' seen' /\ NoDup open' /\
                      (forall c, In c open -> cnum casted' c = cnum casted c).
Proof. exact closure_numbers_consistent. Qed.
Print Assumptions C02_closure_numbers_consistent.

(* from the initial state (heap = range(1, 100), nothing numbered): every number is one of 1..99, hence read back
   as itself (C02_closure_roundtrip) *)
Theorem C02_closure_numbers_in_range : forall tokens ro todo casted' heap',
  wf_events [] [] (map (fun a => map snd (atom_closures tokens ro (fst a))) todo) ->
  number_atoms tokens ro todo [] (zrange heap_lo heap_hi) = Ok (casted', heap') ->
  forall c k, zget casted' c = Some k -> heap_lo <= k < heap_hi.
Proof. exact closure_numbers_in_range. Qed.
Print Assumptions C02_closure_numbers_in_range.

Theorem C02_initial_inv : Inv closure_number_ok [] (zrange heap_lo heap_hi) [] [].
Proof. exact initial_inv. Qed.
Print Assumptions C02_initial_inv.

(* the hypothesis on the closure lists is decidable; the check evaluates it on the model's runs *)
Theorem C02_wf_events_decidable : forall evs open seen, wf_events_b open seen evs = true -> wf_events open seen evs.
Proof. exact wf_events_b_sound. Qed.
Print Assumptions C02_wf_events_decidable.

(* non-vacuity: a spiro atom where cycle 1 ends and cycle 2 starts: cycle 2 gets number 2 although 1 is being released *)
Theorem C02_delayed_release_example :
  number_atoms [(1, [(3, 1)]); (3, [(1, 1); (5, 2)]); (5, [(3, 2)])] [(1, 0); (3, 2); (5, 4)] [(1, 0); (3, 2); (5, 4)] []
               (zrange heap_lo heap_hi) = Ok ([(1, 1); (2, 2)], zrange heap_lo heap_hi) /\
  wf_events [] [] [[1]; [1; 2]; [2]].
Proof. exact delayed_release_example. Qed.
Print Assumptions C02_delayed_release_example.

(* ---- the full goal `canonical_injective` (equal canonical strings => same molecule) is FALSE for the faithful model of the
   current code: recorded finding cis-trans-on-ring-closure-double-bond.  Witness: smiles('C/C1=C/C=C/CCCCCC1') and the same
   molecule with the cis/trans label of the ring-closure double bond 2=3 inverted, with the implementation's own weights
   (_chiral_morgan), get one canonical string; replayed on the real code by the check on every run.  When the writer is
   repaired this theorem must be deleted and the model updated. ---- *)
Theorem C02_canonical_injective_refuted :
  mol_eqb rf_g1 rf_g2 = false /\
  list_eqb (pair_eqb Z.eqb atom_eqb) (m_atoms rf_g1) (m_atoms rf_g2) = true /\
  smiles_text rf_g1 (rf_fun rf_w1) rf_tb default_opts rf_t1 = Ok ("C/C=1/CCCCCC/C=C/C=1"%string, rf_order) /\
  smiles_text rf_g2 (rf_fun rf_w2) rf_tb default_opts rf_t2 = Ok ("C/C=1/CCCCCC/C=C/C=1"%string, rf_order).
Proof. exact canonical_injective_refuted. Qed.
Print Assumptions C02_canonical_injective_refuted.

(* ---- writer_wellformed, token-stream part: stream_ok is a THEOREM about every traversal (extension round) ---- *)

(* every string _format_atom returns is one valid written token, for any molecule whose atom is in the reader's ranges *)
Theorem C02_format_atom_token : forall g o tabs n adj s,
  format_atom g o tabs n adj = Ok s -> atom_writable g o n ->
  exists w, atom_token s = Some w /\ wtok_ok w = true.
Proof. exact format_atom_token. Qed.
Print Assumptions C02_format_atom_token.

(* every string _format_bond returns is one of the eight bond spellings (unconditionally) *)
Theorem C02_format_bond_token : forall g o ctm n m s, format_bond g o ctm n m = Ok s ->
  exists ts, bond_token s = Some ts /\ forallb wtok_ok ts = true /\ forallb after_open_ok ts = true.
Proof. exact format_bond_token. Qed.
Print Assumptions C02_format_bond_token.

(* the flattening loop, for ANY traversal: '(' is always followed by a bond token and an atom, a bond token by an atom
   (so the `if smiles[-2] == '('` branch of the code is dead) *)
Theorem C02_flatten_shaped : forall g t smi, flatten g t = Ok smi -> shaped smi.
Proof. exact flatten_shaped. Qed.
Print Assumptions C02_flatten_shaped.

(* every closure number written comes from the heap 1..99, whatever the closure lists are (no hypothesis) *)
Theorem C02_closure_numbers_from_heap : forall tokens ro todo casted heap casted' heap',
  Rng casted heap -> number_atoms tokens ro todo casted heap = Ok (casted', heap') ->
  Rng casted' heap' /\
  (forall a x, In a todo -> In x (zgetl tokens (fst a)) -> zget casted' (snd x) <> None).
Proof. exact na_rng. Qed.
Print Assumptions C02_closure_numbers_from_heap.

(* the list of strings the writer produces is accepted by the stream checker: for EVERY molecule whose atoms are in the
   ranges of the reader's pattern, every weight function, tie-break, stereo registry and option set *)
Theorem C02_writer_stream_ok : forall g w tb o tabs, atoms_writable g o ->
  forall out order, smiles_tokens g w tb o tabs = Ok (Some (out, order)) -> stream_ok out = true.
Proof. exact writer_stream_ok. Qed.
Print Assumptions C02_writer_stream_ok.

(* hence: the text written is split by _tokenize into exactly the tokens the strings stand for (unconditional form of
   C02_writer_text_tokenizes) *)
Theorem C02_writer_tokenizes : forall g w tb o tabs out order,
  atoms_writable g o -> smiles_tokens g w tb o tabs = Ok (Some (out, order)) ->
  exists ts, wtoks_of out = Some ts /\ wtoks_ok false ts = true /\ tokenize (spell out) = Ok (map rt_of ts).
Proof. exact writer_tokenizes. Qed.
Print Assumptions C02_writer_tokenizes.

(* the hypothesis is decidable (evaluated by the check on every molecule of the correspondence) *)
Theorem C02_atoms_writable_decidable : forall g o, atoms_writable_b g o = true -> atoms_writable g o.
Proof. exact atoms_writable_b_sound. Qed.
Print Assumptions C02_atoms_writable_decidable.

Theorem C02_writer_tokenizes_example :
  atoms_writable ex_mol default_opts /\
  exists out order ts, smiles_tokens ex_mol (fun n => n) (fun n => n) default_opts no_stabs = Ok (Some (out, order)) /\
                       wtoks_of out = Some ts /\ tokenize "[nH]1cccc1.[Na+]" = Ok (map rt_of ts).
Proof. exact writer_tokenizes_example. Qed.
Print Assumptions C02_writer_tokenizes_example.

(* ---- writer_wellformed, traversal part: invariants of the DFS for ANY sort key, weights and number of steps ---- *)

Theorem C02_wf_mol_graph : forall g, wf_mol g = true -> loop_free g /\ adj_sym g.
Proof. exact wf_mol_graph. Qed.
Print Assumptions C02_wf_mol_graph.

(* whatever traverse returns: every tree edge and every ring-closure pair is a bond of the molecule (nothing is written that
   is not there), every cycle number of this component sits in the closure lists of exactly two different atoms, once in each *)
Theorem C02_traverse_invariant : forall g w tb o all st t, loop_free g -> adj_sym g ->
  traverse g w tb o all st = Ok t -> DI g (ws_cycle st) (tr_dfs t).
Proof. exact traverse_DI. Qed.
Print Assumptions C02_traverse_invariant.

(* hence the closure lists of ANY traversal satisfy wf_events, the hypothesis of C02_closure_numbers_consistent.
   _partial: still assumes that the flattened token list mentions no ring atom twice (NoDup of the ring positions) *)
Theorem C02_traverse_wf_events_partial : forall g w tb o all st t, loop_free g -> adj_sym g ->
  traverse g w tb o all st = Ok t ->
  forall smi open seen,
    let tokens := ds_tokens (tr_dfs t) in
    let ro := ring_positions tokens smi 0 in
    NoDup (map fst ro) -> (forall c, In c open -> In c seen) -> (forall c, In c seen -> c <= ws_cycle st) ->
    wf_events open seen (map (fun a => map snd (atom_closures tokens ro (fst a))) ro).
Proof. exact traverse_wf_events. Qed.
Print Assumptions C02_traverse_wf_events_partial.

(* the table `edges` of ANY traversal is a forest: duplicate-free children lists, unique parents, the start atom nobody's child *)
Theorem C02_traverse_forest : forall g w tb o all st t, traverse g w tb o all st = Ok t ->
  Forest (ds_edges (tr_dfs t)) (tr_start t).
Proof. exact traverse_forest. Qed.
Print Assumptions C02_traverse_forest.

(* the flattening loop never writes an atom twice, for ANY traversal (invariant of fl_step on forests) *)
Theorem C02_flatten_nodup : forall g w tb o all st t smi, traverse g w tb o all st = Ok t -> flatten g t = Ok smi ->
  NoDup (atoms_of smi).
Proof. exact flatten_nodup. Qed.
Print Assumptions C02_flatten_nodup.

(* the closure lists of ANY traversal of a loop-free symmetric molecule satisfy wf_events: the side condition of
   C02_traverse_wf_events_partial is discharged, wf_events is a theorem instead of a per-output check *)
Theorem C02_traverse_wf_events : forall g w tb o all st t smi open seen, loop_free g -> adj_sym g ->
  traverse g w tb o all st = Ok t -> flatten g t = Ok smi ->
  (forall c, In c open -> In c seen) -> (forall c, In c seen -> c <= ws_cycle st) ->
  let tokens := ds_tokens (tr_dfs t) in
  let ro := ring_positions tokens smi 0 in
  wf_events open seen (map (fun a => map snd (atom_closures tokens ro (fst a))) ro).
Proof. exact traverse_wf_events_full. Qed.
Print Assumptions C02_traverse_wf_events.

(* every run of the writer on a well-formed molecule: the closure-number invariant (C02_closure_numbers_atom at every atom,
   numbers in 1..99, open cycles keep their numbers) holds initially, is preserved by every component and by the whole
   `while True` loop, and each component's closure lists satisfy wf_events for the cycles open / seen so far *)
Theorem C02_writer_closure_numbers : forall g w tb o tabs, wf_mol g = true ->
  forall fuel st st', CInv (init_state g) /\
    (CInv st -> components g w tb o tabs fuel (ids g) st = Ok st' -> CInv st') /\
    (forall open seen, Inv rng (ws_casted st) (ws_heap st) open seen -> NoDup open -> (forall c, In c seen -> c <= ws_cycle st) ->
       component g w tb o tabs (ids g) st = Ok st' ->
       exists t smi, traverse g w tb o (ids g) st = Ok t /\ flatten g t = Ok smi /\ wf_events open seen (events_of t smi) /\ CInv st').
Proof. exact writer_closure_numbers. Qed.
Print Assumptions C02_writer_closure_numbers.

(* parentheses are balanced in the token list of ANY traversal (depth never negative, ends at 0) *)
Theorem C02_flatten_balanced : forall g t smi, flatten g t = Ok smi -> balanced smi.
Proof. exact flatten_balanced. Qed.
Print Assumptions C02_flatten_balanced.

(* ---- writer_wellformed: completeness (second extension round) ---- *)

(* the DFS, any sort key: when the loop ends, the stack is empty, every neighbour of a visited atom is visited and every bond
   between visited atoms is recorded (tree edge in one direction, or ring-closure pair); the depth limit never cuts *)
Theorem C02_traverse_complete : forall g w tb o all st t,
  (forall n m, In n (ws_atoms st) -> In m (nbr_ids g n) -> In m (ws_atoms st)) ->
  traverse g w tb o all st = Ok t ->
  let d := tr_dfs t in
  ds_stack d = [] /\ vis d (tr_start t) /\ In (tr_start t) (ws_atoms st) /\
  (forall n, vis d n -> In n (ws_atoms st)) /\
  (forall v, vis d v -> forall m, In m (nbr_ids g v) -> vis d m /\ Rec d v m).
Proof. exact traverse_complete. Qed.
Print Assumptions C02_traverse_complete.

(* the flattening loop: whenever it returns, the token list is the WHOLE tree below the start atom: it contains the root, is
   closed under children, and its bond tokens are exactly the (parent, child) pairs of its atoms, each once *)
Theorem C02_flatten_full : forall g w tb o all st t smi, traverse g w tb o all st = Ok t -> flatten g t = Ok smi ->
  res_full (ds_edges (tr_dfs t)) (tr_start t) smi.
Proof. exact flatten_full. Qed.
Print Assumptions C02_flatten_full.

(* writer_wellformed, one component, ANY weights / tie-break / options: the token list contains every atom of one connected
   component of the unwritten atoms exactly once and every bond between them exactly once - as a tree bond token or as one
   ring-closure pair recorded on both atoms with one cycle number - and nothing else (record component_wf) *)
Theorem C02_writer_wellformed : forall g w tb o all st t smi, wf_mol g = true ->
  (forall n m, In n (ws_atoms st) -> In m (nbr_ids g n) -> In m (ws_atoms st)) ->
  traverse g w tb o all st = Ok t -> flatten g t = Ok smi ->
  component_wf g (ws_atoms st) t smi.
Proof. exact writer_wellformed. Qed.
Print Assumptions C02_writer_wellformed.

(* the whole run: the side condition holds for every component, the components partition the molecule *)
Theorem C02_component_run : forall g w tb o tabs, wf_mol g = true -> forall st st',
  RI g st -> component g w tb o tabs (ids g) st = Ok st' ->
  RI g st' /\ exists t smi, traverse g w tb o (ids g) st = Ok t /\ flatten g t = Ok smi /\
                          component_wf g (ws_atoms st) t smi /\
                          ws_order st' = ws_order st ++ atoms_of smi /\
                          Permutation (ws_atoms st) (ws_atoms st' ++ atoms_of smi).
Proof. exact component_run. Qed.
Print Assumptions C02_component_run.

(* every atom of a well-formed molecule is written exactly once: smiles_atoms_order is a permutation of the atom numbers *)
Theorem C02_writer_order_permutation : forall g w tb o tabs, wf_mol g = true ->
  forall out order, smiles_tokens g w tb o tabs = Ok (Some (out, order)) -> Permutation order (ids g).
Proof. exact writer_order_permutation. Qed.
Print Assumptions C02_writer_order_permutation.

(* ---- fuel sufficiency (third round): the fuelled loops of the model end within their fuel ---- *)

(* the DFS `while stack:` ends within dfs_fuel = n_dbonds + 2 n_atoms + 2 iterations (decreasing measure: pending children on
   the stack + unvisited atoms weighted by their degree) *)
Theorem C02_traverse_total : forall g w tb o all st,
  NoDup (ws_atoms st) -> (forall n, In n (ws_atoms st) -> In n (ids g)) -> ws_atoms st <> [] ->
  (forall n m, In n (ws_atoms st) -> In m (nbr_ids g n) -> In m (ws_atoms st)) ->
  exists t, traverse g w tb o all st = Ok t.
Proof. exact traverse_total. Qed.
Print Assumptions C02_traverse_total.

(* the flattening loop returns within fl_fuel = 3 n_atoms + 3 iterations and none of its IndexError branches is reachable *)
Theorem C02_flatten_total : forall g w tb o all st t, nbr_nodup g -> loop_free g ->
  NoDup (ws_atoms st) -> (forall n, In n (ws_atoms st) -> In n (ids g)) ->
  (forall n m, In n (ws_atoms st) -> In m (nbr_ids g n) -> In m (ws_atoms st)) ->
  traverse g w tb o all st = Ok t -> exists smi, flatten g t = Ok smi.
Proof. exact flatten_total. Qed.
Print Assumptions C02_flatten_total.

(* unconditional form of C02_writer_wellformed: for every state the run can be in, the two loops return and what they return
   is well-formed *)
Theorem C02_component_loops_total : forall g w tb o, wf_mol g = true -> forall st, RI g st -> ws_atoms st <> [] ->
  exists t smi, traverse g w tb o (ids g) st = Ok t /\ flatten g t = Ok smi /\ component_wf g (ws_atoms st) t smi.
Proof. exact component_loops_total. Qed.
Print Assumptions C02_component_loops_total.

(* the whole writer on a well-formed molecule: it returns, or it returns the error of the closure numbering (heappop from the
   empty heap) or of the token formatting (_format_atom / _format_bond / __ct_map) of one component - never a fuel error *)
Theorem C02_writer_total : forall g w tb o tabs, wf_mol g = true ->
  (exists r, smiles_tokens g w tb o tabs = Ok r) \/
  (exists e st, smiles_tokens g w tb o tabs = Err e /\ RI g st /\ ws_atoms st <> [] /\ component_error g w tb o tabs st e).
Proof. exact writer_total. Qed.
Print Assumptions C02_writer_total.

(* the BFS that labels the component with distances empties its queue within n_atoms + 1 iterations: more fuel never changes it *)
Theorem C02_bfs_fuel_sufficient : forall g st start k, wf_mol g = true -> RI g st -> In start (ws_atoms st) ->
  bfs g (S (n_atoms g) + k) [(start, 1)] (zset (ws_seen st) start 0) = bfs g (S (n_atoms g)) [(start, 1)] (zset (ws_seen st) start 0).
Proof. exact bfs_fuel_sufficient. Qed.
Print Assumptions C02_bfs_fuel_sufficient.

(* ---- ties: hand-written constants / branch orders of Model.Writer against values regenerated from the source on every run
   (tools/gen_smiles_more.py -> Gen.SmilesMore) ---- *)

(* Smiles.__format__: the options the model derives from a format spec are those of the generated flag table
   (substring, keyword, value in source order) over the generated keyword defaults (kwargs.get(name, default)) *)
Theorem C02_opts_of_spec_generated : forall spec, opts_of_spec spec = opts_gen spec.
Proof. exact opts_of_spec_generated. Qed.
Print Assumptions C02_opts_of_spec_generated.

Theorem C02_default_opts_generated : opts_gen "" = default_opts /\
  forallb (fun fkv => match kw_lookup kw_defaults (snd (fst fkv)) with Some _ => true | None => false end) spec_flags = true.
Proof. exact default_opts_generated. Qed.
Print Assumptions C02_default_opts_generated.

(* MoleculeSmiles._format_bond: the model tests the bond orders in the generated order and returns the generated strings *)
Theorem C02_format_bond_generated : forall g o ctm n m,
  format_bond g o ctm n m =
  if negb (o_bonds o) then Ok (br 0) else
  match bond_of g n m with
  | None => Err KeyError
  | Some b =>
      if b_ord b =? bt 0 then Ok (if o_aromatic o then br 1 else br 2)
      else if b_ord b =? bt 1 then
        if o_aromatic o && (hybridization g n =? 4) && (hybridization g m =? 4) then Ok (br 3)
        else if o_stereo o then
          match ctm with
          | Err e => Err e
          | Ok cm => match pget cm (n, m) with Some x => Ok (if x then br 4 else br 5) | None => Ok (br 6) end
          end
        else Ok (br 6)
      else if b_ord b =? bt 2 then Ok (br 7)
      else if b_ord b =? bt 3 then Ok (br 8)
      else Ok (br 9)
  end.
Proof. exact format_bond_generated. Qed.
Print Assumptions C02_format_bond_generated.

(* MoleculeSmiles._format_cxsmiles: prefix, separator and suffix of the radical block *)
Theorem C02_format_cxsmiles_generated : forall g order,
  format_cxsmiles g order =
  if existsb (fun na => a_rad (snd na)) (m_atoms g)
  then Some (scat [cx_prefix; String.concat cx_sep (map str_Z (radical_positions g order 0)); cx_suffix])
  else None.
Proof. exact format_cxsmiles_generated. Qed.
Print Assumptions C02_format_cxsmiles_generated.

(* atom_re: every character test of the staged matcher is membership in the class expanded from the pattern text *)
Theorem C02_atom_re_classes_generated : forall c,
  in_range c "1" "9" = char_in c re_iso_first /\
  is_digit c = char_in c re_iso_more /\
  elem_first c = char_in c re_el_first /\
  elem_second c = char_in c re_el_second /\
  in_range c "1" "4" = char_in c re_h_digits /\
  (Ascii.eqb c "+" || Ascii.eqb c "-") = char_in c re_chg_first /\
  (in_range c "1" "4" || Ascii.eqb c "+" || Ascii.eqb c "-") = char_in c re_chg_second /\
  is_digit c = char_in c re_map_digits.
Proof. exact atom_re_classes_generated. Qed.
Print Assumptions C02_atom_re_classes_generated.

Theorem C02_atom_re_iso_bound_generated : re_iso_more_max = 2.
Proof. exact atom_re_iso_bound_generated. Qed.
Print Assumptions C02_atom_re_iso_bound_generated.

(* ---- towards read_write_graph (third round): sequence-level flattening and the tree of the traversal ---- *)
(* from here on the reader's own models (C03) are in scope; their names shadow Writer.v's copies *)
From Model Require Import Tokenize Parser SmilesAst.

(* the flattening of ANY traversal, as a sequence: TAtom start followed by the serialisation Ser of the tree below the start atom
   (children c1 .. ck of n are written  ( bond c1 Ser(c1) ) ... ( bond ck-1 Ser(ck-1) ) bond ck Ser(ck) ) *)
Theorem C02_flatten_ser : forall g t smi, flatten g t = Ok smi ->
  exists l, Ser (ds_edges (tr_dfs t)) (tr_start t) l /\ smi = TAtom (tr_start t) :: l.
Proof. exact flatten_ser. Qed.
Print Assumptions C02_flatten_ser.

(* the tree of the traversal in C03's abstract syntax (Model.SmilesAst): for any assignment of reader tokens to atoms (atom token,
   ring-bond digits) and tree bonds, the serialisation read as reader tokens is the spelling of a well-formed tree whose shape
   is the table `edges` (TreeOf) *)
Theorem C02_component_tree : forall edges aty atk rings bnd,
  (forall n, zmem (aty n) [0; 8] = true) -> (forall n, forallb (fun r : option token * Z => bond_ok (fst r)) (rings n) = true) ->
  (forall p c, bond_ok (bnd p c) = true) ->
  forall start l, Ser edges start l ->
  exists t, TreeOf edges aty atk rings bnd start t /\ wf_tree t = true /\ spell t = ctoks aty atk rings bnd (TAtom start :: l).
Proof. exact component_tree. Qed.
Print Assumptions C02_component_tree.

(* read_write_graph, the part that is proved: with C03's read_spell_denote, the reader's parser (Model.Parser.parse) run on the
   reader tokens of the token list of ANY traversal returns the denotation (SmilesAst.denote, structural recursion over the tree)
   of the tree of the traversal.
   _partial - missing for read_write_graph: (i) that C03's tokenizer model (Model.Tokenize) turns the written TEXT into these
   tokens (C02_writer_tokenizes is about Writer.v's own copy of the tokenizer); (ii) the evaluation of `denote` on this tree:
   the atom list in written order is C02_written_atoms_parsed, the tree bonds are C02_written_tree_bonds_parsed (extension
   round 3), the ring-closure bonds are C02_written_ring_bonds_parsed / C02_written_ring_bonds_of_numbering (extension round 3:
   the parser's digit table follows the writer's cycles because number_atoms never gives an opening cycle the number of an open one);
   still missing in (ii): that `rings n` of the emitted text is the closure list of atom n with the numbers of number_atoms (emit);
   (iii) Reader.v (create_molecule) from the parsed record to the molecule; (iv) several components (the dot) *)
Theorem C02_read_write_graph_partial : forall g t smi aty atk rings bnd strong,
  (forall n, zmem (aty n) [0; 8] = true) -> (forall n, forallb (fun r : option token * Z => bond_ok (fst r)) (rings n) = true) ->
  (forall p c, bond_ok (bnd p c) = true) ->
  flatten g t = Ok smi ->
  exists tr, TreeOf (ds_edges (tr_dfs t)) aty atk rings bnd (tr_start t) tr /\
             parse (ctoks aty atk rings bnd smi) strong = denote strong tr.
Proof. exact flatten_parse_denote. Qed.
Print Assumptions C02_read_write_graph_partial.

(* read_write_graph, atoms clause at the level of the reader's parser: whenever Parser.parse accepts the reader tokens of a written
   token list, the atom list of the parsed record is the list of the written atoms IN WRITTEN ORDER, each with the dictionary of
   its token (for ANY token list: C02_parse_atoms; for the writer's lists: C02_written_atoms_parsed) *)
Theorem C02_parse_atoms : forall ts strong rec, parse ts strong = Ok rec -> p_atoms rec = flat_map atom_part ts.
Proof. exact parse_atoms. Qed.
Print Assumptions C02_parse_atoms.

Theorem C02_written_atoms_parsed : forall aty atk rings bnd,
  (forall n, zmem (aty n) [0; 8] = true) -> (forall n, forallb (fun r : option token * Z => bond_ok (fst r)) (rings n) = true) ->
  (forall p c, bond_ok (bnd p c) = true) ->
  forall smi strong rec,
    parse (ctoks aty atk rings bnd smi) strong = Ok rec -> p_atoms rec = map (fun n => strip_stereo (atk n)) (atoms_of smi).
Proof. exact written_atoms_parsed. Qed.
Print Assumptions C02_written_atoms_parsed.

(* read_write_graph, tree-bond clause at the level of the reader's parser (extension round 3; by structural induction over the
   tree of the traversal on SmilesAst.den, then C03's read_spell_denote): for the token list of ANY traversal, whenever Parser.parse
   accepts its reader tokens, every tree edge parent - child the writer wrote (TBond p c) is a bond of the parsed record between
   the positions of c and p in the WRITTEN ATOM ORDER, with the value of the written bond token (aromatic / single by the two
   atom types when nothing or a direction mark is written; no bond for the dot): tree_bond / bval *)
Theorem C02_denote_tree_bonds : forall aty atk rings bnd,
  (forall n, zmem (aty n) [0; 8] = true) -> (forall n, forallb (fun r : option token * Z => bond_ok (fst r)) (rings n) = true) ->
  (forall p c, bond_ok (bnd p c) = true) ->
  forall it strong rec, denote strong (erase aty atk rings bnd it) = Ok rec ->
  forall p c, In (p, c) (ipairs it) -> edge_ok aty bnd (p_bonds rec) 0 (ipre it) p c.
Proof. exact denote_tree_bonds. Qed.
Print Assumptions C02_denote_tree_bonds.

Theorem C02_written_tree_bonds_parsed : forall g t smi aty atk rings bnd strong rec,
  (forall n, zmem (aty n) [0; 8] = true) -> (forall n, forallb (fun r : option token * Z => bond_ok (fst r)) (rings n) = true) ->
  (forall p c, bond_ok (bnd p c) = true) ->
  flatten g t = Ok smi -> parse (ctoks aty atk rings bnd smi) strong = Ok rec ->
  forall p c, In (p, c) (pairs_of smi) ->
    exists i j, nth_error (atoms_of smi) i = Some p /\ nth_error (atoms_of smi) j = Some c /\
      incl (tree_bond (bnd p c) (Z.of_nat j) (Z.of_nat i) (aty c) (aty p)) (p_bonds rec).
Proof. exact written_tree_bonds_parsed. Qed.
Print Assumptions C02_written_tree_bonds_parsed.

(* the written atoms are duplicate-free (C02_flatten_nodup), so these are THE positions of parent and child *)
Theorem C02_written_tree_bonds_parsed_at : forall g w tb o all st t smi aty atk rings bnd strong rec,
  (forall n, zmem (aty n) [0; 8] = true) -> (forall n, forallb (fun r : option token * Z => bond_ok (fst r)) (rings n) = true) ->
  (forall p c, bond_ok (bnd p c) = true) ->
  traverse g w tb o all st = Ok t -> flatten g t = Ok smi -> parse (ctoks aty atk rings bnd smi) strong = Ok rec ->
  forall p c i j, In (p, c) (pairs_of smi) -> nth_error (atoms_of smi) i = Some p -> nth_error (atoms_of smi) j = Some c ->
    incl (tree_bond (bnd p c) (Z.of_nat j) (Z.of_nat i) (aty c) (aty p)) (p_bonds rec).
Proof. exact written_tree_bonds_parsed_at. Qed.
Print Assumptions C02_written_tree_bonds_parsed_at.

(* non-vacuity: C(=O)(N)c as a tree *)
Theorem C02_tree_bonds_example :
  let aty := fun n => if n =? 4 then 8 else 0 in
  let atk := fun n : Z => simple_atom (String.String "C"%char String.EmptyString) in
  let rings := fun _ : Z => @nil (option token * Z) in
  let bnd := fun p c : Z => if c =? 2 then Some (1, PInt 2) else None in
  let it := INode 1 [INode 2 []; INode 3 []; INode 4 []] in
  ipairs it = [(1, 2); (1, 3); (1, 4)] /\ ipre it = [1; 2; 3; 4] /\
  exists rec, denote true (erase aty atk rings bnd it) = Ok rec /\
              p_bonds rec = [(1, 0, PInt 2); (2, 0, PInt 1); (3, 0, PInt 1)].
Proof. exact tree_bonds_example. Qed.
Print Assumptions C02_tree_bonds_example.

(* read_write_graph, ring-closure clause at the level of the reader's parser (extension round 3).
   cyc n: the cycles (identifiers) written at atom n in written order; num c: the number written for cycle c; rb n c: the bond token
   in front of it.  cl_atoms replays the closures by IDENTIFIER (first occurrence opens, second closes): (c, a, p) = cycle c opened at
   position a, closed at position p of the written atom order.  disc_atoms: the number of an opening cycle is not the number of a
   cycle open at that moment.  Under it, for ANY written token list the parser accepts: every cycle listed at an atom is closed,
   every closing joins two atoms that both list the cycle, and the bond (p, a, value) is in the parsed record - the parser's table,
   keyed by NUMBER, follows the identifiers (linear simulation Cyc over the reader tokens) *)
Theorem C02_written_ring_bonds_parsed : forall aty atk rings bnd,
  (forall n, zmem (aty n) [0; 8] = true) -> (forall p c, bond_ok (bnd p c) = true) ->
  forall cyc num rb, (forall n, rings n = map (fun c => (rb n c, num c)) (cyc n)) -> (forall n c, bond_ok (rb n c) = true) ->
  forall smi strong rec,
    parse (ctoks aty atk rings bnd smi) strong = Ok rec -> disc_atoms cyc num 0 (atoms_of smi) [] ->
    (forall x c, In x (atoms_of smi) -> In c (cyc x) -> exists a p, In (c, a, p) (cl_atoms cyc 0 (atoms_of smi) [])) /\
    (forall c a p, In (c, a, p) (cl_atoms cyc 0 (atoms_of smi) []) ->
       (exists x y, nth_error (atoms_of smi) (Z.to_nat a) = Some x /\ nth_error (atoms_of smi) (Z.to_nat p) = Some y /\
                    In c (cyc x) /\ In c (cyc y) /\ 0 <= a <= p) /\
       exists v, In (p, a, v) (p_bonds rec)).
Proof. exact written_ring_bonds_parsed. Qed.
Print Assumptions C02_written_ring_bonds_parsed.

(* the writer's numbering obeys the discipline: at every atom, the cycles open before it and the cycles opened at it carry pairwise
   different FINAL numbers (from C02_closure_numbers_atom and: a number once given is never changed) *)
Theorem C02_numbers_disciplined : forall (good : Z -> Prop) tokens ro todo casted heap open seen casted' heap',
  Inv good casted heap open seen -> NoDup open ->
  wf_events open seen (map (fun a => map snd (atom_closures tokens ro (fst a))) todo) ->
  number_atoms tokens ro todo casted heap = Ok (casted', heap') ->
  Disc_ev (cnum casted') open seen (map (fun a => map snd (atom_closures tokens ro (fst a))) todo).
Proof. exact numbers_disciplined. Qed.
Print Assumptions C02_numbers_disciplined.

(* ... which gives disc_atoms for ANY order in which the closures of an atom are written (the writer sorts them by number);
   atoms without closures are skipped (Align) *)
Theorem C02_disc_atoms_of_events : forall cyc num ats evs, Align cyc ats evs -> forall k op open seen,
  wf_events open seen evs -> Disc_ev num open seen evs ->
  NoDup (op_ids op) -> (forall c, In c (op_ids op) <-> In c open) -> (forall c, In c open -> In c seen) ->
  disc_atoms cyc num k ats op.
Proof. exact disc_atoms_of_events. Qed.
Print Assumptions C02_disc_atoms_of_events.

(* together, for any component (nothing open at its start): the numbers of number_atoms and the parser's digit table *)
Theorem C02_written_ring_bonds_of_numbering :
  forall (good : Z -> Prop) tokens ro todo casted heap seen casted' heap' aty atk rings bnd cyc rb smi strong rec,
  let evs := map (fun a : Z * Z => map snd (atom_closures tokens ro (fst a))) todo in
  let num := cnum casted' in
  Inv good casted heap [] seen -> wf_events [] seen evs -> number_atoms tokens ro todo casted heap = Ok (casted', heap') ->
  Align cyc (atoms_of smi) evs ->
  (forall n, zmem (aty n) [0; 8] = true) -> (forall p c, bond_ok (bnd p c) = true) ->
  (forall n, rings n = map (fun c => (rb n c, num c)) (cyc n)) -> (forall n c, bond_ok (rb n c) = true) ->
  parse (ctoks aty atk rings bnd smi) strong = Ok rec ->
  (forall x c, In x (atoms_of smi) -> In c (cyc x) -> exists a p, In (c, a, p) (cl_atoms cyc 0 (atoms_of smi) [])) /\
  (forall c a p, In (c, a, p) (cl_atoms cyc 0 (atoms_of smi) []) ->
     (exists x y, nth_error (atoms_of smi) (Z.to_nat a) = Some x /\ nth_error (atoms_of smi) (Z.to_nat p) = Some y /\
                  In c (cyc x) /\ In c (cyc y) /\ 0 <= a <= p) /\
     exists v, In (p, a, v) (p_bonds rec)).
Proof. exact written_ring_bonds_of_numbering. Qed.
Print Assumptions C02_written_ring_bonds_of_numbering.

(* non-vacuity: C1CC1, cycle 7 numbered 1 *)
Theorem C02_ring_bonds_example :
  let aty := fun _ : Z => 0 in
  let atk := fun n : Z => simple_atom (String.String "C"%char String.EmptyString) in
  let cyc := fun n : Z => if (n =? 10) || (n =? 30) then [7] else [] in
  let num := fun _ : Z => 1 in
  let rb := fun _ _ : Z => @None token in
  let rings := fun n => map (fun c => (rb n c, num c)) (cyc n) in
  let bnd := fun _ _ : Z => @None token in
  let smi := [TAtom 10; TBond 10 20; TAtom 20; TBond 20 30; TAtom 30] in
  disc_atoms cyc num 0 (atoms_of smi) [] /\ cl_atoms cyc 0 (atoms_of smi) [] = [(7, 0, 2)] /\
  exists rec, parse (ctoks aty atk rings bnd smi) true = Ok rec /\ p_bonds rec = [(1, 0, PInt 1); (2, 1, PInt 1); (2, 0, PInt 1)].
Proof. exact ring_bonds_example. Qed.
Print Assumptions C02_ring_bonds_example.

(* ---- round 4: tie by translation ---- *)

(* MoleculeSmiles.__ct_map (the choice of the / \ marks): the bodies of its two loops and its frame, translated statement by
   statement from chython/algorithms/smiles.py on every run (Gen.CtMap, tools/gen_ctmap.py), are the hand-written model for ALL
   arguments: molecule, registries, loop state, neighbour *)
Theorem C02_ct_inner_generated : forall g tabs k cs env acc v,
  g_ct_inner g tabs k cs env acc v = ct_inner g tabs k cs env acc v.
Proof. exact ct_inner_generated. Qed.
Print Assumptions C02_ct_inner_generated.

Theorem C02_ct_outer_generated : forall g tabs acc kv, g_ct_outer g tabs acc kv = ct_outer g tabs acc kv.
Proof. exact ct_outer_generated. Qed.
Print Assumptions C02_ct_outer_generated.

Theorem C02_ct_map_generated : forall g tabs adj, g_ct_map g tabs adj = ct_map g tabs adj.
Proof. exact ct_map_generated. Qed.
Print Assumptions C02_ct_map_generated.

(* non-vacuity: F/C=C/F, a non-empty mark table, the same from both *)
Theorem C02_ct_map_generated_example :
  let g := mkMol [(1, mkAtom 9 None 0 false (Some 0) None); (2, mkAtom 6 None 0 false (Some 1) None);
                  (3, mkAtom 6 None 0 false (Some 1) None); (4, mkAtom 9 None 0 false (Some 0) None)]
                 [(1, [(2, mkBond 1 None)]); (2, [(1, mkBond 1 None); (3, mkBond 2 (Some true))]);
                  (3, [(2, mkBond 2 (Some true)); (4, mkBond 1 None)]); (4, [(3, mkBond 1 None)])] in
  let tabs := mkStabs [] [] [] [((2, 3), (1, 4, None, None))] [(2, (2, 3)); (3, (2, 3))] [(2, (2, 3)); (3, (2, 3))] [(2, 3); (3, 2)] in
  let adj := [(1, [2]); (2, [1; 3]); (3, [2; 4]); (4, [3])] in
  exists cm, g_ct_map g tabs adj = Ok cm /\ cm <> [] /\ ct_map g tabs adj = Ok cm.
Proof. exact ct_map_generated_example. Qed.
Print Assumptions C02_ct_map_generated_example.

(* the entry points Smiles.__str__, smiles_atoms_order, __format__ (Gen.SmilesEntry, tools/gen_smiles_entry.py: their bodies
   translated statement by statement; `run` = the value of self._smiles(...), `cxf` = self._format_cxsmiles, the second component =
   what is written into the instance dictionary): whichever is used first, the string returned / cached in the slot @cached_method
   reads and the order returned / cached in the slot @cached_property reads are the same text and order, and the text carries the
   CXSMILES block whenever _format_cxsmiles gives one *)
Theorem C02_entry_points_agree : forall run cxf,
  let s := entry_text run cxf in
  let o := snd run in
  fst (g_str run cxf) = RStr s /\ cache_get (snd (g_str run cxf)) slot_order = Some (COrder o) /\
  fst (g_atoms_order run cxf) = ROrder o /\ cache_get (snd (g_atoms_order run cxf)) slot_str = Some (CStr s) /\
  fst (g_format_order run cxf) = RPair (ejoin (fst run)) o /\
  cache_get (snd (g_format_order run cxf)) slot_str = Some (CStr s) /\
  cache_get (snd (g_format_order run cxf)) slot_order = Some (COrder o) /\
  (forall spec, esubstr "!x" spec = false -> g_format_spec run cxf spec false = (RStr s, [])) /\
  (forall spec, esubstr "!x" spec = true -> g_format_spec run cxf spec false = (RStr (ejoin (fst run)), [])) /\
  (forall spec, g_format_spec run cxf spec true = (RPair (ejoin (fst run)) o, [])).
Proof. exact entry_points_agree. Qed.
Print Assumptions C02_entry_points_agree.

Theorem C02_entry_text_has_block : forall run cxf cx,
  cxf (snd run) = Some cx -> entry_text run cxf = (ejoin (fst run) ++ " " ++ cx)%string.
Proof. exact entry_text_has_block. Qed.
Print Assumptions C02_entry_text_has_block.

Theorem C02_entry_points_example :
  let run := (["C"; "[CH2]"]%string, [1; 2]) in
  let cxf := fun _ : list Z => Some "|^1:1|"%string in
  g_str run cxf = (RStr "C[CH2] |^1:1|", [("smiles_atoms_order"%string, COrder [1; 2])]) /\
  g_atoms_order run cxf = (ROrder [1; 2], [("__cached_method___str__"%string, CStr "C[CH2] |^1:1|")]).
Proof. exact entry_points_example. Qed.
Print Assumptions C02_entry_points_example.

(* Writer.smiles_text (the model of format(mol, spec) of the theorems above) is the generated tail of __format__ applied to the
   model's _smiles and _format_cxsmiles *)
Theorem C02_smiles_text_generated : forall g w tb spec tabs,
  smiles_text g w tb (opts_of_spec spec) tabs =
  match smiles_tokens g w tb (opts_of_spec spec) tabs with
  | Err e => Err e
  | Ok None => Err ValueError
  | Ok (Some (out, order)) =>
      match fst (g_format_spec (map spell_otok out, order) (format_cxsmiles g) spec false) with
      | RStr s => Ok (s, order)
      | _ => Err ValueError
      end
  end.
Proof. exact smiles_text_generated. Qed.
Print Assumptions C02_smiles_text_generated.

(* ---- round 4: from search to theorem - the direction marks ---- *)

(* the mark table of __ct_map is antisymmetric for EVERY molecule, registry and adjacency (loop invariant, no hypothesis on the
   input): a mark for the bond spelled a -> b comes with the opposite mark for b -> a *)
Theorem C02_ct_map_antisymmetric : forall g tabs adj cm,
  ct_map g tabs adj = Ok cm -> forall a b s, a <> b -> pget cm (a, b) = Some s -> pget cm (b, a) = Some (negb s).
Proof. exact ct_map_antisymmetric. Qed.
Print Assumptions C02_ct_map_antisymmetric.

(* hence at token level, under any options: a bond written '/' from n to m is written '\' from m to n and vice versa (the two ends
   of a ring closure, a branch entered from the other side) *)
Theorem C02_format_bond_marks_opposite : forall g o tabs adj n m,
  n <> m -> bond_of g m n = bond_of g n m ->
  (format_bond g o (ct_map g tabs adj) n m = Ok "/"%string -> format_bond g o (ct_map g tabs adj) m n = Ok "\"%string) /\
  (format_bond g o (ct_map g tabs adj) n m = Ok "\"%string -> format_bond g o (ct_map g tabs adj) m n = Ok "/"%string).
Proof. exact format_bond_marks_opposite. Qed.
Print Assumptions C02_format_bond_marks_opposite.

Theorem C02_ct_map_antisymmetric_example :
  exists cm, ct_map anti_g anti_tabs anti_adj = Ok cm /\
    pget cm (1, 2) = Some true /\ pget cm (2, 1) = Some false /\
    (exists s, pget cm (3, 4) = Some s /\ pget cm (4, 3) = Some (negb s)) /\
    format_bond anti_g default_opts (ct_map anti_g anti_tabs anti_adj) 1 2 = Ok "/"%string /\
    format_bond anti_g default_opts (ct_map anti_g anti_tabs anti_adj) 2 1 = Ok "\"%string.
Proof. exact ct_map_antisymmetric_example. Qed.
Print Assumptions C02_ct_map_antisymmetric_example.

(* ---- round 4: tie by translation - the decision part of _format_atom ---- *)

(* Writer.format_atom is the hand-written head (atom and symbol lookup, stereo mark) followed by the tail of MoleculeSmiles._format_atom
   as translated from the source on every run (Gen.FormatAtom, tools/gen_format_atom.py: charge slot, the bracket / hydrogen-count
   chain, aromatic lower-casing, join), for ALL molecules, options, registries and atoms *)
Theorem C02_format_atom_generated : forall g o tabs n adj,
  format_atom g o tabs n adj =
  match atom_of g n with
  | None => Err KeyError
  | Some a =>
      match symbol_of_num (a_num a) with
      | None => Err KeyError
      | Some sym =>
          match stereo_mark g o tabs n adj a with
          | Err e => Err e
          | Ok st =>
              g_format_atom_tail o [EmptyString; iso_slot a; EmptyString; st; EmptyString; EmptyString; map_slot o n; EmptyString]
                                 (a_chg a) sym (a_rad a) (a_h a) (hybridization g n) (a_num a) (negb (no_plain_neighbours g n))
          end
      end
  end.
Proof. exact format_atom_generated. Qed.
Print Assumptions C02_format_atom_generated.

Theorem C02_format_atom_generated_example :
  g_format_atom_tail default_opts [EmptyString; EmptyString; EmptyString; EmptyString; EmptyString; EmptyString; EmptyString; EmptyString]
                     0 "N" false (Some 1) 4 7 true = Ok "[nH]"%string /\
  g_format_atom_tail default_opts [EmptyString; "13"%string; EmptyString; "@"%string; EmptyString; EmptyString; EmptyString; EmptyString]
                     1 "C" false (Some 1) 1 6 true = Ok "[13C@H+]"%string.
Proof. exact format_atom_generated_example. Qed.
Print Assumptions C02_format_atom_generated_example.

(* ---- round 4: from search to theorem - the CXSMILES radical block of the writer ---- *)

(* for every molecule and every written order: the block exists exactly when some atom is a radical; it is '|^1:' + positions joined
   by ',' + '|'; the positions are exactly the zero-based written positions of the radical atoms, each once, ascending *)
Theorem C02_cxsmiles_block_spec : forall g order,
  (format_cxsmiles g order = None <-> existsb (fun na => a_rad (snd na)) (m_atoms g) = false) /\
  (forall cx, format_cxsmiles g order = Some cx ->
     cx = scat ["|^1:"%string; String.concat "," (map str_Z (radical_positions g order 0)); "|"%string]) /\
  (forall p, In p (radical_positions g order 0) <->
     exists k n, nth_error order k = Some n /\ p = Z.of_nat k /\ is_rad g n = true) /\
  StronglySorted Z.lt (radical_positions g order 0).
Proof. exact cxsmiles_block_spec. Qed.
Print Assumptions C02_cxsmiles_block_spec.

Theorem C02_cxsmiles_block_example :
  let g := mkMol [(1, mkAtom 6 None 0 false (Some 3) None); (2, mkAtom 6 None 0 true (Some 2) None)]
                 [(1, [(2, mkBond 1 None)]); (2, [(1, mkBond 1 None)])] in
  format_cxsmiles g [1; 2] = Some "|^1:1|"%string /\ format_cxsmiles g [2; 1] = Some "|^1:0|"%string.
Proof. exact cxsmiles_block_example. Qed.
Print Assumptions C02_cxsmiles_block_example.
