(* C02 -- SMILES write -> read is lossless; canonical strings never collide.  Statements only.
   Model: Model.Writer (writer: Smiles._smiles, _format_atom, _format_bond, __ct_map, _format_cxsmiles; reader side: _tokenize
   on the SMILES alphabet and _atom_parse).  Tables regenerated from chython/algorithms/smiles.py,
   chython/files/daylight/tokenize.py and chython/periodictable on every run (Gen.SmilesTables, Gen.Elements).
   Proofs: Proofs.WriterProofs*. *)
From Coq Require Import ZArith List String Ascii Bool.
From Model Require Import PyBase Graph PeriodicTable Stereo Writer.
From Gen Require Import Elements SmilesTables.
From Proofs Require Import WriterProofs.
Import ListNotations.
Open Scope Z_scope.

(* ---- layer 0: the writer's tables against the reader's tables ---- *)

(* every charge -4..4 has a spelling, and charge_dict maps that spelling back to the same charge *)
Theorem C02_charge_tables_agree : forall c, -4 <= c <= 4 -> c <> 0 ->
  exists s, zget charge_str c = Some s /\ sget1 charge_dict s = Some c.
Proof. exact charge_tables_agree. Qed.
Print Assumptions C02_charge_tables_agree.

(* every ring closure number the heap can hand out is read back as that number, also when two are written in a row *)
Theorem C02_closure_roundtrip : forall c, heap_lo <= c < heap_hi -> tokenize (format_closure c) = Ok [RClosure c].
Proof. exact closure_roundtrip. Qed.
Print Assumptions C02_closure_roundtrip.

Theorem C02_closure_pair_roundtrip : forall c d, heap_lo <= c < heap_hi -> heap_lo <= d < heap_hi ->
  tokenize (format_closure c ++ format_closure d) = Ok [RClosure c; RClosure d].
Proof. exact closure_pair_roundtrip. Qed.
Print Assumptions C02_closure_pair_roundtrip.

(* the token _format_bond writes for a bond denotes the order of that bond, for every molecule and option set *)
Theorem C02_format_bond_denotes : forall g o ctm n m b s,
  bond_of g n m = Some b -> valid_order (b_ord b) -> format_bond g o ctm n m = Ok s ->
  (s = EmptyString /\ (o_bonds o = false \/ b_ord b = 1 \/ (b_ord b = 4 /\ o_aromatic o = true))) \/
  ((s = "/"%string \/ s = "\"%string) /\ b_ord b = 1 /\ o_stereo o = true) \/
  tokenize s = Ok [RBond (b_ord b)].
Proof. exact format_bond_denotes. Qed.
Print Assumptions C02_format_bond_denotes.

Theorem C02_updown_tokens : tokenize "/" = Ok [RUpDown true] /\ tokenize "\" = Ok [RUpDown false].
Proof. exact updown_tokens. Qed.
Print Assumptions C02_updown_tokens.

(* every element symbol of the periodic table is read as that element; its lower-case form as the aromatic atom *)
Theorem C02_element_symbols_parse : forall e, In e elements ->
  atom_parse (e_sym e) = Ok (plain_parsed 0 (e_sym e)) /\
  (smem (lower_string (e_sym e)) aromatic_bracket_symbols = true ->
   atom_parse (lower_string (e_sym e)) = Ok (plain_parsed 8 (e_sym e))).
Proof. exact element_symbols_parse. Qed.
Print Assumptions C02_element_symbols_parse.

Theorem C02_organic_symbols_tokenize :
  forallb (fun s => pyres_eqb (list_eqb rtok_eqb) (tokenize s) (Ok [RAtom s])) organic_set = true /\
  forallb (fun s => pyres_eqb (list_eqb rtok_eqb) (tokenize (lower_string s)) (Ok [RArom s])) ["B"; "C"; "N"; "O"; "P"; "S"]%string = true /\
  forallb (fun s => match from_symbol s with Some _ => true | None => false end) organic_set = true.
Proof. exact organic_symbols_tokenize. Qed.
Print Assumptions C02_organic_symbols_tokenize.
