(* C01 -- canonical SMILES, equality and hash depend on structure only.  Statements only; proofs in
   Proofs.MorganProofs.  What is a theorem here: the atom ranking `_morgan` / `Morgan.atoms_order` (the weights the
   canonical writer orders atoms by) is a function of the structure alone, for ANY hash function h (no assumption about
   collisions): renumbering, insertion order of atoms / adjacency rows / neighbours.  Equality and hash coherence of
   Smiles.__eq__/__hash__ over an opaque canonical string.  About the writer model (Model.Writer, `_smiles`) only the first
   steps towards `smiles_invariant_discrete` are theorems (sections "writer" ... below: with injective weights the start atom
   and the order of the children of every DFS node are decided by the weights alone and are mapped by a renumbering; the
   BFS labels, the DFS, flattening, closure numbers, emission and finally `smiles_text` are equivariant under remap()-like
   renumberings - conditionally on the agreement of the atom / bond token functions, unconditionally when no stereo mark is
   written: C01_smiles_invariant_discrete_nostereo / _unlabelled / C01_canonical_nostereo_string_invariant); the
   full statement is the Prop Proofs.WriterInvProofs.smiles_invariant_discrete_goal and is NOT proved.  The stereo
   refinement (`_chiral_morgan`) is not covered by theorems: search in harness/checks/C01.py. *)
From Coq Require Import ZArith List Bool Permutation Sorting.Sorted String.
From Gen Require Import MorganConsts MorganBody SmilesKeys AtomStereoMark.
From Model Require Import PyBase PyHash Graph Morgan Stereo StereoRegistry Writer ChiralMorgan.
From Proofs Require Import MorganProofs WriterInvProofs WriterStereoExt BfsExt BfsExt2 TraverseOrderExt InsertionOrderExt InsertionOrderExt2 ChiralMorganProofs StereoProofs StereoOrderExt StereoOrderExt2 RegistryRemapExt EnvLaws CtMapOrderExt AllStereoExt SameStereo EqHashExt ChiralDiscreteExt ChiralOrderExt MorganChargeRefuted ChiralReinsertExt ChiralReinsertBool MorganConstsProofs MolPermDecide ChiralReinsertEq MorganBodyTie SmilesKeysTie DiffFuelExt DiffFuelExt2 AtomStereoMarkTie MorganWlRefuted.
Import ListNotations.
Open Scope Z_scope.

(* ---- renumbering ---- *)
(* _morgan on raw dicts: an injective renumbering of every atom number that occurs renumbers the result dict, exactly
   (same ranks, same insertion order), KeyError included *)
Theorem C01_morgan_equivariant_dicts : forall (h : list Z -> Z) (s : Z -> Z) (D : list Z), inj_on D s ->
  forall atoms adj, incl (keys atoms) D -> adj_in D adj ->
  morgan h (ren_labels s atoms) (ren_adj s adj) = ren_res s (morgan h atoms adj).
Proof. exact morgan_ren. Qed.
Print Assumptions C01_morgan_equivariant_dicts.

Theorem C01_atoms_order_equivariant : forall (h : list Z -> Z) (ring ring' : Z -> bool) (g : mol) (s : Z -> Z),
  wf_mol g = true -> inj_on (ids g) s -> (forall n, In n (ids g) -> ring' (s n) = ring n) ->
  atoms_order h ring' (ren_mol s g) = ren_res s (atoms_order h ring g).
Proof. exact atoms_order_equivariant. Qed.
Print Assumptions C01_atoms_order_equivariant.

(* DESIGN appendix A *)
Theorem C01_morgan_equivariant : forall (h : list Z -> Z) (ring ring' : Z -> bool) (g : mol) (s : Z -> Z),
  wf_mol g = true -> inj_on (ids g) s -> (forall n, In n (ids g) -> ring' (s n) = ring n) ->
  forall n, In n (ids g) -> rank_of (atoms_order h ring' (ren_mol s g)) (s n) = rank_of (atoms_order h ring g) n.
Proof. exact morgan_equivariant. Qed.
Print Assumptions C01_morgan_equivariant.

(* ---- insertion order ---- *)
(* sorting a permuted list gives the same list (the reason why a round only sees the multiset of the neighbours) *)
Theorem C01_sorted_canonical : forall l l' : list (Z * Z), Permutation l l' -> isort pair_leb l = isort pair_leb l'.
Proof. exact psort_canonical. Qed.
Print Assumptions C01_sorted_canonical.

Theorem C01_morgan_order_independent_dicts : forall (h : list Z -> Z) atoms atoms' adj adj',
  NoDup (keys atoms) -> NoDup (keys adj) -> Permutation atoms atoms' -> adj_perm adj adj' ->
  res_perm (morgan h atoms adj) (morgan h atoms' adj').
Proof. exact morgan_perm. Qed.
Print Assumptions C01_morgan_order_independent_dicts.

Theorem C01_morgan_order_independent : forall (h : list Z -> Z) (ring : Z -> bool) (g g' : mol),
  NoDup (ids g) -> NoDup (keys (m_adj g)) -> mol_perm g g' ->
  forall n, rank_of (atoms_order h ring g) n = rank_of (atoms_order h ring g') n.
Proof. exact morgan_order_independent. Qed.
Print Assumptions C01_morgan_order_independent.

(* both together: any other numbering, inserted in any other order *)
Theorem C01_morgan_structure_only : forall (h : list Z -> Z) (ring ring' : Z -> bool) (g : mol) (s : Z -> Z) (g' : mol),
  wf_mol g = true -> inj_on (ids g) s -> (forall n, In n (ids g) -> ring' (s n) = ring n) -> mol_perm (ren_mol s g) g' ->
  forall n, In n (ids g) -> rank_of (atoms_order h ring' g') (s n) = rank_of (atoms_order h ring g) n.
Proof. exact morgan_structure_only. Qed.
Print Assumptions C01_morgan_structure_only.

(* ---- discrete classes: the atom order by rank (what the writer follows) is mapped by the renumbering ---- *)
Theorem C01_morgan_rank_order_equivariant :
  forall (h : list Z -> Z) (ring ring' : Z -> bool) (g : mol) (s : Z -> Z) (g' : mol) (l : labels),
  wf_mol g = true -> inj_on (ids g) s -> (forall n, In n (ids g) -> ring' (s n) = ring n) -> mol_perm (ren_mol s g) g' ->
  atoms_order h ring g = Ok l -> NoDup (map snd l) ->
  atoms_order h ring' g' = Ok (ren_labels s l) /\ keys (ren_labels s l) = map s (keys l).
Proof. exact morgan_rank_order_equivariant. Qed.
Print Assumptions C01_morgan_rank_order_equivariant.

(* ---- the result is total on well-formed molecules and is the dense ranking of the final labels ---- *)
Theorem C01_atoms_order_total : forall (h : list Z -> Z) (ring : Z -> bool) (g : mol), wf_mol g = true ->
  exists l, atoms_order h ring g = Ok l /\ Permutation (keys l) (ids g).
Proof. exact atoms_order_total. Qed.
Print Assumptions C01_atoms_order_total.

Theorem C01_dense_rank_spec : forall atoms : labels,
  dense_rank atoms = map (fun nv => (fst nv, rankv (map snd atoms) (snd nv))) (isort by_label atoms).
Proof. exact dense_rank_spec. Qed.
Print Assumptions C01_dense_rank_spec.

Theorem C01_dense_rank_lookup : forall (atoms : labels) n v, NoDup (keys atoms) -> In (n, v) atoms ->
  zget (dense_rank atoms) n = Some (rankv (map snd atoms) v).
Proof. exact dense_rank_lookup. Qed.
Print Assumptions C01_dense_rank_lookup.

(* equal rank <-> equal final label; ranks are ordered like the labels and lie in 1 .. number of classes *)
Theorem C01_rank_classes : forall vs v w, In v vs -> In w vs ->
  (rankv vs v < rankv vs w <-> v < w) /\ (rankv vs v = rankv vs w <-> v = w).
Proof. exact rankv_order. Qed.
Print Assumptions C01_rank_classes.

Theorem C01_rank_range : forall vs v, In v vs -> 1 <= rankv vs v <= ndistinct vs.
Proof. exact rankv_range. Qed.
Print Assumptions C01_rank_range.

(* ---- equality and hash ---- *)
Theorem C01_eq_hash_coherent : forall (M : Type) (canon : M -> string) (str_hash : string -> Z) (a b : M),
  mol_eq canon a b = true -> mol_hash canon str_hash a = mol_hash canon str_hash b.
Proof. exact @eq_hash_coherent. Qed.
Print Assumptions C01_eq_hash_coherent.

Theorem C01_mol_eq_equivalence : forall (M : Type) (canon : M -> string),
  (forall a, mol_eq canon a a = true) /\ (forall a b, mol_eq canon a b = mol_eq canon b a) /\
  (forall a b c, mol_eq canon a b = true -> mol_eq canon b c = true -> mol_eq canon a c = true).
Proof. exact @mol_eq_equivalence. Qed.
Print Assumptions C01_mol_eq_equivalence.

(* a canonical string that is a function of a structure invariant makes equal-invariant molecules equal and hash equal *)
Theorem C01_eq_of_invariant : forall (M : Type) (canon : M -> string) (str_hash : string -> Z) (I : Type) (inv : M -> I)
  (f : I -> string), (forall m, canon m = f (inv m)) -> forall a b, inv a = inv b ->
  mol_eq canon a b = true /\ mol_hash canon str_hash a = mol_hash canon str_hash b.
Proof. exact @eq_of_invariant. Qed.
Print Assumptions C01_eq_of_invariant.

(* ---- non-vacuity: ethanol, renumbered n -> 10 - n and re-inserted in another order, with the CPython 3.12 hash ---- *)
Theorem C01_example_nonvacuous :
  wf_mol ex_g = true /\ inj_on (ids ex_g) ex_s /\ mol_perm (ren_mol ex_s ex_g) ex_g' /\
  m_atoms ex_g' <> m_atoms (ren_mol ex_s ex_g) /\
  atoms_order hash_ztuple ex_ring ex_g = Ok [(1, 1); (3, 2); (2, 3)] /\ NoDup (map snd [(1, 1); (3, 2); (2, 3)]) /\
  atoms_order hash_ztuple ex_ring ex_g' = Ok [(9, 1); (7, 2); (8, 3)].
Proof. exact example_nonvacuous. Qed.
Print Assumptions C01_example_nonvacuous.

(* ---- writer (Model.Writer): partial results towards smiles_invariant_discrete ---- *)
(* Python's sorted(set, key=...) in the model: when the key separates the members, the iteration order of the set is
   irrelevant *)
Theorem C01_sorted_by_key_canonical : forall (A : Type) (key : A -> list Z) (l l' : list A),
  (forall x y, In x l -> In y l -> key x = key y -> x = y) -> Permutation l l' -> sort_by key l = sort_by key l'.
Proof. exact @sort_by_canonical. Qed.
Print Assumptions C01_sorted_by_key_canonical.

(* `start = min(atoms_set, key=mod_weights_start)`: with weights injective on the atoms neither the tie-break priority
   (the stand-in for CPython's set iteration order) nor the order in which the candidates are listed matters.
   one step of the full theorem C01_smiles_invariant_discrete (stated below) *)
Theorem C01_smiles_invariant_discrete_step_start : forall (w : Z -> Z) (o : opts) (all : list Z), inj_on all w ->
  forall (tb tb' : Z -> Z) (l l' : list Z), incl l all -> Permutation l l' ->
  min_by (key_start w tb o all) l = min_by (key_start w tb' o all) l'.
Proof. exact start_atom_weights_only. Qed.
Print Assumptions C01_smiles_invariant_discrete_step_start.

(* `sorted(bonds[child].keys() - {parent}, key=mod_weights)`: the same for the children of every DFS node *)
Theorem C01_smiles_invariant_discrete_step_children : forall (w : Z -> Z) (o : opts) (all : list Z), inj_on all w ->
  forall (tb tb' : Z -> Z) (seen : list (Z * Z)) (l l' : list Z), incl l all -> Permutation l l' ->
  sort_by (key_child w tb o all seen) l = sort_by (key_child w tb' o all seen) l'.
Proof. exact children_order_weights_only. Qed.
Print Assumptions C01_smiles_invariant_discrete_step_children.

(* since fix 2e3e6bb the neighbours of atom p are sorted by key_child_at g .. p = (weight part, order of the bond to p, tb);
   key_child above is the weight part followed by tb.  With injective weights the bond order is never reached: the children
   order does not depend on the molecule's bond orders, the parent, the tie-break priority or the set iteration order *)
Theorem C01_smiles_invariant_discrete_step_children_at : forall (w : Z -> Z) (o : opts) (all : list Z), inj_on all w ->
  forall (g g2 : mol) (tb tb' : Z -> Z) (seen : list (Z * Z)) (p p2 : Z) (l l' : list Z), incl l all -> Permutation l l' ->
  sort_by (key_child_at g w tb o all seen p) l = sort_by (key_child_at g2 w tb' o all seen p2) l'.
Proof. exact children_at_order_weights_only. Qed.
Print Assumptions C01_smiles_invariant_discrete_step_children_at.

Theorem C01_smiles_invariant_discrete_step_children_at_equivariant :
  forall (w w' : Z -> Z) (o : opts) (all : list Z) (s : Z -> Z),
  inj_on all w -> (forall n, In n all -> w' (s n) = w n) ->
  forall (g g' : mol) (p p' : Z) (tb tb' : Z -> Z) (seen seen' : list (Z * Z)) (l l' : list Z), incl l all -> Permutation (map s l) l' ->
  (forall n, In n all -> zget seen' (s n) = zget seen n) ->
  sort_by (key_child_at g' w' tb' o (map s all) seen' p') l' = map s (sort_by (key_child_at g w tb o all seen p) l).
Proof. exact children_at_order_equivariant. Qed.
Print Assumptions C01_smiles_invariant_discrete_step_children_at_equivariant.

(* renumbering (s is injective on the atoms as a consequence of the two hypotheses): the start atom of the renumbered
   molecule is the image of the start atom ... *)
Theorem C01_smiles_invariant_discrete_step_start_equivariant :
  forall (w w' : Z -> Z) (o : opts) (all : list Z) (s : Z -> Z),
  inj_on all w -> (forall n, In n all -> w' (s n) = w n) ->
  forall (tb tb' : Z -> Z) (l l' : list Z), incl l all -> Permutation (map s l) l' ->
  min_by (key_start w' tb' o (map s all)) l' = option_map s (min_by (key_start w tb o all) l).
Proof. exact start_atom_equivariant. Qed.
Print Assumptions C01_smiles_invariant_discrete_step_start_equivariant.

(* ... and the children of every DFS node are visited in the image of the original order (seen' = BFS labels of the
   renumbered molecule) *)
Theorem C01_smiles_invariant_discrete_step_children_equivariant :
  forall (w w' : Z -> Z) (o : opts) (all : list Z) (s : Z -> Z),
  inj_on all w -> (forall n, In n all -> w' (s n) = w n) ->
  forall (tb tb' : Z -> Z) (seen seen' : list (Z * Z)) (l l' : list Z), incl l all -> Permutation (map s l) l' ->
  (forall n, In n all -> zget seen' (s n) = zget seen n) ->
  sort_by (key_child w' tb' o (map s all) seen') l' = map s (sort_by (key_child w tb o all seen) l).
Proof. exact children_order_equivariant. Qed.
Print Assumptions C01_smiles_invariant_discrete_step_children_equivariant.

(* non-vacuity of the hypotheses above: four atoms, injective weights, renumbering n -> 2n+10, other tie-breaks and orders *)
Theorem C01_writer_keys_example :
  inj_on exw_all exw_w /\ inj_on exw_all exw_s /\ (forall n, In n exw_all -> exw_w' (exw_s n) = exw_w n) /\
  min_by (key_start exw_w (fun n => n) default_opts exw_all) [1; 2; 3; 4] = Some 4 /\
  min_by (key_start exw_w' (fun n => - n) default_opts (map exw_s exw_all)) [14; 18; 12; 16] = Some 18 /\
  sort_by (key_child exw_w (fun n => n) default_opts exw_all []) [1; 2; 3] = [3; 2; 1] /\
  sort_by (key_child exw_w' (fun n => n) default_opts (map exw_s exw_all) []) [12; 16; 14] = [16; 14; 12].
Proof. exact writer_keys_example. Qed.
Print Assumptions C01_writer_keys_example.

(* ---- Morgan model + writer keys: discrete classes make the first choices of the canonical traversal structure-determined ---- *)
(* the molecule renumbered by s and re-inserted in any other order (g'); l = the ranks the Morgan model computes for g *)
Theorem C01_canonical_start_structure_only :
  forall (h : list Z -> Z) (ring ring' : Z -> bool) (g g' : mol) (s : Z -> Z) (l : labels),
  wf_mol g = true -> inj_on (ids g) s -> (forall n, In n (ids g) -> ring' (s n) = ring n) -> mol_perm (ren_mol s g) g' ->
  atoms_order h ring g = Ok l -> NoDup (map snd l) ->
  atoms_order h ring' g' = Ok (ren_labels s l) /\
  forall (tb tb' : Z -> Z) (o : opts),
    min_by (key_start (lbl (ren_labels s l)) tb' o (ids g')) (ids g') = option_map s (min_by (key_start (lbl l) tb o (ids g)) (ids g)).
Proof. exact canonical_start_full. Qed.
Print Assumptions C01_canonical_start_structure_only.

Theorem C01_canonical_children_structure_only :
  forall (h : list Z -> Z) (ring : Z -> bool) (g g' : mol) (s : Z -> Z) (l : labels),
  wf_mol g = true -> inj_on (ids g) s -> mol_perm (ren_mol s g) g' -> atoms_order h ring g = Ok l -> NoDup (map snd l) ->
  forall (tb tb' : Z -> Z) (o : opts) (seen seen' : list (Z * Z)) (n : Z),
  In n (ids g) -> (forall x, In x (ids g) -> zget seen' (s x) = zget seen x) ->
  sort_by (key_child_at g' (lbl (ren_labels s l)) tb' o (ids g') seen' (s n)) (nbr_ids g' (s n)) =
  map s (sort_by (key_child_at g (lbl l) tb o (ids g) seen n) (nbr_ids g n)).
Proof. exact canonical_children_structure_only. Qed.
Print Assumptions C01_canonical_children_structure_only.

(* ---- renumbering that keeps the insertion orders (remap()), any tie-break priorities, injective weights ---- *)
(* the BFS labels *)
Theorem C01_smiles_invariant_discrete_step_bfs : forall (s : Z -> Z), (forall x y, s x = s y -> x = y) ->
  forall (g : mol) (fuel : nat) (queue seen : list (Z * Z)),
  bfs (ren_mol s g) fuel (ren_labels s queue) (ren_labels s seen) = ren_labels s (bfs g fuel queue seen).
Proof. exact bfs_ren. Qed.
Print Assumptions C01_smiles_invariant_discrete_step_bfs.

(* the `while stack:` loop of the DFS: spanning tree, predecessor table, ring-closure pairs and their numbers *)
Theorem C01_smiles_invariant_discrete_step_dfs : forall (s : Z -> Z), (forall x y, s x = s y -> x = y) ->
  forall (g : mol) (all : list Z) (key key' : Z -> Z -> list Z), (forall n, incl (nbr_ids g n) all) ->
  (forall p l, incl l all -> sort_by (key' (s p)) (map s l) = map s (sort_by (key p) l)) ->
  forall (fuel : nat) (st : dfs_st),
  iter_opt fuel (dfs_step (ren_mol s g) key') (ren_dfs s st) = option_map (ren_dfs s) (iter_opt fuel (dfs_step g key) st).
Proof. exact dfs_ren. Qed.
Print Assumptions C01_smiles_invariant_discrete_step_dfs.

(* one component: start atom, BFS labels, DFS.  The atom set of the renumbered side may be listed in any order *)
Theorem C01_smiles_invariant_discrete_step_traverse : forall (g : mol) (s w w' tb tb' : Z -> Z) (o : opts),
  wf_mol g = true -> (forall x y, s x = s y -> x = y) -> inj_on (ids g) w -> (forall n, In n (ids g) -> w' (s n) = w n) ->
  forall st st' : wstate, incl (ws_atoms st) (ids g) -> Permutation (map s (ws_atoms st)) (ws_atoms st') ->
  ws_seen st' = ren_labels s (ws_seen st) -> ws_cycle st' = ws_cycle st ->
  traverse (ren_mol s g) w' tb' o (map s (ids g)) st' = ren_tres s (traverse g w tb o (ids g) st).
Proof. exact traverse_ren. Qed.
Print Assumptions C01_smiles_invariant_discrete_step_traverse.

(* non-vacuity: ethanol renumbered n -> 10 - n with the ranks of the Morgan model (CPython hash) as weights *)
Theorem C01_traverse_example :
  wf_mol ex_g = true /\ (forall x y, ex_s x = ex_s y -> x = y) /\ inj_on (ids ex_g) (lbl exw_l) /\
  (forall n, In n (ids ex_g) -> lbl (ren_labels ex_s exw_l) (ex_s n) = lbl exw_l n) /\
  atoms_order hash_ztuple ex_ring ex_g = Ok exw_l /\
  traverse ex_g (lbl exw_l) (fun n => n) default_opts (ids ex_g) exw_st =
    Ok (mkTr 1 [(1, 0); (2, 1); (3, 2)] (mkDfs [] [(1, []); (2, [1]); (3, [2])] [] [(1, [2]); (2, [3])] [] 0)) /\
  traverse (ren_mol ex_s ex_g) (lbl (ren_labels ex_s exw_l)) (fun n => - n) default_opts (map ex_s (ids ex_g)) exw_st' =
    Ok (mkTr 9 [(9, 0); (8, 1); (7, 2)] (mkDfs [] [(9, []); (8, [9]); (7, [8])] [] [(9, [8]); (8, [7])] [] 0)).
Proof. exact traverse_example. Qed.
Print Assumptions C01_traverse_example.

(* flattening the DFS tree: the token list (atoms, bonds, parentheses) of the renumbered traversal is the renamed list *)
Theorem C01_smiles_invariant_discrete_step_flatten : forall (s : Z -> Z), (forall x y, s x = s y -> x = y) ->
  forall (g : mol) (t : traversal), flatten (ren_mol s g) (ren_traversal s t) = ren_toks s (flatten g t).
Proof. exact flatten_ren. Qed.
Print Assumptions C01_smiles_invariant_discrete_step_flatten.

(* start atom + BFS + DFS + flattening of one component: same branch structure, atoms written in the image order.
   Missing for the full statement: closure numbers, neighbour lists for stereo, atom / bond tokens, stereo marks, several
   components in sequence, and renumberings that also change the insertion order *)
Theorem C01_smiles_invariant_discrete_step_component_tokens : forall (g : mol) (s w w' tb tb' : Z -> Z) (o : opts),
  wf_mol g = true -> (forall x y, s x = s y -> x = y) -> inj_on (ids g) w -> (forall n, In n (ids g) -> w' (s n) = w n) ->
  forall st st' : wstate, incl (ws_atoms st) (ids g) -> Permutation (map s (ws_atoms st)) (ws_atoms st') ->
  ws_seen st' = ren_labels s (ws_seen st) -> ws_cycle st' = ws_cycle st ->
  component_tokens (ren_mol s g) w' tb' o st' = ren_toks s (component_tokens g w tb o st) /\
  (forall l, tok_atoms (map (ren_tok s) l) = map s (tok_atoms l)).
Proof. exact component_tokens_ren_order. Qed.
Print Assumptions C01_smiles_invariant_discrete_step_component_tokens.

Theorem C01_component_tokens_example :
  component_tokens ex_g (lbl exw_l) (fun n => n) default_opts exw_st = Ok [TAtom 1; TBond 1 2; TAtom 2; TBond 2 3; TAtom 3] /\
  component_tokens (ren_mol ex_s ex_g) (lbl (ren_labels ex_s exw_l)) (fun n => - n) default_opts exw_st' =
    Ok [TAtom 9; TBond 9 8; TAtom 8; TBond 8 7; TAtom 7].
Proof. exact component_tokens_example. Qed.
Print Assumptions C01_component_tokens_example.

(* ---- closure numbers, neighbour lists, emission ---- *)
(* casted_cycles and the heap of free closure numbers after a component never depend on the atom numbers *)
Theorem C01_smiles_invariant_discrete_step_closure_numbers : forall (s : Z -> Z), (forall x y, s x = s y -> x = y) ->
  forall (tokens : list (Z * list (Z * Z))) (ro todo casted : list (Z * Z)) (heap : list Z),
  number_atoms (ren_tokens s tokens) (ren_labels s ro) (ren_labels s todo) casted heap = number_atoms tokens ro todo casted heap.
Proof. exact number_atoms_ren. Qed.
Print Assumptions C01_smiles_invariant_discrete_step_closure_numbers.

Theorem C01_smiles_invariant_discrete_step_ring_positions : forall (s : Z -> Z), (forall x y, s x = s y -> x = y) ->
  forall (tokens : list (Z * list (Z * Z))) (smi : list tok) (i : Z),
  ring_positions (ren_tokens s tokens) (map (ren_tok s) smi) i = ren_labels s (ring_positions tokens smi i).
Proof. exact ring_positions_ren. Qed.
Print Assumptions C01_smiles_invariant_discrete_step_ring_positions.

(* closure lists in closure-number order and the neighbour lists `visited` the stereo marks are computed from *)
Theorem C01_smiles_invariant_discrete_step_neighbour_lists : forall (s : Z -> Z), (forall x y, s x = s y -> x = y) ->
  forall (smi : list tok) (casted : list (Z * Z)) (edges : list (Z * list Z)) (tokens : list (Z * list (Z * Z))) (visited : adjacency),
  order_neighbours (map (ren_tok s) smi) casted (ren_vis s edges) (ren_tokens s tokens) (ren_vis s visited) =
  (ren_tokens s (fst (order_neighbours smi casted edges tokens visited)),
   ren_vis s (snd (order_neighbours smi casted edges tokens visited))).
Proof. exact order_neighbours_ren. Qed.
Print Assumptions C01_smiles_invariant_discrete_step_neighbour_lists.

(* the last loop of a component, CONDITIONAL on the agreement of the token functions (fat = _format_atom, fa = _format_bond
   of the two sides) on the tokens that are written: same strings, order mapped by s *)
Theorem C01_smiles_invariant_discrete_step_emit : forall (s : Z -> Z), (forall x y, s x = s y -> x = y) ->
  forall (o : opts) (fa fa' : Z -> Z -> pyres string) (fat fat' : Z -> pyres string)
         (smi : list tok) (tokens : list (Z * list (Z * Z))) (casted : list (Z * Z)),
  (forall n, In (TAtom n) smi -> fat' (s n) = fat n) ->
  (forall n m, In (TBond n m) smi -> fa' (s n) (s m) = fa n m) ->
  (forall n m c, In (TAtom n) smi -> In (m, c) (zgetl tokens n) -> fa' (s n) (s m) = fa n m) ->
  forall vb : list (Z * Z),
  emit o fat' fa' (map (ren_tok s) smi) (ren_tokens s tokens) casted (ren_pairs s vb) = ren_emit s (emit o fat fa smi tokens casted vb).
Proof. exact emit_ren. Qed.
Print Assumptions C01_smiles_invariant_discrete_step_emit.

Theorem C01_spelling_ignores_numbers : forall (s : Z -> Z) (l : list otok), spell (map (ren_otok s) l) = spell l.
Proof. exact spell_ren. Qed.
Print Assumptions C01_spelling_ignores_numbers.

(* the hypotheses of the emit theorem hold for the real token functions on ethanol renumbered n -> 10 - n *)
Theorem C01_emit_example :
  (forall n, In (TAtom n) exw_smi -> exw_fat' (ex_s n) = exw_fat n) /\
  (forall n m, In (TBond n m) exw_smi -> exw_fa' (ex_s n) (ex_s m) = exw_fa n m) /\
  (forall n m c, In (TAtom n) exw_smi -> In (m, c) (zgetl ([] : list (Z * list (Z * Z))) n) -> exw_fa' (ex_s n) (ex_s m) = exw_fa n m) /\
  emit default_opts exw_fat exw_fa exw_smi [] [] [] =
    Ok ([OAtom 1 "C"; OBond 1 2 ""; OAtom 2 "C"; OBond 2 3 ""; OAtom 3 "O"], [1; 2; 3], []) /\
  emit default_opts exw_fat' exw_fa' (map (ren_tok ex_s) exw_smi) (ren_tokens ex_s []) [] (ren_pairs ex_s []) =
    Ok ([OAtom 9 "C"; OBond 9 8 ""; OAtom 8 "C"; OBond 8 7 ""; OAtom 7 "O"], [9; 8; 7], []).
Proof. exact emit_example. Qed.
Print Assumptions C01_emit_example.

(* ---- composed: component, components, text ---- *)
(* DESIGN appendix A `smiles_invariant_discrete`, for renumberings that keep the insertion orders (remap()), CONDITIONAL on
   the agreement of the atom / bond token functions of the two sides (hypotheses 5 and 6: `_format_atom` incl. stereo marks,
   `_format_bond` incl. the cis/trans map); everything else of `_smiles` (start atoms, BFS, DFS, flattening, closure numbers,
   neighbour lists, emission, the loop over components, the CXSMILES suffix) is carried through the renumbering *)
Theorem C01_smiles_invariant_discrete_step_text :
  forall (g : mol) (s w w' tb tb' : Z -> Z) (o : opts) (tabs tabs' : stabs),
  wf_mol g = true -> (forall x y, s x = s y -> x = y) -> inj_on (ids g) w -> (forall n, In n (ids g) -> w' (s n) = w n) ->
  (forall visited n, format_atom (ren_mol s g) o tabs' (s n) (ren_vis s visited) = format_atom g o tabs n visited) ->
  (forall visited n m, format_bond (ren_mol s g) o (ct_map (ren_mol s g) tabs' (ren_vis s visited)) (s n) (s m) =
                       format_bond g o (ct_map g tabs visited) n m) ->
  smiles_text (ren_mol s g) w' tb' o tabs' = map_order s (smiles_text g w tb o tabs).
Proof. exact smiles_text_ren. Qed.
Print Assumptions C01_smiles_invariant_discrete_step_text.

(* unconditional when no stereo mark and no atom-map number is written: format(mol, '!s') of ANY molecule (also one with stereo
   labels), any tie-break priorities, any stereo registries: same text, written order mapped by s *)
Theorem C01_smiles_invariant_discrete_nostereo :
  forall (g : mol) (s w w' tb tb' : Z -> Z) (o : opts) (tabs tabs' : stabs),
  wf_mol g = true -> (forall x y, s x = s y -> x = y) -> inj_on (ids g) w -> (forall n, In n (ids g) -> w' (s n) = w n) ->
  o_stereo o = false -> o_mapping o = false ->
  smiles_text (ren_mol s g) w' tb' o tabs' = map_order s (smiles_text g w tb o tabs).
Proof. exact smiles_invariant_discrete_nostereo. Qed.
Print Assumptions C01_smiles_invariant_discrete_nostereo.

(* and for molecules without stereo labels with every option set that writes no atom-map numbers: str(mol) itself *)
Theorem C01_smiles_invariant_discrete_unlabelled :
  forall (g : mol) (s w w' tb tb' : Z -> Z) (o : opts) (tabs tabs' : stabs),
  wf_mol g = true -> (forall x y, s x = s y -> x = y) -> inj_on (ids g) w -> (forall n, In n (ids g) -> w' (s n) = w n) ->
  no_stereo_labels g -> o_mapping o = false ->
  smiles_text (ren_mol s g) w' tb' o tabs' = map_order s (smiles_text g w tb o tabs).
Proof. exact smiles_invariant_discrete_unlabelled. Qed.
Print Assumptions C01_smiles_invariant_discrete_unlabelled.

(* end to end with the Morgan model: discrete classes of atoms_order make the stereo-free canonical string invariant under
   remap(), for every hash function *)
Theorem C01_canonical_nostereo_string_invariant :
  forall (h : list Z -> Z) (ring ring' : Z -> bool) (g : mol) (s tb tb' : Z -> Z) (o : opts) (tabs tabs' : stabs) (l : labels),
  wf_mol g = true -> (forall x y, s x = s y -> x = y) -> (forall n, In n (ids g) -> ring' (s n) = ring n) ->
  atoms_order h ring g = Ok l -> NoDup (map snd l) -> o_stereo o = false -> o_mapping o = false ->
  exists l', atoms_order h ring' (ren_mol s g) = Ok l' /\
             smiles_text (ren_mol s g) (lbl l') tb' o tabs' = map_order s (smiles_text g (lbl l) tb o tabs).
Proof. exact canonical_nostereo_string_invariant. Qed.
Print Assumptions C01_canonical_nostereo_string_invariant.

(* non-vacuity: ethanol renumbered n -> 10 - n, weights = ranks of the Morgan model (CPython hash), '!s' and default options *)
Theorem C01_nostereo_example :
  o_stereo exw_o = false /\ o_mapping exw_o = false /\
  smiles_text ex_g (lbl exw_l) (fun n => n) exw_o no_stabs = Ok ("CCO"%string, [1; 2; 3]) /\
  smiles_text (ren_mol ex_s ex_g) (lbl (ren_labels ex_s exw_l)) (fun n => - n) exw_o no_stabs = Ok ("CCO"%string, [9; 8; 7]).
Proof. exact nostereo_example. Qed.
Print Assumptions C01_nostereo_example.

Theorem C01_unlabelled_example :
  no_stereo_labels ex_g /\ o_mapping default_opts = false /\
  smiles_text ex_g (lbl exw_l) (fun n => n) default_opts no_stabs = Ok ("CCO"%string, [1; 2; 3]) /\
  smiles_text (ren_mol ex_s ex_g) (lbl (ren_labels ex_s exw_l)) (fun n => - n) default_opts no_stabs = Ok ("CCO"%string, [9; 8; 7]).
Proof. exact unlabelled_example. Qed.
Print Assumptions C01_unlabelled_example.

(* ---- strings WITH stereo marks ---- *)
(* the token functions with stereo marks under a renumbering that keeps the insertion orders: registries, neighbour table and
   cis/trans map renamed, same token (s fixes 0 because `__ct_map` tests an atom number for truthiness) *)
Theorem C01_format_atom_equivariant : forall (s : Z -> Z), (forall x y, s x = s y -> x = y) ->
  forall (g : mol) (o : opts) (tabs : stabs) (n : Z) (adj : adjacency), o_mapping o = false ->
  format_atom (ren_mol s g) o (ren_tabs s tabs) (s n) (ren_vis s adj) = format_atom g o tabs n adj.
Proof. exact format_atom_ren. Qed.
Print Assumptions C01_format_atom_equivariant.

Theorem C01_ct_map_equivariant : forall (s : Z -> Z), (forall x y, s x = s y -> x = y) ->
  forall (g : mol) (tabs : stabs), s 0 = 0 -> forall adj : adjacency,
  ct_map (ren_mol s g) (ren_tabs s tabs) (ren_vis s adj) = ren_pmres s (ct_map g tabs adj).
Proof. exact ct_map_ren. Qed.
Print Assumptions C01_ct_map_equivariant.

Theorem C01_format_bond_equivariant : forall (s : Z -> Z), (forall x y, s x = s y -> x = y) ->
  forall (g : mol) (o : opts) (tabs : stabs), s 0 = 0 -> forall (adj : adjacency) (n m : Z),
  format_bond (ren_mol s g) o (ct_map (ren_mol s g) (ren_tabs s tabs) (ren_vis s adj)) (s n) (s m) = format_bond g o (ct_map g tabs adj) n m.
Proof. exact format_bond_ren. Qed.
Print Assumptions C01_format_bond_equivariant.

(* DESIGN appendix A smiles_invariant_discrete with stereo marks, for renumberings that keep the insertion orders (remap()):
   NO formatter hypothesis.  Still missing for the full DESIGN statement: renumberings that also change the insertion order of
   atoms / neighbours (the stereo signs then need the parity lemmas of C12 and the BFS labels their shortest-path meaning) *)
Theorem C01_smiles_invariant_discrete_remap : forall (g : mol) (s w w' tb tb' : Z -> Z) (o : opts) (tabs : stabs),
  wf_mol g = true -> (forall x y, s x = s y -> x = y) -> s 0 = 0 -> inj_on (ids g) w -> (forall n, In n (ids g) -> w' (s n) = w n) ->
  o_mapping o = false ->
  smiles_text (ren_mol s g) w' tb' o (ren_tabs s tabs) = map_order s (smiles_text g w tb o tabs).
Proof. exact smiles_invariant_discrete_remap. Qed.
Print Assumptions C01_smiles_invariant_discrete_remap.

Theorem C01_remap_stereo_example :
  wf_mol exs_g = true /\ (forall x y, exs_s x = exs_s y -> x = y) /\ exs_s 0 = 0 /\ inj_on (ids exs_g) exs_w /\
  (forall n, In n (ids exs_g) -> exs_w' (exs_s n) = exs_w n) /\ o_mapping default_opts = false /\
  smiles_text exs_g exs_w (fun n => n) default_opts exs_tabs = Ok ("O[C@@H](N)C"%string, [4; 2; 3; 1]) /\
  smiles_text (ren_mol exs_s exs_g) exs_w' (fun n => - n) default_opts (ren_tabs exs_s exs_tabs) = Ok ("O[C@@H](N)C"%string, [28; 14; 21; 7]).
Proof. exact remap_stereo_example. Qed.
Print Assumptions C01_remap_stereo_example.

(* ---- insertion order: the BFS labels ("BFS nearest to starting" part of the sort key) ---- *)
(* the queue BFS of the first component satisfies an order-free specification: the start atom has label 0, every other labelled
   atom has label d >= 1 and a neighbour with label d - 1, the labelled set is closed under neighbours and the label grows by
   at most 1 along an edge (so the label is the graph distance); the fuel S n_atoms suffices *)
Theorem C01_bfs_first_component_spec : forall (g : mol) (start : Z),
  (forall n, incl (nbr_ids g n) (ids g)) -> (forall n, NoDup (nbr_ids g n)) -> In start (ids g) ->
  bfs_spec g start (bfs g (S (List.length (ids g))) [(start, 1)] [(start, 0)]).
Proof. exact bfs_first_component_spec. Qed.
Print Assumptions C01_bfs_first_component_spec.

(* two labelings that satisfy the specification over the same neighbour relation are equal *)
Theorem C01_bfs_spec_unique : forall (g1 g2 : mol) (start : Z) (R1 R2 : list (Z * Z)),
  (forall y x, In x (nbr_ids g1 y) <-> In x (nbr_ids g2 y)) -> bfs_spec g1 start R1 -> bfs_spec g2 start R2 ->
  forall x, zget R1 x = zget R2 x.
Proof. exact bfs_spec_unique. Qed.
Print Assumptions C01_bfs_spec_unique.

(* hence the BFS labels do not depend on the order in which atoms, adjacency rows and neighbours were inserted.
   a step towards insertion-order invariance of the string: the DFS / emission under permuted neighbour lists and the parity
   of the stereo signs are not carried through yet; later components (BFS started on a non-empty `seen`) are not covered *)
Theorem C01_smiles_invariant_discrete_step_bfs_order : forall (g1 g2 : mol) (start : Z),
  wf_mol g1 = true -> wf_mol g2 = true -> mol_perm g1 g2 -> In start (ids g1) ->
  forall x, zget (bfs g1 (S (n_atoms g1)) [(start, 1)] [(start, 0)]) x = zget (bfs g2 (S (n_atoms g2)) [(start, 1)] [(start, 0)]) x.
Proof. exact bfs_order_independent_wf. Qed.
Print Assumptions C01_smiles_invariant_discrete_step_bfs_order.

Theorem C01_bfs_example :
  wf_mol exb_g1 = true /\ wf_mol exb_g2 = true /\ mol_perm exb_g1 exb_g2 /\ In 1 (ids exb_g1) /\
  bfs exb_g1 (S (n_atoms exb_g1)) [(1, 1)] [(1, 0)] = [(1, 0); (2, 1); (3, 2); (4, 2)] /\
  bfs exb_g2 (S (n_atoms exb_g2)) [(1, 1)] [(1, 0)] = [(1, 0); (2, 1); (4, 2); (3, 2)].
Proof. exact bfs_example. Qed.
Print Assumptions C01_bfs_example.

(* ---- renumbering AND re-insertion (atoms, adjacency rows, neighbours listed in any other order): the first component ---- *)
(* every DFS step when the neighbour lists of g' are permutations of the renamed neighbour lists of g *)
Theorem C01_smiles_invariant_discrete_step_dfs_insertion_order : forall (s : Z -> Z), (forall x y, s x = s y -> x = y) ->
  forall (g g' : mol) (all : list Z) (key key' : Z -> Z -> list Z), (forall n, incl (nbr_ids g n) all) ->
  (forall n, Permutation (map s (nbr_ids g n)) (nbr_ids g' (s n))) ->
  (forall p l l', incl l all -> Permutation (map s l) l' -> sort_by (key' (s p)) l' = map s (sort_by (key p) l)) ->
  forall (fuel : nat) (st : dfs_st),
  iter_opt fuel (dfs_step g' key') (ren_dfs s st) = option_map (ren_dfs s) (iter_opt fuel (dfs_step g key) st).
Proof. exact dfs_perm. Qed.
Print Assumptions C01_smiles_invariant_discrete_step_dfs_insertion_order.

(* start atom, BFS labels (pointwise) and DFS result of the first component *)
Theorem C01_smiles_invariant_discrete_step_traverse_insertion_order :
  forall (g g' : mol) (s w w' tb tb' : Z -> Z) (o : opts),
  wf_mol g = true -> wf_mol g' = true -> (forall x y, s x = s y -> x = y) -> mol_perm (ren_mol s g) g' ->
  inj_on (ids g) w -> (forall n, In n (ids g) -> w' (s n) = w n) ->
  forall st st' : wstate, incl (ws_atoms st) (ids g) -> Permutation (map s (ws_atoms st)) (ws_atoms st') ->
  ws_seen st = [] -> ws_seen st' = [] -> ws_cycle st' = ws_cycle st ->
  trav_rel s (traverse g w tb o (ids g) st) (traverse g' w' tb' o (ids g') st').
Proof. exact traverse_first_perm. Qed.
Print Assumptions C01_smiles_invariant_discrete_step_traverse_insertion_order.

(* with the weights the Morgan model computes: when the classes of atoms_order are discrete, the token list of the first component
   (atoms, bonds, parentheses: branch structure and the order in which the atoms are written; the whole molecule when it is
   connected) is the renamed list for ANY renumbering and ANY insertion order, any tie-breaks, every hash function.
   Missing for the string: closure numbers / emission are proved for renamed inputs (above) but the token functions under
   re-insertion (hybridization fold, stereo parity) and later components (BFS on a non-empty `seen`) are not *)
Theorem C01_canonical_first_component_tokens :
  forall (h : list Z -> Z) (ring ring' : Z -> bool) (g g' : mol) (s tb tb' : Z -> Z) (o : opts) (l : labels),
  wf_mol g = true -> wf_mol g' = true -> (forall x y, s x = s y -> x = y) -> (forall n, In n (ids g) -> ring' (s n) = ring n) ->
  mol_perm (ren_mol s g) g' -> atoms_order h ring g = Ok l -> NoDup (map snd l) ->
  exists l', atoms_order h ring' g' = Ok l' /\
             component_tokens g' (lbl l') tb' o (init_state g') = ren_toks s (component_tokens g (lbl l) tb o (init_state g)).
Proof. exact canonical_first_component_tokens. Qed.
Print Assumptions C01_canonical_first_component_tokens.

Theorem C01_first_component_example :
  wf_mol exb_g1 = true /\ wf_mol ext_g' = true /\ (forall x y, ext_s x = ext_s y -> x = y) /\ mol_perm (ren_mol ext_s exb_g1) ext_g' /\
  inj_on (ids exb_g1) ext_w /\ (forall n, In n (ids exb_g1) -> ext_w' (ext_s n) = ext_w n) /\
  component_tokens exb_g1 ext_w (fun n => n) default_opts ext_st =
    Ok [TAtom 1; TBond 1 2; TAtom 2; TOpen; TBond 2 3; TAtom 3; TClose; TBond 2 4; TAtom 4] /\
  component_tokens ext_g' ext_w' (fun n => n) default_opts ext_st' =
    Ok [TAtom 9; TBond 9 8; TAtom 8; TOpen; TBond 8 7; TAtom 7; TClose; TBond 8 6; TAtom 6].
Proof. exact first_component_example. Qed.
Print Assumptions C01_first_component_example.

(* ---- the stereo-free string under ANY renumbering and ANY insertion order, molecules written as one component ---- *)
(* calc_labels: hybridization is a function of the multiset of bond orders *)
Theorem C01_hybridization_order_independent : forall (l l' : list (Z * bond)), Permutation l l' -> forall h : Z,
  fold_left (fun h mb => hyb_step h (b_ord (snd mb))) l h = fold_left (fun h mb => hyb_step h (b_ord (snd mb))) l' h.
Proof. exact fold_hyb_perm. Qed.
Print Assumptions C01_hybridization_order_independent.

(* DESIGN appendix A smiles_invariant_discrete for format(mol, '!s') and every option set without stereo marks / atom-map
   numbers: g' is g renumbered by s AND re-inserted in any order; injective weights; any tie-break priorities; any registries.
   special case of C01_smiles_invariant_discrete: the molecule must be written as one component ([single_component]: after the first component no atom is left),
   because the BFS theorem covers a BFS started on an empty `seen`; stereo marks under re-insertion need the parity lemmas *)
Theorem C01_smiles_invariant_discrete_nostereo_insertion_order_case :
  forall (g g' : mol) (s w w' tb tb' : Z -> Z) (o : opts) (tabs tabs' : stabs),
  wf_mol g = true -> wf_mol g' = true -> (forall x y, s x = s y -> x = y) -> mol_perm (ren_mol s g) g' ->
  inj_on (ids g) w -> (forall n, In n (ids g) -> w' (s n) = w n) -> o_stereo o = false -> o_mapping o = false ->
  single_component g w tb o tabs ->
  smiles_text g' w' tb' o tabs' = map_order s (smiles_text g w tb o tabs).
Proof. exact smiles_text_single_component_perm. Qed.
Print Assumptions C01_smiles_invariant_discrete_nostereo_insertion_order_case.

(* end to end with the Morgan model, every hash function: discrete classes of atoms_order *)
Theorem C01_canonical_nostereo_string_structure_only :
  forall (h : list Z -> Z) (ring ring' : Z -> bool) (g g' : mol) (s tb tb' : Z -> Z) (o : opts) (tabs tabs' : stabs) (l : labels),
  wf_mol g = true -> wf_mol g' = true -> (forall x y, s x = s y -> x = y) -> (forall n, In n (ids g) -> ring' (s n) = ring n) ->
  mol_perm (ren_mol s g) g' -> atoms_order h ring g = Ok l -> NoDup (map snd l) -> o_stereo o = false -> o_mapping o = false ->
  single_component g (lbl l) tb o tabs ->
  exists l', atoms_order h ring' g' = Ok l' /\
             smiles_text g' (lbl l') tb' o tabs' = map_order s (smiles_text g (lbl l) tb o tabs).
Proof. exact canonical_nostereo_string_structure_only. Qed.
Print Assumptions C01_canonical_nostereo_string_structure_only.

Theorem C01_insertion_order_example :
  wf_mol exb_g1 = true /\ wf_mol ext_g' = true /\ (forall x y, ext_s x = ext_s y -> x = y) /\ mol_perm (ren_mol ext_s exb_g1) ext_g' /\
  inj_on (ids exb_g1) ext_w /\ (forall n, In n (ids exb_g1) -> ext_w' (ext_s n) = ext_w n) /\
  o_stereo exw_o = false /\ o_mapping exw_o = false /\ single_component exb_g1 ext_w (fun n => n) exw_o no_stabs /\
  smiles_text exb_g1 ext_w (fun n => n) exw_o no_stabs = Ok ("CC(C)O"%string, [1; 2; 3; 4]) /\
  smiles_text ext_g' ext_w' (fun n => n) exw_o no_stabs = Ok ("CC(C)O"%string, [9; 8; 7; 6]).
Proof. exact insertion_order_example. Qed.
Print Assumptions C01_insertion_order_example.

(* ---- the stereo-aware weights: model of _chiral_morgan / __differentiation (Model.ChiralMorgan) ---- *)
(* for EVERY hash function and every injective renumbering: renamed molecule, renamed registries, renamed atoms_order and the
   iteration orders of the three stereo sets renamed give the renamed weights and the renamed trace of `_morgan` inputs *)
Theorem C01_chiral_morgan_equivariant : forall (h : list Z -> Z) (s : Z -> Z), (forall x y, s x = s y -> x = y) ->
  forall (g : mol) (tabs : cmtabs) (ao : labels) (ord : cmorders),
  chiral_morgan h (ren_mol s g) (ren_cmtabs s tabs) (ren_labels s ao) (ren_cmorders s ord) = ren_cmres s (chiral_morgan h g tabs ao ord).
Proof. exact chiral_morgan_ren. Qed.
Print Assumptions C01_chiral_morgan_equivariant.

(* from the molecule: atoms_order and _chiral_morgan of the renumbered molecule are the renumbered ones *)
Theorem C01_chiral_weights_equivariant :
  forall (h : list Z -> Z) (ring ring' : Z -> bool) (g : mol) (s : Z -> Z) (tabs : cmtabs) (ord : cmorders) (ao : labels),
  wf_mol g = true -> (forall x y, s x = s y -> x = y) -> (forall n, In n (ids g) -> ring' (s n) = ring n) ->
  atoms_order h ring g = Ok ao ->
  atoms_order h ring' (ren_mol s g) = Ok (ren_labels s ao) /\
  chiral_morgan h (ren_mol s g) (ren_cmtabs s tabs) (ren_labels s ao) (ren_cmorders s ord) = ren_cmres s (chiral_morgan h g tabs ao ord).
Proof. exact chiral_weights_equivariant. Qed.
Print Assumptions C01_chiral_weights_equivariant.

Theorem C01_chiral_morgan_example :
  wf_mol exc_g = true /\ (forall x y, exc_s x = exc_s y -> x = y) /\
  atoms_order hash_ztuple (fun _ => false) exc_g = Ok exc_ao /\
  chiral_morgan hash_ztuple exc_g exc_tabs exc_ao exc_ord =
    Ok ([(6, 1); (5, 2); (3, 3); (1, 4); (2, 5); (4, 6)], [[(2, -1); (4, 1); (1, 2); (6, 2); (3, 3); (5, 3)]]) /\
  chiral_morgan hash_ztuple (ren_mol exc_s exc_g) (ren_cmtabs exc_s exc_tabs) (ren_labels exc_s exc_ao) (ren_cmorders exc_s exc_ord) =
    Ok ([(14, 1); (15, 2); (17, 3); (19, 4); (18, 5); (16, 6)], [[(18, -1); (16, 1); (19, 2); (14, 2); (17, 3); (15, 3)]]).
Proof. exact chiral_morgan_example. Qed.
Print Assumptions C01_chiral_morgan_example.

(* ---- any number of components under insertion-order changes ---- *)
(* the BFS of a later component starts on the labels of the earlier ones: labels that agree pointwise and are closed under
   neighbours still agree (and are closed) afterwards, for two molecules with the same neighbour relation *)
Theorem C01_bfs_next_component_pointwise : forall (g1 g2 : mol) (start : Z) (S1 S2 : list (Z * Z)),
  (forall n, incl (nbr_ids g1 n) (ids g1)) -> (forall n, NoDup (nbr_ids g1 n)) -> (forall n m, In m (nbr_ids g1 n) -> In n (nbr_ids g1 m)) ->
  (forall n, incl (nbr_ids g2 n) (ids g2)) -> (forall n, NoDup (nbr_ids g2 n)) -> (forall n m, In m (nbr_ids g2 n) -> In n (nbr_ids g2 m)) ->
  In start (ids g1) -> In start (ids g2) -> (forall y x, In x (nbr_ids g1 y) <-> In x (nbr_ids g2 y)) ->
  closed_under g1 S1 -> closed_under g2 S2 -> (forall y, zget S1 y = zget S2 y) ->
  forall y, zget (bfs g1 (S (List.length (ids g1))) [(start, 1)] (zset S1 start 0)) y =
            zget (bfs g2 (S (List.length (ids g2))) [(start, 1)] (zset S2 start 0)) y.
Proof. exact next_component_pointwise. Qed.
Print Assumptions C01_bfs_next_component_pointwise.

(* DESIGN appendix A smiles_invariant_discrete for format(mol, '!s') and every option set without stereo marks / atom-map numbers,
   under ANY renumbering and ANY insertion order of atoms, adjacency rows and neighbours, any number of components, injective
   weights, any tie-break priorities, any registries: no single_component hypothesis *)
Theorem C01_smiles_invariant_discrete_nostereo_insertion_order :
  forall (g g' : mol) (s w w' tb tb' : Z -> Z) (o : opts) (tabs tabs' : stabs),
  wf_mol g = true -> wf_mol g' = true -> (forall x y, s x = s y -> x = y) -> mol_perm (ren_mol s g) g' ->
  inj_on (ids g) w -> (forall n, In n (ids g) -> w' (s n) = w n) -> o_stereo o = false -> o_mapping o = false ->
  smiles_text g' w' tb' o tabs' = map_order s (smiles_text g w tb o tabs).
Proof. exact smiles_text_perm. Qed.
Print Assumptions C01_smiles_invariant_discrete_nostereo_insertion_order.

Theorem C01_canonical_nostereo_string_any_order :
  forall (h : list Z -> Z) (ring ring' : Z -> bool) (g g' : mol) (s tb tb' : Z -> Z) (o : opts) (tabs tabs' : stabs) (l : labels),
  wf_mol g = true -> wf_mol g' = true -> (forall x y, s x = s y -> x = y) -> (forall n, In n (ids g) -> ring' (s n) = ring n) ->
  mol_perm (ren_mol s g) g' -> atoms_order h ring g = Ok l -> NoDup (map snd l) -> o_stereo o = false -> o_mapping o = false ->
  exists l', atoms_order h ring' g' = Ok l' /\
             smiles_text g' (lbl l') tb' o tabs' = map_order s (smiles_text g (lbl l) tb o tabs).
Proof. exact canonical_nostereo_string_any_order. Qed.
Print Assumptions C01_canonical_nostereo_string_any_order.

Theorem C01_multi_component_example :
  wf_mol exm_g = true /\ wf_mol exm_g' = true /\ (forall x y, ext_s x = ext_s y -> x = y) /\ mol_perm (ren_mol ext_s exm_g) exm_g' /\
  inj_on (ids exm_g) ext_w /\ (forall n, In n (ids exm_g) -> ext_w' (ext_s n) = ext_w n) /\
  smiles_text exm_g ext_w (fun n => n) exw_o no_stabs = Ok ("CC(C)O.O"%string, [1; 2; 3; 4; 5]) /\
  smiles_text exm_g' ext_w' (fun n => n) exw_o no_stabs = Ok ("CC(C)O.O"%string, [9; 8; 7; 6; 5]).
Proof. exact multi_component_example. Qed.
Print Assumptions C01_multi_component_example.

(* ---- stereo marks under insertion-order changes ---- *)
(* the stored sign of a tetrahedron is relative to the insertion order of its neighbours.  General re-ordering law (from the parity
   property of the generated table, C12): when the registry lists the four neighbours in the order `sel order q` and the stored
   sign is the old sign xor the parity of q, EVERY neighbour arrangement (valid or not) gets the same result *)
Theorem C01_translate_th_reorder_any : forall (isH : Z -> bool) (a b c d : Z), NoDup [a; b; c; d] ->
  forall (q env : list Z) (sg : bool), In q perms4 ->
  translate_th isH (sel [a; b; c; d] q) env (xorb sg (odd_perm q)) = translate_th isH [a; b; c; d] env sg.
Proof. exact translate_th_reorder_any. Qed.
Print Assumptions C01_translate_th_reorder_any.

(* strings with atom stereo marks under ANY renumbering and ANY insertion order: g and g' agree after the stereo fields are erased
   ([strip]); "the same stereoisomer" = the atom marks of the two labelled molecules agree for every neighbour table (hypothesis 8);
   no cis / trans labels.  special case of C01_smiles_invariant_discrete: the cis/trans map under insertion-order changes is not carried through here *)
Theorem C01_smiles_invariant_discrete_atom_stereo_insertion_order_case :
  forall (g g' : mol) (s w w' tb tb' : Z -> Z) (o : opts) (tabs tabs' : stabs),
  wf_mol (strip g) = true -> wf_mol (strip g') = true -> (forall x y, s x = s y -> x = y) ->
  mol_perm (ren_mol s (strip g)) (strip g') -> inj_on (ids g) w -> (forall n, In n (ids g) -> w' (s n) = w n) -> o_mapping o = false ->
  (forall n a a' adj, atom_of g n = Some a -> atom_of g' (s n) = Some a' ->
     stereo_mark g' o tabs' (s n) (ren_vis s adj) a' = stereo_mark g o tabs n adj a) ->
  stereo_bond_atoms g = [] -> stereo_bond_atoms g' = [] ->
  smiles_text g' w' tb' o tabs' = map_order s (smiles_text g w tb o tabs).
Proof. exact smiles_text_atom_stereo_perm. Qed.
Print Assumptions C01_smiles_invariant_discrete_atom_stereo_insertion_order_case.

(* hypothesis 8 discharged by the parity law: every labelled atom is a tetrahedron with four listed neighbours whose registry entry
   in g' lists the renamed neighbours in another order and whose sign was re-expressed by the parity of that re-ordering (what
   add_atom_stereo does).  special case of C01_smiles_invariant_discrete: centres with an implicit / explicit hydrogen, allenes and cis/trans labels are not covered here *)
Theorem C01_smiles_invariant_discrete_tetrahedral_insertion_order_case :
  forall (g g' : mol) (s w w' tb tb' : Z -> Z) (o : opts) (tabs tabs' : stabs),
  wf_mol (strip g) = true -> wf_mol (strip g') = true -> (forall x y, s x = s y -> x = y) ->
  mol_perm (ren_mol s (strip g)) (strip g') -> inj_on (ids g) w -> (forall n, In n (ids g) -> w' (s n) = w n) -> o_mapping o = false ->
  stereo_atoms_reordered g g' s tabs tabs' -> stereo_bond_atoms g = [] -> stereo_bond_atoms g' = [] ->
  smiles_text g' w' tb' o tabs' = map_order s (smiles_text g w tb o tabs).
Proof. exact smiles_invariant_discrete_tetrahedral_insertion_order. Qed.
Print Assumptions C01_smiles_invariant_discrete_tetrahedral_insertion_order_case.

(* non-vacuity: CFClBrI renumbered n -> 10 - n, the neighbours of the centre re-inserted with the first two exchanged: the stored
   sign flips, the string is the same *)
Theorem C01_tetrahedral_insertion_order_example :
  wf_mol (strip exq_g) = true /\ wf_mol (strip exq_g') = true /\ (forall x y, ext_s x = ext_s y -> x = y) /\
  mol_perm (ren_mol ext_s (strip exq_g)) (strip exq_g') /\ inj_on (ids exq_g) exq_w /\ (forall n, In n (ids exq_g) -> exq_w' (ext_s n) = exq_w n) /\
  stereo_atoms_reordered exq_g exq_g' ext_s exq_tabs exq_tabs' /\ stereo_bond_atoms exq_g = [] /\ stereo_bond_atoms exq_g' = [] /\
  smiles_text exq_g exq_w (fun n => n) default_opts exq_tabs = Ok ("[C@](F)(Cl)(Br)I"%string, [1; 2; 3; 4; 5]) /\
  smiles_text exq_g' exq_w' (fun n => n) default_opts exq_tabs' = Ok ("[C@](F)(Cl)(Br)I"%string, [9; 8; 7; 6; 5]).
Proof. exact tetrahedral_insertion_order_example. Qed.
Print Assumptions C01_tetrahedral_insertion_order_example.

(* ---- centres with three listed neighbours (implicit hydrogen, or an explicit hydrogen given in the arrangement) ---- *)
Theorem C01_translate_th_reorder_any3 : forall (isH : Z -> bool) (a b c : Z), NoDup [a; b; c] ->
  isH a = false /\ isH b = false /\ isH c = false ->
  forall (q env : list Z) (sg : bool), In q perms3 ->
  translate_th isH (sel [a; b; c] q) env (xorb sg (odd_perm (q ++ [3]))) = translate_th isH [a; b; c] env sg.
Proof. exact translate_th_reorder_any3. Qed.
Print Assumptions C01_translate_th_reorder_any3.

(* DESIGN appendix A smiles_invariant_discrete with tetrahedral marks ([C@], [C@H], explicit [H]) under ANY renumbering and ANY
   insertion order, any number of components, injective weights, any tie-breaks: the labels of the re-inserted molecule are the old
   labels re-expressed for the new neighbour orders by permutation parity.  special case of C01_smiles_invariant_discrete: no allene and no cis/trans labels here *)
Theorem C01_smiles_invariant_discrete_tetrahedral_insertion_order2_case :
  forall (g g' : mol) (s w w' tb tb' : Z -> Z) (o : opts) (tabs tabs' : stabs),
  wf_mol (strip g) = true -> wf_mol (strip g') = true -> (forall x y, s x = s y -> x = y) ->
  mol_perm (ren_mol s (strip g)) (strip g') -> inj_on (ids g) w -> (forall n, In n (ids g) -> w' (s n) = w n) -> o_mapping o = false ->
  stereo_atoms_reordered2 g g' s tabs tabs' -> stereo_bond_atoms g = [] -> stereo_bond_atoms g' = [] ->
  smiles_text g' w' tb' o tabs' = map_order s (smiles_text g w tb o tabs).
Proof. exact smiles_invariant_discrete_tetrahedral_insertion_order2. Qed.
Print Assumptions C01_smiles_invariant_discrete_tetrahedral_insertion_order2_case.

Theorem C01_tetrahedral_h_insertion_order_example :
  wf_mol (strip exh_g) = true /\ wf_mol (strip exh_g') = true /\ (forall x y, ext_s x = ext_s y -> x = y) /\
  mol_perm (ren_mol ext_s (strip exh_g)) (strip exh_g') /\ inj_on (ids exh_g) exq_w /\ (forall n, In n (ids exh_g) -> exq_w' (ext_s n) = exq_w n) /\
  stereo_atoms_reordered2 exh_g exh_g' ext_s exs_tabs exh_tabs' /\ stereo_bond_atoms exh_g = [] /\ stereo_bond_atoms exh_g' = [] /\
  smiles_text exh_g exq_w (fun n => n) default_opts exs_tabs = Ok ("C[C@H](N)O"%string, [1; 2; 3; 4]) /\
  smiles_text exh_g' exq_w' (fun n => n) default_opts exh_tabs' = Ok ("C[C@H](N)O"%string, [9; 8; 7; 6]).
Proof. exact tetrahedral_h_insertion_order_example. Qed.
Print Assumptions C01_tetrahedral_h_insertion_order_example.

(* ---- remap() with the registries computed by the registry model of C12 (Model.StereoRegistry): no registry hypothesis ---- *)
Theorem C01_smiles_invariant_discrete_remap_registries :
  forall (fs fd : Z -> bool) (g : mol) (s w w' tb tb' : Z -> Z) (o : opts) (r : registries),
  wf_mol g = true -> (forall x y, s x = s y -> x = y) -> s 0 = 0 -> inj_on (ids g) w -> (forall n, In n (ids g) -> w' (s n) = w n) ->
  o_mapping o = false -> registries_of fs fd g = Ok r ->
  exists r', registries_of fs fd (ren_mol s g) = Ok r' /\
             smiles_text (ren_mol s g) w' tb' o (stabs_of_reg r') = map_order s (smiles_text g w tb o (stabs_of_reg r)).
Proof. exact smiles_invariant_discrete_remap_registries. Qed.
Print Assumptions C01_smiles_invariant_discrete_remap_registries.

(* ====================================================================================================================== *)
(* ALL stereo marks under ANY renumbering and ANY insertion order *)
(* the laws of `_translate_cis_trans_sign` / `_translate_allene_sign` for EVERY pair of arguments: listing the two substituents of an
   end in the other order flips the sign, exchanging the two ends exchanges the two arguments (non-hydrogen arguments) *)
Theorem C01_translate_env_swap_first_end : forall (isH : Z -> bool) (e : Z * Z * option Z * option Z) (nn nm : Z) (sg : bool),
  env_ok isH e -> canA e = true -> translate_env isH (swapA e) nn nm (negb sg) = translate_env isH e nn nm sg.
Proof. exact swapA_law. Qed.
Print Assumptions C01_translate_env_swap_first_end.

Theorem C01_translate_env_swap_second_end : forall (isH : Z -> bool) (e : Z * Z * option Z * option Z) (nn nm : Z) (sg : bool),
  env_ok isH e -> canB e = true -> translate_env isH (swapB e) nn nm (negb sg) = translate_env isH e nn nm sg.
Proof. exact swapB_law. Qed.
Print Assumptions C01_translate_env_swap_second_end.

Theorem C01_translate_env_exchange_ends : forall (isH : Z -> bool) (e : Z * Z * option Z * option Z) (nn nm : Z) (sg : bool),
  env_ok isH e -> isH nn = false -> isH nm = false -> translate_env isH (exch_env e) nn nm sg = translate_env isH e nm nn sg.
Proof. exact exch_law. Qed.
Print Assumptions C01_translate_env_exchange_ends.

(* `__ct_map` for a re-inserted molecule: centre / terminal pairs in either orientation, environments in any of their listings,
   signs re-expressed: the map of the cis/trans marks is the renamed map *)
Theorem C01_ct_map_insertion_order : forall (g g' : mol) (s : Z -> Z) (tabs tabs' : stabs) (flipc : Z -> Z -> bool),
  (forall x y, s x = s y -> x = y) -> s 0 = 0 -> (forall x, is_H g x = false) -> (forall x, is_H g' x = false) ->
  same_ct_stereo g g' s tabs tabs' flipc ->
  forall adj : adjacency, ct_map g' tabs' (ren_vis s adj) = ren_pmres s (ct_map g tabs adj).
Proof. exact ct_map_same. Qed.
Print Assumptions C01_ct_map_insertion_order.

(* DESIGN appendix A smiles_invariant_discrete, in full: g' is g renumbered by s AND re-inserted in any order (atoms, adjacency rows,
   neighbours), carrying the same stereo labels: same_atom_stereo / same_ct_stereo say that every registry entry of g' is the renamed
   entry of g up to the re-listings another insertion order causes (neighbours of a tetrahedron permuted, substituents of an end
   swapped, ends exchanged, centre / terminal pairs in the other orientation) with the stored signs re-expressed by parity; the
   weights are injective; any tie-break priorities; any number of components.  The text with ALL stereo marks (tetrahedral, allene,
   cis/trans), closure numbers and CXSMILES suffix is identical, the written order is mapped by s.
   Restriction kept: the molecule has no explicit hydrogen ATOMS (implicit hydrogens are fine) and s 0 = 0. *)
Theorem C01_smiles_invariant_discrete :
  forall (g g' : mol) (s w w' tb tb' : Z -> Z) (o : opts) (tabs tabs' : stabs) (flipc : Z -> Z -> bool),
  wf_mol (strip g) = true -> wf_mol (strip g') = true -> (forall x y, s x = s y -> x = y) -> s 0 = 0 ->
  mol_perm (ren_mol s (strip g)) (strip g') -> inj_on (ids g) w -> (forall n, In n (ids g) -> w' (s n) = w n) -> o_mapping o = false ->
  (forall x, is_H g x = false) -> (forall x, is_H g' x = false) ->
  same_atom_stereo g g' s tabs tabs' -> same_ct_stereo g g' s tabs tabs' flipc ->
  smiles_text g' w' tb' o tabs' = map_order s (smiles_text g w tb o tabs).
Proof. exact smiles_invariant_discrete. Qed.
Print Assumptions C01_smiles_invariant_discrete.

(* non-vacuity: F/C=C\Cl renumbered n -> 2 n and inserted from the other end (the double-bond system registered in the other
   orientation), other tie-breaks: every hypothesis holds, both strings are F/C=C\Cl *)
Theorem C01_smiles_invariant_discrete_example :
  wf_mol (strip exd_g) = true /\ wf_mol (strip exd_g') = true /\ (forall x y, exd_s x = exd_s y -> x = y) /\ exd_s 0 = 0 /\
  mol_perm (ren_mol exd_s (strip exd_g)) (strip exd_g') /\ inj_on (ids exd_g) (fun n => n) /\
  (forall n, In n (ids exd_g) -> (fun m => m / 2) (exd_s n) = (fun n => n) n) /\
  (forall x, is_H exd_g x = false) /\ (forall x, is_H exd_g' x = false) /\
  same_atom_stereo exd_g exd_g' exd_s exd_tabs exd_tabs' /\ same_ct_stereo exd_g exd_g' exd_s exd_tabs exd_tabs' exd_flip /\
  smiles_text exd_g (fun n => n) (fun n => n) default_opts exd_tabs = Ok ("F/C=C\Cl"%string, [1; 2; 3; 4]) /\
  smiles_text exd_g' (fun m => m / 2) (fun n => - n) default_opts exd_tabs' = Ok ("F/C=C\Cl"%string, [2; 4; 6; 8]).
Proof. exact smiles_invariant_discrete_example. Qed.
Print Assumptions C01_smiles_invariant_discrete_example.

(* ---- __eq__ / __hash__ at molecule level ---- *)
(* a described molecule = labelled graph + weights + set-order priorities + registries; canon_of o d = the text format(d, o).
   Two descriptions of one structure (any renumbering, any insertion order, same stereo labels; injective weights that correspond)
   compare equal in both directions and hash equal, for every hash function of strings *)
Theorem C01_eq_hash_structure_only :
  forall (o : opts) (str_hash : string -> Z) (d d' : described) (s : Z -> Z) (flipc : Z -> Z -> bool),
  wf_mol (strip (d_mol d)) = true -> wf_mol (strip (d_mol d')) = true -> (forall x y, s x = s y -> x = y) -> s 0 = 0 ->
  mol_perm (ren_mol s (strip (d_mol d))) (strip (d_mol d')) -> inj_on (ids (d_mol d)) (d_w d) ->
  (forall n, In n (ids (d_mol d)) -> d_w d' (s n) = d_w d n) -> o_mapping o = false ->
  (forall x, is_H (d_mol d) x = false) -> (forall x, is_H (d_mol d') x = false) ->
  same_atom_stereo (d_mol d) (d_mol d') s (d_tabs d) (d_tabs d') -> same_ct_stereo (d_mol d) (d_mol d') s (d_tabs d) (d_tabs d') flipc ->
  mol_eq (canon_of o) d' d = true /\ mol_eq (canon_of o) d d' = true /\ mol_hash (canon_of o) str_hash d' = mol_hash (canon_of o) str_hash d.
Proof. exact eq_hash_structure_only. Qed.
Print Assumptions C01_eq_hash_structure_only.

Theorem C01_eq_hash_nostereo_structure_only :
  forall (o : opts) (str_hash : string -> Z) (d d' : described) (s : Z -> Z),
  wf_mol (d_mol d) = true -> wf_mol (d_mol d') = true -> (forall x y, s x = s y -> x = y) ->
  mol_perm (ren_mol s (d_mol d)) (d_mol d') -> inj_on (ids (d_mol d)) (d_w d) ->
  (forall n, In n (ids (d_mol d)) -> d_w d' (s n) = d_w d n) -> o_stereo o = false -> o_mapping o = false ->
  mol_eq (canon_of o) d' d = true /\ mol_hash (canon_of o) str_hash d' = mol_hash (canon_of o) str_hash d.
Proof. exact eq_hash_nostereo_structure_only. Qed.
Print Assumptions C01_eq_hash_nostereo_structure_only.

(* ---- end to end from the molecule alone ---- *)
(* when the stereo elements carry pairwise different labels (in particular when the classes are discrete) every group of equal stereo
   elements is a singleton and `_chiral_morgan` returns its input for EVERY iteration order of its three sets *)
Theorem C01_chiral_morgan_order_independent_discrete : forall (h : list Z -> Z) (g : mol) (tabs : cmtabs) (ao : labels) (ord : cmorders),
  distinct_stereo_labels ao ord -> chiral_morgan h g tabs ao ord = Ok (ao, []).
Proof. exact chiral_morgan_discrete. Qed.
Print Assumptions C01_chiral_morgan_order_independent_discrete.

(* for EVERY hash function: g' is g renumbered by s AND re-inserted in any order with the same stereo labels, the classes of
   atoms_order of g are discrete.  Then the Morgan model gives g' the renamed weights, `_chiral_morgan` returns these weights on both
   sides whatever the iteration orders of its stereo sets, and the canonical strings with all stereo marks are identical (written
   order mapped by s): the canonical string is a function of the structure alone.
   special case: discreteness is required of the CONSTITUTIONAL classes (atoms_order); for molecules whose classes become discrete through the stereo refinement see C01_canonical_string_two_descriptions; molecules
   whose classes only become discrete through the stereo refinement (where group[0] / flip-half could matter) are not covered *)
Theorem C01_canonical_string_structure_only :
  forall (h : list Z -> Z) (ring ring' : Z -> bool) (g g' : mol) (s tb tb' : Z -> Z) (o : opts)
         (tabs tabs' : stabs) (ctabs ctabs' : cmtabs) (ord ord' : cmorders) (flipc : Z -> Z -> bool) (l : labels),
  wf_mol (strip g) = true -> wf_mol (strip g') = true -> (forall x y, s x = s y -> x = y) -> s 0 = 0 ->
  mol_perm (ren_mol s (strip g)) (strip g') -> (forall n, In n (ids g) -> ring' (s n) = ring n) -> o_mapping o = false ->
  (forall x, is_H g x = false) -> (forall x, is_H g' x = false) ->
  same_atom_stereo g g' s tabs tabs' -> same_ct_stereo g g' s tabs tabs' flipc ->
  atoms_order h ring g = Ok l -> NoDup (map snd l) ->
  distinct_stereo_labels l ord -> distinct_stereo_labels (ren_labels s l) ord' ->
  atoms_order h ring' g' = Ok (ren_labels s l) /\
  chiral_morgan h g ctabs l ord = Ok (l, []) /\
  chiral_morgan h g' ctabs' (ren_labels s l) ord' = Ok (ren_labels s l, []) /\
  smiles_text g' (lbl (ren_labels s l)) tb' o tabs' = map_order s (smiles_text g (lbl l) tb o tabs).
Proof. exact canonical_string_structure_only. Qed.
Print Assumptions C01_canonical_string_structure_only.

(* == and hash of such molecules *)
Theorem C01_canonical_eq_hash_structure_only :
  forall (h : list Z -> Z) (str_hash : string -> Z) (ring ring' : Z -> bool) (g g' : mol) (s tb tb' : Z -> Z)
         (o : opts) (tabs tabs' : stabs) (flipc : Z -> Z -> bool) (l : labels),
  wf_mol (strip g) = true -> wf_mol (strip g') = true -> (forall x y, s x = s y -> x = y) -> s 0 = 0 ->
  mol_perm (ren_mol s (strip g)) (strip g') -> (forall n, In n (ids g) -> ring' (s n) = ring n) -> o_mapping o = false ->
  (forall x, is_H g x = false) -> (forall x, is_H g' x = false) ->
  same_atom_stereo g g' s tabs tabs' -> same_ct_stereo g g' s tabs tabs' flipc ->
  atoms_order h ring g = Ok l -> NoDup (map snd l) ->
  let d := mkDesc g (lbl l) tb tabs in let d' := mkDesc g' (lbl (ren_labels s l)) tb' tabs' in
  mol_eq (canon_of o) d' d = true /\ mol_hash (canon_of o) str_hash d' = mol_hash (canon_of o) str_hash d.
Proof. exact canonical_eq_hash_structure_only. Qed.
Print Assumptions C01_canonical_eq_hash_structure_only.

(* `_chiral_morgan` does not depend on the iteration orders of its three stereo sets when the group[0] check never decides:
   [uniform_run] (a statement about the run on ONE order) = in every pass of __differentiation every member of a group of even size
   has a discrete environment and a computable sign, and the stereo elements are keys of the label dict.  Then no group reaches the
   flip-half heuristic, and any other iteration orders give the same weights and the same `_morgan` inputs, call by call.  Real
   refinement passes (meso / chiral pairs of equal centres, equal double bonds, equal allenes) are covered; groups whose
   environment is NOT discrete (ring cis/trans pseudo-asymmetry, the flip-half heuristic) are not. *)
Theorem C01_chiral_morgan_order_independent :
  forall (h : list Z -> Z) (g : mol) (tabs : cmtabs) (ao : labels) (ord ord2 : cmorders),
  Permutation (o_atoms ord) (o_atoms ord2) -> Permutation (o_ct ord) (o_ct ord2) -> Permutation (o_al ord) (o_al ord2) ->
  uniform_run h g tabs (diff_fuel ord) ao (o_atoms ord) (o_ct ord) (o_al ord) ->
  chiral_morgan h g tabs ao ord2 = chiral_morgan h g tabs ao ord.
Proof. exact chiral_morgan_order_independent. Qed.
Print Assumptions C01_chiral_morgan_order_independent.

(* the hypothesis is decidable: [uniform_run_b] computes it (this is what the check evaluates on real molecules) *)
Theorem C01_uniform_run_decidable :
  forall (h : list Z -> Z) (g : mol) (tabs : cmtabs) (fuel : nat) (m : labels) (sa : list Z) (sct : list (Z * Z)) (sal : list Z),
  uniform_run_b h g tabs fuel m sa sct sal = true -> uniform_run h g tabs fuel m sa sct sal.
Proof. exact uniform_run_b_sound. Qed.
Print Assumptions C01_uniform_run_decidable.

(* renumbering + ANY iteration orders of the sets: the weights of the renumbered molecule are the renumbered weights *)
Theorem C01_chiral_weights_renumbering_any_order :
  forall (h : list Z -> Z) (g : mol) (s : Z -> Z) (tabs : cmtabs) (ord ord2 : cmorders) (ao : labels),
  (forall x y, s x = s y -> x = y) ->
  uniform_run_b h g tabs (diff_fuel ord) ao (o_atoms ord) (o_ct ord) (o_al ord) = true ->
  Permutation (map s (o_atoms ord)) (o_atoms ord2) -> Permutation (map (ren_pairv s) (o_ct ord)) (o_ct ord2) ->
  Permutation (map s (o_al ord)) (o_al ord2) ->
  chiral_morgan h (ren_mol s g) (ren_cmtabs s tabs) (ren_labels s ao) ord2 = ren_cmres s (chiral_morgan h g tabs ao ord).
Proof. exact chiral_weights_renumbering_any_order. Qed.
Print Assumptions C01_chiral_weights_renumbering_any_order.

(* END TO END for molecules whose classes become discrete THROUGH the stereo refinement, for every hash function: the molecule
   renumbered by s (registries renamed, iteration orders of the stereo sets arbitrary); the run is uniform and the final weights
   are injective on the atoms.  Then atoms_order, `_chiral_morgan` and the canonical string of the copy are the renamed ones.
   (Re-insertion orders / re-listed registries of such molecules: not covered, see C01_canonical_string_structure_only for
   constitutionally discrete molecules.) *)
Theorem C01_canonical_string_renumbering_uniform :
  forall (h : list Z -> Z) (ring ring' : Z -> bool) (g : mol) (s tb tb' : Z -> Z) (o : opts)
         (tabs : stabs) (ctabs : cmtabs) (ord ord2 : cmorders) (ao W : labels) (tr : list labels),
  wf_mol g = true -> (forall x y, s x = s y -> x = y) -> s 0 = 0 -> (forall n, In n (ids g) -> ring' (s n) = ring n) -> o_mapping o = false ->
  atoms_order h ring g = Ok ao ->
  uniform_run_b h g ctabs (diff_fuel ord) ao (o_atoms ord) (o_ct ord) (o_al ord) = true ->
  chiral_morgan h g ctabs ao ord = Ok (W, tr) -> inj_on (ids g) (lbl W) ->
  Permutation (map s (o_atoms ord)) (o_atoms ord2) -> Permutation (map (ren_pairv s) (o_ct ord)) (o_ct ord2) ->
  Permutation (map s (o_al ord)) (o_al ord2) ->
  atoms_order h ring' (ren_mol s g) = Ok (ren_labels s ao) /\
  chiral_morgan h (ren_mol s g) (ren_cmtabs s ctabs) (ren_labels s ao) ord2 = Ok (ren_labels s W, map (ren_labels s) tr) /\
  smiles_text (ren_mol s g) (lbl (ren_labels s W)) tb' o (ren_tabs s tabs) = map_order s (smiles_text g (lbl W) tb o tabs).
Proof. exact canonical_string_renumbering_uniform. Qed.
Print Assumptions C01_canonical_string_renumbering_uniform.

(* non-vacuity: the meso-like diol: one refinement pass really happens (non-empty trace), the run is uniform, the final classes
   are discrete, and the other iteration order of the stereo atoms gives the same result *)
Theorem C01_chiral_order_example :
  uniform_run_b hash_ztuple exc_g exc_tabs (diff_fuel exc_ord) exc_ao (o_atoms exc_ord) (o_ct exc_ord) (o_al exc_ord) = true /\
  chiral_morgan hash_ztuple exc_g exc_tabs exc_ao (mkCmo [4; 2] [] []) = chiral_morgan hash_ztuple exc_g exc_tabs exc_ao exc_ord /\
  exists W tr, chiral_morgan hash_ztuple exc_g exc_tabs exc_ao exc_ord = Ok (W, tr) /\ tr <> [] /\ NoDup (map snd W).
Proof. exact chiral_order_example. Qed.
Print Assumptions C01_chiral_order_example.

(* == and hash for such a molecule and its renumbered copy *)
Theorem C01_canonical_eq_hash_renumbering_uniform :
  forall (h : list Z -> Z) (str_hash : string -> Z) (ring ring' : Z -> bool) (g : mol) (s tb tb' : Z -> Z)
         (o : opts) (tabs : stabs) (ctabs : cmtabs) (ord ord2 : cmorders) (ao W : labels) (tr : list labels),
  wf_mol g = true -> (forall x y, s x = s y -> x = y) -> s 0 = 0 -> (forall n, In n (ids g) -> ring' (s n) = ring n) -> o_mapping o = false ->
  atoms_order h ring g = Ok ao ->
  uniform_run_b h g ctabs (diff_fuel ord) ao (o_atoms ord) (o_ct ord) (o_al ord) = true ->
  chiral_morgan h g ctabs ao ord = Ok (W, tr) -> inj_on (ids g) (lbl W) ->
  Permutation (map s (o_atoms ord)) (o_atoms ord2) -> Permutation (map (ren_pairv s) (o_ct ord)) (o_ct ord2) ->
  Permutation (map s (o_al ord)) (o_al ord2) ->
  exists W', chiral_morgan h (ren_mol s g) (ren_cmtabs s ctabs) (ren_labels s ao) ord2 = Ok (W', map (ren_labels s) tr) /\
    let d := mkDesc g (lbl W) tb tabs in let d' := mkDesc (ren_mol s g) (lbl W') tb' (ren_tabs s tabs) in
    mol_eq (canon_of o) d' d = true /\ mol_hash (canon_of o) str_hash d' = mol_hash (canon_of o) str_hash d.
Proof. exact canonical_eq_hash_renumbering_uniform. Qed.
Print Assumptions C01_canonical_eq_hash_renumbering_uniform.

(* REFUTED (genuine defect of the pinned code, known finding canon-differs:hash-collision-charge--1--2): with CPython's hash,
   hash(-1) = hash(-2) = -2, so Element.__hash__ gives ONE invariant to every two atoms that differ only in charge -1 / -2 *)
Theorem C01_atom_invariant_charge_collision_refuted :
  forall (num : Z) (iso : option Z) (rad : bool) (hy : option Z) (st : option bool) (r : bool),
  py_atom_hash (mkAtom num iso (-1) rad hy st) r = py_atom_hash (mkAtom num iso (-2) rad hy st) r.
Proof. exact atom_invariant_charge_collision. Qed.
Print Assumptions C01_atom_invariant_charge_collision_refuted.

Theorem C01_atom_invariant_injective_refuted :
  ~ (forall (a a' : atom) (r : bool), py_atom_hash a r = py_atom_hash a' r -> a_chg a = a_chg a').
Proof. exact atom_invariant_injective_refuted. Qed.
Print Assumptions C01_atom_invariant_injective_refuted.

(* the witness [Cl-2].[Cl-]: atoms_order ties two different atoms *)
Theorem C01_atoms_order_charge_tie_refuted :
  atoms_order hash_ztuple (fun _ => false) chg_g = Ok [(1, 1); (2, 1)].
Proof. exact atoms_order_charge_tie. Qed.
Print Assumptions C01_atoms_order_charge_tie_refuted.

(* TWO DESCRIPTIONS of one labelled structure with the same atom numbers: g1 has other insertion orders of atoms and bonds, its
   registries list the neighbours of a centre in another order (sel order q) with the stored sign re-expressed by the parity of q, the
   substituents of an allene / double-bond end in the other order or the ends exchanged (var_env) with the sign re-expressed, terminal
   pairs of double-bond systems possibly the other way round (flipc), and the three stereo sets are iterated in any order.  If the
   run on g is uniform (C01_chiral_morgan_order_independent) and a pair listed the other way round has terminals of different
   classes whenever its group is processed (asym_run), then `_chiral_morgan` gives the same dict up to the order of its items and
   the same `_morgan` inputs up to item order, for every hash function.  The weight of an atom is therefore a function of the
   labelled structure - no longer an input ("given the weights") of the string theorem below. *)
Theorem C01_chiral_morgan_two_descriptions :
  forall (h : list Z -> Z) (g g1 : mol) (tabs tabs1 : cmtabs) (flipc : Z * Z -> bool) (ao ao1 : labels) (ord ord1 : cmorders),
  wf_mol (strip g) = true -> mol_perm (strip g) (strip g1) ->
  (forall x, cm_isH g x = false) -> (forall x, cm_isH g1 x = false) -> has_stereo_labels g1 = has_stereo_labels g ->
  (forall n, th_rel g g1 tabs tabs1 n) -> (forall c, al_rel g g1 tabs tabs1 c) -> (forall p, In p (o_ct ord) -> ct_rel g g1 tabs tabs1 flipc p) ->
  (forall p q, In p (o_ct ord) -> In q (o_ct ord) -> phi flipc p = phi flipc q -> p = q) ->
  NoDup (keys ao) -> Permutation ao ao1 ->
  Permutation (o_atoms ord) (o_atoms ord1) -> Permutation (map (phi flipc) (o_ct ord)) (o_ct ord1) -> Permutation (o_al ord) (o_al ord1) ->
  uniform_run h g tabs (diff_fuel ord) ao (o_atoms ord) (o_ct ord) (o_al ord) ->
  asym_run h g tabs flipc (diff_fuel ord) ao (o_atoms ord) (o_ct ord) (o_al ord) ->
  cmres_perm (chiral_morgan h g tabs ao ord) (chiral_morgan h g1 tabs1 ao1 ord1).
Proof. exact chiral_morgan_two_descriptions. Qed.
Print Assumptions C01_chiral_morgan_two_descriptions.

(* the same with every hypothesis except mol_perm as a computation (two_desc_b: what the check evaluates on real rebuilt molecules) *)
Theorem C01_chiral_morgan_two_descriptions_decidable :
  forall (h : list Z -> Z) (g g1 : mol) (tabs tabs1 : cmtabs) (flipc : Z * Z -> bool) (ao ao1 : labels) (ord ord1 : cmorders),
  mol_perm (strip g) (strip g1) -> two_desc_b h g g1 tabs tabs1 flipc ao ao1 ord ord1 = true ->
  cmres_perm (chiral_morgan h g tabs ao ord) (chiral_morgan h g1 tabs1 ao1 ord1).
Proof. exact chiral_morgan_two_descriptions_b. Qed.
Print Assumptions C01_chiral_morgan_two_descriptions_decidable.

(* END TO END, for every hash function, for molecules whose classes become discrete THROUGH the stereo refinement: any renumbering
   + any insertion order + re-listed registries + any set iteration orders.  g1 = the other description with the numbers of g, the
   copy is ren_mol s g1.  `_chiral_morgan` of the copy gives the renamed weights of g (as a function of the atom) and the canonical
   strings with all stereo marks are identical, the written order mapped by s.  (Restrictions: no explicit hydrogen atoms, s 0 = 0,
   no atom-map output, uniform run = no flip-half group.) *)
Theorem C01_canonical_string_two_descriptions :
  forall (h : list Z -> Z) (ring ring' : Z -> bool) (g g1 : mol) (s tb tb' : Z -> Z) (o : opts)
         (tabs tabs' : stabs) (ctabs ctabs1 : cmtabs) (flipc : Z * Z -> bool) (flipw : Z -> Z -> bool) (ao ao1 W : labels) (tr : list labels)
         (ord ord1 : cmorders),
  mol_perm (strip g) (strip g1) -> wf_mol g1 = true -> wf_mol (strip (ren_mol s g1)) = true ->
  (forall x y, s x = s y -> x = y) -> s 0 = 0 -> (forall n, In n (ids g1) -> ring' (s n) = ring n) -> o_mapping o = false ->
  mol_perm (ren_mol s (strip g)) (strip (ren_mol s g1)) ->
  same_atom_stereo g (ren_mol s g1) s tabs tabs' -> same_ct_stereo g (ren_mol s g1) s tabs tabs' flipw ->
  atoms_order h ring g = Ok ao -> atoms_order h ring g1 = Ok ao1 ->
  two_desc_b h g g1 ctabs ctabs1 flipc ao ao1 ord ord1 = true ->
  chiral_morgan h g ctabs ao ord = Ok (W, tr) -> NoDup (keys W) -> inj_on (ids g) (lbl W) ->
  exists W1 tr1,
    chiral_morgan h g1 ctabs1 ao1 ord1 = Ok (W1, tr1) /\ Permutation W W1 /\
    atoms_order h ring' (ren_mol s g1) = Ok (ren_labels s ao1) /\
    chiral_morgan h (ren_mol s g1) (ren_cmtabs s ctabs1) (ren_labels s ao1) (ren_cmorders s ord1) = Ok (ren_labels s W1, map (ren_labels s) tr1) /\
    smiles_text (ren_mol s g1) (lbl (ren_labels s W1)) tb' o tabs' = map_order s (smiles_text g (lbl W) tb o tabs).
Proof. exact canonical_string_two_descriptions. Qed.
Print Assumptions C01_canonical_string_two_descriptions.

(* non-vacuity: the meso-like diol and its description with every insertion order reversed and both stored signs re-expressed *)
Theorem C01_two_descriptions_example :
  mol_perm (strip exc_g) (strip exc_g1) /\
  atoms_order hash_ztuple (fun _ => false) exc_g1 = Ok exc_ao1 /\
  two_desc_b hash_ztuple exc_g exc_g1 exc_tabs exc_tabs1 (fun _ => false) exc_ao exc_ao1 exc_ord exc_ord1 = true /\
  chiral_morgan hash_ztuple exc_g exc_tabs exc_ao exc_ord =
    Ok ([(6, 1); (5, 2); (3, 3); (1, 4); (2, 5); (4, 6)], [[(2, -1); (4, 1); (1, 2); (6, 2); (3, 3); (5, 3)]]) /\
  chiral_morgan hash_ztuple exc_g1 exc_tabs1 exc_ao1 exc_ord1 =
    Ok ([(6, 1); (5, 2); (3, 3); (1, 4); (2, 5); (4, 6)], [[(4, 1); (2, -1); (6, 2); (1, 2); (5, 3); (3, 3)]]).
Proof. exact two_descriptions_example. Qed.
Print Assumptions C01_two_descriptions_example.

(* TIE of the hand-written models to the source: Gen.MorganConsts is regenerated from /repo's source (Python ast) on every run by
   tools/gen_morganconsts.py: the constants of `_morgan` (tries offset, stability limit / step / reset, rank start), the branch order of its
   loop, the hashed tuple, the field order of Element.__hash__, Bond.__hash__, the returned expressions of atoms_order / int_adjacency,
   every reference choice `key=morgan.get` and every test of __differentiation, the flip-half slices and set constructions of
   _chiral_morgan.  The model's loop IS the loop with the generated constants, and the shapes are the ones the models were written
   against: a source edit that the models do not follow breaks this theorem. *)
Theorem C01_source_constants_match_model :
  (forall h adj k atoms numb stab, refine h adj (S k) atoms numb stab =
     if closed atoms adj then
       let atoms' := round h atoms adj in
       let numb' := ndistinct (map snd atoms') in
       if (numb' =? Z.of_nat (List.length atoms'))%Z then Ok atoms'
       else if (numb' =? numb)%Z then (if (stab =? msrc_stab_limit)%Z then Ok atoms' else refine h adj k atoms' numb' (stab + msrc_stab_step)%Z)
       else if negb (stab =? msrc_stab_init)%Z then refine h adj k atoms' numb' msrc_stab_init
       else refine h adj k atoms' numb' stab
     else Err KeyError) /\
  (forall h atoms adj, morgan_labels h atoms adj =
     refine h adj (Z.to_nat (Z.of_nat (List.length atoms) - msrc_tries_offset)) atoms (ndistinct (map snd atoms)) msrc_stab_init) /\
  (forall atoms, dense_rank atoms =
     match isort by_label atoms with [] => [] | nv :: r => (fst nv, msrc_rank_start) :: rank_walk (snd nv) msrc_rank_start r end) /\
  msrc_branch_tests = ["numb == len(atoms)"; "numb == old_numb"; "stab"] /\
  msrc_round_stmt = "atoms = {n: hash((atoms[n], *(x for x in sorted(((atoms[m], b) for m, b in ms.items())) for x in x))) for n, ms in bonds.items()}" /\
  msrc_counters_stmt = "old_numb, numb = (numb, len(set(atoms.values())))" /\
  msrc_rank_expr = "{n: i for i, (_, g) in enumerate(groupby(sorted(atoms.items(), key=itemgetter(1)), key=itemgetter(1)), start=1) for n, _ in g}" /\
  msrc_atoms_order_returns = ["_morgan({n: hash(a) for n, a in self.atoms()}, self.int_adjacency)"; "{}"; "dict.fromkeys(self, 1)"] /\
  msrc_int_adjacency_returns = ["{n: {m: hash(b) for m, b in mb.items()} for n, mb in self._bonds.items()}"] /\
  msrc_atom_hash_fields = ["self.isotope or 0"; "self.atomic_number"; "self.charge"; "self.is_radical"; "self.implicit_hydrogens or 0"; "self.in_ring"] /\
  msrc_bond_hash_expr = "self.order" /\
  msrc_diff_reference_choices = ["sorted(tetrahedrons[n], key=morgan.get)"; "min(n1, n2, key=morgan.get)"; "min(m1, m2, key=morgan.get)";
                                 "min(n1, n2, key=morgan.get)"; "min(m1, m2, key=morgan.get)"] /\
  msrc_diff_tests = ["atoms_stereo"; "not len(group) % 2"; "len((env := tetrahedrons[group[0]])) == len({morgan[x] for x in env})";
                     "0 < len(s) < len(group)"; "cis_trans_stereo"; "(mn := morgan[n]) <= (mm := morgan[m])"; "not len(group) % 2";
                     "morgan[n1] != morgan.get(n2, 0) and morgan[m1] != morgan.get(m2, 0)"; "n2 is None"; "m2 is None";
                     "translate_cis_trans(n, m, a, b)"; "0 < len(s) < len(group)"; "allenes_stereo"; "not len(group) % 2";
                     "morgan[n1] != morgan.get(n2, 0) and morgan[m1] != morgan.get(m2, 0)"; "n2 is None"; "m2 is None";
                     "translate_allene(c, a, b)"; "0 < len(s) < len(group)"; "not morgan_update"] /\
  msrc_chiral_loops = ["for group in atoms_groups"; "for n in group[:len(group) // 2]"; "for group in cis_trans_groups";
                       "for (n, _) in group[:len(group) // 2]"; "for group in allenes_groups"; "for n in group[:len(group) // 2]"] /\
  msrc_chiral_assigns =
    ["stereo_atoms = {n for n, a in self.atoms() if a.stereo is not None}";
     "stereo_bonds = {n for n, mb in self._bonds.items() if any((b.stereo is not None for m, b in mb.items()))}";
     "morgan = self.atoms_order.copy()"; "atoms_stereo = stereo_atoms.intersection(self.tetrahedrons)";
     "allenes_stereo = stereo_atoms - atoms_stereo"; "cis_trans_terminals = self._stereo_cis_trans_terminals";
     "cis_trans_stereo = {cis_trans_terminals[n] for n in stereo_bonds}";
     "morgan, atoms_stereo, cis_trans_stereo, allenes_stereo, atoms_groups, cis_trans_groups, allenes_groups = self.__differentiation(morgan, atoms_stereo, cis_trans_stereo, allenes_stereo)";
     "morgan[n] = -morgan[n]"; "morgan[n] = -morgan[n]"; "morgan[n] = -morgan[n]"; "morgan = _morgan(morgan, self.int_adjacency)"].
Proof. exact source_constants_match_model. Qed.
Print Assumptions C01_source_constants_match_model.

(* mol_perm (another insertion order of atoms, adjacency rows and neighbours) is decidable: sort by atom number and compare *)
Theorem C01_mol_perm_decidable : forall g g' : mol, mol_perm_b g g' = true -> mol_perm g g'.
Proof. exact mol_perm_b_sound. Qed.
Print Assumptions C01_mol_perm_decidable.

(* C01_chiral_morgan_two_descriptions with EVERY hypothesis a computation: exactly what the check evaluates on real rebuilt molecules *)
Theorem C01_chiral_morgan_two_descriptions_fully_decidable :
  forall (h : list Z -> Z) (g g1 : mol) (tabs tabs1 : cmtabs) (flipc : Z * Z -> bool) (ao ao1 : labels) (ord ord1 : cmorders),
  mol_perm_b (strip g) (strip g1) = true -> two_desc_b h g g1 tabs tabs1 flipc ao ao1 ord ord1 = true ->
  cmres_perm (chiral_morgan h g tabs ao ord) (chiral_morgan h g1 tabs1 ao1 ord1).
Proof. exact chiral_morgan_two_descriptions_dec. Qed.
Print Assumptions C01_chiral_morgan_two_descriptions_fully_decidable.

(* ... so the weight of every atom is the same in the two descriptions *)
Theorem C01_chiral_weights_two_descriptions :
  forall (h : list Z -> Z) (g g1 : mol) (tabs tabs1 : cmtabs) (flipc : Z * Z -> bool) (ao ao1 W W1 : labels)
         (tr tr1 : list labels) (ord ord1 : cmorders),
  mol_perm_b (strip g) (strip g1) = true -> two_desc_b h g g1 tabs tabs1 flipc ao ao1 ord ord1 = true ->
  chiral_morgan h g tabs ao ord = Ok (W, tr) -> chiral_morgan h g1 tabs1 ao1 ord1 = Ok (W1, tr1) -> NoDup (keys W) ->
  forall n, lbl W1 n = lbl W n.
Proof. exact chiral_weights_two_descriptions. Qed.
Print Assumptions C01_chiral_weights_two_descriptions.

(* == (both directions) and hash of the two descriptions, the weights being what the chiral-Morgan model computes on each side *)
Theorem C01_canonical_eq_hash_two_descriptions :
  forall (h : list Z -> Z) (str_hash : string -> Z) (ring ring' : Z -> bool) (g g1 : mol) (s tb tb' : Z -> Z) (o : opts)
         (tabs tabs' : stabs) (ctabs ctabs1 : cmtabs) (flipc : Z * Z -> bool) (flipw : Z -> Z -> bool) (ao ao1 W : labels) (tr : list labels)
         (ord ord1 : cmorders),
  mol_perm (strip g) (strip g1) -> wf_mol g1 = true -> wf_mol (strip (ren_mol s g1)) = true ->
  (forall x y, s x = s y -> x = y) -> s 0 = 0 -> (forall n, In n (ids g1) -> ring' (s n) = ring n) -> o_mapping o = false ->
  mol_perm (ren_mol s (strip g)) (strip (ren_mol s g1)) ->
  same_atom_stereo g (ren_mol s g1) s tabs tabs' -> same_ct_stereo g (ren_mol s g1) s tabs tabs' flipw ->
  atoms_order h ring g = Ok ao -> atoms_order h ring g1 = Ok ao1 ->
  two_desc_b h g g1 ctabs ctabs1 flipc ao ao1 ord ord1 = true ->
  chiral_morgan h g ctabs ao ord = Ok (W, tr) -> NoDup (keys W) -> inj_on (ids g) (lbl W) ->
  exists W' tr',
    atoms_order h ring' (ren_mol s g1) = Ok (ren_labels s ao1) /\
    chiral_morgan h (ren_mol s g1) (ren_cmtabs s ctabs1) (ren_labels s ao1) (ren_cmorders s ord1) = Ok (W', tr') /\
    let d := mkDesc g (lbl W) tb tabs in let d' := mkDesc (ren_mol s g1) (lbl W') tb' tabs' in
    mol_eq (canon_of o) d' d = true /\ mol_eq (canon_of o) d d' = true /\ mol_hash (canon_of o) str_hash d' = mol_hash (canon_of o) str_hash d.
Proof. exact canonical_eq_hash_two_descriptions. Qed.
Print Assumptions C01_canonical_eq_hash_two_descriptions.

(* ---- TIE BY TRANSLATION (round 4): Gen.MorganBody is regenerated from /repo's SOURCE on every run by tools/gen_morganbody.py, which
   translates the body of chython/algorithms/morgan.py::_morgan statement by statement (the assignments before the loop, the dict
   comprehension of one refinement round with its KeyError-raising lookups, the counters, the if / elif / elif chain with its two
   `break`s, the ranking comprehension over enumerate(groupby(sorted(...)))), Morgan.atoms_order (if / elif / return chain),
   Morgan.int_adjacency, Element.__hash__ and Bond.__hash__.  The translated functions ARE the hand-written model, for every hash
   function and every input (malformed dicts included): a behaviour-changing edit of these sources breaks these theorems. *)
Theorem C01_morgan_is_translated_source :
  (forall (h : list Z -> Z) (atoms : labels) (bonds : iadj), g_morgan h atoms bonds = morgan h atoms bonds) /\
  (forall (h : list Z -> Z) (atoms : labels) (bonds : iadj), g_morgan_labels h atoms bonds = morgan_labels h atoms bonds) /\
  (forall atoms : labels, g_rank atoms = dense_rank atoms).
Proof. exact morgan_is_translated_source. Qed.
Print Assumptions C01_morgan_is_translated_source.

Theorem C01_atoms_order_is_translated_source :
  (forall (h : list Z -> Z) (ring : Z -> bool) (g : mol), g_atoms_order h ring g = atoms_order h ring g) /\
  (forall g : mol, g_int_adjacency g = int_adjacency g) /\
  (forall (h : list Z -> Z) (a : atom) (r : bool), g_atom_hash h a r = atom_invariant h a r) /\
  (forall b : bond, g_bond_hash b = bond_invariant b).
Proof. exact atoms_order_is_translated_source. Qed.
Print Assumptions C01_atoms_order_is_translated_source.

(* the property itself, stated about the TRANSLATED source: for every hash function, the rank the translated atoms_order gives to an
   atom does not depend on the atom numbers nor on the insertion order of atoms, adjacency rows and neighbours *)
Theorem C01_translated_atoms_order_structure_only :
  forall (h : list Z -> Z) (ring ring' : Z -> bool) (g : mol) (s : Z -> Z) (g' : mol),
  wf_mol g = true -> inj_on (ids g) s -> (forall n, In n (ids g) -> ring' (s n) = ring n) -> mol_perm (ren_mol s g) g' ->
  forall n, In n (ids g) -> rank_of (g_atoms_order h ring' g') (s n) = rank_of (g_atoms_order h ring g) n.
Proof. exact translated_atoms_order_structure_only. Qed.
Print Assumptions C01_translated_atoms_order_structure_only.

Theorem C01_translated_morgan_equivariant_dicts : forall (h : list Z -> Z) (s : Z -> Z) (D : list Z), inj_on D s ->
  forall atoms adj, incl (keys atoms) D -> adj_in D adj ->
  g_morgan h (ren_labels s atoms) (ren_adj s adj) = ren_res s (g_morgan h atoms adj).
Proof. exact translated_morgan_equivariant_dicts. Qed.
Print Assumptions C01_translated_morgan_equivariant_dicts.

(* non-vacuity: the translated function computes (CPython tuple hash; a path of three equal atoms: the ends share a rank), and raises
   KeyError on an adjacency that mentions a missing atom *)
Theorem C01_translated_morgan_example :
  g_morgan hash_ztuple [(1, 5); (2, 5)] [(1, [(9, 1)]); (2, [])] = Err KeyError /\
  exists r, g_morgan hash_ztuple [(1, 5); (2, 5); (3, 5)] [(1, [(2, 1)]); (2, [(1, 1); (3, 1)]); (3, [(2, 1)])] = Ok r /\
            zget r 1 = zget r 3 /\ zget r 1 <> zget r 2.
Proof. exact translated_morgan_example. Qed.
Print Assumptions C01_translated_morgan_example.

(* ---- TIE BY TRANSLATION of the writer's ordering decisions: Gen.SmilesKeys is regenerated from the SOURCE of Smiles._smiles on every
   run by tools/gen_smileskeys.py (the `groups` table and its loop, mod_weights_start, mod_weights in both the random and the canonical
   mode, the key of `min(atoms_set, ...)`, the keys of the two `sorted(...)` calls of the DFS; the translator refuses any further use of
   the weights inside _smiles).  The sort keys of the writer model that every writer theorem above is about (key_start: start atom,
   key_child_at: children of a DFS node) are the translated keys followed by the tie-break priority (the model's stand-in for CPython
   set iteration order), and the start atom's neighbours are sorted by the same key as every other node's children (the line fixed by
   2e3e6bb).  An edit of one of these expressions breaks this theorem (or the translator fails closed). *)
Theorem C01_writer_sort_keys_are_translated_source :
  (forall (w : Z -> Z) (all : list Z) (x : Z), dd_get (k_groups w all) (w x) = group_of w all x) /\
  (forall (w tb : Z -> Z) (o : opts) (all : list Z) (seen : list (Z * Z)) (x : Z),
     key_start w tb o all x = (k_start_key w (o_random o) (k_groups w all) seen x ++ [tb x])%list) /\
  (forall (g : mol) (w tb : Z -> Z) (o : opts) (all : list Z) (seen : list (Z * Z)) (p x : Z),
     key_child_at g w tb o all seen p x = (k_sort_child g w (o_random o) (k_groups w all) seen p x ++ [tb x])%list) /\
  (forall (g : mol) (w tb : Z -> Z) (o : opts) (all : list Z) (seen : list (Z * Z)) (p x : Z),
     key_child_at g w tb o all seen p x = (k_sort_start g w (o_random o) (k_groups w all) seen p x ++ [tb x])%list).
Proof. exact writer_sort_keys_are_translated_source. Qed.
Print Assumptions C01_writer_sort_keys_are_translated_source.

(* non-vacuity: a start atom with a double and a single bond to two atoms of equal weight (cyclobutadiene): the translated key tells the
   two neighbours apart by the bond order, after the weight part *)
Theorem C01_writer_sort_keys_example :
  let g := mkMol [(1, mkAtom 6 None 0 false (Some 1) None); (2, mkAtom 6 None 0 false (Some 1) None); (4, mkAtom 6 None 0 false (Some 1) None)]
                 [(1, [(2, mkBond 2 None); (4, mkBond 1 None)]); (2, [(1, mkBond 2 None)]); (4, [(1, mkBond 1 None)])] in
  let w := fun n : Z => if n =? 1 then 1 else 2 in
  let gr := k_groups w [1; 2; 4] in
  k_start_key w false gr [] 1 = [-1; 1] /\
  k_sort_start g w false gr [(1, 0); (2, 1); (4, 1)] 1 2 = [-2; 2; 1; 2] /\
  k_sort_start g w false gr [(1, 0); (2, 1); (4, 1)] 1 4 = [-2; 2; 1; 1].
Proof. exact sort_keys_example. Qed.
Print Assumptions C01_writer_sort_keys_example.

(* ---- FROM OBSERVATION TO THEOREM (round 4): the fuel of the model of MoleculeStereo.__differentiation is sufficient.  A pass whose
   morgan_update is non-empty has discarded a whole non-empty group from one of the three stereo sets (groups = classes of equal
   label, pairwise disjoint), so mu = |atoms_stereo| + |cis_trans_stereo| + |allenes_stereo| strictly decreases whenever the
   `while True` loop goes round again.  Hence: the result is the same for every fuel above mu; the out-of-fuel value is never
   returned (no other part of the model produces OtherError); the sets returned are not larger, so in the model of _chiral_morgan
   every call of __differentiation has enough fuel with diff_fuel.  (The OUTER loop of _chiral_morgan - flip-half - keeps its
   observed fuel: its termination is not a measure argument on these sets.) *)
Theorem C01_differentiation_fuel_sufficient :
  forall (h : list Z -> Z) (g : mol) (tabs : cmtabs) (fuel1 fuel2 : nat) (morgan : labels) (sa : list Z) (sct : list (Z * Z)) (sal : list Z)
         (trace : list labels),
  (mu sa sct sal < fuel1)%nat -> (mu sa sct sal < fuel2)%nat ->
  differentiation h g tabs fuel1 morgan sa sct sal trace = differentiation h g tabs fuel2 morgan sa sct sal trace.
Proof. exact differentiation_fuel_irrelevant. Qed.
Print Assumptions C01_differentiation_fuel_sufficient.

Theorem C01_differentiation_never_out_of_fuel :
  forall (h : list Z -> Z) (g : mol) (tabs : cmtabs) (fuel : nat) (morgan : labels) (sa : list Z) (sct : list (Z * Z)) (sal : list Z)
         (trace : list labels),
  (mu sa sct sal < fuel)%nat -> differentiation h g tabs fuel morgan sa sct sal trace <> Err OtherError.
Proof. exact differentiation_never_out_of_fuel. Qed.
Print Assumptions C01_differentiation_never_out_of_fuel.

Theorem C01_differentiation_sets_not_larger :
  forall (h : list Z -> Z) (g : mol) (tabs : cmtabs) (fuel : nat) (morgan : labels) (sa : list Z) (sct : list (Z * Z)) (sal : list Z)
         (trace : list labels) (d : dres),
  differentiation h g tabs fuel morgan sa sct sal trace = Ok d -> (mu (d_atoms d) (d_ct d) (d_al d) <= mu sa sct sal)%nat.
Proof. exact differentiation_sets_le. Qed.
Print Assumptions C01_differentiation_sets_not_larger.

(* _chiral_morgan's model with ANY larger inner fuel is the same function: diff_fuel is enough at every call of __differentiation *)
Theorem C01_chiral_morgan_inner_fuel_sufficient :
  forall (h : list Z -> Z) (g : mol) (tabs : cmtabs) (ao : labels) (ord : cmorders) (extra : nat),
  chiral_morgan h g tabs ao ord =
  if negb (has_stereo_labels g) then Ok (ao, [])
  else chiral_loop h g tabs (S (S (List.length (m_atoms g)))) (diff_fuel ord + extra) ao (o_atoms ord) (o_ct ord) (o_al ord) [].
Proof. exact chiral_morgan_inner_fuel_sufficient. Qed.
Print Assumptions C01_chiral_morgan_inner_fuel_sufficient.

Theorem C01_differentiation_fuel_example :
  (mu (o_atoms exc_ord) (o_ct exc_ord) (o_al exc_ord) < diff_fuel exc_ord)%nat /\
  (exists d, differentiation hash_ztuple exc_g exc_tabs (diff_fuel exc_ord) exc_ao (o_atoms exc_ord) (o_ct exc_ord) (o_al exc_ord) [] = Ok d /\
             d_trace d <> [] /\ d_atoms d = []) /\
  differentiation hash_ztuple exc_g exc_tabs (diff_fuel exc_ord + 1000) exc_ao (o_atoms exc_ord) (o_ct exc_ord) (o_al exc_ord) [] =
  differentiation hash_ztuple exc_g exc_tabs (diff_fuel exc_ord) exc_ao (o_atoms exc_ord) (o_ct exc_ord) (o_al exc_ord) [].
Proof. exact differentiation_fuel_example. Qed.
Print Assumptions C01_differentiation_fuel_example.

(* ---- TIE BY TRANSLATION of the stereo mark of an atom token: Gen.AtomStereoMark is regenerated from the SOURCE of
   MoleculeSmiles._format_atom on every run by tools/gen_atomstereo.py (the whole stereo block: the guard, the allene branch with both
   `next(...)` choices of the first written substituent, the reversed mark of a first-written centre WITH AN IMPLICIT HYDROGEN, the general
   tetrahedral mark).  It is Writer.stereo_mark - the function all C01 theorems about stereo marks are about - whenever the neighbour
   table is not empty and lists the second terminal of an allene centre (inside _smiles `visited` lists every atom of the component);
   unconditionally the two give equal results and fail on the same inputs. *)
Theorem C01_stereo_mark_is_translated_source :
  forall (g : mol) (o : opts) (tabs : stabs) (n : Z) (adj : adjacency) (a : atom),
  adj <> [] -> (forall t1 t2, zget (t_allene_term tabs) n = Some (t1, t2) -> zget adj t2 <> None) ->
  g_stereo_mark g o tabs n adj a = stereo_mark g o tabs n adj a.
Proof. exact g_stereo_mark_is_model. Qed.
Print Assumptions C01_stereo_mark_is_translated_source.

Theorem C01_stereo_mark_translated_ok_equiv :
  forall (g : mol) (o : opts) (tabs : stabs) (n : Z) (adj : adjacency) (a : atom),
  ok_equiv (g_stereo_mark g o tabs n adj a) (stereo_mark g o tabs n adj a).
Proof. exact g_stereo_mark_ok_equiv. Qed.
Print Assumptions C01_stereo_mark_translated_ok_equiv.

(* non-vacuity: a centre 2 with neighbours 1 3 4 (stored sign true) written FIRST: with an implicit hydrogen the mark is the reversed
   one, with an explicit hydrogen atom 5 (no implicit hydrogen) it is not *)
Theorem C01_stereo_mark_translated_example :
  let tabs := mkStabs [(2, [1; 3; 4])] [] [] [] [] [] [] in
  let tabs4 := mkStabs [(2, [1; 3; 4; 5])] [] [] [] [] [] [] in
  let c := fun h : Z => mkAtom 6 None 0 false (Some h) (Some true) in
  let x := mkAtom 9 None 0 false (Some 0) None in
  let g := mkMol [(2, c 1); (1, x); (3, x); (4, x)] [] in
  let g4 := mkMol [(2, c 0); (1, x); (3, x); (4, x); (5, mkAtom 1 None 0 false (Some 0) None)] [] in
  g_stereo_mark g default_opts tabs 2 [(2, [1; 3; 4]); (1, [2]); (3, [2]); (4, [2])] (c 1) = Ok "@@"%string /\
  g_stereo_mark g default_opts tabs 2 [(1, [2]); (2, [1; 3; 4]); (3, [2]); (4, [2])] (c 1) = Ok "@"%string /\
  g_stereo_mark g4 default_opts tabs4 2 [(2, [1; 3; 4; 5]); (1, [2]); (3, [2]); (4, [2]); (5, [2])] (c 0) = Ok "@"%string.
Proof. exact stereo_mark_translated_example. Qed.
Print Assumptions C01_stereo_mark_translated_example.

(* ---- REFUTED for the faithful model (known finding canon-differs:wl-equivalent-components): Morgan cannot tell apart non-isomorphic
   components whose atoms are pairwise Weisfeiler-Lehman equivalent.  For EVERY hash function and every common initial invariant c,
   `_morgan` on the disjoint union of a three-ring and a six-ring (cyclopropane + cyclohexane) gives rank 1 to all nine atoms: the
   weights are not discrete, the start atom of the first component is chosen among tied atoms (set order), and the order of the
   components in the canonical string follows atom numbers / input order.  The discreteness hypothesis of the writer theorems is
   therefore necessary for multi-component molecules too. *)
Theorem C01_morgan_wl_equivalent_components_one_class : forall (h : list Z -> Z) (c : Z),
  morgan h (c3c6_atoms c) c3c6_adj = Ok (map (fun n => (n, 1)) c3c6_ids).
Proof. exact morgan_wl_equivalent_components_one_class. Qed.
Print Assumptions C01_morgan_wl_equivalent_components_one_class.

Theorem C01_morgan_wl_equivalent_components_refuted :
  ~ (forall (h : list Z -> Z) (atoms : labels) (adj : iadj) (r : labels) (n m : Z), morgan h atoms adj = Ok r ->
       atoms = c3c6_atoms 7 -> adj = c3c6_adj -> n = 1 -> m = 4 -> zget r n <> zget r m).
Proof. exact morgan_wl_equivalent_components_refuted. Qed.
Print Assumptions C01_morgan_wl_equivalent_components_refuted.
