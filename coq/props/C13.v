(* C13 -- edits keep derived views coherent; transactions atomic; copies independent.
   Statements only; proofs in Proofs.Cache{Wf,Copy,Coh,World,Union,Theorems,Usable,Examples}.  Model: Model.Cache (a heap of bond objects, live
   molecules with atoms, adjacency of bond references, cache = list of (key, snapshot of the view it was computed from),
   _changed, _backup).  W = the world invariant: every live molecule and every transaction backup is well formed and
   cache-coherent, and no bond object belongs to two of them.  ops_ok = the contract of a history: attribute setters only
   inside a transaction. *)
From Coq Require Import ZArith List Bool.
From Model Require Import PyBase Cache.
From Proofs Require Import CacheProofs CacheWf CacheCopy CacheCoh CacheWorld CacheUnion CacheTheorems CacheUsable CacheExamples CacheTxn CacheFresh CacheFreshOps CacheFreshWorld CacheFreshUnion CacheFreshSplit CacheInj CacheInjOps CacheInjWorld CacheFreshPatch CacheFreshFull CacheStereo CacheTie CacheUsable2 CacheCopyTotal CacheUsable3 CacheUsable4 CacheOpsTie CacheOpsTie2 CacheOpsTie3 CacheOpsTie4 CacheOpsTie5 CacheOpsTie6 CacheTotal CacheTotal2 CacheTotal3 CacheFuel CacheFreshSplit.
From Gen Require Import CacheOps.
Import ListNotations.
Open Scope Z_scope.

(* the invariant holds in the empty world and is kept by every operation (union in place and copying included), for all histories *)
Theorem C13_invariant_initial : W empty_state.
Proof. exact W_empty. Qed.
Print Assumptions C13_invariant_initial.

Theorem C13_invariant_step : forall s p, W s -> op_ok s p -> W (fst (step s p)).
Proof. exact step_W. Qed.
Print Assumptions C13_invariant_step.

Theorem C13_invariant_run : forall ops s, W s -> ops_ok s ops -> W (fold_left (fun s p => fst (step s p)) ops s).
Proof. exact run_W. Qed.
Print Assumptions C13_invariant_run.

(* every cached entry of every live molecule outside a transaction equals derive k of the CURRENT molecule, for any derive
   function that depends on what the key is computed from (ring family: non-special connectivity; components: connectivity;
   anything else: the whole view); entries of the ring family / components are current even inside a transaction *)
Theorem C13_cache_coherent :
  forall (value : Type) (derive : key -> view -> value),
  (forall k a b, equiv_for k a b -> derive k a = derive k b) ->
  forall ops s, W s -> ops_ok s ops ->
  forall o, In o (live (run ops s)) ->
    (forall k snap, fc k = true -> cget (o_cache o) k = Some snap -> derive k snap = derive k (view_of (s_heap (run ops s)) o)) /\
    (o_backup o = None ->
     forall k snap, cget (o_cache o) k = Some snap -> derive k snap = derive k (view_of (s_heap (run ops s)) o)).
Proof. exact cache_coherent. Qed.
Print Assumptions C13_cache_coherent.

(* the adjacency stays symmetric and aliased (both directions hold the same bond object), loop free, over exactly the atoms,
   every reference allocated; _changed names existing atoms only: for live molecules and backups *)
Theorem C13_adjacency_symmetric_aliased : forall ops s, W s -> ops_ok s ops ->
  forall o, In o (units (run ops s)) ->
    keys (o_adj o) = keys (o_atoms o) /\ NoDup (keys (o_atoms o)) /\
    (forall n m r, slot_of o n m = Some r -> slot_of o m n = Some r /\ n <> m /\ In m (keys (o_atoms o)) /\
                                             exists c, hget (s_heap (run ops s)) r = Some c) /\
    (forall l, o_changed o = Some l -> forall x, In x l -> In x (keys (o_atoms o))).
Proof. exact adjacency_symmetric_aliased. Qed.
Print Assumptions C13_adjacency_symmetric_aliased.

(* copies, substructures, unions, backups: no bond object shared between two of the live units *)
Theorem C13_copy_separate : forall ops s, W s -> ops_ok s ops ->
  forall l1 a l2, units (run ops s) = l1 ++ a :: l2 -> forall b, In b (l1 ++ l2) ->
  forall r, In r (refs_of_adj (o_adj a)) -> ~ In r (refs_of_adj (o_adj b)).
Proof. exact copy_separate. Qed.
Print Assumptions C13_copy_separate.

(* copy(): same view as the source, own bond objects, _changed copied, _backup None, empty cache *)
Theorem C13_copy_independent : forall s, W s -> snd (step s OCopy) = None ->
  exists c, s_others (fst (step s OCopy)) = c :: s_others s /\ s_cur (fst (step s OCopy)) = s_cur s /\
    view_of (s_heap (fst (step s OCopy))) c = view_of (s_heap s) (s_cur s) /\
    view_of (s_heap (fst (step s OCopy))) (s_cur s) = view_of (s_heap s) (s_cur s) /\
    o_changed c = o_changed (s_cur s) /\ o_backup c = None /\ o_cache c = [] /\
    (forall r, In r (refs_of_adj (o_adj (s_cur s))) -> ~ In r (refs_of_adj (o_adj c))).
Proof. exact copy_independent. Qed.
Print Assumptions C13_copy_independent.

(* editing one molecule leaves what every other live molecule shows unchanged *)
Theorem C13_edits_leave_others_alone : forall s p, W s -> op_ok s p -> body_op p = true ->
  forall o, In o (s_others s) ->
    In o (s_others (fst (step s p))) /\ view_of (s_heap (fst (step s p))) o = view_of (s_heap s) o.
Proof. exact edits_leave_others_alone. Qed.
Print Assumptions C13_edits_leave_others_alone.

(* exit_exn . ops . enter restores atoms (with stored hydrogens and labels), bonds, name, meta, _changed, clears _backup,
   keeps the ring-family / component entries of the cache, and the result satisfies the invariant again.  ops: ANY operations
   (edits, reads, setters, copy, substructure, union in place and copying, renumbering, the patch step, a nested enter - which
   is rejected) except the exit itself and swap (not a library operation) *)
Theorem C13_transaction_atomic : forall s ops, W s -> snd (step s OEnter) = None ->
  ops_ok (fst (step s OEnter)) ops -> block_ops ops = true ->
  let s3 := fst (step (run ops (fst (step s OEnter))) OExitExn) in
  snd (step (run ops (fst (step s OEnter))) OExitExn) = None /\
  view_of (s_heap s3) (s_cur s3) = view_of (s_heap s) (s_cur s) /\
  o_name (s_cur s3) = o_name (s_cur s) /\ o_meta (s_cur s3) = o_meta (s_cur s) /\
  o_changed (s_cur s3) = o_changed (s_cur s) /\ o_backup (s_cur s3) = None /\
  o_cache (s_cur s3) = filter (kept true true) (o_cache (s_cur s)) /\
  W s3.
Proof. exact transaction_atomic_full. Qed.
Print Assumptions C13_transaction_atomic.

Theorem C13_transaction_full_example :
  let s := run build_cco empty_state in
  W s /\ snd (step s OEnter) = None /\ ops_ok (fst (step s OEnter)) txn_body_full /\ block_ops txn_body_full = true /\
  trace txn_body_full (fst (step s OEnter)) = repeat None 7 ++ [Some OtherError; None] /\
  keys (o_atoms (s_cur (run txn_body_full (fst (step s OEnter))))) = [11; 2; 3; 4; 5; 7; 8; 9].
Proof. exact transaction_full_example. Qed.
Print Assumptions C13_transaction_full_example.

(* a nested enter of the same molecule is rejected and changes nothing *)
Theorem C13_enter_nested_rejected : forall s, o_backup (s_cur s) <> None -> step s OEnter = (s, Some OtherError).
Proof. exact enter_nested_rejected. Qed.
Print Assumptions C13_enter_nested_rejected.

(* a usable state: outside a transaction the next edit (a new atom, followed by fix_structure over the whole molecule or the
   pending atoms) raises nothing; with the invariant re-established by transaction_atomic / copy_independent this covers the
   molecule after a rollback and copies *)
Theorem C13_usable : forall s c, W s -> o_backup (s_cur s) = None -> snd (step s (OAddAtom c None)) = None.
Proof. exact usable. Qed.
Print Assumptions C13_usable.

Theorem C13_fix_structure_total : forall h o, inv1 h o -> exists h' o', fix_structure h o = (h', o', None) /\ inv1 h' o'.
Proof. exact fix_structure_total. Qed.
Print Assumptions C13_fix_structure_total.

(* the selective flush of the Standardize patch step keeps ring-family entries only when neither the old nor the new order
   of the edited bond is 8: the non-special connectivity (and the connectivity) is then unchanged *)
Theorem C13_keep_sssr_sound : forall h o o1 rf cl bo,
  o_adj o1 = o_adj o -> hget h rf = Some cl -> (b_ord cl =? 8) || (bo =? 8) = false ->
  nsconn (view_of h o) = nsconn (view_of (hset h rf (mkB bo (b_lab cl))) o1) /\
  conn (view_of h o) = conn (view_of (hset h rf (mkB bo (b_lab cl))) o1).
Proof. exact keep_sssr_sound. Qed.
Print Assumptions C13_keep_sssr_sound.

(* and in the state machine: after the patch operation on a well formed coherent molecule nothing happened or the cache is coherent *)
Theorem C13_patch_coherent : forall n m bo dch h o, inv1 h o -> CohFC h o ->
  match patch n m bo dch h o with (h', o', _) => (h', o') = (h, o) \/ Coh h' o' end.
Proof. exact patch_strong. Qed.
Print Assumptions C13_patch_coherent.

(* non-vacuity: a read - delete - read history, and a transaction that really changes the molecule and is rolled back *)
Theorem C13_read_delete_read_example :
  ops_ok empty_state read_delete_read /\
  trace read_delete_read empty_state = repeat None 12 /\
  (let s0 := run build_ring empty_state in
   let s := run read_delete_read empty_state in
   match cget (o_cache (s_cur s0)) Ksssr, cget (o_cache (s_cur s)) Ksssr with
   | Some old, Some new =>
       equivb Ksssr new (view_of (s_heap s) (s_cur s)) = true /\
       equivb Ksssr old (view_of (s_heap s) (s_cur s)) = false
   | _, _ => False
   end).
Proof. exact read_delete_read_example. Qed.
Print Assumptions C13_read_delete_read_example.

Theorem C13_transaction_example :
  let s := run build_cco empty_state in
  W s /\ snd (step s OEnter) = None /\ ops_ok (fst (step s OEnter)) txn_body /\ body_ops txn_body = true /\
  view_eqb (view_of (s_heap (run txn_body (fst (step s OEnter)))) (s_cur (run txn_body (fst (step s OEnter)))))
           (view_of (s_heap s) (s_cur s)) = false /\
  trace [OExitExn; OAddAtom nitrogen None; OAddBond 3 4 1; ODelAtom 1] (run txn_body (fst (step s OEnter))) = [None; None; None; None].
Proof. exact transaction_example. Qed.
Print Assumptions C13_transaction_example.

Theorem C13_union_example :
  ops_ok empty_state union_history /\ trace union_history empty_state = repeat None 13 /\
  (let s := run union_history empty_state in
   keys (o_atoms (s_cur s)) = [1; 2; 3; 4; 5; 6] /\ List.length (s_others s) = 2%nat /\
   match s_others s with u :: _ => keys (o_atoms u) = [1; 2; 3; 4; 5; 6; 7; 8; 9] | [] => False end).
Proof. exact union_example. Qed.
Print Assumptions C13_union_example.

(* ---- the STORED derived data: FWI = W + for every live molecule and backup: each atom is pending (in _changed) or its stored
   hydrogen count was computed from its current environment (with the charge / radical state it has now, or - inside a
   transaction - had in the backup; atoms the backup does not know under their number are recalculated at commit), outside a
   transaction nothing is pending and every label and bond mark is current; + distinct bonds are distinct objects.
   Contract fop_full, for ALL operations (union in place and copying, split, the patch step included): setters only inside a
   transaction; no copy(), split(), patch step or union partner taken from the intermediate state of an open transaction; a
   union whose current molecule is inside a transaction is in place and brings in no atom under a number the backup still
   knows - the one excluded situation is a real failure of the code: C13_fresh_union_reuse_refuted. *)
Theorem C13_fresh_initial : FWI empty_state.
Proof. exact FWI_empty. Qed.
Print Assumptions C13_fresh_initial.

Theorem C13_fresh_step : forall s p, FWI s -> op_ok s p -> fop_full s p -> FWI (fst (step s p)).
Proof. exact step_FWI. Qed.
Print Assumptions C13_fresh_step.

(* distinct bonds are distinct objects, in every live molecule and backup, after every operation *)
Theorem C13_bond_objects_distinct : forall s p, WI s -> W s -> op_ok s p -> WI (fst (step s p)).
Proof. exact step_WI. Qed.
Print Assumptions C13_bond_objects_distinct.

(* the _changed bookkeeping (incl. the setter tracking at __exit__ and the marking by remap inside a block) is sufficient:
   outside a transaction, after every operation, each stored implicit-hydrogen count equals calc of the atom's current
   environment, each label equals labels of its current neighbourhood, every bond carries its ring mark, nothing is pending *)
Theorem C13_stored_fresh : forall (H L : Type) (calc : env -> H) (labels : lenv -> L) ops s, FWI s -> fops_full s ops ->
  forall o, In o (live (run ops s)) -> o_backup o = None ->
    o_changed o = None /\
    (forall r, In r (refs_of_adj (o_adj o)) -> exists c, hget (s_heap (run ops s)) r = Some c /\ b_lab c = true) /\
    forall n a, zget (o_atoms o) n = Some a ->
      exists l, lenv_of_row (s_heap (run ops s)) (o_atoms o) (row o n) = Ok l /\
                stored_h H calc a = Some (calc (a_core a, l)) /\ stored_l L labels a = Some (labels l).
Proof. exact stored_fresh_full. Qed.
Print Assumptions C13_stored_fresh.

(* the excluded situation breaks the statement in the faithful model of the current code (known finding
   txn-union-number-reuse-untracked, replayed on the real code by the search): every operation of the history is within the
   contract except that the in-place union re-uses number 3, which the backup still knows; at the end atom 3 (N, charge 0)
   keeps the hydrogen count computed for N+ *)
Theorem C13_fresh_union_reuse_refuted :
  ops_ok empty_state reuse_history /\ trace reuse_history empty_state = repeat None 14 /\
  fops_full empty_state (firstn 10 reuse_history) /\
  (let s := run (firstn 10 reuse_history) empty_state in
   match s_others s with other :: _ => o_backup other = None | [] => False end /\
   exists b, o_backup (s_cur s) = Some b /\ zget (bk_atoms b) 3 <> None /\ ~ In 3 (keys (o_atoms (s_cur s))) /\
             In 3 (keys (o_atoms (s_cur (fst (union false false s)))))) /\
  (let s := run reuse_history empty_state in
   o_backup (s_cur s) = None /\ hyd_fresh (s_heap s) (s_cur s) 3 = false /\
   option_map a_core (zget (o_atoms (s_cur s)) 3) = Some (mkCore 7 None 0 false) /\
   option_map a_hyd (zget (o_atoms (s_cur s)) 3) = Some (Some (mkCore 7 None 1 false, []))).
Proof. exact fresh_union_reuse_refuted. Qed.
Print Assumptions C13_fresh_union_reuse_refuted.

Theorem C13_fresh_full_example :
  fops_full empty_state full_history /\ ops_ok empty_state full_history /\ trace full_history empty_state = repeat None 22 /\
  (let s := run full_history empty_state in
   forallb (fun o => forallb (fun n => hyd_fresh (s_heap s) o n && lab_fresh (s_heap s) o n) (keys (o_atoms o))) (live s) = true /\
   (6 <= List.length (live s))%nat).
Proof. exact full_example. Qed.
Print Assumptions C13_fresh_full_example.

Theorem C13_fresh_example :
  fops_ok empty_state fresh_history /\ trace fresh_history empty_state = repeat None 20 /\
  (let s := run fresh_history empty_state in
   forallb (fun o => forallb (fun n => hyd_fresh (s_heap s) o n && lab_fresh (s_heap s) o n) (keys (o_atoms o))) (live s) = true /\
   List.length (live s) = 3%nat /\ keys (o_atoms (s_cur s)) = [1; 9; 10]).
Proof. exact fresh_example. Qed.
Print Assumptions C13_fresh_example.

(* split, __sub__, augmented_substructure, __and__ are operations of the state machine (all theorems above cover them; the
   freshness contract excludes split) *)
Theorem C13_parts_example :
  ops_ok empty_state parts_history /\ trace parts_history empty_state = repeat None 13 /\
  map (fun o => keys (o_atoms o)) (s_others (run parts_history empty_state)) = [[2; 3]; [1; 2]; [2; 3; 4]; [4]; [1; 2; 3]].
Proof. exact parts_example. Qed.
Print Assumptions C13_parts_example.

(* ---- fix_stereo as an abstract operation (labels flushed, then restored round by round while the atom is a stereocentre given
   the labels restored so far; the result = the labels once the rounds are stable).  `chiral` is universally quantified with ONE
   hypothesis: it depends only on the atom's connected component.  Then two molecules that look the same on a set closed under
   adjacency - a molecule before and after an edit elsewhere - end up with the same labels there, however many rounds each
   needs: the theorem counterpart of the stereo-locality oracle of the search *)
Theorem C13_fix_stereo_local :
  forall (chiral : view -> labelling -> Z -> bool),
  (forall C v v' l l', closedv v C -> closedv v' C -> agree C v v' l l' -> forall n, In n C -> chiral v l n = chiral v' l' n) ->
  forall C v v' st st' k k',
  closedv v C -> closedv v' C -> agree C v v' st st' -> stable chiral v st k -> stable chiral v' st' k' ->
  forall n, In n C -> rounds chiral v st k n = rounds chiral v' st' k' n.
Proof. exact fix_stereo_local. Qed.
Print Assumptions C13_fix_stereo_local.

(* the hypothesis is satisfiable: e.g. 'exactly four neighbours' is local *)
Theorem C13_fix_stereo_local_nonvacuous : forall C v v' l l', closedv v C -> closedv v' C -> agree C v v' l l' ->
  forall n, In n C -> four_nbrs v l n = four_nbrs v' l' n.
Proof. exact four_nbrs_local. Qed.
Print Assumptions C13_fix_stereo_local_nonvacuous.

(* ---- tie of the hand-copied constants: coq/gen/CacheTables.v is regenerated from /repo's source on every run by tools/gen_cache.py
   (valid bond orders of Bond.__init__, the bounds of the charge setter, the names kept by flush_cache / copy under keep_sssr /
   keep_components, the order compared with `bond` in add_bond / delete_atom / delete_bond, the flags of the backup copy in
   __enter__, the charge bound and the keep_sssr condition of __standardize, which cached ring property reads which); the model
   agrees with all of them *)
Theorem C13_source_constants_tie : tie_orders && tie_charge && tie_kept && tie_special && tie_reads = true.
Proof. exact source_constants_tie. Qed.
Print Assumptions C13_source_constants_tie.

(* ---- "as editable as its source": on the current molecule of ANY state satisfying W (a molecule after a rollback, a copy, a
   substructure, a union, a split part ...) the mutators raise nothing for valid arguments, inside and outside a transaction
   (add_atom: outside; inside it cannot fail either but that is not stated) *)
Theorem C13_editable : forall s, W s ->
  (forall c, o_backup (s_cur s) = None -> snd (step s (OAddAtom c None)) = None) /\
  (forall n m ord, valid_order ord = true -> n <> m -> In n (keys (o_atoms (s_cur s))) -> In m (keys (o_atoms (s_cur s))) ->
                   slot_of (s_cur s) m n = None -> snd (step s (OAddBond n m ord)) = None) /\
  (forall n, In n (keys (o_atoms (s_cur s))) -> snd (step s (ODelAtom n)) = None) /\
  (forall n m, slot_of (s_cur s) n m <> None -> snd (step s (ODelBond n m)) = None).
Proof. exact editable. Qed.
Print Assumptions C13_editable.

(* copy() and `with mol:` succeed on every settled molecule: the labels and ring marks they read are there (freshness invariant) and
   the copy loop never fails on a symmetric adjacency *)
Theorem C13_copy_enter_total : forall s, FW s -> o_backup (s_cur s) = None ->
  snd (step s OCopy) = None /\ snd (step s OEnter) = None.
Proof. exact copy_enter_total. Qed.
Print Assumptions C13_copy_enter_total.

(* substructure (default and with kept hydrogens) and __and__ raise nothing for a non-empty selection of existing atoms *)
Theorem C13_substructure_total : forall s ats, W s -> ats <> [] -> (forall x, In x ats -> In x (keys (o_atoms (s_cur s)))) ->
  snd (step s (OSub ats)) = None /\ snd (step s (OAnd ats)) = None /\ snd (step s (OSubH ats)) = None.
Proof. exact sub_editable. Qed.
Print Assumptions C13_substructure_total.

(* ---- TIE BY TRANSLATION.  Gen.CacheOps is regenerated on every run by tools/gen_cacheops.py from the BODIES of
   MoleculeContainer.fix_structure / add_atom / add_bond / delete_atom / delete_bond / __enter__ / __exit__ (Graph.add_atom and
   Graph.add_bond inlined where super() is called), statement by statement.  The generated actions are equal to the hand-written ones of
   Model.Cache, for every heap and molecule (_skip_calculation at its default False; add_atom / delete_atom: for molecules whose
   _atoms and _bonds have the same keys - otherwise the real delete_atom has already removed the atom when _bonds.pop(n) raises, and
   the real add_atom overwrites a stale row) *)
Theorem C13_translated_fix_structure : forall h o,
  gen_fix_structure true h o = fix_structure h o /\
  gen_fix_structure false h o = (calc_labels ;; (fun h o => ok h (set_changed o None))) h o.
Proof. intros h o. split; [apply gen_fix_structure_true | apply gen_fix_structure_false]. Qed.
Print Assumptions C13_translated_fix_structure.

Theorem C13_translated_add_bond : forall n m ord h o, gen_add_bond false n m ord h o = add_bond n m ord h o.
Proof. exact gen_add_bond_eq. Qed.
Print Assumptions C13_translated_add_bond.

Theorem C13_translated_delete_bond : forall n m h o, gen_delete_bond false n m h o = delete_bond n m h o.
Proof. exact gen_delete_bond_eq. Qed.
Print Assumptions C13_translated_delete_bond.

Theorem C13_translated_add_atom : forall c n h o,
  keys (o_adj o) = keys (o_atoms o) -> gen_add_atom false c n h o = add_atom c n h o.
Proof. exact gen_add_atom_eq. Qed.
Print Assumptions C13_translated_add_atom.

Theorem C13_translated_delete_atom : forall n h o,
  zmem n (keys (o_atoms o)) = zmem n (keys (o_adj o)) -> gen_delete_atom false n h o = delete_atom n h o.
Proof. exact gen_delete_atom_eq. Qed.
Print Assumptions C13_translated_delete_atom.

Theorem C13_translated_enter_exit : forall h o,
  gen_enter h o = enter h o /\ gen_exit false h o = exit_ok h o /\ gen_exit true h o = exit_exn h o.
Proof. intros h o. repeat split; [apply gen_enter_eq | apply gen_exit_ok_eq | apply gen_exit_exn_eq]. Qed.
Print Assumptions C13_translated_enter_exit.

(* hence: in every state satisfying W, a step of the state machine all theorems above quantify over IS the generated action *)
Theorem C13_step_runs_translated_source : forall s, W s ->
  (forall c n, step s (OAddAtom c n) = lift (gen_add_atom false c n) s) /\
  (forall n m ord, step s (OAddBond n m ord) = lift (gen_add_bond false n m ord) s) /\
  (forall n, step s (ODelAtom n) = lift (gen_delete_atom false n) s) /\
  (forall n m, step s (ODelBond n m) = lift (gen_delete_bond false n m) s) /\
  step s OEnter = lift gen_enter s /\
  step s OExitOk = lift (gen_exit false) s /\
  step s OExitExn = lift (gen_exit true) s.
Proof. exact step_runs_translated_source. Qed.
Print Assumptions C13_step_runs_translated_source.

(* non-vacuity: on a loaded C-C-O the generated add_atom / delete_atom run (hypotheses hold) and do what the hand-written ones do *)
Theorem C13_translated_example :
  let s := init [(1, mkCore 6 None 0 false); (2, mkCore 6 None 0 false); (3, mkCore 8 None 0 false)]
                [(1, [(2, 1)]); (2, [(1, 1); (3, 1)]); (3, [(2, 1)])] [] [] in
  keys (o_adj (s_cur s)) = keys (o_atoms (s_cur s)) /\
  gen_add_atom false (mkCore 7 None 0 false) None (s_heap s) (s_cur s) = add_atom (mkCore 7 None 0 false) None (s_heap s) (s_cur s) /\
  snd (gen_delete_atom false 2 (s_heap s) (s_cur s)) = None /\
  keys (o_atoms (snd (fst (gen_delete_atom false 2 (s_heap s) (s_cur s))))) = [1; 3].
Proof. exact gen_ops_example. Qed.
Print Assumptions C13_translated_example.

(* the loops of Graph.copy / MoleculeContainer.substructure that build the adjacency of the new molecule (back-connection test `m in cb`,
   which Bond.copy flavour, the `elif m in atoms` cut), translated from the source, equal the hand-written gcopy_rows that copy(),
   the transaction backup, union, substructure, __and__, __sub__, augmented_substructure and split go through - for every adjacency
   whose rows are dicts (no neighbour twice in a row), in particular in every state satisfying W *)
Theorem C13_translated_copy_loops : forall h o, rows_are_dicts (o_adj o) ->
  gen_copy_bonds h o = copy_rows h [] (o_adj o) /\ forall sel, gen_sub_bonds sel h o = sub_rows h o sel.
Proof. intros h o Hd. split; [apply gen_copy_bonds_eq; exact Hd | intros sel; apply gen_sub_bonds_eq; exact Hd]. Qed.
Print Assumptions C13_translated_copy_loops.

Theorem C13_translated_copy_loops_W : forall s, W s ->
  gen_copy_bonds (s_heap s) (s_cur s) = copy_rows (s_heap s) [] (o_adj (s_cur s)) /\
  forall sel, gen_sub_bonds sel (s_heap s) (s_cur s) = sub_rows (s_heap s) (s_cur s) sel.
Proof. exact copy_loops_translated_W. Qed.
Print Assumptions C13_translated_copy_loops_W.

(* non-vacuity: the translated copy loop on a loaded C-C-O makes ONE new object per bond, held by both rows, none shared with the source *)
Theorem C13_translated_copy_loops_example :
  let s := init [(1, mkCore 6 None 0 false); (2, mkCore 6 None 0 false); (3, mkCore 8 None 0 false)]
                [(1, [(2, 1)]); (2, [(1, 1); (3, 1)]); (3, [(2, 1)])] [] [] in
  rows_are_dicts (o_adj (s_cur s)) /\
  match gen_copy_bonds (s_heap s) (s_cur s) with
  | Ok (h', cb) => canon (refs_of_adj cb) = [0; 0; 1; 1] /\ keys cb = [1; 2; 3] /\
                   forallb (fun r => negb (zmem r (refs_of_adj (o_adj (s_cur s))))) (refs_of_adj cb) = true
  | Err _ => False
  end /\
  match gen_sub_bonds [2; 3] (s_heap s) (s_cur s) with
  | Ok (h', sb) => canon (refs_of_adj sb) = [0; 0] /\ map (fun nr => (fst nr, keys (snd nr))) sb = [(2, [3]); (3, [2])]
  | Err _ => False
  end.
Proof. exact gen_copy_loops_example. Qed.
Print Assumptions C13_translated_copy_loops_example.

(* ---- totality of remap / split / union for valid arguments (formerly compared and searched only) ---- *)
(* remap raises ValueError exactly when the mapping overlaps (two atoms mapped to one number, or a number of an atom that is not
   renumbered is used as a target) and nothing otherwise, in every state *)
Theorem C13_remap_exact : forall mp s,
  snd (step s (ORemap mp)) = if remap_overlap mp (s_cur s) then Some ValueError else None.
Proof. exact remap_exact. Qed.
Print Assumptions C13_remap_exact.

Theorem C13_remap_total : forall mp s, NoDup (map snd mp) ->
  (forall n, In n (keys (o_atoms (s_cur s))) -> ~ In n (keys mp) -> ~ In n (map snd mp)) ->
  snd (step s (ORemap mp)) = None.
Proof. exact remap_total. Qed.
Print Assumptions C13_remap_total.

(* split() raises nothing on the current molecule of any state satisfying W (inside a transaction as well) *)
Theorem C13_split_total : forall s, W s -> snd (step s OSplit) = None.
Proof. exact split_total. Qed.
Print Assumptions C13_split_total.

(* union raises nothing when the partner is settled (not inside a transaction), overlapping numbers come with remap=True, and - for
   copy=True - the current molecule is not inside a transaction (the copy of an intermediate state may lack labels); FW = W + freshness *)
Theorem C13_union_total : forall rmp cp s other rest, FW s -> s_others s = other :: rest -> o_backup other = None ->
  (existsb (fun n => zmem n (keys (o_atoms other))) (keys (o_atoms (s_cur s))) = true -> rmp = true) ->
  (cp = true -> o_backup (s_cur s) = None) ->
  snd (step s (OUnion rmp cp)) = None.
Proof. exact union_total. Qed.
Print Assumptions C13_union_total.

(* non-vacuity: CC.O splits in two; a swap of two atom numbers is fine, mapping 1 onto the unmapped atom 2 is refused; a union under
   the same numbers is refused without remap and fine with it *)
Theorem C13_totality_examples :
  (let s := init [(1, mkCore 6 None 0 false); (2, mkCore 6 None 0 false); (3, mkCore 8 None 0 false)]
                 [(1, [(2, 1)]); (2, [(1, 1)]); (3, [])] [] [] in
   map (fun o => keys (o_atoms o)) (s_others (fst (step s OSplit))) = [[3]; [1; 2]; []] /\
   snd (step s (ORemap [(1, 2); (2, 1)])) = None /\ snd (step s (ORemap [(1, 2)])) = Some ValueError) /\
  (let s := init [(1, mkCore 6 None 0 false); (2, mkCore 8 None 0 false)] [(1, [(2, 1)]); (2, [(1, 1)])]
                 [(1, mkCore 7 None 0 false)] [(1, [])] in
   snd (union false true s) = Some ValueError /\ snd (union true true s) = None /\ snd (union true false s) = None /\
   keys (o_atoms (s_cur (fst (union true false s)))) = [1; 2; 3]).
Proof. split; [pose proof total_example as H; cbv zeta in *; tauto | exact union_total_example]. Qed.
Print Assumptions C13_totality_examples.

(* ---- more bodies translated from the source: remap, substructure as a whole, union ---- *)
(* Graph.remap + MoleculeContainer.remap (guard, the two dict comprehensions through mapping.get, flush, _changed inside / outside a
   transaction) on every well-formed molecule; hence in every state satisfying W the step IS the generated action *)
Theorem C13_translated_remap : forall mp h o, wf h o -> gen_remap mp h o = remap mp h o.
Proof. exact gen_remap_eq. Qed.
Print Assumptions C13_translated_remap.

Theorem C13_translated_remap_W : forall s mp, W s -> step s (ORemap mp) = lift (gen_remap mp) s.
Proof. exact remap_is_translated. Qed.
Print Assumptions C13_translated_remap_W.

(* MoleculeContainer.substructure as a whole: guards and their exception class, selection in the order of self, the fields of the new
   object, atom.copy(hydrogens=not recalculate_hydrogens), the translated loops, the final fix_structure(recalculate_hydrogens) /
   fix_stereo - what substructure, __and__, __sub__, augmented_substructure and split run *)
Theorem C13_translated_substructure : forall rh ats h o, NoDup (keys (o_atoms o)) -> rows_are_dicts (o_adj o) ->
  gen_substructure rh ats h o = substructure_g rh ats h o.
Proof. exact gen_substructure_eq. Qed.
Print Assumptions C13_translated_substructure.

Theorem C13_translated_substructure_W : forall s ats, W s ->
  gen_substructure true ats (s_heap s) (s_cur s) = substructure ats (s_heap s) (s_cur s) /\
  (forall rh, sub_step_g rh ats s = match gen_substructure rh ats (s_heap s) (s_cur s) with
                                    | Err e => (s, Some e)
                                    | Ok (h, o, None) => (mkS h (s_cur s) (o :: s_others s), None)
                                    | Ok (h, _, Some e) => (mkS h (s_cur s) (s_others s), Some e)
                                    end).
Proof. exact substructure_is_translated. Qed.
Print Assumptions C13_translated_substructure_W.

(* Graph.union (collision test, `if not remap: raise`, both copies, the renumbering from max(self) + 1, `self.copy() if copy else
   self`, the two updates, the flush of the in-place variant) in EVERY state *)
Theorem C13_translated_union : forall s rmp cp, step s (OUnion rmp cp) = gen_union rmp cp s.
Proof. exact union_is_translated. Qed.
Print Assumptions C13_translated_union.

Theorem C13_translated_more_examples :
  (let s := init [(1, mkCore 6 None 0 false); (2, mkCore 6 None 0 false); (3, mkCore 8 None 0 false)]
                 [(1, [(2, 1)]); (2, [(1, 1); (3, 1)]); (3, [(2, 1)])] [] [] in
   keys (o_atoms (snd (fst (gen_remap [(1, 3); (3, 1)] (s_heap s) (s_cur s))))) = [3; 2; 1] /\
   snd (gen_remap [(1, 3); (3, 1)] (s_heap s) (s_cur s)) = None /\
   snd (gen_remap [(1, 2)] (s_heap s) (s_cur s)) = Some ValueError) /\
  (let s := init [(1, mkCore 6 None 0 false); (2, mkCore 6 None 0 false); (3, mkCore 8 None 0 false)]
                 [(1, [(2, 1)]); (2, [(1, 1); (3, 1)]); (3, [(2, 1)])] [] [] in
   match gen_substructure true [3; 2] (s_heap s) (s_cur s) with
   | Ok (_, sub, None) => keys (o_atoms sub) = [2; 3] /\ map (fun nr => (fst nr, keys (snd nr))) (o_adj sub) = [(2, [3]); (3, [2])]
   | _ => False
   end /\
   gen_substructure true [] (s_heap s) (s_cur s) = Err ValueError /\ gen_substructure true [4] (s_heap s) (s_cur s) = Err ValueError).
Proof. split; [exact gen_remap_example | exact gen_substructure_example]. Qed.
Print Assumptions C13_translated_more_examples.

(* ---- fuel sufficiency: the out-of-fuel value of the model's two fuelled functions is never returned ---- *)
(* cached_property lookup through the parent chain: every fuel >= 5 gives the same result, and the key read is in __dict__ afterwards *)
Theorem C13_read_fuel_sufficient : forall v c k f, (5 <= f)%nat -> read_key f v c k = read_key 5 v c k.
Proof. intros v c k f. apply read_fuel_sufficient. Qed.
Print Assumptions C13_read_fuel_sufficient.

Theorem C13_read_stores : forall s k, cget (o_cache (s_cur (fst (step s (ORead k))))) k <> None.
Proof. exact read_stores. Qed.
Print Assumptions C13_read_stores.

(* connected components (fuel = number of atoms): every component the model computes is non-empty, within the atoms and closed under
   adjacency: the iteration reached its fixed point *)
Theorem C13_components_reach_fixpoint : forall s, W s -> forall c, In c (comps (o_adj (s_cur s))) ->
  c <> [] /\ incl c (keys (o_atoms (s_cur s))) /\ closed (o_adj (s_cur s)) c.
Proof. exact components_reach_fixpoint. Qed.
Print Assumptions C13_components_reach_fixpoint.

(* ---- which exception, exactly: the four mutators in every state satisfying W, inside and outside a transaction (C13_editable gives
   sufficient conditions only, add_atom only for n=None outside a transaction); the theorem counterpart of the search oracle
   "exceptions against the documented contract" ---- *)
Theorem C13_add_atom_exact : forall s c n, W s ->
  snd (step s (OAddAtom c n)) =
  match n with Some x => if zmem x (keys (o_atoms (s_cur s))) then Some ValueError else None | None => None end.
Proof. intros s c n. apply add_atom_exact. Qed.
Print Assumptions C13_add_atom_exact.

Theorem C13_add_bond_exact : forall s n m ord, W s ->
  snd (step s (OAddBond n m ord)) =
  if negb (valid_order ord) then Some ValueError
  else if n =? m then Some ValueError
  else if negb (zmem n (keys (o_atoms (s_cur s)))) || negb (zmem m (keys (o_atoms (s_cur s)))) then Some KeyError
  else if bonded (s_cur s) n m then Some ValueError else None.
Proof. intros s n m ord. apply add_bond_exact. Qed.
Print Assumptions C13_add_bond_exact.

Theorem C13_delete_atom_exact : forall s n, W s ->
  snd (step s (ODelAtom n)) = if zmem n (keys (o_atoms (s_cur s))) then None else Some KeyError.
Proof. intros s n. apply delete_atom_exact. Qed.
Print Assumptions C13_delete_atom_exact.

Theorem C13_delete_bond_exact : forall s n m, W s ->
  snd (step s (ODelBond n m)) = match slot_of (s_cur s) n m with Some _ => None | None => Some KeyError end.
Proof. intros s n m. apply delete_bond_exact. Qed.
Print Assumptions C13_delete_bond_exact.

Theorem C13_mutators_exact_example :
  (let s := init [(1, mkCore 6 None 0 false); (2, mkCore 8 None 0 false); (3, mkCore 6 None 0 false)] [(1, [(2, 1)]); (2, [(1, 1)]); (3, [])] [] [] in
   map (fun p => snd (step s p)) [OAddBond 1 3 1; OAddBond 1 2 1; OAddBond 1 1 1; OAddBond 1 9 1; OAddBond 1 3 5;
                                  ODelAtom 3; ODelAtom 9; ODelBond 1 2; ODelBond 1 3]
   = [None; Some ValueError; Some ValueError; Some KeyError; Some ValueError; None; Some KeyError; None; Some KeyError]) /\
  (let s := init [(1, mkCore 6 None 0 false); (2, mkCore 8 None 0 false)] [(1, [(2, 1)]); (2, [(1, 1)])] [] [] in
   snd (step s (OAddAtom (mkCore 7 None 0 false) (Some 2))) = Some ValueError /\
   snd (step s (OAddAtom (mkCore 7 None 0 false) (Some 7))) = None /\
   snd (step (fst (step s OEnter)) (OAddAtom (mkCore 7 None 0 false) None)) = None /\
   o_changed (s_cur (fst (step (fst (step s OEnter)) (OAddAtom (mkCore 7 None 0 false) None)))) = Some [3]).
Proof. split; [exact mutators_exact_example | exact add_atom_exact_example]. Qed.
Print Assumptions C13_mutators_exact_example.

(* MoleculeContainer.copy: the _changed, _backup, _name, _meta of the copy, translated from the source, are those of the hand-written
   copy_mol; a copy made at any moment - also while its source is inside `with mol:` - is born outside any transaction *)
Theorem C13_translated_copy_fields : forall ks kc h o h1 b, copy_mol ks kc h o = Ok (h1, b) ->
  (o_changed b, o_backup b, o_name b, o_meta b) = gen_copy_fields o.
Proof. exact gen_copy_fields_eq. Qed.
Print Assumptions C13_translated_copy_fields.

Theorem C13_copy_born_outside_transaction : forall s, snd (step s OCopy) = None ->
  exists c, s_others (fst (step s OCopy)) = c :: s_others s /\ o_backup c = None /\
            (o_changed c, o_backup c, o_name c, o_meta c) = gen_copy_fields (s_cur s).
Proof. exact copy_born_outside_transaction. Qed.
Print Assumptions C13_copy_born_outside_transaction.
