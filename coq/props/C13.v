(* C13 -- edits keep derived views coherent; transactions atomic; copies independent.
   Statements only; proofs in Proofs.Cache{Wf,Copy,Coh,World,Union,Theorems,Usable,Examples}.  Model: Model.Cache (a heap of bond objects, live
   molecules with atoms, adjacency of bond references, cache = list of (key, snapshot of the view it was computed from),
   _changed, _backup).  W = the world invariant: every live molecule and every transaction backup is well formed and
   cache-coherent, and no bond object belongs to two of them.  ops_ok = the contract of a history: attribute setters only
   inside a transaction. *)
From Coq Require Import ZArith List Bool.
From Model Require Import PyBase Cache.
From Proofs Require Import CacheProofs CacheWf CacheCopy CacheCoh CacheWorld CacheUnion CacheTheorems CacheUsable CacheExamples CacheTxn CacheFresh CacheFreshOps CacheFreshWorld CacheFreshUnion CacheFreshSplit CacheInj CacheInjOps CacheInjWorld CacheFreshPatch CacheFreshFull CacheStereo CacheTie CacheUsable2 CacheCopyTotal CacheUsable3 CacheUsable4.
Import ListNotations.
Open Scope Z_scope.

(* the invariant holds in the empty world and is kept by every operation (union in place and copying included), for all histories *)
Theorem C13_invariant_initial : W empty_state.
Proof. exact W_empty. Qed.
Print Assumptions C13_invariant_initial.

Theorem C13_invariant_step : forall s p, W s -> op_ok s p -> W (fst (step s p)).
Proof. exact step_W. Qed.
Print Assumptions C13_invariant_step.

Theorem C13_invariant_run : forall ops s, W s -> ops_ok s ops -> W (fold_left (fun s p => fst (step s p)) ops s).
Proof. exact run_W. Qed.
Print Assumptions C13_invariant_run.

(* every cached entry of every live molecule outside a transaction equals derive k of the CURRENT molecule, for any derive
   function that depends on what the key is computed from (ring family: non-special connectivity; components: connectivity;
   anything else: the whole view); entries of the ring family / components are current even inside a transaction *)
Theorem C13_cache_coherent :
  forall (value : Type) (derive : key -> view -> value),
  (forall k a b, equiv_for k a b -> derive k a = derive k b) ->
  forall ops s, W s -> ops_ok s ops ->
  forall o, In o (live (run ops s)) ->
    (forall k snap, fc k = true -> cget (o_cache o) k = Some snap -> derive k snap = derive k (view_of (s_heap (run ops s)) o)) /\
    (o_backup o = None ->
     forall k snap, cget (o_cache o) k = Some snap -> derive k snap = derive k (view_of (s_heap (run ops s)) o)).
Proof. exact cache_coherent. Qed.
Print Assumptions C13_cache_coherent.

(* the adjacency stays symmetric and aliased (both directions hold the same bond object), loop free, over exactly the atoms,
   every reference allocated; _changed names existing atoms only: for live molecules and backups *)
Theorem C13_adjacency_symmetric_aliased : forall ops s, W s -> ops_ok s ops ->
  forall o, In o (units (run ops s)) ->
    keys (o_adj o) = keys (o_atoms o) /\ NoDup (keys (o_atoms o)) /\
    (forall n m r, slot_of o n m = Some r -> slot_of o m n = Some r /\ n <> m /\ In m (keys (o_atoms o)) /\
                                             exists c, hget (s_heap (run ops s)) r = Some c) /\
    (forall l, o_changed o = Some l -> forall x, In x l -> In x (keys (o_atoms o))).
Proof. exact adjacency_symmetric_aliased. Qed.
Print Assumptions C13_adjacency_symmetric_aliased.

(* copies, substructures, unions, backups: no bond object shared between two of the live units *)
Theorem C13_copy_separate : forall ops s, W s -> ops_ok s ops ->
  forall l1 a l2, units (run ops s) = l1 ++ a :: l2 -> forall b, In b (l1 ++ l2) ->
  forall r, In r (refs_of_adj (o_adj a)) -> ~ In r (refs_of_adj (o_adj b)).
Proof. exact copy_separate. Qed.
Print Assumptions C13_copy_separate.

(* copy(): same view as the source, own bond objects, _changed copied, _backup None, empty cache *)
Theorem C13_copy_independent : forall s, W s -> snd (step s OCopy) = None ->
  exists c, s_others (fst (step s OCopy)) = c :: s_others s /\ s_cur (fst (step s OCopy)) = s_cur s /\
    view_of (s_heap (fst (step s OCopy))) c = view_of (s_heap s) (s_cur s) /\
    view_of (s_heap (fst (step s OCopy))) (s_cur s) = view_of (s_heap s) (s_cur s) /\
    o_changed c = o_changed (s_cur s) /\ o_backup c = None /\ o_cache c = [] /\
    (forall r, In r (refs_of_adj (o_adj (s_cur s))) -> ~ In r (refs_of_adj (o_adj c))).
Proof. exact copy_independent. Qed.
Print Assumptions C13_copy_independent.

(* editing one molecule leaves what every other live molecule shows unchanged *)
Theorem C13_edits_leave_others_alone : forall s p, W s -> op_ok s p -> body_op p = true ->
  forall o, In o (s_others s) ->
    In o (s_others (fst (step s p))) /\ view_of (s_heap (fst (step s p))) o = view_of (s_heap s) o.
Proof. exact edits_leave_others_alone. Qed.
Print Assumptions C13_edits_leave_others_alone.

(* exit_exn . ops . enter restores atoms (with stored hydrogens and labels), bonds, name, meta, _changed, clears _backup,
   keeps the ring-family / component entries of the cache, and the result satisfies the invariant again.  ops: ANY operations
   (edits, reads, setters, copy, substructure, union in place and copying, renumbering, the patch step, a nested enter - which
   is rejected) except the exit itself and swap (not a library operation) *)
Theorem C13_transaction_atomic : forall s ops, W s -> snd (step s OEnter) = None ->
  ops_ok (fst (step s OEnter)) ops -> block_ops ops = true ->
  let s3 := fst (step (run ops (fst (step s OEnter))) OExitExn) in
  snd (step (run ops (fst (step s OEnter))) OExitExn) = None /\
  view_of (s_heap s3) (s_cur s3) = view_of (s_heap s) (s_cur s) /\
  o_name (s_cur s3) = o_name (s_cur s) /\ o_meta (s_cur s3) = o_meta (s_cur s) /\
  o_changed (s_cur s3) = o_changed (s_cur s) /\ o_backup (s_cur s3) = None /\
  o_cache (s_cur s3) = filter (kept true true) (o_cache (s_cur s)) /\
  W s3.
Proof. exact transaction_atomic_full. Qed.
Print Assumptions C13_transaction_atomic.

Theorem C13_transaction_full_example :
  let s := run build_cco empty_state in
  W s /\ snd (step s OEnter) = None /\ ops_ok (fst (step s OEnter)) txn_body_full /\ block_ops txn_body_full = true /\
  trace txn_body_full (fst (step s OEnter)) = repeat None 7 ++ [Some OtherError; None] /\
  keys (o_atoms (s_cur (run txn_body_full (fst (step s OEnter))))) = [11; 2; 3; 4; 5; 7; 8; 9].
Proof. exact transaction_full_example. Qed.
Print Assumptions C13_transaction_full_example.

(* a nested enter of the same molecule is rejected and changes nothing *)
Theorem C13_enter_nested_rejected : forall s, o_backup (s_cur s) <> None -> step s OEnter = (s, Some OtherError).
Proof. exact enter_nested_rejected. Qed.
Print Assumptions C13_enter_nested_rejected.

(* a usable state: outside a transaction the next edit (a new atom, followed by fix_structure over the whole molecule or the
   pending atoms) raises nothing; with the invariant re-established by transaction_atomic / copy_independent this covers the
   molecule after a rollback and copies *)
Theorem C13_usable : forall s c, W s -> o_backup (s_cur s) = None -> snd (step s (OAddAtom c None)) = None.
Proof. exact usable. Qed.
Print Assumptions C13_usable.

Theorem C13_fix_structure_total : forall h o, inv1 h o -> exists h' o', fix_structure h o = (h', o', None) /\ inv1 h' o'.
Proof. exact fix_structure_total. Qed.
Print Assumptions C13_fix_structure_total.

(* the selective flush of the Standardize patch step keeps ring-family entries only when neither the old nor the new order
   of the edited bond is 8: the non-special connectivity (and the connectivity) is then unchanged *)
Theorem C13_keep_sssr_sound : forall h o o1 rf cl bo,
  o_adj o1 = o_adj o -> hget h rf = Some cl -> (b_ord cl =? 8) || (bo =? 8) = false ->
  nsconn (view_of h o) = nsconn (view_of (hset h rf (mkB bo (b_lab cl))) o1) /\
  conn (view_of h o) = conn (view_of (hset h rf (mkB bo (b_lab cl))) o1).
Proof. exact keep_sssr_sound. Qed.
Print Assumptions C13_keep_sssr_sound.

(* and in the state machine: after the patch operation on a well formed coherent molecule nothing happened or the cache is coherent *)
Theorem C13_patch_coherent : forall n m bo dch h o, inv1 h o -> CohFC h o ->
  match patch n m bo dch h o with (h', o', _) => (h', o') = (h, o) \/ Coh h' o' end.
Proof. exact patch_strong. Qed.
Print Assumptions C13_patch_coherent.

(* non-vacuity: a read - delete - read history, and a transaction that really changes the molecule and is rolled back *)
Theorem C13_read_delete_read_example :
  ops_ok empty_state read_delete_read /\
  trace read_delete_read empty_state = repeat None 12 /\
  (let s0 := run build_ring empty_state in
   let s := run read_delete_read empty_state in
   match cget (o_cache (s_cur s0)) Ksssr, cget (o_cache (s_cur s)) Ksssr with
   | Some old, Some new =>
       equivb Ksssr new (view_of (s_heap s) (s_cur s)) = true /\
       equivb Ksssr old (view_of (s_heap s) (s_cur s)) = false
   | _, _ => False
   end).
Proof. exact read_delete_read_example. Qed.
Print Assumptions C13_read_delete_read_example.

Theorem C13_transaction_example :
  let s := run build_cco empty_state in
  W s /\ snd (step s OEnter) = None /\ ops_ok (fst (step s OEnter)) txn_body /\ body_ops txn_body = true /\
  view_eqb (view_of (s_heap (run txn_body (fst (step s OEnter)))) (s_cur (run txn_body (fst (step s OEnter)))))
           (view_of (s_heap s) (s_cur s)) = false /\
  trace [OExitExn; OAddAtom nitrogen None; OAddBond 3 4 1; ODelAtom 1] (run txn_body (fst (step s OEnter))) = [None; None; None; None].
Proof. exact transaction_example. Qed.
Print Assumptions C13_transaction_example.

Theorem C13_union_example :
  ops_ok empty_state union_history /\ trace union_history empty_state = repeat None 13 /\
  (let s := run union_history empty_state in
   keys (o_atoms (s_cur s)) = [1; 2; 3; 4; 5; 6] /\ List.length (s_others s) = 2%nat /\
   match s_others s with u :: _ => keys (o_atoms u) = [1; 2; 3; 4; 5; 6; 7; 8; 9] | [] => False end).
Proof. exact union_example. Qed.
Print Assumptions C13_union_example.

(* ---- the STORED derived data: FWI = W + for every live molecule and backup: each atom is pending (in _changed) or its stored
   hydrogen count was computed from its current environment (with the charge / radical state it has now, or - inside a
   transaction - had in the backup; atoms the backup does not know under their number are recalculated at commit), outside a
   transaction nothing is pending and every label and bond mark is current; + distinct bonds are distinct objects.
   Contract fop_full, for ALL operations (union in place and copying, split, the patch step included): setters only inside a
   transaction; no copy(), split(), patch step or union partner taken from the intermediate state of an open transaction; a
   union whose current molecule is inside a transaction is in place and brings in no atom under a number the backup still
   knows - the one excluded situation is a real failure of the code: C13_fresh_union_reuse_refuted. *)
Theorem C13_fresh_initial : FWI empty_state.
Proof. exact FWI_empty. Qed.
Print Assumptions C13_fresh_initial.

Theorem C13_fresh_step : forall s p, FWI s -> op_ok s p -> fop_full s p -> FWI (fst (step s p)).
Proof. exact step_FWI. Qed.
Print Assumptions C13_fresh_step.

(* distinct bonds are distinct objects, in every live molecule and backup, after every operation *)
Theorem C13_bond_objects_distinct : forall s p, WI s -> W s -> op_ok s p -> WI (fst (step s p)).
Proof. exact step_WI. Qed.
Print Assumptions C13_bond_objects_distinct.

(* the _changed bookkeeping (incl. the setter tracking at __exit__ and the marking by remap inside a block) is sufficient:
   outside a transaction, after every operation, each stored implicit-hydrogen count equals calc of the atom's current
   environment, each label equals labels of its current neighbourhood, every bond carries its ring mark, nothing is pending *)
Theorem C13_stored_fresh : forall (H L : Type) (calc : env -> H) (labels : lenv -> L) ops s, FWI s -> fops_full s ops ->
  forall o, In o (live (run ops s)) -> o_backup o = None ->
    o_changed o = None /\
    (forall r, In r (refs_of_adj (o_adj o)) -> exists c, hget (s_heap (run ops s)) r = Some c /\ b_lab c = true) /\
    forall n a, zget (o_atoms o) n = Some a ->
      exists l, lenv_of_row (s_heap (run ops s)) (o_atoms o) (row o n) = Ok l /\
                stored_h H calc a = Some (calc (a_core a, l)) /\ stored_l L labels a = Some (labels l).
Proof. exact stored_fresh_full. Qed.
Print Assumptions C13_stored_fresh.

(* the excluded situation breaks the statement in the faithful model of the current code (known finding
   txn-union-number-reuse-untracked, replayed on the real code by the search): every operation of the history is within the
   contract except that the in-place union re-uses number 3, which the backup still knows; at the end atom 3 (N, charge 0)
   keeps the hydrogen count computed for N+ *)
Theorem C13_fresh_union_reuse_refuted :
  ops_ok empty_state reuse_history /\ trace reuse_history empty_state = repeat None 14 /\
  fops_full empty_state (firstn 10 reuse_history) /\
  (let s := run (firstn 10 reuse_history) empty_state in
   match s_others s with other :: _ => o_backup other = None | [] => False end /\
   exists b, o_backup (s_cur s) = Some b /\ zget (bk_atoms b) 3 <> None /\ ~ In 3 (keys (o_atoms (s_cur s))) /\
             In 3 (keys (o_atoms (s_cur (fst (union false false s)))))) /\
  (let s := run reuse_history empty_state in
   o_backup (s_cur s) = None /\ hyd_fresh (s_heap s) (s_cur s) 3 = false /\
   option_map a_core (zget (o_atoms (s_cur s)) 3) = Some (mkCore 7 None 0 false) /\
   option_map a_hyd (zget (o_atoms (s_cur s)) 3) = Some (Some (mkCore 7 None 1 false, []))).
Proof. exact fresh_union_reuse_refuted. Qed.
Print Assumptions C13_fresh_union_reuse_refuted.

Theorem C13_fresh_full_example :
  fops_full empty_state full_history /\ ops_ok empty_state full_history /\ trace full_history empty_state = repeat None 22 /\
  (let s := run full_history empty_state in
   forallb (fun o => forallb (fun n => hyd_fresh (s_heap s) o n && lab_fresh (s_heap s) o n) (keys (o_atoms o))) (live s) = true /\
   (6 <= List.length (live s))%nat).
Proof. exact full_example. Qed.
Print Assumptions C13_fresh_full_example.

Theorem C13_fresh_example :
  fops_ok empty_state fresh_history /\ trace fresh_history empty_state = repeat None 20 /\
  (let s := run fresh_history empty_state in
   forallb (fun o => forallb (fun n => hyd_fresh (s_heap s) o n && lab_fresh (s_heap s) o n) (keys (o_atoms o))) (live s) = true /\
   List.length (live s) = 3%nat /\ keys (o_atoms (s_cur s)) = [1; 9; 10]).
Proof. exact fresh_example. Qed.
Print Assumptions C13_fresh_example.

(* split, __sub__, augmented_substructure, __and__ are operations of the state machine (all theorems above cover them; the
   freshness contract excludes split) *)
Theorem C13_parts_example :
  ops_ok empty_state parts_history /\ trace parts_history empty_state = repeat None 13 /\
  map (fun o => keys (o_atoms o)) (s_others (run parts_history empty_state)) = [[2; 3]; [1; 2]; [2; 3; 4]; [4]; [1; 2; 3]].
Proof. exact parts_example. Qed.
Print Assumptions C13_parts_example.

(* ---- fix_stereo as an abstract operation (labels flushed, then restored round by round while the atom is a stereocentre given
   the labels restored so far; the result = the labels once the rounds are stable).  `chiral` is universally quantified with ONE
   hypothesis: it depends only on the atom's connected component.  Then two molecules that look the same on a set closed under
   adjacency - a molecule before and after an edit elsewhere - end up with the same labels there, however many rounds each
   needs: the theorem counterpart of the stereo-locality oracle of the search *)
Theorem C13_fix_stereo_local :
  forall (chiral : view -> labelling -> Z -> bool),
  (forall C v v' l l', closedv v C -> closedv v' C -> agree C v v' l l' -> forall n, In n C -> chiral v l n = chiral v' l' n) ->
  forall C v v' st st' k k',
  closedv v C -> closedv v' C -> agree C v v' st st' -> stable chiral v st k -> stable chiral v' st' k' ->
  forall n, In n C -> rounds chiral v st k n = rounds chiral v' st' k' n.
Proof. exact fix_stereo_local. Qed.
Print Assumptions C13_fix_stereo_local.

(* the hypothesis is satisfiable: e.g. 'exactly four neighbours' is local *)
Theorem C13_fix_stereo_local_nonvacuous : forall C v v' l l', closedv v C -> closedv v' C -> agree C v v' l l' ->
  forall n, In n C -> four_nbrs v l n = four_nbrs v' l' n.
Proof. exact four_nbrs_local. Qed.
Print Assumptions C13_fix_stereo_local_nonvacuous.

(* ---- tie of the hand-copied constants: coq/gen/CacheTables.v is regenerated from /repo's source on every run by tools/gen_cache.py
   (valid bond orders of Bond.__init__, the bounds of the charge setter, the names kept by flush_cache / copy under keep_sssr /
   keep_components, the order compared with `bond` in add_bond / delete_atom / delete_bond, the flags of the backup copy in
   __enter__, the charge bound and the keep_sssr condition of __standardize, which cached ring property reads which); the model
   agrees with all of them *)
Theorem C13_source_constants_tie : tie_orders && tie_charge && tie_kept && tie_special && tie_reads = true.
Proof. exact source_constants_tie. Qed.
Print Assumptions C13_source_constants_tie.

(* ---- "as editable as its source": on the current molecule of ANY state satisfying W (a molecule after a rollback, a copy, a
   substructure, a union, a split part ...) the mutators raise nothing for valid arguments, inside and outside a transaction
   (add_atom: outside; inside it cannot fail either but that is not stated) *)
Theorem C13_editable : forall s, W s ->
  (forall c, o_backup (s_cur s) = None -> snd (step s (OAddAtom c None)) = None) /\
  (forall n m ord, valid_order ord = true -> n <> m -> In n (keys (o_atoms (s_cur s))) -> In m (keys (o_atoms (s_cur s))) ->
                   slot_of (s_cur s) m n = None -> snd (step s (OAddBond n m ord)) = None) /\
  (forall n, In n (keys (o_atoms (s_cur s))) -> snd (step s (ODelAtom n)) = None) /\
  (forall n m, slot_of (s_cur s) n m <> None -> snd (step s (ODelBond n m)) = None).
Proof. exact editable. Qed.
Print Assumptions C13_editable.

(* copy() and `with mol:` succeed on every settled molecule: the labels and ring marks they read are there (freshness invariant) and
   the copy loop never fails on a symmetric adjacency *)
Theorem C13_copy_enter_total : forall s, FW s -> o_backup (s_cur s) = None ->
  snd (step s OCopy) = None /\ snd (step s OEnter) = None.
Proof. exact copy_enter_total. Qed.
Print Assumptions C13_copy_enter_total.

(* substructure (default and with kept hydrogens) and __and__ raise nothing for a non-empty selection of existing atoms *)
Theorem C13_substructure_total : forall s ats, W s -> ats <> [] -> (forall x, In x ats -> In x (keys (o_atoms (s_cur s)))) ->
  snd (step s (OSub ats)) = None /\ snd (step s (OAnd ats)) = None /\ snd (step s (OSubH ats)) = None.
Proof. exact sub_editable. Qed.
Print Assumptions C13_substructure_total.
