(* C13 -- edits keep derived views coherent; transactions atomic; copies independent.
   Statements only; proofs in Proofs.CacheProofs (model: Model.Cache). *)
From Coq Require Import ZArith List Bool.
From Model Require Import PyBase Cache.
From Proofs Require Import CacheProofs.
Import ListNotations.
Open Scope Z_scope.

Theorem C13_wf_no_loop : forall h atoms adj n m r, wfa h atoms adj -> aslot adj n m = Some r -> n <> m.
Proof. exact wfa_neq. Qed.
Print Assumptions C13_wf_no_loop.
