(* The character level of read_spell_denote: tokenize (spell_text t) = spell t for every syntax tree whose tokens are writable,
   and with it smiles() on the text of a tree = the molecule built from the tree's machine-free graph. *)
From Coq Require Import ZArith List String Ascii Bool Lia.
From Model Require Import PyBase Tokenize Parser Reader SmilesAst SmilesGraph SmilesText.
From Gen Require Import TokenTables.
From Proofs Require Import TokenizeProofs ParserProofs ReaderProofs DenoteProofs GraphProofs.
Import ListNotations.
Open Scope Z_scope.

(* ------------------------------------------------------------------------------------------------ boundary states of _tokenize *)
(* the states between two tokens: nothing pending, or a pending C / B *)
Inductive BD : tstate -> Prop :=
| BD_plain ty toks : In ty [None; Some 0; Some 1; Some 2; Some 3; Some 4; Some 6; Some 8; Some 9] -> BD (mkT ty PdNone toks)
| BD_cb s toks : s = "C"%string \/ s = "B"%string -> BD (mkT (Some 0) (PdStr s) toks).

(* the token _tokenize emits for a token of smiles_tokenize *)
Definition rtok (t : token) : token :=
  match t with
  | (ty, PAtom a) => if is_simple a then (ty, PStr (at_el a)) else (5, PStr (body_text ty a))
  | _ => t
  end.

Ltac bdsolve :=
  first [ apply BD_plain; cbn; solve [repeat (first [left; reflexivity | right])]
        | apply BD_cb; solve [first [left; reflexivity | right; reflexivity]] ].

(* what a token does to a boundary state: its token is emitted (as if flushed), the state is a boundary state again *)
Definition tok_ok (st : tstate) (t : token) : Prop :=
  exists st', tok_loop tok_step st (tok_chars t) = Ok st' /\ BD st' /\ flushed st' = rtok t :: flushed st /\
              tt_is st' 2 = (fst t =? 2).

Ltac bd_cases H :=
  let ty := fresh "ty" in let toks := fresh "toks" in let Hin := fresh "Hin" in let s := fresh "s" in let Hs := fresh "Hs" in
  destruct H as [ty toks Hin | s toks Hs];
  [ cbn in Hin; repeat (destruct Hin as [<- | Hin]); try contradiction | destruct Hs; subst s ].
Ltac tok_done := eexists; split; [vm_compute; reflexivity | split; [bdsolve | split; [vm_compute; reflexivity | vm_compute; reflexivity]]].

(* tokens with a fixed text, from any boundary state *)
Lemma tok_bond st o : BD st -> zmem o [1; 2; 3; 4; 8] = true -> tok_ok st (1, PInt o).
Proof.
  intros B Ho. assert (C : o = 1 \/ o = 2 \/ o = 3 \/ o = 4 \/ o = 8) by (clear - Ho; zcontra; tauto).
  unfold tok_ok. destruct C as [-> | [-> | [-> | [-> | ->]]]]; bd_cases B; tok_done.
Qed.
Lemma tok_dir st up : BD st -> tok_ok st (9, PBool up).
Proof. intros B. unfold tok_ok. destruct up; bd_cases B; tok_done. Qed.
Lemma tok_dot st v : BD st -> v = PNone -> tok_ok st (4, v).
Proof. intros B ->. unfold tok_ok. bd_cases B; tok_done. Qed.
Lemma tok_open st v : BD st -> v = PNone -> tt_is st 2 = false -> tok_ok st (2, v).
Proof. intros B -> N. unfold tok_ok. bd_cases B; try discriminate N; tok_done. Qed.
Lemma tok_close st v : BD st -> v = PNone -> tt_is st 2 = false -> tok_ok st (3, v).
Proof. intros B -> N. unfold tok_ok. bd_cases B; try discriminate N; tok_done. Qed.

Lemma tok_ring st k : BD st -> 1 <= k <= 99 -> tt_is st 2 = false -> tok_ok st (6, PInt k).
Proof.
  intros B Hk N. unfold tok_ok. cbn [tok_chars rtok fst]. unfold ring_chars.
  destruct (k <? 10) eqn:E.
  - apply Z.ltb_lt in E.
    assert (C : k = 1 \/ k = 2 \/ k = 3 \/ k = 4 \/ k = 5 \/ k = 6 \/ k = 7 \/ k = 8 \/ k = 9) by lia.
    repeat (destruct C as [-> | C]); try subst k; bd_cases B; try discriminate N; tok_done.
  - apply Z.ltb_ge in E.
    assert (D : exists d1 d2, k = 10 * d1 + d2 /\ k / 10 = d1 /\ k mod 10 = d2 /\ 1 <= d1 <= 9 /\ 0 <= d2 <= 9).
    { exists (k / 10), (k mod 10). pose proof (Z.div_mod k 10 ltac:(lia)). pose proof (Z.mod_pos_bound k 10 ltac:(lia)).
      assert (1 <= k / 10) by (apply Z.div_le_lower_bound; lia). assert (k / 10 < 10) by (apply Z.div_lt_upper_bound; lia).
      repeat split; lia. }
    destruct D as [d1 [d2 [-> [-> [-> [H1 H2]]]]]].
    (* the '%' from any boundary state *)
    assert (P : exists F, tok_loop tok_step st ["%"%char] = Ok (mkT (Some 7) (PdChars []) F) /\ F = flushed st).
    { bd_cases B; try discriminate N; (eexists; split; [vm_compute; reflexivity | vm_compute; reflexivity]). }
    destruct P as [F [P1 P2]].
    change ["%"%char; digit_char d1; digit_char d2] with (["%"%char] ++ [digit_char d1; digit_char d2]).
    assert (TA : forall a b, tok_loop tok_step st (a ++ b) = match tok_loop tok_step st a with Ok s1 => tok_loop tok_step s1 b | Err e => Err e end).
    { clear. intros a. revert st. induction a as [|c r IH]; intros st b; cbn [tok_loop app]; [reflexivity|]. destruct (tok_step st c); [apply IH | reflexivity]. }
    rewrite TA, P1. rewrite <- P2. clear P1 P2 TA B N.
    assert (C1 : d1 = 1 \/ d1 = 2 \/ d1 = 3 \/ d1 = 4 \/ d1 = 5 \/ d1 = 6 \/ d1 = 7 \/ d1 = 8 \/ d1 = 9) by lia.
    assert (C2 : d2 = 0 \/ d2 = 1 \/ d2 = 2 \/ d2 = 3 \/ d2 = 4 \/ d2 = 5 \/ d2 = 6 \/ d2 = 7 \/ d2 = 8 \/ d2 = 9) by lia.
    repeat (destruct C1 as [-> | C1]); try subst d1; repeat (destruct C2 as [-> | C2]); try subst d2;
      (eexists; split; [vm_compute; reflexivity | split; [bdsolve | split; [vm_compute; reflexivity | vm_compute; reflexivity]]]).
Qed.

Lemma smem_cases x l : smem x l = true -> In x l.
Proof. unfold smem. rewrite existsb_exists. intros [y [Hy E]]. apply String.eqb_eq in E. subst. exact Hy. Qed.

Lemma tok_atom_simple st ty a : BD st -> is_simple a = true -> writable ty a -> tok_ok st (ty, PAtom a).
Proof.
  intros B Hs W. unfold writable in W. rewrite Hs in W. destruct W as [_ W].
  unfold tok_ok. cbn [tok_chars rtok fst]. unfold atom_chars. rewrite Hs.
  destruct W as [[-> W] | [-> W]]; apply smem_cases in W; cbn in W;
    repeat (destruct W as [W | W]; [rewrite <- W; bd_cases B; tok_done|]); contradiction.
Qed.

Lemma tok_loop_app st a : forall b, tok_loop tok_step st (a ++ b) = match tok_loop tok_step st a with Ok s1 => tok_loop tok_step s1 b | Err e => Err e end.
Proof. revert st. induction a as [|c r IH]; intros st b; cbn [tok_loop app]; [reflexivity|]. destruct (tok_step st c); [apply IH | reflexivity]. Qed.

Lemma body_loop body : forallb body_char_ok body = true -> forall l toks,
  tok_loop tok_step (mkT (Some 5) (PdChars l) toks) body = Ok (mkT (Some 5) (PdChars (l ++ body)) toks).
Proof.
  induction body as [|c r IH]; intros H l toks; cbn [tok_loop]; [rewrite app_nil_r; reflexivity|].
  cbn [forallb] in H. apply andb_prop in H. destruct H as [Hc Hr]. unfold body_char_ok in Hc.
  repeat (apply andb_prop in Hc; destruct Hc as [Hc ?]). apply negb_true_iff in Hc.
  match goal with H : negb (Ascii.eqb c "]") = true |- _ => apply negb_true_iff in H; rename H into H2 end.
  unfold tok_step. cbn [tt_is tt_in t_type t_pend t_toks Z.eqb Pos.eqb]. rewrite Hc, H2. cbn [negb].
  rewrite IH by exact Hr. rewrite <- app_assoc. reflexivity.
Qed.

Lemma tok_atom_bracket st ty a : BD st -> is_simple a = false -> writable ty a -> tok_ok st (ty, PAtom a).
Proof.
  intros B Hs W. unfold writable in W. rewrite Hs in W. destruct W as [Hne [Hok Hap]].
  assert (T : ty = 0 \/ ty = 8).
  { pose proof (atom_parse_good (body_text ty a)) as G. rewrite Hap in G. cbn in G. clear - G. zcontra; tauto. }
  unfold tok_ok. cbn [rtok fst]. rewrite Hs.
  assert (TC : tok_chars (ty, PAtom a) = ["["%char] ++ chars (body_text ty a) ++ ["]"%char]).
  { destruct T; subst ty; cbn [tok_chars]; unfold atom_chars; rewrite Hs; reflexivity. }
  rewrite TC. clear TC.
  assert (P : tok_loop tok_step st ["["%char] = Ok (mkT (Some 5) (PdChars []) (flushed st))).
  { bd_cases B; vm_compute; reflexivity. }
  rewrite tok_loop_app, P, tok_loop_app, (body_loop _ Hok). cbn [app tok_loop].
  destruct (chars (body_text ty a)) as [|c0 cr] eqn:Eb; [contradiction|].
  unfold tok_step. cbn. change (String c0 (string_of_list_ascii cr)) with (string_of_list_ascii (c0 :: cr)). rewrite <- Eb. unfold chars. rewrite string_of_list_ascii_of_string.
  eexists. split; [reflexivity|]. split; [bdsolve|]. split; [reflexivity|].
  destruct T; subst ty; reflexivity.
Qed.

(* ------------------------------------------------------------------------------------------------ token lists *)
(* after '(' no '(' , ')' or ring digit may follow (the three cases _tokenize rejects by the previous token) *)
Definition after_open_ok (t : token) : bool := negb (zmem (fst t) [2; 3; 6]).
Fixpoint adj (p : bool) (ts : list token) : bool :=
  match ts with [] => true | t :: r => (negb p || after_open_ok t) && adj (fst t =? 2) r end.
Definition endflag (p : bool) (ts : list token) : bool := fold_left (fun _ t => fst t =? 2) ts p.

Lemma tok_any st t : BD st -> tok_writable t -> (tt_is st 2 = true -> after_open_ok t = true) -> tok_ok st t.
Proof.
  intros B W A.
  assert (N2 : after_open_ok t = false -> tt_is st 2 = false).
  { intros F. destruct (tt_is st 2); [rewrite (A eq_refl) in F; discriminate | reflexivity]. }
  destruct t as [ty p].
  assert (AT : forall a, p = PAtom a -> writable ty a -> tok_ok st (ty, PAtom a)).
  { intros a _ Wa. destruct (is_simple a) eqn:Es; [apply tok_atom_simple | apply tok_atom_bracket]; assumption. }
  destruct p; cbn [tok_writable] in W; [| | | | | | |apply (AT a eq_refl); destruct ty as [|q|q]; try exact W; repeat (destruct q; try exact W)]; clear AT;
    (destruct ty as [|q|q]; try contradiction; do 4 (try (destruct q; try contradiction)));
    lazymatch goal with
    | |- tok_ok _ (2, PNone) => apply tok_open; [exact B | reflexivity | apply N2; reflexivity]
    | |- tok_ok _ (3, PNone) => apply tok_close; [exact B | reflexivity | apply N2; reflexivity]
    | |- tok_ok _ (4, PNone) => apply tok_dot; [exact B | reflexivity]
    | |- tok_ok _ (6, PInt _) => apply tok_ring; [exact B | exact W | apply N2; reflexivity]
    | |- tok_ok _ (1, PInt _) => apply tok_bond; assumption
    | |- tok_ok _ (9, PBool _) => apply tok_dir; exact B
    end.
Qed.

Lemma toks_sim ts : forall st, BD st -> Forall tok_writable ts -> adj (tt_is st 2) ts = true ->
  exists st', tok_loop tok_step st (toks_chars ts) = Ok st' /\ BD st' /\ flushed st' = rev (map rtok ts) ++ flushed st /\
              tt_is st' 2 = endflag (tt_is st 2) ts.
Proof.
  induction ts as [|t r IH]; intros st B W A.
  - exists st. repeat split; try assumption.
  - inversion W; subst. cbn [adj] in A. apply andb_prop in A. destruct A as [A1 A2].
    destruct (tok_any st t B H1) as [s1 [E1 [B1 [F1 T1]]]].
    { intros Ht. rewrite Ht in A1. exact A1. }
    rewrite <- T1 in A2. destruct (IH s1 B1 H2 A2) as [st' [E2 [B2 [F2 T2]]]].
    exists st'. unfold toks_chars. cbn [flat_map]. rewrite tok_loop_app, E1. fold (toks_chars r). rewrite E2.
    repeat split; [exact B2 | | ].
    + rewrite F2, F1. cbn [map rev]. rewrite <- app_assoc. reflexivity.
    + rewrite T2, T1. reflexivity.
Qed.

Lemma adj_app a : forall p b, adj p (a ++ b) = adj p a && adj (endflag p a) b.
Proof.
  induction a as [|t r IH]; intros p b; cbn [app adj endflag fold_left]; [reflexivity|].
  rewrite IH. unfold endflag. rewrite andb_assoc. reflexivity.
Qed.
Lemma endflag_app a b p : endflag p (a ++ b) = endflag (endflag p a) b.
Proof. unfold endflag. apply fold_left_app. Qed.

(* the spelling of a tree never puts '(' , ')' or a ring digit after '(' , and does not end with '(' *)
Lemma opt_bond_adj b X p : bond_ok b = true -> adj p (opt_bond b ++ X) = (match b with Some _ => adj false X | None => adj p X end) /\
  endflag p (opt_bond b ++ X) = (match b with Some _ => endflag false X | None => endflag p X end).
Proof.
  intros Hb. destruct b as [[bt bv]|]; cbn [opt_bond app]; [|split; reflexivity].
  destruct (bond_ok_tok bt bv Hb) as [B1 [B2 [B3 B6]]].
  cbn [adj endflag fold_left fst]. unfold after_open_ok. cbn [fst zmem existsb]. rewrite B2, B3, B6. cbn.
  rewrite orb_true_r. split; reflexivity.
Qed.

Lemma adj_rings rings p : forallb (fun r : option token * Z => bond_ok (fst r)) rings = true ->
  p = false -> adj p (ring_tokens rings) = true /\ endflag p (ring_tokens rings) = false.
Proof.
  intros H ->. induction rings as [|[b k] r IH]; [split; reflexivity|].
  cbn [forallb fst] in H. apply andb_prop in H. destruct H as [Hb Hr]. destruct (IH Hr) as [I1 I2].
  unfold ring_tokens. cbn [flat_map fst snd]. fold (ring_tokens r).
  destruct b as [[bt bv]|]; cbn [opt_bond app].
  - destruct (bond_ok_tok bt bv Hb) as [B1 [B2 [B3 B6]]].
    cbn [adj endflag fold_left fst]. rewrite B2. cbn. fold (endflag false (ring_tokens r)). rewrite I1, I2. split; reflexivity.
  - cbn [adj endflag fold_left fst]. cbn. fold (endflag false (ring_tokens r)). rewrite I1, I2. split; reflexivity.
Qed.

Definition Adj (t : tree) : Prop :=
  forall b p, wf_tree t = true -> bond_ok b = true -> adj p (opt_bond b ++ spell t) = true /\ endflag p (opt_bond b ++ spell t) = false.

Lemma adj_kids kids : Forall (fun bk : option token * tree => Adj (snd bk)) kids -> wf_kids kids = true ->
  adj false (spell_kids kids) = true /\ endflag false (spell_kids kids) = false.
Proof.
  induction kids as [|[b c] r IH]; intros HF Hw; [split; reflexivity|].
  inversion HF; subst. cbn [snd] in H1. cbn [wf_kids] in Hw. apply andb_prop in Hw. destruct Hw as [Hw Hwr]. apply andb_prop in Hw. destruct Hw as [Hb Hc].
  cbn [spell_kids]. destruct r as [|bk2 r2].
  - exact (H1 b false Hc Hb).
  - destruct (H1 b true Hc Hb) as [A1 A2]. destruct (IH H2 Hwr) as [I1 I2].
    set (X := opt_bond b ++ spell c) in *. set (K := spell_kids (bk2 :: r2)) in *.
    assert (E1 : adj false ((2, PNone) :: X ++ (3, PNone) :: K) = adj true X && adj (endflag true X) ((3, PNone) :: K)).
    { cbn [adj fst Z.eqb Pos.eqb negb orb andb]. apply (adj_app X true ((3, PNone) :: K)). }
    assert (E2 : endflag false ((2, PNone) :: X ++ (3, PNone) :: K) = endflag (endflag true X) ((3, PNone) :: K)).
    { unfold endflag at 1. cbn [fold_left fst Z.eqb Pos.eqb]. apply (endflag_app X ((3, PNone) :: K) true). }
    rewrite E1, E2, A1, A2. cbn [adj endflag fold_left fst Z.eqb Pos.eqb negb orb andb]. fold (endflag false K). rewrite I1, I2. split; reflexivity.
Qed.

Lemma adj_all t : Adj t.
Proof.
  induction t as [ty a rings kids IH] using tree_ind'. intros b p Hw Hb.
  rewrite wf_node in Hw. apply andb_prop in Hw. destruct Hw as [Hw Hwk]. apply andb_prop in Hw. destruct Hw as [Hty Hwr].
  rewrite spell_node. destruct (opt_bond_adj b ((ty, PAtom a) :: ring_tokens rings ++ spell_kids kids) p Hb) as [A1 A2]. rewrite A1, A2.
  assert (T : after_open_ok (ty, PAtom a) = true /\ (ty =? 2) = false).
  { unfold after_open_ok. cbn [fst]. clear - Hty. zcontra; split; reflexivity. }
  destruct T as [T1 T2].
  destruct (adj_rings rings false Hwr eq_refl) as [R1 R2]. destruct (adj_kids kids IH Hwk) as [K1 K2].
  assert (G : forall q, adj q ((ty, PAtom a) :: ring_tokens rings ++ spell_kids kids) = true /\
                        endflag q ((ty, PAtom a) :: ring_tokens rings ++ spell_kids kids) = false).
  { intros q. cbn [adj fst]. rewrite T1, T2, orb_true_r. cbn [andb]. rewrite adj_app, R1, R2, K1.
    unfold endflag at 1. cbn [fold_left fst]. rewrite T2. fold (endflag false (ring_tokens rings ++ spell_kids kids)).
    rewrite endflag_app, R2, K2. split; reflexivity. }
  destruct b; apply G.
Qed.

(* ------------------------------------------------------------------------------------------------ tokenize (spell_text t) = spell t *)
Lemma BD_finish st : BD st -> tok_finish st = Ok (rev (flushed st)).
Proof. intros B. bd_cases B; reflexivity. Qed.

Lemma post_single t R : tok_writable t ->
  post_tokens (rtok t :: R) = match post_tokens R with Ok r' => Ok (t :: r') | Err e => Err e end.
Proof.
  intros W. destruct t as [ty p].
  assert (AT : forall a, writable ty a ->
            post_tokens (rtok (ty, PAtom a) :: R) = match post_tokens R with Ok r' => Ok ((ty, PAtom a) :: r') | Err e => Err e end).
  { intros a Wa. unfold writable in Wa. cbn [rtok]. destruct (is_simple a) eqn:Es.
    - destruct Wa as [Ea [[-> _] | [-> _]]]; cbn [post_tokens zmem existsb Z.eqb Pos.eqb orb]; rewrite <- Ea; reflexivity.
    - destruct Wa as [_ [_ Ep]]. cbn [post_tokens zmem existsb Z.eqb Pos.eqb orb]. rewrite Ep. reflexivity. }
  destruct p; cbn [tok_writable] in W;
    [| | | | | | |apply AT; destruct ty as [|q|q]; try exact W; repeat (destruct q; try exact W)]; clear AT;
    (destruct ty as [|q|q]; try contradiction; do 4 (try (destruct q; try contradiction))); reflexivity.
Qed.

Lemma post_rtok ts : Forall tok_writable ts -> post_tokens (map rtok ts) = Ok ts.
Proof.
  induction ts as [|t r IH]; intros W; [reflexivity|]. inversion W; subst.
  cbn [map]. rewrite (post_single t _ H1), (IH H2). reflexivity.
Qed.

(* smiles_tokenize on the text of a tree returns the token spelling of the tree *)
Theorem tokenize_spell_text t : wf_tree t = true -> tree_writable t -> tokenize (spell_text t) = Ok (spell t).
Proof.
  intros Hw W. unfold tokenize, tokenize_with, tokenize_raw_with, spell_text. rewrite list_ascii_of_string_of_list_ascii.
  destruct (adj_all t None false Hw eq_refl) as [A _]. cbn [opt_bond app] in A.
  destruct (toks_sim (spell t) t_init ltac:(apply BD_plain; cbn; tauto) W A) as [st' [E [B [F _]]]].
  rewrite E, (BD_finish st' B), F. cbn [flushed t_init truthy t_pend t_toks]. rewrite app_nil_r, rev_involutive.
  apply post_rtok. exact W.
Qed.

(* ------------------------------------------------------------------------------------------------ smiles() on the text of a tree *)
Definition clean_char (c : ascii) : bool := negb (is_space c) && negb (Ascii.eqb c ">").

Lemma digit_clean d : 0 <= d <= 9 -> clean_char (digit_char d) = true.
Proof.
  intros H. assert (C : d = 0 \/ d = 1 \/ d = 2 \/ d = 3 \/ d = 4 \/ d = 5 \/ d = 6 \/ d = 7 \/ d = 8 \/ d = 9) by lia.
  repeat (destruct C as [-> | C]); try subst d; reflexivity.
Qed.

Lemma body_ok_clean c : body_char_ok c = true -> clean_char c = true.
Proof.
  unfold body_char_ok, clean_char, is_space. intros H. repeat (apply andb_prop in H; destruct H as [H ?]).
  apply andb_true_intro. split; assumption.
Qed.

Lemma atom_chars_clean ty a : writable ty a -> forallb clean_char (atom_chars ty a) = true /\ atom_chars ty a <> [].
Proof.
  unfold writable, atom_chars. destruct (is_simple a).
  - intros [_ [[-> W] | [-> W]]]; apply smem_cases in W; cbn in W;
      repeat (destruct W as [W | W]; [rewrite <- W; split; [reflexivity | discriminate]|]); contradiction.
  - intros [Hne [Hok _]]. split; [|discriminate]. cbn [forallb]. rewrite forallb_app. cbn.
    assert (F : forallb clean_char (chars (body_text ty a)) = true).
    { rewrite forallb_forall in *. intros c Hc. apply body_ok_clean. apply Hok. exact Hc. }
    rewrite F. reflexivity.
Qed.

Lemma tok_clean t : tok_writable t -> forallb clean_char (tok_chars t) = true.
Proof.
  intros W. destruct t as [ty p].
  assert (AT : forall a, writable ty a -> forallb clean_char (tok_chars (ty, PAtom a)) = true).
  { intros a Wa. pose proof (atom_chars_clean ty a Wa) as [C _].
    assert (T : tok_chars (ty, PAtom a) = atom_chars ty a) by (destruct ty as [|q|q]; try reflexivity; repeat (destruct q; try reflexivity)).
    rewrite T. exact C. }
  destruct p; cbn [tok_writable] in W;
    [| | | | | | |apply AT; destruct ty as [|q|q]; try exact W; repeat (destruct q; try exact W)]; clear AT;
    (destruct ty as [|q|q]; try contradiction; do 4 (try (destruct q; try contradiction))); try reflexivity.
  - (* ring digit *) cbn [tok_chars]. unfold ring_chars. destruct (z <? 10) eqn:E.
    + apply Z.ltb_lt in E. cbn [forallb]. rewrite digit_clean by lia. reflexivity.
    + apply Z.ltb_ge in E. cbn [forallb].
      assert (1 <= z / 10) by (apply Z.div_le_lower_bound; lia). assert (z / 10 < 10) by (apply Z.div_lt_upper_bound; lia).
      pose proof (Z.mod_pos_bound z 10 ltac:(lia)).
      rewrite !digit_clean by lia. reflexivity.
  - (* bond symbol *) cbn [tok_chars]. unfold bond_chars_of.
    assert (C : z = 1 \/ z = 2 \/ z = 3 \/ z = 4 \/ z = 8) by (clear - W; zcontra; tauto).
    destruct C as [-> | [-> | [-> | [-> | ->]]]]; reflexivity.
  - destruct b; reflexivity.
Qed.

Lemma split_ws_clean l : l <> [] -> forallb clean_char l = true -> split_ws l = [l].
Proof.
  intros Hne Hc. unfold split_ws.
  assert (G : forall cur, forallb clean_char l = true -> split_ws_aux l cur = match rev cur ++ l with [] => [] | x => [x] end).
  { clear. induction l as [|c r IH]; intros cur H; cbn [split_ws_aux].
    - rewrite app_nil_r. destruct cur as [|x cur]; [reflexivity|]. cbn [rev]. destruct (rev cur ++ [x]) eqn:E; [|reflexivity].
      apply app_eq_nil in E. destruct E; discriminate.
    - cbn [forallb] in H. apply andb_prop in H. destruct H as [H1 H2]. unfold clean_char in H1. apply andb_prop in H1. destruct H1 as [H1 _].
      apply negb_true_iff in H1. rewrite H1. rewrite (IH (c :: cur) H2). cbn [rev]. rewrite <- app_assoc. reflexivity. }
  rewrite (G [] Hc). cbn. destruct l; [contradiction | reflexivity].
Qed.

Lemma toks_clean ts : Forall tok_writable ts -> forallb clean_char (toks_chars ts) = true.
Proof.
  unfold toks_chars. induction ts as [|x r IH]; intros W; [reflexivity|]. inversion W; subst.
  cbn [flat_map]. rewrite forallb_app, (tok_clean x H1), (IH H2). reflexivity.
Qed.

(* the molecule built from a machine-free graph: numbering by atom maps, then atoms and bonds *)
Definition build (ignore remap : bool) (g : dgraph) : pyres rresult :=
  match pp_molecule remap ignore (map map_of (dg_atoms g)) with
  | Err e => Err e
  | Ok mapping => match create_molecule mapping (map (fun a => (a, false)) (dg_atoms g)) (dg_bonds g) with
                  | Err e => Err e
                  | Ok m => Ok (RMol m)
                  end
  end.

(* END TO END, for molecules: smiles() on the text of a writable syntax tree builds the molecule of the tree's machine-free
   graph, and fails when the tree has none (the strict mode of the graph is `not ignore`) *)
Theorem read_spell_text ignore remap t : wf2 t = true -> tree_writable t ->
  match denote_graph (negb ignore) t with
  | Some g => read ignore remap (spell_text t) = build ignore remap g
  | None => exists e, read ignore remap (spell_text t) = Err e
  end.
Proof.
  intros Hw W. pose proof (wf2_wf t Hw) as Hw1.
  pose proof (tokenize_spell_text t Hw1 W) as TK. pose proof (read_spell_graph (negb ignore) t Hw) as RG.
  set (L := toks_chars (spell t)).
  assert (HL : forallb clean_char L = true) by (apply toks_clean; exact W).
  assert (HN : L <> []).
  { unfold L. destruct t as [ty a rings kids]. rewrite spell_node. unfold toks_chars. cbn [flat_map].
    unfold tree_writable in W. rewrite spell_node in W. inversion W; subst.
    assert (Wa : writable ty a) by (cbn [tok_writable] in H1; destruct ty as [|q|q]; try exact H1; repeat (destruct q; try exact H1)).
    destruct (atom_chars_clean ty a Wa) as [_ Ne].
    assert (T : tok_chars (ty, PAtom a) = atom_chars ty a) by (destruct ty as [|q|q]; try reflexivity; repeat (destruct q; try reflexivity)).
    rewrite T. destruct (atom_chars ty a); [contradiction | discriminate]. }
  assert (NoGt : existsb (Ascii.eqb ">"%char) L = false).
  { clear - HL. induction L as [|c r IH]; [reflexivity|]. cbn [forallb existsb] in *. apply andb_prop in HL. destruct HL as [H1 H2].
    unfold clean_char in H1. apply andb_prop in H1. destruct H1 as [_ H1]. apply negb_true_iff in H1. rewrite Ascii.eqb_sym, H1. exact (IH H2). }
  unfold read, read_with, spell_text. fold L. rewrite list_ascii_of_string_of_list_ascii.
  destruct L as [|c0 L'] eqn:EL; [contradiction|]. rewrite <- EL in *. rewrite (split_ws_clean L HN HL). rewrite NoGt.
  unfold read_molecule, parse_text. unfold spell_text in TK. fold L in TK. rewrite TK.
  destruct (parse (spell t) (negb ignore)) as [p|e].
  - rewrite RG. unfold build. cbn [dg_atoms dg_bonds set_radicals]. unfold no_rad. reflexivity.
  - rewrite RG. exists e. reflexivity.
Qed.

Example read_spell_text_example :
  let t := Node 0 (simple_atom "C") [(None, 1)]
             [(Some (1, PInt 2), Node 0 (simple_atom "O") [] []);
              (None, Node 8 (mkAt "N" None None 0 (Some 1) None) [(Some (9, PBool true), 12)]
                       [(Some (4, PNone), Node 0 (mkAt "C" (Some 13) (Some 7) (-1) (Some 3) (Some false)) [(None, 1); (None, 12)] [])])] in
  spell_text t = "C1(=O)[nH]/%12.[13C@@H3-1:7]1%12"%string /\ wf2 t = true /\ tree_writable t /\
  exists m, read true false (spell_text t) = Ok (RMol m).
Proof.
  cbn zeta. split; [vm_compute; reflexivity|]. split; [reflexivity|]. split.
  - unfold tree_writable. repeat constructor; vm_compute; repeat split; try discriminate; try reflexivity; try lia; try (left; split; reflexivity); try (right; split; reflexivity).
  - eexists. vm_compute. reflexivity.
Qed.
