(* C15 -- tie by translation: the body of ReactionContainer.__format__ as regenerated from the SOURCE by tools/gen_rxnformat.py
   (Gen.RxnFormatGen.g_rxn_format) is the hand-written model Model.RxnSmiles.rxn_format, for all lists of written molecules and
   all four combinations of the flags '!c' and '!x'.  A behaviour-changing edit of the source breaks g_rxn_format_eq. *)
From Coq Require Import ZArith List String Ascii Bool Lia.
From Model Require Import PyBase RxnSmiles.
From Gen Require Import RxnFormatGen.
From Proofs Require Import RxnSmilesProofs RxnCxProofs.
Import ListNotations.
Open Scope string_scope.
Open Scope list_scope.
Open Scope Z_scope.

(* ---------- the sort ---------- *)
Lemma insert_by_ext {A} (f g : A -> A -> bool) : (forall a b, f a b = g a b) -> forall x l, insert_by f x l = insert_by g x l.
Proof. intros H x. induction l as [|y l IH]; cbn [insert_by]; [reflexivity|]. rewrite H, IH. reflexivity. Qed.
Lemma sort_by_ext {A} (f g : A -> A -> bool) : (forall a b, f a b = g a b) -> forall l, sort_by f l = sort_by g l.
Proof.
  intros H. unfold sort_by. induction l as [|x l IH]; cbn [fold_right]; [reflexivity|]. rewrite IH. apply insert_by_ext. exact H.
Qed.
Lemma py_sort_key_eq l : py_sort_key (fun x => (f_smi x, f_rad x)) l = sort_by key_leb l.
Proof. unfold py_sort_key. apply sort_by_ext. intros a b. reflexivity. Qed.

(* ---------- inner loop (source line 301) = role_loop ---------- *)
Definition strs (cs : list (list Z)) : list (list string) := map (map dec) cs.
Lemma g_f2_step count contract radicals ss m :
  g_f2_body (count, contract, radicals, ss) m =
  (if f_ncomp m >? 1 then count + f_ncomp m else count + 1,
   contract ++ strs (if f_ncomp m >? 1 then [map (fun x => x + count) (zrange 0 (f_ncomp m))] else []),
   radicals ++ f_rad m, ss ++ [f_smi m]).
Proof.
  unfold g_f2_body, strs. destruct (f_ncomp m >? 1); cbn [map]; rewrite ?map_map, ?app_nil_r; reflexivity.
Qed.
Lemma g_f2_loop l : forall count contract radicals ss,
  fold_left g_f2_body l (count, contract, radicals, ss) =
  let '(ss', cs, rs, cf) := role_loop l count in (cf, contract ++ strs cs, radicals ++ rs, ss ++ ss').
Proof.
  induction l as [|m l IH]; intros count contract radicals ss; cbn [fold_left role_loop].
  - unfold strs. cbn [map]. rewrite !app_nil_r. reflexivity.
  - rewrite g_f2_step, IH.
    destruct (role_loop l (if f_ncomp m >? 1 then count + f_ncomp m else count + 1)) as [[[ss' cs] rs] cf].
    unfold strs. rewrite map_app, <- !app_assoc. reflexivity.
Qed.

(* ---------- one role (source line 295) ---------- *)
Lemma g_f1_step has_c sig count contract radicals ml :
  g_f1_body has_c (sig, count, contract, radicals) ml =
  let '(ss, cs, rs, cf) := role_loop (if has_c then ml else sort_by key_leb ml) count in
  (sig ++ [concat "." ss], cf, contract ++ strs cs, radicals ++ rs).
Proof.
  unfold g_f1_body. destruct has_c; cbn [negb]; rewrite ?py_sort_key_eq, g_f2_loop.
  - destruct (role_loop ml count) as [[[ss cs] rs] cf]. reflexivity.
  - destruct (role_loop (sort_by key_leb ml) count) as [[[ss cs] rs] cf]. reflexivity.
Qed.

(* ---------- the CX block ---------- *)
Lemma enum_true_positions (l : list bool) : forall i,
  map (fun x : Z * bool => dec (fst x)) (filter (fun x : Z * bool => snd x) (py_enumerate_from i l)) = map dec (true_positions l i).
Proof.
  induction l as [|b l IH]; intros i; cbn [py_enumerate_from filter map true_positions snd]; [reflexivity|].
  destruct b; cbn [map app fst]; rewrite IH; reflexivity.
Qed.
Lemma str_truthy_concat_dec (l : list Z) : str_truthy (concat "," (map dec l)) = match l with [] => false | _ => true end.
Proof.
  unfold str_truthy. destruct l as [|x l]; [reflexivity|]. cbn [map].
  destruct (String.eqb (concat "," (dec x :: map dec l)) "") eqn:E; [|reflexivity].
  apply String.eqb_eq in E. exfalso. revert E. apply concat_nonempty. apply dec_nonempty.
Qed.

(* ---------- the whole body ---------- *)
Theorem g_rxn_format_eq has_c has_x rs gs ps : g_rxn_format has_c has_x rs gs ps = rxn_format has_c has_x rs gs ps.
Proof.
  unfold g_rxn_format, rxn_format, rxn_write. cbn [fold_left].
  rewrite g_f1_step. cbv beta.
  destruct (role_loop (if has_c then rs else sort_by key_leb rs) 0) as [[[s1 c1] r1] n1].
  rewrite g_f1_step.
  destruct (role_loop (if has_c then gs else sort_by key_leb gs) n1) as [[[s2 c2] r2] n2].
  rewrite g_f1_step.
  destruct (role_loop (if has_c then ps else sort_by key_leb ps) n2) as [[[s3 c3] r3] n3].
  cbn [app w_sig]. destruct has_x; cbn [negb]; [reflexivity|].
  cbv zeta. unfold cx_text. cbn [w_radicals w_contract w_sig].
  unfold py_enumerate. rewrite enum_true_positions, str_truthy_concat_dec.
  rewrite <- !app_assoc. unfold strs. rewrite <- !map_app, map_map.
  destruct (true_positions (r1 ++ r2 ++ r3) 0) as [|t ts]; destruct (c1 ++ c2 ++ c3) as [|c cs]; reflexivity.
Qed.

(* non-vacuity: the translated body on a reaction with a radical twin pair, a salt and an empty reagent role *)
Example g_rxn_format_example :
  g_rxn_format false false [mkF "[CH3]" 1 [true]; mkF "C" 1 [false]] [] [mkF "[Na+].[Cl-]" 2 [false; false]] = "C.[CH3]>>[Na+].[Cl-] |^1:1,f:2.3|" /\
  g_rxn_format true true [mkF "[CH3]" 1 [true]; mkF "C" 1 [false]] [] [mkF "[Na+].[Cl-]" 2 [false; false]] = "[CH3].C>>[Na+].[Cl-]".
Proof. split; vm_compute; reflexivity. Qed.

(* the first clause of the property, stated about the translated source: the string does not depend on the order of the
   molecules inside the roles *)
From Coq Require Import Permutation.
Theorem g_rxn_string_role_order_free has_x rs rs' gs gs' ps ps' :
  Permutation rs rs' -> Permutation gs gs' -> Permutation ps ps' -> ncomp_det rs -> ncomp_det gs -> ncomp_det ps ->
  g_rxn_format false has_x rs gs ps = g_rxn_format false has_x rs' gs' ps'.
Proof. intros. rewrite !g_rxn_format_eq. apply rxn_string_role_order_free; assumption. Qed.
