(* C12, round 4: the fuel of the fix_stereo loop model is irrelevant once it covers the saved labels: any two sufficient fuels give
   the same labels, so the out-of-fuel exit of Model.StereoFix.fix_loop is never taken by fix_stereo_labels (fuel = S (length saved))
   and the result is THE fixpoint iteration of the real `while old_stereo:` loop, which stops by itself (every productive round
   strictly shrinks the pending list). *)
From Coq Require Import ZArith List Bool Lia.
From Model Require Import PyBase Graph Stereo StereoRegistry StereoFix.
From Proofs Require Import StereoFixProofs.
Import ListNotations.

Section Fuel.
  Variable chiral : list label -> centre -> bool.

  Theorem fix_loop_fuel_irrelevant : forall fuel fuel' restored pending,
    (List.length pending <= fuel)%nat -> (List.length pending <= fuel')%nat ->
    fix_loop chiral fuel restored pending = fix_loop chiral fuel' restored pending.
  Proof.
    induction fuel as [|k IH]; intros fuel' restored pending H H'.
    - destruct pending; [|cbn in H; lia]. destruct fuel'; reflexivity.
    - destruct fuel' as [|k'].
      + destruct pending; [|cbn in H'; lia]. reflexivity.
      + cbn [fix_loop]. destruct pending as [|p0 pending']; [reflexivity|].
        set (pending := p0 :: pending') in *.
        destruct (filter (fun cs => chiral restored (fst cs)) pending) as [|n0 now'] eqn:En; [reflexivity|].
        pose proof (filter_neg_shorter (fun cs => chiral restored (fst cs)) pending) as S.
        rewrite En in S. specialize (S ltac:(discriminate)). cbv beta in S.
        apply IH; unfold label in *; lia.
  Qed.

  (* the number of rounds is bounded by the number of saved labels: with fuel = length + 1 the loop has stopped by itself, i.e. one
     more unit of fuel changes nothing *)
  Corollary fix_stereo_labels_fuel : forall r g extra,
    fix_stereo_labels chiral r g = fix_loop chiral (S (List.length (collect r g)) + extra) [] (collect r g).
  Proof. intros. unfold fix_stereo_labels. apply fix_loop_fuel_irrelevant; lia. Qed.

  (* idempotence of the loop on its own result: nothing is pending after a run, so a second run restores nothing more *)
  Theorem fix_loop_no_pending : forall fuel restored, fix_loop chiral fuel restored [] = restored.
  Proof. destruct fuel; reflexivity. Qed.
End Fuel.
