(* Proofs about Model.Tokenize *)
From Coq Require Import ZArith List String Ascii Bool Lia.
From Model Require Import PyBase Tokenize.
From Gen Require Import TokenTables.
Import ListNotations.
Open Scope Z_scope.

(* the pattern texts the hand-written matchers were written for: a changed regular expression stops the build here *)
Lemma regex_sources_pinned :
  atom_re_src = "([1-9][0-9]{0,2})?([A-IK-PR-Zacnopsbt][a-ik-pr-vy]?)(@@|@)?(H[1-4]?)?([+-][1-4+-]?)?(:[0-9]{1,4})?"%string /\
  cx_fragments_src = "f:(?:[0-9]+(?:\.[0-9]+)+)(?:,(?:[0-9]+(?:\.[0-9]+)+))*"%string /\
  cx_radicals_src = "\^[1-7]:[0-9]+(?:,[0-9]+)*"%string.
Proof. repeat split; reflexivity. Qed.
