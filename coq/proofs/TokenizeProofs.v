(* Proofs about Model.Tokenize (tokenize.py): the state invariant of _tokenize, the shape of the tokens it returns, and
   totality: on a text without the two SMARTS-only characters ';' and '!' every failure of _tokenize / _atom_parse /
   smiles_tokenize is a ValueError-class exception (IncorrectSmiles, IncorrectSmarts, ValueError) and a non-empty text
   never gives an empty token list.  (With ';' or '!' the CURRENT code can raise IndexError / TypeError / KeyError:
   see ReaderProofs.reader_total_refuted.) *)
From Coq Require Import ZArith List String Ascii Bool Lia.
From Model Require Import PyBase Tokenize.
From Gen Require Import TokenTables.
Import ListNotations.
Open Scope Z_scope.

(* the pattern texts the hand-written matchers were written for: a changed regular expression stops the build here *)
Lemma regex_sources_pinned :
  atom_re_src = "([1-9][0-9]{0,2})?([A-IK-PR-Zacnopsbt][a-ik-pr-vy]?)(@@|@)?(H[1-4]?)?([+-][1-4+-]?)?(:[0-9]{1,4})?"%string /\
  cx_fragments_src = "f:(?:[0-9]+(?:\.[0-9]+)+)(?:,(?:[0-9]+(?:\.[0-9]+)+))*"%string /\
  cx_radicals_src = "\^[1-7]:[0-9]+(?:,[0-9]+)*"%string.
Proof. repeat split; reflexivity. Qed.

(* ------------------------------------------------------------------------------------------------ vocabulary *)
(* the exceptions that are (subclasses of) ValueError *)
Definition vee (e : pyexn) : bool :=
  match e with ValueError | IncorrectSmiles | IncorrectSmarts => true | _ => false end.
(* a result that is a value or a ValueError-class exception *)
Definition total {A} (r : pyres A) : Prop := match r with Ok _ => True | Err e => vee e = true end.

(* characters other than the SMARTS-only ';' and '!' *)
Definition clean_c (c : ascii) : bool := negb (Ascii.eqb c ";") && negb (Ascii.eqb c "!").
Definition clean_l (l : list ascii) : bool := forallb clean_c l.
Definition clean (s : string) : bool := clean_l (list_ascii_of_string s).

(* shape of the tokens _tokenize returns *)
Definition rawwfb (t : token) : bool :=
  match snd t with
  | PStr _ => zmem (fst t) [0; 8; 5]
  | PInt _ => zmem (fst t) [1; 6]
  | PBool _ => fst t =? 9
  | PNone => zmem (fst t) [2; 3; 4]
  | PZs _ => fst t =? 10
  | _ => false
  end.
(* shape of the tokens smiles_tokenize returns *)
Definition swfb (t : token) : bool :=
  match snd t with
  | PAtom _ => zmem (fst t) [0; 8]
  | PInt _ => zmem (fst t) [1; 6]
  | PBool _ => fst t =? 9
  | PNone => zmem (fst t) [2; 3; 4]
  | _ => false
  end.
Definition W (l : list token) : Prop := forallb rawwfb l = true.

Lemma py_int_err l e : py_int l = Err e -> e = ValueError.
Proof.
  unfold py_int. destruct l; [intros H; inversion H; reflexivity|].
  destruct (_ && _); intros H; inversion H; reflexivity.
Qed.

(* ------------------------------------------------------------------------------------------------ table facts *)
Lemma chr_in_cases c s : chr_in c s = true -> In c (list_ascii_of_string s).
Proof.
  unfold chr_in. rewrite existsb_exists. intros [x [Hx E]]. apply Ascii.eqb_eq in E. subst. exact Hx.
Qed.

(* every bond character of _tokenize has an entry in replace_dict *)
Lemma bond_chars_replace c : chr_in c bond_chars = true -> exists o, sget replace_dict (str1 c) = Some o.
Proof.
  intros H. apply chr_in_cases in H. cbn in H.
  repeat (destruct H as [<- | H]; [eexists; vm_compute; reflexivity|]). contradiction.
Qed.

Lemma cb_chars_spec c : chr_in c cb_chars = true -> c = "C"%char \/ c = "B"%char.
Proof.
  intros H. apply chr_in_cases in H. cbn in H.
  repeat (destruct H as [<- | H]; [first [left; reflexivity | right; reflexivity]|]). contradiction.
Qed.

(* ------------------------------------------------------------------------------------------------ the invariant *)
(* the (token_type, token) pairs that occur, with the token list (reversed) *)
Inductive TI : tstate -> Prop :=
| TI_none toks : W toks -> TI (mkT None PdNone toks)
| TI_bond o toks : W toks -> TI (mkT (Some 1) PdNone ((1, PInt o) :: toks))
| TI_plain k toks : In k [0; 2; 3; 4; 6; 8; 9] -> W toks -> TI (mkT (Some k) PdNone toks)
| TI_cb s toks : s = "C"%string \/ s = "B"%string -> W toks -> TI (mkT (Some 0) (PdStr s) toks)
| TI_br l toks : W toks -> TI (mkT (Some 5) (PdChars l) toks)
| TI_pc0 toks : W toks -> TI (mkT (Some 7) (PdChars []) toks)
| TI_pc1 d toks : W toks -> TI (mkT (Some 7) (PdChars [d]) toks)
| TI_or l toks : l <> [] -> W toks -> TI (mkT (Some 10) (PdOrders l) toks).

(* "the loop has consumed something that will show in the result (or make the end fail)" *)
Definition neb (st : tstate) : bool :=
  tt_is st 5 || tt_is st 7 || truthy (t_pend st) || match t_toks st with [] => false | _ => true end.

Definition Good (r : pyres tstate) : Prop :=
  match r with Ok st' => TI st' /\ neb st' = true | Err e => vee e = true end.

Ltac wsolve :=
  unfold W in *; cbn;
  repeat match goal with H : forallb rawwfb _ = true |- _ => rewrite H end; reflexivity.
Ltac insolve := cbn; repeat (first [left; reflexivity | right]).
Ltac tisolve :=
  first [ apply TI_none; wsolve
        | apply TI_bond; wsolve
        | apply TI_plain; [insolve | wsolve]
        | apply TI_cb; [first [left; reflexivity | right; reflexivity] | wsolve]
        | apply TI_br; wsolve | apply TI_pc0; wsolve | apply TI_pc1; wsolve
        | apply TI_or; [first [discriminate | intros HH; apply app_eq_nil in HH; destruct HH; discriminate] | wsolve] ].
Ltac leaf :=
  lazymatch goal with
  | |- Good (Ok _) => split; [tisolve | cbn; reflexivity]
  | |- Good (Err _) => reflexivity
  end.
Ltac go :=
  repeat lazymatch goal with
  | |- Good (if true then ?x else _) => change (Good x)
  | |- Good (if false then _ else ?y) => change (Good y)
  | |- Good (if ?b then _ else _) => let E := fresh "E" in destruct b eqn:E
  | |- Good (match py_int ?l with Ok _ => _ | Err _ => _ end) =>
      let E := fresh "E" in destruct (py_int l) eqn:E; [| apply py_int_err in E; subst]
  | |- Good (match sget replace_dict (str1 ?c) with Some _ => _ | None => _ end) =>
      lazymatch goal with
      | H : chr_in c bond_chars = true |- _ =>
          let o := fresh "o" in let Ho := fresh "Ho" in destruct (bond_chars_replace c H) as [o Ho]; rewrite Ho
      end
  end.

Lemma clean_c_spec c : clean_c c = true -> Ascii.eqb c ";" = false /\ Ascii.eqb c "!" = false.
Proof.
  unfold clean_c. intros H. apply andb_prop in H. destruct H as [H1 H2].
  apply negb_true_iff in H1. apply negb_true_iff in H2. split; assumption.
Qed.

Lemma tok_step_good st c : clean_c c = true -> TI st -> Good (tok_step st c).
Proof.
  intros Hc HTI. apply clean_c_spec in Hc. destruct Hc as [Hs Hb].
  destruct HTI as [toks HW | o toks HW | k toks Hk HW | s toks Hsx HW | l toks HW | toks HW | d toks HW | l toks Hl HW].
  - unfold tok_step, ISm, ISa; cbn -[is_numeric chr_in Ascii.eqb py_int sget]; rewrite ?Hs, ?Hb; go; try leaf.
    all: try (match goal with H : chr_in _ cb_chars = true |- _ => apply cb_chars_spec in H; destruct H; subst; leaf end).
  - unfold tok_step, ISm, ISa; cbn -[is_numeric chr_in Ascii.eqb py_int sget]; rewrite ?Hs, ?Hb; go; try leaf.
    all: try (match goal with H : chr_in _ cb_chars = true |- _ => apply cb_chars_spec in H; destruct H; subst; leaf end).
  - cbn in Hk. repeat (destruct Hk as [<- | Hk]); try contradiction;
      unfold tok_step, ISm, ISa; cbn -[is_numeric chr_in Ascii.eqb py_int sget]; rewrite ?Hs, ?Hb; go; try leaf;
      try (match goal with H : chr_in _ cb_chars = true |- _ => apply cb_chars_spec in H; destruct H; subst; leaf end).
  - destruct Hsx; subst s;
      unfold tok_step, ISm, ISa; cbn -[is_numeric chr_in Ascii.eqb py_int sget]; rewrite ?Hs, ?Hb; go; try leaf;
      try (match goal with H : chr_in _ cb_chars = true |- _ => apply cb_chars_spec in H; destruct H; subst; leaf end).
  - unfold tok_step, ISm, ISa; cbn -[is_numeric chr_in Ascii.eqb py_int sget]; rewrite ?Hs, ?Hb; go; try leaf.
    all: destruct l; go; try leaf.
  - unfold tok_step, ISm, ISa; cbn -[is_numeric chr_in Ascii.eqb py_int sget]; rewrite ?Hs, ?Hb; go; try leaf.
  - unfold tok_step, ISm, ISa; cbn -[is_numeric chr_in Ascii.eqb py_int sget]; rewrite ?Hs, ?Hb; go; try leaf.
  - unfold tok_step, ISm, ISa; cbn -[is_numeric chr_in Ascii.eqb py_int sget]; rewrite ?Hs, ?Hb; go; try leaf.
Qed.
