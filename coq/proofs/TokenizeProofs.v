(* Proofs about Model.Tokenize (tokenize.py): the state invariant of _tokenize, the shape of the tokens it returns, and
   totality: for EVERY text, every failure of _tokenize / _atom_parse / smiles_tokenize is a ValueError-class exception
   (IncorrectSmiles, IncorrectSmarts, ValueError), never IndexError / KeyError / TypeError, and a non-empty text never
   gives an empty token list. *)
From Coq Require Import ZArith List String Ascii Bool Lia.
From Model Require Import PyBase Tokenize.
From Gen Require Import TokenTables.
Import ListNotations.
Open Scope Z_scope.

(* the pattern texts the hand-written matchers were written for: a changed regular expression stops the build here *)
Lemma regex_sources_pinned :
  atom_re_src = "([1-9][0-9]{0,2})?([A-IK-PR-Zacnopsbt][a-ik-pr-vy]?)(@@|@)?(H[1-4]?)?([+-][1-4+-]?)?(:[0-9]+)?"%string /\
  cx_fragments_src = "f:(?:[0-9]+(?:\.[0-9]+)+)(?:,(?:[0-9]+(?:\.[0-9]+)+))*"%string /\
  cx_radicals_src = "\^[1-7]:[0-9]+(?:,[0-9]+)*"%string.
Proof. repeat split; reflexivity. Qed.

(* ------------------------------------------------------------------------------------------------ vocabulary *)
(* the exceptions that are (subclasses of) ValueError *)
Definition vee (e : pyexn) : bool :=
  match e with ValueError | IncorrectSmiles | IncorrectSmarts => true | _ => false end.
(* a result that is a value or a ValueError-class exception *)
Definition total {A} (r : pyres A) : Prop := match r with Ok _ => True | Err e => vee e = true end.

(* shape of the tokens _tokenize returns *)
Definition rawwfb (t : token) : bool :=
  match snd t with
  | PStr _ => zmem (fst t) [0; 8; 5]
  | PInt _ => zmem (fst t) [1; 6]
  | PBool _ => fst t =? 9
  | PNone => zmem (fst t) [2; 3; 4]
  | PZs _ => fst t =? 10
  | PQB _ _ => fst t =? 12
  | _ => false
  end.
(* shape of the tokens smiles_tokenize returns: atoms (0 / 8) carry an atom dictionary, bonds (1) and closures (6) an int,
   direction marks (9) a bool; brackets and dots (2, 3, 4) nothing; no SMARTS tokens (10, 12) *)
Definition swfb (t : token) : bool :=
  match snd t with
  | PAtom _ => zmem (fst t) [0; 8]
  | PInt _ => zmem (fst t) [1; 6]
  | PBool _ => fst t =? 9
  | PNone => zmem (fst t) [2; 3; 4]
  | _ => false
  end.
Definition W (l : list token) : Prop := forallb rawwfb l = true.

Lemma py_int_err l e : py_int l = Err e -> e = ValueError.
Proof.
  unfold py_int. destruct l; [intros H; inversion H; reflexivity|].
  destruct (_ && _); intros H; inversion H; reflexivity.
Qed.

Ltac zcontra :=
  cbn in *;
  repeat match goal with
         | H : (_ || _) = true |- _ => apply orb_prop in H; destruct H
         | H : (_ =? _) = true |- _ => apply Z.eqb_eq in H; subst
         | H : false = true |- _ => discriminate H
         end; cbn in *; try discriminate; try lia.

(* ------------------------------------------------------------------------------------------------ table facts *)
Lemma chr_in_cases c s : chr_in c s = true -> In c (list_ascii_of_string s).
Proof.
  unfold chr_in. rewrite existsb_exists. intros [x [Hx E]]. apply Ascii.eqb_eq in E. subst. exact Hx.
Qed.

(* every bond character of _tokenize has an entry in replace_dict *)
Lemma bond_chars_replace c : chr_in c bond_chars = true -> exists o, sget replace_dict (str1 c) = Some o.
Proof.
  intros H. apply chr_in_cases in H. cbn in H.
  repeat (destruct H as [<- | H]; [eexists; vm_compute; reflexivity|]). contradiction.
Qed.

Lemma cb_chars_spec c : chr_in c cb_chars = true -> c = "C"%char \/ c = "B"%char.
Proof.
  intros H. apply chr_in_cases in H. cbn in H.
  repeat (destruct H as [<- | H]; [first [left; reflexivity | right; reflexivity]|]). contradiction.
Qed.

(* QueryBond(tokens.pop(-1)[1], ...) after the check `tokens[-1][0] in (1, 10)`: never a TypeError *)
Lemma qb_good ty p b : rawwfb (ty, p) = true -> zmem ty [1; 10] = true ->
  match query_bond p b with Ok q => rawwfb (12, q) = true | Err e => vee e = true end.
Proof.
  destruct p; cbn [rawwfb query_bond snd fst]; intros H1 H2; try (exfalso; zcontra; fail).
  - destruct (valid_order z); reflexivity.
  - destruct (forallb valid_order l); reflexivity.
Qed.

(* ------------------------------------------------------------------------------------------------ the invariant *)
(* the (token_type, token) pairs that occur, with the token list (reversed) *)
Inductive TI : tstate -> Prop :=
| TI_none toks : W toks -> TI (mkT None PdNone toks)
| TI_bond o toks : W toks -> TI (mkT (Some 1) PdNone ((1, PInt o) :: toks))
| TI_plain k toks : In k [0; 2; 3; 4; 6; 8; 9] -> W toks -> TI (mkT (Some k) PdNone toks)
| TI_cb s toks : s = "C"%string \/ s = "B"%string -> W toks -> TI (mkT (Some 0) (PdStr s) toks)
| TI_br l toks : W toks -> TI (mkT (Some 5) (PdChars l) toks)
| TI_pc0 toks : W toks -> TI (mkT (Some 7) (PdChars []) toks)
| TI_pc1 d toks : W toks -> TI (mkT (Some 7) (PdChars [d]) toks)
| TI_or l toks : l <> [] -> W toks -> TI (mkT (Some 10) (PdOrders l) toks)
| TI_not toks : W toks -> TI (mkT (Some 11) PdNone toks)
| TI_ring toks : W toks -> TI (mkT (Some 12) PdNone toks)
| TI_nring toks : W toks -> TI (mkT (Some 12) PdTrue toks).

(* "the loop has consumed something that will show in the result (or make the end fail)" *)
Definition neb (st : tstate) : bool :=
  tt_is st 5 || tt_is st 7 || tt_is st 11 || tt_is st 12 || truthy (t_pend st) || match t_toks st with [] => false | _ => true end.

Definition Good (r : pyres tstate) : Prop :=
  match r with Ok st' => TI st' /\ neb st' = true | Err e => vee e = true end.

Ltac wsolve :=
  unfold W in *; cbn in *;
  repeat match goal with
         | H : _ && _ = true |- _ => apply andb_prop in H; destruct H
         end;
  repeat match goal with H : forallb rawwfb _ = true |- _ => rewrite H end;
  repeat match goal with H : rawwfb _ = true |- _ => rewrite H end; reflexivity.
Ltac insolve := cbn; solve [repeat (first [left; reflexivity | right])].
Ltac tisolve :=
  first [ apply TI_none; wsolve
        | apply TI_bond; wsolve
        | apply TI_plain; [insolve | wsolve]
        | apply TI_cb; [first [left; reflexivity | right; reflexivity] | wsolve]
        | apply TI_br; wsolve | apply TI_pc0; wsolve | apply TI_pc1; wsolve
        | apply TI_or; [first [discriminate | intros HH; apply app_eq_nil in HH; destruct HH; discriminate] | wsolve]
        | apply TI_not; wsolve | apply TI_ring; wsolve | apply TI_nring; wsolve ].
Ltac leaf :=
  lazymatch goal with
  | |- Good (Ok _) => split; [tisolve | cbn; reflexivity]
  | |- Good (Err _) => reflexivity
  end.
Ltac go :=
  repeat lazymatch goal with
  | |- Good (if true then ?x else _) => change (Good x)
  | |- Good (if false then _ else ?y) => change (Good y)
  | |- Good (if negb (zmem ?a ?l) then _ else _) =>
      tryif is_var a then (let E := fresh "E" in destruct (zmem a l) eqn:E; cbn [negb])
      else (let v := eval vm_compute in (zmem a l) in change (zmem a l) with v; cbn [negb])
  | |- Good (if zmem ?a ?l then _ else _) =>
      tryif is_var a then (let E := fresh "E" in destruct (zmem a l) eqn:E)
      else (let v := eval vm_compute in (zmem a l) in change (zmem a l) with v)
  | |- Good (if ?b then _ else _) => let E := fresh "E" in destruct b eqn:E
  | |- Good (match py_int ?l with Ok _ => _ | Err _ => _ end) =>
      let E := fresh "E" in destruct (py_int l) eqn:E; [| apply py_int_err in E; subst]
  | |- Good (match sget replace_dict (str1 ?c) with Some _ => _ | None => _ end) =>
      lazymatch goal with
      | H : chr_in c bond_chars = true |- _ =>
          let o := fresh "o" in let Ho := fresh "Ho" in destruct (bond_chars_replace c H) as [o Ho]; rewrite Ho
      end
  | |- Good (match sget not_dict ?k with Some _ => _ | None => _ end) => destruct (sget not_dict k)
  end.
Ltac cbfix :=
  try (match goal with H : chr_in _ cb_chars = true |- _ => apply cb_chars_spec in H; destruct H; subst; leaf end).
Ltac run := unfold tok_step, ISm, ISa; cbn -[is_digit chr_in Ascii.eqb py_int sget zmem query_bond]; go; try leaf; cbfix.

(* the '@' that finishes a ring-bond mark *)
Lemma ring_finish toks pd c :
  W toks -> pd = PdNone \/ pd = PdTrue -> Good (tok_step (mkT (Some 12) pd toks) c).
Proof.
  intros HW Hpd. destruct Hpd; subst pd; run.
  all: destruct toks as [|[ty p] r]; go; try leaf.
  all: unfold W in HW; cbn [forallb] in HW; apply andb_prop in HW; destruct HW as [H1 H2];
       match goal with
       | E : zmem ?ty [1; 10] = true, H1 : rawwfb (?ty, ?p) = true |- Good (match query_bond ?p ?b with _ => _ end) =>
         pose proof (qb_good ty p b H1 E) as Q; destruct (query_bond p b) as [q|e]
       end;
       [split; [apply TI_none; unfold W; cbn [forallb]; rewrite Q, H2; reflexivity | reflexivity] | exact Q].
Qed.

Lemma tok_step_good st c : TI st -> Good (tok_step st c).
Proof.
  intros HTI.
  destruct HTI as [toks HW | o toks HW | k toks Hk HW | s toks Hsx HW | l toks HW | toks HW | d toks HW | l toks Hl HW
                  | toks HW | toks HW | toks HW].
  - run.
  - run.
  - cbn in Hk. repeat (destruct Hk as [<- | Hk]); try contradiction; run.
  - destruct Hsx; subst s; run.
  - run. all: destruct l; go; try leaf.
  - run.
  - run.
  - run.
  - run.
  - apply ring_finish; [exact HW | left; reflexivity].
  - apply ring_finish; [exact HW | right; reflexivity].
Qed.

(* ------------------------------------------------------------------------------------------------ the loop and the end *)
Lemma tok_loop_good l : forall st, TI st -> (l <> [] \/ neb st = true) ->
  match tok_loop tok_step st l with Ok st' => TI st' /\ neb st' = true | Err e => vee e = true end.
Proof.
  induction l as [|c r IH]; intros st HT HN; cbn [tok_loop].
  - split; [exact HT|]. destruct HN as [HN|HN]; [contradiction|exact HN].
  - pose proof (tok_step_good st c HT) as G. destruct (tok_step st c) as [st'|e]; [|exact G].
    destruct G as [G1 G2]. apply IH; [exact G1 | right; exact G2].
Qed.

Lemma forallb_rev {A} (f : A -> bool) l : forallb f l = true -> forallb f (rev l) = true.
Proof.
  intros H. rewrite forallb_forall in *. intros x Hx. apply H. apply in_rev. exact Hx.
Qed.

Definition nonnil {A} (l : list A) : Prop := l <> [].

Lemma rev_nonnil {A} (x : A) l : rev (x :: l) <> [].
Proof. cbn. intros H. apply app_eq_nil in H. destruct H; discriminate. Qed.

Lemma tok_finish_good st : TI st -> neb st = true ->
  match tok_finish st with Ok l => forallb rawwfb l = true /\ l <> [] | Err e => vee e = true end.
Proof.
  intros HT HN.
  destruct HT as [toks HW | o toks HW | k toks Hk HW | s toks Hsx HW | l toks HW | toks HW | d toks HW | l toks Hl HW
                  | toks HW | toks HW | toks HW]; unfold tok_finish, ISm, ISa.
  - cbn in *. destruct toks; [discriminate|]. split; [apply (forallb_rev rawwfb (t :: toks)); exact HW | apply rev_nonnil].
  - cbn -[rev]. split; [apply (forallb_rev rawwfb ((1, PInt o) :: toks)); unfold W in HW; cbn; rewrite HW; reflexivity | apply rev_nonnil].
  - cbn in Hk. repeat (destruct Hk as [<- | Hk]); try contradiction; cbn -[rev] in *;
      (destruct toks; [discriminate|]; split; [apply (forallb_rev rawwfb (t :: toks)); exact HW | apply rev_nonnil]).
  - destruct Hsx; subst s; cbn -[rev];
      (split; [apply (forallb_rev rawwfb (_ :: toks)); unfold W in HW; cbn; rewrite HW; reflexivity | apply rev_nonnil]).
  - reflexivity.
  - reflexivity.
  - cbn -[rev py_int]. destruct (py_int [d]) eqn:E; [|apply py_int_err in E; subst; reflexivity].
    split; [apply (forallb_rev rawwfb (_ :: toks)); unfold W in HW; cbn; rewrite HW; reflexivity | apply rev_nonnil].
  - cbn -[rev]. destruct l as [|x l]; [contradiction|]. cbn -[rev].
    split; [apply (forallb_rev rawwfb (_ :: toks)); unfold W in HW; cbn; rewrite HW; reflexivity | apply rev_nonnil].
  - reflexivity.
  - reflexivity.
  - reflexivity.
Qed.

Lemma TI_init : TI t_init.
Proof. apply TI_none. reflexivity. Qed.

(* _tokenize: total; the tokens have the documented shapes; a non-empty text gives at least one token *)
Theorem tokenize_raw_good s :
  match tokenize_raw s with
  | Ok l => forallb rawwfb l = true /\ (s <> ""%string -> l <> [])
  | Err e => vee e = true
  end.
Proof.
  unfold tokenize_raw, tokenize_raw_with.
  destruct s as [|c s'].
  - cbn. split; [reflexivity | intros H; contradiction].
  - pose proof (tok_loop_good (list_ascii_of_string (String c s')) t_init TI_init) as G.
    assert (HN : list_ascii_of_string (String c s') <> [] \/ neb t_init = true) by (left; cbn; discriminate).
    specialize (G HN). destruct (tok_loop tok_step t_init _) as [st|e]; [|exact G].
    destruct G as [G1 G2]. pose proof (tok_finish_good st G1 G2) as F.
    destruct (tok_finish st) as [l|e]; [|exact F]. destruct F as [F1 F2]. split; [exact F1 | intros _; exact F2].
Qed.

(* ------------------------------------------------------------------------------------------------ _atom_parse, smiles_tokenize *)
Lemma opt_bind_res_err {A B} (o : option A) (f : A -> pyres B) e :
  (forall a e', f a = Err e' -> vee e' = true) -> opt_bind_res o f = Err e -> vee e = true.
Proof.
  intros Hf. destruct o as [a|]; cbn; [|discriminate].
  destruct (f a) eqn:E; [discriminate|]. intros H. inversion H; subst. exact (Hf a e E).
Qed.

Lemma py_int_vee a e : py_int a = Err e -> vee e = true.
Proof. intros H. apply py_int_err in H. subst. reflexivity. Qed.

Lemma atom_parse_good s :
  match atom_parse s with Ok t => swfb t = true | Err e => vee e = true end.
Proof.
  unfold atom_parse, ISm.
  destruct (atom_re_match _) as [g|]; [|reflexivity].
  destruct (opt_bind_res (g_iso g) py_int) as [iso|e] eqn:E1.
  2:{ apply (opt_bind_res_err _ _ _ py_int_vee E1). }
  assert (HH : forall (r : pyres Z) (k : Z -> pyres token),
             (forall e, r = Err e -> vee e = true) ->
             (forall v, match k v with Ok t => swfb t = true | Err e => vee e = true end) ->
             match (match r with Err e => Err e | Ok v => k v end) with Ok t => swfb t = true | Err e => vee e = true end).
  { intros r k H1 H2. destruct r as [v|e]; [apply H2 | apply H1; reflexivity]. }
  apply HH.
  { intros e. destruct (g_h g) as [[|a [|b t]]|]; try discriminate.
    intros H. apply py_int_err in H. subst. reflexivity. }
  intros hyd. apply HH.
  { intros e. destruct (g_chg g) as [c|]; [|discriminate]. destruct (sget charge_dict _); [discriminate|].
    intros H. inversion H. reflexivity. }
  intros chg.
  destruct (opt_bind_res (g_map g) _) as [mp|e] eqn:E2.
  2:{ refine (opt_bind_res_err _ _ _ _ E2). intros a e'. unfold ISm. destruct (py_int (tl a)); [discriminate|].
      intros H. inversion H. reflexivity. }
  destruct (smem _ aromatic_elements); reflexivity.
Qed.

Lemma post_tokens_good l : forallb rawwfb l = true ->
  match post_tokens l with Ok l' => forallb swfb l' = true /\ List.length l' = List.length l | Err e => vee e = true end.
Proof.
  induction l as [|[ty p] r IH]; intros HW.
  - cbn. split; reflexivity.
  - cbn [forallb] in HW. apply andb_prop in HW. destruct HW as [H1 H2]. specialize (IH H2).
    cbn [post_tokens].
    assert (K : forall t, swfb t = true ->
                match (match post_tokens r with Ok r' => Ok (t :: r') | Err e => Err e end) with
                | Ok l' => forallb swfb l' = true /\ List.length l' = S (List.length r) | Err e => vee e = true end).
    { intros t Ht. destruct (post_tokens r) as [r'|e]; [|exact IH]. destruct IH as [I1 I2].
      split; [cbn; rewrite Ht, I1; reflexivity | cbn; rewrite I2; reflexivity]. }
    cbn [List.length].
    destruct p; cbn [rawwfb snd fst] in H1.
    + (* PNone *) assert (E1 : zmem ty [0; 8] = false) by (destruct (zmem ty [0; 8]) eqn:E; [exfalso; zcontra | reflexivity]).
      assert (E2 : (ty =? 5) = false) by (destruct (ty =? 5) eqn:E; [exfalso; zcontra | reflexivity]).
      assert (E3 : zmem ty [10; 12] = false) by (destruct (zmem ty [10; 12]) eqn:E; [exfalso; zcontra | reflexivity]).
      rewrite E1, E2, E3. apply K. exact H1.
    + (* PStr *) destruct (zmem ty [0; 8]) eqn:E1.
      * apply K. cbn. exact E1.
      * assert (E2 : (ty =? 5) = true) by (destruct (ty =? 5) eqn:E; [reflexivity | exfalso; zcontra]).
        rewrite E2. pose proof (atom_parse_good s) as A. destruct (atom_parse s) as [t|e]; [apply K; exact A | exact A].
    + (* PInt *) assert (E1 : zmem ty [0; 8] = false) by (destruct (zmem ty [0; 8]) eqn:E; [exfalso; zcontra | reflexivity]).
      assert (E2 : (ty =? 5) = false) by (destruct (ty =? 5) eqn:E; [exfalso; zcontra | reflexivity]).
      assert (E3 : zmem ty [10; 12] = false) by (destruct (zmem ty [10; 12]) eqn:E; [exfalso; zcontra | reflexivity]).
      rewrite E1, E2, E3. apply K. exact H1.
    + (* PBool *) assert (E1 : zmem ty [0; 8] = false) by (destruct (zmem ty [0; 8]) eqn:E; [exfalso; zcontra | reflexivity]).
      assert (E2 : (ty =? 5) = false) by (destruct (ty =? 5) eqn:E; [exfalso; zcontra | reflexivity]).
      assert (E3 : zmem ty [10; 12] = false) by (destruct (zmem ty [10; 12]) eqn:E; [exfalso; zcontra | reflexivity]).
      rewrite E1, E2, E3. apply K. exact H1.
    + (* PZs *) apply Z.eqb_eq in H1. subst ty. reflexivity.
    + (* PQB *) apply Z.eqb_eq in H1. subst ty. reflexivity.
    + discriminate.
    + discriminate.
Qed.

(* smiles_tokenize: total, tokens of the shapes the parser expects, never [] for a non-empty text *)
Theorem tokenize_good s :
  match tokenize s with
  | Ok l => forallb swfb l = true /\ (s <> ""%string -> l <> [])
  | Err e => vee e = true
  end.
Proof.
  unfold tokenize, tokenize_with. fold tokenize_raw.
  pose proof (tokenize_raw_good s) as R. destruct (tokenize_raw s) as [l|e]; [|exact R].
  destruct R as [R1 R2]. pose proof (post_tokens_good l R1) as P.
  destruct (post_tokens l) as [l'|e]; [|exact P]. destruct P as [P1 P2]. split; [exact P1|].
  intros Hs. specialize (R2 Hs). destruct l'; [|discriminate]. destruct l; [contradiction | discriminate].
Qed.

(* non-vacuity: a text using every token kind is accepted *)
Example tokenize_example :
  exists l, tokenize "[13CH3:7]C(=O)/C=C\c1ccc%10.Cl%10" = Ok l /\ List.length l = 20%nat.
Proof. eexists. split; vm_compute; reflexivity. Qed.

(* ------------------------------------------------------------------------------------------------ the tables of the language *)
(* The character classes and dictionaries of tokenize.py are regenerated from the source on every run (Gen.TokenTables);
   here they are compared, as sets / finite maps (source order is irrelevant), with what the SMILES language says. *)
Definition all_ascii : list ascii := map ascii_of_nat (seq 0 256).
Lemma all_ascii_complete c : In c all_ascii.
Proof.
  unfold all_ascii. rewrite <- (ascii_nat_embedding c). apply in_map. apply in_seq. pose proof (nat_ascii_bounded c). lia.
Qed.
Definition same_class (a b : string) : bool := forallb (fun c => Bool.eqb (chr_in c a) (chr_in c b)) all_ascii.
Lemma same_class_spec a b : same_class a b = true -> forall c, chr_in c a = chr_in c b.
Proof.
  unfold same_class. rewrite forallb_forall. intros H c. apply eqb_prop. apply H. apply all_ascii_complete.
Qed.

Theorem char_classes_pinned : forall c,
  chr_in c bond_chars = chr_in c "-=#:~" /\ chr_in c updown_chars = chr_in c "/\" /\ chr_in c organic_chars = chr_in c "NOPSFI" /\
  chr_in c aromatic_chars = chr_in c "cnopsb" /\ chr_in c cb_chars = chr_in c "CB".
Proof.
  intros c. repeat split; apply same_class_spec; vm_compute; reflexivity.
Qed.

(* two finite maps with string keys agree: no key is bound twice in the source, and every binding of one is a binding of the other *)
Definition sdict_eqv {V} (eqv : V -> V -> bool) (a b : list (string * V)) : bool :=
  nodup_s (map fst a) &&
  forallb (fun kv => match sget b (fst kv) with Some v => eqv (snd kv) v | None => false end) a &&
  forallb (fun kv => match sget a (fst kv) with Some v => eqv (snd kv) v | None => false end) b.

Definition spec_replace : list (string * Z) := [("-", 1); ("=", 2); ("#", 3); (":", 4); ("~", 8)]%string.
Definition spec_not : list (string * list Z) := [("-", [2; 3; 4]); ("=", [1; 3; 4]); ("#", [1; 2; 4]); (":", [1; 2; 3])]%string.
(* a charge is written as sign and digit 1-4, or as the sign repeated 1-4 times *)
Definition spec_charge : list (string * Z) :=
  [("+", 1); ("+1", 1); ("+2", 2); ("+3", 3); ("+4", 4); ("++", 2); ("+++", 3); ("++++", 4);
   ("-", -1); ("-1", -1); ("-2", -2); ("-3", -3); ("-4", -4); ("--", -2); ("---", -3); ("----", -4)]%string.
Definition spec_aromatic : list string := ["c"; "n"; "o"; "p"; "s"; "as"; "se"; "b"; "te"]%string.

Theorem dicts_pinned :
  sdict_eqv Z.eqb replace_dict spec_replace = true /\
  sdict_eqv (list_eqb Z.eqb) not_dict spec_not = true /\
  sdict_eqv Z.eqb charge_dict spec_charge = true /\
  forallb (fun x => smem x spec_aromatic) aromatic_elements && forallb (fun x => smem x aromatic_elements) spec_aromatic = true.
Proof. repeat split; vm_compute; reflexivity. Qed.

