(* C09 -- the descend block of the .pyx loop (dead-end unmarking, marking and appending the popped atom, front, the load of the next
   query atom, the branch back), regenerated statement by statement from chython/algorithms/_isomorphism.pyx by
   tools/gen_isodescend.py on every run (Gen.IsoDescend.g_descend), refines the corresponding step of pyx_dfs (Model.IsoBitsPyx):
   on a C state that represents the model state - the model's path = the first path_size cells of the path array - it computes the
   model's matched flags (unmark + mark), a path array whose first depth + 1 cells are the model's new path, path_size = depth + 1 and
   the same atom to scan.  An edit of those source lines changes coq/gen/IsoDescend.v and breaks the theorem. *)
From Coq Require Import ZArith List Bool Lia.
From Model Require Import PyBase IsoBits IsoBitsPyx.
From Gen Require Import IsoDescend.
From Proofs Require Import IsoBitsPyxProofs IsoCandTie.
Import ListNotations.
Open Scope Z_scope.

Lemma znth_of_nat {A} (l : list A) k d : znth l (Z.of_nat k) d = nth k l d.
Proof. unfold znth. destruct (Z.of_nat k <? 0) eqn:E; [apply Z.ltb_lt in E; lia|]. rewrite Nat2Z.id. reflexivity. Qed.

(* range(d, d + k) read through the array = the k cells from d on *)
Lemma map_zrange_from (parr : list Z) : forall k d, (d + k <= List.length parr)%nat ->
  map (fun i => aget parr i 0) (zrange_from (Z.of_nat d) k) = firstn k (skipn d parr).
Proof.
  induction k as [|k IH]; intros d H; [reflexivity|].
  cbn [zrange_from map]. replace (Z.of_nat d + 1) with (Z.of_nat (S d)) by lia. rewrite IH by lia.
  unfold aget. rewrite znth_of_nat.
  assert (Hd : (d < List.length parr)%nat) by lia.
  clear IH H. revert d Hd. induction parr as [|x r IHr]; intros d Hd; [cbn in Hd; lia|].
  destruct d as [|d]; [reflexivity|]. cbn [nth skipn]. apply IHr. cbn in Hd. lia.
Qed.

Lemma fold_left_map {A B C} (f : A -> B -> A) (g : C -> B) l : forall a, fold_left f (map g l) a = fold_left (fun a x => f a (g x)) l a.
Proof. induction l as [|x l IH]; intros a; cbn [map fold_left]; [reflexivity|]. apply IH. Qed.

Lemma firstn_S_aset_nat {A} (v : A) : forall l d, (d < List.length l)%nat -> firstn (S d) (aset_nat l d v) = firstn d l ++ [v].
Proof.
  induction l as [|x r IH]; intros d H; [cbn in H; lia|].
  destruct d as [|d]; [reflexivity|]. cbn [aset_nat]. change (firstn (S (S d)) (x :: aset_nat r d v)) with (x :: firstn (S d) (aset_nat r d v)).
  rewrite IH by (cbn in H; lia). reflexivity.
Qed.

Lemma nth_firstn_lt {A} (d : A) : forall l k i, (i < k)%nat -> nth i (firstn k l) d = nth i l d.
Proof.
  induction l as [|x r IH]; intros k i H; [rewrite firstn_nil; reflexivity|].
  destruct k as [|k]; [lia|]. destruct i as [|i]; [reflexivity|]. cbn [firstn nth]. apply IH. lia.
Qed.

Theorem g_descend_refines qu matched parr path depth n :
  firstn (List.length path) parr = path -> (depth <= List.length path)%nat -> (depth < List.length parr)%nat ->
  let qa := q_atom qu (Z.of_nat (S depth)) in
  0 <= qa_back qa <= Z.of_nat depth ->
  let path' := firstn depth path ++ [n] in
  exists parr',
    g_descend qu matched parr (Z.of_nat (List.length path)) (Z.of_nat depth) n =
      (aset (unmark matched path depth) n true, parr', Z.of_nat (S depth),
       if negb (qa_back qa =? Z.of_nat depth) then znth path' (qa_back qa) 0 else n) /\
    firstn (S depth) parr' = path' /\ List.length parr' = List.length parr.
Proof.
  intros Hp Hd Hc qa Hb path'.
  assert (HL : (List.length path <= List.length parr)%nat).
  { rewrite <- Hp at 1. rewrite firstn_length. lia. }
  assert (HP' : firstn (S depth) (aset_nat parr depth n) = path').
  { rewrite firstn_S_aset_nat by exact Hc. unfold path'. f_equal. rewrite <- Hp. rewrite firstn_firstn. f_equal. lia. }
  assert (HA : aset parr (Z.of_nat depth) n = aset_nat parr depth n).
  { unfold aset. destruct (Z.of_nat depth <? 0) eqn:E; [apply Z.ltb_lt in E; lia|]. rewrite Nat2Z.id. reflexivity. }
  assert (HB : aget (aset_nat parr depth n) (qa_back qa) 0 = znth path' (qa_back qa) 0).
  { unfold aget. rewrite <- HP'. replace (qa_back qa) with (Z.of_nat (Z.to_nat (qa_back qa))) by lia.
    rewrite !znth_of_nat. symmetry. apply nth_firstn_lt. lia. }
  exists (aset_nat parr depth n). split; [|split; [exact HP'|apply aset_nat_length]].
  unfold g_descend. fold qa.
  replace (Z.of_nat depth + 1) with (Z.of_nat (S depth)) by lia. fold qa.
  destruct (Z.of_nat (List.length path) =? Z.of_nat depth) eqn:E; cbn [negb].
  - apply Z.eqb_eq in E. apply Nat2Z.inj in E.
    assert (HU : unmark matched path depth = matched) by (unfold unmark; rewrite <- E, skipn_all; reflexivity).
    rewrite HU, E, HA. destruct (negb (qa_back qa =? Z.of_nat depth)); [rewrite HB|]; f_equal; f_equal; lia.
  - assert (HS : skipn depth path = map (fun i => aget parr i 0) (zrange (Z.of_nat depth) (Z.of_nat (List.length path)))).
    { unfold zrange. replace (Z.to_nat (Z.of_nat (List.length path) - Z.of_nat depth)) with (List.length path - depth)%nat by lia.
      rewrite map_zrange_from by lia. rewrite <- Hp at 1. rewrite firstn_skipn_comm. f_equal. f_equal. lia. }
    match goal with |- context [fold_left ?f ?l (matched, parr, ?ps, n)] =>
      pose proof (fold_left_rel (fun (st : list bool * list Z * Z * Z) (mt : list bool) => st = (mt, parr, ps, n)) f
                                (fun mt i => aset mt (aget parr i 0) false) l) as HF
    end.
    cbv beta in HF. rewrite (HF ltac:(intros [[[m p] s] k] mt a H; inversion H; subst; reflexivity) _ matched eq_refl). clear HF.
    rewrite <- (fold_left_map (fun mt x => aset mt x false) (fun i => aget parr i 0)), <- HS. fold (unmark matched path depth).
    rewrite HA. destruct (negb (qa_back qa =? Z.of_nat depth)); [rewrite HB|]; f_equal; f_equal; lia.
Qed.

(* non-vacuity: a dead end - path [4; 2; 7] of size 3, popped (9, depth 1): atoms 2 and 7 are unmarked, 9 marked and stored in
   cell 1; the next query atom branches back to depth 0, so the records of atom 4 are scanned *)
Example g_descend_example :
  let qu := mkQueryT [mkQA b4zero 0 0 0 0 1; mkQA b4zero 0 0 0 0 2; mkQA b4zero 0 0 0 0 3; mkQA b4zero 2 0 0 0 4] [] in
  g_descend qu [false; false; true; false; true; false; false; true; false; false] [4; 2; 7] 3 1 9 =
    ([false; false; false; false; true; false; false; false; false; true], [4; 9; 7], 2, 4) /\
  g_descend qu [false; false; false; false; true; false; false; false; false; false] [4; 2; 7] 1 1 9 =
    ([false; false; false; false; true; false; false; false; false; true], [4; 9; 7], 2, 4).
Proof. vm_compute. split; reflexivity. Qed.
