(* C15 -- tie by translation: the body of ReactionContainer.compose (= ~reaction) as regenerated from the SOURCE by
   tools/gen_rxncompose.py (Gen.RxnComposeGen), running the TRANSLATED MoleculeContainer.compose (Gen.ComposeGen) on the two
   unions, is the hand-written model rxn_compose_ord. *)
From Coq Require Import ZArith List Bool Lia Permutation.
From Model Require Import PyBase Graph Compose.
From Gen Require Import ComposeGen RxnComposeGen.
From Proofs Require Import ComposeProofs RxnComposeProofs ComposeGenTie.
Import ListNotations.
Open Scope Z_scope.

Lemma side_union l :
  bind (if mols_truthy l then bind (py_reduce union_remap l) (fun t => Ok t) else Ok empty_mol) (fun x => Ok x) = Ok (union_all l).
Proof. destruct l as [|x l]; reflexivity. Qed.

(* the unions are those of the model (for ALL reactions, mapped or not; Graph.union itself is the hand-written union_remap) *)
Theorem g_rxn_compose_unfold oc o1 o2 rs gs ps :
  g_rxn_compose_ord oc o1 o2 rs gs ps = g_compose_ord oc o1 o2 (union_all (gs ++ rs)) (union_all ps).
Proof. unfold g_rxn_compose_ord. destruct (gs ++ rs) as [|x l]; destruct ps as [|y q]; reflexivity. Qed.

(* ~reaction as translated (ReactionContainer.compose AND MoleculeContainer.compose from the source) = the model, for every
   reaction whose two sides are well formed after the unions, in particular for every mapped reaction *)
Theorem g_rxn_compose_eq rs gs ps o1 o2 o3 :
  wf_mol (union_all (gs ++ rs)) = true -> wf_mol (union_all ps) = true ->
  orders_ok (union_all (gs ++ rs)) (union_all ps) o1 o2 o3 ->
  g_rxn_compose_ord o3 o1 o2 rs gs ps = rxn_compose_ord o1 o2 o3 rs gs ps.
Proof. intros Wl Wr Ho. rewrite g_rxn_compose_unfold. unfold rxn_compose_ord. apply g_compose_ord_eq; assumption. Qed.

Theorem g_rxn_compose_mapped rs gs ps o1 o2 o3 : mapped_reaction rs gs ps ->
  orders_ok (left_side rs gs) (right_side ps) o1 o2 o3 ->
  g_rxn_compose_ord o3 o1 o2 rs gs ps = compose_ord o1 o2 o3 (left_side rs gs) (right_side ps).
Proof.
  intros M Ho. destruct (rxn_compose_is_compose rs gs ps o1 o2 o3 M) as [E [Wl Wr]]. rewrite <- E.
  pose proof M as M'. destruct M' as [W1 [W2 [D1 D2]]].
  destruct (union_all_disjoint (gs ++ rs) W1 D1) as [U1 _]. destruct (union_all_disjoint ps W2 D2) as [U2 _].
  apply g_rxn_compose_eq; unfold left_side, right_side in *; rewrite ?U1, ?U2; assumption.
Qed.
