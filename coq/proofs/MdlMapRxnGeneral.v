(* C11: postprocess_parsed_reaction on ANY record (ignore=True, remap=False: the readers' defaults).  It never raises, and what it
   returns is described exactly by two small relations:
     rn c seen file out c'   one role, left to right with the counter c: a non-zero number not seen before in the role is kept (and
                             becomes seen), every other atom takes the counter, which then advances
     rs core c g g' c'       the agents afterwards: a number that also occurs among the final reactant / product numbers is replaced by
                             the counter
   Consequences proved from them: every number of the record is below the first fresh number, so fresh numbers never take a number of
   the record away; numbers are distinct inside every role; the agents share no number with reactants / products. *)
From Coq Require Import ZArith List String Ascii Bool Lia.
From Model Require Import PyBase Mdl MdlMap MdlMapRxn.
From Proofs Require Import MdlMapProofs.
Import ListNotations.
Open Scope Z_scope.
Local Notation length := List.length.
Local Notation concat := List.concat.

Inductive rn : Z -> list Z -> list Z -> list Z -> Z -> Prop :=
| rn_nil c seen : rn c seen [] [] c
| rn_keep c c' seen x f g : x <> 0 -> ~ In x seen -> rn c (x :: seen) f g c' -> rn c seen (x :: f) (x :: g) c'
| rn_fresh c c' seen x f g : (x = 0 \/ In x seen) -> rn (c + 1) seen f g c' -> rn c seen (x :: f) (c :: g) c'.

Inductive rs (core : list Z) : Z -> list Z -> list Z -> Z -> Prop :=
| rs_nil c : rs core c [] [] c
| rs_keep c c' x g g' : ~ In x core -> rs core c g g' c' -> rs core c (x :: g) (x :: g') c'
| rs_repl c c' x g g' : In x core -> rs core (c + 1) g g' c' -> rs core c (x :: g) (c :: g') c'.

(* ---- properties of rn ---- *)
Lemma rn_le c s f g c' : rn c s f g c' -> c <= c'.
Proof. induction 1; lia. Qed.
Lemma rn_len c s f g c' : rn c s f g c' -> length g = length f.
Proof. induction 1; cbn [length]; congruence. Qed.
Lemma rn_in c s f g c' : rn c s f g c' -> forall y, In y g -> (In y f /\ y <> 0 /\ ~ In y s) \/ (c <= y < c').
Proof.
  induction 1 as [c seen | c c' seen x f g Hnz Hs Hr IH | c c' seen x f g Hx Hr IH]; intros y Hy; cbn [In] in Hy.
  - contradiction.
  - destruct Hy as [E | Hy]; [subst y; left; split; [left; reflexivity | split; assumption]|].
    destruct (IH y Hy) as [[A [B C]] | D]; [left; split; [right; exact A | split; [exact B | intros Hin; apply C; right; exact Hin]] | right; exact D].
  - pose proof (rn_le _ _ _ _ _ Hr) as Hle.
    destruct Hy as [E | Hy]; [subst y; right; lia|].
    destruct (IH y Hy) as [[A [B C]] | D]; [left; split; [right; exact A | split; assumption] | right; lia].
Qed.
Lemma rn_nodup c s f g c' : rn c s f g c' -> (forall x, In x f -> x < c) -> NoDup g.
Proof.
  induction 1 as [c seen | c c' seen x f g Hnz Hs Hr IH | c c' seen x f g Hx Hr IH]; intros Hb.
  - constructor.
  - constructor; [| apply IH; intros y Hy; apply Hb; right; exact Hy].
    intros Hin. destruct (rn_in _ _ _ _ _ Hr x Hin) as [[_ [_ C]] | D]; [apply C; left; reflexivity|].
    pose proof (Hb x (or_introl eq_refl)). lia.
  - constructor; [| apply IH; intros y Hy; pose proof (Hb y (or_intror Hy)); lia].
    intros Hin. destruct (rn_in _ _ _ _ _ Hr c Hin) as [[A _] | D]; [pose proof (Hb c (or_intror A)); lia | lia].
Qed.
Lemma rn_keeps c s f g c' : rn c s f g c' -> forall x, In x f -> x <> 0 -> ~ In x s -> In x g.
Proof.
  induction 1 as [c seen | c c' seen x f g Hnz Hs Hr IH | c c' seen x f g Hx Hr IH]; intros y Hy Hyz Hys.
  - contradiction.
  - destruct (Z.eq_dec y x) as [E | Hne]; [subst y; left; reflexivity|].
    destruct Hy as [E | Hy]; [congruence|]. right. apply IH; [exact Hy | exact Hyz |]. intros [E | Hin]; [congruence | contradiction].
  - destruct Hy as [E | Hy]; [subst y; destruct Hx; [congruence | contradiction]|]. right. apply IH; assumption.
Qed.
Lemma rn_bound c s f g c' : rn c s f g c' -> (forall x, In x f -> x < c) -> forall y, In y g -> y < c'.
Proof.
  intros Hr Hb y Hy. pose proof (rn_le _ _ _ _ _ Hr). destruct (rn_in _ _ _ _ _ Hr y Hy) as [[A _] | D]; [pose proof (Hb y A); lia | lia].
Qed.

(* ---- properties of rs ---- *)
Lemma rs_le core c g g' c' : rs core c g g' c' -> c <= c'.
Proof. induction 1; lia. Qed.
Lemma rs_len core c g g' c' : rs core c g g' c' -> length g' = length g.
Proof. induction 1; cbn [length]; congruence. Qed.
Lemma rs_in core c g g' c' : rs core c g g' c' -> forall y, In y g' -> (In y g /\ ~ In y core) \/ (c <= y < c').
Proof.
  induction 1 as [c | c c' x g g' Hx Hr IH | c c' x g g' Hx Hr IH]; intros y Hy; cbn [In] in Hy.
  - contradiction.
  - destruct Hy as [E | Hy]; [subst y; left; split; [left; reflexivity | exact Hx]|].
    destruct (IH y Hy) as [[A B] | D]; [left; split; [right; exact A | exact B] | right; exact D].
  - pose proof (rs_le _ _ _ _ _ Hr). destruct Hy as [E | Hy]; [subst y; right; lia|].
    destruct (IH y Hy) as [[A B] | D]; [left; split; [right; exact A | exact B] | right; lia].
Qed.
Lemma rs_nodup core c g g' c' : rs core c g g' c' -> NoDup g -> (forall x, In x g -> x < c) -> NoDup g'.
Proof.
  induction 1 as [c | c c' x g g' Hx Hr IH | c c' x g g' Hx Hr IH]; intros Hnd Hb.
  - constructor.
  - inversion Hnd as [| ? ? Hnx Hnd']; subst. constructor; [| apply IH; [exact Hnd' | intros y Hy; apply Hb; right; exact Hy]].
    intros Hin. destruct (rs_in _ _ _ _ _ Hr x Hin) as [[A _] | D]; [contradiction | pose proof (Hb x (or_introl eq_refl)); lia].
  - inversion Hnd as [| ? ? Hnx Hnd']; subst. constructor; [| apply IH; [exact Hnd' | intros y Hy; pose proof (Hb y (or_intror Hy)); lia]].
    intros Hin. destruct (rs_in _ _ _ _ _ Hr c Hin) as [[A _] | D]; [pose proof (Hb c (or_intror A)); lia | lia].
Qed.
Lemma rs_id core c g : (forall x, In x g -> ~ In x core) -> rs core c g g c.
Proof. induction g as [|x g IH]; intros H; [constructor|]. apply rs_keep; [apply H; left; reflexivity | apply IH; intros y Hy; apply H; right; exact Hy]. Qed.

(* ---- every number of the record is below the first fresh number ---- *)
Lemma fold_max_in l : forall v x, In x l -> x <= fold_left Z.max l v.
Proof.
  induction l as [|a l IH]; intros v x Hx; [contradiction|]. cbn [fold_left]. destruct Hx as [E | Hx]; [subst a | apply IH; exact Hx].
  pose proof (fold_max_ge l (Z.max v x)). lia.
Qed.
Lemma max_default0_in l x : In x l -> x <= max_default0 l.
Proof. destruct l as [|v r]; [contradiction|]. cbn [max_default0]. intros [E | Hx]; [subst x; apply fold_max_ge | apply fold_max_in; exact Hx]. Qed.
Lemma ppr_start_above a p g x : In x (a ++ p ++ g) -> x < ppr_start a p g.
Proof.
  unfold ppr_start. rewrite !in_app_iff. intros [H | [H | H]]; apply max_default0_in in H; lia.
Qed.

(* ---- phase 1 with ignore=True: never raises; the flat list is the list of `parsed_mapping or 0` ---- *)
Lemma m1_fold_true ms : forall U O l, exists U' l', foldM (m1_step true) ms (mk_m1 U O l) = Ok (mk_m1 U' (O ++ map map_val ms) l').
Proof.
  induction ms as [|m ms IH]; intros U O l; [exists U, l; cbn; rewrite app_nil_r; reflexivity|].
  cbn [foldM map]. unfold m1_step at 1. cbn [m1_used m1_out m1_log].
  destruct (map_val m =? 0) eqn:E0.
  - apply Z.eqb_eq in E0. cbn [bind]. destruct (IH U (O ++ [0]) l) as (U' & l' & H). rewrite H. exists U', l'. rewrite E0, <- app_assoc. reflexivity.
  - destruct (zmem (map_val m) U); cbn [bind].
    + destruct (IH U (O ++ [map_val m]) (S l)) as (U' & l' & H). rewrite H. exists U', l'. rewrite <- app_assoc. reflexivity.
    + destruct (IH (map_val m :: U) (O ++ [map_val m]) l) as (U' & l' & H). rewrite H. exists U', l'. rewrite <- app_assoc. reflexivity.
Qed.
Lemma m1_molecule_true ms : exists n, m1_molecule true ms = Ok (map map_val ms, n).
Proof. unfold m1_molecule. destruct (m1_fold_true ms [] [] 0%nat) as (U' & l' & H). rewrite H. exists l'. reflexivity. Qed.
Lemma m1_role_true_acc mols : forall F L, exists L',
  foldM (fun acc ms => do r <- m1_molecule true ms; Ok (fst acc ++ fst r, snd acc ++ [snd r])) mols (F, L) = Ok (F ++ map map_val (concat mols), L').
Proof.
  induction mols as [|ms mols IH]; intros F L; [exists L; cbn; rewrite app_nil_r; reflexivity|].
  cbn [foldM]. destruct (m1_molecule_true ms) as (n & H). rewrite H. cbn [bind fst snd].
  destruct (IH (F ++ map map_val ms) (L ++ [n])) as (L' & H'). rewrite H'. exists L'. cbn [concat]. rewrite map_app, <- app_assoc. reflexivity.
Qed.
Lemma m1_role_true mols : exists L, m1_role true mols = Ok (map map_val (concat mols), L).
Proof. unfold m1_role. destruct (m1_role_true_acc mols [] []) as (L' & H). rewrite H. exists L'. reflexivity. Qed.

(* ---- phase 2 ---- *)
Lemma pp_fold_rn tmp : forall c U O l, exists c' U' g l',
  foldM (pp_step true) (map Some tmp) (mk_pp c U O l) = Ok (mk_pp c' U' (O ++ g) l') /\ rn c U tmp g c'.
Proof.
  induction tmp as [|x tmp IH]; intros c U O l.
  - exists c, U, [], l. cbn. rewrite app_nil_r. split; [reflexivity | constructor].
  - cbn [map foldM]. unfold pp_step at 1. cbn [map_val pp_next pp_used pp_out pp_log].
    destruct (x =? 0) eqn:E0.
    + cbn [bind]. destruct (IH (c + 1) U (O ++ [c]) l) as (c' & U' & g & l' & H & Hr). rewrite H.
      exists c', U', (c :: g), l'. split; [rewrite <- app_assoc; reflexivity|]. apply rn_fresh; [left; apply Z.eqb_eq; exact E0 | exact Hr].
    + destruct (zmem x U) eqn:Em; cbn [bind].
      * destruct (IH (c + 1) U (O ++ [c]) (S l)) as (c' & U' & g & l' & H & Hr). rewrite H.
        exists c', U', (c :: g), l'. split; [rewrite <- app_assoc; reflexivity|]. apply rn_fresh; [right; apply zmem_In; exact Em | exact Hr].
      * destruct (IH c (x :: U) (O ++ [x]) l) as (c' & U' & g & l' & H & Hr). rewrite H.
        exists c', U', (x :: g), l'. split; [rewrite <- app_assoc; reflexivity|].
        apply rn_keep; [apply Z.eqb_neq; exact E0 | intros Hin; apply zmem_In in Hin; congruence | exact Hr].
Qed.
Lemma ppr_role_rn c l tmp : exists g c' l', ppr_role true c l tmp = Ok (g, c', l') /\ rn c [] tmp g c'.
Proof.
  unfold ppr_role. destruct (pp_fold_rn tmp c [] [] l) as (c' & U' & g & l' & H & Hr). rewrite H. exists g, c', l'. split; [reflexivity | exact Hr].
Qed.

(* ---- phase 3 ---- *)
Lemma renumber_shared_rs core g : forall c, exists g' c', renumber_shared core c g = (g', c') /\ rs core c g g' c'.
Proof.
  induction g as [|x g IH]; intros c; [exists [], c; split; [reflexivity | constructor]|].
  cbn [renumber_shared]. destruct (zmem x core) eqn:E.
  - destruct (IH (c + 1)) as (g' & c' & H & Hr). rewrite H. exists (c :: g'), c'. split; [reflexivity|]. apply rs_repl; [apply zmem_In; exact E | exact Hr].
  - destruct (IH c) as (g' & c' & H & Hr). rewrite H. exists (x :: g'), c'. split; [reflexivity|].
    apply rs_keep; [intros Hin; apply zmem_In in Hin; congruence | exact Hr].
Qed.
Lemma ppr_reagents_rs rc pr rg c l : exists g' c' l', ppr_reagents true rc pr rg c l = Ok (g', c', l') /\ rs (rc ++ pr) c rg g' c'.
Proof.
  unfold ppr_reagents. destruct (existsb (fun x => zmem x rc || zmem x pr) rg) eqn:E.
  - destruct (renumber_shared_rs (rc ++ pr) rg c) as (g' & c' & H & Hr). rewrite H. exists g', c', (S l). split; [reflexivity | exact Hr].
  - exists rg, c, l. split; [reflexivity|]. apply rs_id. intros x Hx Hin.
    assert (Ht : existsb (fun x => zmem x rc || zmem x pr) rg = true); [| congruence].
    apply existsb_exists. exists x. split; [exact Hx|]. apply in_app_iff in Hin. apply orb_true_iff.
    destruct Hin as [Hin | Hin]; [left | right]; apply zmem_In; exact Hin.
Qed.

(* ---- the whole function ---- *)
Theorem pp_reaction_general R P G :
  let fR := map map_val (concat R) in let fP := map map_val (concat P) in let fG := map map_val (concat G) in
  exists rc pr rg0 rg c1 c2 c3 c4 lg ml,
    pp_reaction false true R P G
    = Ok (mk_pprr (split_sizes (map (@length _) R) rc) (split_sizes (map (@length _) P) pr) (split_sizes (map (@length _) G) rg) lg ml) /\
    rn (ppr_start fR fP fG) [] fR rc c1 /\ rn c1 [] fP pr c2 /\ rn c2 [] fG rg0 c3 /\ rs (rc ++ pr) c3 rg0 rg c4 /\
    (forall x, In x (fR ++ fP ++ fG) -> x < ppr_start fR fP fG) /\
    NoDup rc /\ NoDup pr /\ NoDup rg /\ (forall x, In x rg -> ~ In x (rc ++ pr)) /\
    length rc = length fR /\ length pr = length fP /\ length rg = length fG.
Proof.
  intros fR fP fG. unfold pp_reaction.
  destruct (m1_role_true R) as (LR & HR). destruct (m1_role_true P) as (LP & HP). destruct (m1_role_true G) as (LG & HG).
  rewrite HR, HP, HG. cbn [bind fst snd]. fold fR fP fG.
  set (start := ppr_start fR fP fG).
  destruct (ppr_role_rn start 0%nat fR) as (rc & c1 & l1 & E1 & R1). rewrite E1. cbn [bind].
  destruct (ppr_role_rn c1 l1 fP) as (pr & c2 & l2 & E2 & R2). rewrite E2. cbn [bind].
  destruct (ppr_role_rn c2 l2 fG) as (rg0 & c3 & l3 & E3 & R3). rewrite E3. cbn [bind].
  destruct (ppr_reagents_rs rc pr rg0 c3 l3) as (rg & c4 & l4 & E4 & R4). rewrite E4. cbn [bind shift_down fold_left].
  assert (Hab : forall x, In x (fR ++ fP ++ fG) -> x < start) by (intros x Hx; apply ppr_start_above; exact Hx).
  pose proof (rn_le _ _ _ _ _ R1) as L1. pose proof (rn_le _ _ _ _ _ R2) as L2. pose proof (rn_le _ _ _ _ _ R3) as L3.
  assert (BR : forall x, In x fR -> x < start) by (intros x Hx; apply Hab; rewrite !in_app_iff; tauto).
  assert (BP : forall x, In x fP -> x < c1) by (intros x Hx; assert (x < start) by (apply Hab; rewrite !in_app_iff; tauto); lia).
  assert (BG : forall x, In x fG -> x < c2) by (intros x Hx; assert (x < start) by (apply Hab; rewrite !in_app_iff; tauto); lia).
  exists rc, pr, rg0, rg, c1, c2, c3, c4, l4, (LR ++ LP ++ LG).
  repeat split; try assumption.
  - exact (rn_nodup _ _ _ _ _ R1 BR).
  - exact (rn_nodup _ _ _ _ _ R2 BP).
  - apply (rs_nodup _ _ _ _ _ R4); [exact (rn_nodup _ _ _ _ _ R3 BG) | exact (rn_bound _ _ _ _ _ R3 BG)].
  - intros x Hx Hin. destruct (rs_in _ _ _ _ _ R4 x Hx) as [[_ B] | D]; [contradiction|].
    apply in_app_iff in Hin. destruct Hin as [Hin | Hin].
    + pose proof (rn_bound _ _ _ _ _ R1 BR x Hin). lia.
    + pose proof (rn_bound _ _ _ _ _ R2 BP x Hin). lia.
  - exact (rn_len _ _ _ _ _ R1).
  - exact (rn_len _ _ _ _ _ R2).
  - rewrite (rs_len _ _ _ _ _ R4). exact (rn_len _ _ _ _ _ R3).
Qed.

(* user-level consequences: every non-zero number of the record is still in its role after reading (for an agent: when no reactant /
   product atom carries it), numbers are distinct inside each role, the agents share none with reactants / products *)
Lemma rs_keeps core c g g' c' : rs core c g g' c' -> forall x, In x g -> ~ In x core -> In x g'.
Proof.
  induction 1 as [c | c c' y g g' Hy Hr IH | c c' y g g' Hy Hr IH]; intros x Hx Hc.
  - contradiction.
  - destruct Hx as [E | Hx]; [subst; left; reflexivity | right; apply IH; assumption].
  - destruct Hx as [E | Hx]; [subst; contradiction | right; apply IH; assumption].
Qed.
Lemma concat_split_sizes {X Y} (mols : list (list X)) : forall l : list Y, length l = length (concat mols) -> concat (split_sizes (map (@length _) mols) l) = l.
Proof.
  induction mols as [|m mols IH]; intros l Hl.
  - destruct l; [reflexivity | discriminate].
  - cbn [map split_sizes concat]. cbn [concat] in Hl. rewrite app_length in Hl. rewrite IH by (rewrite skipn_length; lia). apply firstn_skipn.
Qed.
Corollary pp_reaction_preserves R P G :
  let fR := map map_val (concat R) in let fP := map map_val (concat P) in let fG := map map_val (concat G) in
  exists r, pp_reaction false true R P G = Ok r /\
    (forall x, x <> 0 -> In x fR -> In x (concat (ppr_reactants r))) /\
    (forall x, x <> 0 -> In x fP -> In x (concat (ppr_products r))) /\
    (forall x, x <> 0 -> In x fG -> ~ In x fR -> ~ In x fP -> In x (concat (ppr_reagents_out r))) /\
    NoDup (concat (ppr_reactants r)) /\ NoDup (concat (ppr_products r)) /\ NoDup (concat (ppr_reagents_out r)) /\
    (forall x, In x (concat (ppr_reagents_out r)) -> ~ In x (concat (ppr_reactants r) ++ concat (ppr_products r))).
Proof.
  intros fR fP fG.
  destruct (pp_reaction_general R P G) as (rc & pr & rg0 & rg & c1 & c2 & c3 & c4 & lg & ml & H & R1 & R2 & R3 & R4 & Hab & N1 & N2 & N3 & D & L1 & L2 & L3).
  fold fR fP fG in R1, R2, R3, Hab, L1, L2, L3.
  eexists. split; [exact H|]. cbn [ppr_reactants ppr_products ppr_reagents_out].
  unfold fR in L1. unfold fP in L2. unfold fG in L3. rewrite map_length in L1, L2, L3.
  rewrite !concat_split_sizes by assumption.
  pose proof (rn_le _ _ _ _ _ R1) as E1. pose proof (rn_le _ _ _ _ _ R2) as E2.
  repeat split; try assumption.
  - intros x Hz Hx. apply (rn_keeps _ _ _ _ _ R1); [exact Hx | exact Hz | intros []].
  - intros x Hz Hx. apply (rn_keeps _ _ _ _ _ R2); [exact Hx | exact Hz | intros []].
  - intros x Hz Hx HnR HnP. apply (rs_keeps _ _ _ _ _ R4); [apply (rn_keeps _ _ _ _ _ R3); [exact Hx | exact Hz | intros []]|].
    assert (x < ppr_start fR fP fG) by (apply Hab; rewrite !in_app_iff; tauto).
    intros Hin. apply in_app_iff in Hin. destruct Hin as [Hin | Hin].
    + destruct (rn_in _ _ _ _ _ R1 x Hin) as [[A _] | B]; [contradiction | lia].
    + destruct (rn_in _ _ _ _ _ R2 x Hin) as [[A _] | B]; [contradiction | lia].
Qed.

(* non-vacuity, and the situation of a partially mapped record with a mapped agent just above the largest reactant / product number:
   the unmapped oxygens get 4 and 5 -- numbers ABOVE the agent's 3, which therefore keeps its number *)
Example pp_reaction_general_instance :
  pp_reaction false true [[Some 1; Some 2; Some 0]] [[Some 2; Some 1; None]] [[Some 3]]
  = Ok (mk_pprr [[1; 2; 4]] [[2; 1; 5]] [[3]] 0%nat [0; 0; 0]%nat) /\
  rn 4 [] [1; 2; 0] [1; 2; 4] 5 /\ rn 5 [] [2; 1; 0] [2; 1; 5] 6 /\ rn 6 [] [3] [3] 6 /\ rs ([1; 2; 4] ++ [2; 1; 5]) 6 [3] [3] 6.
Proof.
  split; [vm_compute; reflexivity|]. repeat split.
  - apply rn_keep; [lia | intros []|]. apply rn_keep; [lia | cbn; intros [H | []]; lia|]. apply (rn_fresh 4 5); [left; reflexivity|]. constructor.
  - apply rn_keep; [lia | intros []|]. apply rn_keep; [lia | cbn; intros [H | []]; lia|]. apply (rn_fresh 5 6); [left; reflexivity|]. constructor.
  - apply rn_keep; [lia | intros []|]. constructor.
  - apply rs_keep; [cbn; intros H; repeat (destruct H as [H | H]; [lia|]); exact H|]. constructor.
Qed.
