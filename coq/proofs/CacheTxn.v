(* C13 -- transactions, full statement: the block may contain every operation of the state machine (union, copy, substructure,
   setters, the patch step, renumbering, a nested enter - which is rejected with RuntimeError and changes nothing) except the exit
   itself and swap (which is not an operation of the library but the harness' choice of the molecule it drives). *)
From Coq Require Import ZArith List Bool Lia.
From Model Require Import PyBase Cache.
From Proofs Require Import CacheProofs CacheWf CacheCopy CacheCoh CacheWorld CacheUnion CacheTheorems CacheExamples.
Import ListNotations.
Open Scope Z_scope.

Definition block_op (p : op) : bool := match p with OExitOk | OExitExn | OSwap => false | _ => true end.
Fixpoint block_ops (ops : list op) : bool := match ops with [] => true | p :: t => block_op p && block_ops t end.

Lemma union_frame rmp cp s : W s ->
  hext (s_heap s) (s_heap (fst (union rmp cp s))) /\ o_backup (s_cur (fst (union rmp cp s))) = o_backup (s_cur s) /\
  exists pre, s_others (fst (union rmp cp s)) = pre ++ s_others s.
Proof.
  intros Ws. pose proof (W_cur s Ws) as Uc. unfold union. destruct s as [h self others]. cbn [s_heap s_cur s_others] in *.
  assert (forall hh, hext h hh -> hext h hh /\ o_backup self = o_backup self /\ exists pre : list mobj, others = pre ++ others) as Same
    by (intros hh X; split; [exact X | split; [reflexivity | exists []; reflexivity]]).
  destruct others as [|other rest]; [cbn [fst s_heap s_cur s_others]; apply Same, hext_refl|].
  assert (U h other) as Uot.
  { destruct Ws as [F _]. rewrite Forall_forall in F. apply F. apply in_flat_map. exists other. split; [right; now left | now left]. }
  destruct (_ && negb rmp); [cbn [fst s_heap s_cur s_others]; apply Same, hext_refl|].
  destruct (copy_mol false false h other) as [[h1 oc]|e] eqn:Ec; [|cbn [fst s_heap s_cur s_others]; apply Same, hext_refl].
  destruct (copy_mol_spec _ _ _ _ _ _ (proj1 (proj1 Uot)) Ec) as [cb [Eoc [Woc [X1 _]]]].
  assert (exists oc' e2, (if existsb (fun n => zmem n (keys (o_atoms other))) (keys (o_atoms self))
                          then remap (combine (keys (o_atoms oc)) (zrange_from (zmax (keys (o_atoms self)) 0 + 1) (length (o_atoms oc)))) h1 oc
                          else ok h1 oc) = (h1, oc', e2)) as [oc' [e2 Er]].
  { destruct (existsb _ (keys (o_atoms self))); [|unfold ok; eauto]. set (mp := combine _ _). pose proof (remap_spec mp h1 oc) as Sp.
    destruct (remap mp h1 oc) as [[h2 oc'] e2]. destruct Sp as [-> _]. eauto. }
  rewrite Er. destruct e2 as [e2|]; [cbn [fst s_heap s_cur s_others]; now apply Same|].
  destruct cp.
  - destruct (copy_mol false false h1 self) as [[h3 u]|e] eqn:Eu; [|cbn [fst s_heap s_cur s_others]; now apply Same].
    assert (U h1 self) as Us1 by (eapply hext_U; eauto).
    destruct (copy_mol_spec _ _ _ _ _ _ (proj1 (proj1 Us1)) Eu) as [cbu [_ [_ [X3 _]]]]. cbn [fst s_heap s_cur s_others].
    split; [eapply hext_trans; eauto|]. split; [reflexivity|]. eexists [_]. reflexivity.
  - unfold lift, flush, ok. cbn [fst s_heap s_cur s_others]. split; [exact X1|]. split; [reflexivity|]. exists []. reflexivity.
Qed.

Theorem enter_nested_rejected s : o_backup (s_cur s) <> None -> step s OEnter = (s, Some OtherError).
Proof. intros B. cbn [step]. unfold lift, enter. destruct (o_backup (s_cur s)); [destruct s; reflexivity | contradiction]. Qed.

Lemma block_step s p : W s -> op_ok s p -> block_op p = true -> o_backup (s_cur s) <> None ->
  hframe s (fst (step s p)) /\ o_backup (s_cur (fst (step s p))) = o_backup (s_cur s) /\
  exists pre, s_others (fst (step s p)) = pre ++ s_others s.
Proof.
  intros Ws Ok Bp Bk. destruct (body_op p) eqn:Eb; [now apply body_step|].
  destruct p; cbn [body_op block_op] in *; try discriminate.
  - cbn [step]. destruct (union_frame rmp cp s Ws) as [[L E] [B P]]. split; [|split; assumption]. split; [exact L|]. intros r Hr _. now apply E.
  - rewrite (enter_nested_rejected s Bk). cbn [fst]. split; [split; [lia | auto]|]. split; [reflexivity|]. exists []. reflexivity.
Qed.

Lemma block_run : forall ops s b, W s -> ops_ok s ops -> block_ops ops = true -> o_backup (s_cur s) = Some b ->
  o_backup (s_cur (run ops s)) = Some b /\ view_of (s_heap (run ops s)) (bk_mobj b) = view_of (s_heap s) (bk_mobj b).
Proof.
  unfold run. induction ops as [|p t IH]; intros s b Ws Ok Bo Eb; [split; [exact Eb | reflexivity]|].
  cbn [fold_left]. cbn [block_ops] in Bo. apply andb_true_iff in Bo. destruct Bo as [B1 B2]. destruct Ok as [O1 O2].
  destruct (block_step s p Ws O1 B1) as [[L Un] [Ebk _]]; [congruence|].
  destruct (IH (fst (step s p)) b (step_W s p Ws O1) O2 B2) as [A1 A2]; [congruence|]. split; [exact A1|]. rewrite A2.
  apply view_of_ext. intros r Hr. destruct Ws as [F P]. rewrite Forall_forall in F.
  assert (In (bk_mobj b) (units s)) as Hu by (apply (backup_units s (s_cur s)); [now left | exact Eb]).
  apply Un; [eapply U_lt; eauto|]. intros Hi.
  destruct s as [h c others]. unfold units, live in P. cbn [s_cur s_others flat_map] in *. unfold units_of at 1 in P. cbn [app] in P.
  destruct P as [P1 _]. refine (P1 (bk_mobj b) _ r Hi Hr). apply in_or_app. left. unfold shadow. rewrite Eb. now left.
Qed.

Theorem transaction_atomic_full : forall s ops, W s -> snd (step s OEnter) = None ->
  ops_ok (fst (step s OEnter)) ops -> block_ops ops = true ->
  let s3 := fst (step (run ops (fst (step s OEnter))) OExitExn) in
  snd (step (run ops (fst (step s OEnter))) OExitExn) = None /\
  view_of (s_heap s3) (s_cur s3) = view_of (s_heap s) (s_cur s) /\
  o_name (s_cur s3) = o_name (s_cur s) /\ o_meta (s_cur s3) = o_meta (s_cur s) /\
  o_changed (s_cur s3) = o_changed (s_cur s) /\ o_backup (s_cur s3) = None /\
  o_cache (s_cur s3) = filter (kept true true) (o_cache (s_cur s)) /\
  W s3.
Proof.
  intros s ops Ws En Ok Bo. pose proof (W_cur s Ws) as Uc.
  pose proof (step_W s OEnter Ws I) as W1. cbn [step] in *. unfold lift, enter in *.
  destruct (o_backup (s_cur s)) as [b0|] eqn:Eb0; [discriminate|].
  destruct (copy_mol true true (s_heap s) (s_cur s)) as [[h1 b]|e] eqn:E; [|discriminate].
  destruct (copy_mol_spec _ _ _ _ _ _ (proj1 (proj1 Uc)) E) as [cb [Eb [_ [_ [_ V]]]]]. cbn [ok fst snd] in *.
  set (bkv := mkBk (o_atoms b) (o_adj b) (o_cache b) (o_changed b) (o_name b) (o_meta b)) in *.
  set (s1 := mkS h1 (set_backup (s_cur s) (Some bkv)) (s_others s)) in *.
  destruct (block_run ops s1 bkv W1 Ok Bo eq_refl) as [A1 A2].
  pose proof (run_W ops s1 W1 Ok) as W2. pose proof (step_W _ OExitExn W2 I) as W3. cbn [step] in W3. unfold lift, exit_exn in *.
  rewrite A1 in *. cbn [ok fst snd s_heap s_cur] in *.
  split; [reflexivity|]. split.
  - change (mkM (bk_atoms bkv) (bk_adj bkv) (bk_cache bkv) (bk_changed bkv) None (bk_name bkv) (bk_meta bkv)) with (bk_mobj bkv).
    rewrite A2. unfold s1. cbn [s_heap]. subst b. exact V.
  - subst b. split; [reflexivity|]. split; [reflexivity|]. split; [reflexivity|]. split; [reflexivity|]. split; [reflexivity|]. exact W3.
Qed.

(* a block with an in-place union, a copy, a substructure, a renumbering, a setter: all allowed *)
Definition txn_body_full : list op :=
  [OCopy; OUnion true true; OUnion true false; OAddBond 3 4 1; OSub [1; 2]; OSetCharge 5 1; ORemap [(1, 11)]; OEnter; ODelAtom 6].
Theorem transaction_full_example :
  let s := run build_cco empty_state in
  W s /\ snd (step s OEnter) = None /\ ops_ok (fst (step s OEnter)) txn_body_full /\ block_ops txn_body_full = true /\
  trace txn_body_full (fst (step s OEnter)) = repeat None 7 ++ [Some OtherError; None] /\
  keys (o_atoms (s_cur (run txn_body_full (fst (step s OEnter))))) = [11; 2; 3; 4; 5; 7; 8; 9].
Proof.
  cbv zeta. split; [apply run_W; [apply W_empty | vm_compute; tauto]|]. split; [vm_compute; reflexivity|].
  split; [vm_compute; repeat split; discriminate|]. split; [reflexivity|]. split; vm_compute; reflexivity.
Qed.

