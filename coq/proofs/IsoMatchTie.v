(* C07 round 4: the two decision-carrying loop bodies of the reference matcher `_get_mapping` (chython/algorithms/isomorphism.py) are
   TRANSLATED from the source on every run (tools/gen_isomatch.py -> Gen.IsoMatch: g_init_ok, g_cand_ok, statement by statement);
   here the hand-written pieces of Model.Iso (the start filter of get_mapping and cand_ok, on which every theorem about the
   matcher rests) are proved equal to the generated functions for ALL arguments, and get_mapping / gm_from are restated on top of
   the generated tests.  reversed_mapping, the inverse dict the Python loop keeps next to `mapping`, is instantiated by the swapped
   mapping (the translator checks that the only writes to the two dicts are the three statements that keep them inverse). *)
From Coq Require Import ZArith List Bool Lia.
From Model Require Import PyBase Iso.
From Gen Require Import IsoMatch.
Import ListNotations.
Local Open Scope Z_scope.

Definition swap_mapping (mp : mapping) : mapping := map (fun kv => (snd kv, fst kv)) mp.

Lemma keys_swap_mapping mp : keys (swap_mapping mp) = image mp.
Proof. unfold keys, swap_mapping, image. rewrite map_map. reflexivity. Qed.

Lemma set_discard_and (a b : list Z) (n : Z) :
  set_discard (set_and a b) n = filter (fun x => zmem x b && negb (x =? n)) a.
Proof.
  unfold set_discard, set_and. induction a as [|x a IH]; simpl; [reflexivity|].
  destruct (zmem x b); simpl; [destruct (negb (x =? n)); simpl; rewrite IH; reflexivity | exact IH].
Qed.

Lemma opt_all_fold {QB : Type} (mp : mapping) (l : list (Z * QB)) :
  opt_all (map (fun '(m, _) => match zget mp m with Some v => Some v | None => None end) l) =
  fold_right (fun (mb : Z * QB) acc => match acc, zget mp (fst mb) with
                                      | Some l, Some y => Some (y :: l)
                                      | _, _ => None
                                      end) (Some []) l.
Proof.
  induction l as [|[m bd] l IH]; simpl; [reflexivity|].
  rewrite IH. destruct (zget mp m); [|destruct (fold_right _ _ l); reflexivity].
  destruct (fold_right _ _ l); reflexivity.
Qed.

Section Tie.
  Variables QA A QB B : Type.
  Variable am : QA -> A -> bool.
  Variable bm : QB -> B -> bool.

  (* the start candidates: lines `for n, o_atom in o_atoms.items(): if n in scope and s_atom == o_atom: stack.append((n, 0))` *)
  Theorem init_ok_generated : forall scope s_atom (na : Z * A),
    g_init_ok am scope s_atom (fst na) (snd na) = zmem (fst na) scope && am s_atom (snd na).
  Proof. intros. unfold g_init_ok. destruct (zmem (fst na) scope && am s_atom (snd na)); reflexivity. Qed.

  (* the candidate test of the neighbour loop *)
  Theorem cand_ok_generated : forall (clo : closures_t QB) o_atoms o_bonds scope (mp : mapping) n s_n s_atom s_bond o_n o_bond,
    g_cand_ok am bm clo o_atoms o_bonds scope mp (swap_mapping mp) n s_n s_atom s_bond o_n o_bond =
    cand_ok am bm (clo_get clo s_n) o_atoms o_bonds scope mp n s_atom s_bond o_n o_bond.
  Proof.
    intros. unfold g_cand_ok, cand_ok. rewrite keys_swap_mapping, set_discard_and, opt_all_fold.
    destruct (zmem o_n scope); simpl; [|reflexivity].
    destruct (zmem o_n (image mp)); simpl; [reflexivity|].
    destruct (match s_bond with Some sb => bm sb o_bond | None => false end); simpl; [|reflexivity].
    destruct (zget o_atoms o_n) as [oa|]; simpl; [|reflexivity].
    destruct (am s_atom oa); simpl; [|reflexivity].
    destruct (fold_right _ _ (clo_get clo s_n)) as [want|]; [|reflexivity].
    unfold set_eqb, fs_eqb.
    destruct (same_keys_z _ want); simpl; [|reflexivity].
    match goal with |- (if ?x then true else false) = ?y => replace y with x; [destruct x; reflexivity|] end.
    induction (clo_get clo s_n) as [|[m bd] l IH]; simpl; [reflexivity|]. rewrite IH. reflexivity.
  Qed.

  (* the matcher of Model.Iso with both hand-written tests replaced by the translated ones *)
  Fixpoint gm_from_gen (clo : closures_t QB) (o_atoms : list (Z * A)) (o_bonds : list (Z * list (Z * B))) (scope : list Z)
           (rest : list (lentry QA QB)) (current : Z) (mp : mapping) (n : Z) : list mapping :=
    let mp' := mp ++ [(current, n)] in
    match rest with
    | [] => [mp']
    | (s_n, back, s_atom, s_bond) :: rest' =>
        match (if opt_is back current then Some n else match back with Some b => zget mp' b | None => None end) with
        | None => []
        | Some n' =>
            let cands := filter (fun ob => g_cand_ok am bm clo o_atoms o_bonds scope mp' (swap_mapping mp') n' s_n s_atom s_bond (fst ob) (snd ob))
                                (adj_get o_bonds n') in
            flat_map (fun ob => gm_from_gen clo o_atoms o_bonds scope rest' s_n mp' (fst ob)) (rev cands)
        end
    end.

  Definition get_mapping_gen (lq : list (lentry QA QB)) (clo : closures_t QB) (o_atoms : list (Z * A)) (o_bonds : list (Z * list (Z * B)))
             (scope : list Z) : list mapping :=
    match lq with
    | [] => []
    | (s_n, _, s_atom, _) :: rest =>
        let init := filter (fun na => g_init_ok am scope s_atom (fst na) (snd na)) o_atoms in
        flat_map (fun na => gm_from_gen clo o_atoms o_bonds scope rest s_n [] (fst na)) (rev init)
    end.

  Lemma filter_ext_all {T : Type} (f g : T -> bool) (l : list T) : (forall x, f x = g x) -> filter f l = filter g l.
  Proof. intros E. induction l as [|x l IH]; simpl; [reflexivity|]. rewrite E, IH. reflexivity. Qed.

  Lemma flat_map_ext_all {T U : Type} (f g : T -> list U) (l : list T) : (forall x, f x = g x) -> flat_map f l = flat_map g l.
  Proof. intros E. induction l as [|x l IH]; simpl; [reflexivity|]. rewrite E, IH. reflexivity. Qed.

  Theorem gm_from_generated : forall rest clo o_atoms o_bonds scope current mp n,
    gm_from am bm clo o_atoms o_bonds scope rest current mp n = gm_from_gen clo o_atoms o_bonds scope rest current mp n.
  Proof.
    induction rest as [|[[[s_n back] s_atom] s_bond] rest IH]; intros; simpl; [reflexivity|].
    destruct (if opt_is back current then Some n else match back with Some b => zget (mp ++ [(current, n)]) b | None => None end) as [n'|];
      [|reflexivity].
    rewrite (filter_ext_all _ (fun ob => g_cand_ok am bm clo o_atoms o_bonds scope (mp ++ [(current, n)]) (swap_mapping (mp ++ [(current, n)]))
                                                   n' s_n s_atom s_bond (fst ob) (snd ob))).
    - apply flat_map_ext_all. intros ob. apply IH.
    - intros ob. symmetry. apply cand_ok_generated.
  Qed.

  Theorem get_mapping_generated : forall lq clo o_atoms o_bonds scope,
    get_mapping am bm lq clo o_atoms o_bonds scope = get_mapping_gen lq clo o_atoms o_bonds scope.
  Proof.
    intros [|[[[s_n back] s_atom] s_bond] rest] clo o_atoms o_bonds scope; simpl; [reflexivity|].
    rewrite (filter_ext_all _ (fun na => g_init_ok am scope s_atom (fst na) (snd na))).
    - apply flat_map_ext_all. intros na. apply gm_from_generated.
    - intros na. symmetry. apply init_ok_generated.
  Qed.
End Tie.

(* non-vacuity / sensitivity: on a triangle target the generated test accepts the ring-closing candidate exactly when the closure set matches;
   a path pattern (no closure recorded) must NOT accept the candidate that closes a ring in the target *)
Example cand_ok_generated_triangle :
  let tb := [(1, [(2, 1); (3, 1)]); (2, [(1, 1); (3, 1)]); (3, [(1, 1); (2, 1)])] in
  let ta := [(1, 6); (2, 6); (3, 6)] in
  g_cand_ok Z.eqb Z.eqb [(3, [(1, 1)])] ta tb [1; 2; 3] [(1, 1); (2, 2)] (swap_mapping [(1, 1); (2, 2)]) 2 3 6 (Some 1) 3 1 = true /\
  g_cand_ok Z.eqb Z.eqb [] ta tb [1; 2; 3] [(1, 1); (2, 2)] (swap_mapping [(1, 1); (2, 2)]) 2 3 6 (Some 1) 3 1 = false.
Proof. split; vm_compute; reflexivity. Qed.

(* ---------------------------------------------------------------------------------------------------------------------------------- *)
(* the automorphism-filter block of Isomorphism._get_mapping: Model.Iso.auto_filter is the translated step run along the stream with
   ONE `seen` for the whole call (the translator checks that `seen = set()` stands once, in the method body, before the split) *)
Fixpoint filter_stream (flt : bool) (seen : list (list Z)) (ms : list mapping) : list mapping :=
  match ms with
  | [] => []
  | m :: r =>
      match g_filter_step flt seen m with
      | (Some y, seen') => y :: filter_stream flt seen' r
      | (None, seen') => filter_stream flt seen' r
      end
  end.

Theorem auto_filter_generated : forall flt seen ms, auto_filter flt seen ms = filter_stream flt seen ms.
Proof.
  intros flt seen ms. revert seen. induction ms as [|m r IH]; intros seen; simpl; [reflexivity|].
  unfold g_filter_step. destruct flt; [|rewrite IH; reflexivity].
  destruct (existsb (fs_eqb (image m)) seen); rewrite IH; reflexivity.
Qed.

(* ---------------------------------------------------------------------------------------------------------------------------------- *)
(* the neighbour loop of _compile_query: Model.Iso.cq_scan is the translated iteration folded over reversed(bonds[front].items()) *)
Fixpoint cq_scan_gen {QA QB : Type} (atoms : list (Z * QA)) (front : Z) (back : option Z) (seen : list Z) (nbs : list (Z * QB))
         (stack : list (lentry QA QB)) (clo : closures_t QB) : pyres (list (lentry QA QB) * closures_t QB) :=
  match nbs with
  | [] => Ok (stack, clo)
  | (n, bond) :: r =>
      match g_scan_step atoms front back seen n bond stack clo with
      | Err e => Err e
      | Ok (stack', clo') => cq_scan_gen atoms front back seen r stack' clo'
      end
  end.

Theorem cq_scan_generated : forall (QA QB : Type) (atoms : list (Z * QA)) front back seen (nbs : list (Z * QB)) stack clo,
  cq_scan atoms front back seen nbs stack clo = cq_scan_gen atoms front back seen nbs stack clo.
Proof.
  intros QA QB atoms front back seen nbs. induction nbs as [|[n bond] r IH]; intros stack clo; simpl; [reflexivity|].
  unfold g_scan_step. destruct (opt_is back n); simpl; [apply IH|].
  destruct (zmem n seen); simpl; [apply IH|].
  destruct (zget atoms n); [apply IH|reflexivity].
Qed.
