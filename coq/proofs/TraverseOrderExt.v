(* C01, extension: the traversal of the FIRST component of the writer model under renumbering AND re-insertion (atoms, adjacency
   rows and neighbours listed in any other order), for injective weights and any tie-break priorities: start atom, BFS labels
   (pointwise), every DFS step, the DFS result and the flattened token list are the renamed originals. *)
From Coq Require Import ZArith List String Bool Lia Permutation.
From Model Require Import PyBase PyHash Graph Morgan Writer.
From Proofs Require Import MorganProofs WriterInvProofs BfsExt.
Import ListNotations.
Open Scope Z_scope.

Section DfsPerm.
  Variable s : Z -> Z.
  Hypothesis s_inj : forall x y, s x = s y -> x = y.
  Variable g g' : mol.
  Variable all : list Z.
  Variable key key' : Z -> Z -> list Z.
  Hypothesis Hnb : forall n, incl (nbr_ids g n) all.
  Hypothesis Hnbp : forall n, Permutation (map s (nbr_ids g n)) (nbr_ids g' (s n)).
  Hypothesis Hsort : forall p l l', incl l all -> Permutation (map s l) l' -> sort_by (key' (s p)) l' = map s (sort_by (key p) l).

  Lemma dfs_step_perm st : dfs_step g' key' (ren_dfs s st) = option_map (ren_dfs s) (dfs_step g key st).
  Proof.
    destruct st as [stack vis disc edges tokens cyc]. unfold dfs_step, ren_dfs. cbn [ds_stack ds_visited ds_disc ds_edges ds_tokens ds_cycle].
    destruct stack as [|[[parent depth] children] rest]; [reflexivity|].
    cbn [ren_stack map fst snd]. destruct children as [|child children']; [reflexivity|].
    cbn [map]. unfold ren_vis at 1. rewrite (zhas_renG s s_inj (map s)). destruct (zhas vis child); cbn [negb].
    - rewrite (pair_mem_renG s s_inj). destruct (pair_mem (child, parent) disc); cbn [negb option_map]; [reflexivity|].
      f_equal. unfold ren_dfs. cbn [ds_stack ds_visited ds_disc ds_edges ds_tokens ds_cycle]. f_equal.
      unfold ren_tokens. set (f := fun pc : Z * Z => (s (fst pc), snd pc)).
      change (s child, cyc + 1) with (f (child, cyc + 1)). change (s parent, cyc + 1) with (f (parent, cyc + 1)).
      rewrite !(zapp_renG s s_inj). reflexivity.
    - cbn [option_map]. f_equal. unfold ren_dfs. cbn [ds_stack ds_visited ds_disc ds_edges ds_tokens ds_cycle]. f_equal.
      + destruct (1 <? depth); [|reflexivity].
        assert (incl (filter (fun m => negb (m =? parent)) (nbr_ids g child)) all) as Hi
          by (intros x Hx; apply filter_In in Hx; apply (Hnb child); apply Hx).
        assert (Permutation (map s (filter (fun m => negb (m =? parent)) (nbr_ids g child)))
                            (filter (fun m => negb (m =? s parent)) (nbr_ids g' (s child)))) as Hp.
        { rewrite <- (filter_neq_renG s s_inj). apply filter_perm. apply Hnbp. }
        destruct (filter (fun m => negb (m =? parent)) (nbr_ids g child)) as [|f0 fr] eqn:E;
          destruct (filter (fun m => negb (m =? s parent)) (nbr_ids g' (s child))) as [|q0 qr] eqn:E'.
        * reflexivity.
        * apply Permutation_nil in Hp. discriminate.
        * apply Permutation_sym, Permutation_nil in Hp. discriminate.
        * rewrite (Hsort child _ _ Hi Hp). reflexivity.
      + unfold ren_vis. rewrite map_app. reflexivity.
      + unfold ren_vis. rewrite <- (zapp_renG s s_inj s edges parent child). reflexivity.
  Qed.

  Theorem dfs_perm fuel st :
    iter_opt fuel (dfs_step g' key') (ren_dfs s st) = option_map (ren_dfs s) (iter_opt fuel (dfs_step g key) st).
  Proof. apply iter_opt_ren. exact dfs_step_perm. Qed.
End DfsPerm.

(* ---- facts about the renumbered molecule for arbitrary atom numbers ---- *)
Section RenFacts.
  Variable s : Z -> Z.
  Hypothesis s_inj : forall x y, s x = s y -> x = y.
  Variable g : mol.
  Hypothesis Hwf : wf_mol g = true.

  Lemma nbr_ids_ren_any m : (exists n, m = s n) \/ nbr_ids (ren_mol s g) m = [].
  Proof.
    unfold nbr_ids, nbrs. destruct (zget (m_adj (ren_mol s g)) m) as [row|] eqn:E; [left | right; reflexivity].
    apply zget_Some_In in E. unfold ren_mol, ren_adj in E. cbn [m_adj] in E. apply in_map_iff in E.
    destruct E as [[k r] [E _]]. cbn [fst snd] in E. injection E as <- _. exists k. reflexivity.
  Qed.

  Lemma nbr_ids_ren_incl m : incl (nbr_ids (ren_mol s g) m) (ids (ren_mol s g)).
  Proof.
    destruct (nbr_ids_ren_any m) as [[n ->] | ->]; [|intros x []].
    rewrite (nbr_ids_renG s s_inj), ids_ren_mol. intros x Hx. apply in_map_iff in Hx. destruct Hx as [y [<- Hy]].
    apply in_map. apply (nbr_ids_incl g Hwf n). exact Hy.
  Qed.

  Lemma nbr_ids_ren_nodup m : NoDup (nbr_ids (ren_mol s g) m).
  Proof.
    destruct (nbr_ids_ren_any m) as [[n ->] | ->]; [|constructor].
    rewrite (nbr_ids_renG s s_inj). apply NoDup_map_inj; [intros x y _ _; apply s_inj | apply nbr_ids_nodup_wf; exact Hwf].
  Qed.

  Lemma keys_adj_ren_nodup : NoDup (keys (m_adj (ren_mol s g))).
  Proof.
    destruct (wf_mol_inv g Hwf) as [H1 [H2 _]]. rewrite keys_adj_ren_mol, <- H1.
    apply NoDup_map_inj; [intros x y _ _; apply s_inj | exact H2].
  Qed.
End RenFacts.

Lemma nbr_ids_adj_perm g1 g2 y : NoDup (keys (m_adj g1)) -> adj_perm (m_adj g1) (m_adj g2) ->
  Permutation (nbr_ids g1 y) (nbr_ids g2 y).
Proof.
  intros Hnd Hadj. unfold nbr_ids, nbrs. destruct (zget (m_adj g1) y) as [row|] eqn:E.
  - destruct (zget_adj_perm _ _ y row Hadj Hnd E) as [row' [E' P]]. rewrite E'. unfold keys. apply Permutation_map. exact P.
  - replace (zget (m_adj g2) y) with (@None (list (Z * bond))); [apply Permutation_refl|]. symmetry.
    apply zget_None_iff. apply zget_None_iff in E. intros H. apply E.
    eapply Permutation_in; [apply Permutation_sym; apply (adj_perm_keys _ _ Hadj) | exact H].
Qed.

Lemma n_dbonds_adj_perm g1 g2 : adj_perm (m_adj g1) (m_adj g2) -> n_dbonds g1 = n_dbonds g2.
Proof.
  intros [mid [Hf Hp]]. unfold n_dbonds. transitivity (List.length (flat_map (fun nl : Z * list (Z * bond) => snd nl) mid)).
  - clear Hp. induction Hf as [|[n r] [n' r'] a m [_ Hr] _ IH]; [reflexivity|]. cbn [flat_map snd] in *. rewrite !app_length, IH, (Permutation_length Hr). reflexivity.
  - apply Permutation_length. apply Permutation_flat_map. exact Hp.
Qed.

Section FirstComponent.
  Variable g g' : mol.
  Variable s w w' tb tb' : Z -> Z.
  Variable o : opts.
  Hypothesis Hwf : wf_mol g = true.
  Hypothesis Hwf' : wf_mol g' = true.
  Hypothesis s_inj : forall x y, s x = s y -> x = y.
  Hypothesis Hp : mol_perm (ren_mol s g) g'.
  Hypothesis w_inj : inj_on (ids g) w.
  Hypothesis w_ren : forall n, In n (ids g) -> w' (s n) = w n.

  Lemma ids_perm_g' : Permutation (map s (ids g)) (ids g').
  Proof. destruct Hp as [Ha _]. rewrite <- ids_ren_mol. apply keys_perm. exact Ha. Qed.

  Lemma nbr_perm_g' n : Permutation (map s (nbr_ids g n)) (nbr_ids g' (s n)).
  Proof.
    rewrite <- (nbr_ids_renG s s_inj). apply nbr_ids_adj_perm; [apply keys_adj_ren_nodup; assumption | apply Hp].
  Qed.

  (* the BFS labels of the first component, pointwise *)
  Lemma bfs_seen_perm start x : In start (ids g) ->
    zget (bfs g' (S (n_atoms g')) [(s start, 1)] [(s start, 0)]) (s x) = zget (bfs g (S (n_atoms g)) [(start, 1)] [(start, 0)]) x.
  Proof.
    intros Hs.
    rewrite <- (bfs_order_independent (ren_mol s g) g' (s start)).
    - unfold n_atoms. rewrite ids_ren_mol, map_length.
      change [(s start, 1)] with (ren_labels s [(start, 1)]). change [(s start, 0)] with (ren_labels s [(start, 0)]).
      rewrite (bfs_ren s s_inj). apply (seen_ren s s_inj).
    - apply nbr_ids_ren_incl; assumption.
    - apply nbr_ids_ren_nodup; assumption.
    - rewrite ids_ren_mol. apply in_map. exact Hs.
    - apply nbr_ids_incl. exact Hwf'.
    - intros n. apply nbr_ids_nodup_wf. exact Hwf'.
    - eapply Permutation_in; [apply ids_perm_g' | apply in_map; exact Hs].
    - intros y z. split; intros H; (eapply Permutation_in; [|exact H]); [|apply Permutation_sym];
        apply nbr_ids_adj_perm; try (apply keys_adj_ren_nodup; assumption); apply Hp.
  Qed.
  Definition trav_rel (r r' : pyres traversal) : Prop :=
    match r, r' with
    | Ok t, Ok t' => tr_start t' = s (tr_start t) /\ tr_dfs t' = ren_dfs s (tr_dfs t) /\
                     (forall x, zget (tr_seen t') (s x) = zget (tr_seen t) x)
    | Err e, Err e' => e = e'
    | _, _ => False
    end.

  Lemma min_by_In {A} (key : A -> list Z) l x : min_by key l = Some x -> In x l.
  Proof.
    unfold min_by. destruct (sort_by key l) as [|y r] eqn:E; [discriminate|]. intros [= <-].
    eapply Permutation_in; [apply sort_by_perm|]. rewrite E. left. reflexivity.
  Qed.

  Lemma n_atoms_g' : n_atoms g' = n_atoms g.
  Proof. unfold n_atoms. rewrite <- (Permutation_length ids_perm_g'). apply map_length. Qed.

  Lemma dfs_fuel_g' : dfs_fuel g' = dfs_fuel g.
  Proof.
    unfold dfs_fuel. rewrite n_atoms_g'. f_equal. f_equal.
    rewrite <- (n_dbonds_adj_perm (ren_mol s g) g') by apply Hp. apply n_dbonds_ren.
  Qed.

  (* start atom, BFS labels and the whole DFS of the first component (the BFS starts on an empty `seen`) *)
  Theorem traverse_first_perm st st' :
    incl (ws_atoms st) (ids g) -> Permutation (map s (ws_atoms st)) (ws_atoms st') ->
    ws_seen st = [] -> ws_seen st' = [] -> ws_cycle st' = ws_cycle st ->
    trav_rel (traverse g w tb o (ids g) st) (traverse g' w' tb' o (ids g') st').
  Proof.
    intros Hi Hpa Hs0 Hs0' Hcyc. unfold traverse.
    assert (min_by (key_start w' tb' o (ids g')) (ws_atoms st') = option_map s (min_by (key_start w tb o (ids g)) (ws_atoms st))) as ->.
    { unfold min_by at 1.
      rewrite (sort_by_key_eq (key_start w' tb' o (ids g')) (key_start w' tb' o (map s (ids g))))
        by (intros x; apply key_start_perm; apply Permutation_sym; exact ids_perm_g').
      fold (min_by (key_start w' tb' o (map s (ids g))) (ws_atoms st')).
      apply (start_atom_equivariant w w' o (ids g) s w_inj w_ren tb tb' (ws_atoms st) (ws_atoms st') Hi Hpa). }
    destruct (min_by (key_start w tb o (ids g)) (ws_atoms st)) as [start|] eqn:Es; cbn [option_map trav_rel]; [|reflexivity].
    assert (In start (ids g)) as Hst by (apply Hi; eapply min_by_In; exact Es).
    rewrite Hs0, Hs0'. cbn [zset].
    set (seen := if o_random o then [] else bfs g (S (n_atoms g)) [(start, 1)] [(start, 0)]).
    set (seen' := if o_random o then [] else bfs g' (S (n_atoms g')) [(s start, 1)] [(s start, 0)]).
    assert (forall x, zget seen' (s x) = zget seen x) as Hseen.
    { intros x. unfold seen, seen'. destruct (o_random o); [reflexivity | apply bfs_seen_perm; exact Hst]. }
    assert (forall p l l', incl l (ids g) -> Permutation (map s l) l' ->
              sort_by (key_child_at g' w' tb' o (ids g') seen' (s p)) l' = map s (sort_by (key_child_at g w tb o (ids g) seen p) l)) as Hsort.
    { intros p l l' Hl Hpl.
      rewrite (sort_by_key_eq (key_child_at g' w' tb' o (ids g') seen' (s p)) (key_child_at g' w' tb' o (map s (ids g)) seen' (s p)))
        by (intros x; apply key_child_at_perm; apply Permutation_sym; exact ids_perm_g').
      apply (children_at_order_equivariant w w' o (ids g) s w_inj w_ren g g' p (s p) tb tb' seen seen' l l' Hl Hpl).
      intros n _. apply Hseen. }
    assert (Z.of_nat (List.length (ws_atoms st')) = Z.of_nat (List.length (ws_atoms st))) as ->.
    { f_equal. rewrite <- (Permutation_length Hpa). apply map_length. }
    rewrite (Hsort start _ _ (nbr_ids_incl g Hwf start) (nbr_perm_g' start)), Hcyc, dfs_fuel_g'.
    pose proof (dfs_perm s s_inj g g' (ids g) (key_child_at g w tb o (ids g) seen) (key_child_at g' w' tb' o (ids g') seen')
                         (nbr_ids_incl g Hwf) nbr_perm_g' Hsort (dfs_fuel g)
                         (mkDfs [(start, Z.of_nat (List.length (ws_atoms st)), sort_by (key_child_at g w tb o (ids g) seen start) (nbr_ids g start))]
                                [(start, [])] [] [] [] (ws_cycle st))) as Hd.
    unfold ren_dfs at 1 in Hd. cbn [ds_stack ds_visited ds_disc ds_edges ds_tokens ds_cycle ren_stack ren_vis ren_pairs ren_tokens map fst snd] in Hd.
    rewrite Hd.
    destruct (iter_opt (dfs_fuel g) (dfs_step g (key_child_at g w tb o (ids g) seen)) _) as [d|]; cbn [option_map trav_rel tr_start tr_dfs tr_seen].
    - split; [reflexivity|]. split; [reflexivity | exact Hseen].
    - reflexivity.
  Qed.

  (* hence the token list of the first component (branch structure, order in which its atoms are written) *)
  Theorem first_component_tokens_perm st st' :
    incl (ws_atoms st) (ids g) -> Permutation (map s (ws_atoms st)) (ws_atoms st') ->
    ws_seen st = [] -> ws_seen st' = [] -> ws_cycle st' = ws_cycle st ->
    component_tokens g' w' tb' o st' = ren_toks s (component_tokens g w tb o st).
  Proof.
    intros Hi Hpa Hs0 Hs0' Hcyc. unfold component_tokens.
    pose proof (traverse_first_perm st st' Hi Hpa Hs0 Hs0' Hcyc) as Ht.
    destruct (traverse g w tb o (ids g) st) as [t|e]; destruct (traverse g' w' tb' o (ids g') st') as [t'|e']; cbn [trav_rel] in Ht; try contradiction.
    - destruct Ht as [H1 [H2 _]]. unfold flatten, fl_fuel. rewrite n_atoms_g', H1, H2. unfold ren_dfs. cbn [ds_edges].
      apply (fl_run_ren s s_inj _ (ds_edges (tr_dfs t)) [(tr_start t, 0, [TAtom (tr_start t)])]).
    - subst e'. reflexivity.
  Qed.
End FirstComponent.

(* with the weights of the Morgan model: discrete classes of atoms_order make the token list of the first component (the whole
   molecule when it is connected) a function of the structure: any renumbering, any insertion order, any tie-breaks *)
Theorem canonical_first_component_tokens (h : list Z -> Z) (ring ring' : Z -> bool) (g g' : mol) (s tb tb' : Z -> Z) (o : opts) (l : labels) :
  wf_mol g = true -> wf_mol g' = true -> (forall x y, s x = s y -> x = y) -> (forall n, In n (ids g) -> ring' (s n) = ring n) ->
  mol_perm (ren_mol s g) g' -> atoms_order h ring g = Ok l -> NoDup (map snd l) ->
  exists l', atoms_order h ring' g' = Ok l' /\
             component_tokens g' (lbl l') tb' o (init_state g') = ren_toks s (component_tokens g (lbl l) tb o (init_state g)).
Proof.
  intros Hwf Hwf' Hs Hr Hp Hl Hd. exists (ren_labels s l).
  assert (inj_on (ids g) s) as Hs' by (intros x y _ _; apply Hs).
  split; [apply (canonical_weights_equivariant h ring ring' g g' s l Hwf Hs' Hr Hp Hl Hd)|].
  apply (first_component_tokens_perm g g' s (lbl l) (lbl (ren_labels s l)) tb tb' o Hwf Hwf' Hs Hp
                                     (w_inj_ids h ring g l Hwf Hl Hd) (w_ren_ids h ring g s l Hwf Hs' Hl)).
  - apply incl_refl.
  - cbn [init_state ws_atoms]. apply (ids_perm_g' g g' s Hp).
  - reflexivity.
  - reflexivity.
  - reflexivity.
Qed.

(* non-vacuity: the star graph of BfsExt renumbered n -> 10 - n and re-inserted in another order *)
Definition ext_s (n : Z) : Z := 10 - n.
Definition ext_g' : mol := mkMol [(6, exb_a 8 1); (8, exb_a 6 1); (9, exb_a 6 3); (7, exb_a 6 3)]
                                 [(6, [(8, exb_b)]); (8, [(6, exb_b); (7, exb_b); (9, exb_b)]); (9, [(8, exb_b)]); (7, [(8, exb_b)])].
Definition ext_w (n : Z) : Z := 3 * n.
Definition ext_w' (m : Z) : Z := 3 * (10 - m).
Definition ext_st : wstate := init_state exb_g1.
Definition ext_st' : wstate := init_state ext_g'.

Theorem first_component_example :
  wf_mol exb_g1 = true /\ wf_mol ext_g' = true /\ (forall x y, ext_s x = ext_s y -> x = y) /\ mol_perm (ren_mol ext_s exb_g1) ext_g' /\
  inj_on (ids exb_g1) ext_w /\ (forall n, In n (ids exb_g1) -> ext_w' (ext_s n) = ext_w n) /\
  component_tokens exb_g1 ext_w (fun n => n) default_opts ext_st =
    Ok [TAtom 1; TBond 1 2; TAtom 2; TOpen; TBond 2 3; TAtom 3; TClose; TBond 2 4; TAtom 4] /\
  component_tokens ext_g' ext_w' (fun n => n) default_opts ext_st' =
    Ok [TAtom 9; TBond 9 8; TAtom 8; TOpen; TBond 8 7; TAtom 7; TClose; TBond 8 6; TAtom 6].
Proof.
  split; [vm_compute; reflexivity|]. split; [vm_compute; reflexivity|].
  split; [intros x y; unfold ext_s; lia|].
  split.
  { split.
    - cbn [ren_mol exb_g1 ext_g' m_atoms map fst snd ext_s]. change (10 - 1) with 9. change (10 - 2) with 8. change (10 - 3) with 7. change (10 - 4) with 6.
      apply (Permutation_cons_app [(6, exb_a 8 1); (8, exb_a 6 1)] [(7, exb_a 6 3)]).
      apply (Permutation_cons_app [(6, exb_a 8 1)] [(7, exb_a 6 3)]). apply perm_swap.
    - exists [(9, [(8, exb_b)]); (8, [(6, exb_b); (7, exb_b); (9, exb_b)]); (7, [(8, exb_b)]); (6, [(8, exb_b)])]. split.
      + cbn [ren_mol ren_adj exb_g1 m_adj map fst snd ext_s]. change (10 - 1) with 9. change (10 - 2) with 8. change (10 - 3) with 7. change (10 - 4) with 6.
        repeat constructor; cbn [fst snd]; try apply Permutation_refl.
        apply (Permutation_cons_app [(6, exb_b); (7, exb_b)] []). apply perm_swap.
      + cbn [ext_g' m_adj].
        apply (Permutation_cons_app [(6, [(8, exb_b)]); (8, [(6, exb_b); (7, exb_b); (9, exb_b)])] [(7, [(8, exb_b)])]).
        apply (Permutation_cons_app [(6, [(8, exb_b)])] [(7, [(8, exb_b)])]). apply perm_swap. }
  split; [intros x y _ _; unfold ext_w; lia|].
  split; [intros n Hn; cbn in Hn; intuition (subst; vm_compute; reflexivity)|].
  split; vm_compute; reflexivity.
Qed.
