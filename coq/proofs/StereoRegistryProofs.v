(* C12 extension: theorems about the stereo registries (Model.StereoRegistry).
   1. every registry is equivariant under an injective renumbering of the atoms (Graph.remap);
   2. the environment tuples list exactly the neighbours the docstrings promise;
   3. the paths of `cumulenes` are chains of double bonds that start at a terminal and, unless cut at an atom with
      more than two neighbours, end at a terminal. *)
From Coq Require Import ZArith List Bool Lia Permutation.
From Model Require Import PyBase Graph Stereo StereoRegistry.
Import ListNotations.
Open Scope Z_scope.

(* ---------- generic list facts ---------- *)
Lemma filter_map_comm {A B} (f : A -> B) (p : B -> bool) l : filter p (map f l) = map f (filter (fun x => p (f x)) l).
Proof. induction l as [|x l IH]; cbn; [reflexivity|]. destruct (p (f x)); cbn; rewrite IH; reflexivity. Qed.

Lemma flat_map_map_comm {A B C} (f : B -> list C) (h : A -> B) l : flat_map f (map h l) = flat_map (fun x => f (h x)) l.
Proof. induction l as [|x l IH]; cbn; [reflexivity|]. rewrite IH. reflexivity. Qed.

Lemma map_flat_map_comm {A B C} (f : A -> list B) (h : B -> C) l : map h (flat_map f l) = flat_map (fun x => map h (f x)) l.
Proof. induction l as [|x l IH]; cbn; [reflexivity|]. rewrite map_app, IH. reflexivity. Qed.

Lemma zlen_map {A B} (f : A -> B) l : zlen (map f l) = zlen l.
Proof. unfold zlen. rewrite map_length. reflexivity. Qed.

Lemma existsb_map {A B} (f : A -> B) p l : existsb p (map f l) = existsb (fun x => p (f x)) l.
Proof. induction l as [|x l IH]; cbn; [reflexivity|]. rewrite IH. reflexivity. Qed.

Lemma forallb_map {A B} (f : A -> B) p l : forallb p (map f l) = forallb (fun x => p (f x)) l.
Proof. induction l as [|x l IH]; cbn; [reflexivity|]. rewrite IH. reflexivity. Qed.

Lemma existsb_ext {A} (p q : A -> bool) l : (forall x, p x = q x) -> existsb p l = existsb q l.
Proof. intros H. induction l as [|x l IH]; cbn; [reflexivity|]. rewrite H, IH. reflexivity. Qed.

(* ====================================================================================================== *)
Section Renumbering.
  Variable s : Z -> Z.
  Hypothesis s_inj : forall x y, s x = s y -> x = y.

  Lemma s_eqb x y : (s x =? s y) = (x =? y).
  Proof.
    destruct (Z.eqb_spec x y) as [->|H]; [apply Z.eqb_refl|]. apply Z.eqb_neq. intros E. apply H, s_inj, E.
  Qed.

  Lemma zget_rn {V W} (h : V -> W) (d : list (Z * V)) k :
    zget (map (fun kv => (s (fst kv), h (snd kv))) d) (s k) = option_map h (zget d k).
  Proof.
    induction d as [|[k' v] d IH]; cbn; [reflexivity|]. rewrite s_eqb. destruct (k =? k'); [reflexivity | exact IH].
  Qed.

  Lemma zmem_rn x l : zmem (s x) (map s l) = zmem x l.
  Proof. unfold zmem. rewrite existsb_map. apply existsb_ext. intros y. apply s_eqb. Qed.

  Lemma atom_of_rn g n : atom_of (rn_mol s g) (s n) = atom_of g n.
  Proof.
    unfold atom_of, rn_mol. cbn [m_atoms]. rewrite (zget_rn (fun a => a)). destruct (zget (m_atoms g) n); reflexivity.
  Qed.

  Definition rn_nb (l : list (Z * bond)) : list (Z * bond) := map (fun mb => (s (fst mb), snd mb)) l.

  Lemma nbrs_rn g n : nbrs (rn_mol s g) (s n) = rn_nb (nbrs g n).
  Proof.
    unfold nbrs, rn_mol, rn_adj. cbn [m_adj].
    rewrite (zget_rn (fun l => map (fun mb : Z * bond => (s (fst mb), snd mb)) l)).
    destruct (zget (m_adj g) n); reflexivity.
  Qed.

  Lemma nbr_ids_rn g n : nbr_ids (rn_mol s g) (s n) = map s (nbr_ids g n).
  Proof. unfold nbr_ids, keys. rewrite nbrs_rn. unfold rn_nb. rewrite !map_map. reflexivity. Qed.

  Lemma anum_rn g n : anum (rn_mol s g) (s n) = anum g n.
  Proof. unfold anum. rewrite atom_of_rn. reflexivity. Qed.

  Lemma is_h_rn g n : is_h (rn_mol s g) (s n) = is_h g n.
  Proof. unfold is_h. rewrite anum_rn. reflexivity. Qed.

  (* ---------- tetrahedrons ---------- *)
  Lemma is_tetra_rn g na : is_tetra (rn_mol s g) (s (fst na), snd na) = is_tetra g na.
  Proof.
    unfold is_tetra. cbn [fst snd]. rewrite nbrs_rn. unfold rn_nb. rewrite forallb_map, zlen_map. reflexivity.
  Qed.

  Theorem tetrahedrons_rn g : tetrahedrons (rn_mol s g) = map s (tetrahedrons g).
  Proof.
    unfold tetrahedrons. cbn [rn_mol m_atoms]. rewrite filter_map_comm, !map_map. cbn [fst].
    f_equal. apply filter_ext. intros na. apply is_tetra_rn.
  Qed.

  Section WithTables.
    Variable fs fd : Z -> bool.

    Lemma th_env_rn g n : th_env (rn_mol s g) (s n) = map s (th_env g n).
    Proof.
      unfold th_env. rewrite nbr_ids_rn, filter_map_comm. f_equal. apply filter_ext. intros x. rewrite is_h_rn. reflexivity.
    Qed.

    Definition rn_th (ne : Z * list Z) : Z * list Z := (s (fst ne), map s (snd ne)).

    Lemma sg_th_entry_rn g n : sg_th_entry fs (rn_mol s g) (s n) = map rn_th (sg_th_entry fs g n).
    Proof.
      unfold sg_th_entry. rewrite nbr_ids_rn, existsb_map, th_env_rn, zlen_map.
      assert (E : existsb (fun x => negb (fs (anum (rn_mol s g) (s x)))) (nbr_ids g n) =
                  existsb (fun x => negb (fs (anum g x))) (nbr_ids g n)).
      { apply existsb_ext. intros x. rewrite anum_rn. reflexivity. }
      rewrite E. clear E. destruct (existsb (fun x => negb (fs (anum g x))) (nbr_ids g n)); [reflexivity|].
      destruct ((zlen (th_env g n) =? 3) || (zlen (th_env g n) =? 4)); reflexivity.
    Qed.

    Theorem sg_tetrahedrons_rn g : sg_tetrahedrons fs (rn_mol s g) = map rn_th (sg_tetrahedrons fs g).
    Proof.
      unfold sg_tetrahedrons. rewrite tetrahedrons_rn, flat_map_map_comm, map_flat_map_comm.
      apply flat_map_ext. intros n. apply sg_th_entry_rn.
    Qed.

    (* ---------- cumulenes ---------- *)
    Definition rn_adjT (adj : adjT) : adjT := map (fun kv => (s (fst kv), map s (snd kv))) adj.

    Lemma aget_rn adj n : aget (rn_adjT adj) (s n) = map s (aget adj n).
    Proof. unfold aget, rn_adjT. rewrite (zget_rn (map s)). destruct (zget adj n); reflexivity. Qed.

    Lemma aset_rn adj n l : aset (rn_adjT adj) (s n) (map s l) = rn_adjT (aset adj n l).
    Proof.
      unfold rn_adjT. induction adj as [|[k v] adj IH]; cbn [map aset fst snd]; [reflexivity|].
      rewrite s_eqb. destruct (n =? k); cbn [map fst snd]; [reflexivity|]. rewrite IH. reflexivity.
    Qed.

    Lemma zdiscard_rn x l : zdiscard (s x) (map s l) = map s (zdiscard x l).
    Proof. unfold zdiscard. rewrite filter_map_comm. f_equal. apply filter_ext. intros y. rewrite s_eqb. reflexivity. Qed.

    Lemma remove1_rn x l : remove1 (s x) (map s l) = map s (remove1 x l).
    Proof. induction l as [|y l IH]; cbn; [reflexivity|]. rewrite s_eqb. destruct (y =? x); cbn; [reflexivity | rewrite IH; reflexivity]. Qed.

    Lemma pairs_rn p : pairs (map s p) = map (map s) (pairs p).
    Proof.
      induction p as [|x p IH]; [reflexivity|]. destruct p as [|y p]; [reflexivity|].
      change (pairs (map s (x :: y :: p))) with ([s x; s y] :: pairs (map s (y :: p))).
      rewrite IH. reflexivity.
    Qed.

    Lemma dbl_adj_rn g : dbl_adj fd (rn_mol s g) = rn_adjT (dbl_adj fd g).
    Proof.
      unfold dbl_adj, rn_adjT. cbn [rn_mol m_atoms]. rewrite flat_map_map_comm, map_flat_map_comm.
      apply flat_map_ext. intros [n a]. cbn [fst snd]. destruct (fd (a_num a)); [|reflexivity]. cbn [map fst snd].
      rewrite nbrs_rn. unfold rn_nb. rewrite filter_map_comm, !map_map. cbn [fst snd]. do 3 f_equal.
      apply filter_ext. intros mb. rewrite anum_rn. reflexivity.
    Qed.

    Lemma terminals_of_rn adj : terminals_of (rn_adjT adj) = map s (terminals_of adj).
    Proof.
      unfold terminals_of, rn_adjT. rewrite filter_map_comm, !map_map. cbn [fst snd]. f_equal.
      apply filter_ext. intros kv. rewrite zlen_map. reflexivity.
    Qed.

    Definition rn_wres (r : pyres (adjT * list Z * list (list Z))) : pyres (adjT * list Z * list (list Z)) :=
      match r with
      | Ok (adj, terms, out) => Ok (rn_adjT adj, map s terms, map (map s) out)
      | Err e => Err e
      end.

    Lemma walk_rn fuel : forall g adj terms n m rpath,
      walk fuel (rn_mol s g) (rn_adjT adj) (map s terms) (s n) (s m) (map s rpath) = rn_wres (walk fuel g adj terms n m rpath).
    Proof.
      induction fuel as [|k IH]; intros g adj terms n m rpath; cbn [walk]; rewrite zmem_rn, aget_rn.
      - destruct (zmem m terms).
        + destruct (aget adj m) as [|x rest]; cbn [map]; [reflexivity|].
          rewrite aset_rn, remove1_rn, <- map_rev. reflexivity.
        + reflexivity.
      - destruct (zmem m terms).
        + destruct (aget adj m) as [|x rest]; cbn [map]; [reflexivity|].
          rewrite aset_rn, remove1_rn, <- map_rev. reflexivity.
        + rewrite nbrs_rn. unfold rn_nb. rewrite zlen_map.
          destruct (2 <? zlen (nbrs g m)).
          * cbn [rn_wres]. rewrite <- map_rev, pairs_rn. reflexivity.
          * rewrite zdiscard_rn. destruct (zdiscard n (aget adj m)) as [|m' rest]; cbn [map]; [reflexivity|].
            rewrite aset_rn. change (s m' :: map s rpath) with (map s (m' :: rpath)). apply IH.
    Qed.

    Definition rn_paths (r : pyres (list (list Z))) : pyres (list (list Z)) :=
      match r with Ok ps => Ok (map (map s) ps) | Err e => Err e end.

    Lemma cum_loop_rn fuel : forall g adj terms acc,
      cum_loop fuel (rn_mol s g) (rn_adjT adj) (map s terms) (map (map s) acc) = rn_paths (cum_loop fuel g adj terms acc).
    Proof.
      induction fuel as [|k IH]; intros g adj terms acc; destruct terms as [|n terms']; cbn [cum_loop map]; try reflexivity.
      rewrite aget_rn. destruct (aget adj n) as [|m rest]; cbn [map]; [reflexivity|].
      rewrite aset_rn. cbn [rn_mol m_atoms]. rewrite map_length.
      change [s m; s n] with (map s [m; n]).
      change (mkMol (map (fun na : Z * atom => (s (fst na), snd na)) (m_atoms g)) (rn_adj s (m_adj g))) with (rn_mol s g).
      rewrite walk_rn.
      destruct (walk (S (List.length (m_atoms g))) g (aset adj n rest) terms' n m [m; n]) as [[[adj' terms''] out]|e]; cbn [rn_wres]; [|reflexivity].
      rewrite <- map_app. apply IH.
    Qed.

    Theorem cumulenes_rn g : cumulenes fd (rn_mol s g) = rn_paths (cumulenes fd g).
    Proof.
      unfold cumulenes. rewrite dbl_adj_rn, terminals_of_rn, map_length.
      change (@nil (list Z)) with (map (map s) (@nil (list Z))). apply cum_loop_rn.
    Qed.

    (* ---------- stereogenic cumulenes ---------- *)
    Lemma end_blocked_rn g t k : end_blocked fs (rn_mol s g) (s t) (s k) = end_blocked fs g t k.
    Proof.
      unfold end_blocked. rewrite nbrs_rn. unfold rn_nb. rewrite existsb_map. apply existsb_ext. intros mb. cbn [fst snd].
      rewrite s_eqb, anum_rn. reflexivity.
    Qed.

    Lemma end_more_double_rn g t k : end_more_double (rn_mol s g) (s t) (s k) = end_more_double g t k.
    Proof.
      unfold end_more_double. rewrite nbrs_rn. unfold rn_nb. rewrite existsb_map. apply existsb_ext. intros mb. cbn [fst snd].
      rewrite s_eqb. reflexivity.
    Qed.

    Lemma end_crowded_rn g t : end_crowded (rn_mol s g) (s t) = end_crowded g t.
    Proof.
      unfold end_crowded. rewrite nbrs_rn. unfold rn_nb. rewrite filter_map_comm, zlen_map. reflexivity.
    Qed.

    Lemma end_subst_rn g t k : end_subst (rn_mol s g) (s t) (s k) = map s (end_subst g t k).
    Proof.
      unfold end_subst. rewrite nbrs_rn. unfold rn_nb. rewrite filter_map_comm, !map_map. cbn [fst snd].
      f_equal. apply filter_ext. intros mb. rewrite s_eqb, is_h_rn. reflexivity.
    Qed.

    Lemma second_of_rn l : second_of (map s l) = option_map s (second_of l).
    Proof.
      unfold second_of. rewrite zlen_map. destruct (zlen l =? 2); [|reflexivity].
      destruct l as [|x [|y [|z l]]]; reflexivity.
    Qed.

    Definition rn_pe (pe : list Z * env4) : list Z * env4 := (map s (fst pe), rn_env s (snd pe)).

    Lemma sg_cum_entry_rn g p : sg_cum_entry fs (rn_mol s g) (map s p) = map rn_pe (sg_cum_entry fs g p).
    Proof.
      unfold sg_cum_entry.
      destruct p as [|t1 [|n1 r]]; cbn [map]; try reflexivity.
      change (s t1 :: s n1 :: map s r) with (map s (t1 :: n1 :: r)). rewrite <- map_rev.
      destruct (rev (t1 :: n1 :: r)) as [|t2 [|m1 r2]]; cbn [map]; try reflexivity.
      rewrite !end_blocked_rn, !end_subst_rn, !end_more_double_rn, !end_crowded_rn.
      destruct (end_blocked fs g t1 n1); [reflexivity|]. destruct (end_blocked fs g t2 m1); [reflexivity|].
      destruct (end_more_double g t1 n1 || end_more_double g t2 m1); [reflexivity|].
      destruct (end_crowded g t1 || end_crowded g t2); [reflexivity|].
      destruct (end_subst g t1 n1) as [|a ra]; cbn [map]; [reflexivity|].
      destruct (end_subst g t2 m1) as [|c rc]; cbn [map]; [reflexivity|].
      change (s a :: map s ra) with (map s (a :: ra)). change (s c :: map s rc) with (map s (c :: rc)).
      rewrite !second_of_rn. reflexivity.
    Qed.

    Lemma sg_cumulenes_of_rn g ps :
      sg_cumulenes_of fs (rn_mol s g) (map (map s) ps) = map rn_pe (sg_cumulenes_of fs g ps).
    Proof.
      unfold sg_cumulenes_of. rewrite flat_map_map_comm, map_flat_map_comm. apply flat_map_ext. intros p. apply sg_cum_entry_rn.
    Qed.

    Lemma sg_cum_entry_len2 g p pe : In pe (sg_cum_entry fs g p) -> fst pe = p /\ (2 <= List.length p)%nat.
    Proof.
      unfold sg_cum_entry. destruct p as [|t1 [|n1 r]]; cbn [In]; try tauto.
      destruct (rev (t1 :: n1 :: r)) as [|t2 [|m1 r2]]; cbn [In]; try tauto.
      destruct (end_blocked fs g t1 n1); cbn [In]; [tauto|]. destruct (end_blocked fs g t2 m1); cbn [In]; [tauto|].
      destruct (end_more_double g t1 n1 || end_more_double g t2 m1); cbn [In]; [tauto|].
      destruct (end_crowded g t1 || end_crowded g t2); cbn [In]; [tauto|].
      destruct (end_subst g t1 n1) as [|a ra]; cbn [In]; [tauto|].
      destruct (end_subst g t2 m1) as [|c rc]; cbn [In]; [tauto|].
      intros [<-|[]]. cbn [fst List.length]. split; [reflexivity | lia].
    Qed.

    Lemma sg_cumulenes_of_len2 g ps pe : In pe (sg_cumulenes_of fs g ps) -> In (fst pe) ps /\ (2 <= List.length (fst pe))%nat.
    Proof.
      unfold sg_cumulenes_of. rewrite in_flat_map. intros [p [Hp Hin]]. destruct (sg_cum_entry_len2 g p pe Hin) as [-> Hl].
      split; assumption.
    Qed.

    (* ---------- the dict-building folds ---------- *)
    Lemma dset_rn {V W} (h : V -> W) (d : list (Z * V)) k v :
      dset (map (fun kv => (s (fst kv), h (snd kv))) d) (s k) (h v) = map (fun kv => (s (fst kv), h (snd kv))) (dset d k v).
    Proof.
      induction d as [|[k' v'] d IH]; cbn [map dset fst snd]; [reflexivity|]. rewrite s_eqb.
      destruct (k =? k'); cbn [map fst snd]; [reflexivity|]. rewrite IH. reflexivity.
    Qed.

    Lemma zz_eqb_rn a b : zz_eqb (rn_zz s a) (rn_zz s b) = zz_eqb a b.
    Proof. unfold zz_eqb, rn_zz. cbn [fst snd]. rewrite !s_eqb. reflexivity. Qed.

    Lemma dset2_rn {V W} (h : V -> W) (d : list (Z * Z * V)) k v :
      dset2 (map (fun kv => (rn_zz s (fst kv), h (snd kv))) d) (rn_zz s k) (h v) =
      map (fun kv => (rn_zz s (fst kv), h (snd kv))) (dset2 d k v).
    Proof.
      induction d as [|[k' v'] d IH]; cbn [map dset2 fst snd]; [reflexivity|]. rewrite zz_eqb_rn.
      destruct (zz_eqb k k'); cbn [map fst snd]; [reflexivity|]. rewrite IH. reflexivity.
    Qed.

    Lemma fold_left_rn {A B A' B'} (f : A -> B -> A) (f' : A' -> B' -> A') (ra : A -> A') (rb : B -> B') (l : list B) :
      (forall a b, In b l -> f' (ra a) (rb b) = ra (f a b)) ->
      forall a, fold_left f' (map rb l) (ra a) = ra (fold_left f l a).
    Proof.
      induction l as [|b l IH]; intros H a; cbn [map fold_left]; [reflexivity|].
      rewrite H by (left; reflexivity). apply IH. intros a' b' Hb. apply H. right. exact Hb.
    Qed.

    Lemma odd_len_rn p : odd_len (map s p) = odd_len p.
    Proof. unfold odd_len. rewrite map_length. reflexivity. Qed.

    Lemma nth_map_lt k (p : list Z) : (k < List.length p)%nat -> nth k (map s p) 0 = s (nth k p 0).
    Proof. intros H. rewrite (nth_indep _ 0 (s 0)) by (rewrite map_length; exact H). apply map_nth. Qed.

    Lemma div2_lt n : (1 <= n)%nat -> (Nat.div2 n < n)%nat.
    Proof. intros H. apply Nat.lt_div2. lia. Qed.

    Lemma centre_of_rn p : (2 <= List.length p)%nat -> centre_of (map s p) = s (centre_of p).
    Proof. intros H. unfold centre_of. rewrite map_length. apply nth_map_lt. apply div2_lt. lia. Qed.

    Lemma centre_lo_rn p : (2 <= List.length p)%nat -> centre_lo (map s p) = s (centre_lo p).
    Proof.
      intros H. unfold centre_lo. rewrite map_length. apply nth_map_lt.
      pose proof (div2_lt (List.length p)). lia.
    Qed.

    Lemma first_z_rn p : (2 <= List.length p)%nat -> first_z (map s p) = s (first_z p).
    Proof. destruct p; cbn; [lia | reflexivity]. Qed.

    Lemma last_z_rn p : (2 <= List.length p)%nat -> last_z (map s p) = s (last_z p).
    Proof.
      unfold last_z. intros H. induction p as [|x p IH]; [cbn in H; lia|].
      destruct p as [|y p]; [cbn in H; lia|]. destruct p as [|z p]; [reflexivity|].
      change (last (map s (x :: y :: z :: p)) 0) with (last (map s (y :: z :: p)) 0).
      change (last (x :: y :: z :: p) 0) with (last (y :: z :: p) 0). apply IH. cbn. lia.
    Qed.

    Definition len2 (sc : list (list Z * env4)) : Prop := forall pe, In pe sc -> (2 <= List.length (fst pe))%nat.

    Definition rn_ce (ce : Z * env4) : Z * env4 := (s (fst ce), rn_env s (snd ce)).
    Definition rn_ke (ke : Z * Z * env4) : Z * Z * env4 := (rn_zz s (fst ke), rn_env s (snd ke)).
    Definition rn_czz (ct : Z * (Z * Z)) : Z * (Z * Z) := (s (fst ct), rn_zz s (snd ct)).
    Definition rn_pair (tc : Z * Z) : Z * Z := (s (fst tc), s (snd tc)).

    Lemma sg_allenes_of_rn sc : len2 sc -> sg_allenes_of (map rn_pe sc) = map rn_ce (sg_allenes_of sc).
    Proof.
      intros H. unfold sg_allenes_of. change (@nil (Z * env4)) with (map rn_ce []) at 1.
      apply fold_left_rn. intros d pe Hin. unfold rn_pe at 1 2 3. cbn [fst snd]. rewrite odd_len_rn.
      destruct (odd_len (fst pe)); [|reflexivity]. rewrite centre_of_rn by (apply H, Hin).
      apply (dset_rn (rn_env s)).
    Qed.

    Lemma sg_cis_trans_of_rn sc : len2 sc -> sg_cis_trans_of (map rn_pe sc) = map rn_ke (sg_cis_trans_of sc).
    Proof.
      intros H. unfold sg_cis_trans_of. change (@nil (Z * Z * env4)) with (map rn_ke []) at 1.
      apply fold_left_rn. intros d pe Hin. unfold rn_pe at 1 2 3 4. cbn [fst snd]. rewrite odd_len_rn.
      destruct (odd_len (fst pe)); [reflexivity|]. rewrite first_z_rn, last_z_rn by (apply H, Hin).
      apply (dset2_rn (rn_env s) d (first_z (fst pe), last_z (fst pe))).
    Qed.

    Lemma allenes_terminals_of_rn sc : len2 sc -> allenes_terminals_of (map rn_pe sc) = map rn_czz (allenes_terminals_of sc).
    Proof.
      intros H. unfold allenes_terminals_of. change (@nil (Z * (Z * Z))) with (map rn_czz []) at 1.
      apply fold_left_rn. intros d pe Hin. unfold rn_pe. cbn [fst snd]. rewrite odd_len_rn.
      destruct (odd_len (fst pe)); [|reflexivity]. rewrite centre_of_rn, first_z_rn, last_z_rn by (apply H, Hin).
      apply (dset_rn (rn_zz s) d (centre_of (fst pe)) (first_z (fst pe), last_z (fst pe))).
    Qed.

    Lemma allenes_centers_of_rn at_ : allenes_centers_of (map rn_czz at_) = map rn_pair (allenes_centers_of at_).
    Proof.
      unfold allenes_centers_of. change (@nil (Z * Z)) with (map rn_pair []) at 1.
      apply fold_left_rn. intros d cnm _. unfold rn_czz, rn_zz. cbn [fst snd].
      unfold rn_pair. rewrite (dset_rn s), (dset_rn s). reflexivity.
    Qed.

    Lemma dset_czz d k v : dset (map rn_czz d) (s k) (rn_zz s v) = map rn_czz (dset d k v).
    Proof. exact (dset_rn (rn_zz s) d k v). Qed.

    Lemma ct_centers_of_rn sc : len2 sc -> ct_centers_of (map rn_pe sc) = map rn_czz (ct_centers_of sc).
    Proof.
      intros H. unfold ct_centers_of. change (@nil (Z * (Z * Z))) with (map rn_czz []) at 1.
      apply fold_left_rn. intros d pe Hin. unfold rn_pe. cbn [fst snd]. rewrite odd_len_rn.
      destruct (odd_len (fst pe)); [reflexivity|].
      rewrite centre_of_rn, centre_lo_rn, first_z_rn, last_z_rn by (apply H, Hin).
      change (s (centre_lo (fst pe)), s (centre_of (fst pe))) with (rn_zz s (centre_lo (fst pe), centre_of (fst pe))).
      rewrite !dset_czz. reflexivity.
    Qed.

    Lemma ct_terminals_of_rn sc : len2 sc -> ct_terminals_of (map rn_pe sc) = map rn_czz (ct_terminals_of sc).
    Proof.
      intros H. unfold ct_terminals_of. change (@nil (Z * (Z * Z))) with (map rn_czz []) at 1.
      apply fold_left_rn. intros d pe Hin. unfold rn_pe. cbn [fst snd]. rewrite odd_len_rn.
      destruct (odd_len (fst pe)); [reflexivity|].
      rewrite centre_of_rn, centre_lo_rn, first_z_rn, last_z_rn by (apply H, Hin).
      cbv zeta.
      change (s (first_z (fst pe)), s (last_z (fst pe))) with (rn_zz s (first_z (fst pe), last_z (fst pe))).
      rewrite !dset_czz. reflexivity.
    Qed.

    Lemma ct_counterpart_of_rn sc : len2 sc -> ct_counterpart_of (map rn_pe sc) = map rn_pair (ct_counterpart_of sc).
    Proof.
      intros H. unfold ct_counterpart_of. change (@nil (Z * Z)) with (map rn_pair []) at 1.
      apply fold_left_rn. intros d pe Hin. unfold rn_pe. cbn [fst snd]. rewrite odd_len_rn.
      destruct (odd_len (fst pe)); [reflexivity|].
      rewrite first_z_rn, last_z_rn by (apply H, Hin).
      unfold rn_pair. rewrite (dset_rn s), (dset_rn s). reflexivity.
    Qed.

    (* ---------- all registries at once ---------- *)
    Definition rn_regres (r : pyres registries) : pyres registries :=
      match r with Ok x => Ok (rn_reg s x) | Err e => Err e end.

    Theorem registries_rn g : registries_of fs fd (rn_mol s g) = rn_regres (registries_of fs fd g).
    Proof.
      unfold registries_of. rewrite cumulenes_rn. destruct (cumulenes fd g) as [ps|e]; cbn [rn_paths rn_regres]; [|reflexivity].
      rewrite sg_cumulenes_of_rn.
      assert (L : len2 (sg_cumulenes_of fs g ps)). { intros pe Hin. apply (sg_cumulenes_of_len2 g ps pe Hin). }
      rewrite sg_allenes_of_rn, sg_cis_trans_of_rn, allenes_terminals_of_rn, ct_centers_of_rn, ct_terminals_of_rn,
        ct_counterpart_of_rn by exact L.
      rewrite allenes_centers_of_rn, tetrahedrons_rn, sg_tetrahedrons_rn. reflexivity.
    Qed.
  End WithTables.
End Renumbering.

(* ====================================================================================================== *)
(* 2. what the environment tuples list *)

Lemma filter_split_perm {A} (p : A -> bool) l : Permutation l (filter (fun x => negb (p x)) l ++ filter p l).
Proof.
  induction l as [|x l IH]; cbn; [constructor|]. destruct (p x); cbn.
  - apply Permutation_cons_app. exact IH.
  - constructor. exact IH.
Qed.

Lemma filter_length_le {A} (p : A -> bool) l : (List.length (filter p l) <= List.length l)%nat.
Proof. induction l as [|x l IH]; cbn; [lia|]. destruct (p x); cbn; lia. Qed.

Lemma filter_full {A} (p : A -> bool) l : List.length (filter p l) = List.length l -> filter p l = l.
Proof.
  induction l as [|x l IH]; cbn; [reflexivity|]. destruct (p x); cbn; intros H.
  - f_equal. apply IH. lia.
  - pose proof (filter_length_le p l). lia.
Qed.

Lemma tetrahedrons_In g n : In n (tetrahedrons g) <-> exists a, In (n, a) (m_atoms g) /\ is_tetra g (n, a) = true.
Proof.
  unfold tetrahedrons. rewrite in_map_iff. split.
  - intros [[n' a] [E H]]. cbn in E. subst n'. apply filter_In in H. exists a. exact H.
  - intros [a H]. exists (n, a). split; [reflexivity | apply filter_In; exact H].
Qed.

(* a tetrahedron is an uncharged non-radical carbon with at most four neighbours, all bound by single bonds *)
Theorem tetrahedrons_spec g n : In n (tetrahedrons g) ->
  exists a, In (n, a) (m_atoms g) /\ a_num a = 6 /\ a_chg a = 0 /\ a_rad a = false /\
            (forall m b, In (m, b) (nbrs g n) -> b_ord b = 1) /\ zlen (nbr_ids g n) <= 4.
Proof.
  rewrite tetrahedrons_In. intros [a [Hin H]]. exists a. split; [exact Hin|]. unfold is_tetra in H. cbn [fst snd] in H.
  repeat (apply andb_prop in H; destruct H as [H ?]).
  repeat split.
  - apply Z.eqb_eq. assumption.
  - apply Z.eqb_eq. assumption.
  - apply negb_true_iff. assumption.
  - intros m b Hm. rewrite forallb_forall in H1. specialize (H1 (m, b) Hm). apply Z.eqb_eq. exact H1.
  - unfold nbr_ids, keys, zlen. rewrite map_length. apply negb_true_iff in H0. apply Z.ltb_ge in H0. exact H0.
Qed.

Section EnvSpec.
  Variable fs : Z -> bool.

  (* stereogenic_tetrahedrons[n] is exactly the list of the non-hydrogen neighbours of n in the order of _bonds[n];
     it exists iff n is a tetrahedron without a metal neighbour that has 3 or 4 such neighbours *)
  Theorem sg_th_spec g n env : In (n, env) (sg_tetrahedrons fs g) <->
    In n (tetrahedrons g) /\ existsb (fun x => negb (fs (anum g x))) (nbr_ids g n) = false /\
    env = th_env g n /\ (zlen env = 3 \/ zlen env = 4).
  Proof.
    unfold sg_tetrahedrons. rewrite in_flat_map. split.
    - intros [k [Hk Hin]]. unfold sg_th_entry in Hin.
      destruct (existsb (fun x => negb (fs (anum g x))) (nbr_ids g k)) eqn:Ex; [contradiction|].
      destruct ((zlen (th_env g k) =? 3) || (zlen (th_env g k) =? 4)) eqn:El; [|contradiction].
      destruct Hin as [E|[]]. injection E as <- <-. repeat split; try assumption.
      apply orb_prop in El. destruct El as [El|El]; apply Z.eqb_eq in El; tauto.
    - intros (Hn & Ex & -> & Hl). exists n. split; [exact Hn|]. unfold sg_th_entry. rewrite Ex.
      assert (E : (zlen (th_env g n) =? 3) || (zlen (th_env g n) =? 4) = true).
      { destruct Hl as [->| ->]; reflexivity. }
      rewrite E. left. reflexivity.
  Qed.

  (* the neighbours of n are the environment plus the explicit hydrogens *)
  Theorem th_env_neighbours g n : Permutation (nbr_ids g n) (th_env g n ++ filter (is_h g) (nbr_ids g n)).
  Proof. unfold th_env. apply filter_split_perm. Qed.

  (* explicit-hydrogen convention: four listed neighbours = all neighbours, none is a hydrogen; three listed
     neighbours = every other neighbour is an explicit hydrogen and there is at most one (the fourth position of
     translate_th is then the explicit or the implicit hydrogen) *)
  Theorem sg_th_hydrogens g n env : In (n, env) (sg_tetrahedrons fs g) ->
    (zlen env = 4 -> env = nbr_ids g n /\ filter (is_h g) (nbr_ids g n) = []) /\
    (zlen env = 3 -> (List.length (filter (is_h g) (nbr_ids g n)) <= 1)%nat /\
                     forall x, In x (nbr_ids g n) -> In x env \/ is_h g x = true).
  Proof.
    intros H. apply sg_th_spec in H. destruct H as (Hn & _ & -> & _).
    destruct (tetrahedrons_spec g n Hn) as (a & _ & _ & _ & _ & _ & Hle).
    pose proof (Permutation_length (th_env_neighbours g n)) as HL. rewrite app_length in HL. unfold zlen in *.
    split; intros H4.
    - assert (Hf : List.length (th_env g n) = List.length (nbr_ids g n)) by lia.
      split; [apply filter_full; exact Hf|].
      destruct (filter (is_h g) (nbr_ids g n)); [reflexivity | cbn in HL; lia].
    - split; [lia|]. intros x Hx. apply (Permutation_in _ (th_env_neighbours g n)) in Hx. apply in_app_or in Hx.
      destruct Hx as [Hx|Hx]; [left; exact Hx | right; apply filter_In in Hx; tauto].
  Qed.

  (* ---- cumulene environments ---- *)
  Lemma end_subst_In g t k x : In x (end_subst g t k) <->
    exists b, In (x, b) (nbrs g t) /\ x <> k /\ is_h g x = false /\ b_ord b <> 8.
  Proof.
    unfold end_subst. rewrite in_map_iff. split.
    - intros [[x' b] [E H]]. cbn in E. subst x'. apply filter_In in H. destruct H as [Hin H]. cbn [fst snd] in H.
      apply andb_prop in H. destruct H as [H H8]. apply andb_prop in H. destruct H as [Hk Hh].
      exists b. repeat split; [exact Hin | | |].
      + apply negb_true_iff, Z.eqb_neq in Hk. exact Hk.
      + apply negb_true_iff in Hh. exact Hh.
      + apply negb_true_iff, Z.eqb_neq in H8. exact H8.
    - intros (b & Hin & Hk & Hh & H8). exists (x, b). split; [reflexivity|]. apply filter_In. split; [exact Hin|].
      cbn [fst snd]. rewrite Hh. apply Z.eqb_neq in Hk, H8. rewrite Hk, H8. reflexivity.
  Qed.

  Lemma second_of_eq l : second_of l = match l with [_; y] => Some y | _ => None end.
  Proof.
    unfold second_of. destruct l as [|a [|b [|c l]]]; try reflexivity.
    destruct (zlen (a :: b :: c :: l) =? 2); reflexivity.
  Qed.

  Lemma second_of_Some l y : second_of l = Some y <-> exists x, l = [x; y].
  Proof.
    rewrite second_of_eq. destruct l as [|a [|b [|c l]]]; split; try discriminate; try (intros [x Hx]; discriminate).
    - intros E. injection E as <-. exists a. reflexivity.
    - intros [x Hx]. injection Hx as <- <-. reflexivity.
  Qed.

  Lemma second_of_None l : second_of l = None <-> List.length l <> 2%nat.
  Proof.
    rewrite second_of_eq. destruct l as [|a [|b [|c l]]]; cbn [List.length]; split; try discriminate; try lia; try reflexivity.
  Qed.

  (* stereogenic_cumulenes[path] = (n0, n1, n2, n3): n0 (n1) is the first substituent of the first (last) atom of the path in
     _bonds order, where "substituent" means: a neighbour other than the next chain atom, not a hydrogen, not bound by a
     special (order 8) bond; n2 (n3) is the second one exactly when there are precisely two, and None otherwise (no second
     heavy substituent: an implicit or explicit hydrogen or nothing stands there -- or there are three and more).
     Neither end carries a triple bond or a metal bound by an ordinary bond. *)
  Theorem sg_cum_spec g ps path n0 n1 n2 n3 : In (path, (n0, n1, n2, n3)) (sg_cumulenes_of fs g ps) ->
    In path ps /\
    exists t1 x1 r t2 y1 r', path = t1 :: x1 :: r /\ rev path = t2 :: y1 :: r' /\
      end_blocked fs g t1 x1 = false /\ end_blocked fs g t2 y1 = false /\
      end_more_double g t1 x1 = false /\ end_more_double g t2 y1 = false /\
      end_crowded g t1 = false /\ end_crowded g t2 = false /\
      (exists ra, end_subst g t1 x1 = n0 :: ra /\ n2 = second_of (n0 :: ra)) /\
      (exists rc, end_subst g t2 y1 = n1 :: rc /\ n3 = second_of (n1 :: rc)).
  Proof.
    unfold sg_cumulenes_of. rewrite in_flat_map. intros [p [Hp Hin]]. unfold sg_cum_entry in Hin.
    destruct p as [|t1 [|x1 r]]; try contradiction.
    destruct (rev (t1 :: x1 :: r)) as [|t2 [|y1 r']] eqn:Er; try contradiction.
    destruct (end_blocked fs g t1 x1) eqn:B1; [contradiction|]. destruct (end_blocked fs g t2 y1) eqn:B2; [contradiction|].
    destruct (end_more_double g t1 x1 || end_more_double g t2 y1) eqn:D; [contradiction|]. apply orb_false_elim in D. destruct D as [D1 D2].
    destruct (end_crowded g t1 || end_crowded g t2) eqn:Cr; [contradiction|]. apply orb_false_elim in Cr. destruct Cr as [C1 C2].
    destruct (end_subst g t1 x1) as [|a ra] eqn:E1; [contradiction|].
    destruct (end_subst g t2 y1) as [|c rc] eqn:E2; [contradiction|].
    destruct Hin as [E|[]]. injection E as <- <- <- <- <-.
    split; [exact Hp|]. exists t1, x1, r, t2, y1, r'. repeat split; try assumption.
    - exists ra. split; [exact E1 | reflexivity].
    - exists rc. split; [exact E2 | reflexivity].
  Qed.
End EnvSpec.

(* ====================================================================================================== *)
(* 3. the paths of `cumulenes` are chains of double bonds between terminals *)

Definition chain (adj0 : adjT) (p : list Z) : Prop := forall x y, In [x; y] (pairs p) -> In y (aget adj0 x).
Definition sub_adj (adj adj0 : adjT) : Prop := forall k x, In x (aget adj k) -> In x (aget adj0 k).

Lemma aget_aset_In adj n l k x :
  In x (aget (aset adj n l) k) -> (k = n /\ In x l) \/ (k <> n /\ In x (aget adj k)).
Proof.
  unfold aget. induction adj as [|[k' v] adj IH]; cbn [aset zget]; [intros []|].
  destruct (Z.eqb_spec n k') as [->|Hn]; cbn [zget].
  - destruct (Z.eqb_spec k k') as [->|Hk]; [left; tauto | right; tauto].
  - destruct (Z.eqb_spec k k') as [->|Hk].
    + intros H. right. split; [congruence | exact H].
    + exact IH.
Qed.

Lemma sub_adj_aset adj adj0 n l : sub_adj adj adj0 -> (forall x, In x l -> In x (aget adj n)) -> sub_adj (aset adj n l) adj0.
Proof.
  intros H Hl k x Hx. apply aget_aset_In in Hx. destruct Hx as [[-> Hx]|[_ Hx]]; apply H; [apply Hl|]; exact Hx.
Qed.

Lemma zdiscard_In n l x : In x (zdiscard n l) -> In x l.
Proof. unfold zdiscard. intros H. apply filter_In in H. tauto. Qed.

Lemma remove1_incl x l : incl (remove1 x l) l.
Proof.
  induction l as [|y l IH]; cbn; [intros ? []|]. destruct (y =? x); intros z Hz; [right; exact Hz|].
  destruct Hz as [->|Hz]; [left; reflexivity | right; apply IH; exact Hz].
Qed.

Lemma pairs_cons2 x y r : pairs (x :: y :: r) = [x; y] :: pairs (y :: r).
Proof. reflexivity. Qed.

Lemma pairs_snoc l a b : pairs ((l ++ [a]) ++ [b]) = pairs (l ++ [a]) ++ [[a; b]].
Proof.
  induction l as [|x l IH]; [reflexivity|].
  destruct l as [|y l].
  - reflexivity.
  - change (((x :: y :: l) ++ [a]) ++ [b]) with (x :: y :: ((l ++ [a]) ++ [b])).
    change ((x :: y :: l) ++ [a]) with (x :: y :: (l ++ [a])).
    rewrite !pairs_cons2. change (y :: (l ++ [a]) ++ [b]) with (((y :: l) ++ [a]) ++ [b]).
    rewrite IH. reflexivity.
Qed.

Lemma pairs_len2 p q : In q (pairs p) -> exists x y, q = [x; y].
Proof.
  induction p as [|x p IH]; [intros []|]. destruct p as [|y p]; [intros []|]. rewrite pairs_cons2.
  intros [<-|H]; [exists x, y; reflexivity | apply IH; exact H].
Qed.

Lemma first_z_snoc l x : l <> [] -> first_z (l ++ [x]) = first_z l.
Proof. destruct l; [congruence | reflexivity]. Qed.

Lemma last_z_snoc l x : last_z (l ++ [x]) = x.
Proof. unfold last_z. apply last_last. Qed.

Section Chains.
  Variable adj0 : adjT.
  Variable T0 : list Z.

  Definition path_ok (start : Z) (p : list Z) : Prop :=
    (2 <= List.length p)%nat /\ chain adj0 p /\
    (List.length p = 2%nat \/ (first_z p = start /\ In (last_z p) T0)).

  Lemma walk_spec : forall fuel g adj terms n m rest adj' terms' out,
    walk fuel g adj terms n m (m :: n :: rest) = Ok (adj', terms', out) ->
    sub_adj adj adj0 -> incl terms T0 -> chain adj0 (rev (m :: n :: rest)) ->
    sub_adj adj' adj0 /\ incl terms' terms /\ forall p, In p out -> path_ok (first_z (rev (m :: n :: rest))) p.
  Proof.
    induction fuel as [|k IH]; intros g adj terms n m rest adj' terms' out Hw Hs Ht Hc; cbn [walk] in Hw.
    - destruct (zmem m terms) eqn:Em; [|discriminate].
      destruct (aget adj m) as [|x0 rest0] eqn:Ea; [discriminate|]. injection Hw as <- <- <-.
      split; [|split].
      + apply sub_adj_aset; [exact Hs|]. intros x Hx. rewrite Ea. right. exact Hx.
      + apply remove1_incl.
      + intros p [<-|[]]. split; [|split].
        * cbn [rev]. rewrite !app_length. cbn [List.length]. lia.
        * exact Hc.
        * right. split; [reflexivity|]. cbn [rev]. rewrite last_z_snoc. apply Ht. apply zmem_In. exact Em.
    - destruct (zmem m terms) eqn:Em.
      + destruct (aget adj m) as [|x0 rest0] eqn:Ea; [discriminate|]. injection Hw as <- <- <-.
        split; [|split].
        * apply sub_adj_aset; [exact Hs|]. intros x Hx. rewrite Ea. right. exact Hx.
        * apply remove1_incl.
        * intros p [<-|[]]. split; [|split].
          -- cbn [rev]. rewrite !app_length. cbn [List.length]. lia.
          -- exact Hc.
          -- right. split; [reflexivity|]. cbn [rev]. rewrite last_z_snoc. apply Ht. apply zmem_In. exact Em.
      + destruct (2 <? zlen (nbrs g m)).
        * injection Hw as <- <- <-. split; [exact Hs|]. split; [apply incl_refl|].
          intros p Hp. destruct (pairs_len2 _ _ Hp) as (x & y & ->). split; [cbn; lia|]. split; [|left; reflexivity].
          intros x' y' Hxy. cbn in Hxy. destruct Hxy as [E|[]]. injection E as <- <-. apply Hc. exact Hp.
        * destruct (zdiscard n (aget adj m)) as [|m' rest0] eqn:Ed; [discriminate|].
          assert (Hm' : In m' (aget adj m)). { apply (zdiscard_In n). rewrite Ed. left. reflexivity. }
          assert (Hc' : chain adj0 (rev (m' :: m :: n :: rest))).
          { change (rev (m' :: m :: n :: rest)) with ((rev (n :: rest) ++ [m]) ++ [m']).
            intros x y Hxy. rewrite pairs_snoc in Hxy. apply in_app_or in Hxy. destruct Hxy as [Hxy|[E|[]]].
            - apply Hc. exact Hxy.
            - injection E as <- <-. apply Hs. exact Hm'. }
          specialize (IH g (aset adj m rest0) terms m m' (n :: rest) adj' terms' out Hw).
          destruct IH as (I1 & I2 & I3); [| exact Ht | exact Hc' |].
          { apply sub_adj_aset; [exact Hs|]. intros x Hx. apply (zdiscard_In n). rewrite Ed. right. exact Hx. }
          split; [exact I1|]. split; [exact I2|]. intros p Hp. specialize (I3 p Hp).
          replace (first_z (rev (m :: n :: rest))) with (first_z (rev (m' :: m :: n :: rest))); [exact I3|].
          change (rev (m' :: m :: n :: rest)) with (rev (m :: n :: rest) ++ [m']). apply first_z_snoc.
          cbn [rev]. intros E. apply app_eq_nil in E. destruct E as [_ E]. discriminate.
  Qed.

  Definition path_ok' (p : list Z) : Prop :=
    (2 <= List.length p)%nat /\ chain adj0 p /\
    (List.length p = 2%nat \/ (In (first_z p) T0 /\ In (last_z p) T0)).

  Lemma cum_loop_spec : forall fuel g adj terms acc res,
    cum_loop fuel g adj terms acc = Ok res -> sub_adj adj adj0 -> incl terms T0 ->
    (forall p, In p acc -> path_ok' p) -> forall p, In p res -> path_ok' p.
  Proof.
    induction fuel as [|k IH]; intros g adj terms acc res Hl Hs Ht Ha; destruct terms as [|n terms']; cbn [cum_loop] in Hl.
    - injection Hl as <-. exact Ha.
    - discriminate.
    - injection Hl as <-. exact Ha.
    - destruct (aget adj n) as [|m rest0] eqn:Ea; [discriminate|].
      destruct (walk (S (List.length (m_atoms g))) g (aset adj n rest0) terms' n m [m; n]) as [[[adj' terms''] out]|e] eqn:Ew;
        [|discriminate].
      assert (Hm : In m (aget adj0 n)). { apply Hs. rewrite Ea. left. reflexivity. }
      destruct (walk_spec _ _ _ _ _ _ [] _ _ _ Ew) as (W1 & W2 & W3).
      + apply sub_adj_aset; [exact Hs|]. intros x Hx. rewrite Ea. right. exact Hx.
      + intros x Hx. apply Ht. right. exact Hx.
      + intros x y Hxy. cbn in Hxy. destruct Hxy as [E|[]]. injection E as <- <-. exact Hm.
      + apply (IH g adj' terms'' (acc ++ out) res Hl W1).
        * intros x Hx. apply Ht. right. apply W2. exact Hx.
        * intros p Hp. apply in_app_or in Hp. destruct Hp as [Hp|Hp]; [apply Ha; exact Hp|].
          destruct (W3 p Hp) as (L & C & E). split; [exact L|]. split; [exact C|].
          destruct E as [E|[E1 E2]]; [left; exact E | right]. split; [|exact E2].
          rewrite E1. cbn. apply Ht. left. reflexivity.
  Qed.
End Chains.

Lemma sub_adj_refl adj : sub_adj adj adj.
Proof. intros k x H. exact H. Qed.

(* every path has at least two atoms, consecutive atoms are joined in the double-bond adjacency, and a path with more
   than two atoms starts and ends at a terminal (an atom with exactly one double-bond partner): it is a maximal chain.
   Paths with exactly two atoms are single double bonds: whole chains of two atoms, or the pieces of a chain cut at an atom
   with more than two neighbours (their ends need not be terminals: see cut_chain_example). *)
Theorem cumulenes_chains fd g ps : cumulenes fd g = Ok ps -> forall p, In p ps ->
  (2 <= List.length p)%nat /\ chain (dbl_adj fd g) p /\
  (List.length p = 2%nat \/ (In (first_z p) (terminals_of (dbl_adj fd g)) /\ In (last_z p) (terminals_of (dbl_adj fd g)))).
Proof.
  unfold cumulenes. intros H p Hp.
  apply (cum_loop_spec (dbl_adj fd g) (terminals_of (dbl_adj fd g)) _ _ _ _ _ _ H); [apply sub_adj_refl | apply incl_refl | intros ? [] | exact Hp].
Qed.

(* membership in the double-bond adjacency means: a double bond to an atom that can form double bonds *)
Lemma dbl_adj_In fd g x y : In y (aget (dbl_adj fd g) x) ->
  fd (anum g y) = true /\ exists b, In (y, b) (nbrs g x) /\ b_ord b = 2.
Proof.
  unfold aget, dbl_adj. induction (m_atoms g) as [|[n a] l IH]; cbn [flat_map fst snd]; [intros []|].
  destruct (fd (a_num a)); cbn [app zget]; [|exact IH].
  destruct (x =? n) eqn:E; [|exact IH]. apply Z.eqb_eq in E. subst n.
  rewrite in_map_iff. intros [[y' b] [Ey H]]. cbn in Ey. subst y'. apply filter_In in H. destruct H as [Hin H]. cbn [fst snd] in H.
  apply andb_prop in H. destruct H as [H2 Hf]. split; [exact Hf|]. exists b. split; [exact Hin | apply Z.eqb_eq; exact H2].
Qed.

Lemma terminals_of_In adj t : In t (terminals_of adj) -> exists l, In (t, l) adj /\ List.length l = 1%nat.
Proof.
  unfold terminals_of. rewrite in_map_iff. intros [[t' l] [E H]]. cbn in E. subst t'. apply filter_In in H. destruct H as [Hin H].
  cbn [snd] in H. apply Z.eqb_eq in H. unfold zlen in H. exists l. split; [exact Hin | lia].
Qed.

(* in words of the molecule: consecutive atoms of a cumulene path are joined by a bond of order 2 *)
Corollary cumulenes_double_bonds fd g ps : cumulenes fd g = Ok ps -> forall p x y, In p ps -> In [x; y] (pairs p) ->
  exists b, In (y, b) (nbrs g x) /\ b_ord b = 2.
Proof.
  intros H p x y Hp Hxy. destruct (cumulenes_chains fd g ps H p Hp) as (_ & C & _).
  apply (dbl_adj_In fd g x y). apply C. exact Hxy.
Qed.

(* ====================================================================================================== *)
(* 4. the derived registries: every entry comes from a stereogenic path of the right parity, every such path has its entry *)

Lemma dset_In {V} (d : list (Z * V)) k v k' v' : In (k', v') (dset d k v) -> (k' = k /\ v' = v) \/ In (k', v') d.
Proof.
  induction d as [|[k0 v0] d IH]; cbn [dset].
  - intros [E|[]]. injection E as <- <-. left. tauto.
  - destruct (Z.eqb_spec k k0) as [->|Hk].
    + intros [E|H]; [injection E as <- <-; left; tauto | right; right; exact H].
    + intros [E|H]; [right; left; exact E|]. destruct (IH H) as [?|?]; [left; assumption | right; right; assumption].
Qed.

Lemma dset_key {V} (d : list (Z * V)) k v : exists v', In (k, v') (dset d k v).
Proof.
  induction d as [|[k0 v0] d IH]; cbn [dset]; [exists v; left; reflexivity|].
  destruct (Z.eqb_spec k k0) as [->|Hk]; [exists v; left; reflexivity|]. destruct IH as [v' H]. exists v'. right. exact H.
Qed.

Lemma dset_keeps_key {V} (d : list (Z * V)) k v k' v' : In (k', v') d -> exists v'', In (k', v'') (dset d k v).
Proof.
  induction d as [|[k0 v0] d IH]; cbn [dset]; [intros []|].
  destruct (Z.eqb_spec k k0) as [->|Hk].
  - intros [E|H]; [injection E as <- <-; exists v; left; reflexivity | exists v'; right; exact H].
  - intros [E|H]; [exists v'; left; exact E|]. destruct (IH H) as [v'' H']. exists v''. right. exact H'.
Qed.

Lemma zz_eqb_eq a b : zz_eqb a b = true <-> a = b.
Proof.
  destruct a as [a1 a2], b as [b1 b2]. unfold zz_eqb. cbn [fst snd]. rewrite andb_true_iff, !Z.eqb_eq. split.
  - intros [-> ->]. reflexivity.
  - intros E. injection E as -> ->. tauto.
Qed.

Lemma dset2_In {V} (d : list (Z * Z * V)) k v k' v' : In (k', v') (dset2 d k v) -> (k' = k /\ v' = v) \/ In (k', v') d.
Proof.
  induction d as [|[k0 v0] d IH]; cbn [dset2].
  - intros [E|[]]. injection E as <- <-. left. tauto.
  - destruct (zz_eqb k k0) eqn:Ek.
    + apply zz_eqb_eq in Ek. subst k0. intros [E|H]; [injection E as <- <-; left; tauto | right; right; exact H].
    + intros [E|H]; [right; left; exact E|]. destruct (IH H) as [?|?]; [left; assumption | right; right; assumption].
Qed.

Lemma dset2_key {V} (d : list (Z * Z * V)) k v : exists v', In (k, v') (dset2 d k v).
Proof.
  induction d as [|[k0 v0] d IH]; cbn [dset2]; [exists v; left; reflexivity|].
  destruct (zz_eqb k k0) eqn:Ek; [apply zz_eqb_eq in Ek; subst k0; exists v; left; reflexivity|].
  destruct IH as [v' H]. exists v'. right. exact H.
Qed.

Lemma dset2_keeps_key {V} (d : list (Z * Z * V)) k v k' v' : In (k', v') d -> exists v'', In (k', v'') (dset2 d k v).
Proof.
  induction d as [|[k0 v0] d IH]; cbn [dset2]; [intros []|].
  destruct (zz_eqb k k0) eqn:Ek.
  - apply zz_eqb_eq in Ek. subst k0. intros [E|H]; [injection E as <- <-; exists v; left; reflexivity | exists v'; right; exact H].
  - intros [E|H]; [exists v'; left; exact E|]. destruct (IH H) as [v'' H']. exists v''. right. exact H'.
Qed.

(* a fold over the stereogenic paths: invariant "every entry comes from a path" (soundness) *)
Lemma fold_left_inv {A B} (f : A -> B -> A) (P : A -> Prop) (l : list B) :
  (forall a b, In b l -> P a -> P (f a b)) -> forall a, P a -> P (fold_left f l a).
Proof.
  induction l as [|b l IH]; intros H a Ha; cbn [fold_left]; [exact Ha|].
  apply IH; [intros a' b' Hb; apply H; right; exact Hb | apply H; [left; reflexivity | exact Ha]].
Qed.

Definition env4_t := env4.

(* stereogenic_allenes: an entry (c, e) comes from an odd stereogenic path with centre c and environment e *)
Theorem sg_allenes_sound sc c e : In (c, e) (sg_allenes_of sc) ->
  exists p, In (p, e) sc /\ odd_len p = true /\ c = centre_of p.
Proof.
  unfold sg_allenes_of.
  apply (fold_left_inv _ (fun d => In (c, e) d -> exists p, In (p, e) sc /\ odd_len p = true /\ c = centre_of p)); [|intros []].
  intros d [p e'] Hin IH. cbn [fst snd]. destruct (odd_len p) eqn:Eo; [|exact IH].
  intros H. apply dset_In in H. destruct H as [[-> ->]|H]; [exists p; tauto | apply IH; exact H].
Qed.

(* generic completeness of a dict-building fold: a step never loses a key and a selected element adds its key *)
Lemma fold_keeps {K V B} (f : list (K * V) -> B -> list (K * V)) (l : list B) :
  (forall d b k, (exists v, In (k, v) d) -> exists v, In (k, v) (f d b)) ->
  forall d k, (exists v, In (k, v) d) -> exists v, In (k, v) (fold_left f l d).
Proof.
  intros Hk. induction l as [|b l IH]; intros d k H; cbn [fold_left]; [exact H|]. apply IH. apply Hk. exact H.
Qed.

Lemma fold_complete {K V B} (f : list (K * V) -> B -> list (K * V)) (c : B -> bool) (key : B -> K) (l : list B) :
  (forall d b k, (exists v, In (k, v) d) -> exists v, In (k, v) (f d b)) ->
  (forall d b, c b = true -> exists v, In (key b, v) (f d b)) ->
  forall b d, In b l -> c b = true -> exists v, In (key b, v) (fold_left f l d).
Proof.
  intros Hk Ha b. induction l as [|b0 l IH]; intros d Hin Hc; [destruct Hin|]. cbn [fold_left].
  destruct Hin as [->|Hin]; [|apply IH; assumption].
  apply fold_keeps; [exact Hk | apply Ha; exact Hc].
Qed.

(* and every odd stereogenic path has an entry under its centre *)
Theorem sg_allenes_complete sc p e : In (p, e) sc -> odd_len p = true -> exists e', In (centre_of p, e') (sg_allenes_of sc).
Proof.
  intros Hin Ho. unfold sg_allenes_of.
  apply (fold_complete _ (fun pe => odd_len (fst pe)) (fun pe => centre_of (fst pe)) sc) with (b := (p, e)); [| |exact Hin|exact Ho].
  - intros d b k [v H]. destruct (odd_len (fst b)); [|exists v; exact H]. apply (dset_keeps_key d _ _ k v H).
  - intros d b Hc. rewrite Hc. apply dset_key.
Qed.

(* stereogenic_cis_trans: an entry ((a, b), e) comes from an even stereogenic path from a to b with environment e *)
Theorem sg_cis_trans_sound sc k e : In (k, e) (sg_cis_trans_of sc) ->
  exists p, In (p, e) sc /\ odd_len p = false /\ k = (first_z p, last_z p).
Proof.
  unfold sg_cis_trans_of.
  apply (fold_left_inv _ (fun d => In (k, e) d -> exists p, In (p, e) sc /\ odd_len p = false /\ k = (first_z p, last_z p))); [|intros []].
  intros d [p e'] Hin IH. cbn [fst snd]. destruct (odd_len p) eqn:Eo; [exact IH|].
  intros H. apply dset2_In in H. destruct H as [[-> ->]|H]; [exists p; tauto | apply IH; exact H].
Qed.

Theorem sg_cis_trans_complete sc p e : In (p, e) sc -> odd_len p = false ->
  exists e', In ((first_z p, last_z p), e') (sg_cis_trans_of sc).
Proof.
  intros Hin Ho. unfold sg_cis_trans_of.
  apply (fold_complete _ (fun pe => negb (odd_len (fst pe))) (fun pe => (first_z (fst pe), last_z (fst pe))) sc) with (b := (p, e));
    [| |exact Hin|cbn [fst]; rewrite Ho; reflexivity].
  - intros d b k [v H]. destruct (odd_len (fst b)); [exists v; exact H|]. apply (dset2_keeps_key d _ _ k v H).
  - intros d b Hc. apply negb_true_iff in Hc. rewrite Hc. apply dset2_key.
Qed.

(* _stereo_allenes_terminals: an entry (c, (a, b)) comes from an odd stereogenic path from a to b with centre c *)
Theorem allenes_terminals_sound sc c ab : In (c, ab) (allenes_terminals_of sc) ->
  exists p e, In (p, e) sc /\ odd_len p = true /\ c = centre_of p /\ ab = (first_z p, last_z p).
Proof.
  unfold allenes_terminals_of.
  apply (fold_left_inv _ (fun d => In (c, ab) d -> exists p e, In (p, e) sc /\ odd_len p = true /\ c = centre_of p /\ ab = (first_z p, last_z p)));
    [|intros []].
  intros d [p e'] Hin IH. cbn [fst snd]. destruct (odd_len p) eqn:Eo; [|exact IH].
  intros H. apply dset_In in H. destruct H as [[-> ->]|H]; [exists p, e'; tauto | apply IH; exact H].
Qed.

(* _stereo_cis_trans_counterpart: an entry (a, b) comes from an even stereogenic path between a and b *)
Theorem ct_counterpart_sound sc a b : In (a, b) (ct_counterpart_of sc) ->
  exists p e, In (p, e) sc /\ odd_len p = false /\ ((a, b) = (first_z p, last_z p) \/ (a, b) = (last_z p, first_z p)).
Proof.
  unfold ct_counterpart_of.
  apply (fold_left_inv _ (fun d => In (a, b) d -> exists p e, In (p, e) sc /\ odd_len p = false /\
                                     ((a, b) = (first_z p, last_z p) \/ (a, b) = (last_z p, first_z p)))); [|intros []].
  intros d [p e'] Hin IH. cbn [fst snd]. destruct (odd_len p) eqn:Eo; [exact IH|].
  intros H. apply dset_In in H. destruct H as [[-> ->]|H]; [exists p, e'; tauto|].
  apply dset_In in H. destruct H as [[-> ->]|H]; [exists p, e'; tauto | apply IH; exact H].
Qed.

(* _stereo_cis_trans_terminals: the four atoms first, last, and the two centre atoms of an even path map to (first, last);
   _stereo_cis_trans_centers: first and last map to the central double bond *)
Theorem ct_terminals_sound sc x ab : In (x, ab) (ct_terminals_of sc) ->
  exists p e, In (p, e) sc /\ odd_len p = false /\ ab = (first_z p, last_z p) /\
              (x = first_z p \/ x = last_z p \/ x = centre_of p \/ x = centre_lo p).
Proof.
  unfold ct_terminals_of.
  apply (fold_left_inv _ (fun d => In (x, ab) d -> exists p e, In (p, e) sc /\ odd_len p = false /\ ab = (first_z p, last_z p) /\
              (x = first_z p \/ x = last_z p \/ x = centre_of p \/ x = centre_lo p))); [|intros []].
  intros d [p e'] Hin IH. cbn [fst snd]. destruct (odd_len p) eqn:Eo; [exact IH|]. cbv zeta.
  intros H. apply dset_In in H. destruct H as [[-> ->]|H]; [exists p, e'; tauto|].
  apply dset_In in H. destruct H as [[-> ->]|H]; [exists p, e'; tauto|].
  apply dset_In in H. destruct H as [[-> ->]|H]; [exists p, e'; tauto|].
  apply dset_In in H. destruct H as [[-> ->]|H]; [exists p, e'; tauto | apply IH; exact H].
Qed.

Theorem ct_centers_sound sc x ij : In (x, ij) (ct_centers_of sc) ->
  exists p e, In (p, e) sc /\ odd_len p = false /\ ij = (centre_lo p, centre_of p) /\ (x = first_z p \/ x = last_z p).
Proof.
  unfold ct_centers_of.
  apply (fold_left_inv _ (fun d => In (x, ij) d -> exists p e, In (p, e) sc /\ odd_len p = false /\ ij = (centre_lo p, centre_of p) /\
              (x = first_z p \/ x = last_z p))); [|intros []].
  intros d [p e'] Hin IH. cbn [fst snd]. destruct (odd_len p) eqn:Eo; [exact IH|]. cbv zeta.
  intros H. apply dset_In in H. destruct H as [[-> ->]|H]; [exists p, e'; tauto|].
  apply dset_In in H. destruct H as [[-> ->]|H]; [exists p, e'; tauto | apply IH; exact H].
Qed.

(* ====================================================================================================== *)
(* 5. terminals of the stereo registries are the ends of maximal chains -- allenes in full, cis/trans up to cut chains *)

Lemma odd_len_not2 p : odd_len p = true -> List.length p <> 2%nat.
Proof. unfold odd_len. intros H E. rewrite E in H. discriminate. Qed.

(* allenes: the two terminals recorded for a centre are the ends of a maximal chain of double bonds with an odd number
   of atoms (at least three) whose middle atom is the centre *)
Theorem allene_terminals_maximal fs fd g ps c a b :
  cumulenes fd g = Ok ps -> In (c, (a, b)) (allenes_terminals_of (sg_cumulenes_of fs g ps)) ->
  exists p, In p ps /\ odd_len p = true /\ (3 <= List.length p)%nat /\ chain (dbl_adj fd g) p /\
            a = first_z p /\ b = last_z p /\ c = centre_of p /\
            In a (terminals_of (dbl_adj fd g)) /\ In b (terminals_of (dbl_adj fd g)).
Proof.
  intros Hc Hin. apply allenes_terminals_sound in Hin. destruct Hin as (p & e & Hp & Ho & -> & E). injection E as -> ->.
  destruct (sg_cumulenes_of_len2 fs fd g ps (p, e) Hp) as [Hps Hl]. cbn [fst] in Hps, Hl.
  destruct (cumulenes_chains fd g ps Hc p Hps) as (L & C & T). exists p.
  pose proof (odd_len_not2 p Ho) as N2.
  destruct T as [T|[T1 T2]]; [contradiction|]. repeat split; try assumption. lia.
Qed.

(* cis/trans: the same for even chains, EXCEPT that a two-atom path may be a piece of a chain that was cut at an atom
   with more than two neighbours (then its ends need not be terminals: cis_trans_terminals_maximal_refuted) *)
Theorem cis_trans_terminals_maximal_partial fs fd g ps a b e :
  cumulenes fd g = Ok ps -> In ((a, b), e) (sg_cis_trans_of (sg_cumulenes_of fs g ps)) ->
  exists p, In p ps /\ odd_len p = false /\ chain (dbl_adj fd g) p /\ a = first_z p /\ b = last_z p /\
            (List.length p = 2%nat \/ (In a (terminals_of (dbl_adj fd g)) /\ In b (terminals_of (dbl_adj fd g)))).
Proof.
  intros Hc Hin. apply sg_cis_trans_sound in Hin. destruct Hin as (p & Hp & Ho & E). injection E as -> ->.
  destruct (sg_cumulenes_of_len2 fs fd g ps (p, e) Hp) as [Hps Hl]. cbn [fst] in Hps, Hl.
  destruct (cumulenes_chains fd g ps Hc p Hps) as (L & C & T). exists p. repeat split; assumption.
Qed.

(* ---------- concrete instances (non-vacuity, and the witness of the cut chain) ---------- *)
(* FC=C=S(=O)=NC : atoms 1..7 *)
Definition ex_cut : mol :=
  mkMol [(1, (mkAtom 9 None 0 false (Some 0) None)); (2, (mkAtom 6 None 0 false (Some 1) None)); (3, (mkAtom 6 None 0 false (Some 0) None));
         (4, (mkAtom 16 None 0 false None None)); (5, (mkAtom 8 None 0 false (Some 0) None)); (6, (mkAtom 7 None 0 false (Some 0) None));
         (7, (mkAtom 6 None 0 false (Some 3) None))]
        [(1, [(2, (mkBond 1 None))]); (2, [(1, (mkBond 1 None)); (3, (mkBond 2 None))]); (3, [(2, (mkBond 2 None)); (4, (mkBond 2 None))]);
         (4, [(3, (mkBond 2 None)); (5, (mkBond 2 None)); (6, (mkBond 2 None))]); (5, [(4, (mkBond 2 None))]);
         (6, [(4, (mkBond 2 None)); (7, (mkBond 1 None))]); (7, [(6, (mkBond 1 None))])].

(* FC(Cl)=C=C(Br)I renumbered by n -> 2n + 10: a non-trivial instance of every hypothesis above *)
Definition ex_allene : mol :=
  mkMol [(1, (mkAtom 9 None 0 false (Some 0) None)); (2, (mkAtom 6 None 0 false (Some 0) None)); (3, (mkAtom 17 None 0 false (Some 0) None));
         (4, (mkAtom 6 None 0 false (Some 0) None)); (5, (mkAtom 6 None 0 false (Some 0) None)); (6, (mkAtom 35 None 0 false (Some 0) None));
         (7, (mkAtom 53 None 0 false (Some 0) None))]
        [(1, [(2, (mkBond 1 None))]); (2, [(1, (mkBond 1 None)); (3, (mkBond 1 None)); (4, (mkBond 2 None))]); (3, [(2, (mkBond 1 None))]);
         (4, [(2, (mkBond 2 None)); (5, (mkBond 2 None))]); (5, [(4, (mkBond 2 None)); (6, (mkBond 1 None)); (7, (mkBond 1 None))]);
         (6, [(5, (mkBond 1 None))]); (7, [(5, (mkBond 1 None))])].
(* N[C@H](C)O *)
Definition ex_th : mol :=
  mkMol [(1, (mkAtom 7 None 0 false (Some 2) None)); (2, (mkAtom 6 None 0 false (Some 1) (Some true))); (3, (mkAtom 6 None 0 false (Some 3) None));
         (4, (mkAtom 8 None 0 false (Some 1) None))]
        [(1, [(2, (mkBond 1 None))]); (2, [(1, (mkBond 1 None)); (3, (mkBond 1 None)); (4, (mkBond 1 None))]); (3, [(2, (mkBond 1 None))]);
         (4, [(2, (mkBond 1 None))])].
Definition ex_s (n : Z) : Z := 2 * n + 10.

Theorem registries_example :
  (forall x y, ex_s x = ex_s y -> x = y) /\ wf_mol ex_allene = true /\ wf_mol ex_th = true /\
  (exists r, registries_real ex_allene = Ok r /\ r_cumulenes r = [[2; 4; 5]] /\ r_sg_al r = [(4, (1, 6, Some 3, Some 7))] /\
             r_al_terminals r = [(4, (2, 5))] /\
             registries_real (rn_mol ex_s ex_allene) = Ok (rn_reg ex_s r) /\
             r_sg_al (rn_reg ex_s r) = [(18, (12, 22, Some 16, Some 24))]) /\
  (exists r, registries_real ex_th = Ok r /\ r_tetrahedrons r = [2; 3] /\ r_sg_th r = [(2, [1; 3; 4])]) /\
  (exists r, registries_real ex_cut = Ok r /\
             r_cumulenes r = [[2; 3]; [3; 4]; [5; 4]; [6; 4]] /\ r_sg_cum r = [] /\ r_sg_ct r = []).
Proof.
  split; [unfold ex_s; intros x y H; lia|]. split; [vm_compute; reflexivity|]. split; [vm_compute; reflexivity|].
  split; [|split]; eexists; (split; [vm_compute; reflexivity|]); vm_compute; repeat split; reflexivity.
Qed.
