(* C05 -- the hand-written classifier of __prepare_rings equals the decision trees generated from the source *)
From Coq Require Import ZArith List Bool Lia.
From Model Require Import PyBase Graph Kekule Thiele.
From Gen Require Import KekuleCls ThieleCls.
Import ListNotations.
Open Scope Z_scope.

Ltac split_tests :=
  repeat match goal with
         | |- context [?x =? ?c] => is_var x; destruct (Z.eqb_spec x c); [subst x|]; cbn
         | |- context [if ?b then _ else _] => is_var b; destruct b; cbn
         end.

Theorem gen_quinone_eq : forall num chg, gen_quinone_ok num chg = quinone_ok num chg.
Proof. intros. unfold gen_quinone_ok, quinone_ok. split_tests; reflexivity. Qed.

Theorem gen_classify_eq : forall num chg rad nb h indb,
  gen_classify num chg rad nb h indb = classify_atom num chg rad nb h indb.
Proof.
  intros. unfold gen_classify, classify_atom, by_hydrogens, is_NPAs, is_SSeTe, IAR.
  destruct h as [hh|]; split_tests; try reflexivity; try lia.
Qed.

(* the element numbers the source names *)
Theorem gen_elements : [src_B; src_C; src_N; src_O; src_P; src_S; src_As; src_Se; src_Te] = [5; 6; 7; 8; 15; 16; 33; 34; 52].
Proof. reflexivity. Qed.

(* ---------------- Thiele.thiele: the ring loop ---------------- *)
Ltac split_tests2 :=
  repeat match goal with
         | |- context [?x =? ?c] => is_var x; destruct (Z.eqb_spec x c); [subst x|]; cbn
         | |- context [?c <? ?x] => is_var x; destruct (Z.ltb_spec c x); cbn
         | |- context [if ?b then _ else _] => is_var b; destruct b; cbn
         end.

(* the ring loop of thiele(fix_tautomers=False), written with the decisions generated from the source *)
Definition ring_step_src (g : mol) (s : th1) (ring : list Z) : th1 :=
  let lr := Z.of_nat (List.length ring) in
  if negb (gen_th_size_ok lr) then s
  else if existsb (fun n => gen_th_atom_bad (num_of g n) (nsc_deg g n)) ring then s
  else
    let sp2 := countb (fun n => hyb g n =? gen_th_hyb_sp2) ring in
    match gen_th_kind lr sp2 with
    | 1 => mkTh1 (t_rings s) (t_tetra s ++ [ring]) (t_pyr s) (t_freaks s)
    | 2 => mkTh1 (add_ring (t_rings s) ring) (t_tetra s) (t_pyr s) (t_freaks s)
    | 3 => match filter (fun n => hyb g n =? gen_th_hyb_sp3) ring with
           | [] => s
           | n :: _ => match gen_th_hetero (num_of g n) (chg_of g n) lr (deg_all g n) false with
                       | None => s
                       | Some _ => mkTh1 (add_ring (t_rings s) ring) (t_tetra s) (if zmem n (t_pyr s) then t_pyr s else t_pyr s ++ [n]) (t_freaks s)
                       end
           end
    | 4 => mkTh1 (t_rings s) (t_tetra s) (t_pyr s) (t_freaks s ++ [ring])
    | _ => s
    end.

Theorem gen_ring_step_eq : forall g s ring, ring_step_src g s ring = ring_step g s ring.
Proof.
  intros g s ring. unfold ring_step_src, ring_step, gen_th_size_ok, gen_th_atom_bad, gen_th_kind, gen_th_hyb_sp2, gen_th_hyb_sp3, allowed_elt.
  cbv zeta. generalize (Z.of_nat (List.length ring)). intros lr.
  destruct (negb ((3 <? lr) && (lr <? 8))); [reflexivity|].
  destruct (existsb _ ring); [reflexivity|].
  generalize (countb (fun n : Z => hyb g n =? 2) ring). intros sp2.
  destruct (sp2 =? lr); [destruct (lr =? 4); reflexivity|].
  destruct ((4 <? lr) && (lr =? sp2 + 1)).
  - destruct (filter (fun n : Z => hyb g n =? 1) ring) as [|n r]; [reflexivity|].
    unfold gen_th_hetero. generalize (num_of g n) (chg_of g n) (deg_all g n). intros z c d.
    generalize (mkTh1 (add_ring (t_rings s) ring) (t_tetra s) (if zmem n (t_pyr s) then t_pyr s else t_pyr s ++ [n]) (t_freaks s)). intros acc.
    split_tests2; try reflexivity; try lia.
  - destruct ((lr =? 5) && (sp2 =? 3)); reflexivity.
Qed.

Lemma odd_mod2 lr : Z.odd lr = negb (lr mod 2 =? 0).
Proof.
  rewrite Zodd_mod. pose proof (Z.mod_pos_bound lr 2 ltac:(lia)) as B. unfold Zeq_bool.
  destruct (lr mod 2 =? 0) eqn:E.
  - apply Z.eqb_eq in E. rewrite E. reflexivity.
  - apply Z.eqb_neq in E. assert (H : lr mod 2 = 1) by lia. rewrite H. reflexivity.
Qed.

(* the ring loop of thiele() with the default fix_tautomers=True: acceptors and donors *)
Definition ring_step_t_src (g : mol) (s : th1t) (ring : list Z) : th1t :=
  let b := ring_step_src g (tt_base s) ring in
  let lr := Z.of_nat (List.length ring) in
  if negb (gen_th_size_ok lr) then s
  else if existsb (fun n => gen_th_atom_bad (num_of g n) (nsc_deg g n)) ring then s
  else
    let sp2 := countb (fun n => hyb g n =? gen_th_hyb_sp2) ring in
    match gen_th_kind lr sp2 with
    | 2 => mkTh1t b (if gen_th_acc_ring lr true
                     then fold_left (fun acc n => if gen_th_acceptor (num_of g n) (chg_of g n) && negb (zmem n acc) then acc ++ [n] else acc) ring (tt_acc s)
                     else tt_acc s) (tt_don s)
    | 3 => match filter (fun n => hyb g n =? gen_th_hyb_sp3) ring with
           | [] => s
           | n :: _ => match gen_th_hetero (num_of g n) (chg_of g n) lr (deg_all g n) true with
                       | Some true => mkTh1t b (tt_acc s) (tt_don s ++ [n])
                       | _ => mkTh1t b (tt_acc s) (tt_don s)
                       end
           end
    | _ => mkTh1t b (tt_acc s) (tt_don s)
    end.

Lemma fold_ext {A B : Type} (f f' : A -> B -> A) : (forall a b, f a b = f' a b) -> forall l a, fold_left f l a = fold_left f' l a.
Proof. intros H l. induction l as [|x r IH]; simpl; intros a; [reflexivity|]. rewrite H. apply IH. Qed.

Theorem gen_ring_step_t_eq : forall g s ring, ring_step_t_src g s ring = ring_step_t g s ring.
Proof.
  intros g s ring. unfold ring_step_t_src, ring_step_t. rewrite gen_ring_step_eq.
  unfold gen_th_size_ok, gen_th_atom_bad, gen_th_kind, gen_th_hyb_sp2, gen_th_hyb_sp3, gen_th_acc_ring, allowed_elt.
  cbv zeta. generalize (ring_step g (tt_base s) ring). intros b. generalize (Z.of_nat (List.length ring)). intros lr.
  destruct (negb ((3 <? lr) && (lr <? 8))); [reflexivity|].
  destruct (existsb _ ring); [reflexivity|].
  generalize (countb (fun n : Z => hyb g n =? 2) ring). intros sp2.
  destruct (sp2 =? lr).
  - destruct (lr =? 4); [reflexivity|]. rewrite odd_mod2. simpl. destruct (negb (lr mod 2 =? 0)); [|reflexivity]. f_equal.
    apply fold_ext. intros acc n. unfold gen_th_acceptor. rewrite negb_involutive. reflexivity.
  - destruct ((4 <? lr) && (lr =? sp2 + 1)).
    + destruct (filter (fun n : Z => hyb g n =? 1) ring) as [|n r]; [reflexivity|].
      unfold gen_th_hetero. generalize (num_of g n) (chg_of g n) (deg_all g n). intros z c d.
      split_tests2; try reflexivity; try lia.
    + destruct ((lr =? 5) && (sp2 =? 3)); reflexivity.
Qed.
Print Assumptions gen_ring_step_t_eq.
