(* C07 extension: what the stereo post-filter of QueryIsomorphism.get_mapping accepts (model: Model.IsoStereo). *)
From Coq Require Import ZArith List Bool Lia.
From Model Require Import PyBase Stereo Iso IsoStereo.
From Proofs Require Import StereoProofs.
Import ListNotations.
Local Open Scope Z_scope.

(* ---------- the generator is a filter (until an exception escapes) ---------- *)
Definition accepted (t : starget) (q : squery) (mp : mapping) : bool :=
  match qstereo_ok t q mp with Ok true => true | _ => false end.

Theorem qstereo_filter_spec : forall t q ms,
  exists pre post, ms = pre ++ post /\
    fst (qstereo_filter t q ms) = filter (accepted t q) pre /\
    (forall mp, In mp pre -> exists b, qstereo_ok t q mp = Ok b) /\
    match snd (qstereo_filter t q ms) with
    | None => post = []
    | Some e => exists mp r, post = mp :: r /\ qstereo_ok t q mp = Err e
    end.
Proof.
  induction ms as [|mp r IH].
  - exists [], []. cbn. repeat split. intros ? [].
  - cbn [qstereo_filter]. destruct (qstereo_ok t q mp) as [[|]|e] eqn:E.
    + destruct IH as (pre & post & -> & H1 & H2 & H3). destruct (qstereo_filter t q (pre ++ post)) as [l e'] eqn:Ef.
      exists (mp :: pre), post. cbn [fst snd] in *. split; [reflexivity|]. split; [|split; [|exact H3]].
      * cbn [filter]. unfold accepted at 1. rewrite E. f_equal. exact H1.
      * intros m [<-|Hm]; [eauto | apply H2; exact Hm].
    + destruct IH as (pre & post & -> & H1 & H2 & H3). exists (mp :: pre), post. split; [reflexivity|]. split; [|split; [|exact H3]].
      * cbn [filter]. unfold accepted at 1. rewrite E. exact H1.
      * intros m [<-|Hm]; [eauto | apply H2; exact Hm].
    + exists [], (mp :: r). cbn. split; [reflexivity|]. split; [reflexivity|]. split; [intros ? []|]. exists mp, r. split; [reflexivity | exact E].
Qed.

(* no exception: exactly the accepted mappings, in the order of the underlying search *)
Corollary qstereo_filter_total : forall t q ms, (forall mp, In mp ms -> exists b, qstereo_ok t q mp = Ok b) ->
  qstereo_filter t q ms = (filter (accepted t q) ms, None).
Proof.
  induction ms as [|mp r IH]; intros H; [reflexivity|]. cbn [qstereo_filter filter]. unfold accepted at 1.
  destruct (H mp (or_introl eq_refl)) as [b ->]. rewrite (IH (fun m Hm => H m (or_intror Hm))). destruct b; reflexivity.
Qed.

(* ---------- a query without stereo labels: the filter passes everything ---------- *)
Lemma atoms_pass_free t q mp : forall l, (forall n s, In (n, s) l -> s = None) -> atoms_pass t q mp l = Ok true.
Proof.
  induction l as [|[n s] r IH]; intros H; [reflexivity|]. rewrite (H n s (or_introl eq_refl)). cbn. apply IH.
  intros n' s' Hin. apply (H n' s'). right. exact Hin.
Qed.
Lemma bonds_pass_free t q mp : forall l, (forall n m s, In (n, m, s) l -> s = None) -> bonds_pass t q mp l = Ok true.
Proof.
  induction l as [|[[n m] s] r IH]; intros H; [reflexivity|]. rewrite (H n m s (or_introl eq_refl)). cbn. apply IH.
  intros n' m' s' Hin. apply (H n' m' s'). right. exact Hin.
Qed.

Theorem qstereo_free_identity : forall t q ms,
  (forall n s, In (n, s) (sq_atoms q) -> s = None) -> (forall n m s, In (n, m, s) (sq_bonds q) -> s = None) ->
  qstereo_filter t q ms = (ms, None).
Proof.
  intros t q ms Ha Hb. induction ms as [|mp r IH]; [reflexivity|]. cbn [qstereo_filter]. unfold qstereo_ok.
  rewrite (atoms_pass_free t q mp _ Ha), (bonds_pass_free t q mp _ Hb), IH. reflexivity.
Qed.

(* ---------- the mirror image: inverting the label of the target centre inverts the verdict ---------- *)
Lemma translate_th_negb isH order env s :
  translate_th isH order env (negb s) = match translate_th isH order env s with Ok v => Ok (negb v) | Err e => Err e end.
Proof.
  unfold translate_th.
  repeat (match goal with |- context [match ?X with _ => _ end] => destruct X end; try reflexivity).
Qed.

Lemma translate_env_negb isH e nn nm s :
  translate_env isH e nn nm (negb s) = match translate_env isH e nn nm s with Ok v => Ok (negb v) | Err x => Err x end.
Proof.
  unfold translate_env. destruct e as [[[n0 n1] n2] n3].
  match goal with |- context [match ?T with Some _ => _ | None => Err KeyError end] => destruct T as [[t0 t1]|]; [|reflexivity] end.
  destruct (ct_lookup t0 t1) as [[|]|]; reflexivity.
Qed.

(* the label of target atom m replaced by its mirror image *)
Fixpoint set_label (l : list (Z * option bool)) (m : Z) (s : bool) : list (Z * option bool) :=
  match l with
  | [] => []
  | (k, v) :: r => if m =? k then (k, Some s) :: r else (k, v) :: set_label r m s
  end.
Definition with_atom_label (t : starget) (m : Z) (s : bool) : starget :=
  mkSTarget (set_label (st_atom_stereo t) m s) (st_bond_stereo t) (st_H t) (st_th t) (st_al_term t) (st_al t) (st_ct_term t) (st_ct t) (st_ct_centers t).

Lemma zget_set_label l m s : forall v, zget l m = Some v -> zget (set_label l m s) m = Some (Some s).
Proof.
  induction l as [|[k v'] r IH]; intros v H; [discriminate|]. cbn in *. destruct (m =? k) eqn:E; cbn; rewrite E; [reflexivity | apply (IH v H)].
Qed.

(* a labelled query atom (tetrahedral or allene-type) mapped onto a labelled target atom: exactly one of the two labels of the
   target atom is accepted -- the verdict on the mirror-image centre is the opposite one; exceptions are the same *)
Theorem atom_check_mirror : forall t q mp n qs m ts,
  zget mp n = Some m -> zget (st_atom_stereo t) m = Some (Some ts) ->
  atom_check (with_atom_label t m (negb ts)) q mp n qs =
  match atom_check t q mp n qs with Ok v => Ok (negb v) | Err e => Err e end.
Proof.
  intros t q mp n qs m ts Hm Hs. unfold atom_check. rewrite Hm. cbn [st_atom_stereo with_atom_label st_th st_al_term st_al].
  rewrite (zget_set_label _ m (negb ts) _ Hs), Hs.
  change (isH (with_atom_label t m (negb ts))) with (isH t).
  destruct (zget (st_th t) m) as [order|].
  - destruct (zget (sq_adj q) n) as [nbs|]; [|reflexivity]. destruct (map_images mp nbs) as [env|e]; [|reflexivity].
    rewrite translate_th_negb. destruct (translate_th (isH t) order env ts) as [v|e]; [|reflexivity].
    f_equal. destruct v, qs; reflexivity.
  - destruct (zget (st_al_term t) m) as [[ot1 ot2]|]; [|reflexivity]. destruct (zget (st_al t) m) as [e|]; [|reflexivity].
    destruct (opposite_pair q mp ot1 ot2 e) as [[n1 m1]|x]; [|reflexivity]. unfold translate_al. rewrite translate_env_negb.
    destruct (translate_env (isH t) e n1 m1 ts) as [v|x]; [|reflexivity]. f_equal. destruct v, qs; reflexivity.
Qed.

(* ---------- the tetrahedral clause is a parity condition (C12's algebra) ---------- *)
(* the query atom's neighbours, in the query's own order, go to the arrangement p of the target's registered neighbour order:
   accepted iff  query label = target label xor parity of p *)
Theorem atom_check_parity4 : forall t q mp n qs m ts a b c d nbs p,
  zget mp n = Some m -> zget (st_atom_stereo t) m = Some (Some ts) ->
  zget (st_th t) m = Some [a; b; c; d] -> NoDup [a; b; c; d] ->
  zget (sq_adj q) n = Some nbs -> In p perms4 ->
  (map_images mp nbs = Ok (sel [a; b; c; d] p) \/ map_images mp nbs = Ok (firstn 3 (sel [a; b; c; d] p))) ->
  atom_check t q mp n qs = Ok (Bool.eqb (xorb ts (odd_perm p)) qs).
Proof.
  intros t q mp n qs m ts a b c d nbs p Hm Hs Hth Hn Hadj Hp Henv. unfold atom_check. rewrite Hm, Hs, Hth, Hadj.
  destruct (translate_th_parity4 (isH t) a b c d p ts Hn Hp) as [T1 T2].
  destruct Henv as [->| ->]; [rewrite T1 | rewrite T2]; reflexivity.
Qed.

(* three heavy neighbours and an implicit hydrogen on the target centre, three query neighbours *)
Theorem atom_check_parity3 : forall t q mp n qs m ts a b c nbs p,
  zget mp n = Some m -> zget (st_atom_stereo t) m = Some (Some ts) ->
  zget (st_th t) m = Some [a; b; c] -> NoDup [a; b; c] ->
  zget (sq_adj q) n = Some nbs -> In p perms3 -> map_images mp nbs = Ok (sel [a; b; c] p) ->
  atom_check t q mp n qs = Ok (Bool.eqb (xorb ts (odd_perm (p ++ [3]))) qs).
Proof.
  intros t q mp n qs m ts a b c nbs p Hm Hs Hth Hn Hadj Hp Henv. unfold atom_check. rewrite Hm, Hs, Hth, Hadj, Henv.
  rewrite (translate_th_parity3 (isH t) a b c p ts Hn Hp). reflexivity.
Qed.

(* an unlabelled target atom / bond never matches a labelled query atom / bond *)
Theorem unlabelled_rejected : forall t q mp,
  (forall n qs m, zget mp n = Some m -> zget (st_atom_stereo t) m = Some None -> atom_check t q mp n qs = Ok false) /\
  (forall n m qs on om, zget mp n = Some on -> zget mp m = Some om -> zget (adj_get (st_bond_stereo t) on) om = Some None ->
                        bond_check t q mp n m qs = Ok false).
Proof.
  intros t q mp. split.
  - intros n qs m Hm Hs. unfold atom_check. rewrite Hm, Hs. reflexivity.
  - intros n m qs on om Hn Hm Hs. unfold bond_check. rewrite Hn, Hm, Hs. reflexivity.
Qed.

(* ---------- the automorphism filter runs BEFORE the stereo filter: a stereo-valid embedding can be lost ---------- *)
(* query [C@]([#6])([#6])(F)Cl, target C[C@](CC)(F)Cl: the search finds two mappings with the same image atoms (the two
   carbon substituents exchanged); the stereo filter accepts the second one only; with automorphism_filter=True the second
   one has already been dropped as "same atoms", so NOTHING is returned although a valid embedding exists. *)
Definition ex_st : starget :=
  mkSTarget [(1, None); (2, Some true); (3, None); (4, None); (5, None); (6, None)]
            [(1, [(2, None)]); (2, [(1, None); (3, None); (5, None); (6, None)]); (3, [(2, None); (4, None)]); (4, [(3, None)]); (5, [(2, None)]); (6, [(2, None)])]
            [] [(2, [1; 3; 5; 6])] [] [] [] [] [].
Definition ex_sq : squery :=
  mkSQuery [(1, Some true); (2, None); (3, None); (4, None); (5, None)] [(1, [2; 3; 4; 5]); (2, [1]); (3, [1]); (4, [1]); (5, [1])]
           [(1, 2, None); (1, 3, None); (1, 4, None); (1, 5, None)].
Definition ex_stream : list mapping := [[(1, 2); (2, 3); (3, 1); (4, 5); (5, 6)]; [(1, 2); (2, 1); (3, 3); (4, 5); (5, 6)]].

Theorem filter_order_refuted :
  qstereo_filter ex_st ex_sq ex_stream = ([[(1, 2); (2, 1); (3, 3); (4, 5); (5, 6)]], None) /\
  qstereo_filter ex_st ex_sq (auto_filter true [] ex_stream) = ([], None) /\
  auto_filter true [] (fst (qstereo_filter ex_st ex_sq ex_stream)) = [[(1, 2); (2, 1); (3, 3); (4, 5); (5, 6)]].
Proof. repeat split; vm_compute; reflexivity. Qed.

(* non-vacuity of atom_check_parity4 / atom_check_mirror: the second mapping of the example above *)
Theorem example_parity_instance :
  let mp := [(1, 2); (2, 1); (3, 3); (4, 5); (5, 6)] in
  zget mp 1 = Some 2 /\ zget (st_atom_stereo ex_st) 2 = Some (Some true) /\ zget (st_th ex_st) 2 = Some [1; 3; 5; 6] /\ NoDup [1; 3; 5; 6] /\
  zget (sq_adj ex_sq) 1 = Some [2; 3; 4; 5] /\ In [0; 1; 2; 3] perms4 /\ map_images mp [2; 3; 4; 5] = Ok (sel [1; 3; 5; 6] [0; 1; 2; 3]) /\
  atom_check ex_st ex_sq mp 1 true = Ok true /\
  atom_check (with_atom_label ex_st 2 false) ex_sq mp 1 true = Ok false.
Proof.
  cbv zeta. repeat split; try (vm_compute; reflexivity).
  - repeat constructor; cbn; intuition discriminate.
  - vm_compute. tauto.
Qed.

(* ---------- match_stereo=True of MoleculeIsomorphism.get_mapping (control flow) ---------- *)
Lemma all_ok_In {T} : forall (l : list (pyres T)) xs, all_ok l = Ok xs -> forall x, In x xs <-> In (Ok x) l.
Proof.
  induction l as [|[y|e] r IH]; intros xs H x; cbn in H; [injection H as <-; tauto | | discriminate].
  destruct (all_ok r) as [ys|] eqn:E; [|discriminate]. injection H as <-. cbn. rewrite (IH ys eq_refl x). split; intros [H|H]; auto; left; congruence.
Qed.

(* with the automorphism filter: at most one mapping per found embedding -- the fast mapping, when there is one *)
Theorem ms_one_filtered : forall (B : Type) (beq : B -> B -> bool) fm cl (bd : list (Z * list (Z * B))),
  ms_one beq true fm cl bd = Ok (match fm with Some (p :: r) => [p :: r] | _ => [] end).
Proof. intros B beq [[|p r]|] cl bd; reflexivity. Qed.

(* without it: the fast mapping followed by its composition with every automorphism the model enumerates for the matched
   substructure (IsoAuto.automorphism_mapping_exact says which those are) *)
Theorem ms_one_unfiltered : forall (B : Type) (beq : B -> B -> bool) p r cl (bd : list (Z * list (Z * B))) res,
  ms_one beq false (Some (p :: r)) cl bd = Ok res ->
  exists autos, get_automorphism_mapping beq cl bd = Ok autos /\
    forall g, In g res <-> g = p :: r \/ exists a, In a autos /\ compose_fm (p :: r) a = Ok g.
Proof.
  intros B beq p r cl bd res H. cbn [ms_one] in H. destruct (get_automorphism_mapping beq cl bd) as [autos|] eqn:Ea; [|discriminate].
  exists autos. split; [reflexivity|]. destruct (all_ok (map (compose_fm (p :: r)) autos)) as [l|] eqn:El; [|discriminate].
  injection H as <-. intros g. cbn [In]. rewrite (all_ok_In _ l El g), in_map_iff. split.
  - intros [E|(a & Ha & Hin)]; [left; congruence | right; eauto].
  - intros [E|(a & Hin & Ha)]; [left; congruence | right; eauto].
Qed.

(* composing keeps the pattern atoms (keys) of the fast mapping *)
Lemma compose_fm_keys : forall fm a g, compose_fm fm a = Ok g -> map fst g = map fst fm.
Proof.
  induction fm as [|[n m] r IH]; intros a g H; cbn in H; [injection H as <-; reflexivity|].
  destruct (zget a m) as [y|]; [|discriminate]. destruct (compose_fm r a) as [l|] eqn:E; [|discriminate].
  injection H as <-. cbn. f_equal. apply (IH a l E).
Qed.
