(* C10: ReactionContainer.pack_len walks the concatenated molecule packs reading only the counts (atom count, neighbour
   nibbles, cis/trans count) and returns the atom counts of the molecules role by role. *)
From Coq Require Import ZArith List Bool Lia ZifyBool.
From Model Require Import PyBase Pack PackSpec.
From Gen Require Import Elements.
From Proofs Require Import PackBits PackRoundtrip PackRoundtripGraph PackRoundtripMol PackProofs PackRxn.
Import ListNotations.
Open Scope Z_scope.

Ltac lassoc := repeat progress (cbn [app]; rewrite <- ?app_assoc); reflexivity.

(* ------------------------------------------------------------------------------------------------ *)
(* the three count bytes of a molecule header read as one 24 bit number *)

Definition chk_lor8 (k c : Z) : bool := Z.lor (Z.shiftl k 8) c =? k * 256 + c.
Lemma lor8_sweep : forallb (fun k => forallb (chk_lor8 k) (zrange 0 256)) (zrange 0 16) = true.
Proof. vm_compute. reflexivity. Qed.
Definition chk_land15 (b : Z) : bool := Z.land b 15 =? b mod 16.
Lemma land15_sweep : forallb chk_land15 (zrange 0 256) = true.
Proof. vm_compute. reflexivity. Qed.

Lemma be3_counts a b c ac ct : 0 <= a < 256 -> 0 <= b < 256 -> 0 <= c < 256 ->
  Z.shiftr (a * 256 + b) 4 = ac -> u16 (Z.lor (Z.shiftl (Z.land b 15) 8) c) = ct ->
  Z.shiftr ((a * 256 + b) * 256 + c) 12 = ac /\ Z.land ((a * 256 + b) * 256 + c) 4095 = ct.
Proof.
  intros Ha Hb Hc Hac Hct. split.
  - rewrite <- Hac. rewrite !Z.shiftr_div_pow2 by lia. change (2 ^ 12) with (256 * 16). change (2 ^ 4) with 16.
    rewrite <- Z.div_div by lia. rewrite Z.div_add_l by lia. rewrite (Z.div_small c 256) by lia. rewrite Z.add_0_r. reflexivity.
  - rewrite <- Hct. change 4095 with (Z.ones 12). rewrite Z.land_ones by lia. change (2 ^ 12) with 4096.
    pose proof (sweep1 _ _ _ land15_sweep b Hb) as L. unfold chk_land15 in L. apply Z.eqb_eq in L. rewrite L.
    pose proof (Z.mod_pos_bound b 16 ltac:(lia)) as Bm.
    pose proof (sweep2 _ _ _ _ _ lor8_sweep (b mod 16) c ltac:(lia) Hc) as K. unfold chk_lor8 in K. apply Z.eqb_eq in K.
    rewrite K. rewrite u16_small by lia.
    pose proof (Z.div_mod b 16 ltac:(lia)) as D.
    symmetry. apply Z.mod_unique with (q := 16 * a + b / 16); lia.
Qed.

Lemma getb_at (pre : list Z) x l : getb (pre ++ x :: l) (Z.of_nat (length pre)) = Some x.
Proof. rewrite <- (Z.add_0_r (Z.of_nat (length pre))). rewrite getb_app_r by lia. reflexivity. Qed.

Lemma be3_at (pre : list Z) a b c l :
  be3 (pre ++ a :: b :: c :: l) (Z.of_nat (length pre)) = (a * 256 + b) * 256 + c.
Proof.
  unfold be3. rewrite getb_at.
  replace (pre ++ a :: b :: c :: l) with ((pre ++ [a]) ++ b :: c :: l) by (rewrite <- app_assoc; reflexivity).
  replace (Z.of_nat (length pre) + 1) with (Z.of_nat (length (pre ++ [a]))) by (rewrite app_length; cbn [length]; lia).
  rewrite getb_at.
  replace ((pre ++ [a]) ++ b :: c :: l) with ((pre ++ [a; b]) ++ c :: l) by lassoc.
  replace (Z.of_nat (length pre) + 2) with (Z.of_nat (length (pre ++ [a; b]))) by (rewrite app_length; cbn [length]; lia).
  rewrite getb_at. reflexivity.
Qed.

(* ------------------------------------------------------------------------------------------------ *)
(* summing the neighbour nibbles of the atom block *)

Lemma atom_bytes_ngb a : atom_ok a = true ->
  exists b0 b1 rest, atom_bytes a = b0 :: b1 :: rest /\ length rest = 7%nat /\ Z.land b1 15 = Z.of_nat (length (pa_nbrs a)).
Proof.
  intros H. destruct (decode_atom_bytes a H) as [b0 [b1 [b2 [b3 [b8 [E [_ D]]]]]]].
  destruct (pa_xy a) as [|x0 [|x1 [|y0 [|y1 [|? ?]]]]]; try contradiction.
  exists b0, b1, [b2; b3; x0; x1; y0; y1; b8]. split; [exact E|]. split; [reflexivity|].
  apply (f_equal ua_ngb) in D. exact D.
Qed.

Lemma sum_ngb_block : forall atoms pre suf acc, forallb atom_ok atoms = true ->
  sum_ngb (pre ++ atoms_block atoms ++ suf) (length atoms) (Z.of_nat (length pre) + 1) acc
  = Ok (acc + Z.of_nat (length (mol_conns atoms)), Z.of_nat (length pre) + 1 + 9 * Z.of_nat (length atoms)).
Proof.
  induction atoms as [|a r IH]; intros pre suf acc H.
  - cbn [length sum_ngb mol_conns flat_map]. f_equal. f_equal; lia.
  - cbn [forallb] in H. apply andb_true_iff in H. destruct H as [Ha Hr].
    destruct (atom_bytes_ngb a Ha) as [b0 [b1 [rest [E [Lr Hn]]]]].
    cbn [length sum_ngb]. unfold atoms_block. cbn [flat_map]. fold (atoms_block r). rewrite E.
    replace (pre ++ ((b0 :: b1 :: rest) ++ atoms_block r) ++ suf) with ((pre ++ [b0]) ++ b1 :: (rest ++ atoms_block r ++ suf))
      by lassoc.
    replace (Z.of_nat (length pre) + 1) with (Z.of_nat (length (pre ++ [b0]))) at 1 by (rewrite app_length; cbn [length]; lia).
    rewrite getb_at. rewrite Hn.
    replace ((pre ++ [b0]) ++ b1 :: rest ++ atoms_block r ++ suf) with ((pre ++ b0 :: b1 :: rest) ++ atoms_block r ++ suf)
      by lassoc.
    replace (Z.of_nat (length pre) + 1 + 9) with (Z.of_nat (length (pre ++ b0 :: b1 :: rest)) + 1)
      by (rewrite app_length; cbn [length]; rewrite Lr; lia).
    rewrite IH by exact Hr. rewrite mol_conns_cons, !app_length, map_length. cbn [length]. rewrite Lr.
    f_equal. f_equal; unfold nbr; lia.
Qed.

(* ------------------------------------------------------------------------------------------------ *)
(* one molecule of the walk *)

Definition natoms (m : pmol) : Z := Z.of_nat (length (pm_atoms m)).

Lemma pack_layout_split m : pack_ok m = true ->
  exists a b c body,
    pack_layout m = 2 :: a :: b :: c :: atoms_block (pm_atoms m) ++ body /\
    Z.shiftr ((a * 256 + b) * 256 + c) 12 = natoms m /\ Z.land ((a * 256 + b) * 256 + c) 4095 = pm_ct_count m.
Proof.
  intros H. pose proof (pack_ok_graph_wf m H) as W. pose proof (wf_atoms_count _ W) as Hcnt.
  destruct (pack_ok_ct m H) as [_ [Hctr _]].
  destruct (header_roundtrip (Z.of_nat (length (pm_atoms m))) (pm_ct_count m)) as [a [b [c [Hh [_ [Hct [Hs [Ra [Rb Rc]]]]]]]]];
    [unfold num_ok; lia | unfold num_ok; lia|].
  exists a, b, c. eexists. unfold pack_layout. cbv zeta. rewrite Hh. split; [reflexivity|].
  apply be3_counts; assumption.
Qed.

Lemma walk_step m pre suf : pack_ok m = true ->
  let data := pre ++ pack_layout m ++ suf in
  let sh := Z.of_nat (length pre) + 1 in
  let acs := be3 data sh in
  Z.shiftr acs 12 = natoms m /\
  exists ngb sh1, sum_ngb data (Z.to_nat (natoms m)) (sh + 4) 0 = Ok (ngb, sh1) /\
    sh1 + 3 * (ngb / 2) + ((ngb / 2) * 3 + 7) / 8 + Z.land acs 4095 * 4 = Z.of_nat (length (pre ++ pack_layout m)) + 1.
Proof.
  intros H data sh acs. pose proof (pack_ok_graph_wf m H) as W.
  assert (Hatoms : forallb atom_ok (pm_atoms m) = true) by (unfold pack_ok in H; cbv zeta in H; split_andb; assumption).
  pose proof (pack_layout_length m H) as Hlen. cbv zeta in Hlen.
  destruct (pack_layout_split m H) as [a [b [c [body [E [Hac Hct]]]]]].
  assert (Eacs : acs = (a * 256 + b) * 256 + c).
  { subst acs data sh. rewrite E.
    replace (pre ++ (2 :: a :: b :: c :: atoms_block (pm_atoms m) ++ body) ++ suf)
      with ((pre ++ [2]) ++ a :: b :: c :: (atoms_block (pm_atoms m) ++ body) ++ suf) by lassoc.
    replace (Z.of_nat (length pre) + 1) with (Z.of_nat (length (pre ++ [2]))) by (rewrite app_length; cbn [length]; lia).
    apply be3_at. }
  rewrite Eacs, Hac, Hct. split; [reflexivity|].
  rewrite app_length, Nat2Z.inj_add, Hlen.
  unfold natoms. rewrite Nat2Z.id. subst data sh. rewrite E.
  replace (pre ++ (2 :: a :: b :: c :: atoms_block (pm_atoms m) ++ body) ++ suf)
    with ((pre ++ [2; a; b; c]) ++ atoms_block (pm_atoms m) ++ body ++ suf) by lassoc.
  replace (Z.of_nat (length pre) + 1 + 4) with (Z.of_nat (length (pre ++ [2; a; b; c])) + 1) by (rewrite app_length; cbn [length]; lia).
  rewrite sum_ngb_block by exact Hatoms. do 2 eexists. split; [reflexivity|].
  rewrite Z.add_0_l, (conns_twice_fwd _ W).
  set (k := Z.of_nat (length (mol_fwd [] (pm_atoms m)))) in *.
  replace (Z.of_nat (2 * length (mol_fwd [] (pm_atoms m))) / 2) with k by (subst k; rewrite Nat2Z.inj_mul, Z.mul_comm, Z.div_mul; lia).
  rewrite app_length. cbn [length]. rewrite order_block_size_ceil by lia.
  replace (k * 3) with (3 * k) by lia. lia.
Qed.

Lemma rxn_len_walk_spec : forall ms pre suf, Forall (fun m => pack_ok m = true) ms ->
  rxn_len_walk (pre ++ concat (map pack_layout ms) ++ suf) 2 (length ms) (Z.of_nat (length pre) + 1)
  = Ok (map natoms ms, Z.of_nat (length (pre ++ concat (map pack_layout ms))) + 1).
Proof.
  induction ms as [|m r IH]; intros pre suf H.
  - cbn [map concat length rxn_len_walk]. rewrite app_nil_r. reflexivity.
  - inversion H as [|? ? Hm Hr]; subst. cbn [length map concat rxn_len_walk]. rewrite <- app_assoc.
    destruct (walk_step m pre (concat (map pack_layout r) ++ suf) Hm) as [Hac [ngb [sh1 [Hs Hsh]]]].
    cbv zeta in Hac, Hs, Hsh. rewrite Hac, Hs. change (2 =? 2) with true. cbv iota. rewrite Hsh.
    rewrite (app_assoc pre). rewrite IH by exact Hr. rewrite <- !app_assoc. reflexivity.
Qed.

(* ------------------------------------------------------------------------------------------------ *)

(* ReactionContainer.pack_len: the atom counts of the molecules, role by role, for ALL role sizes 0..255 with at least
   one molecule (empty sides included) *)
Theorem rxn_pack_len_correct (rs ags ps : list pmol) (prs pas pps : list (list Z)) :
  Forall (fun m => pack_ok m = true) rs -> Forall (fun m => pack_ok m = true) ags -> Forall (fun m => pack_ok m = true) ps ->
  map pack rs = map (@Ok _) prs -> map pack ags = map (@Ok _) pas -> map pack ps = map (@Ok _) pps ->
  (length rs <= 255)%nat -> (length ags <= 255)%nat -> (length ps <= 255)%nat -> (1 <= length rs + length ags + length ps)%nat ->
  exists bytes, rxn_pack prs pas pps = Ok bytes /\
    rxn_pack_len bytes = Ok (map natoms rs, map natoms ags, map natoms ps).
Proof.
  intros Hr Ha Hp Er Ea Ep Lr La Lp Lt.
  apply (packs_are_layouts _ _ Hr) in Er. apply (packs_are_layouts _ _ Ha) in Ea. apply (packs_are_layouts _ _ Hp) in Ep.
  subst prs pas pps. unfold rxn_pack. rewrite !map_length.
  destruct ((255 <? Z.of_nat (length rs)) || (255 <? Z.of_nat (length ags)) || (255 <? Z.of_nat (length ps))) eqn:E; [lia|].
  eexists. split; [reflexivity|].
  set (hdr := [1; Z.of_nat (length rs); Z.of_nat (length ags); Z.of_nat (length ps)]).
  assert (Hall : Forall (fun m => pack_ok m = true) (rs ++ ags ++ ps)) by (rewrite !Forall_app; auto).
  assert (Ebody : concat (map pack_layout rs) ++ concat (map pack_layout ags) ++ concat (map pack_layout ps)
                  = concat (map pack_layout (rs ++ ags ++ ps))) by (rewrite !map_app, !concat_app; reflexivity).
  rewrite Ebody.
  destruct (exists_last (l := rs ++ ags ++ ps)) as [init [last Hlast]].
  { intros Hn. apply (f_equal (@length _)) in Hn. rewrite !app_length in Hn. cbn [length] in Hn. lia. }
  assert (Hlen : (length rs + (length ags + length ps) = length init + 1)%nat).
  { apply (f_equal (@length _)) in Hlast. rewrite !app_length in Hlast. cbn [length] in Hlast. exact Hlast. }
  rewrite Hlast in Hall. apply Forall_app in Hall. destruct Hall as [Hinit Hl]. inversion Hl as [|? ? Hlast_ok _]; subst.
  unfold rxn_pack_len.
  change (getb (hdr ++ _) 0) with (Some 1). change (getb (hdr ++ _) 1) with (Some (Z.of_nat (length rs))).
  change (getb (hdr ++ _) 2) with (Some (Z.of_nat (length ags))). change (getb (hdr ++ _) 3) with (Some (Z.of_nat (length ps))).
  cbn [Z.eqb Pos.eqb negb].
  rewrite Hlast, map_app, concat_app. cbn [map concat]. rewrite app_nil_r.
  destruct (pack_layout_split last Hlast_ok) as [a [b [c [body [El [Hac _]]]]]].
  (* version byte of the first molecule *)
  assert (G4 : getb (hdr ++ concat (map pack_layout init) ++ pack_layout last) 4 = Some 2).
  { change 4 with (Z.of_nat (length hdr)). destruct init as [|m0 init'].
    - cbn [map concat app]. rewrite El. apply getb_at.
    - inversion Hinit as [|? ? Hm0 _]; subst. destruct (pack_layout_split m0 Hm0) as [a0 [b0 [c0 [body0 [E0 _]]]]].
      cbn [map concat]. rewrite E0. cbn [app]. apply (getb_at hdr 2). }
  rewrite G4.
  replace (Z.to_nat (Z.of_nat (length rs) + Z.of_nat (length ags) + Z.of_nat (length ps) - 1)) with (length init) by lia.
  pose proof (rxn_len_walk_spec init hdr (pack_layout last) Hinit) as Wk. change (Z.of_nat (length hdr) + 1) with 5 in Wk.
  rewrite Wk.
  assert (Hnz : (Z.of_nat (length rs) =? 0) && (Z.of_nat (length ags) =? 0) && (Z.of_nat (length ps) =? 0) = false) by lia.
  rewrite Hnz.
  (* the last molecule: only its atom count is read *)
  assert (Eb : be3 (hdr ++ concat (map pack_layout init) ++ pack_layout last)
                   (Z.of_nat (length (hdr ++ concat (map pack_layout init))) + 1) = (a * 256 + b) * 256 + c).
  { rewrite El.
    replace (hdr ++ concat (map pack_layout init) ++ 2 :: a :: b :: c :: atoms_block (pm_atoms last) ++ body)
      with (((hdr ++ concat (map pack_layout init)) ++ [2]) ++ a :: b :: c :: atoms_block (pm_atoms last) ++ body)
      by lassoc.
    replace (Z.of_nat (length (hdr ++ concat (map pack_layout init))) + 1)
      with (Z.of_nat (length ((hdr ++ concat (map pack_layout init)) ++ [2]))) by (rewrite (app_length _ [2]); cbn [length]; lia).
    apply be3_at. }
  rewrite Eb, Hac.
  replace (map natoms init ++ [natoms last]) with (map natoms (rs ++ ags ++ ps)) by (rewrite Hlast, map_app; reflexivity).
  rewrite !map_app.
  rewrite <- (map_length natoms rs) at 1. rewrite <- (map_length natoms ags) at 1. rewrite <- (map_length natoms ps) at 1.
  rewrite rxn_split_correct. reflexivity.
Qed.

(* non-vacuity: a reaction with an empty reagent side built from the molecule at the format limits, evaluated *)
Lemma rxn_example : exists p bytes,
  pack pack_example = Ok p /\ pack_ok pack_example = true /\ rxn_pack [p] [] [p; p] = Ok bytes /\
  rxn_pack_len bytes = Ok ([16], [], [16; 16]) /\
  rxn_unpack bytes = Ok ([unpacked_of pack_example (pack_size pack_example)], [],
                         [unpacked_of pack_example (pack_size pack_example); unpacked_of pack_example (pack_size pack_example)]).
Proof.
  eexists. eexists. split; [vm_compute; reflexivity|]. split; [vm_compute; reflexivity|].
  split; [vm_compute; reflexivity|]. split; vm_compute; reflexivity.
Qed.
