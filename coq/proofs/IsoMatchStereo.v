(* C07 second extension: what MoleculeIsomorphism.get_mapping(match_stereo=True) yields, given the fast-mapping oracle
   (model: IsoStereo.get_mapping_match_stereo). *)
From Coq Require Import ZArith List Bool Lia Permutation.
From Model Require Import PyBase Stereo Iso IsoStereo.
From Proofs Require Import IsoLazyProofs IsoMatchProofs IsoCompileProofs IsoProofs IsoExt IsoAuto IsoStereoProofs.
Import ListNotations.
Local Open Scope Z_scope.

Lemma all_ok_Forall2 {S T} (f : S -> pyres T) : forall (l : list S) xs, all_ok (map f l) = Ok xs -> Forall2 (fun a x => f a = Ok x) l xs.
Proof.
  induction l as [|a l IH]; intros xs H; cbn in H; [injection H as <-; constructor|].
  destruct (f a) as [x|e] eqn:E; [|discriminate]. destruct (all_ok (map f l)) as [ys|] eqn:E2; [|discriminate].
  injection H as <-. constructor; [exact E | apply IH; reflexivity].
Qed.

Lemma FOP_NoDup {T} (R : T -> T -> Prop) l : ForallOrdPairs R l -> (forall a, ~ R a a) -> NoDup l.
Proof.
  intros H Hir. induction H as [|a l Ha _ IH]; constructor; [|exact IH].
  intros Hin. rewrite Forall_forall in Ha. apply (Hir a). apply Ha. exact Hin.
Qed.

Definition same_image (a b : mapping) : Prop := forall y, In y (image a) <-> In y (image b).

Section MatchStereo.
  Variables QA A QB B B' : Type.
  Variable amatch : QA -> A -> bool.
  Variable bmatch : QB -> B -> bool.
  Variable beq : B' -> B' -> bool.
  Variable q_atoms : list (Z * QA).
  Variable q_bonds : list (Z * list (Z * QB)).
  Variable o_atoms : list (Z * A).
  Variable o_bonds : list (Z * list (Z * B)).
  Variable tcomps : list (list Z).
  Variable scope : option (list Z).
  Variable oracle : list (mapping * ms_obs B').

  Notation call flt := (get_mapping_match_stereo amatch bmatch beq q_atoms q_bonds o_atoms o_bonds tcomps flt scope oracle).
  Notation search := (mol_get_mapping amatch bmatch q_atoms q_bonds o_atoms o_bonds tcomps true scope).
  Notation one flt := (fun o : ms_obs B' => let '(fm, cl, bd) := o in ms_one beq flt fm cl bd).

  (* ---- what is yielded, for both values of automorphism_filter ---- *)
  Lemma stream_In flt : forall (ms : list mapping) obs, Forall2 (fun mp o => oracle_get oracle mp = Ok o) ms obs ->
    forall ls, all_ok (map (one flt) obs) = Ok ls ->
    forall g, In g (concat ls) <-> exists mp fm cl bd l, In mp ms /\ oracle_get oracle mp = Ok (fm, cl, bd) /\ ms_one beq flt fm cl bd = Ok l /\ In g l.
  Proof.
    induction 1 as [|mp o ms obs Ho _ IH]; intros ls Hls g; cbn in Hls.
    - injection Hls as <-. cbn. split; [intros [] | intros (? & ? & ? & ? & ? & [] & _)].
    - destruct o as [[fm cl] bd]. destruct (ms_one beq flt fm cl bd) as [l|] eqn:El; [|discriminate].
      destruct (all_ok (map (one flt) obs)) as [ls'|] eqn:E2; [|discriminate]. injection Hls as <-. cbn [concat]. rewrite in_app_iff, (IH ls' eq_refl g). split.
      + intros [H|(mp' & fm' & cl' & bd' & l' & Hin & R)]; [exists mp, fm, cl, bd, l; auto using in_eq | exists mp', fm', cl', bd', l'; split; [right; exact Hin | exact R]].
      + intros (mp' & fm' & cl' & bd' & l' & [Em|Hin] & Ho' & Hl' & Hg).
        * left. subst mp'. rewrite Ho in Ho'. injection Ho' as X1 X2 X3. subst fm' cl' bd'. rewrite El in Hl'. injection Hl' as X4. subst l'. exact Hg.
        * right. exists mp', fm', cl', bd', l'. auto.
  Qed.

  (* every yielded map comes from a found embedding mp: it is the fast mapping of mp, or (filter off) that fast mapping composed with
     an automorphism enumerated for the matched substructure; and everything of that form is yielded *)
  Theorem match_stereo_yield : forall flt res, call flt = Ok res ->
    exists found, search = Ok found /\
      forall g, In g res <->
        exists mp fm cl bd l, In mp found /\ oracle_get oracle mp = Ok (fm, cl, bd) /\ ms_one beq flt fm cl bd = Ok l /\ In g l.
  Proof.
    intros flt res H. unfold get_mapping_match_stereo in H. destruct search as [found|] eqn:Es; [|discriminate].
    exists found. split; [reflexivity|]. destruct (all_ok (map (oracle_get oracle) found)) as [obs|] eqn:Eo; [|discriminate].
    unfold match_stereo_stream in H. match type of H with match ?X with _ => _ end = _ => destruct X as [ls|] eqn:El end; [|discriminate]. injection H as <-.
    apply (stream_In flt found obs (all_ok_Forall2 _ _ _ Eo) ls El).
  Qed.

  (* ---- the search always runs with the image-set filter: found embeddings have pairwise different image sets ---- *)
  Lemma search_filtered found : search = Ok found -> ForallOrdPairs (fun a b => ~ same_image a b) found.
  Proof.
    unfold mol_get_mapping, iso_get_mapping. destruct (compile_query q_atoms q_bonds) as [[comps clo]|]; [|discriminate].
    destruct (iso_stream amatch bmatch comps clo o_atoms o_bonds tcomps scope) as [s|]; [|discriminate]. intros H. injection H as <-.
    apply (automorphism_filter_exact s).
  Qed.

  (* the oracle keeps the image atoms: get_fast_mapping maps the pattern onto the substructure cut out by the embedding *)
  Definition oracle_keeps_image : Prop :=
    forall mp fm cl bd, oracle_get oracle mp = Ok (Some fm, cl, bd) -> same_image fm mp.

  Lemma filtered_transfer : oracle_keeps_image -> forall (ms : list mapping) obs, Forall2 (fun mp o => oracle_get oracle mp = Ok o) ms obs ->
    ForallOrdPairs (fun a b => ~ same_image a b) ms -> forall ls, all_ok (map (one true) obs) = Ok ls ->
    ForallOrdPairs (fun a b => ~ same_image a b) (concat ls) /\ forall g, In g (concat ls) -> exists mp, In mp ms /\ same_image g mp.
  Proof.
    intros Hk. induction 1 as [|mp o ms obs Ho _ IH]; intros Hd ls Hls; cbn in Hls.
    - injection Hls as <-. split; [constructor | intros ? []].
    - destruct o as [[fm cl] bd]. rewrite ms_one_filtered in Hls. destruct (all_ok (map (one true) obs)) as [ls'|] eqn:E2; [|discriminate].
      injection Hls as <-. inversion Hd as [|? ? Hhead Htail]; subst. destruct (IH Htail ls' eq_refl) as [I1 I2]. cbn [concat].
      destruct fm as [[|p r]|].
      + split; [exact I1 | intros g Hg; destruct (I2 g Hg) as (mp' & Hin & Hs); exists mp'; split; [right; exact Hin | exact Hs]].
      + pose proof (Hk mp (p :: r) cl bd Ho) as Hsame. cbn [app]. split.
        * constructor; [|exact I1]. apply Forall_forall. intros g Hg E. destruct (I2 g Hg) as (mp' & Hin & Hs).
          rewrite Forall_forall in Hhead. apply (Hhead mp' Hin). intros y. rewrite <- (Hsame y), (E y). apply Hs.
        * intros g [<-|Hg]; [exists mp; split; [left; reflexivity | exact Hsame]|].
          destruct (I2 g Hg) as (mp' & Hin & Hs). exists mp'. split; [right; exact Hin | exact Hs].
      + split; [exact I1 | intros g Hg; destruct (I2 g Hg) as (mp' & Hin & Hs); exists mp'; split; [right; exact Hin | exact Hs]].
  Qed.

  (* automorphism_filter=True: no two yielded maps cover the same atoms (in particular no duplicates), and every yielded map covers the atoms
     of a found embedding *)
  Theorem match_stereo_filtered_distinct : oracle_keeps_image -> forall res, call true = Ok res ->
    ForallOrdPairs (fun a b => ~ same_image a b) res /\ NoDup res /\
    exists found, search = Ok found /\ forall g, In g res -> exists mp, In mp found /\ same_image g mp.
  Proof.
    intros Hk res H. unfold get_mapping_match_stereo in H. destruct search as [found|] eqn:Es; [|discriminate].
    destruct (all_ok (map (oracle_get oracle) found)) as [obs|] eqn:Eo; [|discriminate].
    unfold match_stereo_stream in H. match type of H with match ?X with _ => _ end = _ => destruct X as [ls|] eqn:El end; [|discriminate]. injection H as <-.
    destruct (filtered_transfer Hk found obs (all_ok_Forall2 _ _ _ Eo) (search_filtered found Es) ls El) as [F1 F2].
    split; [exact F1|]. split; [|exists found; split; [reflexivity | exact F2]].
    apply (FOP_NoDup _ _ F1). intros a Ha. apply Ha. intros y. tauto.
  Qed.

  (* ---- the found embeddings are the embeddings of the earlier theorems ---- *)
  Theorem match_stereo_found_embeddings :
    wf_adj q_atoms q_bonds -> wf_adj o_atoms o_bonds -> tcomps_ok A B o_atoms o_bonds tcomps ->
    forall comps clo, compile_query q_atoms q_bonds = Ok (comps, clo) ->
    exists found, search = Ok found /\
      (forall mp, In mp found -> multi_embedding QA A QB B amatch bmatch q_atoms q_bonds o_atoms o_bonds tcomps comps scope mp) /\
      (forall f, multi_embedding QA A QB B amatch bmatch q_atoms q_bonds o_atoms o_bonds tcomps comps scope f ->
                 exists mp, In mp found /\ same_image f mp).
  Proof.
    intros Wq Wo Tc comps clo Hc.
    destruct (get_mapping_filtered_exact QA A QB B amatch bmatch q_atoms q_bonds o_atoms o_bonds tcomps Wq Wo Tc comps clo scope Hc)
      as ((found & E & H1 & H2 & _) & _).
    exists found. split; [exact E|]. split; [exact H1 | exact H2].
  Qed.
End MatchStereo.

(* filter off, the matched substructure well-formed: the maps following the fast mapping are its compositions with exactly the
   non-identity class automorphisms of the substructure (IsoAuto.class_automorphism), in the order _get_automorphism_mapping yields them *)
Theorem ms_one_unfiltered_auto : forall (B : Type) (beq : B -> B -> bool) p r cl (bd : list (Z * list (Z * B))) res,
  wf_adj cl bd -> ms_one beq false (Some (p :: r)) cl bd = Ok res ->
  exists comps clo, compile_query cl bd = Ok (comps, clo) /\
    forall g, In g res <->
      g = p :: r \/ exists a, (class_automorphism B beq cl bd comps a /\ exists x y, In (x, y) a /\ x <> y) /\ compose_fm (p :: r) a = Ok g.
Proof.
  intros B beq p r cl bd res Wf H. destruct (ms_one_unfiltered B beq p r cl bd res H) as (autos & Ea & Hs).
  destruct (automorphism_mapping_exact B beq cl bd Wf) as (comps & clo & autos' & Hc & Ea' & _ & Ha).
  rewrite Ea in Ea'. injection Ea' as <-. exists comps, clo. split; [exact Hc|]. intros g. rewrite (Hs g). split.
  - intros [E|(a & Hin & Hg)]; [left; exact E | right; exists a; split; [apply Ha; exact Hin | exact Hg]].
  - intros [E|(a & Hca & Hg)]; [left; exact E | right; exists a; split; [apply Ha; exact Hca | exact Hg]].
Qed.

(* ---------- the hypothesis oracle_keeps_image as a boolean on the observed oracle (evaluated by the correspondence) ---------- *)
Definition oracle_keeps_imageb {B : Type} (oracle : list (mapping * ms_obs B)) : bool :=
  forallb (fun kv => match kv with (mp, (Some fm, _, _)) => fs_eqb (image fm) (image mp) | _ => true end) oracle.

Lemma mapping_eqb_eq : forall a b : mapping, mapping_eqb a b = true -> a = b.
Proof.
  unfold mapping_eqb. induction a as [|[k v] a IH]; intros [|[k' v'] b] H; cbn in H; try discriminate; [reflexivity|].
  apply andb_prop in H. destruct H as [H1 H2]. apply andb_prop in H1. destruct H1 as [Ek Ev]. cbn in Ek, Ev.
  apply Z.eqb_eq in Ek. apply Z.eqb_eq in Ev. subst. f_equal. apply IH. exact H2.
Qed.

Lemma oracle_get_In {B : Type} : forall (oracle : list (mapping * ms_obs B)) mp v, oracle_get oracle mp = Ok v -> In (mp, v) oracle.
Proof.
  induction oracle as [|[k w] r IH]; intros mp v H; cbn in H; [discriminate|].
  destruct (mapping_eqb k mp) eqn:E; [injection H as <-; apply mapping_eqb_eq in E; subst; left; reflexivity | right; apply IH; exact H].
Qed.

Theorem oracle_keeps_imageb_sound {B : Type} (oracle : list (mapping * ms_obs B)) :
  oracle_keeps_imageb oracle = true -> oracle_keeps_image B oracle.
Proof.
  unfold oracle_keeps_imageb, oracle_keeps_image. rewrite forallb_forall. intros H mp fm cl bd Hg.
  specialize (H _ (oracle_get_In oracle mp _ Hg)). cbn in H. unfold same_image. apply (proj1 (fs_eqb_iff _ _) H).
Qed.
