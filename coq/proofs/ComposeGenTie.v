(* C15 -- tie by translation: the functions that tools/gen_compose.py regenerates from the SOURCE of
   MoleculeContainer.compose, DynamicElement.from_atom / from_atoms / is_dynamic, DynamicBond.from_bond / is_dynamic /
   __init__ and CGRContainer.center_atoms (Gen.ComposeGen) are equal to the hand-written model (Model.Compose).
   A behaviour-changing edit of one of these bodies changes Gen.ComposeGen and breaks the lemma named after it. *)
From Coq Require Import ZArith List Bool Lia Permutation.
From Model Require Import PyBase Graph Compose.
From Gen Require Import ComposeGen.
From Proofs Require Import ComposeProofs.
Import ListNotations.
Open Scope Z_scope.

(* ---------- the small bodies ---------- *)
Lemma g_from_atom_eq a : g_from_atom a = from_atom a.
Proof. reflexivity. Qed.
Lemma g_from_atoms_eq a b : g_from_atoms a b = from_atoms a b.
Proof. reflexivity. Qed.
Lemma g_from_bond_eq b : g_from_bond b = from_bond b.
Proof. reflexivity. Qed.
Lemma g_datom_is_dynamic_eq a : g_datom_is_dynamic a = datom_dynamic a.
Proof. reflexivity. Qed.
Lemma g_dbond_is_dynamic_eq b : g_dbond_is_dynamic b = dbond_dynamic b.
Proof. reflexivity. Qed.

(* DynamicBond.__init__: the whole validation, for ALL argument pairs *)
Definition order_valid (o : option Z) : bool :=
  match o with None => true | Some z => (z =? 1) || (z =? 2) || (z =? 3) || (z =? 4) || (z =? 8) end.
Lemma g_dbond_init_spec o p :
  g_dbond_init o p = match o, p with
                     | None, None => Err TypeError
                     | _, _ => if order_valid o && order_valid p then Ok (mkDBond o p) else Err ValueError
                     end.
Proof.
  unfold g_dbond_init, order_valid. destruct o as [a|], p as [b|]; cbn [existsb option_eqb negb andb orb];
    repeat match goal with |- context [?x =? ?k] => destruct (x =? k) end; reflexivity.
Qed.
(* the three call sites of the constructor inside compose never fail on bonds a Bond object can carry *)
Definition bond_order_ok (z : Z) : Prop := In z [1; 2; 3; 4; 8].
Lemma g_dbond_init_call_sites z w : bond_order_ok z -> bond_order_ok w ->
  g_dbond_init (Some z) None = Ok (mkDBond (Some z) None) /\
  g_dbond_init None (Some z) = Ok (mkDBond None (Some z)) /\
  g_dbond_init (Some z) (Some w) = Ok (mkDBond (Some z) (Some w)).
Proof.
  intros Hz Hw. rewrite !g_dbond_init_spec.
  assert (V : forall x, bond_order_ok x -> order_valid (Some x) = true).
  { intros x Hx. unfold bond_order_ok in Hx. cbn [In] in Hx. destruct Hx as [E|[E|[E|[E|[E|[]]]]]]; subst; reflexivity. }
  rewrite (V z Hz), (V w Hw). cbn. auto.
Qed.

(* ---------- CGRContainer.center_atoms ---------- *)
Lemma set_update_spec l : forall s, NoDup l ->
  set_update s l = s ++ filter (fun x => negb (zmem x s)) l.
Proof.
  unfold set_update. induction l as [|x l IH]; intros s Hn; cbn [fold_left filter].
  - rewrite app_nil_r. reflexivity.
  - inversion Hn as [|? ? Hx Hl]; subst. destruct (zmem x s) eqn:E; cbn [negb].
    + apply IH. exact Hl.
    + rewrite IH by exact Hl. rewrite <- app_assoc. cbn [app]. f_equal. f_equal.
      apply filter_ext_in. intros y Hy. f_equal. unfold zmem. rewrite existsb_app. cbn [existsb].
      rewrite orb_false_r. destruct (y =? x) eqn:Eyx; [|rewrite orb_false_r; reflexivity].
      apply Z.eqb_eq in Eyx. subst. contradiction.
Qed.
Lemma NoDup_map_fst_filter {V} (f : Z * V -> bool) (d : list (Z * V)) : NoDup (keys d) -> NoDup (map fst (filter f d)).
Proof.
  induction d as [|[k v] d IH]; intros Hn; cbn [filter map]; [constructor|].
  cbn [keys map fst] in Hn. inversion Hn as [|? ? Hk Hd]; subst. destruct (f (k, v)); cbn [map fst]; [|apply IH; exact Hd].
  constructor; [|apply IH; exact Hd]. intros Hi. apply Hk. apply in_map_iff in Hi. destruct Hi as [[k' v'] [E Hi]].
  cbn [fst] in E. subst k'. apply filter_In in Hi. apply in_map_iff. exists (k, v'). split; [reflexivity|apply Hi].
Qed.
Lemma g_center_atoms_eq h : NoDup (keys (c_atoms h)) -> NoDup (keys (c_adj h)) -> g_center_atoms h = center_atoms h.
Proof.
  intros Ha Hb. unfold g_center_atoms, center_atoms, set_of_list.
  rewrite (set_update_spec _ []) by (apply NoDup_map_fst_filter; exact Ha). cbn [app].
  rewrite (filter_ext (fun x => negb (zmem x [])) (fun _ => true)) by reflexivity.
  assert (F : forall (l : list Z), filter (fun _ => true) l = l) by (induction l as [|x l IH]; cbn; [|rewrite IH]; reflexivity).
  rewrite F. apply set_update_spec. apply NoDup_map_fst_filter. exact Hb.
Qed.

(* ---------- dict helpers ---------- *)
Definition map0 (ha : list (Z * datom)) : list (Z * list (Z * dbond)) := map (fun na => (fst na, [])) ha.
Lemma map0_zset ha n d : map0 (zset ha n d) = zset (map0 ha) n [].
Proof.
  unfold map0. induction ha as [|[k v] ha IH]; cbn [zset map fst]; [reflexivity|].
  destruct (n =? k) eqn:E; cbn [map fst]; [reflexivity|]. rewrite IH. reflexivity.
Qed.
Lemma zset_zset {V} (d : list (Z * V)) k v w : zset (zset d k v) k w = zset d k w.
Proof.
  induction d as [|[k' v'] d IH]; cbn [zset].
  - rewrite Z.eqb_refl. reflexivity.
  - destruct (k =? k') eqn:E; cbn [zset]; rewrite ?Z.eqb_refl, ?E; [reflexivity|]. rewrite IH. reflexivity.
Qed.
Lemma zget_snoc_absent {V} (d : list (Z * V)) k v : ~ In k (keys d) -> zget (d ++ [(k, v)]) k = Some v.
Proof.
  induction d as [|[k' v'] d IH]; intros H; cbn [app zget].
  - rewrite Z.eqb_refl. reflexivity.
  - cbn [keys map fst In] in H. destruct (k =? k') eqn:E; [apply Z.eqb_eq in E; subst; tauto|]. apply IH. tauto.
Qed.
Lemma zset_snoc_absent {V} (d : list (Z * V)) k v w : ~ In k (keys d) -> zset (d ++ [(k, v)]) k w = d ++ [(k, w)].
Proof.
  induction d as [|[k' v'] d IH]; intros H; cbn [app zset].
  - rewrite Z.eqb_refl. reflexivity.
  - cbn [keys map fst In] in H. destruct (k =? k') eqn:E; [apply Z.eqb_eq in E; subst; tauto|]. rewrite IH by tauto. reflexivity.
Qed.
Lemma fold_bind_err {A S : Type} (f : S -> A -> pyres S) (l : list A) e :
  fold_left (fun st x => bind st (fun st => f st x)) l (Err e) = Err e.
Proof. induction l as [|x l IH]; cbn [fold_left bind]; [reflexivity|exact IH]. Qed.

Lemma wf_adj_get g n a : wf_mol g = true -> atom_of g n = Some a -> zget (m_adj g) n = Some (nbrs g n).
Proof.
  intros Hw Ha. destruct (wf_keys g Hw) as [Hk _]. apply zget_In_keys in Ha. rewrite Hk in Ha.
  unfold nbrs. destruct (zget (m_adj g) n) as [l|] eqn:E; [reflexivity|]. apply zget_None_keys in E. contradiction.
Qed.

(* ---------- the inner loops that append to `bonds` (source lines 353, 364, 383) ---------- *)
Lemma emit_fold {X : Type} (f : blist -> Z * X -> blist) (ha : list Z) (n : Z) (mk : Z -> X -> dbond) :
  (forall st x, f st x = if negb (zmem (fst x) ha) then st ++ [(n, fst x, mk (fst x) (snd x))] else st) ->
  forall items st, fold_left f items st = st ++ emit ha n mk items.
Proof.
  intros Hf. unfold emit. induction items as [|x items IH]; intros st; cbn [fold_left filter map].
  - rewrite app_nil_r. reflexivity.
  - rewrite IH, Hf. destruct (negb (zmem (fst x) ha)); cbn [map]; [rewrite <- app_assoc|]; reflexivity.
Qed.
Lemma g_c2_emit common ha n items st :
  fold_left (g_c2_body common ha n) items st =
  st ++ emit (keys ha) n (fun m b => if zmem m common then mkDBond (Some (b_ord b)) None else from_bond b) items.
Proof. apply emit_fold. intros s x. unfold g_c2_body. destruct (negb (zmem (fst x) (keys ha))); reflexivity. Qed.
Lemma g_c4_emit common ha n items st :
  fold_left (g_c4_body common ha n) items st =
  st ++ emit (keys ha) n (fun m b => if zmem m common then mkDBond None (Some (b_ord b)) else from_bond b) items.
Proof. apply emit_fold. intros s x. unfold g_c4_body. destruct (negb (zmem (fst x) (keys ha))); reflexivity. Qed.
Lemma g_c9_emit ha n items st :
  fold_left (g_c9_body ha n) items st = st ++ emit (keys ha) n (fun _ e => mkDBond (fst e) (snd e)) items.
Proof. apply emit_fold. intros s x. unfold g_c9_body. destruct (negb (zmem (fst x) (keys ha))); reflexivity. Qed.

(* ---------- loops 1 and 2 of the model = source lines 350 and 360 ---------- *)
Lemma g_c1_step g common bonds ha hb n : wf_mol g = true ->
  g_c1_body g common (bonds, ha, hb) n =
  match atom_of g n with
  | None => Err KeyError
  | Some a => Ok (bonds ++ emit (keys (zset ha n (from_atom a))) n (fun m b => if zmem m common then mkDBond (Some (b_ord b)) None else from_bond b) (nbrs g n),
                  zset ha n (from_atom a), zset hb n [])
  end.
Proof.
  intros Hw. unfold g_c1_body, py_getitem at 1. fold (atom_of g n). destruct (atom_of g n) as [a|] eqn:Ea; cbn [bind]; [|reflexivity].
  unfold py_getitem. rewrite (wf_adj_get g n a Hw Ea). cbn [bind]. rewrite g_c2_emit, g_from_atom_eq. reflexivity.
Qed.
Lemma g_c1_loop g common : wf_mol g = true -> forall order bonds ha,
  fold_left (fun st x => bind st (fun st => g_c1_body g common st x)) order (Ok (bonds, ha, map0 ha)) =
  match loop_side g common (fun o => mkDBond (Some o) None) order ha with
  | Ok (haf, bs) => Ok (bonds ++ bs, haf, map0 haf)
  | Err e => Err e
  end.
Proof.
  intros Hw. induction order as [|n rest IH]; intros bonds ha; cbn [fold_left loop_side].
  - rewrite app_nil_r. reflexivity.
  - cbn [bind]. rewrite (g_c1_step g common bonds ha (map0 ha) n Hw).
    destruct (atom_of g n) as [a|] eqn:Ea; [|apply fold_bind_err].
    rewrite <- (map0_zset ha n (from_atom a)), IH.
    destruct (loop_side g common _ rest (zset ha n (from_atom a))) as [[haf bs]|e]; [|reflexivity].
    rewrite <- app_assoc. reflexivity.
Qed.
Lemma g_c3_step g common bonds ha hb n : wf_mol g = true ->
  g_c3_body g common (bonds, ha, hb) n =
  match atom_of g n with
  | None => Err KeyError
  | Some a => Ok (bonds ++ emit (keys (zset ha n (from_atom a))) n (fun m b => if zmem m common then mkDBond None (Some (b_ord b)) else from_bond b) (nbrs g n),
                  zset ha n (from_atom a), zset hb n [])
  end.
Proof.
  intros Hw. unfold g_c3_body, py_getitem at 1. fold (atom_of g n). destruct (atom_of g n) as [a|] eqn:Ea; cbn [bind]; [|reflexivity].
  unfold py_getitem. rewrite (wf_adj_get g n a Hw Ea). cbn [bind]. rewrite g_c4_emit, g_from_atom_eq. reflexivity.
Qed.
Lemma g_c3_loop g common : wf_mol g = true -> forall order bonds ha,
  fold_left (fun st x => bind st (fun st => g_c3_body g common st x)) order (Ok (bonds, ha, map0 ha)) =
  match loop_side g common (fun o => mkDBond None (Some o)) order ha with
  | Ok (haf, bs) => Ok (bonds ++ bs, haf, map0 haf)
  | Err e => Err e
  end.
Proof.
  intros Hw. induction order as [|n rest IH]; intros bonds ha; cbn [fold_left loop_side].
  - rewrite app_nil_r. reflexivity.
  - cbn [bind]. rewrite (g_c3_step g common bonds ha (map0 ha) n Hw).
    destruct (atom_of g n) as [a|] eqn:Ea; [|apply fold_bind_err].
    rewrite <- (map0_zset ha n (from_atom a)), IH.
    destruct (loop_side g common _ rest (zset ha n (from_atom a))) as [[haf bs]|e]; [|reflexivity].
    rewrite <- app_assoc. reflexivity.
Qed.

(* ---------- loop 3 of the model = source line 371 (the defaultdict of two-slot lists) ---------- *)
Lemma dd_slot_set0 an m o : dd_slot_set an m 0 (Some o) = adj_set0 an m o.
Proof.
  unfold dd_slot_set, adj_set0, dd_touch, dd_get, slot_set. cbn zeta. unfold adj_entry in *. destruct (zget an m) as [e|] eqn:E.
  - rewrite ?E. reflexivity.
  - rewrite zget_zset, zset_zset, !Z.eqb_refl. reflexivity.
Qed.
Lemma dd_slot_set1 an m o : dd_slot_set an m 1 (Some o) = adj_set1 an m o.
Proof.
  unfold dd_slot_set, adj_set1, dd_touch, dd_get, slot_set. cbn zeta. unfold adj_entry in *. destruct (zget an m) as [e|] eqn:E.
  - rewrite ?E. reflexivity.
  - rewrite zget_zset, zset_zset, !Z.eqb_refl. reflexivity.
Qed.
Lemma fold_ext {A B : Type} (f g : A -> B -> A) : (forall a b, f a b = g a b) -> forall l a, fold_left f l a = fold_left g l a.
Proof. intros H. induction l as [|x l IH]; intros a; cbn [fold_left]; [reflexivity|]. rewrite H. apply IH. Qed.
Lemma g_c67_build r p common n :
  fold_left (g_c7_body common) (nbrs p n) (fold_left (g_c6_body common) (nbrs r n) []) = build_adj r p common n.
Proof.
  unfold build_adj. rewrite (fold_ext (g_c6_body common)
    (fun an mb => if zmem (fst mb) common then adj_set0 an (fst mb) (b_ord (snd mb)) else an)).
  - apply fold_ext. intros an x. unfold g_c7_body. destruct (zmem (fst x) common); [apply dd_slot_set1|reflexivity].
  - intros an x. unfold g_c6_body. destruct (zmem (fst x) common); [apply dd_slot_set0|reflexivity].
Qed.
Lemma g_c5_loop r p common : wf_mol r = true -> wf_mol p = true -> forall order adj,
  NoDup order -> (forall n, In n order -> ~ In n (keys adj) /\ In n (ids r) /\ In n (ids p)) ->
  fold_left (fun st x => bind st (fun st => g_c5_body r p common st x)) order (Ok adj) =
  Ok (adj ++ map (fun n => (n, build_adj r p common n)) order).
Proof.
  intros Hr Hp. induction order as [|n rest IH]; intros adj Hn H; cbn [fold_left map].
  - rewrite app_nil_r. reflexivity.
  - inversion Hn as [|? ? Hx Hrest]; subst. destruct (H n (or_introl eq_refl)) as [Hk [Ir Ip]].
    apply atom_of_ids in Ir, Ip. destruct Ir as [a Ea], Ip as [b Eb].
    cbn [bind]. unfold g_c5_body, dd_touch, dd_get.
    assert (Z0 : zget adj n = None) by (apply zget_None_keys; exact Hk). rewrite Z0.
    rewrite (keys_zset_absent adj n [] Hk), (zget_snoc_absent adj n [] Hk).
    unfold py_getitem. rewrite (wf_adj_get r n a Hr Ea), (wf_adj_get p n b Hp Eb). cbn [bind].
    rewrite g_c67_build, (zset_snoc_absent adj n [] _ Hk), IH.
    + rewrite <- app_assoc. reflexivity.
    + exact Hrest.
    + intros m Hm. destruct (H m (or_intror Hm)) as [Hk' [A B]]. split; [|auto].
      rewrite keys_app, in_app_iff. cbn [keys map fst In]. intros [Q|[Q|[]]]; [contradiction|subst; contradiction].
Qed.

(* ---------- loop 4 of the model = source line 379 ---------- *)
Lemma g_c8_step r p adjd bonds ha hb n : In n (keys adjd) ->
  g_c8_body r p (bonds, adjd, ha, hb) n =
  match atom_of r n, atom_of p n with
  | Some a, Some b =>
      match from_atoms a b with
      | Ok d => Ok (bonds ++ emit (keys (zset ha n d)) n (fun _ e => mkDBond (fst e) (snd e)) (adj_lookup adjd n), adjd, zset ha n d, zset hb n [])
      | Err e => Err e
      end
  | _, _ => Err KeyError
  end.
Proof.
  intros H. unfold g_c8_body, py_getitem. fold (atom_of r n). fold (atom_of p n).
  destruct (atom_of r n) as [a|] eqn:Ea; cbn [bind]; [|reflexivity].
  destruct (atom_of p n) as [b|] eqn:Eb; cbn [bind]; [|reflexivity].
  rewrite g_from_atoms_eq. destruct (from_atoms a b) as [d|e] eqn:Ed; cbn [bind]; [|reflexivity].
  assert (T : dd_touch [] adjd n = adjd).
  { unfold dd_touch. destruct (zget adjd n) eqn:E; [reflexivity|]. apply zget_None_keys in E. contradiction. }
  rewrite T, g_c9_emit. reflexivity.
Qed.
Lemma g_c8_loop r p adjd : forall order bonds ha, (forall n, In n order -> In n (keys adjd)) ->
  fold_left (fun st x => bind st (fun st => g_c8_body r p st x)) order (Ok (bonds, adjd, ha, map0 ha)) =
  match loop_common r p adjd order ha with
  | Ok (haf, bs) => Ok (bonds ++ bs, adjd, haf, map0 haf)
  | Err e => Err e
  end.
Proof.
  induction order as [|n rest IH]; intros bonds ha H; cbn [fold_left loop_common].
  - rewrite app_nil_r. reflexivity.
  - cbn [bind]. rewrite (g_c8_step r p adjd bonds ha (map0 ha) n (H n (or_introl eq_refl))).
    destruct (atom_of r n) as [a|] eqn:Ea; [|apply fold_bind_err].
    destruct (atom_of p n) as [b|] eqn:Eb; [|apply fold_bind_err].
    destruct (from_atoms a b) as [d|e] eqn:Ed; [|apply fold_bind_err].
    rewrite <- (map0_zset ha n d).
    rewrite IH by (intros m Hm; apply H; right; exact Hm).
    destruct (loop_common r p adjd rest (zset ha n d)) as [[haf bs]|e]; [|reflexivity].
    rewrite <- app_assoc. reflexivity.
Qed.

(* ---------- loop 5 of the model = source line 387 (both subscript reads can raise KeyError; they never do) ---------- *)
Lemma g_c10_loop : forall bonds hb, (forall a b bd, In (a, b, bd) bonds -> In a (keys hb) /\ In b (keys hb)) ->
  fold_left (fun st x => bind st (fun st => g_c10_body st x)) bonds (Ok hb) = Ok (fold_left assign bonds hb).
Proof.
  induction bonds as [|[[a b] bd] rest IH]; intros hb H; cbn [fold_left]; [reflexivity|].
  destruct (H a b bd (or_introl eq_refl)) as [Ia Ib]. cbn [bind]. unfold g_c10_body. cbn [fst snd].
  unfold py_getitem. destruct (zget hb a) as [la|] eqn:Ea; [|apply zget_None_keys in Ea; contradiction]. cbn [bind].
  assert (S1 : zset hb a (zset la b bd) = set_bond hb a b bd) by (unfold set_bond; rewrite Ea; reflexivity). rewrite S1.
  destruct (zget (set_bond hb a b bd) b) as [lb|] eqn:Eb;
    [|apply zget_None_keys in Eb; rewrite set_bond_keys in Eb; contradiction]. cbn [bind].
  assert (S2 : zset (set_bond hb a b bd) b (zset lb a bd) = assign hb (a, b, bd)).
  { unfold assign. set (hb1 := set_bond hb a b bd) in *. unfold set_bond. rewrite Eb. reflexivity. }
  rewrite S2. apply IH. intros x y z Hi. rewrite assign_keys. apply (H x y z). right. exact Hi.
Qed.

(* ---------- the set expressions (source lines 344, 350, 360) ---------- *)
Lemma g_set_common_eq r p : g_set_common r p = common_ids r p.
Proof. reflexivity. Qed.
Lemma filter_not_common (r p : mol) (l : list Z) :
  filter (fun x => negb (zmem x (filter (fun y => zmem y (ids p)) (ids r)))) (ids r) = filter (fun x => negb (zmem x (ids p))) (ids r).
Proof.
  apply filter_ext_in. intros x Hx. f_equal. destruct (zmem x (ids p)) eqn:E.
  - apply zmem_In. apply filter_In. split; [exact Hx|exact E].
  - apply zmem_false. intros Hi. apply filter_In in Hi. destruct Hi as [_ Hi]. congruence.
Qed.
Lemma g_set_iter1_eq r p : g_set_iter1 r p = cleavage_ids r p.
Proof. unfold g_set_iter1, g_set_common, cleavage_ids. apply (filter_not_common r p []). Qed.
Lemma g_set_iter2_eq r p : g_set_iter2 r p = coupling_ids r p.
Proof.
  unfold g_set_iter2, g_set_common, coupling_ids, ids. apply filter_ext_in. intros x Hx. f_equal. destruct (zmem x (keys (m_atoms r))) eqn:E.
  - apply zmem_In. apply filter_In. split; [apply zmem_In; exact E|apply zmem_In; exact Hx].
  - apply zmem_false. intros Hi. apply filter_In in Hi. destruct Hi as [Hi _]. apply zmem_In in Hi. congruence.
Qed.
(* the generated admissibility condition is the model's (the set of common atoms is iterated first in the source:
   ord1 = common, ord2 = reactant-only, ord3 = product-only) *)
Theorem g_orders_ok_iff r p o1 o2 o3 : g_orders_ok r p o3 o1 o2 <-> orders_ok r p o1 o2 o3.
Proof. unfold g_orders_ok, orders_ok. rewrite g_set_common_eq, g_set_iter1_eq, g_set_iter2_eq. tauto. Qed.

(* ---------- both ends of every collected bond are atoms of the result ---------- *)
Lemma trace_bond_ends r p o1 o2 o3 ha bs adjd :
  wf_mol r = true -> wf_mol p = true -> orders_ok r p o1 o2 o3 -> compose_trace o1 o2 o3 r p = Ok (ha, bs, adjd) ->
  forall a b bd, In (a, b, bd) bs -> In a (keys ha) /\ In b (keys ha).
Proof.
  intros Hr Hp Ho H. unfold compose_trace in H.
  destruct (loop_side r o3 (fun o => mkDBond (Some o) None) o1 []) as [[ha1 b1]|e] eqn:L1; [|discriminate].
  destruct (loop_side p o3 (fun o => mkDBond None (Some o)) o2 ha1) as [[ha2 b2]|e] eqn:L2; [|discriminate].
  destruct (loop_common r p (map (fun n => (n, build_adj r p o3 n)) o3) o3 ha2) as [[ha3 b3]|e] eqn:L3; [|discriminate].
  inversion H; subst ha bs adjd; clear H.
  destruct (loop_side_spec _ _ _ _ _ _ _ L1) as [A1 [B1 K1]].
  destruct (loop_side_spec _ _ _ _ _ _ _ L2) as [A2 [B2 K2]].
  destruct (loop_common_spec _ _ _ _ _ _ _ L3) as [A3 [B3 [K3 _]]].
  pose proof (o1_NoDup r p o1 o2 o3 Hr Ho) as N1. pose proof (o2_NoDup r p o1 o2 o3 Hp Ho) as N2.
  pose proof (o3_NoDup r p o1 o2 o3 Hr Ho) as N3.
  assert (E1 : keys ha1 = o1) by (rewrite K1; [reflexivity|exact N1|intros x _ []]).
  assert (E2 : keys ha2 = o1 ++ o2).
  { rewrite K2; [rewrite E1; reflexivity|exact N2|]. intros x X2 X1. rewrite E1 in X1.
    apply (o1_In r p o1 o2 o3 Ho) in X1. apply (o2_In r p o1 o2 o3 Ho) in X2. tauto. }
  assert (E3 : keys ha3 = o1 ++ o2 ++ o3).
  { rewrite K3; [rewrite E2, app_assoc; reflexivity|exact N3|]. intros x X3 X12. rewrite E2 in X12.
    apply (o3_In r p o1 o2 o3 Ho) in X3. apply in_app_iff in X12. destruct X12 as [X|X].
    - apply (o1_In r p o1 o2 o3 Ho) in X. tauto.
    - apply (o2_In r p o1 o2 o3 Ho) in X. tauto. }
  assert (Eb1 : b1 = walk (nbrs r) (side_mk o3 (fun o => mkDBond (Some o) None)) o1 []) by (apply B1; intros x; reflexivity).
  assert (Eb2 : b2 = walk (nbrs p) (side_mk o3 (fun o => mkDBond None (Some o))) o2 o1) by (apply B2; intros x; rewrite E1; reflexivity).
  assert (Eb3 : b3 = walk (adj_lookup (map (fun n => (n, build_adj r p o3 n)) o3)) common_mk o3 (o1 ++ o2))
    by (apply B3; intros x; rewrite E2; reflexivity).
  intros a b bd Hi. rewrite Eb1, Eb2, Eb3 in Hi. apply (sound_all r p o1 o2 o3 Hr Hp Ho) in Hi. rewrite E3.
  assert (Q : forall x y v, spec_bond r p x y = Some v -> In x (ids r) \/ In x (ids p)).
  { intros x y v Q. unfold spec_bond in Q. destruct (is_common r p x) eqn:Cx.
    - apply common_In in Cx. tauto.
    - cbn [andb] in Q. destruct (inb r x) eqn:Rx; [left; apply inb_In; exact Rx|]. cbn [andb] in Q.
      destruct (inb p x) eqn:Px; [right; apply inb_In; exact Px|]. cbn [andb] in Q. discriminate. }
  split; apply (all_In r p o1 o2 o3 Ho).
  - apply (Q a b bd). exact Hi.
  - apply (Q b a bd). rewrite spec_bond_sym by assumption. exact Hi.
Qed.

(* ---------- the whole body ---------- *)
(* the locals at `return h` of the TRANSLATED body are those of the model's trace, and hb is the model's assignment loop *)
Theorem g_compose_state_eq r p o1 o2 o3 :
  wf_mol r = true -> wf_mol p = true -> orders_ok r p o1 o2 o3 ->
  g_compose_state o3 o1 o2 r p =
  match compose_trace o1 o2 o3 r p with
  | Ok (ha, bs, adjd) => Ok (bs, adjd, ha, fold_left assign bs (map0 ha))
  | Err e => Err e
  end.
Proof.
  intros Hr Hp Ho. unfold g_compose_state, compose_trace.
  change (@nil (Z * list (Z * dbond))) with (map0 []) at 1.
  rewrite (g_c1_loop r o3 Hr). cbn [app].
  destruct (loop_side r o3 (fun o => mkDBond (Some o) None) o1 []) as [[ha1 b1]|e] eqn:L1; cbn [bind]; [|reflexivity].
  rewrite (g_c3_loop p o3 Hp).
  destruct (loop_side p o3 (fun o => mkDBond None (Some o)) o2 ha1) as [[ha2 b2]|e] eqn:L2; cbn [bind]; [|reflexivity].
  rewrite (g_c5_loop r p o3 Hr Hp o3 []).
  2: exact (o3_NoDup r p o1 o2 o3 Hr Ho).
  2: { intros n Hn. split; [intros []|]. apply (o3_In r p o1 o2 o3 Ho). exact Hn. }
  cbn [bind app]. rewrite g_c8_loop.
  2: { intros n Hn. unfold keys. rewrite map_map. cbn [fst]. rewrite map_id. exact Hn. }
  destruct (loop_common r p (map (fun n => (n, build_adj r p o3 n)) o3) o3 ha2) as [[ha3 b3]|e] eqn:L3; cbn [bind]; [|reflexivity].
  rewrite g_c10_loop.
  - cbn [bind]. rewrite app_assoc. reflexivity.
  - intros a b bd Hi. unfold map0. rewrite keys_init.
    apply (trace_bond_ends r p o1 o2 o3 ha3 (b1 ++ b2 ++ b3) (map (fun n => (n, build_adj r p o3 n)) o3) Hr Hp Ho) with (bd := bd).
    + unfold compose_trace. rewrite L1, L2, L3. reflexivity.
    + rewrite app_assoc. exact Hi.
Qed.

(* MoleculeContainer.compose as translated from the source = the hand-written model, for all well-formed molecules and
   every iteration order of the three sets *)
Theorem g_compose_ord_eq r p o1 o2 o3 :
  wf_mol r = true -> wf_mol p = true -> orders_ok r p o1 o2 o3 ->
  g_compose_ord o3 o1 o2 r p = compose_ord o1 o2 o3 r p.
Proof.
  intros Hr Hp Ho. unfold g_compose_ord. rewrite (g_compose_state_eq r p o1 o2 o3 Hr Hp Ho).
  unfold compose_trace, compose_ord.
  destruct (loop_side r o3 (fun o => mkDBond (Some o) None) o1 []) as [[ha1 b1]|e]; [|reflexivity].
  destruct (loop_side p o3 (fun o => mkDBond None (Some o)) o2 ha1) as [[ha2 b2]|e]; [|reflexivity].
  destruct (loop_common r p (map (fun n => (n, build_adj r p o3 n)) o3) o3 ha2) as [[ha3 b3]|e]; reflexivity.
Qed.

(* ---------- the property theorems, restated for the TRANSLATED source (set orders: any permutation of the translated
   set expressions) ---------- *)
Theorem g_compose_lookup r p oc o1 o2 h :
  wf_mol r = true -> wf_mol p = true -> g_orders_ok r p oc o1 o2 -> g_compose_ord oc o1 o2 r p = Ok h ->
  keys (c_atoms h) = o1 ++ o2 ++ oc /\ keys (c_adj h) = o1 ++ o2 ++ oc /\
  (forall n, catom h n = spec_atom r p n) /\ (forall n m, cbond h n m = spec_bond r p n m).
Proof.
  intros Hr Hp Ho H. apply g_orders_ok_iff in Ho. rewrite (g_compose_ord_eq r p o1 o2 oc Hr Hp Ho) in H.
  exact (compose_lookup r p o1 o2 oc h Hr Hp Ho H).
Qed.
Theorem g_compose_dynamic_iff r p oc o1 o2 h :
  wf_mol r = true -> wf_mol p = true -> g_orders_ok r p oc o1 o2 -> g_compose_ord oc o1 o2 r p = Ok h ->
  (forall n m, (exists b, cbond h n m = Some b /\ g_dbond_is_dynamic b = true) <->
               ord_in r n m <> ord_in p n m /\ (is_common r p n = true \/ is_common r p m = true)) /\
  (forall n, (exists a, catom h n = Some a /\ g_datom_is_dynamic a = true) <->
             exists a b, atom_of r n = Some a /\ atom_of p n = Some b /\ (a_chg a <> a_chg b \/ a_rad a <> a_rad b)) /\
  (forall n, In n (g_center_atoms h) <->
             (exists a, catom h n = Some a /\ g_datom_is_dynamic a = true) \/
             exists m b, cbond h n m = Some b /\ g_dbond_is_dynamic b = true).
Proof.
  intros Hr Hp Ho H. apply g_orders_ok_iff in Ho. rewrite (g_compose_ord_eq r p o1 o2 oc Hr Hp Ho) in H.
  destruct (compose_dynamic_iff r p o1 o2 oc h Hr Hp Ho H) as [A B]. split; [exact A|]. split; [exact B|].
  destruct (compose_lookup r p o1 o2 oc h Hr Hp Ho H) as [K1 [K2 _]].
  pose proof (all_NoDup r p o1 o2 oc Hr Hp Ho) as N.
  intros n. rewrite g_center_atoms_eq by (rewrite ?K1, ?K2; exact N).
  rewrite (compose_center_atoms r p o1 o2 oc h Hr Hp Ho H n). unfold is_dynamic_atom, is_dynamic_bond.
  split; (intros [X|[m X]]; [left; exact X|right]).
  - destruct X as [b X]. exists m, b. exact X.
  - destruct X as [b X]. exists m. exists b. exact X.
Qed.
Theorem g_compose_identity_no_center g oc o1 o2 :
  wf_mol g = true -> g_orders_ok g g oc o1 o2 ->
  exists h, g_compose_ord oc o1 o2 g g = Ok h /\ g_center_atoms h = [] /\
            (forall n a, catom h n = Some a -> g_datom_is_dynamic a = false) /\
            (forall n m b, cbond h n m = Some b -> g_dbond_is_dynamic b = false).
Proof.
  intros Hg Ho. pose proof Ho as Ho'. apply g_orders_ok_iff in Ho. rewrite (g_compose_ord_eq g g o1 o2 oc Hg Hg Ho).
  destruct (compose_identity_no_center g o1 o2 oc Hg Ho) as [h [E [C [A B]]]]. exists h. split; [exact E|].
  destruct (compose_lookup g g o1 o2 oc h Hg Hg Ho E) as [K1 [K2 _]].
  pose proof (all_NoDup g g o1 o2 oc Hg Hg Ho) as N.
  split; [rewrite g_center_atoms_eq by (rewrite ?K1, ?K2; exact N); exact C|]. split.
  - intros n a Ha. destruct (g_datom_is_dynamic a) eqn:D; [|reflexivity]. exfalso. apply (A n). exists a. auto.
  - intros n m b Hb. destruct (g_dbond_is_dynamic b) eqn:D; [|reflexivity]. exfalso. apply (B n m). exists b. auto.
Qed.
(* non-vacuity: the translated body run on the example of C15_compose_example *)
Theorem g_compose_example :
  g_orders_ok example_r example_p [1; 2; 3] [] [] /\
  exists h, g_compose_ord [1; 2; 3] [] [] example_r example_p = Ok h /\ compose example_r example_p = Ok h /\
            list_eqb Z.eqb (g_center_atoms h) [3; 1; 2] = true /\
            g_dbond_init (Some 2) (Some 1) = Ok (mkDBond (Some 2) (Some 1)) /\ g_dbond_init None None = Err TypeError /\
            g_dbond_init (Some 5) None = Err ValueError.
Proof.
  split; [unfold g_orders_ok; vm_compute; repeat split; apply Permutation_refl|].
  eexists. split; [vm_compute; reflexivity|]. repeat split; vm_compute; reflexivity.
Qed.
