(* C02, fuel sufficiency, part 2: the flattening loop of Smiles._smiles always returns a token list within fl_fuel = 3 n_atoms + 3
   iterations, and none of its IndexError branches is reachable.  Progress measure: 2 * (atoms placed) - (stack length) grows by
   at least one in every iteration and is bounded by twice the number of atoms. *)
From Coq Require Import ZArith List Bool Lia Permutation.
From Model Require Import PyBase Graph Writer.
From Proofs Require Import WriterProofsClosures WriterWfAtoms WriterWfStream WriterWfDfs WriterWfEvents WriterWfTree
                           WriterWfFlatten WriterWfParens WriterWfComplete WriterWfFlatten2 WriterWfDistinct WriterWfFinal.
Import ListNotations.
Open Scope Z_scope.

(* every list of `edges` is non-empty (they are only made by edges[parent].append(child)) *)
Definition lists_nonempty (edges : list (Z * list Z)) : Prop := Forall (fun e : Z * list Z => snd e <> []) edges.

Lemma zapp_nonempty edges p c : lists_nonempty edges -> lists_nonempty (zapp edges p c).
Proof.
  unfold lists_nonempty. induction edges as [|[a la] e IH]; intros H; cbn [zapp].
  - constructor; [discriminate | constructor].
  - inversion H as [|? ? H1 H2]. subst. destruct (p =? a); constructor; auto. cbn. destruct la; discriminate.
Qed.

Lemma dfs_step_nonempty g key st st' : lists_nonempty (ds_edges st) -> dfs_step g key st = Some st' -> lists_nonempty (ds_edges st').
Proof.
  intros I H. unfold dfs_step in H. destruct (ds_stack st) as [|[[p d] [|c ch]] r]; [discriminate | inversion H; exact I |].
  destruct (negb (zhas (ds_visited st) c)); [inversion H; cbn; apply zapp_nonempty; exact I|].
  destruct (negb (pair_mem (c, p) (ds_disc st))); inversion H; exact I.
Qed.

Lemma traverse_nonempty g w tb o all st t : traverse g w tb o all st = Ok t -> lists_nonempty (ds_edges (tr_dfs t)).
Proof.
  intros H. unfold traverse in H. destruct (min_by _ _) as [start|]; [|discriminate].
  match type of H with context [iter_opt ?f ?step ?s0] => destruct (iter_opt f step s0) as [d|] eqn:Ed; [|discriminate] end.
  inversion H. subst t. cbn [tr_dfs].
  eapply (iter_opt_inv (fun s => lists_nonempty (ds_edges s)) _ (dfs_step_nonempty g _)); [|exact Ed]. constructor.
Qed.

Fixpoint clo_ok (st : list fl_entry) : Prop :=
  match st with
  | [] => True
  | e :: r => 0 <= clo_of e <= Z.of_nat (List.length r) /\ clo_ok r
  end.

Lemma clo_ok_fst : forall st st' : list fl_entry, map fst st = map fst st' -> clo_ok st -> clo_ok st'.
Proof.
  induction st as [|x st IH]; intros [|x' st'] E H; cbn [map] in E; try discriminate; [exact I|].
  injection E as E1 E2. cbn [clo_ok] in *. destruct H as [H1 H2]. split.
  - assert (El : List.length st = List.length st') by (pose proof (f_equal (@List.length _) E2) as E3; rewrite !map_length in E3; exact E3).
    unfold clo_of in *. rewrite <- E1, <- El. exact H1.
  - apply (IH st' E2 H2).
Qed.

Lemma shaped_side_len s : shaped (TOpen :: s) -> (2 <= List.length s)%nat.
Proof.
  unfold shaped. cbn [frun fnext]. destruct s as [|t1 [|t2 r]]; cbn [frun].
  - discriminate.
  - destruct t1; cbn; discriminate.
  - intros _. cbn. lia.
Qed.

Lemma second_last_some s : (2 <= List.length s)%nat -> second_last_is_open s <> None.
Proof.
  intros H. unfold second_last_is_open. rewrite <- rev_length in H. destruct (rev s) as [|a [|b r]]; cbn in H; try lia. discriminate.
Qed.

Definition psi (st : list fl_entry) : Z := 2 * Z.of_nat (List.length (placed st)) - Z.of_nat (List.length st).

Section FlatFuel.
  Variable edges : list (Z * list Z).
  Variable root : Z.
  Hypothesis HF : Forest edges root.
  Hypothesis Hne : lists_nonempty edges.

  Record GI (st : list fl_entry) : Prop := mkGI { gi_ne : st <> []; gi_clo : clo_ok st }.

  Lemma fl_step_progress st : PI st -> GI st ->
    match fl_step edges st with
    | FlCont st' => GI st' /\ psi st + 1 <= psi st'
    | FlDone _ => True
    | FlErr _ => False
    end.
  Proof.
    intros [Pe Ps Pb] [Gn Gc]. unfold fl_step. destruct st as [|[[tail closure] smi] rest]; [contradiction|].
    cbn [clo_ok clo_of fst snd] in Gc. destruct Gc as [Hclo Gc'].
    inversion Pe as [|? ? Hsmi _]. subst. inversion Ps as [|? ? Hshape _]. subst. cbn [snd] in Hshape.
    assert (Hpl : placed ((tail, closure, smi) :: rest) = atoms_of smi ++ placed rest) by reflexivity.
    destruct (zget edges tail) as [children|] eqn:Ech.
    - assert (Hcne : children <> []).
      { unfold lists_nonempty in Hne. rewrite Forall_forall in Hne. apply (Hne (tail, children)). apply zget_In. exact Ech. }
      destruct (rev children) as [|last revfront] eqn:Er.
      { apply Hcne. rewrite <- (rev_involutive children), Er. reflexivity. }
      assert (Hch : children = rev revfront ++ [last]) by (rewrite <- (rev_involutive children), Er; reflexivity).
      destruct (1 <? Z.of_nat (List.length children)).
      + cbv zeta. set (old := (tail, closure, smi) :: rest) in *. set (L := Z.of_nat (List.length old)).
        set (sides := map (fun c => (c, L, [TOpen; TBond tail c; TAtom c])) (rev revfront)).
        set (M := (last, 0, [TBond tail last; TAtom last])).
        split; [constructor|].
        * intros E. apply (f_equal (@List.length _)) in E. rewrite app_length in E. cbn [List.length] in E. lia.
        * assert (Hold : clo_ok old) by (cbn [clo_ok clo_of fst snd old]; split; assumption).
          assert (HM : clo_ok (M :: old)) by (cbn [clo_ok clo_of fst snd M]; split; [lia | exact Hold]).
          unfold sides. generalize (rev revfront). intros l. induction l as [|c l IHl]; [exact HM|].
          cbn [map app clo_ok clo_of fst snd]. split; [|exact IHl].
          rewrite app_length, map_length. cbn [List.length]. unfold L. unfold fl_entry in *. lia.
        * change (psi old + 1 <= psi (sides ++ M :: old)). unfold psi. assert (E1 : placed (sides ++ M :: old) = (rev revfront ++ [last]) ++ placed old).
          { unfold placed. rewrite flat_map_app. cbn [flat_map]. unfold sides. rewrite sides_placed. cbn [snd atoms_of M]. rewrite <- !app_assoc. reflexivity. }
          rewrite E1. unfold sides. rewrite !app_length, map_length. cbn [List.length]. unfold fl_entry in *. lia.
      + split; [constructor|].
        * discriminate.
        * cbn [clo_ok clo_of fst snd]. split; assumption.
        * change (psi ((tail, closure, smi) :: rest) + 1 <= psi ((last, closure, smi ++ [TBond tail last; TAtom last]) :: rest)).
          unfold psi, placed. cbn [flat_map snd]. rewrite atoms_of_app, !app_length. cbn [atoms_of List.length]. unfold fl_entry in *. lia.
    - destruct (negb (closure =? 0)) eqn:Ecl.
      + apply negb_true_iff in Ecl. apply Z.eqb_neq in Ecl.
        unfold entry_ok in Hsmi. cbn [fst snd] in Hsmi. destruct (closure =? 0) eqn:E0; [apply Z.eqb_eq in E0; contradiction|].
        destruct Hsmi as [s [Es Hbs]].
        assert (Hlen2 : (2 <= List.length smi)%nat) by (rewrite Es in Hshape |- *; pose proof (shaped_side_len s Hshape); cbn [List.length]; lia).
        destruct (second_last_is_open smi) as [b|] eqn:Eb; [|exact (second_last_some smi Hlen2 Eb)].
        assert (Hb : b = false).
        { destruct b; [exfalso; exact (shaped_second_last smi Hshape Eb) | reflexivity]. }
        subst b.
        destruct (closure - 1 <? Z.of_nat (List.length rest)) eqn:Elt; [|apply Z.ltb_ge in Elt; lia].
        assert (Hrl : (0 < List.length rest)%nat) by (apply Z.ltb_lt in Elt; lia).
        set (idx := (List.length rest - 1 - Z.to_nat (closure - 1))%nat).
        assert (Hidx : (idx < List.length rest)%nat) by (unfold idx; lia).
        destruct (placed_upd idx (smi ++ [TClose]) rest Hidx) as [P1 [_ P3]].
        set (new := upd_at idx (fun e : fl_entry => (fst e, snd e ++ smi ++ [TClose])) rest) in *.
        assert (Hnl : List.length new = List.length rest) by (pose proof (f_equal (@List.length _) P3) as E3; rewrite !map_length in E3; exact E3).
        split; [constructor|].
        * intros E. assert (E' : new = []) by exact E. rewrite E' in Hnl. cbn in Hnl. lia.
        * apply (clo_ok_fst rest new (eq_sym P3) Gc').
        * change (psi ((tail, closure, smi) :: rest) + 1 <= psi new). unfold psi. rewrite (Permutation_length P1), Hnl, Hpl, atoms_of_app, !app_length. cbn [atoms_of List.length]. unfold fl_entry in *. lia.
      + destruct rest as [|[[t1 c1] s1] [|e2 rest']]; try exact I.
        cbn [clo_ok clo_of fst snd] in Gc'. destruct Gc' as [Hc1 [Hc2 Gc'']].
        split; [constructor|].
        * discriminate.
        * cbn [clo_ok clo_of fst snd]. split; [cbn [List.length] in *; exact Hc1 | split; [exact Hc2 | exact Gc'']].
        * change (psi ((tail, closure, smi) :: (t1, c1, s1) :: e2 :: rest') + 1 <= psi ((tail, c1, s1 ++ smi) :: e2 :: rest')).
          unfold psi, placed. cbn [flat_map snd]. rewrite atoms_of_app, !app_length. cbn [List.length]. unfold fl_entry in *. lia.
  Qed.

  Variable U : list Z.                  (* the atoms the tree lives in *)
  Hypothesis Hroot : In root U.
  Hypothesis Hkids : forall p c, In c (zgetl edges p) -> In c U.

  Lemma psi_bound st : FI edges root st -> psi st <= 2 * Z.of_nat (List.length U).
  Proof.
    intros I. unfold psi.
    assert (Hl : (List.length (placed st) <= List.length U)%nat).
    { apply NoDup_incl_length; [apply (fi_nodup _ _ _ I)|]. intros c Hc. destruct (fi_par _ _ _ I c Hc) as [-> | [p [Hp _]]]; [exact Hroot | apply (Hkids p c Hp)]. }
    lia.
  Qed.

  Lemma fl_run_total : forall fuel st, FI edges root st -> PI st -> GI st ->
    2 * Z.of_nat (List.length U) - psi st < Z.of_nat fuel -> exists r, fl_run fuel edges st = Ok r.
  Proof.
    induction fuel as [|fuel IH]; intros st I1 I2 I3 Hf.
    - pose proof (psi_bound st I1). lia.
    - cbn [fl_run]. pose proof (fl_step_FI edges root HF st I1) as S1. pose proof (fl_step_PI edges st I2) as S2.
      pose proof (fl_step_progress st I2 I3) as S3.
      destruct (fl_step edges st) as [st'|r'|e].
      + destruct S3 as [G' Hp]. apply (IH st' S1 S2 G'). lia.
      + exists r'. reflexivity.
      + destruct S3.
  Qed.
End FlatFuel.

(* the flattening of any traversal returns: fl_fuel suffices and no IndexError branch is reachable *)
Theorem flatten_total : forall g w tb o all st t, nbr_nodup g -> loop_free g ->
  NoDup (ws_atoms st) -> (forall n, In n (ws_atoms st) -> In n (ids g)) ->
  (forall n m, In n (ws_atoms st) -> In m (nbr_ids g n) -> In m (ws_atoms st)) ->
  traverse g w tb o all st = Ok t -> exists smi, flatten g t = Ok smi.
Proof.
  intros g w tb o all st t Hnn Hloop Hnd Hsub Hcl Ht.
  pose proof (traverse_forest _ _ _ _ _ _ _ Ht) as HF. pose proof (traverse_nonempty _ _ _ _ _ _ _ Ht) as Hne.
  destruct (traverse_invariants g w tb o all st t Hnn Hloop Hcl Ht) as [C [D [_ [_ Hvs]]]].
  unfold flatten.
  apply (fl_run_total _ _ HF Hne (ws_atoms st)).
  - apply (dc_vis_in _ _ _ C). exact Hvs.
  - intros p c Hc. apply (dc_vis_in _ _ _ C). apply (dd_edges_vis _ D p c Hc).
  - constructor; cbn.
    + constructor; [intros [] | constructor].
    + intros e [<- | []]. left. reflexivity.
    + intros c [<- | []]. left. reflexivity.
    + intros [].
    + exact I.
    + constructor; [intros [] | constructor].
    + intros n [].
  - constructor; [constructor; [reflexivity | constructor] | constructor; [reflexivity | constructor] | reflexivity].
  - constructor; [discriminate | cbn; lia].
  - unfold psi, placed, fl_fuel. cbn [flat_map snd atoms_of app List.length].
    assert (H3 : (List.length (ws_atoms st) <= n_atoms g)%nat) by (apply NoDup_incl_length; [exact Hnd | exact Hsub]). lia.
Qed.
