(* CXSMILES radical marks |^n:i,j,...| of smiles(): WHICH atoms get is_radical.

   set_radicals_flags     after `for x in radicals: atoms[x]['is_radical'] = True` the atom at position i carries the flag iff it
                          carried it before or i is one of the indices; the atom tokens themselves and their order are untouched;
   set_radicals_accepts   the loop succeeds iff every index is a position of the list, and otherwise the guarded reader raises
                          IncorrectSmiles (never IndexError / KeyError);
   radicals_written_order for a reaction the positions count through the molecules IN THE ORDER GIVEN to the flattening (the
                          reader passes reactants ++ reagents ++ products = the written order), and cutting the flat list back
                          into molecules (radicals_roles) returns every molecule its own atoms;
   reaction_radical_examples  whole-call instances: in reactants>reagents>products texts the index counts reagent atoms BEFORE
                          product atoms. *)
From Coq Require Import ZArith List String Ascii Bool Lia.
From Model Require Import PyBase Tokenize Parser Reader.
From Proofs Require Import ParserProofs.
Import ListNotations.
Open Scope Z_scope.

Lemma nth_error_ext_local {A} : forall (l l' : list A), (forall i, nth_error l i = nth_error l' i) -> l = l'.
Proof.
  induction l as [|x r IH]; intros [|y r'] H; [reflexivity | specialize (H 0%nat); discriminate | specialize (H 0%nat); discriminate |].
  pose proof (H 0%nat) as H0. cbn in H0. inversion H0; subst. f_equal. apply IH. intros i. exact (H (S i)).
Qed.

Lemma nth_map_local {A B} (f : A -> B) : forall l i, nth_error (map f l) i = option_map f (nth_error l i).
Proof. induction l as [|x r IH]; intros [|i]; cbn; try reflexivity. apply IH. Qed.

Lemma nth_error_seq_lt : forall n s i, (i < n)%nat -> nth_error (seq s n) i = Some (s + i)%nat.
Proof.
  induction n as [|n IH]; intros s i H; [lia|]. destruct i as [|i]; cbn; [f_equal; lia|].
  rewrite IH by lia. f_equal. lia.
Qed.

Lemma list_set_nth {A} (l : list A) : forall i v l', list_set l i v = Some l' ->
  nth_error l' i = Some v /\ forall j, j <> i -> nth_error l' j = nth_error l j.
Proof.
  induction l as [|x r IH]; intros i v l' H; cbn in H; [discriminate|].
  destruct i as [|i].
  - inversion H; subst. split; [reflexivity|]. intros [|j] Hj; [contradiction | reflexivity].
  - destruct (list_set r i v) as [r'|] eqn:E; [|discriminate]. inversion H; subst.
    destruct (IH i v r' E) as [H1 H2]. split; [exact H1|].
    intros [|j] Hj; [reflexivity|]. cbn. apply H2. intros ->. apply Hj. reflexivity.
Qed.

Lemma list_set_none {A} (l : list A) : forall i v, list_set l i v = None -> (List.length l <= i)%nat.
Proof.
  induction l as [|x r IH]; intros i v H; cbn in *; [lia|].
  destruct i as [|i]; [discriminate|]. destruct (list_set r i v) eqn:E; [discriminate|]. specialize (IH i v E). lia.
Qed.

Theorem set_radicals_flags rg crash : forall rads (atoms atoms' : list (atomtok * bool)),
  set_radicals rg crash atoms rads = Ok atoms' ->
  List.length atoms' = List.length atoms /\
  forall i a r, nth_error atoms i = Some (a, r) -> nth_error atoms' i = Some (a, r || zmem (Z.of_nat i) rads).
Proof.
  induction rads as [|x rs IH]; intros atoms atoms' H; cbn [set_radicals] in H.
  - inversion H; subst. split; [reflexivity|]. intros i a r Hi. rewrite Hi. cbn. rewrite orb_false_r. reflexivity.
  - destruct (x <? 0) eqn:Ex.
    { destruct rg; discriminate. }
    destruct (nth_error atoms (Z.to_nat x)) as [[ax bx]|] eqn:En; [|destruct rg; discriminate].
    destruct (list_set atoms (Z.to_nat x) (ax, true)) as [atoms1|] eqn:Es; [|discriminate].
    destruct (list_set_nth atoms (Z.to_nat x) (ax, true) atoms1 Es) as [S1 S2].
    destruct (IH atoms1 atoms' H) as [L1 F1].
    assert (Hlen : List.length atoms1 = List.length atoms).
    { assert (Hlt : (Z.to_nat x < List.length atoms)%nat) by (apply nth_error_Some; rewrite En; discriminate).
      destruct (list_set_some atoms (Z.to_nat x) (ax, true) Hlt) as [l2 [E2 L2]]. rewrite Es in E2. inversion E2; subst. exact L2. }
    split; [lia|].
    intros i a r Hi. apply Z.ltb_ge in Ex.
    destruct (Nat.eq_dec i (Z.to_nat x)) as [->|Hne].
    + rewrite En in Hi. inversion Hi; subst.
      rewrite (F1 (Z.to_nat x) a true S1). f_equal. f_equal.
      cbn [zmem existsb]. rewrite Z2Nat.id by lia. rewrite Z.eqb_refl. cbn. rewrite orb_true_r. reflexivity.
    + rewrite <- (S2 i Hne) in Hi. rewrite (F1 i a r Hi). f_equal. f_equal.
      cbn [zmem existsb]. assert (Z.of_nat i =? x = false) as -> by (apply Z.eqb_neq; lia). reflexivity.
Qed.

Theorem set_radicals_accepts crash : forall rads (atoms : list (atomtok * bool)),
  (Forall (fun x => 0 <= x < Z.of_nat (List.length atoms)) rads -> exists atoms', set_radicals true crash atoms rads = Ok atoms') /\
  (~ Forall (fun x => 0 <= x < Z.of_nat (List.length atoms)) rads -> set_radicals true crash atoms rads = Err IncorrectSmiles).
Proof.
  induction rads as [|x rs IH]; intros atoms; cbn [set_radicals].
  - split; [intros _; eexists; reflexivity | intros H; exfalso; apply H; constructor].
  - destruct (x <? 0) eqn:Ex.
    { apply Z.ltb_lt in Ex. split; [intros H; inversion H; subst; lia | intros _; reflexivity]. }
    apply Z.ltb_ge in Ex.
    destruct (nth_error atoms (Z.to_nat x)) as [[ax bx]|] eqn:En.
    + assert (Hlt : (Z.to_nat x < List.length atoms)%nat) by (apply nth_error_Some; rewrite En; discriminate).
      destruct (list_set_some atoms (Z.to_nat x) (ax, true) Hlt) as [l2 [E2 L2]]. rewrite E2.
      destruct (IH l2) as [I1 I2]. rewrite L2 in I1, I2.
      split.
      * intros H. inversion H; subst. apply I1. assumption.
      * intros H. apply I2. intros HF. apply H. constructor; [lia | exact HF].
    + apply nth_error_None in En.
      split; [intros H; inversion H; subst; lia | intros _; reflexivity].
Qed.
Lemma radicals_roles_concat (all : list (list (atomtok * bool))) : forall flat,
  List.length flat = List.length (List.concat all) ->
  List.concat (radicals_roles all flat) = flat /\ map (@List.length _) (radicals_roles all flat) = map (@List.length _) all.
Proof.
  induction all as [|a r IH]; intros flat H; cbn [radicals_roles List.concat map] in *.
  - destruct flat; [split; reflexivity | discriminate].
  - rewrite app_length in H.
    destruct (IH (skipn (List.length a) flat)) as [I1 I2]; [rewrite skipn_length; lia|].
    rewrite I1, I2. split; [apply firstn_skipn|]. f_equal. rewrite firstn_length. lia.
Qed.

(* the flags of a reaction: positions count through the molecules in the order in which they are handed over *)
Theorem radicals_written_order (ps : list parsed) (rads : list Z) (flat : list (atomtok * bool)) :
  set_radicals true KeyError (List.concat (map (no_rad) ps)) rads = Ok flat ->
  let roles := radicals_roles (map no_rad ps) flat in
  List.concat roles = flat /\
  map (@List.length _) roles = map (fun p => List.length (p_atoms p)) ps /\
  map fst flat = List.concat (map p_atoms ps) /\
  map snd flat = map (fun i => zmem (Z.of_nat i) rads) (seq 0 (List.length flat)).
Proof.
  intros H roles.
  destruct (set_radicals_flags true KeyError rads _ flat H) as [L F].
  destruct (radicals_roles_concat (map no_rad ps) flat L) as [C1 C2].
  split; [exact C1|]. split.
  { unfold roles. rewrite C2. rewrite map_map. apply map_ext. intros p. unfold no_rad. apply map_length. }
  assert (Hall : forall i, (i < List.length flat)%nat ->
            exists a, nth_error (List.concat (map no_rad ps)) i = Some (a, false)).
  { intros i Hi. rewrite L in Hi. destruct (nth_error (List.concat (map no_rad ps)) i) as [[a b]|] eqn:E.
    - exists a. f_equal. f_equal.
      assert (In (a, b) (List.concat (map no_rad ps))) as Hin by (eapply nth_error_In; exact E).
      apply in_concat in Hin. destruct Hin as [l [Hl1 Hl2]]. apply in_map_iff in Hl1. destruct Hl1 as [p [<- _]].
      unfold no_rad in Hl2. apply in_map_iff in Hl2. destruct Hl2 as [a' [Ha' _]]. inversion Ha'. reflexivity.
    - apply nth_error_None in E. lia. }
  assert (Hfst : map fst (List.concat (map no_rad ps)) = List.concat (map p_atoms ps)).
  { clear. induction ps as [|p r IH]; [reflexivity|]. cbn [map List.concat]. rewrite map_app, IH. f_equal.
    unfold no_rad. rewrite map_map. cbn. apply map_id. }
  split.
  - rewrite <- Hfst. apply nth_error_ext_local. intros i.
    rewrite !nth_map_local.
    destruct (Nat.lt_ge_cases i (List.length flat)) as [Hi|Hi].
    + destruct (Hall i Hi) as [a Ha]. rewrite Ha, (F i a false Ha). reflexivity.
    + assert (nth_error flat i = None) as -> by (apply nth_error_None; lia).
      assert (nth_error (List.concat (map no_rad ps)) i = None) as -> by (apply nth_error_None; lia). reflexivity.
  - apply nth_error_ext_local. intros i. rewrite !nth_map_local.
    destruct (Nat.lt_ge_cases i (List.length flat)) as [Hi|Hi].
    + destruct (Hall i Hi) as [a Ha]. rewrite (F i a false Ha). cbn.
      rewrite nth_error_seq_lt by exact Hi. reflexivity.
    + assert (nth_error flat i = None) as -> by (apply nth_error_None; lia).
      assert (nth_error (seq 0 (List.length flat)) i = None) as -> by (apply nth_error_None; rewrite seq_length; lia). reflexivity.
Qed.

(* whole calls of the reader: in `reactants>reagents>products` the radical index counts the reagent atoms BEFORE the product atoms *)
Definition rad_flags (r : pyres rresult) : option (list (list bool) * list (list bool) * list (list bool)) :=
  match r with
  | Ok (RRxn a b c) => let f := map (fun m => map (fun x : Z * (atomtok * bool) => snd (snd x)) (mr_atoms m)) in Some (f a, f b, f c)
  | _ => None
  end.

Example reaction_radical_examples :
  rad_flags (read true false "CO>N>CC |^1:4|") = Some ([[false; false]], [[false]], [[false; true]]) /\
  rad_flags (read true false "CO>N>CC |^1:2|") = Some ([[false; false]], [[true]], [[false; false]]) /\
  rad_flags (read true false "CBr>CCOCC>C.Br |^1:7,8|") =
    Some ([[false; false]], [[false; false; false; false; false]], [[true]; [true]]) /\
  rad_flags (read true false "CC>>CC |^1:3,^2:0|") = Some ([[true; false]], [], [[false; true]]) /\
  read true false "CO>N>CC |^1:5|" = Err IncorrectSmiles /\
  read true false "C |^1:1|" = Err IncorrectSmiles.
Proof. repeat split; vm_compute; reflexivity. Qed.
