(* C06 -- extension round: renumbering.  The cyclomatic number, "is a cycle basis" and hence the ring sizes of a minimum
   cycle basis do not depend on the numbering of the atoms. *)
From Coq Require Import ZArith List Bool Lia Permutation Sorted.
From Model Require Import PyBase Graph Rings.
From Proofs Require Import RingsProofs RingsMcb RingsRank RingsExt RingsDim RingsFund RingsMin RingsHorton RingsSizes.
Import ListNotations.
Open Scope Z_scope.

Definition rename (pi : Z -> Z) (g : graph) : graph := map (fun e => (pi (fst e), map pi (snd e))) g.

Section Rename.
Variable pi : Z -> Z.
Hypothesis Inj : forall a b, pi a = pi b -> a = b.
Lemma rn_zget0 (g0 : graph) v : zget (rename pi g0) (pi v) = option_map (map pi) (zget g0 v).
Proof.
  unfold rename. induction g0 as [|[k l] t IH]; [reflexivity|]. cbn [map fst snd zget].
  destruct (Z.eqb_spec v k) as [E|E].
  - subst. rewrite Z.eqb_refl. reflexivity.
  - destruct (Z.eqb_spec (pi v) (pi k)) as [E2|E2]; [apply Inj in E2; congruence | exact IH].
Qed.

Lemma rn_degree_sum0 (g0 : graph) : degree_sum (rename pi g0) = degree_sum g0.
Proof. unfold rename. induction g0 as [|[k l] t IH]; [reflexivity|]. cbn [map degree_sum fold_right fst snd]. rewrite map_length. f_equal. exact IH. Qed.

Variable g : graph.
Hypothesis W : gwf g.
Let g' := rename pi g.

Lemma rn_keys : keys g' = map pi (keys g).
Proof. unfold g', rename, keys. rewrite !map_map. reflexivity. Qed.

Lemma rn_length : length g' = length g.
Proof. unfold g', rename. apply map_length. Qed.

Lemma rn_zget v : zget g' (pi v) = option_map (map pi) (zget g v).
Proof. apply rn_zget0. Qed.

Lemma rn_gnbrs v : gnbrs g' (pi v) = map pi (gnbrs g v).
Proof. unfold gnbrs. rewrite rn_zget. destruct (zget g v); reflexivity. Qed.

Lemma NoDup_map_inj (l : list Z) : NoDup l -> NoDup (map pi l).
Proof. intros N. apply FinFun.Injective_map_NoDup; [intros a b; apply Inj | exact N]. Qed.

Lemma In_map_inj (l : list Z) x : In (pi x) (map pi l) <-> In x l.
Proof. rewrite in_map_iff. split; [intros [y [E H]]; apply Inj in E; subst; exact H | intros H; exists x; tauto]. Qed.

Lemma rn_wf : gwf g'.
Proof.
  apply gwf_gnbrs. rewrite rn_keys. pose proof (proj1 (gwf_gnbrs g) W) as [N Wg]. split; [apply NoDup_map_inj; exact N|].
  intros v' Kv. apply in_map_iff in Kv. destruct Kv as [v [E Kv]]. subst v'. rewrite rn_gnbrs. destruct (Wg v Kv) as [Nd H]. split; [apply NoDup_map_inj; exact Nd|].
  intros m' Hm. apply in_map_iff in Hm. destruct Hm as [m [E Hm]]. subst m'. destruct (H m Hm) as [A1 [A2 A3]].
  split; [intros E; apply Inj in E; congruence|]. split; [apply In_map_inj; exact A2|]. rewrite rn_gnbrs. apply In_map_inj. exact A3.
Qed.

Lemma rn_degree_sum : degree_sum g' = degree_sum g.
Proof. apply rn_degree_sum0. Qed.

Lemma rn_edges_length : length (edges g') = length (edges g).
Proof. pose proof (handshake g W) as H1. pose proof (handshake g' rn_wf) as H2. rewrite rn_degree_sum in H2. lia. Qed.

Lemma rn_reach u v : reach g u v -> reach g' (pi u) (pi v).
Proof. intros R. induction R as [|u b c R IH Hc]; [constructor|]. apply (reach_step g' (pi u) (pi b) (pi c) IH). rewrite rn_gnbrs. apply In_map_inj. exact Hc. Qed.

Lemma rn_reach_inv u w : In u (keys g) -> reach g' (pi u) w -> exists v, w = pi v /\ reach g u v.
Proof.
  intros Ku R. remember (pi u) as u' eqn:Eu. induction R as [u'|u' b c R IH Hc].
  - exists u. split; [exact Eu | constructor].
  - destruct (IH Eu) as [vb [Eb Rb]]. subst b. rewrite rn_gnbrs in Hc. apply in_map_iff in Hc. destruct Hc as [vc [Ec Hc]]. exists vc. split; [symmetry; exact Ec|].
    apply (reach_step g u vb vc Rb Hc).
Qed.

Lemma rn_comps : length (comps g') = length (comps g).
Proof.
  symmetry. rewrite <- (map_length (map pi) (comps g)). apply (partition_count g' _ rn_wf). destruct (comps_partition g W) as [Cov [N Cl]]. split; [|split].
  - intros v' Kv. rewrite rn_keys in Kv. apply in_map_iff in Kv. destruct Kv as [v [E Kv]]. subst v'. destruct (Cov v Kv) as [c [Hc Hv]].
    exists (map pi c). split; [apply in_map; exact Hc | apply in_map; exact Hv].
  - rewrite <- concat_map. apply NoDup_map_inj. exact N.
  - intros c' Hc'. apply in_map_iff in Hc'. destruct Hc' as [c [E Hc]]. subst c'. destruct (Cl c Hc) as [Ne Cu]. split; [destruct c; [congruence | discriminate]|].
    intros u' Hu. apply in_map_iff in Hu. destruct Hu as [u [E Hu]]. subst u'. destruct (Cu u Hu) as [Ku Cv]. split; [rewrite rn_keys; apply in_map; exact Ku|].
    intros w. split.
    + intros Hw. apply in_map_iff in Hw. destruct Hw as [v [E Hv]]. subst w. apply rn_reach. apply Cv. exact Hv.
    + intros R. destruct (rn_reach_inv u w Ku R) as [v [E Rv]]. subst w. apply in_map. apply Cv. exact Rv.
Qed.

Theorem rn_cyclomatic : cyclomatic g' = cyclomatic g.
Proof. unfold cyclomatic. fold (comps g) (comps g'). rewrite rn_edges_length, rn_length, rn_comps. reflexivity. Qed.

End Rename.

Section Transport.
Variable pi : Z -> Z.
Hypothesis Inj : forall a b, pi a = pi b -> a = b.

Definition pp (p : Z * Z) : Z * Z := (pi (fst p), pi (snd p)).

Lemma seq_pairs_map l : seq_pairs (map pi l) = map pp (seq_pairs l).
Proof. induction l as [|a l IH]; [reflexivity|]. destruct l as [|b l']; [reflexivity|]. cbn [map seq_pairs] in *. rewrite IH. reflexivity. Qed.

Lemma ring_pairs_map r : ring_pairs (map pi r) = map pp (ring_pairs r).
Proof. destruct r as [|h t]; [reflexivity|]. unfold ring_pairs. cbn [map]. rewrite <- seq_pairs_map. cbn [map]. rewrite map_app. reflexivity. Qed.

Lemma In_pp a b l : In (pi a, pi b) (map pp l) <-> In (a, b) l.
Proof.
  rewrite in_map_iff. split.
  - intros [[x y] [E H]]. unfold pp in E. cbn in E. inversion E as [[E1 E2]]. apply Inj in E1, E2. subst. exact H.
  - intros H. exists (a, b). split; [reflexivity | exact H].
Qed.

Lemma rhe_map r a b : a <> b -> ring_has_edge (map pi r) (norm_edge (pi a, pi b)) = ring_has_edge r (norm_edge (a, b)).
Proof.
  intros Ne. apply bool_eq_iff. rewrite (ring_has_edge_spec (map pi r) (pi a) (pi b)) by (intros E; apply Inj in E; congruence).
  rewrite (ring_has_edge_spec r a b Ne), ring_pairs_map, !In_pp. tauto.
Qed.

Lemma sel_parity_map sel : forall rs a b, a <> b ->
  sel_parity sel (map (map pi) rs) (norm_edge (pi a, pi b)) = sel_parity sel rs (norm_edge (a, b)).
Proof. induction sel as [|s sel IH]; intros [|r rs] a b Ne; cbn; try reflexivity. rewrite (rhe_map r a b Ne), (IH rs a b Ne). reflexivity. Qed.

Lemma is_cycle_map g r : gwf g -> is_cycle g r -> is_cycle (rename pi g) (map pi r).
Proof.
  intros W [L [N A]]. split; [rewrite map_length; exact L|]. split; [apply (NoDup_map_inj pi Inj); exact N|].
  intros a' b' H. rewrite ring_pairs_map in H. apply in_map_iff in H. destruct H as [[a b] [E H]]. unfold pp in E. cbn in E. inversion E; subst.
  destruct (A a b H) as [A1 A2]. split; rewrite (rn_gnbrs pi Inj g); apply (In_map_inj pi Inj); assumption.
Qed.

(* a cycle basis stays one under renumbering *)
Theorem basis_rename g rs : is_cycle_basis g rs = true -> is_cycle_basis (rename pi g) (map (map pi) rs) = true.
Proof.
  intros H. pose proof (basis_checker_sound g rs H) as [W [C [I N]]]. pose proof (rn_wf pi Inj g W) as W'. apply basis_checker_complete.
  - exact W'.
  - apply Forall_forall. intros r' Hr. apply in_map_iff in Hr. destruct Hr as [r [E Hr]]. subst r'. rewrite Forall_forall in C. apply (is_cycle_map g r W (C r Hr)).
  - intros sel L Ex. rewrite map_length in L. destruct (I sel L Ex) as [[a b] [He Pe]]. pose proof W as [Nk _].
    pose proof (proj1 (In_edges_gnbrs g a b Nk) He) as [Ka [Hab Lt]].
    assert (Ne0 : norm_edge (a, b) = (a, b)) by (unfold norm_edge; cbn [fst snd]; replace (a <? b) with true by (symmetry; apply Z.ltb_lt; exact Lt); reflexivity).
    exists (norm_edge (pi a, pi b)). split.
    + apply (de_edge_in (rename pi g) (pi a) (pi b) W'). rewrite (rn_gnbrs pi Inj g). apply (In_map_inj pi Inj). exact Hab.
    + rewrite sel_parity_map by lia. rewrite Ne0. exact Pe.
  - unfold ring in *. rewrite map_length. pose proof (rn_cyclomatic pi Inj g W) as Cy. unfold cyclomatic in Cy. etransitivity; [exact N | symmetry; exact Cy].
Qed.

Lemma total_size_map rs : total_size (map (map pi) rs) = total_size rs.
Proof. unfold total_size, zlen. induction rs as [|r rs IH]; [reflexivity|]. cbn [map fold_right]. rewrite map_length, IH. reflexivity. Qed.

End Transport.

Lemma rename_rename rho pi g : (forall a, rho (pi a) = a) -> rename rho (rename pi g) = g.
Proof.
  intros H. unfold rename. rewrite map_map. rewrite <- (map_id g) at 2. apply map_ext. intros [k l]. cbn [fst snd]. rewrite H, map_map. f_equal.
  rewrite <- (map_id l) at 2. apply map_ext. exact H.
Qed.

(* numbering independence: a renumbering pi with inverse rho *)
Section Numbering.
Variables pi rho : Z -> Z.
Hypothesis RP : forall a, rho (pi a) = a.
Hypothesis PR : forall a, pi (rho a) = a.

Lemma pi_inj a b : pi a = pi b -> a = b.
Proof. intros E. rewrite <- (RP a), <- (RP b), E. reflexivity. Qed.
Lemma rho_inj a b : rho a = rho b -> a = b.
Proof. intros E. rewrite <- (PR a), <- (PR b), E. reflexivity. Qed.

Theorem mcb_total_rename g : gwf g -> total_size (mcb_ref (rename pi g)) = total_size (mcb_ref g).
Proof.
  intros W. pose proof (rn_wf pi pi_inj g W) as W'. apply Z.le_antisymm.
  - rewrite <- (total_size_map pi (mcb_ref g)). apply (mcb_ref_minimum _ W'). apply (basis_rename pi pi_inj). apply (mcb_ref_is_basis g W).
  - rewrite <- (total_size_map rho (mcb_ref (rename pi g))). apply (mcb_ref_minimum g W).
    rewrite <- (rename_rename rho pi g RP) at 1. apply (basis_rename rho rho_inj). apply (mcb_ref_is_basis _ W').
Qed.

(* two minimum cycle bases, one of the molecule and one of the renumbered molecule, have the same ring sizes *)
Theorem minimum_sizes_numbering_independent g rs rs' : 
  is_cycle_basis g rs = true -> total_size rs = total_size (mcb_ref g) ->
  is_cycle_basis (rename pi g) rs' = true -> total_size rs' = total_size (mcb_ref (rename pi g)) ->
  isort (map (@length Z) rs) = isort (map (@length Z) rs').
Proof.
  intros H E H' E'. pose proof (basis_checker_sound g rs H) as [W _].
  assert (Ht : is_cycle_basis (rename pi g) (map (map pi) rs) = true) by (apply (basis_rename pi pi_inj); exact H).
  assert (Et : total_size (map (map pi) rs) = total_size (mcb_ref (rename pi g))) by (rewrite total_size_map, mcb_total_rename by exact W; exact E).
  rewrite <- (minimum_bases_same_sizes (rename pi g) (map (map pi) rs) rs' Ht H' Et E'). f_equal. rewrite map_map. apply map_ext. intros r. symmetry. apply map_length.
Qed.

End Numbering.

Example ex_rename :
  let pi := fun a => a + 10 in
  is_cycle_basis (rename pi ex_graph) [[11;12;13;14;15;16]; [13;14;15;16;17;18]] = true /\
  cyclomatic (rename pi ex_graph) = 2 /\ map (@length Z) (mcb_ref (rename pi ex_graph)) = [6; 6]%nat.
Proof. vm_compute. repeat split. Qed.
