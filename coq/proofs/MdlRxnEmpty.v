(* C11: a finding, as theorems about the faithful model.  parse_rxn_v2000 searches the next `$MOL` line from 6 lines after the previous
   molecule's title line, i.e. it takes for granted that a molecule block has at least one atom line.  An EMPTY molecule (title, two
   header lines, counts, `M  END`: 5 lines) that is not the last molecule of the record makes that search skip the following `$MOL` line:
   the record is rejected (InvalidV2000, a ValueError) although the parser has an `ignored empty molecule` branch -- which does work
   when the empty molecule comes last.  The statement "a record with one empty molecule is read with the other molecules in their roles"
   is therefore refuted for RXN V2000. *)
From Coq Require Import ZArith List String Ascii Bool Lia.
From Model Require Import PyBase Mdl.
Import ListNotations.
Open Scope Z_scope.

Definition ex_empty_block : list str := [L "$MOL"; []; []; []; L "  0  0  0  0  0  0            999 V2000"; L "M  END"].
Definition ex_carbon_block : list str :=
  [L "$MOL"; []; []; []; L "  1  0  0  0  0  0            999 V2000"; L "    0.0000    0.0000    0.0000 C   0  0  0  0  0  0  0  0  0  1  0  0"; L "M  END"].
Definition ex_rxn_head : list str := [L "$RXN"; []; []; []; L "  1  1"].
Definition roles_of (r : pyres rparsed) : pyres (nat * nat * nat * nat) :=
  do x <- r; Ok (List.length (r_reactants x), List.length (r_products x), List.length (r_reagents x), r_nlog x).

Theorem rxn_v2000_empty_molecule_refuted :
  (* empty reactant, then the product: the record is lost *)
  parse_rxn_v2000 (map add_nl (ex_rxn_head ++ ex_empty_block ++ ex_carbon_block)) = Err ValueError /\
  (* the reactant, then an empty product: read, the empty molecule logged *)
  roles_of (parse_rxn_v2000 (map add_nl (ex_rxn_head ++ ex_carbon_block ++ ex_empty_block))) = Ok (1, 0, 0, 1)%nat.
Proof. split; vm_compute; reflexivity. Qed.
