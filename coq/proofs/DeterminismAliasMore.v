(* C19 round 4: what the in-place loops of _chiral_morgan (Gen.CacheAlias.chiral_inplace, translated from the source) preserve. *)
From Coq Require Import ZArith List String Bool Lia.
From Model Require Import PyBase Determinism DeterminismAlias.
From Gen Require Import CacheAlias.
From Proofs Require Import DeterminismAliasProofs.
Import ListNotations.
Open Scope list_scope.
Open Scope Z_scope.

(* the in-place loops never add, drop or move a key: the insertion order of the working dict (which every later iteration over it follows)
   is the one of atoms_order *)
Lemma negate_one_keys w n : map fst (negate_one w n) = map fst w.
Proof. unfold negate_one. rewrite map_map. apply map_ext. intros [k v]; cbn. destruct (k =? n); reflexivity. Qed.

Lemma negate_seq_keys ns : forall w, map fst (negate_seq ns w) = map fst w.
Proof.
  unfold negate_seq. induction ns as [|n r IH]; intros w; cbn; [reflexivity|].
  rewrite IH. apply negate_one_keys.
Qed.

Theorem chiral_inplace_keeps_keys : forall (X : Type) ag (cg : list (list (Z * X))) lg w,
  map fst (chiral_inplace ag cg lg w) = map fst w.
Proof. intros. rewrite chiral_inplace_is_model. apply negate_seq_keys. Qed.

(* the rank of an atom that is not in the first half of a group is untouched; every rank keeps its absolute value *)
Lemma negate_one_other w n k : k <> n -> zget (negate_one w n) k = zget w k.
Proof.
  intros Hne. unfold negate_one. induction w as [|[k' v] r IH]; cbn; [reflexivity|].
  destruct (k' =? n) eqn:E; cbn.
  - apply Z.eqb_eq in E. subst k'. destruct (k =? n) eqn:E2; [apply Z.eqb_eq in E2; contradiction | apply IH].
  - destruct (k =? k'); [reflexivity | apply IH].
Qed.

Lemma negate_seq_other ns k : ~ In k ns -> forall w, zget (negate_seq ns w) k = zget w k.
Proof.
  unfold negate_seq. induction ns as [|n r IH]; intros Hn w; cbn; [reflexivity|].
  rewrite IH by (intros H; apply Hn; right; exact H).
  apply negate_one_other. intros ->. apply Hn. left. reflexivity.
Qed.

Theorem chiral_inplace_only_listed : forall (X : Type) ag (cg : list (list (Z * X))) lg w k,
  ~ In k (halves ag ++ map fst (halves cg) ++ halves lg) -> zget (chiral_inplace ag cg lg w) k = zget w k.
Proof. intros. rewrite chiral_inplace_is_model. apply negate_seq_other. assumption. Qed.

Lemma negate_one_abs w n : map (fun kv : Z * Z => Z.abs (snd kv)) (negate_one w n) = map (fun kv : Z * Z => Z.abs (snd kv)) w.
Proof. unfold negate_one. rewrite map_map. apply map_ext. intros [k v]; cbn. destruct (k =? n); cbn; [apply Z.abs_opp | reflexivity]. Qed.

Theorem chiral_inplace_keeps_abs : forall (X : Type) ag (cg : list (list (Z * X))) lg w,
  map (fun kv : Z * Z => Z.abs (snd kv)) (chiral_inplace ag cg lg w) = map (fun kv : Z * Z => Z.abs (snd kv)) w.
Proof.
  intros. rewrite chiral_inplace_is_model. unfold negate_seq.
  generalize (halves ag ++ map fst (halves cg) ++ halves lg). intros ns. revert w.
  induction ns as [|n r IH]; intros w; cbn; [reflexivity|]. rewrite IH. apply negate_one_abs.
Qed.
