(* C14 -- the ferrocene block of standardize_charges: only charges change (for every input), and the net charge is conserved when every
   carbon that receives a ring's charge back is neutral at that moment (ferrocene_pre, executable; evaluated on every recorded run). *)
From Coq Require Import ZArith List String Bool Lia.
From Model Require Import PyBase Graph Standardize StandardizeChargesBase StandardizeCharges StandardizeChargesPre StandardizeFerrocene.
From Proofs Require Import StandardizeProofs StandardizeChargesProofs StandardizeChargesNet.
Import ListNotations.
Open Scope Z_scope.

(* ---- frame ---- *)
Lemma ferro_ring_frame g r st t : frame g (fs_mol st) t -> exists t', frame g (fs_mol (ferro_ring r st)) t'.
Proof.
  intros F. unfold ferro_ring.
  destruct (negb _ || negb _); [exists t; exact F|].
  destruct (charged_in (fs_mol st) r) as [|ch [|? ?]]; try (exists t; exact F).
  destruct (negb (chg_of (fs_mol st) ch =? -1)); [exists t; exact F|].
  destruct ((_ <? 2) || negb _); [exists t; exact F|]. cbn [fs_mol]. eexists. apply frame_set_charge. exact F.
Qed.
Lemma ferro_assign_frame g order ca st t : frame g (fs_mol st) t -> exists t', frame g (fs_mol (ferro_assign order ca st)) t'.
Proof. intros F. unfold ferro_assign. destruct ca; [exists t; exact F|]. cbn [fs_mol]. eexists. apply frame_set_charge. exact F. Qed.

Lemma fold_frame {A} (f : fstate -> A -> fstate) g :
  (forall x st t, frame g (fs_mol st) t -> exists t', frame g (fs_mol (f st x)) t') ->
  forall xs st t, frame g (fs_mol st) t -> exists t', frame g (fs_mol (fold_left f xs st)) t'.
Proof.
  intros H xs. induction xs as [|x xs IH]; intros st t F; cbn; [exists t; exact F|].
  destruct (H x st t F) as [t1 F1]. apply (IH _ t1 F1).
Qed.

(* for EVERY ring list, canonical order and molecule: the ferrocene block changes nothing but charges *)
Theorem ferrocene_frame sssr order g changed : exists touched, frame g (fs_mol (ferrocene_block sssr order g changed)) touched.
Proof.
  unfold ferrocene_block.
  destruct (fold_frame (fun st r => ferro_ring r st) g (fun r st t F => ferro_ring_frame g r st t F) sssr (mkFS g [] changed) [] (frame_refl g [])) as [t1 F1].
  exact (fold_frame (fun st ca => ferro_assign order ca st) g (fun ca st t F => ferro_assign_frame g order ca st t F) _ _ t1 F1).
Qed.

(* ---- net charge ---- *)
Definition fwf (st : fstate) : Prop := NoDup (ids (fs_mol st)).

Lemma chg_of_atom g n : chg_of g n <> 0 -> exists a, atom_of g n = Some a /\ a_chg a = chg_of g n.
Proof. unfold chg_of. destruct (atom_of g n) as [a|]; [intros _; exists a; split; reflexivity|intros H; contradiction H; reflexivity]. Qed.

Lemma ferro_ring_net r st : fwf st ->
  fwf (ferro_ring r st) /\
  total_charge (fs_mol (ferro_ring r st)) - Z.of_nat (List.length (fs_fcr (ferro_ring r st))) = total_charge (fs_mol st) - Z.of_nat (List.length (fs_fcr st)).
Proof.
  intros W. unfold ferro_ring.
  destruct (negb _ || negb _); [split; [exact W|reflexivity]|].
  destruct (charged_in (fs_mol st) r) as [|ch [|? ?]]; try (split; [exact W|reflexivity]).
  destruct (chg_of (fs_mol st) ch =? -1) eqn:E; cbn [negb]; [|split; [exact W|reflexivity]].
  destruct ((_ <? 2) || negb _); [split; [exact W|reflexivity]|]. cbn [fs_mol fs_fcr].
  apply Z.eqb_eq in E. assert (Hn : chg_of (fs_mol st) ch <> 0) by lia. destruct (chg_of_atom _ _ Hn) as [a [Ea Hc]].
  split; [unfold fwf; cbn [fs_mol]; rewrite ids_set_charge; exact W|].
  rewrite (total_set_charge _ ch 0 a W Ea). rewrite app_length. cbn [List.length]. rewrite Nat2Z.inj_add. lia.
Qed.

Lemma rings_net rs : forall st, fwf st ->
  let st' := fold_left (fun st r => ferro_ring r st) rs st in
  fwf st' /\ total_charge (fs_mol st') - Z.of_nat (List.length (fs_fcr st')) = total_charge (fs_mol st) - Z.of_nat (List.length (fs_fcr st)).
Proof.
  induction rs as [|r rs IH]; intros st W; cbn; [split; [exact W|reflexivity]|].
  destruct (ferro_ring_net r st W) as [W1 T1]. destruct (IH _ W1) as [W2 T2]. cbn in T2. split; [exact W2|lia].
Qed.

Lemma assign_all_net order cas : forall st, fwf st -> ferro_assign_all_pre order cas st = true ->
  let st' := fold_left (fun st ca => ferro_assign order ca st) cas st in
  fwf st' /\ total_charge (fs_mol st') = total_charge (fs_mol st) - Z.of_nat (List.length (filter (fun ca => match ca with [] => false | _ => true end) cas)).
Proof.
  induction cas as [|ca cas IH]; intros st W P; cbn [fold_left ferro_assign_all_pre filter List.length] in *; [split; [exact W|cbn; lia]|].
  apply andb_true_iff in P. destruct P as [P1 P2]. destruct ca as [|x rest].
  - cbn [ferro_assign] in *. destruct (IH st W P2) as [W2 T2]. split; [exact W2|exact T2].
  - cbn [ferro_assign_pre] in P1. destruct (charge_is_atom _ _ _ P1) as [a [Ea Hc]].
    set (st1 := ferro_assign order (x :: rest) st) in *.
    assert (W1 : fwf st1) by (unfold st1, ferro_assign, fwf; cbn [fs_mol]; rewrite ids_set_charge; exact W).
    assert (T1 : total_charge (fs_mol st1) = total_charge (fs_mol st) - 1).
    { unfold st1, ferro_assign. cbn [fs_mol]. rewrite (total_set_charge _ _ (-1) a W Ea). lia. }
    destruct (IH st1 W1 P2) as [W2 T2]. split; [exact W2|]. cbn [List.length]. rewrite Nat2Z.inj_succ. lia.
Qed.

(* every recorded candidate list has at least two carbons, so none is empty *)
Lemma ferro_ring_fcr_nonempty r st : Forall (fun ca => ca <> []) (fs_fcr st) -> Forall (fun ca => ca <> []) (fs_fcr (ferro_ring r st)).
Proof.
  intros H. unfold ferro_ring. destruct (negb _ || negb _); [exact H|].
  destruct (charged_in (fs_mol st) r) as [|ch [|? ?]]; try exact H.
  destruct (negb (chg_of (fs_mol st) ch =? -1)); [exact H|].
  destruct (Z.of_nat (List.length (cp_carbons (fs_mol st) r)) <? 2) eqn:E; cbn [orb]; [exact H|].
  destruct (negb (zmem ch _)); [exact H|]. cbn [fs_fcr]. apply Forall_app. split; [exact H|]. constructor; [|constructor].
  intros E0. rewrite E0 in E. cbn in E. discriminate.
Qed.
Lemma rings_fcr_nonempty rs : forall st, Forall (fun ca => ca <> []) (fs_fcr st) ->
  Forall (fun ca => ca <> []) (fs_fcr (fold_left (fun st r => ferro_ring r st) rs st)).
Proof. induction rs as [|r rs IH]; intros st H; cbn; [exact H|]. apply IH. apply ferro_ring_fcr_nonempty. exact H. Qed.
Lemma filter_nonempty_all (cas : list (list Z)) : Forall (fun ca => ca <> []) cas ->
  List.length (filter (fun ca => match ca with [] => false | _ => true end) cas) = List.length cas.
Proof. induction 1 as [|ca cas H _ IH]; [reflexivity|]. cbn. destruct ca; [contradiction H; reflexivity|]. cbn. rewrite IH. reflexivity. Qed.

(* for EVERY molecule with distinct atom numbers, ring list and canonical order: when every carbon that gets a ring's charge back is neutral
   at that moment, the ferrocene block conserves atoms / elements / isotopes / adjacency and the net charge *)
Theorem ferrocene_conserved sssr order g changed :
  NoDup (ids g) -> ferrocene_pre sssr order g changed = true -> conserved g (fs_mol (ferrocene_block sssr order g changed)).
Proof.
  intros Hnd Hpre. destruct (ferrocene_frame sssr order g changed) as [t F]. destruct (frame_skeleton _ _ _ F) as [S [G _]].
  repeat split; try assumption. unfold ferrocene_block, ferrocene_pre in *.
  assert (W0 : fwf (mkFS g [] changed)) by exact Hnd.
  destruct (rings_net sssr _ W0) as [W1 T1]. cbn [fs_mol fs_fcr List.length] in T1.
  pose proof (rings_fcr_nonempty sssr (mkFS g [] changed) (Forall_nil _)) as NE.
  destruct (assign_all_net order _ _ W1 Hpre) as [_ T2]. rewrite (filter_nonempty_all _ NE) in T2. cbn in T1. lia.
Qed.

(* ---- the whole function after thiele(): heterocycle part, then the ferrocene block ---- *)
Theorem charges_full_conserved yf ym order order_f sssr g st :
  NoDup (ids g) -> charges_pre yf ym order g = true -> standardize_charges_model yf ym order g = Ok st ->
  ferrocene_pre sssr order_f (cs_mol st) (cs_changed st) = true ->
  conserved g (fs_mol (ferrocene_block sssr order_f (cs_mol st) (cs_changed st))).
Proof.
  intros Hnd P1 H P2. pose proof (charges_conserved yf ym order g st Hnd P1 H) as C1.
  destruct (charges_frame _ _ _ _ _ _ _ H) as [t F]. destruct (frame_skeleton _ _ _ F) as [_ [_ I]].
  assert (Hnd1 : NoDup (ids (cs_mol st))) by (rewrite I; exact Hnd).
  exact (conserved_trans _ _ _ C1 (ferrocene_conserved sssr order_f (cs_mol st) (cs_changed st) Hnd1 P2)).
Qed.

(* non-vacuity: methylcyclopentadienide drawn with the charge on the substituted carbon: the charge moves to the ring carbon the
   canonical order prefers, the hypothesis holds, the net charge stays -1 *)
Definition ex_cp_g : mol :=
  mkMol [(1, (mkAtom 6 None 0 false (Some 3) None)); (2, (mkAtom 6 None (-1) false (Some 0) None)); (3, (mkAtom 6 None 0 false (Some 1) None)); (4, (mkAtom 6 None 0 false (Some 1) None)); (5, (mkAtom 6 None 0 false (Some 1) None)); (6, (mkAtom 6 None 0 false (Some 1) None))]
        [(1, [(2, (mkBond 1 None))]); (2, [(1, (mkBond 1 None)); (3, (mkBond 4 None)); (6, (mkBond 4 None))]); (3, [(2, (mkBond 4 None)); (4, (mkBond 4 None))]); (4, [(3, (mkBond 4 None)); (5, (mkBond 4 None))]); (5, [(4, (mkBond 4 None)); (6, (mkBond 4 None))]); (6, [(5, (mkBond 4 None)); (2, (mkBond 4 None))])].
Theorem ferrocene_example :
  let order := fun n => match zget [(1, 6); (2, 5); (3, 3); (6, 3); (4, 1); (5, 1)] n with Some r => r | None => 0 end in
  let fs := ferrocene_block [[2; 3; 4; 5; 6]] order ex_cp_g [] in
  fs_changed fs = [2; 4] /\ chg_of (fs_mol fs) 2 = 0 /\ chg_of (fs_mol fs) 4 = -1 /\ total_charge (fs_mol fs) = -1 /\
  ferrocene_pre [[2; 3; 4; 5; 6]] order ex_cp_g [] = true.
Proof. vm_compute. repeat split; reflexivity. Qed.
