(* C09 -- the hand-written model equals what tools/gen_isoguard.py regenerates from chython/algorithms/isomorphism.py on every run:
   the guard and the path selection of QueryIsomorphism.get_mapping (uses_mask_path), the scope array handed to the compiled
   matcher (scope_bits), and the offset bookkeeping of the two buffer writers (closure / from_ / to_ of the query atoms = q_from_to,
   from_ / to_ of the molecule atoms = from_to).  A source edit of these statements changes coq/gen/IsoGuard.v and breaks the
   corresponding theorem below (or the translator refuses the new shape). *)
From Coq Require Import ZArith List Bool Lia.
From Model Require Import PyBase IsoBits IsoBitsExt IsoBitsGuard.
From Gen Require Import IsoGuard.
Import ListNotations.
Open Scope Z_scope.

Theorem g_guard_tests_are_model cython comps rm :
  g_guard_test_1 cython comps rm = cython && has_unknown_h rm /\
  g_guard_test_2 cython comps rm = cython && (big_ring_mol rm || big_ring_query comps).
Proof. split; reflexivity. Qed.

(* the two guard statements and the selection of `components` = uses_mask_path2 of Model.IsoBitsGuard *)
Theorem g_uses_mask_path_is_model cython comps rm : g_uses_mask_path cython comps rm = uses_mask_path2 cython comps rm.
Proof.
  unfold g_uses_mask_path, g_cython_after_guard, uses_mask_path2.
  destruct (g_guard_tests_are_model cython comps rm) as [-> _].
  destruct cython, (has_unknown_h rm); cbn [andb negb];
    try (destruct (g_guard_tests_are_model false comps rm) as [_ ->]); try (destruct (g_guard_tests_are_model true comps rm) as [_ ->]);
    cbn [andb]; try reflexivity; destruct (big_ring_mol rm || big_ring_query comps); reflexivity.
Qed.

Theorem g_scope_bits_is_model rm s : g_scope_bits rm s = scope_bits rm s.
Proof. reflexivity. Qed.

(* the query buffer: (closure, from_, to_) of every atom of enc_query are the generated offsets of the closure counts *)
Lemma g_q_offsets_is_model rq : forall start,
  g_q_offsets (map (fun e => zlen (rq_clos e)) rq) start =
  map (fun eft => (zlen (rq_clos (fst eft)), fst (snd eft), snd (snd eft))) (combine rq (q_from_to rq start)).
Proof.
  induction rq as [|e r IH]; intros start; [reflexivity|].
  cbn [map g_q_offsets q_from_to].
  destruct (rq_clos e) as [|c cl] eqn:E.
  - cbn [combine map fst snd]. rewrite E. change (zlen (@nil (Z * qbond))) with 0. cbn [Z.eqb]. rewrite IH. reflexivity.
  - assert (N : zlen (c :: cl) =? 0 = false).
    { apply Z.eqb_neq. unfold zlen. cbn [List.length]. lia. }
    rewrite N. cbn [combine map fst snd]. rewrite E. rewrite IH. reflexivity.
Qed.

Theorem g_q_offsets_is_enc_query rq :
  map (fun a => (qa_closure a, qa_from a, qa_to a)) (qu_atoms (enc_query rq)) = g_q_offsets (map (fun e => zlen (rq_clos e)) rq) 0.
Proof.
  rewrite g_q_offsets_is_model. unfold enc_query. cbn [qu_atoms]. rewrite map_map.
  apply map_ext. intros [e [f t]]. reflexivity.
Qed.

(* the molecule buffer *)
Lemma g_m_offsets_is_model {A} (f : A -> Z) (l : list A) : forall start, g_m_offsets (map f l) start = from_to f l start.
Proof. induction l as [|a r IH]; intros start; [reflexivity|]. cbn [map g_m_offsets from_to]. rewrite IH. reflexivity. Qed.

Lemma combine_map_snd {A B} (l : list A) (l' : list B) : List.length l = List.length l' -> map snd (combine l l') = l'.
Proof.
  revert l'. induction l as [|a r IH]; intros [|b r'] H; try discriminate; [reflexivity|].
  cbn [combine map snd]. f_equal. apply IH. cbn in H. lia.
Qed.

Lemma from_to_length {A} (f : A -> Z) (l : list A) : forall s, List.length (from_to f l s) = List.length l.
Proof. induction l as [|a r IH]; intros s; [reflexivity|]. cbn [from_to List.length]. rewrite IH. reflexivity. Qed.

Theorem g_m_offsets_is_enc_mol rm :
  map (fun a => (ma_from a, ma_to a)) (mo_atoms (enc_mol rm)) = g_m_offsets (map (fun a => zlen (ra_nbrs a)) rm) 0.
Proof.
  rewrite g_m_offsets_is_model. unfold enc_mol. cbn [mo_atoms]. rewrite map_map.
  transitivity (map snd (combine (combine rm (map (fun a => enc_atom (ra_atom a)) rm)) (from_to (fun a => zlen (ra_nbrs a)) rm 0))).
  - apply map_ext. intros [[a b] [f t]]. reflexivity.
  - apply combine_map_snd. rewrite combine_length, map_length, from_to_length. lia.
Qed.

(* non-vacuity: one atom with two closures after two without *)
Example g_offsets_example :
  g_q_offsets [0; 0; 2; 1] 0 = [(0, 0, 0); (0, 0, 0); (2, 0, 2); (1, 2, 3)] /\ g_m_offsets [1; 2; 1] 0 = [(0, 1); (1, 3); (3, 4)].
Proof. split; reflexivity. Qed.
