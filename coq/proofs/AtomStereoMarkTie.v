(* C01: the stereo block of MoleculeSmiles._format_atom, translated statement by statement from /repo's SOURCE on every run
   (Gen.AtomStereoMark, tools/gen_atomstereo.py), IS Model.Writer.stereo_mark - the function that decides the '@' / '@@' mark in the
   writer model and that the C01 theorems about stereo marks are about - whenever the neighbour table is not empty and lists the second
   terminal of an allene centre (inside _smiles the table `visited` lists every atom of the component); without these two conditions the
   two agree on every successful result and fail on the same inputs (the kind of exception may differ on such malformed tables). *)
From Coq Require Import ZArith List Bool String.
From Gen Require Import AtomStereoMark.
From Model Require Import PyBase Graph Stereo Writer.
Import ListNotations.
Open Scope Z_scope.

Lemma sm_next_filter (f : Z -> bool) (l : list Z) :
  sm_next (filter f l) = match find f l with Some x => Ok x | None => Err StopIteration end.
Proof. induction l as [|x l IH]; [reflexivity|]. cbn [filter find]. destruct (f x); [reflexivity | exact IH]. Qed.

Definition ok_equiv {A} (a b : pyres A) : Prop :=
  match a, b with Ok x, Ok y => x = y | Err _, Err _ => True | _, _ => False end.

Section Tie.
  Variable g : mol.
  Variable o : opts.
  Variable tabs : stabs.

  Theorem g_stereo_mark_is_model (n : Z) (adj : adjacency) (a : atom) :
    adj <> [] ->
    (forall t1 t2, zget (t_allene_term tabs) n = Some (t1, t2) -> zget adj t2 <> None) ->
    g_stereo_mark g o tabs n adj a = stereo_mark g o tabs n adj a.
  Proof.
    intros Hne Ht. unfold g_stereo_mark, stereo_mark, sm_has, sm_sub, sm_translate_allene, sm_translate_tetrahedron. cbv zeta.
    destruct (a_stereo a) as [s|]; [|reflexivity]. destruct (o_stereo o); cbn [andb negb]; [|reflexivity].
    destruct (zget (t_allene_term tabs) n) as [[t1 t2]|] eqn:Et; cbn [sm_bind].
    - destruct (zget (t_allenes tabs) n) as [env|]; cbn [sm_bind]; [|reflexivity].
      specialize (Ht t1 t2 eq_refl). destruct (zget adj t2) as [l2|] eqn:E2; [|contradiction Ht; reflexivity].
      destruct (zget adj t1) as [l1|]; cbn [sm_bind]; [|reflexivity].
      rewrite !sm_next_filter.
      destruct (find _ l1) as [n1|]; cbn [sm_bind]; [|reflexivity].
      destruct (find _ l2) as [n2|]; cbn [sm_bind]; [|reflexivity].
      destruct (translate_al (is_H g) env n1 n2 s) as [[|]|e]; reflexivity.
    - destruct adj as [|[k l] adj']; [contradiction Hne; reflexivity|]. cbn [keys map fst sm_next first_key].
      destruct (truthy_h (a_h a)); cbn [sm_bind andb].
      + destruct (k =? n); destruct (zget ((k, l) :: adj') n) as [env|]; cbn [sm_bind]; try reflexivity;
          (destruct (zget (t_tetra tabs) n) as [order|]; [|reflexivity]); destruct (translate_th (is_H g) order env s) as [[|]|e]; reflexivity.
      + destruct (zget ((k, l) :: adj') n) as [env|]; cbn [sm_bind]; [|reflexivity].
        destruct (zget (t_tetra tabs) n) as [order|]; [|reflexivity]. destruct (translate_th (is_H g) order env s) as [[|]|e]; reflexivity.
  Qed.

  (* without the side conditions: equal results, failures on the same inputs *)
  Theorem g_stereo_mark_ok_equiv (n : Z) (adj : adjacency) (a : atom) :
    ok_equiv (g_stereo_mark g o tabs n adj a) (stereo_mark g o tabs n adj a).
  Proof.
    unfold g_stereo_mark, stereo_mark, sm_has, sm_sub, sm_translate_allene, sm_translate_tetrahedron. cbv zeta.
    destruct (a_stereo a) as [s|]; [|reflexivity]. destruct (o_stereo o); cbn [andb negb]; [|reflexivity].
    destruct (zget (t_allene_term tabs) n) as [[t1 t2]|] eqn:Et; cbn [sm_bind].
    - destruct (zget (t_allenes tabs) n) as [env|]; cbn [sm_bind]; [|exact I].
      destruct (zget adj t1) as [l1|]; cbn [sm_bind]; [|destruct (zget adj t2); exact I].
      rewrite !sm_next_filter.
      destruct (find _ l1) as [n1|]; cbn [sm_bind]; [|destruct (zget adj t2) as [l2|]; exact I].
      destruct (zget adj t2) as [l2|]; cbn [sm_bind]; [|exact I]. rewrite sm_next_filter.
      destruct (find _ l2) as [n2|]; cbn [sm_bind]; [|exact I].
      destruct (translate_al (is_H g) env n1 n2 s) as [[|]|e]; cbn; try reflexivity; exact I.
    - destruct adj as [|[k l] adj'].
      + cbn [keys map fst sm_next first_key zget]. destruct (truthy_h (a_h a)); cbn [sm_bind]; exact I.
      + cbn [keys map fst sm_next first_key]. destruct (truthy_h (a_h a)); cbn [sm_bind andb].
        * destruct (k =? n); destruct (zget ((k, l) :: adj') n) as [env|]; cbn [sm_bind]; try exact I;
            (destruct (zget (t_tetra tabs) n) as [order|]; [|exact I]); destruct (translate_th (is_H g) order env s) as [[|]|e]; cbn; try reflexivity; exact I.
        * destruct (zget ((k, l) :: adj') n) as [env|]; cbn [sm_bind]; [|exact I].
          destruct (zget (t_tetra tabs) n) as [order|]; [|exact I]. destruct (translate_th (is_H g) order env s) as [[|]|e]; cbn; try reflexivity; exact I.
  Qed.
End Tie.

Example stereo_mark_translated_example :
  let tabs := mkStabs [(2, [1; 3; 4])] [] [] [] [] [] [] in
  let tabs4 := mkStabs [(2, [1; 3; 4; 5])] [] [] [] [] [] [] in
  let c := fun h : Z => mkAtom 6 None 0 false (Some h) (Some true) in
  let x := mkAtom 9 None 0 false (Some 0) None in
  let g := mkMol [(2, c 1); (1, x); (3, x); (4, x)] [] in
  let g4 := mkMol [(2, c 0); (1, x); (3, x); (4, x); (5, mkAtom 1 None 0 false (Some 0) None)] [] in
  g_stereo_mark g default_opts tabs 2 [(2, [1; 3; 4]); (1, [2]); (3, [2]); (4, [2])] (c 1) = Ok "@@"%string /\
  g_stereo_mark g default_opts tabs 2 [(1, [2]); (2, [1; 3; 4]); (3, [2]); (4, [2])] (c 1) = Ok "@"%string /\
  g_stereo_mark g4 default_opts tabs4 2 [(2, [1; 3; 4; 5]); (1, [2]); (3, [2]); (4, [2]); (5, [2])] (c 0) = Ok "@"%string.
Proof. vm_compute. repeat split. Qed.
