(* C20 round 4: the conformer part of to_rdkit_molecule.  The dictionary conformer model of Model.Rdkit (to_conformers_dict: fill_conf /
   set_pos, AddConformer size check) is the fold of the steps translated from chython/utils/rdkit.py (Gen.RdkitConf,
   tools/gen_rdkit_conf.py), and the 2D conformer -- which the hand model simply writes as the list of (x, y, 0) in atom order -- is
   PROVED to be what the translated loop builds through `mapping`, whenever the atom numbers are distinct. *)
From Coq Require Import ZArith List String Bool Lia.
From Model Require Import PyBase PeriodicTable Stereo Rdkit RdkitApi RdkitConfApi.
From Gen Require Import RdkitConf.
From Proofs Require Import RdkitProofs RdkitBodyTie.
Import ListNotations.
Open Scope list_scope.
Open Scope Z_scope.

(* `for n, xyz in c.items(): conf.SetAtomPosition(mapping[n], xyz)` is fill_conf *)
Lemma tie_fill_conf : forall mp c b ps,
  foldM (fun conf e => g_conf3d_step (midx mp) conf (fst e) (snd e)) c (b, ps) =
  pyres_map (fun ps' => (b, ps')) (fill_conf mp ps c).
Proof.
  intros mp c. induction c as [|[n p] r IH]; intros b ps; simpl; [reflexivity|].
  unfold g_conf3d_step at 1. destruct (midx mp n) as [i|e]; simpl; [|reflexivity].
  apply IH.
Qed.

(* one entry of data._conformers: Conformer(), the inner loop, AddConformer *)
Theorem tie_conf3d : forall nums c,
  pbind g_conf3d_new (fun conf =>
  pbind (foldM (fun conf e => g_conf3d_step (midx (index_map nums)) conf (fst e) (snd e)) c conf)
        (g_conf3d_finish (List.length nums))) =
  match fill_conf (index_map nums) [] c with
  | Err e => Err e
  | Ok ps => if Nat.eqb (List.length ps) (List.length nums) then Ok (true, ps) else Err OtherError
  end.
Proof.
  intros nums c. unfold g_conf3d_new, rd_Conformer. cbn [pbind]. rewrite tie_fill_conf.
  destruct (fill_conf (index_map nums) [] c) as [ps|e]; cbn [pyres_map pbind]; [|reflexivity].
  unfold g_conf3d_finish, rd_AddConformer. cbn [snd]. destruct (Nat.eqb (List.length ps) (List.length nums)); reflexivity.
Qed.

Lemma set_pos_end : forall ps p, set_pos ps (List.length ps) p = ps ++ [p].
Proof. induction ps as [|q r IH]; intros p; simpl; [reflexivity|]. rewrite IH. reflexivity. Qed.

Definition pos_of (na : Z * catom) : pos3 := (c_x (snd na), c_y (snd na), czero).

(* `for n, a in data.atoms(): conf.SetAtomPosition(mapping[n], (a.x, a.y, 0))`: after the atoms [pre] the conformer holds their positions
   in order; the remaining atoms [suf] are appended one by one, because mapping[n] is the position of n in data.atoms() *)
Lemma conf2d_invariant : forall suf pre b,
  NoDup (map fst (pre ++ suf)) ->
  foldM (fun conf na => g_conf2d_step (midx (index_map (map fst (pre ++ suf)))) conf (fst na) (snd na)) suf (b, map pos_of pre) =
  Ok (b, map pos_of (pre ++ suf)).
Proof.
  induction suf as [|x r IH]; intros pre b Hnd.
  - rewrite app_nil_r. reflexivity.
  - cbn [foldM]. unfold g_conf2d_step at 1.
    assert (Hx : midx (index_map (map fst (pre ++ x :: r))) (fst x) = Ok (Z.of_nat (List.length pre))).
    { replace (fst x) with (nth (List.length pre) (map fst (pre ++ x :: r)) 0).
      - apply index_map_lookup; [exact Hnd|]. rewrite map_length, app_length. simpl. lia.
      - rewrite map_app, app_nth2; rewrite map_length; [|lia]. rewrite Nat.sub_diag. reflexivity. }
    rewrite Hx. cbn [pbind]. unfold rd_SetAtomPosition. cbn [pbind fst snd].
    rewrite Nat2Z.id. replace (List.length pre) with (List.length (map pos_of pre)) by apply map_length.
    rewrite set_pos_end.
    specialize (IH (pre ++ [x]) b). rewrite <- app_assoc in IH. cbn [app] in IH.
    replace (map pos_of (pre ++ [x])) with (map pos_of pre ++ [pos_of x]) in IH by (rewrite map_app; reflexivity).
    exact (IH Hnd).
Qed.

(* the 2D conformer: Conformer(), the loop over the atoms, Set3D(False), AddConformer *)
Theorem tie_conf2d : forall atoms, NoDup (map fst atoms) ->
  pbind g_conf_new (fun conf =>
  pbind (foldM (fun conf na => g_conf2d_step (midx (index_map (map fst atoms))) conf (fst na) (snd na)) atoms conf)
        (g_conf2d_finish (List.length atoms))) =
  Ok (false, map pos_of atoms).
Proof.
  intros atoms Hnd. unfold g_conf_new, rd_Conformer. cbn [pbind].
  pose proof (conf2d_invariant atoms [] true Hnd) as H. cbn [app map] in H. rewrite H. cbn [pbind].
  unfold g_conf2d_finish, rd_Set3D, rd_AddConformer. cbn [pbind snd]. rewrite map_length, Nat.eqb_refl. reflexivity.
Qed.

(* all conformers of to_rdkit_molecule: the hand model = the translated steps, in the order of the code (2D first, then data._conformers) *)
Theorem tie_to_conformers_dict : forall atoms confs, NoDup (map fst atoms) ->
  to_conformers_dict (map fst atoms) (map (fun na => (c_x (snd na), c_y (snd na))) atoms) confs =
  pbind (pbind g_conf_new (fun conf =>
         pbind (foldM (fun conf na => g_conf2d_step (midx (index_map (map fst atoms))) conf (fst na) (snd na)) atoms conf)
               (g_conf2d_finish (List.length atoms)))) (fun c2 =>
  pbind (mapM (fun c => pbind g_conf3d_new (fun conf =>
                        pbind (foldM (fun conf e => g_conf3d_step (midx (index_map (map fst atoms))) conf (fst e) (snd e)) c conf)
                              (g_conf3d_finish (List.length (map fst atoms))))) confs) (fun cs =>
  Ok (c2 :: cs))).
Proof.
  intros atoms confs Hnd. rewrite (tie_conf2d atoms Hnd). cbn [pbind]. unfold to_conformers_dict.
  rewrite (mapM_ext _ _ confs (fun c => tie_conf3d (map fst atoms) c)).
  destruct (mapM _ confs) as [cs|e]; cbn [pbind]; [|reflexivity].
  rewrite map_map. reflexivity.
Qed.

Example conf_examples :
  (* atoms numbered 7, 3 (in this order): the position of atom 3 lands at index 1 *)
  pbind g_conf_new (fun conf =>
    pbind (foldM (fun conf na => g_conf2d_step (midx (index_map [7; 3])) conf (fst na) (snd na))
                 [(7, mkC 6 None 0 false (Some 0) None 11 12); (3, mkC 8 None 0 false (Some 0) None 21 22)] conf)
          (g_conf2d_finish 2)) = Ok (false, [(11, 12, 0); (21, 22, 0)]) /\
  (* a 3D conformer given as {3: .., 7: ..} is stored by index, an incomplete one is refused, a foreign key is a KeyError *)
  pbind g_conf3d_new (fun conf => pbind (foldM (fun conf e => g_conf3d_step (midx (index_map [7; 3])) conf (fst e) (snd e)) [(3, (1, 2, 3)); (7, (4, 5, 6))] conf)
                                        (g_conf3d_finish 2)) = Ok (true, [(4, 5, 6); (1, 2, 3)]) /\
  pbind g_conf3d_new (fun conf => pbind (foldM (fun conf e => g_conf3d_step (midx (index_map [7; 3])) conf (fst e) (snd e)) [(7, (4, 5, 6))] conf)
                                        (g_conf3d_finish 2)) = Err OtherError /\
  pbind g_conf3d_new (fun conf => pbind (foldM (fun conf e => g_conf3d_step (midx (index_map [7; 3])) conf (fst e) (snd e)) [(9, (4, 5, 6))] conf)
                                        (g_conf3d_finish 2)) = Err KeyError.
Proof. vm_compute. repeat split. Qed.
