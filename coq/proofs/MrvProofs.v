(* C11 -- the MRV writer / reader round trip at the attribute level (Model.Mrv: write_mrv, mrv_dict, parse_molecule).
   Part A  the start-tag scanner on rendered attribute lists (scan_attrs (render_attrs l) = l for clean l; the tail lemma
           that lets a verbatim value inject a second attribute)
   Part B  xml_dict's normalisation on values that are their own strip()
   Part C  one atom: writer attributes -> dict -> mrv_parse_atom
   Part D  one bond: the bond_map halves (finite part, from the generated tables), atomRefs2, the atom id map, bondStereo
   Part E  the block theorem  mrv_molecule_roundtrip  and a concrete, non-trivial instance *)
From Coq Require Import ZArith List String Ascii Bool Lia.
From Model Require Import PyBase Mdl Mrv.
From Gen Require Import MdlTables.
From Proofs Require Import MdlProofs MdlV2000 MdlV3000.
Import ListNotations.
Open Scope Z_scope.
Local Notation length := List.length.
Local Notation concat := List.concat.

(* ================================================================================================ *)
(** * Part A: the scanner *)

Lemma split1_aux_tok c tok : forall rest cur, Forall (fun d => Ascii.eqb d c = false) tok ->
  split1_aux c (tok ++ c :: rest) cur = Some (rev cur ++ tok, rest).
Proof.
  induction tok as [|d tok IH]; intros rest cur H.
  - cbn [app split1_aux]. rewrite ascii_eqb_refl, app_nil_r. reflexivity.
  - inversion H as [|? ? Hd Ht]; subst. cbn [app split1_aux]. rewrite Hd. rewrite IH by exact Ht.
    cbn [rev]. rewrite <- app_assoc. reflexivity.
Qed.
Lemma split1_tok c tok rest : Forall (fun d => Ascii.eqb d c = false) tok -> split1 c (tok ++ c :: rest) = Some (tok, rest).
Proof. intros H. unfold split1. rewrite split1_aux_tok by exact H. reflexivity. Qed.

(* a name without an equals sign and a value without a double quote *)
Definition no_char (c : ascii) (s : str) : Prop := Forall (fun d => Ascii.eqb d c = false) s.
Definition clean_kv (kv : str * str) : Prop := no_char "="%char (fst kv) /\ no_char dq (snd kv).

Lemma scan_step f kv rest : clean_kv kv ->
  scan_attrs (S f) (render_attr kv ++ rest) = option_map (cons kv) (scan_attrs f rest).
Proof.
  destruct kv as [k v]. intros [Hk Hv]. cbn [fst snd] in Hk, Hv. unfold render_attr. cbn [fst snd].
  replace ((sp :: k ++ "="%char :: dq :: v ++ [dq]) ++ rest) with (sp :: k ++ "="%char :: (dq :: v ++ dq :: rest)).
  2:{ cbn [app]. f_equal. rewrite <- app_assoc. cbn [app]. do 3 f_equal. rewrite <- app_assoc. reflexivity. }
  cbn [scan_attrs]. change (Ascii.eqb sp sp) with true. cbv iota.
  rewrite (split1_tok "="%char k _ Hk). change (Ascii.eqb dq dq) with true. cbv iota.
  rewrite (split1_tok dq v rest Hv). reflexivity.
Qed.

Lemma render_attrs_cons kv l : render_attrs (kv :: l) = render_attr kv ++ render_attrs l.
Proof. reflexivity. Qed.
Lemma render_attrs_app l1 l2 : render_attrs (l1 ++ l2) = render_attrs l1 ++ render_attrs l2.
Proof. unfold render_attrs. rewrite map_app, concat_app. reflexivity. Qed.

Lemma scan_render l : forall f rest, Forall clean_kv l ->
  scan_attrs (length l + f) (render_attrs l ++ rest) = option_map (app l) (scan_attrs f rest).
Proof.
  induction l as [|kv l IH]; intros f rest H.
  - cbn [length plus app]. change (render_attrs []) with (@nil ascii). cbn [app]. destruct (scan_attrs f rest); reflexivity.
  - inversion H as [|? ? Hkv Hl]; subst. rewrite render_attrs_cons, <- app_assoc. cbn [length plus].
    rewrite scan_step by exact Hkv. rewrite IH by exact Hl. destruct (scan_attrs f rest); reflexivity.
Qed.

Lemma scan_mono f : forall s r, scan_attrs f s = Some r -> forall k, scan_attrs (f + k) s = Some r.
Proof.
  induction f as [|f IH]; intros s r H k; [discriminate|]. cbn [plus scan_attrs] in *.
  destruct s as [|c s]; [exact H|]. destruct (Ascii.eqb c sp); [|discriminate].
  destruct (split1 "="%char s) as [[kk [|q r']]|]; try discriminate.
  destruct (Ascii.eqb q dq); [|discriminate]. destruct (split1 dq r') as [[v r'']|]; [|discriminate].
  destruct (scan_attrs f r'') as [t|] eqn:E; [|discriminate]. rewrite (IH _ _ E k). exact H.
Qed.

Lemma render_attr_length kv : (1 <= length (render_attr kv))%nat.
Proof. unfold render_attr. cbn [length]. lia. Qed.
Lemma render_attrs_length l : (length l <= length (render_attrs l))%nat.
Proof.
  induction l as [|kv l IH]; [cbn; lia|]. rewrite render_attrs_cons, app_length. pose proof (render_attr_length kv). cbn [length]. lia.
Qed.

(* clean attributes are found as they were written ... *)
Theorem cook_clean l : Forall clean_kv l -> cook l = Some l.
Proof.
  intros H. unfold cook. cbv zeta.
  pose proof (scan_render l 1 [] H) as E. rewrite app_nil_r in E. cbn [scan_attrs option_map] in E. rewrite app_nil_r in E.
  pose proof (render_attrs_length l) as Hl.
  replace (S (length (render_attrs l))) with ((length l + 1) + (length (render_attrs l) - length l))%nat by lia.
  apply scan_mono. exact E.
Qed.
(* ... and a verbatim tail contributes whatever the scanner finds in it *)
Theorem cook_app l1 l2 r2 : Forall clean_kv l1 -> cook l2 = Some r2 -> cook (l1 ++ l2) = Some (l1 ++ r2).
Proof.
  intros H1 H2. unfold cook in *. cbv zeta in *. rewrite render_attrs_app.
  pose proof (scan_render l1 (S (length (render_attrs l2))) (render_attrs l2) H1) as E. rewrite H2 in E. cbn [option_map] in E.
  pose proof (render_attrs_length l1) as Hl. rewrite app_length.
  replace (S (length (render_attrs l1) + length (render_attrs l2)))
    with ((length l1 + S (length (render_attrs l2))) + (length (render_attrs l1) - length l1))%nat by lia.
  apply scan_mono. exact E.
Qed.

(* ================================================================================================ *)
(** * Part B: xml_dict's attribute normalisation *)

(* a value that is its own strip() and is kept *)
Definition nonblank (v : str) : Prop := v <> [] /\ edges_ok is_space v.
Definition at_attr (kv : str * str) : str * str := ("@"%char :: fst kv, snd kv).

Lemma strip_nonblank v : nonblank v -> strip v = v.
Proof. intros [_ H]. apply strip_by_id. exact H. Qed.

Lemma xml_attr_clean kv : strip (fst kv) = fst kv -> nonblank (snd kv) -> xml_attr kv = [at_attr kv].
Proof.
  intros Hk Hv. unfold xml_attr, at_attr. rewrite (strip_nonblank _ Hv), Hk. destruct Hv as [Hne _].
  destruct (snd kv); [contradiction | reflexivity].
Qed.
Lemma xml_attrs_clean l : Forall (fun kv => strip (fst kv) = fst kv /\ nonblank (snd kv)) l -> xml_attrs l = map at_attr l.
Proof.
  induction 1 as [|kv l [Hk Hv] _ IH]; [reflexivity|]. unfold xml_attrs in *. cbn [flat_map map].
  rewrite xml_attr_clean by assumption. rewrite IH. reflexivity.
Qed.
Lemma xml_attrs_app l1 l2 : xml_attrs (l1 ++ l2) = xml_attrs l1 ++ xml_attrs l2.
Proof. unfold xml_attrs. apply flat_map_app. Qed.

Lemma nonblank_all v : v <> [] -> Forall (fun c => is_space c = false) v -> nonblank v.
Proof. intros Hne H. split; [exact Hne | apply edges_ok_all; exact H]. Qed.
Lemma nonblank_zstr n : nonblank (zstr n).
Proof. apply nonblank_all; [apply zstr_nonempty | apply zstr_no_space]. Qed.
Lemma nonblank_aid n : nonblank (aid n).
Proof. unfold aid. apply nonblank_all; [discriminate|]. constructor; [reflexivity | apply zstr_no_space]. Qed.
Lemma nonblank_bid n : nonblank (bid n).
Proof. unfold bid. apply nonblank_all; [discriminate|]. constructor; [reflexivity | apply zstr_no_space]. Qed.

Lemma num_char_not c d : (forall x, is_digit x -> Ascii.eqb x d = false) -> Ascii.eqb "-"%char d = false -> num_char c -> Ascii.eqb c d = false.
Proof. intros Hd Hm [H | ->]; [apply Hd; exact H | exact Hm]. Qed.
Lemma digit_not_dq c : is_digit c -> Ascii.eqb c dq = false.
Proof. intros H. apply is_digit_cases in H. cbn in H. repeat (destruct H as [<- | H]; [reflexivity|]). contradiction. Qed.
Lemma no_dq_zstr n : no_char dq (zstr n).
Proof.
  unfold no_char. eapply Forall_impl; [|apply zstr_chars]. intros c Hc. apply (num_char_not c dq); [apply digit_not_dq | reflexivity | exact Hc].
Qed.
Lemma no_dq_aid n : no_char dq (aid n).
Proof. unfold aid. constructor; [reflexivity | apply no_dq_zstr]. Qed.
Lemma no_dq_bid n : no_char dq (bid n).
Proof. unfold bid. constructor; [reflexivity | apply no_dq_zstr]. Qed.

(* closed names and values *)
Lemma no_char_closed c s : forallb (fun d => negb (Ascii.eqb d c)) s = true -> no_char c s.
Proof. intros H. apply Forall_forall. intros d Hd. rewrite forallb_forall in H. apply negb_true_iff. apply H. exact Hd. Qed.

(* ================================================================================================ *)
(** * Part C: one atom *)

(* the dict xml_dict makes of a written atom *)
Definition atom_dict (mapping : bool) (a : watom) (h : option Z) : attrs := map at_attr (mrv_atom_raw mapping a h).

(* what an attribute value must be to come back unchanged: not blank at either end, not empty (xml_dict), no double quote (the tag) *)
Definition attr_value (v : str) : Prop := nonblank v /\ no_char dq v.
Record wfm_atom (a : watom) (f : fval * fval) : Prop := {
  wfm_sym : attr_value (wa_sym a);
  wfm_x : attr_value (wa_x a);
  wfm_y : attr_value (wa_y a);
  wfm_fx : py_float (wa_x a) = Ok (fst f);
  wfm_fy : py_float (wa_y a) = Ok (snd f) }.

Lemma attr_value_zstr n : attr_value (zstr n).
Proof. split; [apply nonblank_zstr | apply no_dq_zstr]. Qed.
Lemma attr_value_aid n : attr_value (aid n).
Proof. split; [apply nonblank_aid | apply no_dq_aid]. Qed.
Lemma attr_value_closed v :
  (match v with [] => false | _ => forallb (fun c => negb (is_space c)) v && forallb (fun d => negb (Ascii.eqb d dq)) v end) = true -> attr_value v.
Proof.
  destruct v as [|c r]; [discriminate|]. intros H. apply andb_true_iff in H. destruct H as [H1 H2]. split.
  - apply nonblank_all; [discriminate|]. apply Forall_forall. intros d Hd. rewrite forallb_forall in H1. apply negb_true_iff, H1, Hd.
  - apply no_char_closed. exact H2.
Qed.

(* a written attribute: closed name (its own strip, no equals sign), good value *)
Definition good_attr (kv : str * str) : Prop := strip (fst kv) = fst kv /\ no_char "="%char (fst kv) /\ attr_value (snd kv).
Lemma good_closed k v : attr_value v -> (str_eqb (strip (L k)) (L k) && forallb (fun d => negb (Ascii.eqb d "="%char)) (L k)) = true -> good_attr (L k, v).
Proof.
  intros Hv H. apply andb_true_iff in H. destruct H as [H1 H2]. split; [apply str_eqb_eq; exact H1|]. split; [apply no_char_closed; exact H2 | exact Hv].
Qed.
Lemma good_opt b k v : attr_value v -> (str_eqb (strip (L k)) (L k) && forallb (fun d => negb (Ascii.eqb d "="%char)) (L k)) = true ->
  Forall good_attr (opt_attr b k v).
Proof. intros Hv H. destruct b; cbn [opt_attr]; constructor; [apply good_closed; assumption | constructor]. Qed.

Lemma good_clean l : Forall good_attr l -> Forall clean_kv l.
Proof. apply Forall_impl. intros kv [_ [Hk [_ Hv]]]. split; assumption. Qed.
Lemma good_xml l : Forall good_attr l -> xml_attrs l = map at_attr l.
Proof. intros H. apply xml_attrs_clean. eapply Forall_impl; [|exact H]. intros kv [Hk [_ [Hv _]]]. split; assumption. Qed.
(* the XML layer on good attributes: the same list with '@' names *)
Lemma xml_elem_good l : Forall good_attr l -> xml_elem_attrs l = Ok (map at_attr l).
Proof. intros H. unfold xml_elem_attrs. rewrite cook_clean by (apply good_clean; exact H). rewrite good_xml by exact H. reflexivity. Qed.

Lemma atom_raw_good mapping a h f : wfm_atom a f -> Forall good_attr (mrv_atom_raw mapping a h).
Proof.
  intros W. destruct W. unfold mrv_atom_raw.
  repeat (apply Forall_app; split).
  - constructor; [apply good_closed; [apply attr_value_aid | reflexivity]|].
    constructor; [apply good_closed; [assumption | reflexivity]|].
    constructor; [apply good_closed; [assumption | reflexivity]|].
    constructor; [apply good_closed; [assumption | reflexivity]|]. constructor.
  - apply good_opt; [apply attr_value_zstr | reflexivity].
  - apply good_opt; [apply attr_value_zstr | reflexivity].
  - apply good_opt; [apply attr_value_closed; reflexivity | reflexivity].
  - apply good_opt; [apply attr_value_zstr | reflexivity].
  - destruct h; constructor; [|constructor]. apply good_closed; [apply attr_value_zstr | reflexivity].
Qed.

Theorem atom_xml mapping a h f : wfm_atom a f -> xml_elem_attrs (mrv_atom_raw mapping a h) = Ok (atom_dict mapping a h).
Proof. intros W. apply xml_elem_good. eapply atom_raw_good. exact W. Qed.

(* the lookups parse_molecule makes in the dict of a written atom: first on a list of the same shape with opaque values
   (closed names: by evaluation), then instantiated *)
Lemma atom_shape_get (b1 b2 b3 b4 : bool) (hv : option str) (v1 v2 v3 v4 v5 v6 v7 v8 : str) :
  let D := map at_attr ([(L "id", v1); (L "elementType", v2); (L "x2", v3); (L "y2", v4)] ++
                        opt_attr b1 "mrvMap" v5 ++ opt_attr b2 "formalCharge" v6 ++ opt_attr b3 "radical" v7 ++
                        opt_attr b4 "isotope" v8 ++ match hv with Some v => [(L "hydrogenCount", v)] | None => [] end) in
  aget D (L "@id") = Some v1 /\
  aget D (L "@elementType") = Some v2 /\
  aget D (L "@x2") = Some v3 /\
  aget D (L "@y2") = Some v4 /\
  aget D (L "@mrvMap") = (if b1 then Some v5 else None) /\
  aget D (L "@formalCharge") = (if b2 then Some v6 else None) /\
  aget D (L "@radical") = (if b3 then Some v7 else None) /\
  aget D (L "@isotope") = (if b4 then Some v8 else None) /\
  aget D (L "@hydrogenCount") = hv /\
  aget D (L "@z3") = None /\
  aget D (L "@mrvQueryProps") = None.
Proof. destruct b1, b2, b3, b4, hv; vm_compute; repeat split; reflexivity. Qed.

Lemma atom_dict_get mapping a h : let D := atom_dict mapping a h in
  aget D (L "@id") = Some (aid (wa_num a)) /\
  aget D (L "@elementType") = Some (wa_sym a) /\
  aget D (L "@x2") = Some (wa_x a) /\
  aget D (L "@y2") = Some (wa_y a) /\
  aget D (L "@mrvMap") = (if mapping then Some (zstr (wa_num a)) else None) /\
  aget D (L "@formalCharge") = (if wa_chg a =? 0 then None else Some (zstr (wa_chg a))) /\
  aget D (L "@radical") = (if wa_rad a then Some (L "monovalent") else None) /\
  aget D (L "@isotope") = (if iso_truthy (wa_iso a) then Some (zstr (iso_val (wa_iso a))) else None) /\
  aget D (L "@hydrogenCount") = option_map zstr h /\
  aget D (L "@z3") = None /\
  aget D (L "@mrvQueryProps") = None.
Proof.
  cbv zeta. unfold atom_dict, mrv_atom_raw.
  pose proof (atom_shape_get mapping (negb (wa_chg a =? 0)) (wa_rad a) (iso_truthy (wa_iso a)) (option_map zstr h)
                (aid (wa_num a)) (wa_sym a) (wa_x a) (wa_y a) (zstr (wa_num a)) (zstr (wa_chg a)) (L "monovalent")
                (zstr (iso_val (wa_iso a)))) as G.
  cbv zeta in G.
  replace (match option_map zstr h with Some v => [(L "hydrogenCount", v)] | None => [] end)
    with (match h with Some v => [(L "hydrogenCount", zstr v)] | None => [] end) in G by (destruct h; reflexivity).
  replace (if negb (wa_chg a =? 0) then Some (zstr (wa_chg a)) else None)
    with (if wa_chg a =? 0 then None else Some (zstr (wa_chg a))) in G by (destruct (wa_chg a =? 0); reflexivity).
  exact G.
Qed.

(* the atom dict the reader builds for a written atom *)
Definition exp_matom (mapping : bool) (a : watom) (f : fval * fval) (h : option Z) : matom :=
  mk_matom (wa_sym a) (if iso_truthy (wa_iso a) then wa_iso a else None) (Some (wa_chg a)) (Some (wa_rad a))
           (Some (if mapping then wa_num a else 0)) (Some (fhalf (fst f))) (Some (fhalf (snd f))) None h.

Theorem mrv_atom_dict_roundtrip mapping a h f :
  py_float (wa_x a) = Ok (fst f) -> py_float (wa_y a) = Ok (snd f) ->
  mrv_parse_atom (atom_dict mapping a h) = Ok (aid (wa_num a), exp_matom mapping a f h).
Proof.
  intros Hx Hy.
  destruct (atom_dict_get mapping a h) as [G1 [G2 [G3 [G4 [G5 [G6 [G7 [G8 [G9 [G10 G11]]]]]]]]]].
  unfold mrv_parse_atom, atom_xyz, akey, aint, aint_opt, afloat, ahas, akey.
  rewrite G1, G2, G3, G4, G5, G6, G7, G8, G9, G10, G11. cbn [of_opt bind]. rewrite Hx, Hy. cbn [bind fst snd].
  unfold exp_matom.
  assert (Ei : (if iso_truthy (wa_iso a) then Some (zstr (iso_val (wa_iso a))) else None) =
               option_map zstr (if iso_truthy (wa_iso a) then wa_iso a else None)).
  { destruct (wa_iso a) as [v|]; cbn [iso_truthy iso_val]; [destruct (negb (v =? 0))|]; reflexivity. }
  rewrite Ei. clear Ei.
  destruct (if iso_truthy (wa_iso a) then wa_iso a else None) as [iv|]; cbn [option_map]; rewrite ?py_int_zstr; cbn [bind];
  (destruct (wa_chg a =? 0) eqn:Ec; [apply Z.eqb_eq in Ec; rewrite Ec | rewrite py_int_zstr]; cbn [bind];
   destruct mapping; rewrite ?py_int_zstr; cbn [bind];
   destruct (wa_rad a); destruct h as [hv|]; cbn [option_map]; rewrite ?py_int_zstr; cbn [bind]; reflexivity).
Qed.

(* the writer's attributes of one atom, through the XML layer, to the reader *)
Theorem mrv_atom_roundtrip mapping a h f : wfm_atom a f ->
  exists d, xml_elem_attrs (mrv_atom_raw mapping a h) = Ok d /\
            mrv_parse_atom d = Ok (aid (wa_num a), exp_matom mapping a f h).
Proof.
  intros W. exists (atom_dict mapping a h). split; [apply (atom_xml _ _ _ _ W)|].
  destruct W. apply mrv_atom_dict_roundtrip; assumption.
Qed.

(* ================================================================================================ *)
(** * Part D: one bond *)

(** ** a. bond_map: every order the writer can spell comes back (finite part, over the generated tables) *)

(* order o: the writer's value, what the scanner finds in  order="value"  and what the reader makes of it *)
Definition order_rt (o : Z) : bool :=
  match w_order o with
  | Ok ov => match cook [(L "order", ov)] with
             | Some r => pyres_eqb Z.eqb (read_order (xml_attrs r)) (Ok o)
             | None => false
             end
  | Err _ => false
  end.
Lemma order_rt_all : forallb order_rt (map fst mrv_bond_w) = true.
Proof. vm_compute. reflexivity. Qed.

(* the orders of the writer's table: 1, 2, 3, 4 (aromatic, "A") and 8 (special, "Any") *)
Definition valid_order (o : Z) : Prop := In o (map fst mrv_bond_w).
Lemma valid_order_cases o : valid_order o <-> o = 1 \/ o = 2 \/ o = 3 \/ o = 4 \/ o = 8.
Proof. unfold valid_order. cbn. intuition. Qed.

Lemma pyres_eqb_Z_ok x o : pyres_eqb Z.eqb x (Ok o) = true -> x = Ok o.
Proof. destruct x as [v|e]; cbn; [|discriminate]. intros H. apply Z.eqb_eq in H. subst. reflexivity. Qed.

Theorem order_roundtrip o : valid_order o ->
  exists ov r, w_order o = Ok ov /\ cook [(L "order", ov)] = Some r /\ read_order (xml_attrs r) = Ok o.
Proof.
  intros H. pose proof order_rt_all as A. rewrite forallb_forall in A. specialize (A o H). unfold order_rt in A.
  destruct (w_order o) as [ov|]; [|discriminate]. destruct (cook [(L "order", ov)]) as [r|] eqn:Ec; [|discriminate].
  exists ov, r. split; [reflexivity|]. split; [exact Ec|]. apply pyres_eqb_Z_ok. exact A.
Qed.

(* order 8: the value closes the quote and injects queryType, and the reader prefers queryType to order *)
Example order8_injection :
  w_order 8 = Ok (L "1"" queryType=""Any") /\
  render_attrs [(L "order", L "1"" queryType=""Any")] = L " order=""1"" queryType=""Any""" /\
  cook [(L "order", L "1"" queryType=""Any")] = Some [(L "order", L "1"); (L "queryType", L "Any")] /\
  read_order [(L "@order", L "1"); (L "@queryType", L "Any")] = Ok 8 /\
  read_order [(L "@order", L "1")] = Ok 1.
Proof. vm_compute. repeat split; reflexivity. Qed.

(** ** b. atomRefs2 and the atom id map *)

Lemma aid_no_space n : Forall (fun c => is_space c = false) (aid n).
Proof. unfold aid. constructor; [reflexivity | apply zstr_no_space]. Qed.
Lemma aid_nonempty n : aid n <> [].
Proof. discriminate. Qed.
Lemma aid_inj a b : aid a = aid b -> a = b.
Proof. unfold aid. intros E. inversion E as [E']. apply zstr_inj. exact E'. Qed.

Lemma split_ws_aux_last tok : tok <> [] -> Forall (fun c => is_space c = false) tok -> split_ws_aux tok [] = [tok].
Proof.
  intros Hne H. pose proof (split_ws_aux_tok tok [] [] H) as E. rewrite !app_nil_r in E. rewrite E.
  pose proof (rev_nonempty tok Hne) as Hr. cbn [split_ws_aux]. destruct (rev tok) eqn:Er; [contradiction|].
  rewrite <- Er, rev_involutive. reflexivity.
Qed.
Lemma refs_split i j : split_ws (aid i ++ sp :: aid j) = [aid i; aid j].
Proof.
  unfold split_ws. rewrite split_ws_aux_tok by apply aid_no_space. rewrite app_nil_r.
  rewrite split_ws_aux_sp by (apply rev_nonempty, aid_nonempty). rewrite rev_involutive. f_equal.
  apply split_ws_aux_last; [apply aid_nonempty | apply aid_no_space].
Qed.

Lemma edges_ok_join x y : x <> [] -> y <> [] -> Forall (fun c => is_space c = false) x -> Forall (fun c => is_space c = false) y ->
  edges_ok is_space (x ++ sp :: y).
Proof.
  intros Hx Hy Fx Fy. destruct x as [|c x]; [contradiction|]. unfold edges_ok. cbn [app]. split; [inversion Fx; assumption|].
  destruct (exists_last Hy) as [q [d E]]. rewrite E in *.
  replace (c :: x ++ sp :: q ++ [d]) with ((c :: x ++ sp :: q) ++ [d]) by (cbn [app]; rewrite <- app_assoc; reflexivity).
  rewrite last_last. apply Forall_app in Fy. destruct Fy as [_ Fy]. inversion Fy; assumption.
Qed.
Lemma refs_value i j : attr_value (aid i ++ sp :: aid j).
Proof.
  split.
  - split; [discriminate|]. apply edges_ok_join; try apply aid_nonempty; apply aid_no_space.
  - unfold no_char. apply Forall_app. split; [apply no_dq_aid|]. constructor; [reflexivity | apply no_dq_aid].
Qed.

(* the map after the atom loop: ids in container order, positions from s *)
Definition id_map (nums : list Z) (s : Z) : list (str * Z) := combine (map aid nums) (zrange_from s (length nums)).

Lemma sassoc_aid_notin {V} ks (vs : list V) n : ~ In n ks -> sassoc_last (combine (map aid ks) vs) (aid n) = None.
Proof.
  revert vs. induction ks as [|k ks IH]; intros vs H; [reflexivity|]. destruct vs as [|v vs]; [reflexivity|].
  cbn [map combine sassoc_last]. rewrite IH by (intros Hi; apply H; right; exact Hi).
  rewrite str_eqb_neq; [reflexivity|]. intros E. apply aid_inj in E. apply H. left. symmetry. exact E.
Qed.
Lemma id_map_get ks : forall s n, NoDup ks -> sassoc_last (id_map ks s) (aid n) = index_from n ks s.
Proof.
  unfold id_map. induction ks as [|k ks IH]; intros s n H; [reflexivity|]. inversion H as [|? ? Hk Hks]; subst.
  cbn [length zrange_from map combine sassoc_last index_from]. rewrite IH by exact Hks.
  destruct (n =? k) eqn:E.
  - apply Z.eqb_eq in E. subst. rewrite index_from_notin by exact Hk. rewrite str_eqb_refl. reflexivity.
  - destruct (index_from n ks (s + 1)); [reflexivity|]. rewrite str_eqb_neq; [reflexivity|].
    intros E'. apply aid_inj in E'. subst. rewrite Z.eqb_refl in E. discriminate.
Qed.
Lemma index_from_succ n ks : forall s, index_from n ks (s + 1) = option_map (fun p => p + 1) (index_from n ks s).
Proof. induction ks as [|k ks IH]; intros s; [reflexivity|]. cbn [index_from]. destruct (n =? k); [reflexivity | apply IH]. Qed.

(* atom_map['a{n}'] = position of n in the container, from 0 *)
Lemma alook_pos atoms n : NoDup (map wa_num atoms) -> In n (map wa_num atoms) ->
  alook (id_map (map wa_num atoms) 0) (aid n) = Ok (pos atoms n - 1).
Proof.
  intros Hnd Hin. unfold alook. rewrite id_map_get by exact Hnd. unfold pos.
  change 1 with (0 + 1). rewrite index_from_succ.
  destruct (index_from_in n (map wa_num atoms) 0 Hin) as [p Hp]. rewrite Hp. cbn [option_map of_opt]. f_equal. lia.
Qed.

(** ** c. the bond element *)

(* the dict of a written bond: '@id', '@atomRefs2', then whatever the order value contributes *)
Definition bond_dict (k i j : Z) (X : attrs) : attrs := (L "@id", bid k) :: (L "@atomRefs2", aid i ++ sp :: aid j) :: X.

Lemma bond_xml k i j ov r : cook [(L "order", ov)] = Some r ->
  xml_elem_attrs (mrv_bond_raw k i j ov) = Ok (bond_dict k i j (xml_attrs r)).
Proof.
  intros Hc. unfold xml_elem_attrs, mrv_bond_raw.
  change [(L "id", bid k); (L "atomRefs2", aid i ++ sp :: aid j); (L "order", ov)]
    with ([(L "id", bid k); (L "atomRefs2", aid i ++ sp :: aid j)] ++ [(L "order", ov)]).
  assert (G : Forall good_attr [(L "id", bid k); (L "atomRefs2", aid i ++ sp :: aid j)]).
  { constructor; [apply good_closed; [split; [apply nonblank_bid | apply no_dq_bid] | reflexivity]|].
    constructor; [apply good_closed; [apply refs_value | reflexivity]|]. constructor. }
  rewrite (cook_app _ _ r (good_clean _ G) Hc). rewrite xml_attrs_app, (good_xml _ G). reflexivity.
Qed.

Lemma read_order_bond k i j X : read_order (bond_dict k i j X) = read_order X.
Proof.
  unfold read_order. change (ahas (bond_dict k i j X) "@queryType") with (ahas X "@queryType").
  destruct (ahas X "@queryType"); reflexivity.
Qed.

Definition stereo_sign (bs : bstereo) : option Z :=
  match bs with
  | BsText (Some s) => if str_eqb s (L "H") then Some (-1) else if str_eqb s (L "W") then Some 1 else None
  | _ => None
  end.

(* the reader on the dict of a written bond: W -> +1, H -> -1, no child -> no stereo entry *)
Theorem mrv_bond_dict_roundtrip amap st k i j X o ia ib bs :
  read_order X = Ok o -> alook amap (aid i) = Ok ia -> alook amap (aid j) = Ok ib ->
  bs = BsAbsent \/ bs = BsText (Some (L "W")) \/ bs = BsText (Some (L "H")) ->
  mrv_parse_bond amap st (mk_mbond (bond_dict k i j X) bs) =
  Ok (mk_mbs (mbs_bonds st ++ [(ia, ib, o)])
             (mbs_stereo st ++ match stereo_sign bs with Some s => [(ia, ib, s)] | None => [] end) (mbs_log st)).
Proof.
  intros Ho Ha Hb Hs. unfold mrv_parse_bond. cbn [mb_attrs mb_stereo]. rewrite read_order_bond, Ho. cbn [bind].
  change (akey (bond_dict k i j X) "@atomRefs2") with (@Ok str (aid i ++ sp :: aid j)). cbn [bind].
  rewrite refs_split. rewrite Ha, Hb.
  destruct Hs as [-> | [-> | ->]].
  - cbn [bind fst snd stereo_sign]. rewrite app_nil_r. reflexivity.
  - change (str_eqb (L "W") (L "H")) with false. change (str_eqb (L "W") (L "W")) with true. cbn [bind fst snd stereo_sign].
    change (str_eqb (L "W") (L "H")) with false. change (str_eqb (L "W") (L "W")) with true. reflexivity.
  - change (str_eqb (L "H") (L "H")) with true. cbn [bind fst snd stereo_sign].
    change (str_eqb (L "H") (L "H")) with true. reflexivity.
Qed.

(* a written bond of a valid order between atoms i and j of the id map, through the XML layer, to the reader *)
Theorem mrv_bond_roundtrip amap st k i j o ia ib (w : option bool) :
  valid_order o -> alook amap (aid i) = Ok ia -> alook amap (aid j) = Ok ib ->
  exists ov d,
    w_order o = Ok ov /\
    xml_bond (mk_wbond (mrv_bond_raw k i j ov) (option_map (fun up : bool => if up then L "W" else L "H") w)) = Ok d /\
    mrv_parse_bond amap st d =
    Ok (mk_mbs (mbs_bonds st ++ [(ia, ib, o)])
               (mbs_stereo st ++ match w with Some up => [(ia, ib, if up then 1 else -1)] | None => [] end) (mbs_log st)).
Proof.
  intros Hv Ha Hb. destruct (order_roundtrip o Hv) as [ov [r [Hw [Hc Hr]]]].
  exists ov. eexists. split; [exact Hw|]. unfold xml_bond. cbn [wb_attrs wb_stereo]. rewrite (bond_xml k i j ov r Hc). cbn [bind].
  split; [reflexivity|].
  destruct w as [[|]|]; cbn [option_map].
  - change (xml_text (L "W")) with (Some (L "W")).
    rewrite (mrv_bond_dict_roundtrip amap st k i j _ o ia ib _ Hr Ha Hb) by (right; left; reflexivity). reflexivity.
  - change (xml_text (L "H")) with (Some (L "H")).
    rewrite (mrv_bond_dict_roundtrip amap st k i j _ o ia ib _ Hr Ha Hb) by (right; right; reflexivity). reflexivity.
  - rewrite (mrv_bond_dict_roundtrip amap st k i j _ o ia ib _ Hr Ha Hb) by (left; reflexivity). reflexivity.
Qed.

(* ================================================================================================ *)
(** * Part E: the block round trip *)

(** ** atoms *)
Fixpoint exp_atoms (mapping : bool) (atoms : list watom) (fs : list (fval * fval)) (hs : list (option Z)) : list matom :=
  match atoms, fs with
  | a :: r, f :: fr => exp_matom mapping a f (hd None hs) :: exp_atoms mapping r fr (tl hs)
  | _, _ => []
  end.
Definition atom_dicts (mapping : bool) (atoms : list watom) (hs : list (option Z)) : list attrs :=
  map (fun ah => atom_dict mapping (fst ah) (snd ah)) (with_hyd atoms hs).

Lemma atoms_xml mapping atoms fs : Forall2 wfm_atom atoms fs -> forall hs,
  mapM xml_elem_attrs (map (fun ah => mrv_atom_raw mapping (fst ah) (snd ah)) (with_hyd atoms hs)) = Ok (atom_dicts mapping atoms hs).
Proof.
  induction 1 as [|a f atoms fs W _ IH]; intros hs; [reflexivity|].
  unfold atom_dicts in *. cbn [with_hyd map mapM fst snd]. rewrite (atom_xml mapping a _ f W). cbn [bind]. rewrite IH. reflexivity.
Qed.

Lemma sdict_set_notin {V} (d : list (str * V)) k v : ~ In k (map fst d) -> sdict_set d k v = d ++ [(k, v)].
Proof.
  induction d as [|[k' v'] d IH]; intros H; [reflexivity|]. cbn [sdict_set map fst In app] in *.
  rewrite str_eqb_neq by (intros E; apply H; left; symmetry; exact E). rewrite IH by (intros Hi; apply H; right; exact Hi). reflexivity.
Qed.

Lemma atoms_parse mapping atoms fs : Forall2 wfm_atom atoms fs -> forall hs pm pre,
  NoDup (map wa_num atoms) -> (forall n, In n (map wa_num atoms) -> ~ In (aid n) (map fst pm)) ->
  foldM atom_step (atom_dicts mapping atoms hs) (pm, pre) =
  Ok (pm ++ combine (map aid (map wa_num atoms)) (zrange_from (Z.of_nat (length pre)) (length atoms)),
      pre ++ exp_atoms mapping atoms fs hs).
Proof.
  induction 1 as [|a f atoms fs W _ IH]; intros hs pm pre Hnd Hpm.
  - cbn [atom_dicts with_hyd map foldM length zrange_from combine exp_atoms]. rewrite !app_nil_r. reflexivity.
  - unfold atom_dicts in *. cbn [with_hyd map foldM fst snd]. unfold atom_step at 1. cbn [fst snd].
    destruct W as [_ _ _ Hx Hy]. rewrite (mrv_atom_dict_roundtrip mapping a (hd None hs) f Hx Hy). cbn [bind fst snd].
    cbn [map] in Hnd, Hpm. inversion Hnd as [|? ? Hn Hnd']; subst.
    rewrite sdict_set_notin by (apply Hpm; left; reflexivity).
    rewrite IH.
    + cbn [length zrange_from map combine exp_atoms]. rewrite app_length. cbn [length].
      replace (Z.of_nat (length pre + 1)) with (Z.of_nat (length pre) + 1) by lia. rewrite <- !app_assoc. reflexivity.
    + exact Hnd'.
    + intros n Hin Hi. rewrite map_app in Hi. apply in_app_or in Hi. destruct Hi as [Hi | Hi].
      * apply (Hpm n); [right; exact Hin | exact Hi].
      * cbn [map fst In] in Hi. destruct Hi as [E | []]. apply aid_inj in E. subst. contradiction.
Qed.

(** ** bonds *)
Definition mbond_ok (atoms : list watom) (b : Z * Z * Z) : Prop :=
  In (fst (fst b)) (map wa_num atoms) /\ In (snd (fst b)) (map wa_num atoms) /\ valid_order (snd b).

(* the value written for a valid order and the attributes it contributes to the dict *)
Definition ov_of (o : Z) : str := match w_order o with Ok s => s | Err _ => [] end.
Definition ord_attrs (o : Z) : attrs := match cook [(L "order", ov_of o)] with Some r => xml_attrs r | None => [] end.
Lemma ord_attrs_spec o : valid_order o ->
  w_order o = Ok (ov_of o) /\ (exists r, cook [(L "order", ov_of o)] = Some r /\ xml_attrs r = ord_attrs o) /\ read_order (ord_attrs o) = Ok o.
Proof.
  intros H. destruct (order_roundtrip o H) as [ov [r [Hw [Hc Hr]]]]. unfold ord_attrs, ov_of. rewrite Hw, Hc.
  split; [reflexivity|]. split; [exists r; split; reflexivity | exact Hr].
Qed.

Definition stereo_text (s : Z) : str := if s =? 1 then L "W" else L "H".
Definition wedge_wb (bonds : list (Z * Z * Z)) (kw : Z * (Z * Z * Z)) : wbond :=
  let '(k, (i, j, s)) := kw in mk_wbond (mrv_bond_raw k i j (ov_of (ord bonds i j))) (Some (stereo_text s)).
Definition plain_wb (kb : Z * (Z * Z * Z)) : wbond :=
  let '(k, (i, j, o)) := kb in mk_wbond (mrv_bond_raw k i j (ov_of o)) None.
Definition wedge_md (bonds : list (Z * Z * Z)) (kw : Z * (Z * Z * Z)) : mbond :=
  let '(k, (i, j, s)) := kw in mk_mbond (bond_dict k i j (ord_attrs (ord bonds i j))) (BsText (Some (stereo_text s))).
Definition plain_md (kb : Z * (Z * Z * Z)) : mbond :=
  let '(k, (i, j, o)) := kb in mk_mbond (bond_dict k i j (ord_attrs o)) BsAbsent.

Lemma wedge_valid atoms bonds w : Forall (mbond_ok atoms) bonds -> wedge_ok atoms bonds w ->
  bond_order bonds (fst (fst w)) (snd (fst w)) = Ok (ord bonds (fst (fst w)) (snd (fst w))) /\
  valid_order (ord bonds (fst (fst w)) (snd (fst w))).
Proof.
  intros Hb [_ [_ [o Ho]]]. unfold ord. rewrite Ho. split; [reflexivity|].
  destruct (bond_order_in _ _ _ _ Ho) as [a [b Hin]]. rewrite Forall_forall in Hb. apply Hb in Hin. destruct Hin as [_ [_ H]]. exact H.
Qed.

Lemma xml_text_stereo s : xml_text (stereo_text s) = Some (stereo_text s).
Proof. unfold stereo_text. destruct (s =? 1); reflexivity. Qed.

Lemma wedge_written atoms bonds kw : Forall (mbond_ok atoms) bonds -> wedge_ok atoms bonds (snd kw) ->
  mrv_wedge bonds kw = Ok (wedge_wb bonds kw) /\ xml_bond (wedge_wb bonds kw) = Ok (wedge_md bonds kw).
Proof.
  intros Hb Hw. destruct (wedge_valid atoms bonds _ Hb Hw) as [Ho Hv]. destruct kw as [k [[i j] s]]. cbn [fst snd] in *.
  destruct (ord_attrs_spec _ Hv) as [Hwo [[r [Hc Hx]] _]].
  unfold mrv_wedge, wedge_wb, wedge_md. rewrite Ho. cbn [bind]. rewrite Hwo. cbn [bind]. split; [reflexivity|].
  unfold xml_bond. cbn [wb_attrs wb_stereo]. rewrite (bond_xml k i j _ r Hc). cbn [bind]. rewrite Hx, xml_text_stereo. reflexivity.
Qed.
Lemma plain_written atoms kb : mbond_ok atoms (snd kb) ->
  mrv_plain kb = Ok (plain_wb kb) /\ xml_bond (plain_wb kb) = Ok (plain_md kb).
Proof.
  intros [_ [_ Hv]]. destruct kb as [k [[i j] o]]. cbn [fst snd] in *.
  destruct (ord_attrs_spec _ Hv) as [Hwo [[r [Hc Hx]] _]].
  unfold mrv_plain, plain_wb, plain_md. rewrite Hwo. cbn [bind]. split; [reflexivity|].
  unfold xml_bond. cbn [wb_attrs wb_stereo]. rewrite (bond_xml k i j _ r Hc). cbn [bind]. rewrite Hx. reflexivity.
Qed.

Section BondBlock.
  Variables (atoms : list watom) (bonds : list (Z * Z * Z)).
  Hypothesis Hnd : NoDup (map wa_num atoms).
  Hypothesis Hb : Forall (mbond_ok atoms) bonds.
  Let amap := id_map (map wa_num atoms) 0.

  Lemma wedge_parse st kw : wedge_ok atoms bonds (snd kw) ->
    mrv_parse_bond amap st (wedge_md bonds kw) =
    Ok (mk_mbs (mbs_bonds st ++ [exp_wedge_bond atoms bonds (snd kw)]) (mbs_stereo st ++ [exp_wedge_stereo atoms (snd kw)]) (mbs_log st)).
  Proof.
    intros Hw. destruct (wedge_valid atoms bonds _ Hb Hw) as [_ Hv]. destruct Hw as [Hn [Hm _]].
    destruct kw as [k [[i j] s]]. cbn [fst snd] in *. destruct (ord_attrs_spec _ Hv) as [_ [_ Hr]].
    unfold wedge_md, exp_wedge_bond, exp_wedge_stereo. cbn [fst snd].
    rewrite (mrv_bond_dict_roundtrip amap st k i j _ _ (pos atoms i - 1) (pos atoms j - 1) _ Hr
               (alook_pos atoms i Hnd Hn) (alook_pos atoms j Hnd Hm)).
    - unfold stereo_text. destruct (s =? 1); reflexivity.
    - unfold stereo_text. destruct (s =? 1); [right; left | right; right]; reflexivity.
  Qed.

  Lemma plain_parse st kb : mbond_ok atoms (snd kb) ->
    mrv_parse_bond amap st (plain_md kb) =
    Ok (mk_mbs (mbs_bonds st ++ [exp_plain_bond atoms (snd kb)]) (mbs_stereo st) (mbs_log st)).
  Proof.
    intros [Hn [Hm Hv]]. destruct kb as [k [[i j] o]]. cbn [fst snd] in *. destruct (ord_attrs_spec _ Hv) as [_ [_ Hr]].
    unfold plain_md, exp_plain_bond. cbn [fst snd].
    rewrite (mrv_bond_dict_roundtrip amap st k i j _ _ (pos atoms i - 1) (pos atoms j - 1) _ Hr
               (alook_pos atoms i Hnd Hn) (alook_pos atoms j Hnd Hm)) by (left; reflexivity).
    cbn [stereo_sign]. rewrite app_nil_r. reflexivity.
  Qed.

  Lemma wedge_parse_block kws : Forall (fun kw => wedge_ok atoms bonds (snd kw)) kws -> forall st,
    foldM (mrv_parse_bond amap) (map (wedge_md bonds) kws) st =
    Ok (mk_mbs (mbs_bonds st ++ map (exp_wedge_bond atoms bonds) (map snd kws))
               (mbs_stereo st ++ map (exp_wedge_stereo atoms) (map snd kws)) (mbs_log st)).
  Proof.
    induction 1 as [|kw kws Hw _ IH]; intros st.
    - cbn [map foldM]. rewrite !app_nil_r. destruct st; reflexivity.
    - cbn [map foldM]. rewrite wedge_parse by exact Hw. cbn [bind]. rewrite IH.
      cbn [mbs_bonds mbs_stereo mbs_log]. rewrite <- !app_assoc. reflexivity.
  Qed.
  Lemma plain_parse_block kbs : Forall (fun kb => mbond_ok atoms (snd kb)) kbs -> forall st,
    foldM (mrv_parse_bond amap) (map plain_md kbs) st =
    Ok (mk_mbs (mbs_bonds st ++ map (exp_plain_bond atoms) (map snd kbs)) (mbs_stereo st) (mbs_log st)).
  Proof.
    induction 1 as [|kb kbs Hw _ IH]; intros st.
    - cbn [map foldM]. rewrite !app_nil_r. destruct st; reflexivity.
    - cbn [map foldM]. rewrite plain_parse by exact Hw. cbn [bind]. rewrite IH.
      cbn [mbs_bonds mbs_stereo mbs_log]. rewrite <- !app_assoc. reflexivity.
  Qed.
End BondBlock.

(** ** the molecule element: title *)
Lemma molecule_xml name : no_char dq name ->
  exists d, xml_elem_attrs (molecule_attrs name) = Ok d /\ aget d (L "@title") = title_of name.
Proof.
  intros Hq. unfold xml_elem_attrs, molecule_attrs. destruct name as [|c name].
  - exists []. split; reflexivity.
  - rewrite cook_clean by (constructor; [split; [apply no_char_closed; reflexivity | exact Hq] | constructor]).
    eexists. split; [reflexivity|]. unfold xml_attrs, xml_attr, title_of. cbn [flat_map fst snd app].
    destruct (strip (c :: name)); reflexivity.
Qed.

(** ** the theorem *)
Theorem mrv_molecule_roundtrip mapping g fs hs :
  Forall2 wfm_atom (wm_atoms g) fs ->
  wm_atoms g <> [] ->
  NoDup (map wa_num (wm_atoms g)) ->
  Forall (mbond_ok (wm_atoms g)) (wm_bonds g) ->
  Forall (wedge_ok (wm_atoms g) (wm_bonds g)) (wm_wedge g) ->
  no_char dq (wm_name g) ->
  exists w d,
    write_mrv mapping g hs = Ok w /\
    mrv_dict (wm_name g) w = Ok d /\
    parse_molecule d =
    Ok (mk_mparsed (title_of (wm_name g))
                   (exp_atoms mapping (wm_atoms g) fs hs)
                   (map (exp_wedge_bond (wm_atoms g) (wm_bonds g)) (wm_wedge g) ++ map (exp_plain_bond (wm_atoms g)) (plain_bonds g))
                   (map (exp_wedge_stereo (wm_atoms g)) (wm_wedge g))
                   []
                   (id_map (map wa_num (wm_atoms g)) 0)).
Proof.
  intros Hwf Hne Hnd Hb Hw Hname.
  set (KW := enum_from 1 (wm_wedge g)). set (KB := enum_from (1 + Z.of_nat (length (wm_wedge g))) (plain_bonds g)).
  assert (Hpl : Forall (mbond_ok (wm_atoms g)) (plain_bonds g)).
  { apply Forall_forall. intros b Hin. unfold plain_bonds in Hin. apply filter_In in Hin. destruct Hin as [Hin _].
    rewrite Forall_forall in Hb. apply Hb. exact Hin. }
  assert (Hwe : Forall (fun kw => wedge_ok (wm_atoms g) (wm_bonds g) (snd kw)) KW).
  { apply Forall_forall. intros [i w] Hin. cbn [snd]. rewrite Forall_forall in Hw. apply Hw. eapply enum_from_in. exact Hin. }
  assert (Hpe : Forall (fun kb => mbond_ok (wm_atoms g) (snd kb)) KB).
  { apply Forall_forall. intros [i w] Hin. cbn [snd]. rewrite Forall_forall in Hpl. apply Hpl. eapply enum_from_in. exact Hin. }
  assert (W1 : mapM (mrv_wedge (wm_bonds g)) KW = Ok (map (wedge_wb (wm_bonds g)) KW)).
  { apply mapM_ok_map. eapply Forall_impl; [|exact Hwe]. intros kw H. apply (wedge_written (wm_atoms g)); assumption. }
  assert (W2 : mapM mrv_plain KB = Ok (map plain_wb KB)).
  { apply mapM_ok_map. eapply Forall_impl; [|exact Hpe]. intros kb H. apply (plain_written (wm_atoms g)); assumption. }
  assert (X1 : mapM xml_bond (map (wedge_wb (wm_bonds g)) KW) = Ok (map (wedge_md (wm_bonds g)) KW)).
  { rewrite mapM_map. apply mapM_ok_map. eapply Forall_impl; [|exact Hwe]. intros kw H. apply (wedge_written (wm_atoms g)); assumption. }
  assert (X2 : mapM xml_bond (map plain_wb KB) = Ok (map plain_md KB)).
  { rewrite mapM_map. apply mapM_ok_map. eapply Forall_impl; [|exact Hpe]. intros kb H. apply (plain_written (wm_atoms g)); assumption. }
  destruct (molecule_xml (wm_name g) Hname) as [ma [Hma Htitle]].
  unfold write_mrv. cbv zeta. fold KW. fold KB. rewrite W1, W2. cbn [bind].
  eexists. eexists. split; [reflexivity|].
  unfold mrv_dict. cbn [wx_atoms wx_bonds]. rewrite Hma. cbn [bind].
  rewrite (atoms_xml mapping _ _ Hwf hs). cbn [bind]. rewrite (mapM_app _ _ _ _ _ X1 X2). cbn [bind].
  assert (Hal : atom_dicts mapping (wm_atoms g) hs <> []).
  { unfold atom_dicts. destruct (wm_atoms g); [contradiction | discriminate]. }
  destruct (atom_dicts mapping (wm_atoms g) hs) as [|d0 dl] eqn:Ed; [contradiction|]. rewrite <- Ed. clear Hal.
  split; [reflexivity|].
  unfold parse_molecule. cbn [md_atoms md_bonds md_attrs].
  rewrite (atoms_parse mapping _ _ Hwf hs [] [] Hnd) by (intros n _ []). cbn [bind app length fst snd].
  change (Z.of_nat 0) with 0. rewrite <- (map_length wa_num (wm_atoms g)). fold (id_map (map wa_num (wm_atoms g)) 0).
  assert (Hex : exp_atoms mapping (wm_atoms g) fs hs <> []).
  { inversion Hwf as [|a f atoms' fs' _ _ Ea Ef]; [symmetry in H; contradiction|]. discriminate. }
  destruct (exp_atoms mapping (wm_atoms g) fs hs) as [|e0 el] eqn:Ee; [contradiction|]. rewrite <- Ee. clear Hex.
  cbn [of_opt bind]. rewrite foldM_app.
  rewrite (wedge_parse_block (wm_atoms g) (wm_bonds g) Hnd Hb _ Hwe). cbn [bind].
  rewrite (plain_parse_block (wm_atoms g) Hnd _ Hpe). cbn [bind mbs_bonds mbs_stereo mbs_log app].
  subst KW KB. rewrite !map_snd_enum. rewrite Htitle. reflexivity.
Qed.

(* the same as one function of the writer's input *)
Corollary mrv_write_read_roundtrip mapping g fs hs :
  Forall2 wfm_atom (wm_atoms g) fs -> wm_atoms g <> [] -> NoDup (map wa_num (wm_atoms g)) ->
  Forall (mbond_ok (wm_atoms g)) (wm_bonds g) -> Forall (wedge_ok (wm_atoms g) (wm_bonds g)) (wm_wedge g) -> no_char dq (wm_name g) ->
  mrv_write_read mapping g hs =
  Ok (mk_mparsed (title_of (wm_name g)) (exp_atoms mapping (wm_atoms g) fs hs)
                 (map (exp_wedge_bond (wm_atoms g) (wm_bonds g)) (wm_wedge g) ++ map (exp_plain_bond (wm_atoms g)) (plain_bonds g))
                 (map (exp_wedge_stereo (wm_atoms g)) (wm_wedge g)) [] (id_map (map wa_num (wm_atoms g)) 0)).
Proof.
  intros H1 H2 H3 H4 H5 H6. destruct (mrv_molecule_roundtrip mapping g fs hs H1 H2 H3 H4 H5 H6) as [w [d [Hw [Hd Hp]]]].
  unfold mrv_write_read. rewrite Hw. cbn [bind]. rewrite Hd. cbn [bind]. exact Hp.
Qed.

(* ... and in the shape of Mdl.parsed (what the V2000 / V3000 theorems state): element, charge, isotope (0 / None -> None),
   mapping (or 0), x = value(x2 field) / 2, y likewise, no z, radical, hydrogen count *)
Definition exp_patom (mapping : bool) (a : watom) (f : fval * fval) (h : option Z) : patom :=
  mk_patom (wa_sym a) (wa_chg a) (if iso_truthy (wa_iso a) then wa_iso a else None) (if mapping then wa_num a else 0)
           (fhalf (fst f)) (fhalf (snd f)) (FDec 0 0) None (wa_rad a) h.
Fixpoint exp_patoms (mapping : bool) (atoms : list watom) (fs : list (fval * fval)) (hs : list (option Z)) : list patom :=
  match atoms, fs with
  | a :: r, f :: fr => exp_patom mapping a f (hd None hs) :: exp_patoms mapping r fr (tl hs)
  | _, _ => []
  end.
Lemma to_patom_exp mapping atoms : forall fs hs, map to_patom (exp_atoms mapping atoms fs hs) = exp_patoms mapping atoms fs hs.
Proof.
  induction atoms as [|a atoms IH]; intros fs hs; [reflexivity|]. destruct fs as [|f fs]; [reflexivity|].
  cbn [exp_atoms exp_patoms map]. rewrite IH. reflexivity.
Qed.
Corollary mrv_parsed_roundtrip mapping g fs hs :
  Forall2 wfm_atom (wm_atoms g) fs -> wm_atoms g <> [] -> NoDup (map wa_num (wm_atoms g)) ->
  Forall (mbond_ok (wm_atoms g)) (wm_bonds g) -> Forall (wedge_ok (wm_atoms g) (wm_bonds g)) (wm_wedge g) -> no_char dq (wm_name g) ->
  exists p, mrv_write_read mapping g hs = Ok p /\
    to_parsed p =
    mk_parsed (title_of (wm_name g)) (exp_patoms mapping (wm_atoms g) fs hs)
              (map (exp_wedge_bond (wm_atoms g) (wm_bonds g)) (wm_wedge g) ++ map (exp_plain_bond (wm_atoms g)) (plain_bonds g))
              (map (exp_wedge_stereo (wm_atoms g)) (wm_wedge g)) [].
Proof.
  intros H1 H2 H3 H4 H5 H6. eexists. split; [apply (mrv_write_read_roundtrip mapping g fs hs); assumption|].
  unfold to_parsed. cbn [mp_title mp_atoms mp_bonds mp_stereo mp_log]. rewrite to_patom_exp. reflexivity.
Qed.

(** ** a concrete instance: charges (positive, negative), isotopes, radicals, hydrogen counts (known, 0, unknown), a title with
       blanks around it, two wedged bonds, an aromatic (4) and a special (8) bond, atom numbers that are not their positions *)
Definition exm_mol : wmol :=
  mk_wmol (L " test mol ")
    [ mk_watom 7 (L "C") (L "0.0000") (L "2.5000") (L "0") 4 None false;
      mk_watom 3 (L "Cl") (L "-3.0000") (L "0.0000") (L "0") (-1) (Some 37) false;
      mk_watom 12 (L "N") (L "3.0000") (L "-1.5000") (L "0") 0 None true;
      mk_watom 5 (L "O") (L "5.0000") (L "0.0000") (L "0") (-2) (Some 18) true ]
    [ (7, 3, -1); (12, 5, 1) ]
    [ (3, 7, 1); (12, 3, 8); (5, 12, 2); (5, 7, 4) ].
Definition exm_hs : list (option Z) := [Some 0; Some 0; None; Some 1].
Definition exm_fs : list (fval * fval) :=
  [ (FDec 0 (-4), FDec 25000 (-4)); (FDec (-30000) (-4), FDec 0 (-4)); (FDec 30000 (-4), FDec (-15000) (-4)); (FDec 50000 (-4), FDec 0 (-4)) ].
Definition exm_parsed : mparsed :=
  mk_mparsed (Some (L "test mol"))
    [ mk_matom (L "C") None (Some 4) (Some false) (Some 7) (Some (FDec 0 (-5))) (Some (FDec 125000 (-5))) None (Some 0);
      mk_matom (L "Cl") (Some 37) (Some (-1)) (Some false) (Some 3) (Some (FDec (-150000) (-5))) (Some (FDec 0 (-5))) None (Some 0);
      mk_matom (L "N") None (Some 0) (Some true) (Some 12) (Some (FDec 150000 (-5))) (Some (FDec (-75000) (-5))) None None;
      mk_matom (L "O") (Some 18) (Some (-2)) (Some true) (Some 5) (Some (FDec 250000 (-5))) (Some (FDec 0 (-5))) None (Some 1) ]
    [(0, 1, 1); (2, 3, 2); (2, 1, 8); (3, 0, 4)] [(0, 1, -1); (2, 3, 1)] (@nil str)
    [(L "a7", 0); (L "a3", 1); (L "a12", 2); (L "a5", 3)].

Lemma exm_hypotheses :
  Forall2 wfm_atom (wm_atoms exm_mol) exm_fs /\ wm_atoms exm_mol <> [] /\
  NoDup (map wa_num (wm_atoms exm_mol)) /\
  Forall (mbond_ok (wm_atoms exm_mol)) (wm_bonds exm_mol) /\
  Forall (wedge_ok (wm_atoms exm_mol) (wm_bonds exm_mol)) (wm_wedge exm_mol) /\
  no_char dq (wm_name exm_mol).
Proof.
  split; [|split; [|split; [|split; [|split]]]].
  - unfold exm_mol, exm_fs. cbn [wm_atoms].
    repeat (apply Forall2_cons || apply Forall2_nil);
      (constructor; cbn [fst snd wa_x wa_y wa_sym]; try (apply attr_value_closed); vm_compute; reflexivity).
  - discriminate.
  - cbn. repeat (apply NoDup_cons || apply NoDup_nil); cbn; lia.
  - unfold mbond_ok, valid_order. repeat (apply Forall_cons || apply Forall_nil); cbn; lia.
  - unfold wedge_ok. repeat (apply Forall_cons || apply Forall_nil); cbn [fst snd];
      (split; [cbn; lia|]; split; [cbn; lia|]; eexists; vm_compute; reflexivity).
  - apply no_char_closed. vm_compute. reflexivity.
Qed.

(* through the theorem *)
Example exm_roundtrip : mrv_write_read true exm_mol exm_hs = Ok exm_parsed.
Proof.
  destruct exm_hypotheses as [H1 [H2 [H3 [H4 [H5 H6]]]]].
  rewrite (mrv_write_read_roundtrip true exm_mol exm_fs exm_hs H1 H2 H3 H4 H5 H6). vm_compute. reflexivity.
Qed.
(* by direct evaluation of the model, with and without mapping *)
Example exm_roundtrip_computed : mrv_write_read true exm_mol exm_hs = Ok exm_parsed.
Proof. vm_compute. reflexivity. Qed.
Example exm_roundtrip_nomap :
  option_map (map ma_map) (match mrv_write_read false exm_mol exm_hs with Ok p => Some (mp_atoms p) | Err _ => None end) =
  Some [Some 0; Some 0; Some 0; Some 0].
Proof. vm_compute. reflexivity. Qed.
(* the text that is written, and the dict the XML layer hands over *)
Example exm_written :
  match write_mrv true exm_mol exm_hs with Ok w => Some (mrv_text w) | Err _ => None end =
  Some (L "<atomArray><atom id=""a7"" elementType=""C"" x2=""0.0000"" y2=""2.5000"" mrvMap=""7"" formalCharge=""4"" hydrogenCount=""0""/>" ++
        L "<atom id=""a3"" elementType=""Cl"" x2=""-3.0000"" y2=""0.0000"" mrvMap=""3"" formalCharge=""-1"" isotope=""37"" hydrogenCount=""0""/>" ++
        L "<atom id=""a12"" elementType=""N"" x2=""3.0000"" y2=""-1.5000"" mrvMap=""12"" radical=""monovalent""/>" ++
        L "<atom id=""a5"" elementType=""O"" x2=""5.0000"" y2=""0.0000"" mrvMap=""5"" formalCharge=""-2"" radical=""monovalent"" isotope=""18"" hydrogenCount=""1""/>" ++
        L "</atomArray><bondArray><bond id=""b1"" atomRefs2=""a7 a3"" order=""1""><bondStereo>H</bondStereo></bond>" ++
        L "<bond id=""b2"" atomRefs2=""a12 a5"" order=""2""><bondStereo>W</bondStereo></bond>" ++
        L "<bond id=""b3"" atomRefs2=""a12 a3"" order=""1"" queryType=""Any""/>" ++
        L "<bond id=""b4"" atomRefs2=""a5 a7"" order=""A""/></bondArray>").
Proof. vm_compute. reflexivity. Qed.
Example exm_dict_bond3 :
  match write_mrv true exm_mol exm_hs with
  | Ok w => match mrv_dict (wm_name exm_mol) w with Ok d => option_map (fun l => nth 2 l (mk_mbond [] BsList)) (md_bonds d) | Err _ => None end
  | Err _ => None
  end = Some (mk_mbond [(L "@id", L "b3"); (L "@atomRefs2", L "a12 a3"); (L "@order", L "1"); (L "@queryType", L "Any")] BsAbsent).
Proof. vm_compute. reflexivity. Qed.

Print Assumptions cook_clean.
Print Assumptions cook_app.
Print Assumptions order_roundtrip.
Print Assumptions mrv_atom_roundtrip.
Print Assumptions mrv_bond_roundtrip.
Print Assumptions mrv_molecule_roundtrip.
Print Assumptions mrv_parsed_roundtrip.
Print Assumptions exm_roundtrip.
