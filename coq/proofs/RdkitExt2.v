(* C20 extension 2: double bonds with missing substituents (hydrogens) under every arrangement RDKit and the rebuilt molecule
   may choose; the whole-molecule double-bond theorem at full strength. *)
From Coq Require Import ZArith List String Bool Lia.
From Model Require Import PyBase PeriodicTable Stereo Rdkit.
From Gen Require Import Elements RdkitTables StereoTables.
From Proofs Require Import StereoProofs RdkitProofs RdkitExt.
Import ListNotations.
Open Scope string_scope.
Open Scope Z_scope.

(* ================================================================================================ *)
(* 1. the one-end-exchange law of translate_env for EVERY pattern of present / missing second substituents.
   An end of the double bond is (first heavy substituent, second heavy substituent or None = hydrogen).  A reference atom on
   an end: flag false = the first substituent; flag true = the second substituent, or -- when it is missing -- any hydrogen. *)
Definition ref_on (isH : Z -> bool) (e : Z * option Z) (second : bool) (x : Z) : Prop :=
  if second then match snd e with Some y => x = y | None => isH x = true end else x = fst e.

(* what the registry guarantees about an entry: heavy atoms, pairwise different *)
Definition env_ok (isH : Z -> bool) (ea eb : Z * option Z) : Prop :=
  fst ea <> fst eb /\ isH (fst ea) = false /\ isH (fst eb) = false /\
  (forall y, snd ea = Some y -> y <> fst ea /\ y <> fst eb) /\
  (forall y, snd eb = Some y -> y <> fst ea /\ y <> fst eb) /\
  (forall y y', snd ea = Some y -> snd eb = Some y' -> y <> y').

Lemma env_ok_sym isH ea eb : env_ok isH ea eb -> env_ok isH eb ea.
Proof.
  intros (H1 & H2 & H3 & H4 & H5 & H6). unfold env_ok. split; [congruence|]. split; [exact H3|]. split; [exact H2|].
  split; [intros w Hw; destruct (H5 w Hw); auto|]. split; [intros w Hw; destruct (H4 w Hw); auto|].
  intros y y' Hy Hy' E. apply (H6 y' y Hy' Hy). congruence.
Qed.

Lemma ct_lookup_values : ct_lookup 0 1 = Some false /\ ct_lookup 0 3 = Some true /\ ct_lookup 2 1 = Some true /\ ct_lookup 2 3 = Some false.
Proof.
  destruct alkene_table_law as (_ & Hl & _).
  assert (H : forall a b, In a [0; 2] -> In b [1; 3] -> ct_lookup a b = Some (ct_parity a b)).
  { intros a b Ha Hb. rewrite forallb_forall in Hl. specialize (Hl a Ha). rewrite forallb_forall in Hl. specialize (Hl b Hb).
    apply andb_prop in Hl. destruct Hl as [Hl _]. destruct (ct_lookup a b) as [v|]; cbn in Hl; [|discriminate].
    apply eqb_prop in Hl. subst. reflexivity. }
  repeat split; apply H; cbn; tauto.
Qed.

Section AnyEnds.
  Variable isH : Z -> bool.

  Theorem translate_env_law_any ya oya yb oyb fa fb x z t :
    env_ok isH (ya, oya) (yb, oyb) -> ref_on isH (ya, oya) fa x -> ref_on isH (yb, oyb) fb z ->
    translate_env isH (ya, yb, oya, oyb) x z t = Ok (xorb t (xorb fa fb)).
  Proof.
    intros (Hab & Ha & Hb & Hoa & Hob & Hoo) Hx Hz. cbn [fst snd] in *.
    destruct ct_lookup_values as (L01 & L03 & L21 & L23).
    (* the second argument: position 1 or 3 *)
    assert (Hsecond : (if z =? yb then Some 1 else if opt_is oyb z isH then Some 3 else None) = Some (if fb then 3 else 1)).
    { destruct fb; unfold ref_on in Hz; cbn [fst snd] in Hz.
      - assert (Hne : (z =? yb) = false).
        { apply Z.eqb_neq. destruct oyb as [y|]; [subst z; apply (Hob y eq_refl) | intros ->; congruence]. }
        rewrite Hne. unfold opt_is. destruct oyb as [y|]; [subst z; rewrite Z.eqb_refl; reflexivity | rewrite Hz; reflexivity].
      - subst z. rewrite Z.eqb_refl. reflexivity. }
    unfold translate_env. rewrite Hsecond.
    destruct fa; unfold ref_on in Hx; cbn [fst snd] in Hx.
    - assert (Hna : (x =? ya) = false).
      { apply Z.eqb_neq. destruct oya as [y|]; [subst x; apply (Hoa y eq_refl) | intros ->; congruence]. }
      assert (Hnb : (x =? yb) = false).
      { apply Z.eqb_neq. destruct oya as [y|]; [subst x; apply (Hoa y eq_refl) | intros ->; congruence]. }
      rewrite Hna, Hnb.
      assert (Ho : opt_is oya x isH = true) by (unfold opt_is; destruct oya as [y|]; [subst x; apply Z.eqb_refl | exact Hx]).
      rewrite Ho. cbn [option_map]. destruct fb; [rewrite L23 | rewrite L21]; destruct t; reflexivity.
    - subst x. rewrite Z.eqb_refl. cbn [option_map]. destruct fb; [rewrite L03 | rewrite L01]; destruct t; reflexivity.
  Qed.
End AnyEnds.

(* ================================================================================================ *)
(* 2. one labelled plain double bond, any substituent pattern, through to_rdkit_molecule and from_rdkit_molecule *)
(* how an end of the old entry appears in the rebuilt entry: renamed; with two heavy substituents they may be listed in the
   other order ([c] = true); with one there is nothing to reorder *)
Definition end_image (rho : Z -> Z) (c : bool) (e e' : Z * option Z) : Prop :=
  match snd e with
  | None => c = false /\ fst e' = rho (fst e) /\ snd e' = None
  | Some n2 => fst e' = (if c then rho n2 else rho (fst e)) /\ snd e' = Some (if c then rho (fst e) else rho n2)
  end.

Lemma end_ref isH isH' rho c e e' a x :
  ref_on isH e a x -> end_image rho c e e' -> (a = true -> snd e = None -> isH' (rho x) = true) ->
  ref_on isH' e' (xorb a c) (rho x).
Proof.
  destruct e as [n0 o2], e' as [y oy]. unfold ref_on, end_image. cbn [fst snd]. intros Hr Hi Hh.
  destruct o2 as [n2|]; cbv iota beta in Hi, Hr.
  - destruct Hi as [Hy Hoy]. subst y oy. destruct a, c; cbn [xorb fst snd]; subst x; reflexivity.
  - destruct Hi as (Hc & Hy & Hoy). subst c y oy. destruct a; cbn [xorb fst snd]; [apply Hh; reflexivity | subst x; reflexivity].
Qed.

Section AnyDoubleBond.
  Variables isH isH' : Z -> bool.
  Variable rho : Z -> Z.

  (* old entry (n0, n1, o2, o3); RDKit names the reference atoms x (first end, flag a) and z (last end, flag b) -- a hydrogen
     ATOM when the flag is set and the substituent is missing -- and reports the label relative to them; its bond may run
     either way; the rebuilt molecule keys its entry by either orientation ([sw]) with the substituents of an end in either
     order ([c0], [c1]).  The entry is found under the RDKit begin/end key or under the exchanged key; _translate_cis_trans_sign
     then passes the reference atoms so that the first belongs to the first end of the entry. *)
  Theorem bond_roundtrip_any n0 n1 o2 o3 ya oya yb oyb (sw c0 c1 a b : bool) x z s label' nn nm e_be e_eb :
    let E' := if sw then (yb, ya, oyb, oya) else (ya, yb, oya, oyb) in
    let fr := if sw then rho z else rho x in          (* reference atom on the first end of the rebuilt entry *)
    let lr := if sw then rho x else rho z in
    env_ok isH' (ya, oya) (yb, oyb) ->
    end_image rho c0 (n0, o2) (ya, oya) -> end_image rho c1 (n1, o3) (yb, oyb) ->
    ref_on isH (n0, o2) a x -> ref_on isH (n1, o3) b z ->
    (a = true -> o2 = None -> isH' (rho x) = true) -> (b = true -> o3 = None -> isH' (rho z) = true) ->
    sign_of_bs label' = Some (xorb s (xorb a b)) ->
    ((e_be = Some E' /\ e_eb = None /\ nn = fr /\ nm = lr) \/ (e_be = None /\ e_eb = Some E' /\ nn = lr /\ nm = fr)) ->
    to_bond_stereo (n0, n1, o2, o3) s = (n0, n1, bs_of_sign s) /\
    exists s', from_bond_stereo isH' e_be e_eb nn nm label' = Ok (Some s') /\
               translate_ct isH' (if sw then None else Some E') (if sw then Some E' else None) (rho n0) (rho n1) s' = Ok s.
  Proof.
    intros E' fr lr Hok Ha Hb Hx Hz Hhx Hhz Hl Hpat. split; [reflexivity|].
    pose proof (end_ref isH isH' rho c0 _ _ a x Hx Ha Hhx) as Rx.
    pose proof (end_ref isH isH' rho c1 _ _ b z Hz Hb Hhz) as Rz.
    assert (R0 : ref_on isH' (ya, oya) (xorb false c0) (rho n0)).
    { apply (end_ref isH isH' rho c0 (n0, o2) _ false n0); [reflexivity | exact Ha | discriminate]. }
    assert (R1 : ref_on isH' (yb, oyb) (xorb false c1) (rho n1)).
    { apply (end_ref isH isH' rho c1 (n1, o3) _ false n1); [reflexivity | exact Hb | discriminate]. }
    cbn [xorb] in R0, R1.
    set (t := xorb s (xorb a b)) in *.
    exists (xorb s (xorb c0 c1)).
    assert (Hfrom : translate_env isH' E' fr lr t = Ok (xorb s (xorb c0 c1))).
    { subst E' fr lr. destruct sw.
      - rewrite (translate_env_law_any isH' yb oyb ya oya _ _ _ _ t (env_ok_sym _ _ _ Hok) Rz Rx). f_equal.
        unfold t. destruct s, a, b, c0, c1; reflexivity.
      - rewrite (translate_env_law_any isH' ya oya yb oyb _ _ _ _ t Hok Rx Rz). f_equal.
        unfold t. destruct s, a, b, c0, c1; reflexivity. }
    split.
    - unfold from_bond_stereo, translate_ct. rewrite Hl.
      destruct Hpat as [(-> & -> & -> & ->)|(-> & -> & -> & ->)]; rewrite Hfrom; reflexivity.
    - subst E'. destruct sw; unfold translate_ct.
      + rewrite (translate_env_law_any isH' yb oyb ya oya _ _ _ _ _ (env_ok_sym _ _ _ Hok) R1 R0). f_equal.
        destruct s, c0, c1; reflexivity.
      + rewrite (translate_env_law_any isH' ya oya yb oyb _ _ _ _ _ Hok R0 R1). f_equal.
        destruct s, c0, c1; reflexivity.
  Qed.
End AnyDoubleBond.

(* ================================================================================================ *)
(* 3. ALL double-bond labels of a molecule, every substituent pattern *)
Section WholeDoubleBondsFull.
  Variables isH isH' : Z -> bool.
  Variable rho : Z -> Z.
  Variable centers : list (Z * (Z * Z)).
  Variables ct ct' : list (Z * Z * (Z * Z * option Z * option Z)).

  Inductive bond_wf_any : Z * Z * option bool -> Z * Z * string * Z * Z -> Prop :=
  | bwa_none b bi ei label sb se :
      sel_of centers ct b = Ok None -> sign_of_bs label = None -> bond_wf_any b (bi, ei, label, sb, se)
  | bwa_label n m s cn cm n0 n1 o2 o3 ya oya yb oyb (sw c0 c1 a b : bool) x z bi ei label sb se :
      zget centers n = Some (cn, cm) -> (n =? cn) || (n =? cm) = true -> (m =? cn) || (m =? cm) = true ->
      pget ct (cn, cm) = Some (n0, n1, o2, o3) ->
      env_ok isH' (ya, oya) (yb, oyb) ->
      end_image rho c0 (n0, o2) (ya, oya) -> end_image rho c1 (n1, o3) (yb, oyb) ->
      ref_on isH (n0, o2) a x -> ref_on isH (n1, o3) b z ->
      (a = true -> o2 = None -> isH' (rho x) = true) -> (b = true -> o3 = None -> isH' (rho z) = true) ->
      sign_of_bs label = Some (xorb s (xorb a b)) ->
      (* RDKit's bond runs cn -> cm or cm -> cn; its stereo atoms are given (at begin, at end) *)
      ((bi + 1 = rho cn /\ ei + 1 = rho cm /\ sb + 1 = rho x /\ se + 1 = rho z) \/
       (bi + 1 = rho cm /\ ei + 1 = rho cn /\ sb + 1 = rho z /\ se + 1 = rho x)) ->
      (* the rebuilt molecule keeps ONE entry for the bond, under one of the two orientations *)
      pget ct' (rho cn, rho cm) = (if sw then None else Some (ya, yb, oya, oyb)) ->
      pget ct' (rho cm, rho cn) = (if sw then Some (yb, ya, oyb, oya) else None) ->
      bond_wf_any (n, m, Some s) (bi, ei, label, sb, se).

  (* the label read back denotes the configuration the old label denotes: asked for the renamed old reference atoms
     (m3._translate_cis_trans_sign(rho cn, rho cm, rho n0, rho n1)) the rebuilt molecule answers the old label *)
  Definition blabel_image_any (b : Z * Z * option bool) (l : Z * Z * option bool) : Prop :=
    exists out, sel_of centers ct b = Ok out /\
      match out with
      | None => snd l = None
      | Some (r0, r1, lab) =>
          exists sv sv' cn cm, snd b = Some sv /\ lab = bs_of_sign sv /\ snd l = Some sv' /\
            zget centers (fst (fst b)) = Some (cn, cm) /\
            translate_ct isH' (pget ct' (rho cn, rho cm)) (pget ct' (rho cm, rho cn)) (rho r0) (rho r1) sv' = Ok sv
      end.

  Theorem double_bonds_from_to_full : forall bonds rbonds, Forall2 bond_wf_any bonds rbonds ->
    exists outs, to_bond_labels centers ct bonds = Ok outs /\
      exists labels', from_bond_labels isH' ct' rbonds = Ok labels' /\ Forall2 blabel_image_any bonds labels'.
  Proof.
    intros bonds rbonds HF. unfold to_bond_labels, from_bond_labels.
    induction HF as [|b rb bonds rbonds Hwf _ IH].
    - exists []. split; [reflexivity|]. exists []. split; [reflexivity | constructor].
    - destruct IH as (outs & Houts & ls & Hls & HF2). cbn [mapM].
      destruct Hwf as [b bi ei label sb se Hsel Hlab |
                       n m s cn cm n0 n1 o2 o3 ya oya yb oyb sw c0 c1 a b0 x z bi ei label sb se
                         Hc Hn Hm Hct Hok Ha Hb Hx Hz Hhx Hhz Hlab Hrd Hk1 Hk2].
      + destruct b as [[n m] s]. unfold sel_of in Hsel. rewrite Hsel, Houts. exists (None :: outs). split; [reflexivity|].
        unfold from_bond_stereo at 1. rewrite Hlab. rewrite Hls. exists ((bi + 1, ei + 1, None) :: ls). split; [reflexivity|].
        constructor; [|exact HF2]. exists None. split; [exact Hsel | reflexivity].
      + assert (Hsel : sel_of centers ct (n, m, Some s) = Ok (Some (n0, n1, bs_of_sign s))).
        { unfold sel_of, to_bond_stereo_sel. rewrite Hc, Hct, Hn, Hm. reflexivity. }
        unfold sel_of in Hsel. rewrite Hsel, Houts. exists (Some (n0, n1, bs_of_sign s) :: outs). split; [reflexivity|].
        set (E' := if sw then (yb, ya, oyb, oya) else (ya, yb, oya, oyb)).
        assert (K1 : pget ct' (rho cn, rho cm) = if sw then None else Some E') by (rewrite Hk1; unfold E'; destruct sw; reflexivity).
        assert (K2 : pget ct' (rho cm, rho cn) = if sw then Some E' else None) by (rewrite Hk2; unfold E'; destruct sw; reflexivity).
        assert (Hpat : (pget ct' (bi + 1, ei + 1) = Some E' /\ pget ct' (ei + 1, bi + 1) = None /\
                        sb + 1 = (if sw then rho z else rho x) /\ se + 1 = (if sw then rho x else rho z)) \/
                       (pget ct' (bi + 1, ei + 1) = None /\ pget ct' (ei + 1, bi + 1) = Some E' /\
                        sb + 1 = (if sw then rho x else rho z) /\ se + 1 = (if sw then rho z else rho x))).
        { destruct Hrd as [(-> & -> & -> & ->)|(-> & -> & -> & ->)]; rewrite K1, K2; destruct sw; auto. }
        destruct (bond_roundtrip_any isH isH' rho n0 n1 o2 o3 ya oya yb oyb sw c0 c1 a b0 x z s label (sb + 1) (se + 1)
                    (pget ct' (bi + 1, ei + 1)) (pget ct' (ei + 1, bi + 1)) Hok Ha Hb Hx Hz Hhx Hhz Hlab Hpat) as (_ & s' & Hfrom & Hsame).
        rewrite Hfrom, Hls. exists ((bi + 1, ei + 1, Some s') :: ls). split; [reflexivity|].
        constructor; [|exact HF2]. exists (Some (n0, n1, bs_of_sign s)). split; [exact Hsel|].
        exists s, s', cn, cm. cbn [fst snd]. repeat split; try reflexivity; try exact Hc.
        rewrite K1, K2. exact Hsame.
  Qed.
End WholeDoubleBondsFull.

(* non-vacuity: F(1)/C(2)=C(3)/Cl(4) with explicit hydrogen atoms H(5) on C(2) and H(6) on C(3): entry (2,3) -> (1, 4, None, None),
   label true.  RDKit names the HYDROGEN on the first end and the chlorine as reference atoms (so it reports the opposite
   label), runs the bond 3 -> 2, and the rebuilt molecule keys the entry (3, 2) *)
Example double_bonds_full_example :
  let isH := fun x => (x =? 5) || (x =? 6) in
  let centers := [(2, (2, 3)); (3, (2, 3))] in
  let ct := [(2, 3, (1, 4, None, None))] in
  let ct' := [(3, 2, (4, 1, None, None))] in
  let bonds := [(1, 2, None); (2, 3, Some true); (3, 4, None); (2, 5, None); (3, 6, None)] in
  let rbonds := [(0, 1, "STEREONONE", 0, 0); (2, 1, "STEREOE", 3, 4); (2, 3, "STEREONONE", 0, 0); (1, 4, "STEREONONE", 0, 0);
                 (2, 5, "STEREONONE", 0, 0)] in
  Forall2 (bond_wf_any isH isH (fun x => x) centers ct ct') bonds rbonds /\
  to_bond_labels centers ct bonds = Ok [None; Some (1, 4, "STEREOZ"); None; None; None] /\
  from_bond_labels isH ct' rbonds = Ok [(1, 2, None); (3, 2, Some true); (3, 4, None); (2, 5, None); (3, 6, None)] /\
  translate_ct isH (pget ct' (2, 3)) (pget ct' (3, 2)) 1 4 true = Ok true.
Proof.
  cbn zeta. split; [|split; [vm_compute; reflexivity | split; vm_compute; reflexivity]].
  constructor; [apply bwa_none; vm_compute; reflexivity|].
  constructor; [|repeat (constructor; [apply bwa_none; vm_compute; reflexivity|]); constructor].
  apply bwa_label with (cn := 2) (cm := 3) (n0 := 1) (n1 := 4) (o2 := None) (o3 := None) (ya := 1) (oya := None) (yb := 4) (oyb := None)
                       (sw := true) (c0 := false) (c1 := false) (a := true) (b := false) (x := 5) (z := 4);
    try (vm_compute; reflexivity); try (cbn; tauto).
  all: try (unfold env_ok; cbn; repeat split; try discriminate; try lia; intros; discriminate).
  all: try (unfold end_image; cbn; auto).
  all: try (right; repeat split; vm_compute; reflexivity).
  all: try (intros; vm_compute; reflexivity).
Qed.
