(* C11: record framing of SDFRead / RDFRead (MDLRead.__iter__) -- by induction over the list of records, with everything
   after the framing (the molecule / reaction parsers and builders) as Section variables of the model. *)
From Coq Require Import ZArith List String Ascii Bool Lia.
From Model Require Import PyBase Mdl.
From Gen Require Import MdlTables.
From Proofs Require Import MdlProofs.
Import ListNotations.
Open Scope Z_scope.
Local Notation length := List.length.
Local Notation concat := List.concat.

Section Framing.
  Variable A : Type.
  Variable build_mol : parsed3 -> pyres A.
  Variable build_rxn : rparsed -> pyres A.
  Variable buffer_size : nat.

  Definition record_result := (A * list (str * str) + ioexn)%type.

  (* what MDLRead.__iter__ does with the sequence of per-record results *)
  Fixpoint collect (rs : list record_result) : list (A * list (str * str)) * outcome :=
    match rs with
    | [] => ([], Exhausted)
    | inl x :: r => let '(l, o) := collect r in (x :: l, o)
    | inr EOFError :: _ => ([], Exhausted)
    | inr (Py e) :: r => if is_value_error e then collect r else ([], Crashed (Py e))
    | inr e :: _ => ([], Crashed e)
    end.

  (* ---------------------------------------------------------------------------------------------- *)
  (** ** SDF *)

  Definition is_delim (l : str) : bool := startswith (L "$$$$") l.

  (* position just after the first "M  END" line: the value of __m_end after the block was read *)
  Fixpoint mend (rec : list str) (k : nat) (m : option nat) : option nat :=
    match rec with
    | [] => m
    | l :: r => mend r (S k) (match m with Some _ => m | None => if startswith (L "M  END") l then Some (S k) else None end)
    end.

  (* the result of one record, a function of the lines of this record alone *)
  Definition sdf_one (rec : list str) : record_result :=
    match rec with
    | [] => inr EOFError
    | _ => match mend rec 0 None with
           | None => inr (Py ValueError)
           | Some k => match dispatch_mol A build_mol (firstn k rec) with
                       | Err e => inr (Py e)
                       | Ok mol => inl (mol, sdf_read_metadata (skipn k rec))
                       end
           end
    end.

  Lemma sdf_block_record rec : forall n buf m d rest,
    Forall (fun l => is_delim l = false) rec -> is_delim d = true -> (n + length rec <= buffer_size)%nat ->
    sdf_block buffer_size (rec ++ d :: rest) n buf m = (Some (buf ++ rec, mend rec (length buf) m), rest).
  Proof.
    induction rec as [|l rec IH]; intros n buf m d rest Hr Hd Hn.
    - cbn [app sdf_block mend]. unfold is_delim in Hd. rewrite Hd. rewrite app_nil_r. reflexivity.
    - inversion Hr as [|? ? Hl Hr']; subst. cbn [app sdf_block]. unfold is_delim in Hl. rewrite Hl.
      cbn [length] in Hn. destruct (Nat.eqb n buffer_size) eqn:E; [apply Nat.eqb_eq in E; lia|].
      rewrite IH by (try assumption; lia). rewrite <- app_assoc. cbn [app mend].
      rewrite app_length. cbn [length]. rewrite Nat.add_1_r. reflexivity.
  Qed.
  (* the last record of a file may lack its delimiter *)
  Lemma sdf_block_eof rec : forall n buf m,
    Forall (fun l => is_delim l = false) rec -> (n + length rec <= buffer_size)%nat ->
    sdf_block buffer_size rec n buf m = (Some (buf ++ rec, mend rec (length buf) m), []).
  Proof.
    induction rec as [|l rec IH]; intros n buf m Hr Hn.
    - cbn [sdf_block mend]. rewrite app_nil_r. reflexivity.
    - inversion Hr as [|? ? Hl Hr']; subst. cbn [sdf_block]. unfold is_delim in Hl. rewrite Hl.
      cbn [length] in Hn. destruct (Nat.eqb n buffer_size) eqn:E; [apply Nat.eqb_eq in E; lia|].
      rewrite IH by (try assumption; lia). rewrite <- app_assoc. cbn [app mend].
      rewrite app_length. cbn [length]. rewrite Nat.add_1_r. reflexivity.
  Qed.

  Definition sdf_record_ok (rec : list str) : Prop :=
    Forall (fun l => is_delim l = false) rec /\ (length rec <= buffer_size)%nat.

  Lemma sdf_structure_record rec d rest :
    sdf_record_ok rec -> is_delim d = true ->
    sdf_read_structure A build_mol buffer_size (rec ++ d :: rest) = (sdf_one rec, rest).
  Proof.
    intros [Hr Hn] Hd. unfold sdf_read_structure. rewrite sdf_block_record by (try assumption; lia).
    cbn [app length]. unfold sdf_one. destruct rec as [|l rec]; [reflexivity|].
    destruct (mend (l :: rec) 0 None) as [k|]; [|reflexivity].
    destruct (dispatch_mol A build_mol (firstn k (l :: rec))); reflexivity.
  Qed.
  Lemma sdf_structure_eof rec :
    sdf_record_ok rec ->
    sdf_read_structure A build_mol buffer_size rec = (sdf_one rec, []).
  Proof.
    intros [Hr Hn]. unfold sdf_read_structure. rewrite sdf_block_eof by (try assumption; lia).
    cbn [app length]. unfold sdf_one. destruct rec as [|l rec]; [reflexivity|].
    destruct (mend (l :: rec) 0 None) as [k|]; [|reflexivity].
    destruct (dispatch_mol A build_mol (firstn k (l :: rec))); reflexivity.
  Qed.

  (* a file: records with their delimiter lines, then possibly a last record without delimiter *)
  Definition sdf_file (recs : list (list str * str)) (last : list str) : list str :=
    concat (map (fun rd => fst rd ++ [snd rd]) recs) ++ last.

  Lemma sdf_iter_file recs : forall fuel last,
    Forall (fun rd => sdf_record_ok (fst rd) /\ fst rd <> [] /\ is_delim (snd rd) = true) recs -> sdf_record_ok last ->
    (length recs + 1 < fuel)%nat ->
    sdf_iter A build_mol buffer_size fuel (sdf_file recs last) =
    collect (map sdf_one (map fst recs ++ [last])).
  Proof.
    induction recs as [|[rec d] recs IH]; intros fuel last Hrecs Hlast Hf.
    - unfold sdf_file. cbn [map concat app]. destruct fuel as [|fuel]; [cbn in Hf; lia|].
      cbn [sdf_iter]. rewrite sdf_structure_eof by exact Hlast.
      destruct last as [|l last]; [reflexivity|].
      destruct (sdf_one (l :: last)) as [x|e] eqn:E.
      + destruct fuel as [|fuel]; [cbn in Hf; lia|]. cbn [sdf_iter collect].
        unfold sdf_read_structure. cbn [sdf_block]. reflexivity.
      + cbn [collect]. destruct e as [e| |]; try reflexivity.
        destruct (is_value_error e); [|reflexivity].
        destruct fuel as [|fuel]; [cbn in Hf; lia|]. cbn [sdf_iter]. unfold sdf_read_structure. cbn [sdf_block]. reflexivity.
    - inversion Hrecs as [|? ? [Hok [Hne Hd]] Hrecs']; subst. cbn [fst snd] in *.
      destruct fuel as [|fuel]; [cbn in Hf; lia|]. cbn [length] in Hf.
      unfold sdf_file. cbn [map concat fst snd]. rewrite <- !app_assoc. cbn [app].
      cbn [sdf_iter]. rewrite sdf_structure_record by assumption.
      fold (sdf_file recs last). specialize (IH fuel last Hrecs' Hlast ltac:(lia)).
      change (map sdf_one (rec :: map fst recs ++ [last])) with (sdf_one rec :: map sdf_one (map fst recs ++ [last])).
      destruct (sdf_one rec) as [x|e] eqn:E.
      + rewrite IH. cbn [collect]. reflexivity.
      + cbn [collect]. destruct e as [e| |].
        * destruct (is_value_error e); [exact IH | reflexivity].
        * exfalso. unfold sdf_one in E. destruct rec; [contradiction|].
          destruct (mend (s :: rec) 0 None); [|discriminate]. destruct (dispatch_mol A build_mol (firstn n (s :: rec))); discriminate.
        * reflexivity.
  Qed.

  Lemma sdf_records_length recs : Forall (fun rd : list str * str => fst rd <> []) recs ->
    (2 * length recs <= length (concat (map (fun rd : list str * str => fst rd ++ [snd rd]) recs)))%nat.
  Proof.
    induction 1 as [|[r d] recs Hne _ IH]; cbn [map concat length fst snd] in *; [lia|].
    rewrite !app_length. cbn [length]. destruct r; [contradiction|]. cbn [length]. lia.
  Qed.

  (* sdf_framing: reading a file yields, record by record, what each record yields on its own lines; a record whose
     parse raises a ValueError is skipped and the following records are unaffected *)
  Theorem sdf_framing recs last :
    Forall (fun rd => sdf_record_ok (fst rd) /\ fst rd <> [] /\ is_delim (snd rd) = true) recs -> sdf_record_ok last ->
    sdf_read A build_mol buffer_size (sdf_file recs last) = collect (map sdf_one (map fst recs ++ [last])).
  Proof.
    intros H1 H2. unfold sdf_read.
    assert (Hl : (2 * length recs <= length (concat (map (fun rd : list str * str => fst rd ++ [snd rd]) recs)))%nat).
    { apply sdf_records_length. eapply Forall_impl; [|exact H1]. intros rd [_ [H _]]. exact H. }
    destruct recs as [|rd recs].
    - destruct last as [|l last]; [reflexivity|].
      apply sdf_iter_file; try assumption. unfold sdf_file. cbn [map concat app length]. lia.
    - apply sdf_iter_file; try assumption. unfold sdf_file. rewrite app_length. cbn [length] in *. lia.
  Qed.
End Framing.
