(* C11: record framing of SDFRead / RDFRead (MDLRead.__iter__) -- by induction over the list of records, with everything
   after the framing (the molecule / reaction parsers and builders) as Section variables of the model. *)
From Coq Require Import ZArith List String Ascii Bool Lia.
From Model Require Import PyBase Mdl.
From Gen Require Import MdlTables.
From Proofs Require Import MdlProofs.
Import ListNotations.
Open Scope Z_scope.
Local Notation length := List.length.
Local Notation concat := List.concat.

Section Framing.
  Variable A : Type.
  Variable build_mol : parsed3 -> pyres A.
  Variable build_rxn : rparsed -> pyres A.
  Variable buffer_size : nat.

  Definition record_result := (A * list (str * str) + ioexn)%type.

  (* what MDLRead.__iter__ does with the sequence of per-record results *)
  Fixpoint collect (rs : list record_result) : list (A * list (str * str)) * outcome :=
    match rs with
    | [] => ([], Exhausted)
    | inl x :: r => let '(l, o) := collect r in (x :: l, o)
    | inr EOFError :: _ => ([], Exhausted)
    | inr (Py e) :: r => if is_skipped e then collect r else ([], Crashed (Py e))
    | inr e :: _ => ([], Crashed e)
    end.

  (* ---------------------------------------------------------------------------------------------- *)
  (** ** SDF *)

  Definition is_delim (l : str) : bool := startswith (L "$$$$") l.

  (* position just after the first "M  END" line: the value of __m_end after the block was read *)
  Fixpoint mend (rec : list str) (k : nat) (m : option nat) : option nat :=
    match rec with
    | [] => m
    | l :: r => mend r (S k) (match m with Some _ => m | None => if startswith (L "M  END") l then Some (S k) else None end)
    end.

  (* the result of one record, a function of the lines of this record alone (and of whether a delimiter line ended it:
     an empty record before a delimiter is an invalid record, an empty tail of the file is the end of the file) *)
  Definition sdf_one (delimited : bool) (rec : list str) : record_result :=
    match rec with
    | [] => if delimited then inr (Py ValueError) else inr EOFError
    | _ => match mend rec 0 None with
           | None => inr (Py ValueError)
           | Some k => match dispatch_mol A build_mol (firstn k rec) with
                       | Err e => inr (Py e)
                       | Ok mol => inl (mol, sdf_read_metadata (skipn k rec))
                       end
           end
    end.

  Lemma sdf_block_record rec : forall n buf m d rest,
    Forall (fun l => is_delim l = false) rec -> is_delim d = true -> (n + length rec <= buffer_size)%nat ->
    sdf_block buffer_size (rec ++ d :: rest) n buf m = (Some (buf ++ rec, mend rec (length buf) m, true), rest).
  Proof.
    induction rec as [|l rec IH]; intros n buf m d rest Hr Hd Hn.
    - cbn [app sdf_block mend]. unfold is_delim in Hd. rewrite Hd. rewrite app_nil_r. reflexivity.
    - inversion Hr as [|? ? Hl Hr']; subst. cbn [app sdf_block]. unfold is_delim in Hl. rewrite Hl.
      cbn [length] in Hn. destruct (Nat.eqb n buffer_size) eqn:E; [apply Nat.eqb_eq in E; lia|].
      rewrite IH by (try assumption; lia). rewrite <- app_assoc. cbn [app mend].
      rewrite app_length. cbn [length]. rewrite Nat.add_1_r. reflexivity.
  Qed.
  (* the last record of a file may lack its delimiter *)
  Lemma sdf_block_eof rec : forall n buf m,
    Forall (fun l => is_delim l = false) rec -> (n + length rec <= buffer_size)%nat ->
    sdf_block buffer_size rec n buf m = (Some (buf ++ rec, mend rec (length buf) m, false), []).
  Proof.
    induction rec as [|l rec IH]; intros n buf m Hr Hn.
    - cbn [sdf_block mend]. rewrite app_nil_r. reflexivity.
    - inversion Hr as [|? ? Hl Hr']; subst. cbn [sdf_block]. unfold is_delim in Hl. rewrite Hl.
      cbn [length] in Hn. destruct (Nat.eqb n buffer_size) eqn:E; [apply Nat.eqb_eq in E; lia|].
      rewrite IH by (try assumption; lia). rewrite <- app_assoc. cbn [app mend].
      rewrite app_length. cbn [length]. rewrite Nat.add_1_r. reflexivity.
  Qed.

  Definition sdf_record_ok (rec : list str) : Prop :=
    Forall (fun l => is_delim l = false) rec /\ (length rec <= buffer_size)%nat.

  Lemma sdf_structure_record rec d rest :
    sdf_record_ok rec -> is_delim d = true ->
    sdf_read_structure A build_mol buffer_size (rec ++ d :: rest) = (sdf_one true rec, rest).
  Proof.
    intros [Hr Hn] Hd. unfold sdf_read_structure. rewrite sdf_block_record by (try assumption; lia).
    cbn [app length]. unfold sdf_one. destruct rec as [|l rec]; [reflexivity|].
    destruct (mend (l :: rec) 0 None) as [k|]; [|reflexivity].
    destruct (dispatch_mol A build_mol (firstn k (l :: rec))); reflexivity.
  Qed.
  Lemma sdf_structure_eof rec :
    sdf_record_ok rec ->
    sdf_read_structure A build_mol buffer_size rec = (sdf_one false rec, []).
  Proof.
    intros [Hr Hn]. unfold sdf_read_structure. rewrite sdf_block_eof by (try assumption; lia).
    cbn [app length]. unfold sdf_one. destruct rec as [|l rec]; [reflexivity|].
    destruct (mend (l :: rec) 0 None) as [k|]; [|reflexivity].
    destruct (dispatch_mol A build_mol (firstn k (l :: rec))); reflexivity.
  Qed.

  Lemma sdf_one_not_eof b rec : (b = true \/ rec <> []) -> sdf_one b rec <> inr EOFError.
  Proof.
    intros H. unfold sdf_one. destruct rec as [|l rec].
    - destruct H as [-> | H]; [discriminate | contradiction].
    - destruct (mend (l :: rec) 0 None); [|discriminate]. destruct (dispatch_mol A build_mol (firstn n (l :: rec))); discriminate.
  Qed.

  (* a file: records (possibly EMPTY ones) with their delimiter lines, then possibly a last record without delimiter *)
  Definition sdf_file (recs : list (list str * str)) (last : list str) : list str :=
    concat (map (fun rd => fst rd ++ [snd rd]) recs) ++ last.
  Definition sdf_results (recs : list (list str * str)) (last : list str) : list record_result :=
    map (sdf_one true) (map fst recs) ++ [sdf_one false last].

  Lemma sdf_iter_file recs : forall fuel last,
    Forall (fun rd => sdf_record_ok (fst rd) /\ is_delim (snd rd) = true) recs -> sdf_record_ok last ->
    (length recs + (match last with [] => 0 | _ => 1 end) < fuel)%nat ->
    sdf_iter A build_mol buffer_size fuel (sdf_file recs last) = collect (sdf_results recs last).
  Proof.
    induction recs as [|[rec d] recs IH]; intros fuel last Hrecs Hlast Hf.
    - unfold sdf_file, sdf_results. cbn [map concat app]. destruct fuel as [|fuel]; [lia|].
      cbn [sdf_iter]. rewrite sdf_structure_eof by exact Hlast.
      destruct last as [|l last]; [reflexivity|].
      assert (Hne : sdf_one false (l :: last) <> inr EOFError) by (apply sdf_one_not_eof; right; discriminate).
      assert (E0 : sdf_iter A build_mol buffer_size fuel [] = ([], Exhausted)).
      { destruct fuel as [|fuel]; [cbn [length] in Hf; lia|]. reflexivity. }
      destruct (sdf_one false (l :: last)) as [x|[e| |]]; cbn [collect].
      + rewrite E0. reflexivity.
      + destruct (is_skipped e); [exact E0 | reflexivity].
      + contradiction.
      + reflexivity.
    - inversion Hrecs as [|? ? [Hok Hd] Hrecs']; subst. cbn [fst snd] in *.
      destruct fuel as [|fuel]; [lia|]. cbn [length] in Hf.
      unfold sdf_file, sdf_results. cbn [map concat fst snd]. rewrite <- !app_assoc. cbn [app].
      cbn [sdf_iter]. rewrite sdf_structure_record by assumption.
      fold (sdf_file recs last). fold (sdf_results recs last).
      specialize (IH fuel last Hrecs' Hlast ltac:(lia)).
      assert (Hne : sdf_one true rec <> inr EOFError) by (apply sdf_one_not_eof; left; reflexivity).
      destruct (sdf_one true rec) as [x|[e| |]]; cbn [collect].
      + rewrite IH. reflexivity.
      + destruct (is_skipped e); [exact IH | reflexivity].
      + contradiction.
      + reflexivity.
  Qed.

  Lemma sdf_records_length (recs : list (list str * str)) :
    (length recs <= length (concat (map (fun rd : list str * str => fst rd ++ [snd rd]) recs)))%nat.
  Proof.
    induction recs as [|[r d] recs IH]; cbn [map concat length fst snd] in *; [lia|].
    rewrite !app_length. cbn [length]. lia.
  Qed.

  (* sdf_framing: reading a file yields, record by record, what each record yields on its own lines; a record whose parse
     raises a ValueError or an IndexError - an EMPTY record included - is skipped and the following records are unaffected *)
  Theorem sdf_framing recs last :
    Forall (fun rd => sdf_record_ok (fst rd) /\ is_delim (snd rd) = true) recs -> sdf_record_ok last ->
    sdf_read A build_mol buffer_size (sdf_file recs last) = collect (sdf_results recs last).
  Proof.
    intros H1 H2. unfold sdf_read. apply sdf_iter_file; try assumption.
    pose proof (sdf_records_length recs) as Hl. unfold sdf_file. rewrite app_length.
    destruct last; cbn [length]; lia.
  Qed.

  (* the readable consequence: when every record either parses or fails with a ValueError / IndexError (what MDLRead.__iter__
     skips), the reader yields exactly the parsable records, in order, and ends normally *)
  Definition skippable (r : record_result) : Prop :=
    match r with inl _ => True | inr (Py e) => is_skipped e = true | inr EOFError => True | inr _ => False end.
  Definition successes (rs : list record_result) : list (A * list (str * str)) :=
    flat_map (fun r => match r with inl x => [x] | inr _ => [] end) rs.
  Lemma collect_skippable rs : Forall (fun r => skippable r /\ r <> inr EOFError) rs -> collect rs = (successes rs, Exhausted).
  Proof.
    induction 1 as [|r rs [Hr Hn] _ IH]; [reflexivity|]. destruct r as [x|[e| |]]; cbn [collect successes flat_map app] in *.
    - rewrite IH. reflexivity.
    - rewrite Hr. exact IH.
    - contradiction.
    - contradiction.
  Qed.
  Corollary sdf_damaged_records_skipped recs last :
    Forall (fun rd => sdf_record_ok (fst rd) /\ is_delim (snd rd) = true) recs -> sdf_record_ok last ->
    Forall skippable (sdf_results recs last) ->
    sdf_read A build_mol buffer_size (sdf_file recs last) = (successes (sdf_results recs last), Exhausted).
  Proof.
    intros H1 H2 H3. rewrite sdf_framing by assumption. unfold sdf_results in *.
    apply Forall_app in H3. destruct H3 as [H3 H4]. inversion H4 as [|? ? H5 _]; subst.
    assert (G : forall rs r, Forall (fun r => skippable r /\ r <> inr EOFError) rs -> skippable r ->
                collect (rs ++ [r]) = (successes (rs ++ [r]), Exhausted)).
    { intros rs r Hrs Hr. destruct r as [x|[e| |]].
      - apply collect_skippable. apply Forall_app. split; [exact Hrs | repeat constructor; discriminate].
      - apply collect_skippable. apply Forall_app. split; [exact Hrs | repeat constructor; [exact Hr | discriminate]].
      - unfold successes. rewrite flat_map_app. cbn [flat_map app]. rewrite app_nil_r. fold (successes rs).
        rewrite <- collect_skippable by exact Hrs. clear. induction rs as [|r rs IH]; [reflexivity|].
        destruct r as [x|[e| |]]; cbn [app collect]; try reflexivity; [rewrite IH; reflexivity | destruct (is_skipped e); [exact IH | reflexivity]].
      - contradiction. }
    apply G; [|exact H5].
    rewrite Forall_forall in *. intros r Hin. split; [apply H3; exact Hin|].
    apply in_map_iff in Hin. destruct Hin as [rec [<- _]]. apply sdf_one_not_eof. left. reflexivity.
  Qed.

  (* ---------------------------------------------------------------------------------------------- *)
  (** ** RDF *)

  Definition is_dtype (l : str) : bool := startswith (L "$DTYPE") l.
  (* __m_start after the block was read: the buffer position of the first "$DTYPE" line seen while m_start was falsy *)
  Fixpoint mscan (body : list str) (k : nat) (m : option nat) : option nat :=
    match body with
    | [] => m
    | l :: r => mscan r (S k) (if falsy m && is_dtype l then Some k else m)
    end.

  Definition rdf_one (body : list str) : record_result :=
    match body with
    | [] => inr EOFError
    | _ => let m := mscan body 0 None in
           let meta := rdf_read_metadata (if falsy m then [] else skipn (match m with Some k => k | None => 0%nat end) body) in
           match rdf_dispatch A build_mol build_rxn body with
           | Err e => inr (Py e)
           | Ok x => inl (x, meta)
           end
    end.

  (* the records of a file after the first $RFMT/$MFMT line: the first body, then (format line, body) pairs *)
  Definition rdf_tail (recs : list (str * list str)) : list str := concat (map (fun fb => fst fb :: snd fb) recs).
  Definition rdf_rest (recs : list (str * list str)) : list str :=
    match recs with [] => [] | fb :: r => snd fb ++ rdf_tail r end.

  Lemma startswith_true p : forall l, startswith p l = true -> exists r, l = p ++ r.
  Proof.
    induction p as [|a p IH]; intros l H; [exists l; reflexivity|].
    destruct l as [|b l]; [discriminate|]. cbn [startswith] in H. apply andb_prop in H. destruct H as [H1 H2].
    apply Ascii.eqb_eq in H1. subst b. destruct (IH l H2) as [r ->]. exists r. reflexivity.
  Qed.
  Lemma is_fmt_cases l : is_fmt l = true -> exists r, l = L "$RFMT" ++ r \/ l = L "$MFMT" ++ r.
  Proof.
    unfold is_fmt. intros H. apply orb_prop in H. destruct H as [H|H]; apply startswith_true in H; destruct H as [r ->]; exists r; [left|right]; reflexivity.
  Qed.
  Lemma is_fmt_not_dtype l : is_fmt l = true -> is_dtype l = false.
  Proof. intros H. destruct (is_fmt_cases l H) as [r [-> | ->]]; reflexivity. Qed.
  Lemma rdf_block_body body : forall n buf m recs,
    Forall (fun l => is_fmt l = false) body -> Forall (fun fb => is_fmt (fst fb) = true) recs ->
    (n + length body < buffer_size)%nat -> buf ++ body <> [] ->
    rdf_block buffer_size (body ++ rdf_tail recs) n false buf m = (Some (buf ++ body, mscan body (length buf) m), rdf_rest recs).
  Proof.
    induction body as [|l body IH]; intros n buf m recs Hb Hr Hn Hne.
    - cbn [app mscan]. rewrite app_nil_r in *. destruct recs as [|[f b] recs]; [reflexivity|].
      inversion Hr as [|? ? Hf _]; subst. cbn [fst] in Hf.
      unfold rdf_tail. cbn [map concat fst snd app rdf_block rdf_rest].
      destruct (Nat.eqb n buffer_size) eqn:E; [apply Nat.eqb_eq in E; cbn [length] in Hn; lia|].
      pose proof (is_fmt_not_dtype f Hf) as Hd. unfold is_dtype in Hd. rewrite Hd, andb_false_r, Hf.
      destruct buf; [contradiction | reflexivity].
    - inversion Hb as [|? ? Hl Hb']; subst. cbn [app rdf_block]. cbn [length] in Hn.
      destruct (Nat.eqb n buffer_size) eqn:E; [apply Nat.eqb_eq in E; lia|].
      cbn [mscan]. unfold is_dtype.
      assert (Hne' : (buf ++ [l]) ++ body <> []) by (destruct buf; discriminate).
      destruct (falsy m && startswith (L "$DTYPE") l) eqn:Ed.
      + rewrite IH by (try assumption; lia). rewrite <- app_assoc. cbn [app]. rewrite app_length. cbn [length]. rewrite Nat.add_1_r. reflexivity.
      + rewrite Hl. rewrite IH by (try assumption; lia). rewrite <- app_assoc. cbn [app]. rewrite app_length. cbn [length]. rewrite Nat.add_1_r. reflexivity.
  Qed.

  (* the header of the file (everything before the first format line) is dropped by the first read *)
  Lemma rdf_block_header header : forall n f rest,
    Forall (fun l => is_fmt l = false /\ startswith (L "$RXN") l = false) header -> is_fmt f = true -> startswith (L "$RXN") f = false ->
    rdf_block buffer_size (header ++ f :: rest) n true [] None = rdf_block buffer_size rest (S (n + length header)) false [] None.
  Proof.
    induction header as [|l header IH]; intros n f rest Hh Hf Hx.
    - cbn [app rdf_block length]. rewrite Hx, Hf. rewrite Nat.add_0_r. reflexivity.
    - inversion Hh as [|? ? [H1 H2] Hh']; subst. cbn [app rdf_block]. rewrite H2, H1. rewrite IH by assumption.
      cbn [length]. f_equal. lia.
  Qed.
  Lemma is_fmt_not_rxn f : is_fmt f = true -> startswith (L "$RXN") f = false.
  Proof. intros H. destruct (is_fmt_cases f H) as [r [-> | ->]]; reflexivity. Qed.

  Definition rdf_body_ok (extra : nat) (body : list str) : Prop :=
    Forall (fun l => is_fmt l = false) body /\ (extra + length body < buffer_size)%nat.

  Lemma rdf_structure_next tell body recs :
    tell <> 0%nat -> rdf_body_ok 0 body -> body <> [] -> Forall (fun fb => is_fmt (fst fb) = true) recs ->
    rdf_read_structure A build_mol build_rxn buffer_size tell (body ++ rdf_tail recs) = (rdf_one body, rdf_rest recs).
  Proof.
    intros Ht [Hb Hn] Hne Hr. unfold rdf_read_structure.
    replace (Nat.eqb tell 0) with false by (symmetry; apply Nat.eqb_neq; exact Ht).
    rewrite rdf_block_body by assumption. cbn [app length]. unfold rdf_one.
    destruct body as [|l body]; [reflexivity|]. cbv zeta.
    destruct (rdf_dispatch A build_mol build_rxn (l :: body)); reflexivity.
  Qed.
  Lemma rdf_structure_first header f body recs :
    Forall (fun l => is_fmt l = false /\ startswith (L "$RXN") l = false) header -> is_fmt f = true ->
    rdf_body_ok (S (length header)) body -> body <> [] -> Forall (fun fb => is_fmt (fst fb) = true) recs ->
    rdf_read_structure A build_mol build_rxn buffer_size 0 (header ++ f :: body ++ rdf_tail recs) = (rdf_one body, rdf_rest recs).
  Proof.
    intros Hh Hf [Hb Hn] Hne Hr. unfold rdf_read_structure. cbn [Nat.eqb].
    rewrite rdf_block_header by (try assumption; apply is_fmt_not_rxn; exact Hf).
    rewrite rdf_block_body by (try assumption; lia). cbn [app length]. unfold rdf_one.
    destruct body as [|l body]; [reflexivity|]. cbv zeta.
    destruct (rdf_dispatch A build_mol build_rxn (l :: body)); reflexivity.
  Qed.

  Lemma rdf_one_not_eof body : body <> [] -> rdf_one body <> inr EOFError.
  Proof.
    intros H. unfold rdf_one. destruct body; [contradiction|]. cbv zeta.
    destruct (rdf_dispatch A build_mol build_rxn (s :: body)); discriminate.
  Qed.

  Lemma rdf_iter_rest recs : forall fuel tell,
    tell <> 0%nat ->
    Forall (fun fb => is_fmt (fst fb) = true /\ rdf_body_ok 0 (snd fb) /\ snd fb <> []) recs ->
    (length recs < fuel)%nat ->
    rdf_iter A build_mol build_rxn buffer_size fuel tell (rdf_rest recs) = collect (map rdf_one (map snd recs)).
  Proof.
    induction recs as [|[f body] recs IH]; intros fuel tell Ht Hr Hf.
    - destruct fuel as [|fuel]; [cbn in Hf; lia|]. cbn [rdf_rest rdf_iter map collect].
      unfold rdf_read_structure. replace (Nat.eqb tell 0) with false by (symmetry; apply Nat.eqb_neq; exact Ht). reflexivity.
    - inversion Hr as [|? ? [H1 [H2 H3]] Hr']; subst. cbn [fst snd] in *.
      destruct fuel as [|fuel]; [cbn in Hf; lia|]. cbn [length] in Hf.
      cbn [rdf_rest snd rdf_iter]. rewrite rdf_structure_next; try assumption.
      2:{ eapply Forall_impl; [|exact Hr']. intros fb [H _]. exact H. }
      specialize (IH fuel (S tell) ltac:(lia) Hr' ltac:(lia)).
      cbn [map snd]. pose proof (rdf_one_not_eof body H3) as Hne.
      destruct (rdf_one body) as [x|[e| |]]; cbn [collect].
      + rewrite IH. reflexivity.
      + destruct (is_skipped e); [exact IH | reflexivity].
      + contradiction.
      + reflexivity.
  Qed.

  (* a whole RDF file: header lines, then records = (format line, body) *)
  Definition rdf_file (header : list str) (recs : list (str * list str)) : list str := header ++ rdf_tail recs.

  (* rdf_framing: every record yields what its own lines yield; a record whose parse raises a ValueError is skipped and the
     following ones are unaffected *)
  Theorem rdf_framing header recs :
    Forall (fun l => is_fmt l = false /\ startswith (L "$RXN") l = false) header ->
    Forall (fun fb => is_fmt (fst fb) = true /\ rdf_body_ok (S (length header)) (snd fb) /\ snd fb <> []) recs ->
    rdf_read A build_mol build_rxn buffer_size (rdf_file header recs) = collect (map rdf_one (map snd recs)).
  Proof.
    intros Hh Hr. unfold rdf_read, rdf_file.
    destruct recs as [|[f body] recs].
    - (* no record: the header is dropped and the file ends *)
      unfold rdf_tail. cbn [map concat]. rewrite app_nil_r. cbn [rdf_iter map collect].
      unfold rdf_read_structure. cbn [Nat.eqb].
      assert (E : forall n, rdf_block buffer_size header n true [] None = (Some ([], None), [])).
      { clear - Hh. induction Hh as [|l header [H1 H2] _ IH]; intros n; [reflexivity|]. cbn [rdf_block]. rewrite H2, H1. apply IH. }
      rewrite E. reflexivity.
    - inversion Hr as [|? ? [H1 [H2 H3]] Hr']; subst. cbn [fst snd] in *.
      unfold rdf_tail. cbn [map concat fst snd]. fold (rdf_tail recs). cbn [app].
      remember (length (header ++ f :: body ++ rdf_tail recs)) as fuel eqn:Efuel. cbn [rdf_iter].
      assert (Hr'' : Forall (fun fb : str * list str => is_fmt (fst fb) = true /\ rdf_body_ok 0 (snd fb) /\ snd fb <> []) recs).
      { eapply Forall_impl; [|exact Hr']. intros fb [Ha [[Hb Hc] Hd]]. repeat split; try assumption. lia. }
      rewrite rdf_structure_first; try assumption.
      2:{ eapply Forall_impl; [|exact Hr']. intros fb [H _]. exact H. }
      assert (IH : rdf_iter A build_mol build_rxn buffer_size fuel 1 (rdf_rest recs) =
                   collect (map rdf_one (map snd recs))).
      { apply rdf_iter_rest; [lia | exact Hr'' |]. subst fuel. rewrite app_length. cbn [length]. rewrite app_length.
        assert (length recs <= length (rdf_tail recs))%nat.
        { clear. unfold rdf_tail. induction recs as [|[a b] recs IH]; cbn [map concat length fst snd]; [lia|]. rewrite app_length. cbn [length]. lia. }
        lia. }
      cbn [map snd]. pose proof (rdf_one_not_eof body H3) as Hne.
      destruct (rdf_one body) as [x|[e| |]]; cbn [collect].
      + rewrite IH. reflexivity.
      + destruct (is_skipped e); [exact IH | reflexivity].
      + contradiction.
      + reflexivity.
  Qed.
End Framing.

(* ------------------------------------------------------------------------------------------------ *)
(** * what one written record yields: the MOL block goes to the parser, the lines after "M  END" to read_metadata *)
Section Split.
  Variable A : Type.
  Variable build_mol : parsed3 -> pyres A.
  Variable build_rxn : rparsed -> pyres A.

  Definition is_mend (l : str) : bool := startswith (L "M  END") l.

  Lemma mend_found ml : forall k e rest, Forall (fun l => is_mend l = false) ml -> is_mend e = true ->
    mend (ml ++ e :: rest) k None = Some (S (k + length ml)).
  Proof.
    induction ml as [|l ml IH]; intros k e rest Hml He.
    - cbn [app mend length]. unfold is_mend in He. rewrite He. rewrite Nat.add_0_r.
      clear. generalize (S k) at 1. generalize (S k). induction rest as [|x rest IH]; intros v n; [reflexivity|]. cbn [mend]. apply IH.
    - inversion Hml as [|? ? Hl Hml']; subst. cbn [app mend]. unfold is_mend in Hl. rewrite Hl.
      rewrite IH by assumption. cbn [length]. f_equal. lia.
  Qed.

  (* an SDF record = MOL lines (none starts with "M  END"), the "M  END" line, metadata lines *)
  Theorem sdf_record_split b ml e metal :
    Forall (fun l => is_mend l = false) ml -> is_mend e = true ->
    sdf_one A build_mol b (ml ++ e :: metal) =
    match dispatch_mol A build_mol (ml ++ [e]) with
    | Err x => inr (Py x)
    | Ok mol => inl (mol, sdf_read_metadata metal)
    end.
  Proof.
    intros Hml He. unfold sdf_one. destruct (ml ++ e :: metal) as [|x r] eqn:E; [destruct ml; discriminate|]. rewrite <- E.
    rewrite mend_found by assumption. cbn [Nat.add].
    assert (E1 : firstn (S (length ml)) (ml ++ e :: metal) = ml ++ [e]).
    { clear. induction ml as [|l ml IH]; cbn [length app firstn]; [reflexivity|]. f_equal. exact IH. }
    assert (E2 : skipn (S (length ml)) (ml ++ e :: metal) = metal).
    { clear. induction ml as [|l ml IH]; cbn [length app skipn]; [reflexivity|]. exact IH. }
    rewrite E1, E2. reflexivity.
  Qed.

  (* an RDF record body = structure lines (no "$DTYPE" line), then the metadata lines starting with a "$DTYPE" line *)
  Lemma mscan_none sl : forall k, Forall (fun l => is_dtype l = false) sl -> mscan sl k None = None.
  Proof.
    induction sl as [|l sl IH]; intros k H; [reflexivity|]. inversion H as [|? ? Hl H']; subst.
    cbn [mscan falsy andb]. rewrite Hl. apply IH. exact H'.
  Qed.
  Lemma mscan_keep metal : forall k j, mscan metal k (Some (S j)) = Some (S j).
  Proof. induction metal as [|l metal IH]; intros k j; [reflexivity|]. cbn [mscan falsy andb]. apply IH. Qed.
  Lemma mscan_found sl : forall d metal, Forall (fun l => is_dtype l = false) sl -> is_dtype d = true -> sl <> [] ->
    mscan (sl ++ d :: metal) 0 None = Some (length sl).
  Proof.
    intros d metal Hs Hd Hne.
    assert (G : forall sl k, Forall (fun l => is_dtype l = false) sl -> mscan (sl ++ d :: metal) k None =
                              match (k + length sl)%nat with O => mscan metal 1 (Some 0%nat) | S j => Some (S j) end).
    { clear - Hd. induction sl as [|l sl IH]; intros k H.
      - cbn [app mscan falsy andb length]. rewrite Hd. rewrite Nat.add_0_r. destruct k; [reflexivity|]. apply mscan_keep.
      - inversion H as [|? ? Hl H']; subst. cbn [app mscan falsy andb]. rewrite Hl. rewrite IH by exact H'. cbn [length].
        replace (S k + length sl)%nat with (k + S (length sl))%nat by lia. reflexivity. }
    rewrite G by exact Hs. cbn [Nat.add]. destruct sl; [contradiction|]. reflexivity.
  Qed.
  Theorem rdf_record_split sl d metal :
    Forall (fun l => is_dtype l = false) sl -> is_dtype d = true -> sl <> [] ->
    rdf_one A build_mol build_rxn (sl ++ d :: metal) =
    match rdf_dispatch A build_mol build_rxn (sl ++ d :: metal) with
    | Err x => inr (Py x)
    | Ok obj => inl (obj, rdf_read_metadata (d :: metal))
    end.
  Proof.
    intros Hs Hd Hne. unfold rdf_one. destruct (sl ++ d :: metal) as [|x r] eqn:E; [destruct sl; discriminate|]. rewrite <- E.
    cbv zeta. rewrite (mscan_found sl d metal Hs Hd Hne).
    destruct sl as [|s0 sl]; [contradiction|]. cbn [length falsy].
    assert (E2 : skipn (S (length sl)) ((s0 :: sl) ++ d :: metal) = d :: metal).
    { clear. cbn [app skipn]. induction sl as [|l sl IH]; cbn [length app skipn]; [reflexivity|]. exact IH. }
    rewrite E2. reflexivity.
  Qed.
End Split.

(* ------------------------------------------------------------------------------------------------ *)
(** * non-vacuity: an SDF file with five records, the middle three damaged (garbage counts line; empty; truncated); the builder
      returns the title of the parsed molecule *)
Definition ex_rec (title : string) (counts : string) : list str :=
  map add_nl [L title; []; []; L counts; L "    0.0000    0.0000    0.0000 C   0  0  0  0  0  0  0  0  0  0  0  0"; L "M  END"; L ">  <k>"; L "v"; []].
Definition ex_good := "  1  0  0  0  0  0            999 V2000"%string.
Definition ex_recs : list (list str * str) :=
  [(ex_rec "a" ex_good, add_nl (L "$$$$")); (ex_rec "b" "  x  0  0  0  0  0            999 V2000", add_nl (L "$$$$"));
   ([], add_nl (L "$$$$"));                                             (* an empty record *)
   (map add_nl [L "t"; L "M  END"], add_nl (L "$$$$"));                 (* a record truncated to two lines: IndexError *)
   (ex_rec "c" ex_good, add_nl (L "$$$$"))].
Definition ex_build (p : parsed3) : pyres (option str) := Ok (p_title (p3 p)).
Definition ex_build_rxn (r : rparsed) : pyres (option str) := Ok (r_title r).

Example sdf_framing_example :
  Forall (fun rd => sdf_record_ok 100 (fst rd) /\ is_delim (snd rd) = true) ex_recs /\
  sdf_record_ok 100 [] /\
  sdf_results (option str) ex_build ex_recs [] =
    [inl (Some (L "a"), [(L "k", L "v")]); inr (Py ValueError); inr (Py ValueError); inr (Py IndexError); inl (Some (L "c"), [(L "k", L "v")]); inr EOFError] /\
  sdf_read (option str) ex_build 100 (sdf_file ex_recs []) = ([(Some (L "a"), [(L "k", L "v")]); (Some (L "c"), [(L "k", L "v")])], Exhausted).
Proof.
  split; [|split; [|split]].
  - repeat constructor; cbn; lia.
  - split; [constructor | cbn; lia].
  - vm_compute. reflexivity.
  - vm_compute. reflexivity.
Qed.

Definition ex_rdf_recs : list (str * list str) :=
  [(add_nl (L "$MFMT"), firstn 6 (ex_rec "a" ex_good) ++ map add_nl [L "$DTYPE k"; L "$DATUM v"]);
   (add_nl (L "$MFMT"), firstn 6 (ex_rec "b" "  x  0  0  0  0  0            999 V2000"));
   (add_nl (L "$MFMT"), firstn 6 (ex_rec "c" ex_good) ++ map add_nl [L "$DTYPE k"; L "$DATUM w"; L "MAD value"])].
Definition ex_rdf_header : list str := map add_nl [L "$RDFILE 1"; L "$DATM    01/01/01 00:00"].
Example rdf_framing_example :
  Forall (fun l => is_fmt l = false /\ startswith (L "$RXN") l = false) ex_rdf_header /\
  Forall (fun fb => is_fmt (fst fb) = true /\ rdf_body_ok 100 (S (length ex_rdf_header)) (snd fb) /\ snd fb <> []) ex_rdf_recs /\
  rdf_read (option str) ex_build ex_build_rxn 100 (rdf_file ex_rdf_header ex_rdf_recs) =
    ([(Some (L "a"), [(L "k", L "v")]); (Some (L "c"), [(L "k", L "w" ++ [nl] ++ L "MAD value")])], Exhausted).
Proof.
  split; [|split].
  - repeat constructor.
  - repeat constructor; try discriminate; cbn; lia.
  - vm_compute. reflexivity.
Qed.
