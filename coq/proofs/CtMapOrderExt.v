(* C01, extension: `__ct_map` (the cis/trans marks) when the registries of the second molecule are NOT the renamed registries but
   the ones a re-inserted molecule has: centre pairs and terminal pairs may be listed in the other orientation, the environments
   may list the substituents of an end in the other order, the stored signs are re-expressed.  What the proof needs about the two
   sets of registries is collected as hypotheses (section CtOrder) and discharged from a concrete relation in SameStereo.v. *)
From Coq Require Import ZArith List String Bool Lia Permutation.
From Model Require Import PyBase PyHash Graph Morgan Stereo Writer.
From Proofs Require Import MorganProofs WriterInvProofs WriterStereoExt.
Import ListNotations.
Open Scope Z_scope.

Definition envof (tabs : stabs) (k : Z) : option env4 :=
  match zget (t_ctt tabs) k with Some tp => pget (t_sct tabs) tp | None => None end.
Definition env_rel (s : Z -> Z) (oe' oe : option env4) : Prop :=
  match oe', oe with
  | Some e', Some e => forall v, in_env (s v) e' = in_env v e
  | None, None => True
  | _, _ => False
  end.
(* the sign the traversal obtains when it enters the double bond system of terminal k from the side of its counterpart *)
Definition ct_entry_sign (g : mol) (tabs : stabs) (k o' v on : Z) : pyres bool :=
  match centre_stereo g tabs k with
  | None => Err KeyError
  | Some s0 => translate_ct (is_H g) (pget (t_sct tabs) (k, o')) (pget (t_sct tabs) (o', k)) v on s0
  end.

Section CtOrder.
  Variable g g' : mol.
  Variable s : Z -> Z.
  Variable tabs tabs' : stabs.
  Variable phi : Z * Z -> Z * Z.
  Hypothesis s_inj : forall x y, s x = s y -> x = y.
  Hypothesis s_zero : s 0 = 0.
  Hypothesis Hphi : forall a b, pair_eqbZ (phi a) (phi b) = pair_eqbZ a b.
  Hypothesis Hctc : forall k, zget (t_ctc tabs') (s k) = option_map phi (zget (t_ctc tabs) k).
  Hypothesis Hctcp : forall k, zget (t_ctcp tabs') (s k) = option_map s (zget (t_ctcp tabs) k).
  Hypothesis Hsba : forall k cs, zget (t_ctc tabs) k = Some cs ->
    zmem (fst (phi cs)) (stereo_bond_atoms g') && zmem (snd (phi cs)) (stereo_bond_atoms g') =
    zmem (fst cs) (stereo_bond_atoms g) && zmem (snd cs) (stereo_bond_atoms g).
  Hypothesis Hsba0 : stereo_bond_atoms g' = [] <-> stereo_bond_atoms g = [].
  Hypothesis Henv : forall k, env_rel s (envof tabs' (s k)) (envof tabs k).
  Hypothesis Hsem : forall k o' v on, zget (t_ctcp tabs) k = Some o' ->
    ct_entry_sign g' tabs' (s k) (s o') (s v) (s on) = ct_entry_sign g tabs k o' v on.

  Definition ren_ct2 (st : ctst) : ctst :=
    mkCt (ren_pm s (ct_pm st)) (map (fun kv => (s (fst kv), s (snd kv))) (ct_im st)) (map s (ct_si st)) (map phi (ct_sp st)).
  Definition ren_ctres2 (r : pyres ctst) : pyres ctst := match r with Ok st => Ok (ren_ct2 st) | Err e => Err e end.

  Lemma pair_mem_phi cs sp : pair_mem (phi cs) (map phi sp) = pair_mem cs sp.
  Proof. unfold pair_mem. induction sp as [|p sp IH]; cbn [map existsb]; [reflexivity|]. rewrite Hphi, IH. reflexivity. Qed.

  Lemma ct_note_ren2 st v k : ct_note tabs' (ren_ct2 st) (s v) (s k) = ren_ct2 (ct_note tabs st v k).
  Proof.
    unfold ct_note. rewrite Hctc. destruct (zget (t_ctc tabs) v) as [y|]; cbn [option_map]; [|reflexivity].
    unfold ren_ct2. cbn [ct_pm ct_im ct_si ct_sp map]. rewrite (zset_ren_val s s_inj). reflexivity.
  Qed.

  Lemma entry_sign_form (g0 : mol) (tabs0 : stabs) k o' v on {B} (F : bool -> pyres B) :
    match centre_stereo g0 tabs0 k with
    | None => Err KeyError
    | Some s0 => match translate_ct (is_H g0) (pget (t_sct tabs0) (k, o')) (pget (t_sct tabs0) (o', k)) v on s0 with
                 | Err e => Err e
                 | Ok r => F r
                 end
    end = match ct_entry_sign g0 tabs0 k o' v on with Err e => Err e | Ok r => F r end.
  Proof. unfold ct_entry_sign. destruct (centre_stereo g0 tabs0 k); reflexivity. Qed.

  Lemma mkCt_ren2 pm im si sp :
    mkCt (ren_pm s pm) (map (fun kv => (s (fst kv), s (snd kv))) im) (map s si) (map phi sp) = ren_ct2 (mkCt pm im si sp).
  Proof. reflexivity. Qed.

  Lemma ct_inner_ren2 k cs env env' acc v : (forall x, in_env (s x) env' = in_env x env) ->
    ct_inner g' tabs' (s k) (phi cs) env' (ren_ctres2 acc) (s v) = ren_ctres2 (ct_inner g tabs k cs env acc v).
  Proof.
    intros Hin. unfold ct_inner. destruct acc as [st|e]; cbn [ren_ctres2]; [|reflexivity].
    rewrite Hin. destruct (in_env v env); cbn [negb]; [|reflexivity].
    change (ct_pm (ren_ct2 st)) with (ren_pm s (ct_pm st)).
    change (ct_im (ren_ct2 st)) with (map (fun kv => (s (fst kv), s (snd kv))) (ct_im st)).
    change (ct_si (ren_ct2 st)) with (map s (ct_si st)). change (ct_sp (ren_ct2 st)) with (map phi (ct_sp st)).
    rewrite (pget_pm_ren s s_inj).
    destruct (pget (ct_pm st) (k, v)) as [b0|]; [reflexivity|].
    rewrite (zget_renG s s_inj s).
    assert (match option_map s (zget (ct_im st) k) with Some x => if x =? 0 then None else Some x | None => None end =
            option_map s (match zget (ct_im st) k with Some x => if x =? 0 then None else Some x | None => None end)) as ->.
    { destruct (zget (ct_im st) k) as [x|]; cbn [option_map]; [|reflexivity]. rewrite (s_is_zero s s_inj s_zero). destruct (x =? 0); reflexivity. }
    destruct (match zget (ct_im st) k with Some x => if x =? 0 then None else Some x | None => None end) as [x|]; cbn [option_map].
    - rewrite (pget_pm_ren s s_inj). destruct (pget (ct_pm st) (k, x)) as [sg|]; [|reflexivity]. cbn [ren_ctres2]. f_equal.
      rewrite !(pset_pm_ren s s_inj), mkCt_ren2. apply ct_note_ren2.
    - rewrite pair_mem_phi. destruct (pair_mem cs (ct_sp st)).
      + rewrite Hctcp. destruct (zget (t_ctcp tabs) k) as [o'|] eqn:Eo; cbn [option_map]; [|reflexivity].
        rewrite (zget_renG s s_inj s). destruct (zget (ct_im st) o') as [on|]; cbn [option_map]; [|reflexivity].
        rewrite (pget_pm_ren s s_inj). destruct (pget (ct_pm st) (o', on)) as [sg|]; [|reflexivity].
        rewrite (entry_sign_form g' tabs'), (entry_sign_form g tabs), (Hsem k o' v on Eo).
        destruct (ct_entry_sign g tabs k o' v on) as [r|e]; [|reflexivity]. cbn [ren_ctres2]. f_equal.
        rewrite !(pset_pm_ren s s_inj), (zset_ren_val s s_inj), mkCt_ren2. apply ct_note_ren2.
      + cbn [ren_ctres2]. f_equal.
        change (mkCt (ren_pm s (ct_pm st)) (map (fun kv => (s (fst kv), s (snd kv))) (ct_im st)) (map s (ct_si st)) (map phi (ct_sp st)))
          with (ren_ct2 st).
        rewrite ct_note_ren2.
        change (ct_pm (ren_ct2 (ct_note tabs st v k))) with (ren_pm s (ct_pm (ct_note tabs st v k))).
        change (ct_im (ren_ct2 (ct_note tabs st v k))) with (map (fun kv => (s (fst kv), s (snd kv))) (ct_im (ct_note tabs st v k))).
        change (ct_si (ren_ct2 (ct_note tabs st v k))) with (map s (ct_si (ct_note tabs st v k))).
        change (ct_sp (ren_ct2 (ct_note tabs st v k))) with (map phi (ct_sp (ct_note tabs st v k))).
        rewrite !(pset_pm_ren s s_inj), (zset_ren_val s s_inj). apply mkCt_ren2.
  Qed.

  Lemma ct_inner_fold2 k cs env env' vs : (forall x, in_env (s x) env' = in_env x env) -> forall acc,
    fold_left (ct_inner g' tabs' (s k) (phi cs) env') (map s vs) (ren_ctres2 acc) = ren_ctres2 (fold_left (ct_inner g tabs k cs env) vs acc).
  Proof. intros Hin. induction vs as [|v vs IH]; intros acc; cbn [map fold_left]; [reflexivity|]. rewrite (ct_inner_ren2 k cs env env' acc v Hin). apply IH. Qed.

  Lemma ct_outer_ren2 acc k vs : ct_outer g' tabs' (ren_ctres2 acc) (s k, map s vs) = ren_ctres2 (ct_outer g tabs acc (k, vs)).
  Proof.
    unfold ct_outer. destruct acc as [st0|e]; cbn [ren_ctres2]; [|reflexivity].
    change (ct_pm (ren_ct2 st0)) with (ren_pm s (ct_pm st0)).
    change (ct_im (ren_ct2 st0)) with (map (fun kv => (s (fst kv), s (snd kv))) (ct_im st0)).
    change (ct_si (ren_ct2 st0)) with (map s (ct_si st0)). change (ct_sp (ren_ct2 st0)) with (map phi (ct_sp st0)).
    change (mkCt (ren_pm s (ct_pm st0)) (map (fun kv => (s (fst kv), s (snd kv))) (ct_im st0)) (s k :: map s (ct_si st0)) (map phi (ct_sp st0)))
      with (ren_ct2 (mkCt (ct_pm st0) (ct_im st0) (k :: ct_si st0) (ct_sp st0))).
    set (st := mkCt (ct_pm st0) (ct_im st0) (k :: ct_si st0) (ct_sp st0)).
    rewrite Hctc. destruct (zget (t_ctc tabs) k) as [cs|] eqn:Ecs; cbn [option_map]; [|reflexivity].
    rewrite (Hsba k cs Ecs).
    destruct (zmem (fst cs) (stereo_bond_atoms g) && zmem (snd cs) (stereo_bond_atoms g)); [|reflexivity].
    pose proof (Henv k) as He. unfold envof in He.
    destruct (zget (t_ctt tabs') (s k)) as [tp'|]; destruct (zget (t_ctt tabs) k) as [tp|]; cbn [env_rel] in He;
      try (destruct (pget (t_sct tabs') tp')); try (destruct (pget (t_sct tabs) tp)); try contradiction; try reflexivity.
    change (Ok (ren_ct2 st)) with (ren_ctres2 (Ok st)). rewrite (ct_inner_fold2 k cs e0 e vs He).
    destruct (fold_left (ct_inner g tabs k cs e0) vs (Ok st)) as [st'|e1]; cbn [ren_ctres2]; reflexivity.
  Qed.

  Lemma ct_outer_fold2 adj : forall acc,
    fold_left (ct_outer g' tabs') (ren_vis s adj) (ren_ctres2 acc) = ren_ctres2 (fold_left (ct_outer g tabs) adj acc).
  Proof.
    induction adj as [|[k vs] adj IH]; intros acc; cbn [ren_vis map fold_left fst snd]; [reflexivity|].
    rewrite ct_outer_ren2. apply IH.
  Qed.

  Theorem ct_map_order adj : ct_map g' tabs' (ren_vis s adj) = ren_pmres s (ct_map g tabs adj).
  Proof.
    unfold ct_map.
    pose proof (ct_outer_fold2 adj (Ok (mkCt [] [] [] []))) as H.
    change (ren_ctres2 (Ok (mkCt [] [] [] []))) with (Ok (mkCt [] [] [] [])) in H.
    pose proof Hsba0 as H0.
    destruct (stereo_bond_atoms g) as [|b0 bs]; destruct (stereo_bond_atoms g') as [|c0 cs].
    - reflexivity.
    - exfalso. assert (c0 :: cs = []) by (apply H0; reflexivity). discriminate.
    - exfalso. assert (b0 :: bs = []) by (apply H0; reflexivity). discriminate.
    - rewrite H. destruct (fold_left (ct_outer g tabs) adj (Ok (mkCt [] [] [] []))) as [st|e]; reflexivity.
  Qed.
End CtOrder.
