(* C02, layer 3: ring-closure numbers.  The allocation of closure numbers in Smiles._smiles (heappop for a cycle met for the
   first time, delayed heappush of the numbers of the cycles that end at the atom) never hands out a number that is in use:
   at every atom the numbers of the cycles open before the atom (including those that end at it) and of the cycles that start
   at it are pairwise different, and all numbers come from the initial heap (1..99).  Stated for ANY sequence of
   closure lists in which every cycle appears at most twice and at most once per atom ([wf_events]), for any number of
   atoms and cycles; running out of numbers is the IndexError of heappop (the statements are about runs that return). *)
From Coq Require Import ZArith List Bool Lia Permutation.
From Model Require Import PyBase Graph Writer.
From Gen Require Import SmilesTables.
Import ListNotations.
Open Scope Z_scope.

(* ------------------------------------------------------------------------------------------------ association lists *)
Lemma zget_app_last {V} (l : list (Z * V)) c k x :
  zget (l ++ [(c, k)]) x = match zget l x with Some v => Some v | None => if x =? c then Some k else None end.
Proof.
  induction l as [|[a v] l IH]; cbn [app zget].
  - reflexivity.
  - destruct (x =? a); [reflexivity | exact IH].
Qed.

Lemma heap_push_In x y h : In x (heap_push y h) <-> x = y \/ In x h.
Proof.
  induction h as [|z h IH]; cbn [heap_push].
  - cbn. intuition congruence.
  - destruct (y <=? z); cbn [In]; [intuition congruence|]. rewrite IH. intuition congruence.
Qed.

Lemma heap_push_NoDup y h : NoDup h -> ~ In y h -> NoDup (heap_push y h).
Proof.
  induction h as [|z h IH]; intros Hn Hy; cbn [heap_push].
  - constructor; [intros []|constructor].
  - destruct (y <=? z).
    + constructor; assumption.
    + inversion Hn as [|? ? Hz Hh]. subst. constructor.
      * rewrite heap_push_In. intros [E | E]; [subst; apply Hy; left; reflexivity | exact (Hz E)].
      * apply IH; [exact Hh | intros E; apply Hy; right; exact E].
Qed.

Lemma push_all_In rel : forall h x, In x (fold_left (fun h c => heap_push c h) rel h) <-> In x rel \/ In x h.
Proof.
  induction rel as [|r rel IH]; intros h x; cbn [fold_left].
  - cbn. tauto.
  - rewrite IH. rewrite heap_push_In. cbn [In]. intuition.
Qed.

Lemma push_all_NoDup rel : forall h, NoDup h -> NoDup rel -> (forall x, In x rel -> ~ In x h) ->
  NoDup (fold_left (fun h c => heap_push c h) rel h).
Proof.
  induction rel as [|r rel IH]; intros h Hh Hr Hd; cbn [fold_left]; [exact Hh|].
  inversion Hr as [|? ? Hnr Hr']. subst. apply IH.
  - apply heap_push_NoDup; [exact Hh | apply Hd; left; reflexivity].
  - exact Hr'.
  - intros x Hx. rewrite heap_push_In. intros [E | E]; [subst; exact (Hnr Hx) | exact (Hd x (or_intror Hx) E)].
Qed.

Lemma NoDup_snoc {A} (l : list A) x : NoDup l -> ~ In x l -> NoDup (l ++ [x]).
Proof.
  intros Hl Hx. apply (Permutation_NoDup (Permutation_cons_append l x)). constructor; assumption.
Qed.

Lemma NoDup_app_intro {A} (l1 l2 : list A) :
  NoDup l1 -> NoDup l2 -> (forall x, In x l1 -> In x l2 -> False) -> NoDup (l1 ++ l2).
Proof.
  induction l1 as [|a l1 IH]; intros H1 H2 Hd; cbn [app]; [exact H2|].
  inversion H1 as [|? ? Ha H1']. subst. constructor.
  - intros Hin. apply in_app_or in Hin. destruct Hin as [Hin | Hin]; [exact (Ha Hin) | exact (Hd a (or_introl eq_refl) Hin)].
  - apply IH; [exact H1' | exact H2 | intros x Hx1 Hx2; exact (Hd x (or_intror Hx1) Hx2)].
Qed.

Lemma NoDup_app_left {A} (l1 l2 : list A) : NoDup (l1 ++ l2) -> NoDup l1.
Proof.
  induction l1 as [|a l1 IH]; intros H; [constructor|]. cbn [app] in H. inversion H as [|? ? Ha H']. subst. constructor.
  - intros Hin. apply Ha. apply in_or_app. left. exact Hin.
  - apply IH. exact H'.
Qed.

Lemma zrange_from_NoDup n : forall s, NoDup (zrange_from s n).
Proof.
  induction n as [|n IH]; intros s; cbn [zrange_from]; constructor.
  - rewrite zrange_from_In. lia.
  - apply IH.
Qed.

(* ------------------------------------------------------------------------------------------------ the invariant *)
Section Closures.
  Variable good : Z -> Prop.                 (* a property of the numbers of the initial heap, e.g. 1 <= k < 100 *)

  Definition cnum (casted : list (Z * Z)) (c : Z) : Z := casted_of casted c.

  (* open: the cycles met once so far; seen: all cycles met so far *)
  Record Inv (casted : list (Z * Z)) (heap open seen : list Z) : Prop := mkInv {
    inv_dom : forall c, In c open -> zget casted c <> None;
    inv_seen : forall c, zget casted c <> None -> In c seen;
    inv_inj : NoDup (map (cnum casted) open);
    inv_heap : NoDup heap;
    inv_disj : forall c, In c open -> ~ In (cnum casted c) heap;
    inv_good_heap : forall k, In k heap -> good k;
    inv_good_cast : forall c k, zget casted c = Some k -> good k
  }.

  Lemma cnum_app casted c k x : zget casted x <> None -> cnum (casted ++ [(c, k)]) x = cnum casted x.
  Proof.
    intros H. unfold cnum, casted_of. rewrite zget_app_last. destruct (zget casted x); [reflexivity | contradiction].
  Qed.

  Lemma cnum_app_new casted c k : zget casted c = None -> cnum (casted ++ [(c, k)]) c = k.
  Proof. intros H. unfold cnum, casted_of. rewrite zget_app_last, H, Z.eqb_refl. reflexivity. Qed.

  Lemma map_cnum_app casted c k l : (forall x, In x l -> zget casted x <> None) ->
    map (cnum (casted ++ [(c, k)])) l = map (cnum casted) l.
  Proof.
    induction l as [|x l IH]; intros H; cbn [map]; [reflexivity|].
    rewrite cnum_app by (apply H; left; reflexivity). rewrite IH; [reflexivity|]. intros y Hy. apply H. right. exact Hy.
  Qed.

  (* ---- inside one atom: [live] = cycles open before the atom followed by the cycles opened at it so far,
     [cls] = the cycles (of the open ones) that ended at it so far ---- *)
  Record WInv (seen open : list Z) (casted : list (Z * Z)) (heap rel asg cls : list Z) : Prop := mkWInv {
    w_dom : forall c, In c (open ++ asg) -> zget casted c <> None;
    w_seen : forall c, zget casted c <> None -> In c (seen ++ asg);
    w_inj : NoDup (map (cnum casted) (open ++ asg));
    w_heap : NoDup heap;
    w_disj : forall c, In c (open ++ asg) -> ~ In (cnum casted c) heap;
    w_rel : rel = map (cnum casted) cls;
    w_cls : NoDup cls /\ incl cls open;
    w_good_heap : forall k, In k heap -> good k;
    w_good_cast : forall c k, zget casted c = Some k -> good k
  }.

  Lemma number_closures_inv seen open : forall cl casted heap rel asg cls casted' heap' rel',
    WInv seen open casted heap rel asg cls ->
    NoDup (map snd cl) ->
    (forall c, In c (map snd cl) -> (In c open \/ ~ In c seen) /\ ~ In c asg /\ ~ In c cls) ->
    (forall c, In c open -> In c seen) ->
    number_closures cl casted heap rel = Ok (casted', heap', rel') ->
    exists asg' cls',
      WInv seen open casted' heap' rel' asg' cls' /\
      (forall c, zget casted c <> None -> cnum casted' c = cnum casted c) /\
      Permutation (asg' ++ cls') (asg ++ cls ++ map snd cl) /\
      (forall c, In c asg' -> In c asg \/ (In c (map snd cl) /\ ~ In c seen)) /\
      (forall c, In c cls' -> In c cls \/ (In c (map snd cl) /\ In c open)) /\
      incl asg asg' /\ incl cls cls'.
  Proof.
    induction cl as [|[p c] cl IH]; intros casted heap rel asg cls casted' heap' rel' W Hnd Hcl Hos Hrun.
    - cbn in Hrun. inversion Hrun. subst. exists asg, cls.
      split; [exact W|]. split; [intros; reflexivity|].
      split; [cbn [map]; rewrite app_nil_r; apply Permutation_refl|].
      split; [intros c Hc; left; exact Hc|]. split; [intros c Hc; left; exact Hc|].
      split; apply incl_refl.
    - cbn [number_closures] in Hrun. cbn [map snd] in Hnd, Hcl. inversion Hnd as [|? ? Hc_notin Hnd']. subst.
      destruct (Hcl c (or_introl eq_refl)) as [Hclass [Hnasg Hncls]].
      assert (Hcl' : forall c0, In c0 (map snd cl) -> (In c0 open \/ ~ In c0 seen) /\ ~ In c0 asg /\ ~ In c0 cls)
        by (intros c0 H0; apply Hcl; right; exact H0).
      destruct (zget casted c) as [k|] eqn:Ek.
      + (* the cycle has a number: it ends here; its number is released after the atom *)
        assert (Hopen : In c open).
        { destruct Hclass as [Ho | Hns]; [exact Ho|]. exfalso.
          assert (Hin : In c (seen ++ asg)) by (apply (w_seen _ _ _ _ _ _ _ W); rewrite Ek; discriminate).
          apply in_app_or in Hin. destruct Hin; [exact (Hns H) | exact (Hnasg H)]. }
        assert (W1 : WInv seen open casted heap (rel ++ [k]) asg (cls ++ [c])).
        { destruct W. constructor; try assumption.
          - rewrite map_app. cbn [map]. unfold cnum at 2, casted_of. rewrite Ek. rewrite w_rel0. reflexivity.
          - destruct w_cls0 as [Hn Hi]. split.
            + apply NoDup_snoc; assumption.
            + intros x Hx. apply in_app_or in Hx. destruct Hx as [Hx | [<- | []]]; [apply Hi; exact Hx | exact Hopen]. }
        destruct (IH casted heap (rel ++ [k]) asg (cls ++ [c]) casted' heap' rel' W1 Hnd') as [asg' [cls' [W' [Hsame [Hperm [Ha [Hc [Hia Hic]]]]]]]].
        * intros c0 H0. destruct (Hcl' c0 H0) as [A [B C]]. split; [exact A|]. split; [exact B|].
          intros Hx. apply in_app_or in Hx. destruct Hx as [Hx | [<- | []]]; [exact (C Hx) | exact (Hc_notin H0)].
        * exact Hos.
        * exact Hrun.
        * exists asg', cls'.
          split; [exact W'|]. split; [exact Hsame|].
          split.
          { eapply Permutation_trans; [exact Hperm|]. cbn [map snd].
            apply Permutation_app_head. rewrite <- app_assoc. apply Permutation_app_head. cbn [app].
            apply Permutation_refl. }
          split.
          { intros x Hx. destruct (Ha x Hx) as [A | [A B]]; [left; exact A | right; split; [right; exact A | exact B]]. }
          split.
          { intros x Hx. destruct (Hc x Hx) as [A | [A B]].
            - apply in_app_or in A. destruct A as [A | [<- | []]]; [left; exact A | right; split; [left; reflexivity | exact Hopen]].
            - right. split; [right; exact A | exact B]. }
          split; [exact Hia|].
          intros x Hx. apply Hic. apply in_or_app. left. exact Hx.
      + (* a new cycle: it takes the smallest free number *)
        destruct heap as [|k heap1]; [discriminate|].
        assert (Hnew : ~ In c seen).
        { destruct Hclass as [Ho | Hns]; [|exact Hns]. exfalso.
          apply (w_dom _ _ _ _ _ _ _ W c); [apply in_or_app; left; exact Ho | exact Ek]. }
        assert (Hnopen : ~ In c open) by (intros H; apply Hnew; apply Hos; exact H).
        assert (W1 : WInv seen open (casted ++ [(c, k)]) heap1 rel (asg ++ [c]) cls).
        { destruct W. inversion w_heap0 as [|? ? Hk Hh1]. subst.
          assert (Hdom1 : forall x, In x (open ++ asg) -> zget casted x <> None) by exact w_dom0.
          constructor.
          - intros x Hx. rewrite zget_app_last. rewrite app_assoc in Hx. apply in_app_or in Hx.
            destruct Hx as [Hx | [<- | []]].
            + specialize (Hdom1 x Hx). destruct (zget casted x); [discriminate | contradiction].
            + rewrite Ek, Z.eqb_refl. discriminate.
          - intros x Hx. rewrite zget_app_last in Hx. rewrite app_assoc. apply in_or_app.
            destruct (zget casted x) eqn:Ex.
            + left. apply w_seen0. rewrite Ex. discriminate.
            + destruct (x =? c) eqn:Exc; [|contradiction]. apply Z.eqb_eq in Exc. subst. right. left. reflexivity.
          - rewrite app_assoc. rewrite map_app. cbn [map]. rewrite cnum_app_new by exact Ek.
            rewrite map_cnum_app by exact Hdom1.
            apply NoDup_snoc; [exact w_inj0|].
            intros Hin. apply in_map_iff in Hin. destruct Hin as [x [Ex Hx]].
            apply (w_disj0 x Hx). rewrite Ex. left. reflexivity.
          - exact Hh1.
          - intros x Hx. rewrite app_assoc in Hx. apply in_app_or in Hx. destruct Hx as [Hx | [<- | []]].
            + rewrite cnum_app by (apply Hdom1; exact Hx). intros Hin. apply (w_disj0 x Hx). right. exact Hin.
            + rewrite cnum_app_new by exact Ek. exact Hk.
          - symmetry. apply map_cnum_app. intros x Hx. apply Hdom1. apply in_or_app. left.
            destruct w_cls0 as [_ Hi]. apply Hi. exact Hx.
          - exact w_cls0.
          - intros x Hx. apply w_good_heap0. right. exact Hx.
          - intros x v Hx. rewrite zget_app_last in Hx. destruct (zget casted x) eqn:Ex.
            + inversion Hx. subst. apply (w_good_cast0 x v Ex).
            + destruct (x =? c); [|discriminate]. inversion Hx. subst. apply w_good_heap0. left. reflexivity. }
        destruct (IH (casted ++ [(c, k)]) heap1 rel (asg ++ [c]) cls casted' heap' rel' W1 Hnd') as [asg' [cls' [W' [Hsame [Hperm [Ha [Hc [Hia Hic]]]]]]]].
        * intros c0 H0. destruct (Hcl' c0 H0) as [A [B C]]. split; [exact A|]. split; [|exact C].
          intros Hx. apply in_app_or in Hx. destruct Hx as [Hx | [<- | []]]; [exact (B Hx) | exact (Hc_notin H0)].
        * exact Hos.
        * exact Hrun.
        * exists asg', cls'.
          split; [exact W'|].
          split.
          { intros x Hx. rewrite Hsame.
            - apply cnum_app. exact Hx.
            - rewrite zget_app_last. destruct (zget casted x); [discriminate | contradiction]. }
          split.
          { eapply Permutation_trans; [exact Hperm|]. cbn [map snd]. rewrite <- app_assoc. apply Permutation_app_head.
            cbn [app]. apply Permutation_middle. }
          split.
          { intros x Hx. destruct (Ha x Hx) as [A | [A B]].
            - apply in_app_or in A. destruct A as [A | [<- | []]]; [left; exact A | right; split; [left; reflexivity | exact Hnew]].
            - right. split; [right; exact A | exact B]. }
          split.
          { intros x Hx. destruct (Hc x Hx) as [A | [A B]]; [left; exact A | right; split; [right; exact A | exact B]]. }
          split; [|exact Hic].
          intros x Hx. apply Hia. apply in_or_app. left. exact Hx.
  Qed.

  (* ---- one atom ---- *)
  Definition closing (open cs : list Z) : list Z := filter (fun c => zmem c open) cs.
  Definition opening (seen cs : list Z) : list Z := filter (fun c => negb (zmem c seen)) cs.
  Definition open_after (open seen cs : list Z) : list Z := filter (fun c => negb (zmem c cs)) open ++ opening seen cs.

  Theorem atom_no_clash : forall cl casted heap open seen casted' heap' rel,
    Inv casted heap open seen -> NoDup open ->
    NoDup (map snd cl) -> (forall c, In c (map snd cl) -> In c open \/ ~ In c seen) ->
    number_closures cl casted heap [] = Ok (casted', heap', rel) ->
    let cs := map snd cl in
    (* the cycles open before the atom keep their numbers *)
    (forall c, In c open -> cnum casted' c = cnum casted c) /\
    (* no two of the cycles that are open somewhere at this atom share a number *)
    NoDup (map (cnum casted') (open ++ opening seen cs)) /\
    (* the state after the delayed release is again consistent *)
    Inv casted' (fold_left (fun h c => heap_push c h) rel heap') (open_after open seen cs) (seen ++ opening seen cs) /\
    NoDup (open_after open seen cs).
  Proof.
    intros cl casted heap open seen casted' heap' rel I Hno Hnd Hcl Hrun cs.
    assert (Hos : forall c, In c open -> In c seen) by (intros c Hc; apply (inv_seen _ _ _ _ I); apply (inv_dom _ _ _ _ I); exact Hc).
    assert (W0 : WInv seen open casted heap [] [] []).
    { destruct I. constructor; try assumption; rewrite ?app_nil_r; try assumption.
      - reflexivity.
      - split; [constructor | intros x []]. }
    destruct (number_closures_inv seen open cl casted heap [] [] [] casted' heap' rel W0 Hnd) as [asg [cls [W [Hsame [Hperm [Ha [Hc [_ _]]]]]]]].
    { intros c Hc. split; [apply Hcl; exact Hc | split; intros []]. }
    { exact Hos. }
    { exact Hrun. }
    cbn [app] in Hperm.
    (* asg = the new cycles of cs, cls = the open cycles of cs, as sets *)
    assert (Hasg : forall c, In c asg <-> In c (opening seen cs)).
    { intros c. unfold opening. rewrite filter_In. split.
      - intros H. destruct (Ha c H) as [[] | [A B]]. split; [exact A|]. apply negb_true_iff. apply not_true_iff_false.
        rewrite zmem_In. exact B.
      - intros [A B]. apply negb_true_iff in B. apply not_true_iff_false in B. rewrite zmem_In in B.
        assert (Hin : In c (asg ++ cls)) by (apply (Permutation_in c (Permutation_sym Hperm)); exact A).
        apply in_app_or in Hin. destruct Hin as [H | H]; [exact H|]. exfalso.
        destruct (Hc c H) as [[] | [_ Ho]]. apply B. apply Hos. exact Ho. }
    assert (Hcls : forall c, In c cls <-> In c cs /\ In c open).
    { intros c. split.
      - intros H. destruct (Hc c H) as [[] | [A B]]. split; assumption.
      - intros [A B].
        assert (Hin : In c (asg ++ cls)) by (apply (Permutation_in c (Permutation_sym Hperm)); exact A).
        apply in_app_or in Hin. destruct Hin as [H | H]; [|exact H]. exfalso.
        destruct (Ha c H) as [[] | [_ Hn]]. apply Hn. apply Hos. exact B. }
    assert (Hnd_ac : NoDup (asg ++ cls)) by (apply (Permutation_NoDup (Permutation_sym Hperm)); exact Hnd).
    assert (Hnd_asg : NoDup asg) by (apply NoDup_app_left in Hnd_ac; exact Hnd_ac).
    assert (Hnd_op : NoDup (opening seen cs)) by (apply NoDup_filter; exact Hnd).
    assert (Hperm_asg : Permutation asg (opening seen cs)) by (apply NoDup_Permutation; assumption).
    destruct W as [Wdom Wseen Winj Wheap Wdisj Wrel [Wcn Wci] Wgh Wgc].
    split; [|split; [|split]].
    - intros c Hc0. apply Hsame. apply (inv_dom _ _ _ _ I). exact Hc0.
    - apply (Permutation_NoDup (l := map (cnum casted') (open ++ asg))); [|exact Winj].
      apply Permutation_map. apply Permutation_app_head. exact Hperm_asg.
    - (* the invariant after pushing the released numbers back *)
      assert (Hkeep : forall c, In c (open_after open seen cs) -> In c (open ++ asg) /\ ~ In c cls).
      { intros c H. unfold open_after in H. apply in_app_or in H. destruct H as [H | H].
        - apply filter_In in H. destruct H as [Ho Hn]. apply negb_true_iff in Hn. apply not_true_iff_false in Hn.
          rewrite zmem_In in Hn. split; [apply in_or_app; left; exact Ho|]. intros Hx. apply Hcls in Hx. apply Hn. apply Hx.
        - split; [apply in_or_app; right; apply Hasg; exact H|]. intros Hx. apply Hcls in Hx. destruct Hx as [_ Ho].
          unfold opening in H. apply filter_In in H. destruct H as [_ Hn]. apply negb_true_iff in Hn.
          apply not_true_iff_false in Hn. rewrite zmem_In in Hn. apply Hn. apply Hos. exact Ho. }
      assert (Hnd_after : NoDup (open_after open seen cs)).
      { unfold open_after. apply NoDup_app_intro; [apply NoDup_filter; exact Hno | exact Hnd_op |].
        intros c H1 H2. apply filter_In in H1. destruct H1 as [Ho _]. unfold opening in H2. apply filter_In in H2.
        destruct H2 as [_ Hn]. apply negb_true_iff in Hn. apply not_true_iff_false in Hn. rewrite zmem_In in Hn.
        apply Hn. apply Hos. exact Ho. }
      (* numbers of the cycles that stay open are pairwise different and different from the released ones *)
      assert (Hinj_live : forall a b, In a (open ++ asg) -> In b (open ++ asg) -> cnum casted' a = cnum casted' b -> a = b).
      { intros a b Hin_a Hin_b E.
        assert (Hnd_live : NoDup (open ++ asg)).
        { apply NoDup_app_intro; [exact Hno | exact Hnd_asg |]. intros c H1 H2. apply Hasg in H2. unfold opening in H2.
          apply filter_In in H2. destruct H2 as [_ Hn]. apply negb_true_iff in Hn. apply not_true_iff_false in Hn.
          rewrite zmem_In in Hn. apply Hn. apply Hos. exact H1. }
        revert Winj Hnd_live Hin_a Hin_b E. generalize (open ++ asg). intros l.
        induction l as [|x l IHl]; intros Hm Hl Hin_a Hin_b E; [destruct Hin_a|].
        cbn [map] in Hm. inversion Hm as [|? ? Hx Hm']. inversion Hl as [|? ? Hxl Hl']. subst.
        destruct Hin_a as [<- | Hin_a], Hin_b as [<- | Hin_b].
        - reflexivity.
        - exfalso. apply Hx. rewrite E. apply in_map. exact Hin_b.
        - exfalso. apply Hx. rewrite <- E. apply in_map. exact Hin_a.
        - apply IHl; assumption. }
      constructor.
      + intros c H. apply Wdom. apply Hkeep. exact H.
      + intros c H. apply Wseen in H. apply in_app_or in H. apply in_or_app.
        destruct H as [H | H]; [left; exact H | right; apply Hasg; exact H].
      + (* injective on the cycles that stay open *)
        assert (Hgen : forall l, NoDup l -> (forall c, In c l -> In c (open ++ asg)) -> NoDup (map (cnum casted') l)).
        { induction l as [|x l IHl]; intros Hl Hsub; cbn [map]; constructor.
          - inversion Hl as [|? ? Hx Hl']. subst. intros Hin. apply in_map_iff in Hin. destruct Hin as [y [Ey Hy]].
            assert (y = x) by (apply Hinj_live; [apply Hsub; right; exact Hy | apply Hsub; left; reflexivity | exact Ey]).
            subst. exact (Hx Hy).
          - inversion Hl. subst. apply IHl; [assumption | intros c Hc0; apply Hsub; right; exact Hc0]. }
        apply Hgen; [exact Hnd_after | intros c Hc0; apply Hkeep; exact Hc0].
      + apply push_all_NoDup; [exact Wheap | |].
        * rewrite Wrel.
          assert (Hgen : forall l, NoDup l -> (forall c, In c l -> In c (open ++ asg)) -> NoDup (map (cnum casted') l)).
          { induction l as [|x l IHl]; intros Hl Hsub; cbn [map]; constructor.
            - inversion Hl as [|? ? Hx Hl']. subst. intros Hin. apply in_map_iff in Hin. destruct Hin as [y [Ey Hy]].
              assert (y = x) by (apply Hinj_live; [apply Hsub; right; exact Hy | apply Hsub; left; reflexivity | exact Ey]).
              subst. exact (Hx Hy).
            - inversion Hl. subst. apply IHl; [assumption | intros c Hc0; apply Hsub; right; exact Hc0]. }
          apply Hgen; [exact Wcn | intros c Hc0; apply in_or_app; left; apply Wci; exact Hc0].
        * intros x Hx. rewrite Wrel in Hx. apply in_map_iff in Hx. destruct Hx as [c [Ec Hc0]]. subst x.
          apply Wdisj. apply in_or_app. left. apply Wci. exact Hc0.
      + intros c H. rewrite push_all_In. intros [Hr | Hh].
        * rewrite Wrel in Hr. apply in_map_iff in Hr. destruct Hr as [d [Ed Hd]].
          destruct (Hkeep c H) as [Hl Hncls].
          assert (d = c) by (apply Hinj_live; [apply in_or_app; left; apply Wci; exact Hd | exact Hl | exact Ed]).
          subst. exact (Hncls Hd).
        * exact (Wdisj c (proj1 (Hkeep c H)) Hh).
      + intros k Hk. apply push_all_In in Hk. destruct Hk as [Hk | Hk]; [|apply Wgh; exact Hk].
        rewrite Wrel in Hk. apply in_map_iff in Hk. destruct Hk as [c [Ec Hc0]].
        assert (Hd : zget casted' c <> None) by (apply Wdom; apply in_or_app; left; apply Wci; exact Hc0).
        unfold cnum, casted_of in Ec. destruct (zget casted' c) as [v|] eqn:Ev; [|contradiction]. rewrite <- Ec. apply (Wgc c v Ev).
      + exact Wgc.
    - unfold open_after. apply NoDup_app_intro; [apply NoDup_filter; exact Hno | exact Hnd_op |].
      intros c H1 H2. apply filter_In in H1. destruct H1 as [Ho _]. unfold opening in H2. apply filter_In in H2.
      destruct H2 as [_ Hn]. apply negb_true_iff in Hn. apply not_true_iff_false in Hn. rewrite zmem_In in Hn.
      apply Hn. apply Hos. exact Ho.
  Qed.

  (* entries of casted_cycles are only ever appended: a cycle that has a number keeps it *)
  Lemma number_closures_keeps c : forall cl casted heap rel casted' heap' rel',
    zget casted c <> None -> number_closures cl casted heap rel = Ok (casted', heap', rel') -> zget casted' c = zget casted c.
  Proof.
    induction cl as [|[p0 c0] cl IHl]; intros casted heap rel casted' heap' rel' Hd En; cbn [number_closures] in En.
    - inversion En. subst. reflexivity.
    - destruct (zget casted c0) eqn:E0.
      + eapply IHl; [exact Hd | exact En].
      + destruct heap as [|k heap]; [discriminate|].
        assert (Hz : zget (casted ++ [(c0, k)]) c = zget casted c).
        { rewrite zget_app_last. destruct (zget casted c); [reflexivity | contradiction]. }
        rewrite <- Hz. eapply IHl; [|exact En]. rewrite Hz. exact Hd.
  Qed.

  Lemma number_atoms_keeps tokens ro c : forall todo casted heap casted' heap',
    zget casted c <> None -> number_atoms tokens ro todo casted heap = Ok (casted', heap') -> zget casted' c = zget casted c.
  Proof.
    induction todo as [|[a p] todo IHt]; intros casted heap casted' heap' Hd Hrun; cbn [number_atoms] in Hrun.
    - inversion Hrun. subst. reflexivity.
    - destruct (number_closures _ casted heap []) as [[[c2 h2] rel2]|e] eqn:En2; [|discriminate].
      pose proof (number_closures_keeps c _ _ _ _ _ _ _ Hd En2) as Hpres.
      rewrite (IHt _ _ _ _ (ltac:(rewrite Hpres; exact Hd)) Hrun). exact Hpres.
  Qed.

  (* ---- all atoms: number_atoms ---- *)
  Fixpoint wf_events (open seen : list Z) (evs : list (list Z)) : Prop :=
    match evs with
    | [] => True
    | cs :: r => NoDup cs /\ (forall c, In c cs -> In c open \/ ~ In c seen) /\
                 wf_events (open_after open seen cs) (seen ++ opening seen cs) r
    end.

  (* the closure list of an atom in the order number_atoms processes it *)
  Definition atom_closures (tokens : list (Z * list (Z * Z))) (ro : list (Z * Z)) (a : Z) : list (Z * Z) :=
    sort_by (fun x : Z * Z => [match zget ro (fst x) with Some p => p | None => 0 end]) (zgetl tokens a).

  Theorem closure_numbers_consistent : forall tokens ro todo casted heap open seen casted' heap',
    Inv casted heap open seen -> NoDup open ->
    wf_events open seen (map (fun a => map snd (atom_closures tokens ro (fst a))) todo) ->
    number_atoms tokens ro todo casted heap = Ok (casted', heap') ->
    exists open' seen', Inv casted' heap' open' seen' /\ NoDup open' /\
                        (forall c, In c open -> cnum casted' c = cnum casted c).
  Proof.
    intros tokens ro todo. induction todo as [|[a p] todo IH]; intros casted heap open seen casted' heap' I Hno Hwf Hrun.
    - cbn in Hrun. inversion Hrun. subst. exists open, seen. split; [exact I|]. split; [exact Hno|]. intros; reflexivity.
    - cbn [number_atoms] in Hrun. cbn [map fst] in Hwf. cbn [wf_events] in Hwf. destruct Hwf as [Hnd [Hcl Hwf]].
      fold (atom_closures tokens ro a) in Hrun.
      destruct (number_closures (atom_closures tokens ro a) casted heap []) as [[[c1 h1] rel]|e] eqn:En; [|discriminate].
      destruct (atom_no_clash _ _ _ _ _ _ _ _ I Hno Hnd Hcl En) as [Hkeep [_ [I1 Hno1]]].
      destruct (IH _ _ _ _ _ _ I1 Hno1 Hwf Hrun) as [open' [seen' [I' [Hno' Hk']]]].
      exists open', seen'. split; [exact I'|]. split; [exact Hno'|].
      intros c Hc. (* an open cycle either stays open (number kept by induction) or was closed at this atom *)
      destruct (in_dec Z.eq_dec c (open_after open seen (map snd (atom_closures tokens ro a)))) as [Hin | Hnin].
      + rewrite (Hk' c Hin). apply Hkeep. exact Hc.
      + (* closed at this atom: its entry in casted is never overwritten *)
        pose proof (inv_dom _ _ _ _ I c Hc) as Hd0.
        pose proof (number_closures_keeps c _ _ _ _ _ _ _ Hd0 En) as H1.
        assert (Hd1 : zget c1 c <> None) by (rewrite H1; exact Hd0).
        pose proof (number_atoms_keeps tokens ro c _ _ _ _ _ Hd1 Hrun) as H2.
        unfold cnum, casted_of. rewrite H2, H1. reflexivity.
  Qed.
End Closures.

(* ------------------------------------------------------------------------------------------------ the initial state *)
Definition closure_number_ok (k : Z) : Prop := heap_lo <= k < heap_hi.

Lemma initial_inv : Inv closure_number_ok [] (zrange heap_lo heap_hi) [] [].
Proof.
  constructor.
  - intros c [].
  - intros c H. cbn in H. contradiction.
  - constructor.
  - apply zrange_from_NoDup.
  - intros c [].
  - intros k Hk. apply zrange_In in Hk. exact Hk.
  - intros c k H. discriminate H.
Qed.

(* every number given to a cycle in a component written from the initial state is one of heap_lo .. heap_hi - 1, hence is read
   back as that number (WriterProofs.closure_roundtrip) *)
Corollary closure_numbers_in_range : forall tokens ro todo casted' heap',
  wf_events [] [] (map (fun a => map snd (atom_closures tokens ro (fst a))) todo) ->
  number_atoms tokens ro todo [] (zrange heap_lo heap_hi) = Ok (casted', heap') ->
  forall c k, zget casted' c = Some k -> heap_lo <= k < heap_hi.
Proof.
  intros tokens ro todo casted' heap' Hwf Hrun c k Hk.
  destruct (closure_numbers_consistent closure_number_ok tokens ro todo [] _ [] [] casted' heap' initial_inv (NoDup_nil _) Hwf Hrun)
    as [open' [seen' [I _]]].
  exact (inv_good_cast _ _ _ _ _ I c k Hk).
Qed.

(* ---- a decision procedure for the hypothesis, evaluated by the check on the closure lists of the model's runs ---- *)
Fixpoint wf_events_b (open seen : list Z) (evs : list (list Z)) : bool :=
  match evs with
  | [] => true
  | cs :: r => nodup_z cs && forallb (fun c => zmem c open || negb (zmem c seen)) cs &&
               wf_events_b (open_after open seen cs) (seen ++ opening seen cs) r
  end.

Lemma nodup_z_NoDup l : nodup_z l = true -> NoDup l.
Proof.
  induction l as [|x l IH]; intros H; [constructor|]. cbn [nodup_z] in H. apply andb_true_iff in H. destruct H as [H1 H2].
  constructor; [|apply IH; exact H2]. apply negb_true_iff in H1. intros Hin. apply zmem_In in Hin. congruence.
Qed.

Lemma wf_events_b_sound : forall evs open seen, wf_events_b open seen evs = true -> wf_events open seen evs.
Proof.
  induction evs as [|cs r IH]; intros open seen H; cbn [wf_events]; [exact I|].
  cbn [wf_events_b] in H. apply andb_true_iff in H. destruct H as [H H3]. apply andb_true_iff in H. destruct H as [H1 H2].
  split; [apply nodup_z_NoDup; exact H1|]. split; [|apply IH; exact H3].
  intros c Hc. rewrite forallb_forall in H2. specialize (H2 c Hc). apply orb_true_iff in H2. destruct H2 as [H2 | H2].
  - left. apply zmem_In. exact H2.
  - right. apply negb_true_iff in H2. intros Hin. apply zmem_In in Hin. congruence.
Qed.

(* the closure lists of the first component of a molecule, as number_atoms processes them *)
Definition first_component_events (g : mol) (w tb : Z -> Z) (o : opts) : option (list (list Z)) :=
  match traverse g w tb o (ids g) (init_state g) with
  | Ok t =>
      match flatten g t with
      | Ok smi =>
          let tokens := ds_tokens (tr_dfs t) in
          let ro := ring_positions tokens smi 0 in
          Some (map (fun a => map snd (atom_closures tokens ro (fst a))) ro)
      | Err _ => None
      end
  | Err _ => None
  end.
Definition events_ok (g : mol) (w tb : Z -> Z) (o : opts) : bool :=
  match first_component_events g w tb o with Some evs => wf_events_b [] [] evs | None => false end.

(* non-vacuity and the point of the delayed release: at a spiro atom where cycle 1 ends and cycle 2 starts, cycle 2 does not
   get the number of cycle 1 (C1CC12CC2, never C1CC11CC1) *)
Lemma delayed_release_example :
  number_atoms [(1, [(3, 1)]); (3, [(1, 1); (5, 2)]); (5, [(3, 2)])] [(1, 0); (3, 2); (5, 4)] [(1, 0); (3, 2); (5, 4)] []
               (zrange heap_lo heap_hi) = Ok ([(1, 1); (2, 2)], zrange heap_lo heap_hi) /\
  wf_events [] [] [[1]; [1; 2]; [2]].
Proof. split; [vm_compute; reflexivity | apply wf_events_b_sound; vm_compute; reflexivity]. Qed.
