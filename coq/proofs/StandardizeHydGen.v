(* C14 extension: explicify_hydrogens is idempotent (general) *)
From Coq Require Import ZArith List String Bool Lia.
From Model Require Import PyBase Graph PeriodicTable Standardize.
From Gen Require Import Elements StdRules.
From Proofs Require Import StandardizeProofs StandardizeExt.
Import ListNotations.
Open Scope Z_scope.

Lemma implicit_sum_nonneg l : hs_known l -> 0 <= implicit_sum l.
Proof.
  unfold implicit_sum. induction l as [|[k a] l IH]; intros Hk; [cbn; lia|].
  cbn [map zsum fold_right snd]. fold (zsum (map (fun na => hval (snd na)) l)).
  destruct (Hk (k, a) (or_introl eq_refl)) as [h [Hh Hp]]. cbn [snd] in Hh. unfold hval at 1. rewrite Hh.
  assert (0 <= zsum (map (fun na => hval (snd na)) l)) by (apply IH; intros na Hna; apply Hk; right; exact Hna). lia.
Qed.

Lemma to_add_nil l : hs_known l -> implicit_sum l = 0 -> to_add l = Ok [].
Proof.
  induction l as [|[k a] l IH]; intros Hk Hs; [reflexivity|].
  assert (Hk' : hs_known l) by (intros na Hna; apply Hk; right; exact Hna).
  destruct (Hk (k, a) (or_introl eq_refl)) as [h [Hh Hp]]. cbn [snd] in Hh.
  pose proof (implicit_sum_nonneg l Hk') as Hn.
  unfold implicit_sum in Hs, Hn. cbn [map zsum fold_right snd] in Hs. fold (zsum (map (fun na => hval (snd na)) l)) in Hs.
  unfold hval at 1 in Hs. rewrite Hh in Hs.
  assert (h = 0) by lia. subst h.
  cbn [to_add]. rewrite Hh. rewrite (IH Hk'); [reflexivity|]. unfold implicit_sum. lia.
Qed.

Lemma hs_known_new_hs k : forall m, hs_known (new_hs k m).
Proof.
  induction k as [|k IH]; intros m na Hna; [destruct Hna|]. cbn [new_hs] in Hna. destruct Hna as [<- | Hna].
  - exists 0. split; [reflexivity|lia].
  - exact (IH (m + 1) na Hna).
Qed.

Lemma hs_known_zero_h ns l : hs_known l -> hs_known (map (zero_h ns) l).
Proof.
  intros Hk na Hna. apply in_map_iff in Hna. destruct Hna as [[k a] [Heq Hin]]. subst na.
  unfold zero_h. cbn [fst snd]. destruct (zmem k ns); cbn [snd].
  - exists 0. split; [reflexivity|lia].
  - exact (Hk (k, a) Hin).
Qed.

Lemma explicify_hs_known g g' : hs_known (m_atoms g) -> explicify g = Ok g' -> hs_known (m_atoms g').
Proof.
  intros Hk. unfold explicify. destruct (to_add (m_atoms g)) as [ns|]; [|discriminate].
  assert (Hgen : forall m, hs_known (m_atoms (add_hs g ns m))).
  { intros m. rewrite add_hs_atoms. intros na Hna. apply in_app_or in Hna. destruct Hna as [Hna | Hna].
    - exact (hs_known_zero_h ns _ Hk na Hna).
    - exact (hs_known_new_hs _ _ na Hna). }
  destruct ns as [|n ns]; intros H; inversion H; subst g'; [exact Hk|apply Hgen].
Qed.

(* explicify_hydrogens is idempotent: a second application adds nothing and returns the same molecule *)
Theorem explicify_idempotent g g' : hs_known (m_atoms g) -> explicify g = Ok g' -> explicify g' = Ok g'.
Proof.
  intros Hk H. destruct (explicify_conserves g g' Hk H) as [_ [_ [_ Hz]]].
  pose proof (explicify_hs_known g g' Hk H) as Hk'.
  unfold explicify. rewrite (to_add_nil _ Hk' Hz). reflexivity.
Qed.

(* implicify_hydrogens on a molecule without protium atoms is the identity, for ANY valence lookup *)
Lemma scan_explicit_no_protium g : forall l d, (forall na, In na l -> is_protium (snd na) = false) -> scan_explicit g l d = Ok d.
Proof.
  induction l as [|[n a] l IH]; intros d H; [reflexivity|]. cbn [scan_explicit].
  pose proof (H (n, a) (or_introl eq_refl)) as Hp. cbn [snd] in Hp. rewrite Hp. apply IH. intros na Hna. apply H. right. exact Hna.
Qed.

Lemma filter_all {A} (f : A -> bool) l : (forall x, f x = true) -> filter f l = l.
Proof. intros H. induction l as [|x l IH]; [reflexivity|]. cbn [filter]. rewrite H, IH. reflexivity. Qed.

Theorem implicify_no_protium vlookup g :
  (forall na, In na (m_atoms g) -> is_protium (snd na) = false) -> implicify vlookup g = Ok g.
Proof.
  intros H. unfold implicify. rewrite (scan_explicit_no_protium g (m_atoms g) [] H). cbn [decide_all set_hs fold_left].
  unfold remove_atoms. destruct g as [atoms adj]. cbn [m_atoms m_adj]. f_equal. f_equal.
  - apply filter_all. intros x. reflexivity.
  - rewrite (filter_all (fun nl : Z * list (Z * bond) => negb (zmem (fst nl) []))) by (intros x; reflexivity).
    erewrite map_ext; [apply map_id|]. intros [k l]. cbn [fst snd].
    rewrite (filter_all (fun mb : Z * bond => negb (zmem (fst mb) []))) by (intros x; reflexivity). reflexivity.
Qed.
