(* C04 round 4 -- the edits the rule engine of standardize() makes (Standardize.__standardize: `a._charge += ch`, `a._is_radical = ir`
   for the atoms of atom_fix; `b._order = bo` or a new Bond(bo) for the pairs of bonds_fix) and the atoms it collects for
   recalculation (hs: the atoms of atom_fix, BOTH ends of every pair of bonds_fix):
     edit_keeps_others     an edit changes neither the stored count nor the value of calc_implicit of any atom it does not touch
                           (a charge / radical change is invisible to the neighbours: rules see the neighbour's ELEMENT only)
     edits_recalc_fresh    fresh molecule -> any sequence of such edits -> recalculation of a set hs that contains every touched atom
                           => every atom of the result carries the count calc_implicit gives it (nothing stale, so check_valence and
                           the formula are right)
   With C04_selective_recalc_needs_all (ValenceStd) this is exact: leaving one end of a changed bond out of hs leaves a stale atom. *)
From Coq Require Import ZArith List String Bool Lia.
From Model Require Import PyBase Graph PeriodicTable Valence ValenceArom.
From Gen Require Import Elements.
From Proofs Require Import ValenceProofs ValenceExt ValenceImpl ValenceStd.
Import ListNotations.
Open Scope Z_scope.

(* a._charge = c; a._is_radical = r *)
Definition set_state (g : mol) (n c : Z) (r : bool) : mol :=
  mkMol (map (fun na => if fst na =? n then (fst na, mkAtom (a_num (snd na)) (a_iso (snd na)) c r (a_h (snd na)) (a_stereo (snd na)))
                        else na) (m_atoms g))
        (m_adj g).
(* bonds[n][m]: b._order = o when the bond exists, a new Bond(o) at the end of the row otherwise *)
Fixpoint row_set (row : list (Z * bond)) (m o : Z) : list (Z * bond) :=
  match row with
  | [] => [(m, mkBond o None)]
  | (k, b) :: r => if k =? m then (k, mkBond o (b_stereo b)) :: r else (k, b) :: row_set r m o
  end.
Definition adj_set (adj : list (Z * list (Z * bond))) (n m o : Z) : list (Z * list (Z * bond)) :=
  map (fun nl => if fst nl =? n then (fst nl, row_set (snd nl) m o) else nl) adj.
Definition set_order (g : mol) (n m o : Z) : mol := mkMol (m_atoms g) (adj_set (adj_set (m_adj g) n m o) m n o).

Inductive edit := EState (n c : Z) (r : bool) | EOrder (n m o : Z).
Definition apply_edit (g : mol) (e : edit) : mol :=
  match e with EState n c r => set_state g n c r | EOrder n m o => set_order g n m o end.
Definition touched (e : edit) : list Z := match e with EState n _ _ => [n] | EOrder n m _ => [n; m] end.
Definition apply_edits (g : mol) (es : list edit) : mol := fold_left apply_edit es g.

Lemma atom_of_set_state g n c r k :
  atom_of (set_state g n c r) k =
  match atom_of g k with
  | Some a => Some (if k =? n then mkAtom (a_num a) (a_iso a) c r (a_h a) (a_stereo a) else a)
  | None => None
  end.
Proof.
  unfold atom_of, set_state. cbn [m_atoms]. induction (m_atoms g) as [|[k0 a0] l IH]; cbn [map zget fst snd]; [reflexivity|].
  destruct (k0 =? n) eqn:E0; cbn [zget fst snd].
  - destruct (k =? k0) eqn:E; [|exact IH]. apply Z.eqb_eq in E. subst k0. rewrite E0. reflexivity.
  - destruct (k =? k0) eqn:E; [|exact IH]. apply Z.eqb_eq in E. subst k0. rewrite E0. reflexivity.
Qed.
Lemma ids_set_state g n c r : ids (set_state g n c r) = ids g.
Proof.
  unfold ids, set_state, keys. cbn [m_atoms]. rewrite map_map. apply map_ext. intros [k a]. cbn [fst snd]. destruct (k =? n); reflexivity.
Qed.
Lemma nview_set_state g n c r nb : nview_of (set_state g n c r) nb = nview_of g nb.
Proof.
  unfold nview_of. apply map_ext. intros [x bd]. cbn [fst snd]. rewrite atom_of_set_state.
  destruct (atom_of g x) as [a|]; [|reflexivity]. destruct (x =? n); reflexivity.
Qed.

Lemma zget_adj_set adj n m o k : k <> n -> zget (adj_set adj n m o) k = zget adj k.
Proof.
  intros N. unfold adj_set. induction adj as [|[k0 row] l IH]; cbn [map zget fst snd]; [reflexivity|].
  destruct (k0 =? n) eqn:E0; cbn [zget fst snd]; destruct (k =? k0) eqn:E; try exact IH; [|reflexivity].
  apply Z.eqb_eq in E. apply Z.eqb_eq in E0. subst. contradiction.
Qed.

Theorem edit_keeps_others g e k : ~ In k (touched e) ->
  ids (apply_edit g e) = ids g /\
  option_map a_h (atom_of (apply_edit g e) k) = option_map a_h (atom_of g k) /\
  calc_implicit (apply_edit g e) k = calc_implicit g k.
Proof.
  intros N. destruct e as [n c r | n m o]; cbn [apply_edit touched In] in *.
  - assert (Hk : (k =? n) = false) by (apply Z.eqb_neq; intros E; apply N; left; symmetry; exact E).
    split; [apply ids_set_state|]. split.
    + rewrite atom_of_set_state. destruct (atom_of g k); [rewrite Hk|]; reflexivity.
    + unfold calc_implicit. rewrite atom_of_set_state. destruct (atom_of g k) as [a|]; [|reflexivity]. rewrite Hk.
      destruct (a_num a =? 1); [reflexivity|]. cbn [set_state m_adj].
      destruct (zget (m_adj g) k) as [nb|]; [|reflexivity]. rewrite nview_set_state. reflexivity.
  - assert (Hn : k <> n) by (intros E; apply N; left; symmetry; exact E).
    assert (Hm : k <> m) by (intros E; apply N; right; left; symmetry; exact E).
    split; [reflexivity|]. split; [reflexivity|].
    unfold calc_implicit, set_order. cbn [m_adj]. change (atom_of (mkMol (m_atoms g) (adj_set (adj_set (m_adj g) n m o) m n o)) k) with (atom_of g k).
    destruct (atom_of g k) as [a|]; [|reflexivity]. destruct (a_num a =? 1); [reflexivity|].
    rewrite (zget_adj_set _ m n o k Hm), (zget_adj_set _ n m o k Hn). reflexivity.
Qed.

Lemma edits_keep_others es : forall g k, (forall e, In e es -> ~ In k (touched e)) ->
  ids (apply_edits g es) = ids g /\
  option_map a_h (atom_of (apply_edits g es) k) = option_map a_h (atom_of g k) /\
  calc_implicit (apply_edits g es) k = calc_implicit g k.
Proof.
  induction es as [|e r IH]; intros g k H; cbn [apply_edits fold_left]; [repeat split; reflexivity|].
  destruct (edit_keeps_others g e k (H e (or_introl eq_refl))) as [I1 [A1 C1]].
  destruct (IH (apply_edit g e) k (fun e' He' => H e' (or_intror He'))) as [I2 [A2 C2]]. unfold apply_edits in *.
  split; [rewrite I2; exact I1|]. split; [rewrite A2; exact A1 | rewrite C2; exact C1].
Qed.
Lemma ids_apply_edits es : forall g, ids (apply_edits g es) = ids g.
Proof.
  induction es as [|e r IH]; intros g; cbn [apply_edits fold_left]; [reflexivity|]. unfold apply_edits in IH. rewrite IH.
  destruct e; [apply ids_set_state | reflexivity].
Qed.

Theorem edits_recalc_fresh g0 es hs g2 :
  (forall k, In k (ids g0) -> fresh_at g0 k) ->
  (forall e k, In e es -> In k (touched e) -> In k hs) ->
  recalc_loop (apply_edits g0 es) hs = Ok g2 ->
  ids g2 = ids g0 /\ forall k, In k (ids g2) -> fresh_at g2 k.
Proof.
  intros F Cover H.
  destruct (selective_recalc_fresh g0 (apply_edits g0 es) hs g2 F (ids_apply_edits es g0)) as [I Fr]; [|exact H|].
  - intros k _ Nk. destruct (edits_keep_others es g0 k) as [_ [A C]]; [|split; assumption].
    intros e He Hk. apply Nk. exact (Cover e k He Hk).
  - split; [rewrite I; apply ids_apply_edits | exact Fr].
Qed.

(* non-vacuity = the carbonyl rule of the metal-organic table on [Ni]-C#O (carbon 1, oxygen 2, nickel 3):
   atom_fix {1: -1, 2: +1}, bonds_fix (1, 3, 8); hs = {1, 2, 3}.  Before: nickel has no valence state; after: [Ni]~[C-]#[O+], all three fresh *)
Definition nickel_carbonyl : mol :=
  mkMol [(1, mkAtom 6 None 0 false (Some 0) None); (2, mkAtom 8 None 0 false None None); (3, mkAtom 28 None 0 false None None)]
        [(1, [(2, mkBond 3 None); (3, mkBond 1 None)]); (2, [(1, mkBond 3 None)]); (3, [(1, mkBond 1 None)])].
Definition carbonyl_edits : list edit := [EState 1 (-1) false; EState 2 1 false; EOrder 1 3 8].
Example edits_recalc_fresh_example :
  fresh_on nickel_carbonyl [1; 2; 3] = true /\ check_valence nickel_carbonyl = [2; 3] /\
  exists g, recalc_loop (apply_edits nickel_carbonyl carbonyl_edits) [1; 2; 3] = Ok g /\ fresh_on g [1; 2; 3] = true /\ check_valence g = [] /\
            map (fun na => (a_chg (snd na), a_h (snd na))) (m_atoms g) = [(-1, Some 0); (1, Some 0); (0, Some 0)] /\
            bond_of g 3 1 = Some (mkBond 8 None).
Proof. split; [vm_compute; reflexivity|]. split; [vm_compute; reflexivity|]. eexists. vm_compute. repeat split; reflexivity. Qed.
