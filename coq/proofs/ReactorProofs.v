(* C16: proofs about the models of coq/model/Reactor.v *)
From Coq Require Import ZArith List Bool Lia.
From Model Require Import PyBase Graph Reactor.
Import ListNotations.
Open Scope Z_scope.

(* ---------- sets as lists ---------- *)
Lemma zmem_false x l : zmem x l = false <-> ~ In x l.
Proof.
  split; intros H.
  - intros Hi. apply zmem_In in Hi. congruence.
  - destruct (zmem x l) eqn:E; [|reflexivity]. apply zmem_In in E. contradiction.
Qed.

Lemma zadd_In x y l : In x (zadd y l) <-> x = y \/ In x l.
Proof.
  unfold zadd. destruct (zmem y l) eqn:E.
  - apply zmem_In in E. split; [auto|]. intros [->|H]; assumption.
  - cbn. split; intros [H|H]; auto.
Qed.

Lemma zunion_In x a b : In x (zunion a b) <-> In x a \/ In x b.
Proof.
  unfold zunion. induction a as [|y a IH]; cbn [fold_right].
  - cbn. tauto.
  - rewrite zadd_In, IH. cbn. intuition.
Qed.

Lemma zdiff_In x a b : In x (zdiff a b) <-> In x a /\ ~ In x b.
Proof.
  unfold zdiff. rewrite filter_In, negb_true_iff, zmem_false. tauto.
Qed.

Lemma zinter_In x a b : In x (zinter a b) <-> In x a /\ In x b.
Proof. unfold zinter. rewrite filter_In, zmem_In. tauto. Qed.

Lemma push_In x l s : In x (push l s) <-> In x l \/ In x s.
Proof. unfold push. rewrite in_app_iff, <- in_rev. tauto. Qed.

Lemma push_length l s : length (push l s) = (length l + length s)%nat.
Proof. unfold push. rewrite app_length, rev_length. reflexivity. Qed.

Lemma filter_length_le {A} (f : A -> bool) (l : list A) : (length (filter f l) <= length l)%nat.
Proof. induction l as [|x l IH]; cbn; [lia|]. destruct (f x); cbn; lia. Qed.

(* ---------- dictionaries ---------- *)
Lemma zget_Some_In {V} (d : list (Z * V)) k v : zget d k = Some v -> In (k, v) d.
Proof.
  induction d as [|[k' v'] d IH]; cbn; [discriminate|].
  destruct (Z.eqb_spec k k'); intros H.
  - inversion H; subst. left. reflexivity.
  - right. apply IH. exact H.
Qed.

Lemma zget_Some_key {V} (d : list (Z * V)) k v : zget d k = Some v -> In k (keys d).
Proof. intros H. apply zget_Some_In in H. unfold keys. apply in_map_iff. exists (k, v). split; [reflexivity|exact H]. Qed.

Lemma zget_None_key {V} (d : list (Z * V)) k : zget d k = None <-> ~ In k (keys d).
Proof.
  induction d as [|[k' v'] d IH]; cbn; [tauto|].
  destruct (Z.eqb_spec k k').
  - subst. split; [discriminate|]. intros H. exfalso. apply H. left. reflexivity.
  - rewrite IH. split; intros H; [intros [E|Hi]; [congruence|contradiction]|intros Hi; apply H; right; exact Hi].
Qed.

Lemma zget_key_Some {V} (d : list (Z * V)) k : In k (keys d) -> exists v, zget d k = Some v.
Proof.
  intros H. destruct (zget d k) eqn:E; [eexists; reflexivity|]. apply zget_None_key in E. contradiction.
Qed.

Lemma gnbrs_Some g a nb : zget g a = Some nb -> gnbrs g a = nb.
Proof. unfold gnbrs. intros ->. reflexivity. Qed.

Lemma adj_has_entry g a b : adj g a b -> exists nb, zget g a = Some nb.
Proof.
  unfold adj, gnbrs. destruct (zget g a); [eexists; reflexivity|]. intros [].
Qed.

Lemma adj_key g a b : adj g a b -> In a (keys g).
Proof. intros H. destruct (adj_has_entry _ _ _ H) as [nb E]. eapply zget_Some_key. exact E. Qed.

Lemma sym_graph_sym g : sym_graph g = true -> forall a b, adj g a b -> adj g b a.
Proof.
  unfold sym_graph. intros H a b Hab. rewrite forallb_forall in H.
  destruct (adj_has_entry _ _ _ Hab) as [nb E].
  specialize (H (a, nb) (zget_Some_In _ _ _ E)). cbn in H. rewrite forallb_forall in H.
  unfold adj in Hab. rewrite (gnbrs_Some _ _ _ E) in Hab.
  specialize (H b Hab). apply zmem_In in H. exact H.
Qed.

(* ---------- reachability inside the remainder ---------- *)
Section Reach.
  Variables (g : graph) (D : list Z).

  Lemma reach_notD_l x y : reach_av g D x y -> ~ In x D.
  Proof. induction 1; assumption. Qed.

  Lemma reach_notD_r x y : reach_av g D x y -> ~ In y D.
  Proof. induction 1; assumption. Qed.

  Lemma reach_trans x y z : reach_av g D x y -> reach_av g D y z -> reach_av g D x z.
  Proof.
    intros Hxy Hyz. revert Hxy. induction Hyz as [y Hy|y w z Hyw IH Ha Hz]; intros Hxy.
    - exact Hxy.
    - eapply ra_step; [apply IH; exact Hxy|exact Ha|exact Hz].
  Qed.

  Lemma reach_edge x y : ~ In x D -> ~ In y D -> adj g x y -> reach_av g D x y.
  Proof. intros Hx Hy Ha. eapply ra_step; [apply ra_refl; exact Hx|exact Ha|exact Hy]. Qed.

  Lemma reach_ind_from (P : Z -> Prop) m :
    P m -> (forall y z, reach_av g D m y -> P y -> adj g y z -> ~ In z D -> P z) ->
    forall y, reach_av g D m y -> P y.
  Proof.
    intros H0 Hs y Hr. revert H0 Hs. induction Hr as [x Hx|x y z Hxy IH Ha Hz]; intros H0 Hs.
    - exact H0.
    - apply (Hs y z Hxy (IH H0 Hs) Ha Hz).
  Qed.

  Hypothesis Hsym : forall a b, adj g a b -> adj g b a.

  Lemma reach_sym x y : reach_av g D x y -> reach_av g D y x.
  Proof.
    induction 1 as [x Hx|x y z Hxy IH Ha Hz].
    - apply ra_refl. exact Hx.
    - eapply reach_trans; [|exact IH].
      apply reach_edge; [exact Hz|eapply reach_notD_r; exact Hxy|apply Hsym; exact Ha].
  Qed.
End Reach.

(* ---------- the potential that bounds the repaired walk ---------- *)
Definition phi (g : graph) (gs : list Z) : nat :=
  fold_right (fun vl acc => ((if zmem (fst vl) gs then 0 else S (length (snd vl))) + acc)%nat) 0%nat g.

Lemma phi_le_total g gs : (phi g gs <= total_size g)%nat.
Proof.
  induction g as [|[v l] g IH]; [cbn; lia|].
  cbn [phi total_size fold_right fst snd]. fold (phi g gs). fold (total_size g).
  destruct (zmem v gs); lia.
Qed.

Lemma phi_mono g gs c : (phi g (c :: gs) <= phi g gs)%nat.
Proof.
  induction g as [|[v l] g IH]; cbn [phi fold_right fst snd]; [lia|].
  fold (phi g (c :: gs)). fold (phi g gs).
  cbn [zmem existsb]. fold (zmem v gs).
  destruct (v =? c); cbn [orb]; destruct (zmem v gs); lia.
Qed.

Lemma phi_mark g gs c nb : zget g c = Some nb -> zmem c gs = false ->
  (phi g (zadd c gs) + S (length nb) <= phi g gs)%nat.
Proof.
  intros Hget Hc. unfold zadd. rewrite Hc.
  induction g as [|[v l] g IH]; [discriminate|].
  cbn [phi fold_right fst snd]. fold (phi g (c :: gs)). fold (phi g gs).
  cbn [zget] in Hget. cbn [zmem existsb]. fold (zmem v gs).
  destruct (Z.eqb_spec c v) as [->|Hne].
  - inversion Hget; subst. rewrite Z.eqb_refl. cbn [orb]. rewrite Hc.
    pose proof (phi_mono g gs v). lia.
  - assert (E : (v =? c) = false) by (apply Z.eqb_neq; congruence). rewrite E. cbn [orb].
    specialize (IH Hget). destruct (zmem v gs); lia.
Qed.

(* ====================================================================================================
   the repaired _get_deleted meets the specification
   ==================================================================================================== *)
Section Fixed.
  Variables (g : graph) (D K : list Z).
  Hypothesis Hsym : forall a b, adj g a b -> adj g b a.
  Hypothesis HKD : forall k, In k K -> ~ In k D.

  Section Walk.
    Variables (n : Z) (gs0 : list Z).

    (* invariant of the while loop of one walk started at n *)
    Definition WI (stack seen gs : list Z) : Prop :=
      (forall v, In v gs <-> In v gs0 \/ In v seen) /\
      (forall v, In v seen -> reach_av g D n v /\ ~ In v K /\ ~ In v gs0) /\
      (forall s, In s stack -> exists v, In v seen /\ adj g v s) /\
      (forall v w, In v seen -> adj g v w -> In w gs \/ In w stack \/ In w D) /\
      In n seen.

    Lemma walk_fixed_ok : forall fuel stack seen gs,
      WI stack seen gs -> (phi g gs + length stack < fuel)%nat ->
      match walk_fixed g K D fuel stack seen gs with
      | WBreak gs' _ => (forall v, In v gs' <-> In v gs0) /\ exists k, In k K /\ reach_av g D n k
      | WDone gs' seen' => WI [] seen' gs'
      | WKeyErr | WFuel => False
      end.
    Proof.
      induction fuel as [|f IH]; intros stack seen gs HI Hf; [lia|].
      destruct HI as (Ha & Hb & Hc & Hd & He).
      cbn [walk_fixed]. destruct stack as [|cur rest].
      - exact (conj Ha (conj Hb (conj Hc (conj Hd He)))).
      - destruct (zmem cur K) eqn:EK.
        + apply zmem_In in EK. split.
          * intros v. rewrite zdiff_In, Ha. split.
            -- intros [[H|H] Hn]; [exact H|contradiction].
            -- intros H. split; [left; exact H|]. intros Hs. apply Hb in Hs. tauto.
          * exists cur. split; [exact EK|].
            destruct (Hc cur (or_introl eq_refl)) as (v & Hv & Hvc).
            eapply ra_step; [apply Hb; exact Hv|exact Hvc|apply HKD; exact EK].
        + apply zmem_false in EK.
          destruct (zmem cur D || zmem cur gs) eqn:ES.
          * apply IH; [|cbn [length] in Hf; lia].
            split; [exact Ha|]. split; [exact Hb|]. split; [|split; [|exact He]].
            -- intros s Hs. apply Hc. right. exact Hs.
            -- intros v w Hv Hvw. destruct (Hd v w Hv Hvw) as [H|[[H|H]|H]]; auto.
               subst w. apply orb_true_iff in ES. destruct ES as [ES|ES]; apply zmem_In in ES; auto.
          * apply orb_false_iff in ES. destruct ES as [ED EG].
            apply zmem_false in ED.
            destruct (Hc cur (or_introl eq_refl)) as (v0 & Hv0 & Hv0c).
            destruct (adj_has_entry _ _ _ (Hsym _ _ Hv0c)) as [nb Enb]. rewrite Enb.
            pose proof (phi_mark g gs cur nb Enb EG) as Hphi.
            apply zmem_false in EG.
            apply IH.
            -- unfold WI. split; [|split; [|split; [|split]]].
               ++ intros v. rewrite !zadd_In, Ha. tauto.
               ++ intros v Hv. apply zadd_In in Hv. destruct Hv as [->|Hv]; [|apply Hb; exact Hv].
                  split; [|split].
                  ** eapply ra_step; [apply Hb; exact Hv0|exact Hv0c|exact ED].
                  ** exact EK.
                  ** intros H. apply EG. apply Ha. left. exact H.
               ++ intros s Hs. apply push_In in Hs. destruct Hs as [Hs|Hs].
                  ** apply filter_In in Hs. destruct Hs as [Hs _]. exists cur. split; [apply zadd_In; left; reflexivity|].
                     unfold adj. rewrite (gnbrs_Some _ _ _ Enb). exact Hs.
                  ** destruct (Hc s (or_intror Hs)) as (v & Hv & Hvs). exists v. split; [apply zadd_In; right; exact Hv|exact Hvs].
               ++ intros v w Hv Hvw. apply zadd_In in Hv. destruct Hv as [->|Hv].
                  ** unfold adj in Hvw. rewrite (gnbrs_Some _ _ _ Enb) in Hvw.
                     destruct (zmem w (zadd cur gs)) eqn:Ew.
                     --- left. apply zmem_In. exact Ew.
                     --- right. left. apply push_In. left. apply filter_In. split; [exact Hvw|]. rewrite Ew. reflexivity.
                  ** destruct (Hd v w Hv Hvw) as [H|[[H|H]|H]].
                     --- left. apply zadd_In. right. exact H.
                     --- left. apply zadd_In. left. symmetry. exact H.
                     --- right. left. apply push_In. right. exact H.
                     --- right. right. exact H.
               ++ apply zadd_In. right. exact He.
            -- rewrite push_length. cbn [length] in Hf.
               pose proof (filter_length_le (fun x => negb (zmem x (zadd cur gs))) nb). lia.
    Qed.
  End Walk.

  (* invariant of the two outer loops; st = (delete, global_seen) *)
  Definition OI (st : list Z * list Z) : Prop :=
    (forall v, In v (snd st) <-> In v (fst st)) /\
    (forall v, In v (fst st) -> detached g D K v) /\
    (forall v w, In v (fst st) -> reach_av g D v w -> In w (fst st)).

  (* what has been decided about a neighbour m of a deleted atom *)
  Definition handled (delete : list Z) (m : Z) : Prop :=
    In m K \/ In m D \/ In m delete \/ exists k, In k K /\ reach_av g D m k.

  Lemma handled_mono d d' m : (forall v, In v d -> In v d') -> handled d m -> handled d' m.
  Proof. unfold handled. intros H [?|[?|[?|?]]]; auto. Qed.

  Lemma start_walk_fixed_ok st m :
    OI st -> (exists d, In d D /\ adj g d m) ->
    exists st', start_walk_fixed g K D (fuel_fixed g) st m = Ok st' /\ OI st' /\
                (forall v, In v (fst st) -> In v (fst st')) /\ handled (fst st') m.
  Proof.
    destruct st as [delete gs]. intros (O1 & O2 & O3) (d & HdD & Hdm). cbn [fst snd] in *.
    unfold start_walk_fixed.
    destruct (zmem m gs || zmem m K || zmem m D) eqn:ES.
    - exists (delete, gs). split; [reflexivity|]. split; [exact (conj O1 (conj O2 O3))|]. split; [auto|].
      cbn [fst]. unfold handled.
      apply orb_true_iff in ES. destruct ES as [ES|ES]; [apply orb_true_iff in ES; destruct ES as [ES|ES]|];
        apply zmem_In in ES; auto. right. right. left. apply O1. exact ES.
    - apply orb_false_iff in ES. destruct ES as [ES ED]. apply orb_false_iff in ES. destruct ES as [EG EK].
      destruct (adj_has_entry _ _ _ (Hsym _ _ Hdm)) as [nb Enb]. rewrite Enb.
      pose proof (phi_mark g gs m nb Enb EG) as Hphi.
      apply zmem_false in EG. apply zmem_false in EK. apply zmem_false in ED.
      set (stack0 := push (filter (fun x => negb (zmem x (zadd m gs))) nb) []).
      assert (HI : WI m gs stack0 [m] (zadd m gs)).
      { unfold WI. split; [|split; [|split; [|split]]].
        - intros v. rewrite zadd_In. cbn. intuition.
        - intros v [<-|[]]. split; [apply ra_refl; exact ED|]. split; assumption.
        - intros s Hs. unfold stack0 in Hs. apply push_In in Hs. destruct Hs as [Hs|[]].
          apply filter_In in Hs. destruct Hs as [Hs _]. exists m. split; [left; reflexivity|].
          unfold adj. rewrite (gnbrs_Some _ _ _ Enb). exact Hs.
        - intros v w [<-|[]] Hvw. unfold adj in Hvw. rewrite (gnbrs_Some _ _ _ Enb) in Hvw.
          destruct (zmem w (zadd m gs)) eqn:Ew.
          + left. apply zmem_In. exact Ew.
          + right. left. unfold stack0. apply push_In. left. apply filter_In. split; [exact Hvw|]. rewrite Ew. reflexivity.
        - left. reflexivity. }
      assert (Hf : (phi g (zadd m gs) + length stack0 < fuel_fixed g)%nat).
      { unfold stack0, fuel_fixed. rewrite push_length. cbn [length].
        pose proof (filter_length_le (fun x => negb (zmem x (zadd m gs))) nb).
        pose proof (phi_le_total g gs). lia. }
      pose proof (walk_fixed_ok m gs (fuel_fixed g) stack0 [m] (zadd m gs) HI Hf) as HW.
      destruct (walk_fixed g K D (fuel_fixed g) stack0 [m] (zadd m gs)) as [gs' seen'|gs' seen'| |]; try contradiction.
      + destruct HW as (Hgs' & k & HkK & Hmk).
        exists (delete, gs'). split; [reflexivity|]. split; [|split; [auto|]].
        * split; [|split; auto]. cbn [fst snd]. intros v. rewrite Hgs'. apply O1.
        * cbn [fst]. right. right. right. exists k. split; assumption.
      + destruct HW as (Ha & Hb & _ & Hd & He).
        (* the finished walk has collected the whole piece of m *)
        assert (Hclosed : forall y, reach_av g D m y -> In y seen').
        { apply reach_ind_from; [exact He|]. intros y z Hxy IHy Hyz Hz.
          destruct (Hd y z IHy Hyz) as [H|[[]|H]]; [|contradiction].
          apply Ha in H. destruct H as [H|H]; [|exact H]. exfalso.
          apply (proj2 (proj2 (Hb y IHy))). apply O1.
          apply (O3 z y); [apply O1; exact H|].
          apply reach_edge; [exact Hz|eapply reach_notD_r; exact Hxy|apply Hsym; exact Hyz]. }
        exists (zunion seen' delete, gs'). split; [reflexivity|]. split; [|split].
        * split; [|split]; cbn [fst snd].
          -- intros v. rewrite Ha, zunion_In, O1. tauto.
          -- intros v Hv. apply zunion_In in Hv. destruct Hv as [Hv|Hv]; [|apply O2; exact Hv].
             destruct (Hb v Hv) as (Hmv & _ & _).
             split; [eapply reach_notD_r; exact Hmv|]. split.
             ++ exists d, m. repeat split; assumption.
             ++ intros y Hvy. apply (Hb y). apply Hclosed. eapply reach_trans; eassumption.
          -- intros v w Hv Hvw. apply zunion_In. apply zunion_In in Hv. destruct Hv as [Hv|Hv].
             ++ left. apply Hclosed. eapply reach_trans; [apply Hb; exact Hv|exact Hvw].
             ++ right. eapply O3; eassumption.
        * cbn [fst]. intros v Hv. apply zunion_In. right. exact Hv.
        * cbn [fst]. right. right. left. apply zunion_In. left. exact He.
  Qed.

  Lemma inner_loop_ok : forall l st,
    OI st -> (forall m, In m l -> exists d, In d D /\ adj g d m) ->
    exists st', fold_res (start_walk_fixed g K D (fuel_fixed g)) l st = Ok st' /\ OI st' /\
                (forall v, In v (fst st) -> In v (fst st')) /\ (forall m, In m l -> handled (fst st') m).
  Proof.
    induction l as [|m l IH]; intros st HO Hl.
    - exists st. cbn. split; [reflexivity|]. split; [exact HO|]. split; [auto|]. intros m [].
    - destruct (start_walk_fixed_ok st m HO (Hl m (or_introl eq_refl))) as (st1 & E1 & HO1 & Hm1 & Hh1).
      destruct (IH st1 HO1 (fun m' Hm' => Hl m' (or_intror Hm'))) as (st2 & E2 & HO2 & Hm2 & Hh2).
      exists st2. cbn [fold_res]. rewrite E1. split; [exact E2|]. split; [exact HO2|]. split; [auto|].
      intros m' [<-|Hm']; [|apply Hh2; exact Hm'].
      eapply handled_mono; [exact Hm2|exact Hh1].
  Qed.

  Hypothesis HDkeys : forall d, In d D -> In d (keys g).

  Lemma outer_loop_ok : forall l st,
    OI st -> incl l D ->
    exists st', fold_res (fun st x => match zget g x with
                                      | None => Err KeyError
                                      | Some nb => fold_res (start_walk_fixed g K D (fuel_fixed g)) nb st
                                      end) l st = Ok st' /\ OI st' /\
                (forall v, In v (fst st) -> In v (fst st')) /\
                (forall x m, In x l -> adj g x m -> handled (fst st') m).
  Proof.
    induction l as [|x l IH]; intros st HO Hl.
    - exists st. cbn. split; [reflexivity|]. split; [exact HO|]. split; [auto|]. intros x m [].
    - assert (HxD : In x D) by (apply Hl; left; reflexivity).
      destruct (zget_key_Some _ _ (HDkeys x HxD)) as [nb Enb].
      destruct (inner_loop_ok nb st HO) as (st1 & E1 & HO1 & Hm1 & Hh1).
      { intros m Hm. exists x. split; [exact HxD|]. unfold adj. rewrite (gnbrs_Some _ _ _ Enb). exact Hm. }
      destruct (IH st1 HO1 (fun y Hy => Hl y (or_intror Hy))) as (st2 & E2 & HO2 & Hm2 & Hh2).
      exists st2. cbn [fold_res]. rewrite Enb, E1. split; [exact E2|]. split; [exact HO2|]. split; [auto|].
      intros y m [<-|Hy] Hym; [|eapply Hh2; eassumption].
      eapply handled_mono; [exact Hm2|]. apply Hh1. unfold adj in Hym. rewrite (gnbrs_Some _ _ _ Enb) in Hym. exact Hym.
  Qed.

  Lemma get_deleted_fixed_core_spec :
    exists r, get_deleted_fixed_core g D K = Ok r /\ forall x, In x r <-> deleted_spec g D K x.
  Proof.
    destruct (outer_loop_ok D ([], [])) as ([delete gs] & E & (O1 & O2 & O3) & _ & Hh).
    { unfold OI. cbn. split; [tauto|]. split; [intros v []|intros v w []]. }
    { apply incl_refl. }
    cbn [fst snd] in *. exists (zunion delete D). unfold get_deleted_fixed_core. rewrite E. split; [reflexivity|].
    intros x. rewrite zunion_In. unfold deleted_spec. split.
    - intros [H|H]; [right; apply O2; exact H|left; exact H].
    - intros [H|(HxD & (d & m & HdD & Hdm & Hmx) & Hno)]; [right; exact H|]. left.
      destruct (Hh d m HdD Hdm) as [H|[H|[H|(k & HkK & Hmk)]]].
      + exfalso. apply (Hno m); [apply reach_sym; assumption|exact H].
      + exfalso. apply (reach_notD_l _ _ _ _ Hmx). exact H.
      + eapply O3; eassumption.
      + exfalso. apply (Hno k); [|exact HkK]. eapply reach_trans; [apply reach_sym; eassumption|exact Hmk].
  Qed.
End Fixed.

Lemma map_image_In mapping l vs v :
  map_image mapping l = Some vs -> In v vs -> exists p, In p l /\ zget mapping p = Some v.
Proof.
  revert vs. induction l as [|p l IH]; intros vs; cbn [map_image].
  - intros H. inversion H; subst. intros [].
  - destruct (zget mapping p) as [w|] eqn:Ep; [|discriminate].
    destruct (map_image mapping l) as [ws|]; [|discriminate].
    intros H. inversion H; subst. intros [<-|Hv].
    + exists p. split; [left; reflexivity|exact Ep].
    + destruct (IH ws eq_refl Hv) as (q & Hq & Eq). exists q. split; [right; exact Hq|exact Eq].
Qed.

Lemma map_image_total mapping l :
  (forall p, In p l -> exists v, zget mapping p = Some v) -> exists vs, map_image mapping l = Some vs.
Proof.
  induction l as [|p l IH]; intros H; cbn [map_image]; [eexists; reflexivity|].
  destruct (H p (or_introl eq_refl)) as [v Ev]. rewrite Ev.
  destruct (IH (fun q Hq => H q (or_intror Hq))) as [vs Evs]. rewrite Evs. eexists; reflexivity.
Qed.

Lemma kept_not_image mapping to_del k : In k (kept mapping to_del) -> ~ In k (image mapping to_del).
Proof. unfold kept. rewrite zdiff_In. tauto. Qed.

(* the repaired function: total on well-formed input, and it returns exactly the specified set *)
Theorem get_deleted_fixed_spec : forall g mapping to_del,
  sym_graph g = true ->
  (forall p, In p to_del -> exists v, zget mapping p = Some v /\ In v (keys g)) ->
  exists r, get_deleted_fixed g mapping to_del = Ok r /\
            forall x, In x r <-> deleted_spec g (image mapping to_del) (kept mapping to_del) x.
Proof.
  intros g mapping to_del Hs Hm.
  destruct to_del as [|p0 rest] eqn:Etd.
  - exists []. split; [reflexivity|]. intros x. unfold deleted_spec, detached, attached, image. cbn.
    split; [intros []|]. intros [[]|(_ & (d & n & [] & _) & _)].
  - rewrite <- Etd in *. clear Etd.
    destruct (map_image_total mapping to_del) as [vs Evs].
    { intros p Hp. destruct (Hm p Hp) as (v & Ev & _). exists v. exact Ev. }
    assert (E : get_deleted_fixed g mapping to_del =
                get_deleted_fixed_core g (image mapping to_del) (kept mapping to_del)).
    { unfold get_deleted_fixed. rewrite Evs. destruct to_del; [|reflexivity].
      cbn in Evs. reflexivity. }
    rewrite E. apply get_deleted_fixed_core_spec.
    + apply sym_graph_sym. exact Hs.
    + apply kept_not_image.
    + intros d Hd. unfold image in Hd. rewrite Evs in Hd. apply nodup_In in Hd.
      destruct (map_image_In _ _ _ _ Evs Hd) as (p & Hp & Ep).
      destruct (Hm p Hp) as (v & Ev & Hv). congruence.
Qed.

(* ---------- consequences ---------- *)
(* a kept matched atom (masked ones included) is never deleted; every matched-and-unkept atom is *)
Corollary get_deleted_fixed_keeps_kept : forall g mapping to_del r,
  sym_graph g = true ->
  (forall p, In p to_del -> exists v, zget mapping p = Some v /\ In v (keys g)) ->
  get_deleted_fixed g mapping to_del = Ok r ->
  (forall x, In x (image mapping to_del) -> In x r) /\ (forall x, In x (kept mapping to_del) -> ~ In x r).
Proof.
  intros g mapping to_del r Hs Hm E.
  destruct (get_deleted_fixed_spec g mapping to_del Hs Hm) as (r' & E' & Hspec).
  rewrite E in E'. inversion E'; subst r'. split.
  - intros x Hx. apply Hspec. left. exact Hx.
  - intros x Hx Hr. apply Hspec in Hr. destruct Hr as [Hr|(HnD & _ & Hno)].
    + exact (kept_not_image _ _ _ Hx Hr).
    + apply (Hno x); [apply ra_refl; exact HnD|exact Hx].
Qed.

(* membership-equal D, K give the same specification: the result does not depend on set iteration order *)
Lemma reach_av_ext g D D' x y : (forall v, In v D <-> In v D') -> reach_av g D x y -> reach_av g D' x y.
Proof.
  intros H Hr. induction Hr as [x Hx|x y z Hxy IH Ha Hz].
  - apply ra_refl. rewrite <- H. exact Hx.
  - eapply ra_step; [exact IH|exact Ha|rewrite <- H; exact Hz].
Qed.

Lemma deleted_spec_ext g D D' K K' x :
  (forall v, In v D <-> In v D') -> (forall v, In v K <-> In v K') ->
  deleted_spec g D K x -> deleted_spec g D' K' x.
Proof.
  intros HD HK [H|(HnD & (d & n & HdD & Hdn & Hnx) & Hno)].
  - left. apply HD. exact H.
  - right. split; [rewrite <- HD; exact HnD|]. split.
    + exists d, n. split; [apply HD; exact HdD|]. split; [exact Hdn|]. eapply reach_av_ext; eassumption.
    + intros y Hy HyK. apply (Hno y); [|apply HK; exact HyK].
      eapply reach_av_ext; [|exact Hy]. intros v. symmetry. apply HD.
Qed.

Lemma map_image_In_rev mapping l vs p v :
  map_image mapping l = Some vs -> In p l -> zget mapping p = Some v -> In v vs.
Proof.
  revert vs. induction l as [|q l IH]; intros vs; cbn [map_image]; [intros _ []|].
  destruct (zget mapping q) as [w|] eqn:Eq; [|discriminate].
  destruct (map_image mapping l) as [ws|]; [|discriminate].
  intros H. inversion H; subst. intros [->|Hp] Ev.
  - left. congruence.
  - right. eapply IH; eauto.
Qed.

Lemma image_perm mapping l l' :
  (forall p, In p l <-> In p l') ->
  (forall p, In p l -> exists v, zget mapping p = Some v) ->
  forall v, In v (image mapping l) <-> In v (image mapping l').
Proof.
  intros Hll Hm.
  assert (Hm' : forall p, In p l' -> exists v, zget mapping p = Some v) by (intros p Hp; apply Hm; apply Hll; exact Hp).
  destruct (map_image_total _ _ Hm) as [vs E]. destruct (map_image_total _ _ Hm') as [vs' E'].
  intros v. unfold image. rewrite E, E', !nodup_In. split; intros Hv.
  - destruct (map_image_In _ _ _ _ E Hv) as (p & Hp & Ep). eapply map_image_In_rev; [exact E'|apply Hll; exact Hp|exact Ep].
  - destruct (map_image_In _ _ _ _ E' Hv) as (p & Hp & Ep). eapply map_image_In_rev; [exact E|apply Hll; exact Hp|exact Ep].
Qed.

Theorem get_deleted_fixed_order_independent : forall g mapping to_del to_del' r r',
  sym_graph g = true ->
  (forall p, In p to_del -> exists v, zget mapping p = Some v /\ In v (keys g)) ->
  (forall p, In p to_del <-> In p to_del') ->
  get_deleted_fixed g mapping to_del = Ok r -> get_deleted_fixed g mapping to_del' = Ok r' ->
  forall x, In x r <-> In x r'.
Proof.
  intros g mapping l l' r r' Hs Hm Hll E E'.
  assert (Hm' : forall p, In p l' -> exists v, zget mapping p = Some v /\ In v (keys g))
    by (intros p Hp; apply Hm; apply Hll; exact Hp).
  destruct (get_deleted_fixed_spec g mapping l Hs Hm) as (r1 & E1 & H1).
  destruct (get_deleted_fixed_spec g mapping l' Hs Hm') as (r2 & E2 & H2).
  rewrite E in E1. rewrite E' in E2. inversion E1; inversion E2; subst r1 r2.
  assert (HD : forall v, In v (image mapping l) <-> In v (image mapping l')).
  { apply image_perm; [exact Hll|]. intros p Hp. destruct (Hm p Hp) as (v & Ev & _). exists v. exact Ev. }
  assert (HK : forall v, In v (kept mapping l) <-> In v (kept mapping l')).
  { intros v. unfold kept. rewrite !zdiff_In, HD. tauto. }
  intros x. rewrite H1, H2. split; apply deleted_spec_ext; auto; intros v; symmetry; auto.
Qed.

(* DESIGN Appendix A form: in a connected molecule with at least one deleted atom, x is deleted iff it is a
   matched-and-unkept atom or no kept matched atom can be reached from it inside the remainder *)
Lemma first_deleted_on_path g D x y :
  reach_av g [] x y -> ~ In x D ->
  reach_av g D x y \/ exists d n, In d D /\ adj g n d /\ reach_av g D x n.
Proof.
  intros Hr Hx. induction Hr as [x _|x y z Hxy IH Ha _].
  - left. apply ra_refl. exact Hx.
  - destruct (IH Hx) as [H|H]; [|right; exact H].
    destruct (in_dec Z.eq_dec z D) as [Hz|Hz].
    + right. exists z, y. auto.
    + left. eapply ra_step; eassumption.
Qed.

Theorem get_deleted_fixed_spec_connected : forall g mapping to_del,
  sym_graph g = true -> connected g ->
  (forall p, In p to_del -> exists v, zget mapping p = Some v /\ In v (keys g)) ->
  to_del <> [] ->
  exists r, get_deleted_fixed g mapping to_del = Ok r /\
    forall x, In x (keys g) ->
      (In x r <-> In x (image mapping to_del) \/
                  (~ In x (image mapping to_del) /\
                   forall y, reach_av g (image mapping to_del) x y -> ~ In y (kept mapping to_del))).
Proof.
  intros g mapping to_del Hs Hc Hm Hne.
  destruct (get_deleted_fixed_spec g mapping to_del Hs Hm) as (r & E & Hspec).
  exists r. split; [exact E|]. intros x Hx. rewrite Hspec. unfold deleted_spec, detached.
  split; [tauto|]. intros [H|[HnD Hno]]; [left; exact H|]. right. split; [exact HnD|]. split; [|exact Hno].
  (* some deleted atom exists and x is connected to it: the piece of x hangs on the first deleted atom of the path *)
  destruct to_del as [|p0 rest]; [congruence|].
  destruct (Hm p0 (or_introl eq_refl)) as (d0 & Ed0 & Hd0).
  assert (Hd0D : In d0 (image mapping (p0 :: rest))).
  { destruct (map_image_total mapping (p0 :: rest)) as [vs Evs].
    { intros p Hp. destruct (Hm p Hp) as (v & Ev & _). exists v. exact Ev. }
    unfold image. rewrite Evs. apply nodup_In. eapply map_image_In_rev; [exact Evs|left; reflexivity|exact Ed0]. }
  destruct (first_deleted_on_path g (image mapping (p0 :: rest)) x d0 (Hc x d0 Hx Hd0) HnD) as [H|(d & n & HdD & Hnd & Hxn)].
  - exfalso. exact (reach_notD_r _ _ _ _ H Hd0D).
  - exists d, n. split; [exact HdD|]. split; [apply sym_graph_sym; assumption|].
    apply reach_sym; [apply sym_graph_sym; exact Hs|exact Hxn].
Qed.

(* molecules of Model.Graph: well-formedness gives the symmetry the theorems need *)
Lemma zget_map_snd {V W} (f : V -> W) (d : list (Z * V)) k :
  zget (map (fun kv => (fst kv, f (snd kv))) d) k = option_map f (zget d k).
Proof.
  induction d as [|[k' v] d IH]; cbn; [reflexivity|]. destruct (k =? k'); [reflexivity|exact IH].
Qed.

Lemma gnbrs_graph_of m n : gnbrs (graph_of m) n = nbr_ids m n.
Proof.
  unfold gnbrs, graph_of, nbr_ids, nbrs. rewrite (zget_map_snd (fun l => keys l)).
  destruct (zget (m_adj m) n); reflexivity.
Qed.

Lemma wf_mol_sym_graph m : wf_mol m = true -> sym_graph (graph_of m) = true.
Proof.
  unfold wf_mol, sym_graph. intros H. apply andb_prop in H. destruct H as [_ H].
  rewrite forallb_forall in H. apply forallb_forall. intros [n ks] Hin.
  unfold graph_of in Hin. apply in_map_iff in Hin. destruct Hin as ([n' l] & Eq & Hin). cbn in Eq. inversion Eq; subst n' ks.
  specialize (H (n, l) Hin). cbn [fst snd] in *. apply andb_prop in H. destruct H as [_ H].
  rewrite forallb_forall in H. apply forallb_forall. intros b Hb.
  unfold keys in Hb. apply in_map_iff in Hb. destruct Hb as ([b' bd] & Eb & Hb). cbn in Eb. subst b'.
  specialize (H (b, bd) Hb). cbn [fst snd] in H.
  apply andb_prop in H. destruct H as [_ H].
  rewrite gnbrs_graph_of. apply zmem_In. unfold nbr_ids.
  unfold bond_of in H. destruct (zget (nbrs m b) n) eqn:E; [|discriminate].
  eapply zget_Some_key. exact E.
Qed.

Theorem get_deleted_fixed_spec_mol : forall m mapping to_del,
  wf_mol m = true ->
  (forall p, In p to_del -> exists v, zget mapping p = Some v /\ In v (keys (m_adj m))) ->
  exists r, get_deleted_fixed (graph_of m) mapping to_del = Ok r /\
            forall x, In x r <-> deleted_spec (graph_of m) (image mapping to_del) (kept mapping to_del) x.
Proof.
  intros m mapping to_del Hwf Hm. apply get_deleted_fixed_spec.
  - apply wf_mol_sym_graph. exact Hwf.
  - intros p Hp. destruct (Hm p Hp) as (v & Ev & Hv). exists v. split; [exact Ev|].
    unfold graph_of, keys. rewrite map_map. cbn. exact Hv.
Qed.

(* ====================================================================================================
   the UNCHANGED function violates the specification: two witnesses
   ==================================================================================================== *)
(* C1N2CC1C2, atoms numbered as chython reads the SMILES; pattern [C:1][N:2] -> [C:1], match {1:5, 2:2} *)
Definition wit_g : graph := [(1, [2; 4]); (2, [1; 3; 5]); (3, [2; 4]); (4, [3; 1; 5]); (5, [4; 2])].
Definition wit_mapping : list (Z * Z) := [(1, 5); (2, 2)].
Definition wit_to_del : list Z := [2].

(* over-deletion: atom 3 is returned although 3-4-5 joins it to the kept atom 5 *)
Theorem get_deleted_spec_refuted :
  sym_graph wit_g = true /\
  (forall p, In p wit_to_del -> exists v, zget wit_mapping p = Some v /\ In v (keys wit_g)) /\
  exists r x, get_deleted wit_g wit_mapping wit_to_del = Ok r /\
              ~ (In x r <-> deleted_spec wit_g (image wit_mapping wit_to_del) (kept wit_mapping wit_to_del) x).
Proof.
  split; [vm_compute; reflexivity|]. split.
  { intros p [<-|[]]. exists 2. split; vm_compute; auto. }
  exists [3; 2], 3. split; [vm_compute; reflexivity|].
  intros [H _]. specialize (H (or_introl eq_refl)).
  change (image wit_mapping wit_to_del) with [2] in H. change (kept wit_mapping wit_to_del) with [5] in H.
  destruct H as [[H|[]]|(_ & _ & Hno)]; [discriminate|].
  apply (Hno 5); [|left; reflexivity].
  assert (N : forall a, a <> 2 -> ~ In a [2]) by (intros a Ha [E|[]]; congruence).
  assert (R3 : reach_av wit_g [2] 3 3) by (apply ra_refl; apply N; discriminate).
  assert (R4 : reach_av wit_g [2] 3 4).
  { apply (ra_step _ _ 3 3 4 R3); [unfold adj; vm_compute; auto|apply N; discriminate]. }
  apply (ra_step _ _ 3 4 5 R4); [unfold adj; vm_compute; auto|apply N; discriminate].
Qed.

(* C1N(F)N(C1)Cl; pattern [C:1][N:2][N:4] -> [C:1], match {1:1, 2:2, 4:4} *)
Definition wit2_g : graph := [(1, [2; 5]); (2, [1; 3; 4]); (3, [2]); (4, [2; 5; 6]); (5, [4; 1]); (6, [4])].
Definition wit2_mapping : list (Z * Z) := [(1, 1); (2, 2); (4, 4)].
Definition wit2_to_del : list Z := [2; 4].

(* under-deletion: the chlorine 6 hangs only on the deleted atom 4 but is not returned *)
Theorem get_deleted_spec_refuted_under :
  sym_graph wit2_g = true /\
  (forall p, In p wit2_to_del -> exists v, zget wit2_mapping p = Some v /\ In v (keys wit2_g)) /\
  exists r x, get_deleted wit2_g wit2_mapping wit2_to_del = Ok r /\
              ~ (In x r <-> deleted_spec wit2_g (image wit2_mapping wit2_to_del) (kept wit2_mapping wit2_to_del) x).
Proof.
  split; [vm_compute; reflexivity|]. split.
  { intros p [<-|[<-|[]]]; [exists 2|exists 4]; split; vm_compute; auto. }
  exists [3; 2; 4], 6. split; [vm_compute; reflexivity|].
  intros [_ H].
  change (image wit2_mapping wit2_to_del) with [2; 4] in H. change (kept wit2_mapping wit2_to_del) with [1] in H.
  assert (Hin : In 6 [3; 2; 4]).
  { apply H. right. split; [intros [E|[E|[]]]; discriminate|]. split.
    - exists 4, 6. split; [right; left; reflexivity|]. split; [unfold adj; vm_compute; auto|].
      apply ra_refl. intros [E|[E|[]]]; discriminate.
    - (* nothing but 6 itself can be reached from 6 without passing the deleted atom 4 *)
      assert (Hall : forall y, reach_av wit2_g [2; 4] 6 y -> y = 6).
      { apply reach_ind_from; [reflexivity|]. intros y z _ -> Ha Hz.
        unfold adj in Ha. vm_compute in Ha. destruct Ha as [<-|[]]. exfalso. apply Hz. right. left. reflexivity. }
      intros y Hy. apply Hall in Hy. subst y. intros [E|[]]. discriminate. }
  destruct Hin as [E|[E|[E|[]]]]; discriminate.
Qed.

(* the repaired function on the same inputs *)
Example get_deleted_fixed_on_witnesses :
  get_deleted_fixed wit_g wit_mapping wit_to_del = Ok [2] /\
  sorted_res (get_deleted_fixed wit2_g wit2_mapping wit2_to_del) = Ok [2; 3; 4; 6].
Proof. split; vm_compute; reflexivity. Qed.

(* ====================================================================================================
   structural part of _patcher
   ==================================================================================================== *)
(* ---------- dict updates ---------- *)
Lemma zget_zset_same {V} (d : list (Z * V)) k v : zget (zset d k v) k = Some v.
Proof.
  induction d as [|[k' v'] d IH]; cbn; [rewrite Z.eqb_refl; reflexivity|].
  destruct (Z.eqb_spec k k'); cbn.
  - rewrite Z.eqb_refl. reflexivity.
  - destruct (Z.eqb_spec k k'); [contradiction|exact IH].
Qed.

Lemma zget_zset_other {V} (d : list (Z * V)) k v k' : k' <> k -> zget (zset d k v) k' = zget d k'.
Proof.
  intros Hne. induction d as [|[k0 v0] d IH]; cbn.
  - destruct (Z.eqb_spec k' k); [contradiction|reflexivity].
  - destruct (Z.eqb_spec k k0); cbn.
    + subst k0. destruct (Z.eqb_spec k' k); [contradiction|reflexivity].
    + destruct (k' =? k0); [reflexivity|exact IH].
Qed.

Lemma zget_zset {V} (d : list (Z * V)) k v k' : zget (zset d k v) k' = if k' =? k then Some v else zget d k'.
Proof.
  destruct (Z.eqb_spec k' k); [subst; apply zget_zset_same|apply zget_zset_other; assumption].
Qed.

Lemma keys_zset_In {V} (d : list (Z * V)) k v x : In x (keys (zset d k v)) <-> x = k \/ In x (keys d).
Proof.
  induction d as [|[k' v'] d IH]; cbn.
  - intuition.
  - destruct (Z.eqb_spec k k'); cbn.
    + subst. intuition.
    + rewrite IH. intuition.
Qed.

Lemma keys_zset_present {V} (d : list (Z * V)) k v : In k (keys d) -> keys (zset d k v) = keys d.
Proof.
  induction d as [|[k' v'] d IH]; cbn; [intros []|].
  destruct (Z.eqb_spec k k'); cbn; [subst; reflexivity|].
  intros [E|H]; [congruence|]. f_equal. apply IH. exact H.
Qed.

Lemma keys_zset_absent {V} (d : list (Z * V)) k v : ~ In k (keys d) -> keys (zset d k v) = keys d ++ [k].
Proof.
  induction d as [|[k' v'] d IH]; cbn; [reflexivity|].
  intros H. destruct (Z.eqb_spec k k'); [exfalso; apply H; left; congruence|].
  cbn. f_equal. apply IH. intros Hi. apply H. right. exact Hi.
Qed.

Lemma NoDup_snoc (l : list Z) k : NoDup l -> ~ In k l -> NoDup (l ++ [k]).
Proof.
  induction l as [|a l IH]; intros Hn Hk; cbn.
  - constructor; [intros []|constructor].
  - inversion Hn; subst. constructor.
    + rewrite in_app_iff. intros [H|[H|[]]]; [contradiction|]. subst. apply Hk. left. reflexivity.
    + apply IH; [assumption|]. intros H. apply Hk. right. exact H.
Qed.

Lemma NoDup_keys_zset {V} (d : list (Z * V)) k v : NoDup (keys d) -> NoDup (keys (zset d k v)).
Proof.
  intros H. destruct (in_dec Z.eq_dec k (keys d)) as [Hi|Hi].
  - rewrite keys_zset_present; assumption.
  - rewrite keys_zset_absent by assumption. apply NoDup_snoc; assumption.
Qed.
