(* C16: proofs about the models of coq/model/Reactor.v *)
From Coq Require Import ZArith List Bool Lia.
From Model Require Import PyBase Graph Reactor.
Import ListNotations.
Open Scope Z_scope.

(* ---------- sets as lists ---------- *)
Lemma zmem_false x l : zmem x l = false <-> ~ In x l.
Proof.
  split; intros H.
  - intros Hi. apply zmem_In in Hi. congruence.
  - destruct (zmem x l) eqn:E; [|reflexivity]. apply zmem_In in E. contradiction.
Qed.

Lemma zadd_In x y l : In x (zadd y l) <-> x = y \/ In x l.
Proof.
  unfold zadd. destruct (zmem y l) eqn:E.
  - apply zmem_In in E. split; [auto|]. intros [->|H]; assumption.
  - cbn. split; intros [H|H]; auto.
Qed.

Lemma zunion_In x a b : In x (zunion a b) <-> In x a \/ In x b.
Proof.
  unfold zunion. induction a as [|y a IH]; cbn [fold_right].
  - cbn. tauto.
  - rewrite zadd_In, IH. cbn. intuition.
Qed.

Lemma zdiff_In x a b : In x (zdiff a b) <-> In x a /\ ~ In x b.
Proof.
  unfold zdiff. rewrite filter_In, negb_true_iff, zmem_false. tauto.
Qed.

Lemma zinter_In x a b : In x (zinter a b) <-> In x a /\ In x b.
Proof. unfold zinter. rewrite filter_In, zmem_In. tauto. Qed.

Lemma filter_length_le {A} (f : A -> bool) (l : list A) : (length (filter f l) <= length l)%nat.
Proof. induction l as [|x l IH]; cbn; [lia|]. destruct (f x); cbn; lia. Qed.

(* ---------- dictionaries ---------- *)
Lemma zget_Some_In {V} (d : list (Z * V)) k v : zget d k = Some v -> In (k, v) d.
Proof.
  induction d as [|[k' v'] d IH]; cbn; [discriminate|].
  destruct (Z.eqb_spec k k'); intros H.
  - inversion H; subst. left. reflexivity.
  - right. apply IH. exact H.
Qed.

Lemma zget_Some_key {V} (d : list (Z * V)) k v : zget d k = Some v -> In k (keys d).
Proof. intros H. apply zget_Some_In in H. unfold keys. apply in_map_iff. exists (k, v). split; [reflexivity|exact H]. Qed.

Lemma zget_None_key {V} (d : list (Z * V)) k : zget d k = None <-> ~ In k (keys d).
Proof.
  induction d as [|[k' v'] d IH]; cbn; [tauto|].
  destruct (Z.eqb_spec k k').
  - subst. split; [discriminate|]. intros H. exfalso. apply H. left. reflexivity.
  - rewrite IH. split; intros H; [intros [E|Hi]; [congruence|contradiction]|intros Hi; apply H; right; exact Hi].
Qed.

Lemma zget_key_Some {V} (d : list (Z * V)) k : In k (keys d) -> exists v, zget d k = Some v.
Proof.
  intros H. destruct (zget d k) eqn:E; [eexists; reflexivity|]. apply zget_None_key in E. contradiction.
Qed.

Lemma gnbrs_Some g a nb : zget g a = Some nb -> gnbrs g a = nb.
Proof. unfold gnbrs. intros ->. reflexivity. Qed.

Lemma adj_has_entry g a b : adj g a b -> exists nb, zget g a = Some nb.
Proof.
  unfold adj, gnbrs. destruct (zget g a); [eexists; reflexivity|]. intros [].
Qed.

Lemma adj_key g a b : adj g a b -> In a (keys g).
Proof. intros H. destruct (adj_has_entry _ _ _ H) as [nb E]. eapply zget_Some_key. exact E. Qed.

Lemma sym_graph_sym g : sym_graph g = true -> forall a b, adj g a b -> adj g b a.
Proof.
  unfold sym_graph. intros H a b Hab. rewrite forallb_forall in H.
  destruct (adj_has_entry _ _ _ Hab) as [nb E].
  specialize (H (a, nb) (zget_Some_In _ _ _ E)). cbn in H. rewrite forallb_forall in H.
  unfold adj in Hab. rewrite (gnbrs_Some _ _ _ E) in Hab.
  specialize (H b Hab). apply zmem_In in H. exact H.
Qed.

(* ---------- reachability inside the remainder ---------- *)
Section Reach.
  Variables (g : graph) (D : list Z).

  Lemma reach_notD_l x y : reach_av g D x y -> ~ In x D.
  Proof. induction 1; assumption. Qed.

  Lemma reach_notD_r x y : reach_av g D x y -> ~ In y D.
  Proof. induction 1; assumption. Qed.

  Lemma reach_trans x y z : reach_av g D x y -> reach_av g D y z -> reach_av g D x z.
  Proof.
    intros Hxy Hyz. revert Hxy. induction Hyz as [y Hy|y w z Hyw IH Ha Hz]; intros Hxy.
    - exact Hxy.
    - eapply ra_step; [apply IH; exact Hxy|exact Ha|exact Hz].
  Qed.

  Lemma reach_edge x y : ~ In x D -> ~ In y D -> adj g x y -> reach_av g D x y.
  Proof. intros Hx Hy Ha. eapply ra_step; [apply ra_refl; exact Hx|exact Ha|exact Hy]. Qed.

  Lemma reach_ind_from (P : Z -> Prop) m :
    P m -> (forall y z, reach_av g D m y -> P y -> adj g y z -> ~ In z D -> P z) ->
    forall y, reach_av g D m y -> P y.
  Proof.
    intros H0 Hs y Hr. revert H0 Hs. induction Hr as [x Hx|x y z Hxy IH Ha Hz]; intros H0 Hs.
    - exact H0.
    - apply (Hs y z Hxy (IH H0 Hs) Ha Hz).
  Qed.

  Hypothesis Hsym : forall a b, adj g a b -> adj g b a.

  Lemma reach_sym x y : reach_av g D x y -> reach_av g D y x.
  Proof.
    induction 1 as [x Hx|x y z Hxy IH Ha Hz].
    - apply ra_refl. exact Hx.
    - eapply reach_trans; [|exact IH].
      apply reach_edge; [exact Hz|eapply reach_notD_r; exact Hxy|apply Hsym; exact Ha].
  Qed.
End Reach.

(* ---------- small facts used by the walk ---------- *)
Lemma NoDup_zadd x l : NoDup l -> NoDup (zadd x l).
Proof.
  intros H. unfold zadd. destruct (zmem x l) eqn:E; [exact H|].
  constructor; [apply zmem_false; exact E|exact H].
Qed.

Lemma zadd_length_new x l : zmem x l = false -> length (zadd x l) = S (length l).
Proof. intros E. unfold zadd. rewrite E. reflexivity. Qed.

(* ---------- the inner `for m in bonds[stack.pop()]` loop ---------- *)
Section Visit.
  Variables (K D : list Z).

  Lemma visit_fold : forall nb stack seen att stack' seen' att',
    fold_left (visit K D) nb (stack, seen, att) = (stack', seen', att') ->
    (forall v, In v seen' <-> In v seen \/ (In v nb /\ ~ In v K /\ ~ In v D)) /\
    (forall s, In s stack' <-> In s stack \/ (In s seen' /\ ~ In s seen)) /\
    (att' = true <-> att = true \/ exists m, In m nb /\ In m K) /\
    (NoDup seen -> NoDup seen') /\
    (length stack' + length seen = length stack + length seen')%nat.
  Proof.
    induction nb as [|m nb IH]; intros stack seen att stack' seen' att' H.
    - cbn [fold_left] in H. inversion H; subst. split; [|split; [|split; [|split]]].
      + intros v. split; [auto|]. intros [Hv|([] & _)]. exact Hv.
      + intros s. split; [auto|]. intros [Hs|[Hs Hn]]; [exact Hs|contradiction].
      + split; [auto|]. intros [Ha|(m & [] & _)]. exact Ha.
      + auto.
      + reflexivity.
    - cbn [fold_left] in H.
      destruct (visit K D (stack, seen, att) m) as [[stack1 seen1] att1] eqn:E1.
      apply IH in H. destruct H as (A & B & C & Dn & L).
      unfold visit in E1.
      destruct (zmem m K) eqn:EK.
      + (* m is a kept matched atom *)
        inversion E1; subst stack1 seen1 att1. apply zmem_In in EK.
        split; [|split; [|split; [|split]]].
        * intros v. rewrite A. split.
          -- intros [Hv|(Hv & HK & HD)]; [left; exact Hv|right; split; [right; exact Hv|split; assumption]].
          -- intros [Hv|([<-|Hv] & HK & HD)]; [left; exact Hv|contradiction|right; split; [exact Hv|split; assumption]].
        * exact B.
        * split; [intros _; right; exists m; split; [left; reflexivity|exact EK]|].
          intros _. apply C. left. reflexivity.
        * exact Dn.
        * exact L.
      + apply zmem_false in EK.
        destruct (negb (zmem m D) && negb (zmem m seen)) eqn:EN.
        * (* m is new: seen.add(m); stack.append(m) *)
          inversion E1; subst stack1 seen1 att1.
          apply andb_prop in EN. destruct EN as [ED ES]. apply negb_true_iff in ED. apply negb_true_iff in ES.
          pose proof (zadd_length_new m seen ES) as Hlen.
          apply zmem_false in ED. apply zmem_false in ES.
          assert (A' : forall v, In v seen' <-> In v seen \/ (In v (m :: nb) /\ ~ In v K /\ ~ In v D)).
          { intros v. rewrite A, zadd_In. split.
            - intros [[->|Hv]|(Hv & HK & HD)].
              + right. split; [left; reflexivity|split; assumption].
              + left. exact Hv.
              + right. split; [right; exact Hv|split; assumption].
            - intros [Hv|([<-|Hv] & HK & HD)].
              + left. right. exact Hv.
              + left. left. reflexivity.
              + right. split; [exact Hv|split; assumption]. }
          split; [exact A'|]. split; [|split; [|split]].
          -- intros s. rewrite B. split.
             ++ intros [[<-|Hs]|[Hs Hn]].
                ** right. split; [|exact ES]. apply A. left. apply zadd_In. left. reflexivity.
                ** left. exact Hs.
                ** right. split; [exact Hs|]. intros Hc. apply Hn. apply zadd_In. right. exact Hc.
             ++ intros [Hs|[Hs Hn]]; [left; right; exact Hs|].
                destruct (Z.eq_dec s m) as [->|Hne]; [left; left; reflexivity|].
                right. split; [exact Hs|]. intros Hc. apply zadd_In in Hc. destruct Hc as [Hc|Hc]; [contradiction|contradiction].
          -- rewrite C. split.
             ++ intros [Ha|(m' & Hm' & HK)]; [left; exact Ha|right; exists m'; split; [right; exact Hm'|exact HK]].
             ++ intros [Ha|(m' & [<-|Hm'] & HK)]; [left; exact Ha|contradiction|right; exists m'; split; assumption].
          -- intros Hnd. apply Dn. apply NoDup_zadd. exact Hnd.
          -- cbn [length] in L. lia.
        * (* m is deleted or already seen: nothing happens *)
          inversion E1; subst stack1 seen1 att1.
          assert (Hm : In m D \/ In m seen).
          { apply andb_false_iff in EN. destruct EN as [E|E]; apply negb_false_iff in E; apply zmem_In in E; auto. }
          split; [|split; [|split; [|split]]].
          -- intros v. rewrite A. split.
             ++ intros [Hv|(Hv & HK & HD)]; [left; exact Hv|right; split; [right; exact Hv|split; assumption]].
             ++ intros [Hv|([<-|Hv] & HK & HD)]; [left; exact Hv| |right; split; [exact Hv|split; assumption]].
                destruct Hm as [Hm|Hm]; [contradiction|left; exact Hm].
          -- exact B.
          -- rewrite C. split.
             ++ intros [Ha|(m' & Hm' & HK)]; [left; exact Ha|right; exists m'; split; [right; exact Hm'|exact HK]].
             ++ intros [Ha|(m' & [<-|Hm'] & HK)]; [left; exact Ha|contradiction|right; exists m'; split; assumption].
          -- exact Dn.
          -- exact L.
  Qed.
End Visit.

(* ====================================================================================================
   _get_deleted meets the specification
   ==================================================================================================== *)
Section GetDeleted.
  Variables (g : graph) (D K : list Z).
  Hypothesis Hsym : forall a b, adj g a b -> adj g b a.
  Hypothesis HKD : forall k, In k K -> ~ In k D.

  Section Walk.
    Variable n : Z.

    (* invariant of the while loop of one walk started at n; the atoms of `seen` that are no longer on the stack have
       been processed: each of their neighbours is deleted, kept (then `attached` is set) or seen *)
    Definition WI (stack seen : list Z) (att : bool) : Prop :=
      (forall v, In v seen -> reach_av g D n v /\ ~ In v K /\ In v (keys g)) /\
      (forall s, In s stack -> In s seen) /\
      (forall v w, In v seen -> ~ In v stack -> adj g v w -> In w seen \/ In w D \/ In w K) /\
      (forall v w, In v seen -> ~ In v stack -> adj g v w -> In w K -> att = true) /\
      (att = true -> exists k, In k K /\ reach_av g D n k) /\
      In n seen /\ NoDup seen.

    Lemma walk_ok : forall fuel stack seen att,
      WI stack seen att -> (length g + length stack < fuel + length seen)%nat ->
      match walk g K D fuel stack seen att with
      | WDone seen' att' => WI [] seen' att'
      | WKeyErr | WFuel => False
      end.
    Proof.
      induction fuel as [|f IH]; intros stack seen att HI Hf.
      - (* out of fuel is impossible: seen is a duplicate-free list of atoms of g *)
        destruct HI as (Ha & _ & _ & _ & _ & _ & Hnd).
        assert (Hle : (length seen <= length (keys g))%nat).
        { apply NoDup_incl_length; [exact Hnd|]. intros v Hv. apply (Ha v Hv). }
        unfold keys in Hle. rewrite map_length in Hle. lia.
      - cbn [walk]. destruct stack as [|cur rest]; [exact HI|].
        destruct HI as (Ha & Hb & Hc & Hc' & Hd & He & Hnd).
        assert (Hcur : In cur seen) by (apply Hb; left; reflexivity).
        destruct (Ha cur Hcur) as (Rcur & Kcur & Kgcur).
        destruct (zget_key_Some _ _ Kgcur) as [nb Enb]. rewrite Enb.
        destruct (fold_left (visit K D) nb (rest, seen, att)) as [[stack' seen'] att'] eqn:EF.
        destruct (visit_fold K D nb rest seen att stack' seen' att' EF) as (A & B & C & Dn & L).
        assert (Hadj : forall w, adj g cur w <-> In w nb).
        { intros w. unfold adj. rewrite (gnbrs_Some _ _ _ Enb). tauto. }
        (* an atom of the new `seen` that is not on the new stack and is not `cur` was processed before *)
        assert (Hold : forall v, In v seen' -> ~ In v stack' -> v <> cur -> In v seen /\ ~ In v (cur :: rest)).
        { intros v Hv Hns Hne.
          destruct (in_dec Z.eq_dec v seen) as [Hvs|Hvs].
          - split; [exact Hvs|]. intros [Hc0|Hc0]; [congruence|]. apply Hns. apply B. left. exact Hc0.
          - exfalso. apply Hns. apply B. right. split; assumption. }
        apply IH.
        + unfold WI. split; [|split; [|split; [|split; [|split; [|split]]]]].
          * intros v Hv. apply A in Hv. destruct Hv as [Hv|(Hv & HK & HD)]; [apply Ha; exact Hv|].
            apply Hadj in Hv. split; [|split; [exact HK|]].
            -- eapply ra_step; [exact Rcur|exact Hv|exact HD].
            -- eapply adj_key. apply Hsym. exact Hv.
          * intros s Hs. apply B in Hs. destruct Hs as [Hs|[Hs _]]; [|exact Hs].
            apply A. left. apply Hb. right. exact Hs.
          * intros v w Hv Hns Hvw.
            destruct (Z.eq_dec v cur) as [->|Hne].
            -- apply Hadj in Hvw.
               destruct (in_dec Z.eq_dec w K) as [HK|HK]; [right; right; exact HK|].
               destruct (in_dec Z.eq_dec w D) as [HD|HD]; [right; left; exact HD|].
               left. apply A. right. split; [exact Hvw|split; assumption].
            -- destruct (Hold v Hv Hns Hne) as [Hvs Hnst].
               destruct (Hc v w Hvs Hnst Hvw) as [H|[H|H]]; [left; apply A; left; exact H|right; left; exact H|right; right; exact H].
          * intros v w Hv Hns Hvw HwK. apply C.
            destruct (Z.eq_dec v cur) as [->|Hne].
            -- right. exists w. split; [apply Hadj; exact Hvw|exact HwK].
            -- destruct (Hold v Hv Hns Hne) as [Hvs Hnst]. left. eapply Hc'; eassumption.
          * intros Hatt. apply C in Hatt. destruct Hatt as [Hatt|(m & Hm & HmK)]; [apply Hd; exact Hatt|].
            exists m. split; [exact HmK|]. eapply ra_step; [exact Rcur|apply Hadj; exact Hm|apply HKD; exact HmK].
          * apply A. left. exact He.
          * apply Dn. exact Hnd.
        + cbn [length] in Hf. lia.
    Qed.
  End Walk.

  (* invariant of the two outer loops; st = (delete, keep) *)
  Definition OI (st : list Z * list Z) : Prop :=
    (forall v, In v (fst st) -> detached g D K v) /\
    (forall v w, In v (fst st) -> reach_av g D v w -> In w (fst st)) /\
    (forall v, In v (snd st) -> ~ In v D /\ ~ In v K /\ attached g D v /\ exists k, In k K /\ reach_av g D v k).

  (* what has been decided about a neighbour m of a deleted atom *)
  Definition handled (delete : list Z) (m : Z) : Prop :=
    In m K \/ In m D \/ In m delete \/ exists k, In k K /\ reach_av g D m k.

  Lemma handled_mono d d' m : (forall v, In v d -> In v d') -> handled d m -> handled d' m.
  Proof. unfold handled. intros H [?|[?|[?|?]]]; auto. Qed.

  Lemma start_walk_ok st m :
    OI st -> (exists d, In d D /\ adj g d m) ->
    exists st', start_walk g K D st m = Ok st' /\ OI st' /\
                (forall v, In v (fst st) -> In v (fst st')) /\ handled (fst st') m.
  Proof.
    destruct st as [delete keep]. intros (O1 & O2 & O3) (d & HdD & Hdm). cbn [fst snd] in *.
    unfold start_walk.
    destruct (zmem m D || zmem m K || zmem m delete || zmem m keep) eqn:ES.
    - exists (delete, keep). split; [reflexivity|]. split; [exact (conj O1 (conj O2 O3))|]. split; [auto|].
      cbn [fst]. unfold handled.
      apply orb_true_iff in ES. destruct ES as [ES|ES]; [apply orb_true_iff in ES; destruct ES as [ES|ES];
        [apply orb_true_iff in ES; destruct ES as [ES|ES]|]|]; apply zmem_In in ES; auto.
      right. right. right. apply (O3 m ES).
    - apply orb_false_iff in ES. destruct ES as [ES Ekeep]. apply orb_false_iff in ES. destruct ES as [ES Edel].
      apply orb_false_iff in ES. destruct ES as [ED EK].
      apply zmem_false in ED. apply zmem_false in EK.
      assert (Hmkey : In m (keys g)) by (eapply adj_key; apply Hsym; exact Hdm).
      assert (HI : WI m [m] [m] false).
      { unfold WI. split; [|split; [|split; [|split; [|split; [|split]]]]].
        - intros v [<-|[]]. split; [apply ra_refl; exact ED|split; assumption].
        - auto.
        - intros v w [<-|[]] Hns. exfalso. apply Hns. left. reflexivity.
        - intros v w [<-|[]] Hns. exfalso. apply Hns. left. reflexivity.
        - discriminate.
        - left. reflexivity.
        - constructor; [intros []|constructor]. }
      assert (Hf : (length g + length [m] < fuel_walk g + length [m])%nat) by (unfold fuel_walk; cbn [length]; lia).
      pose proof (walk_ok m (fuel_walk g) [m] [m] false HI Hf) as HW.
      destruct (walk g K D (fuel_walk g) [m] [m] false) as [seen' att'| |]; try contradiction.
      destruct HW as (Ha & _ & Hc & Hc' & Hd & He & _).
      assert (Hns : forall v : Z, ~ In v []) by (intros v []).
      destruct att'.
      + (* the piece reaches a kept matched atom: keep.update(seen) *)
        destruct (Hd eq_refl) as (k & HkK & Hmk).
        exists (delete, zunion seen' keep). split; [reflexivity|]. split; [|split; [auto|]].
        * split; [exact O1|]. split; [exact O2|]. cbn [fst snd]. intros v Hv. apply zunion_In in Hv.
          destruct Hv as [Hv|Hv]; [|apply O3; exact Hv].
          destruct (Ha v Hv) as (Hmv & HvK & _).
          split; [eapply reach_notD_r; exact Hmv|]. split; [exact HvK|]. split.
          -- exists d, m. repeat split; assumption.
          -- exists k. split; [exact HkK|]. eapply reach_trans; [apply reach_sym; [exact Hsym|exact Hmv]|exact Hmk].
        * cbn [fst]. right. right. right. exists k. split; assumption.
      + (* the finished walk has collected the whole piece of m, and no kept matched atom touches it: delete.update(seen) *)
        assert (Hclosed : forall y, reach_av g D m y -> In y seen').
        { apply reach_ind_from; [exact He|]. intros y z Hxy IHy Hyz Hz.
          destruct (Hc y z IHy (Hns y) Hyz) as [H|[H|H]]; [exact H|contradiction|].
          pose proof (Hc' y z IHy (Hns y) Hyz H). discriminate. }
        exists (zunion seen' delete, keep). split; [reflexivity|]. split; [|split].
        * split; [|split]; cbn [fst snd].
          -- intros v Hv. apply zunion_In in Hv. destruct Hv as [Hv|Hv]; [|apply O1; exact Hv].
             destruct (Ha v Hv) as (Hmv & _ & _).
             split; [eapply reach_notD_r; exact Hmv|]. split.
             ++ exists d, m. repeat split; assumption.
             ++ intros y Hvy. apply (Ha y). apply Hclosed. eapply reach_trans; eassumption.
          -- intros v w Hv Hvw. apply zunion_In. apply zunion_In in Hv. destruct Hv as [Hv|Hv].
             ++ left. apply Hclosed. eapply reach_trans; [apply Ha; exact Hv|exact Hvw].
             ++ right. eapply O2; eassumption.
          -- exact O3.
        * cbn [fst]. intros v Hv. apply zunion_In. right. exact Hv.
        * cbn [fst]. right. right. left. apply zunion_In. left. exact He.
  Qed.

  Lemma inner_loop_ok : forall l st,
    OI st -> (forall m, In m l -> exists d, In d D /\ adj g d m) ->
    exists st', fold_res (start_walk g K D) l st = Ok st' /\ OI st' /\
                (forall v, In v (fst st) -> In v (fst st')) /\ (forall m, In m l -> handled (fst st') m).
  Proof.
    induction l as [|m l IH]; intros st HO Hl.
    - exists st. cbn. split; [reflexivity|]. split; [exact HO|]. split; [auto|]. intros m [].
    - destruct (start_walk_ok st m HO (Hl m (or_introl eq_refl))) as (st1 & E1 & HO1 & Hm1 & Hh1).
      destruct (IH st1 HO1 (fun m' Hm' => Hl m' (or_intror Hm'))) as (st2 & E2 & HO2 & Hm2 & Hh2).
      exists st2. cbn [fold_res]. rewrite E1. split; [exact E2|]. split; [exact HO2|]. split; [auto|].
      intros m' [<-|Hm']; [|apply Hh2; exact Hm'].
      eapply handled_mono; [exact Hm2|exact Hh1].
  Qed.

  Hypothesis HDkeys : forall d, In d D -> In d (keys g).

  Lemma outer_loop_ok : forall l st,
    OI st -> incl l D ->
    exists st', fold_res (fun st x => match zget g x with
                                      | None => Err KeyError
                                      | Some nb => fold_res (start_walk g K D) nb st
                                      end) l st = Ok st' /\ OI st' /\
                (forall v, In v (fst st) -> In v (fst st')) /\
                (forall x m, In x l -> adj g x m -> handled (fst st') m).
  Proof.
    induction l as [|x l IH]; intros st HO Hl.
    - exists st. cbn. split; [reflexivity|]. split; [exact HO|]. split; [auto|]. intros x m [].
    - assert (HxD : In x D) by (apply Hl; left; reflexivity).
      destruct (zget_key_Some _ _ (HDkeys x HxD)) as [nb Enb].
      destruct (inner_loop_ok nb st HO) as (st1 & E1 & HO1 & Hm1 & Hh1).
      { intros m Hm. exists x. split; [exact HxD|]. unfold adj. rewrite (gnbrs_Some _ _ _ Enb). exact Hm. }
      destruct (IH st1 HO1 (fun y Hy => Hl y (or_intror Hy))) as (st2 & E2 & HO2 & Hm2 & Hh2).
      exists st2. cbn [fold_res]. rewrite Enb, E1. split; [exact E2|]. split; [exact HO2|]. split; [auto|].
      intros y m [<-|Hy] Hym; [|eapply Hh2; eassumption].
      eapply handled_mono; [exact Hm2|]. apply Hh1. unfold adj in Hym. rewrite (gnbrs_Some _ _ _ Enb) in Hym. exact Hym.
  Qed.

  (* the two sets the loops leave behind: `delete` = exactly the detached atoms; `keep` = only atoms of pieces that hung
     on a deleted atom and still reach a kept matched atom *)
  Lemma get_deleted_loops_spec :
    exists delete keep, get_deleted_loops g D K = Ok (delete, keep) /\
      (forall x, In x delete <-> detached g D K x) /\
      (forall x, In x keep -> ~ In x D /\ ~ In x K /\ attached g D x /\ exists k, In k K /\ reach_av g D x k).
  Proof.
    destruct (outer_loop_ok D ([], [])) as ([delete keep] & E & (O1 & O2 & O3) & _ & Hh).
    { unfold OI. cbn. split; [intros v []|]. split; [intros v w []|intros v []]. }
    { apply incl_refl. }
    cbn [fst snd] in *. exists delete, keep. split; [exact E|]. split; [|exact O3].
    intros x. split; [apply O1|].
    intros (HxD & (d & m & HdD & Hdm & Hmx) & Hno).
    destruct (Hh d m HdD Hdm) as [H|[H|[H|(k & HkK & Hmk)]]].
    - exfalso. apply (Hno m); [apply reach_sym; assumption|exact H].
    - exfalso. apply (reach_notD_l _ _ _ _ Hmx). exact H.
    - eapply O2; eassumption.
    - exfalso. apply (Hno k); [|exact HkK]. eapply reach_trans; [apply reach_sym; eassumption|exact Hmk].
  Qed.

  Lemma get_deleted_core_spec :
    exists r, get_deleted_core g D K = Ok r /\ forall x, In x r <-> deleted_spec g D K x.
  Proof.
    destruct get_deleted_loops_spec as (delete & keep & E & Hdel & _).
    exists (zunion delete D). unfold get_deleted_core. rewrite E. split; [reflexivity|].
    intros x. rewrite zunion_In, Hdel. unfold deleted_spec. tauto.
  Qed.
End GetDeleted.

Lemma map_image_In mapping l vs v :
  map_image mapping l = Some vs -> In v vs -> exists p, In p l /\ zget mapping p = Some v.
Proof.
  revert vs. induction l as [|p l IH]; intros vs; cbn [map_image].
  - intros H. inversion H; subst. intros [].
  - destruct (zget mapping p) as [w|] eqn:Ep; [|discriminate].
    destruct (map_image mapping l) as [ws|]; [|discriminate].
    intros H. inversion H; subst. intros [<-|Hv].
    + exists p. split; [left; reflexivity|exact Ep].
    + destruct (IH ws eq_refl Hv) as (q & Hq & Eq). exists q. split; [right; exact Hq|exact Eq].
Qed.

Lemma map_image_total mapping l :
  (forall p, In p l -> exists v, zget mapping p = Some v) -> exists vs, map_image mapping l = Some vs.
Proof.
  induction l as [|p l IH]; intros H; cbn [map_image]; [eexists; reflexivity|].
  destruct (H p (or_introl eq_refl)) as [v Ev]. rewrite Ev.
  destruct (IH (fun q Hq => H q (or_intror Hq))) as [vs Evs]. rewrite Evs. eexists; reflexivity.
Qed.

Lemma kept_not_image mapping to_del k : In k (kept mapping to_del) -> ~ In k (image mapping to_del).
Proof. unfold kept. rewrite zdiff_In. tauto. Qed.

(* _get_deleted is total on well-formed input, and it returns exactly the specified set *)
Theorem get_deleted_spec : forall g mapping to_del,
  sym_graph g = true ->
  (forall p, In p to_del -> exists v, zget mapping p = Some v /\ In v (keys g)) ->
  exists r, get_deleted g mapping to_del = Ok r /\
            forall x, In x r <-> deleted_spec g (image mapping to_del) (kept mapping to_del) x.
Proof.
  intros g mapping to_del Hs Hm.
  destruct to_del as [|p0 rest] eqn:Etd.
  - exists []. split; [reflexivity|]. intros x. unfold deleted_spec, detached, attached, image. cbn.
    split; [intros []|]. intros [[]|(_ & (d & n & [] & _) & _)].
  - rewrite <- Etd in *. clear Etd.
    destruct (map_image_total mapping to_del) as [vs Evs].
    { intros p Hp. destruct (Hm p Hp) as (v & Ev & _). exists v. exact Ev. }
    assert (E : get_deleted g mapping to_del =
                get_deleted_core g (image mapping to_del) (kept mapping to_del)).
    { unfold get_deleted. rewrite Evs. destruct to_del; [|reflexivity].
      cbn in Evs. reflexivity. }
    rewrite E. apply get_deleted_core_spec.
    + apply sym_graph_sym. exact Hs.
    + apply kept_not_image.
    + intros d Hd. unfold image in Hd. rewrite Evs in Hd. apply nodup_In in Hd.
      destruct (map_image_In _ _ _ _ Evs Hd) as (p & Hp & Ep).
      destruct (Hm p Hp) as (v & Ev & Hv). congruence.
Qed.

(* the intermediate sets of the loops (the correspondence compares them with the locals `delete` and `keep` of the real call) *)
Theorem get_deleted_sets_spec : forall g mapping to_del,
  sym_graph g = true ->
  (forall p, In p to_del -> exists v, zget mapping p = Some v /\ In v (keys g)) ->
  exists delete keep, get_deleted_sets g mapping to_del = Ok (delete, keep) /\
    (forall x, In x delete <-> detached g (image mapping to_del) (kept mapping to_del) x) /\
    (forall x, In x keep -> ~ In x (image mapping to_del) /\ ~ In x (kept mapping to_del) /\
                            attached g (image mapping to_del) x /\
                            exists k, In k (kept mapping to_del) /\ reach_av g (image mapping to_del) x k).
Proof.
  intros g mapping to_del Hs Hm.
  destruct (map_image_total mapping to_del) as [vs Evs].
  { intros p Hp. destruct (Hm p Hp) as (v & Ev & _). exists v. exact Ev. }
  unfold get_deleted_sets. rewrite Evs. apply get_deleted_loops_spec.
  - apply sym_graph_sym. exact Hs.
  - apply kept_not_image.
  - intros d Hd. unfold image in Hd. rewrite Evs in Hd. apply nodup_In in Hd.
    destruct (map_image_In _ _ _ _ Evs Hd) as (p & Hp & Ep).
    destruct (Hm p Hp) as (v & Ev & Hv). congruence.
Qed.

(* ---------- consequences ---------- *)
(* a kept matched atom (masked ones included) is never deleted; every matched-and-unkept atom is *)
Corollary get_deleted_keeps_kept : forall g mapping to_del r,
  sym_graph g = true ->
  (forall p, In p to_del -> exists v, zget mapping p = Some v /\ In v (keys g)) ->
  get_deleted g mapping to_del = Ok r ->
  (forall x, In x (image mapping to_del) -> In x r) /\ (forall x, In x (kept mapping to_del) -> ~ In x r).
Proof.
  intros g mapping to_del r Hs Hm E.
  destruct (get_deleted_spec g mapping to_del Hs Hm) as (r' & E' & Hspec).
  rewrite E in E'. inversion E'; subst r'. split.
  - intros x Hx. apply Hspec. left. exact Hx.
  - intros x Hx Hr. apply Hspec in Hr. destruct Hr as [Hr|(HnD & _ & Hno)].
    + exact (kept_not_image _ _ _ Hx Hr).
    + apply (Hno x); [apply ra_refl; exact HnD|exact Hx].
Qed.

(* ---------- BaseReactor.__init__: the atoms to delete; masked atoms are never removed ---------- *)
Theorem to_delete_of_spec : forall pattern replacement delete_atoms x,
  In x (to_delete_of pattern replacement delete_atoms) <->
  delete_atoms = true /\ In (x, false) pattern /\ ~ In x replacement.
Proof.
  intros pattern replacement da x. unfold to_delete_of. destruct da.
  - rewrite zdiff_In. unfold keys. rewrite in_map_iff. split.
    + intros [([x' mk] & Ex & Hin) Hn]. cbn in Ex. subst x'. apply filter_In in Hin. destruct Hin as [Hin Hm].
      cbn in Hm. apply negb_true_iff in Hm. subst mk. auto.
    + intros (_ & Hin & Hn). split; [|exact Hn]. exists (x, false). split; [reflexivity|].
      apply filter_In. split; [exact Hin|reflexivity].
  - split; [intros []|intros [H _]; discriminate].
Qed.

(* "unless masked": the image of a masked pattern atom is a kept matched atom, whatever the replacement says *)
Theorem masked_never_deleted : forall g pattern replacement delete_atoms mapping p v r,
  sym_graph g = true ->
  NoDup (keys pattern) -> In (p, true) pattern ->
  (forall q, In q (keys pattern) -> exists w, zget mapping q = Some w /\ In w (keys g)) ->
  (forall q1 q2 w, In q1 (keys pattern) -> In q2 (keys pattern) -> zget mapping q1 = Some w -> zget mapping q2 = Some w -> q1 = q2) ->
  zget mapping p = Some v ->
  get_deleted g mapping (to_delete_of pattern replacement delete_atoms) = Ok r ->
  ~ In v r.
Proof.
  intros g pattern replacement da mapping p v r Hs Hnd Hp Hm Hinj Hv Hr.
  set (td := to_delete_of pattern replacement da) in *.
  assert (Htd : forall q, In q td -> In (q, false) pattern) by (intros q Hq; apply to_delete_of_spec in Hq; tauto).
  assert (Hkey : forall q mk, In (q, mk) pattern -> In q (keys pattern)).
  { intros q mk Hin. unfold keys. apply in_map_iff. exists (q, mk). split; [reflexivity|exact Hin]. }
  assert (Hm' : forall q, In q td -> exists w, zget mapping q = Some w /\ In w (keys g)).
  { intros q Hq. apply Hm. eapply Hkey. apply Htd. exact Hq. }
  apply (proj2 (get_deleted_keeps_kept g mapping td r Hs Hm' Hr) v).
  unfold kept. apply zdiff_In. split.
  - apply in_map_iff. exists (p, v). split; [reflexivity|]. apply zget_Some_In. exact Hv.
  - intros Hi. unfold image in Hi.
    destruct (map_image_total mapping td) as [vs Evs].
    { intros q Hq. destruct (Hm' q Hq) as (w & Ew & _). exists w. exact Ew. }
    rewrite Evs in Hi. apply nodup_In in Hi.
    destruct (map_image_In _ _ _ _ Evs Hi) as (q & Hq & Eq).
    assert (q = p) by (apply (Hinj q p v); [eapply Hkey; apply Htd; exact Hq|eapply Hkey; exact Hp|exact Eq|exact Hv]).
    subst q. apply Htd in Hq.
    (* p is listed once in the pattern: it cannot be both masked and unmasked *)
    clear - Hnd Hp Hq. induction pattern as [|[k mk] l IH]; [destruct Hp|].
    cbn [keys map fst] in Hnd. inversion Hnd as [|? ? Hk Hnd']; subst.
    destruct Hp as [Ep|Hp], Hq as [Eq|Hq].
    + congruence.
    + inversion Ep; subst. apply Hk. unfold keys. apply in_map_iff. exists (p, false). split; [reflexivity|exact Hq].
    + inversion Eq; subst. apply Hk. unfold keys. apply in_map_iff. exists (p, true). split; [reflexivity|exact Hp].
    + apply IH; assumption.
Qed.

(* non-vacuity of masked_never_deleted: CCOC, pattern [C;M:1][O:2][C:3] >> [A:2], match {1:4, 2:3, 3:2}: the masked carbon 4
   stays although the replacement does not name it; the carbon 2 goes and takes the methyl 1 with it *)
Definition mask_g : graph := [(1, [2]); (2, [1; 3]); (3, [2; 4]); (4, [3])].
Definition mask_pattern : list (Z * bool) := [(1, true); (2, false); (3, false)].
Definition mask_mapping : list (Z * Z) := [(1, 4); (2, 3); (3, 2)].

Example masked_example :
  sym_graph mask_g = true /\ NoDup (keys mask_pattern) /\ In (1, true) mask_pattern /\
  (forall q, In q (keys mask_pattern) -> exists w, zget mask_mapping q = Some w /\ In w (keys mask_g)) /\
  (forall q1 q2 w, In q1 (keys mask_pattern) -> In q2 (keys mask_pattern) ->
                   zget mask_mapping q1 = Some w -> zget mask_mapping q2 = Some w -> q1 = q2) /\
  to_delete_of mask_pattern [2] true = [3] /\
  sorted_res (get_deleted mask_g mask_mapping (to_delete_of mask_pattern [2] true)) = Ok [1; 2].
Proof.
  split; [vm_compute; reflexivity|]. split; [cbn; repeat constructor; cbn; intuition discriminate|]. split; [left; reflexivity|].
  split.
  { intros q Hq. vm_compute in Hq. destruct Hq as [<-|[<-|[<-|[]]]]; eexists; split; vm_compute; eauto. }
  split.
  { intros q1 q2 w H1 H2. vm_compute in H1, H2.
    destruct H1 as [<-|[<-|[<-|[]]]]; destruct H2 as [<-|[<-|[<-|[]]]]; vm_compute; intros E1 E2; congruence. }
  split; vm_compute; reflexivity.
Qed.

(* membership-equal D, K give the same specification: the result does not depend on set iteration order *)
Lemma reach_av_ext g D D' x y : (forall v, In v D <-> In v D') -> reach_av g D x y -> reach_av g D' x y.
Proof.
  intros H Hr. induction Hr as [x Hx|x y z Hxy IH Ha Hz].
  - apply ra_refl. rewrite <- H. exact Hx.
  - eapply ra_step; [exact IH|exact Ha|rewrite <- H; exact Hz].
Qed.

Lemma deleted_spec_ext g D D' K K' x :
  (forall v, In v D <-> In v D') -> (forall v, In v K <-> In v K') ->
  deleted_spec g D K x -> deleted_spec g D' K' x.
Proof.
  intros HD HK [H|(HnD & (d & n & HdD & Hdn & Hnx) & Hno)].
  - left. apply HD. exact H.
  - right. split; [rewrite <- HD; exact HnD|]. split.
    + exists d, n. split; [apply HD; exact HdD|]. split; [exact Hdn|]. eapply reach_av_ext; eassumption.
    + intros y Hy HyK. apply (Hno y); [|apply HK; exact HyK].
      eapply reach_av_ext; [|exact Hy]. intros v. symmetry. apply HD.
Qed.

Lemma map_image_In_rev mapping l vs p v :
  map_image mapping l = Some vs -> In p l -> zget mapping p = Some v -> In v vs.
Proof.
  revert vs. induction l as [|q l IH]; intros vs; cbn [map_image]; [intros _ []|].
  destruct (zget mapping q) as [w|] eqn:Eq; [|discriminate].
  destruct (map_image mapping l) as [ws|]; [|discriminate].
  intros H. inversion H; subst. intros [->|Hp] Ev.
  - left. congruence.
  - right. eapply IH; eauto.
Qed.

Lemma image_perm mapping l l' :
  (forall p, In p l <-> In p l') ->
  (forall p, In p l -> exists v, zget mapping p = Some v) ->
  forall v, In v (image mapping l) <-> In v (image mapping l').
Proof.
  intros Hll Hm.
  assert (Hm' : forall p, In p l' -> exists v, zget mapping p = Some v) by (intros p Hp; apply Hm; apply Hll; exact Hp).
  destruct (map_image_total _ _ Hm) as [vs E]. destruct (map_image_total _ _ Hm') as [vs' E'].
  intros v. unfold image. rewrite E, E', !nodup_In. split; intros Hv.
  - destruct (map_image_In _ _ _ _ E Hv) as (p & Hp & Ep). eapply map_image_In_rev; [exact E'|apply Hll; exact Hp|exact Ep].
  - destruct (map_image_In _ _ _ _ E' Hv) as (p & Hp & Ep). eapply map_image_In_rev; [exact E|apply Hll; exact Hp|exact Ep].
Qed.

Theorem get_deleted_order_independent : forall g mapping to_del to_del' r r',
  sym_graph g = true ->
  (forall p, In p to_del -> exists v, zget mapping p = Some v /\ In v (keys g)) ->
  (forall p, In p to_del <-> In p to_del') ->
  get_deleted g mapping to_del = Ok r -> get_deleted g mapping to_del' = Ok r' ->
  forall x, In x r <-> In x r'.
Proof.
  intros g mapping l l' r r' Hs Hm Hll E E'.
  assert (Hm' : forall p, In p l' -> exists v, zget mapping p = Some v /\ In v (keys g))
    by (intros p Hp; apply Hm; apply Hll; exact Hp).
  destruct (get_deleted_spec g mapping l Hs Hm) as (r1 & E1 & H1).
  destruct (get_deleted_spec g mapping l' Hs Hm') as (r2 & E2 & H2).
  rewrite E in E1. rewrite E' in E2. inversion E1; inversion E2; subst r1 r2.
  assert (HD : forall v, In v (image mapping l) <-> In v (image mapping l')).
  { apply image_perm; [exact Hll|]. intros p Hp. destruct (Hm p Hp) as (v & Ev & _). exists v. exact Ev. }
  assert (HK : forall v, In v (kept mapping l) <-> In v (kept mapping l')).
  { intros v. unfold kept. rewrite !zdiff_In, HD. tauto. }
  intros x. rewrite H1, H2. split; apply deleted_spec_ext; auto; intros v; symmetry; auto.
Qed.

(* DESIGN Appendix A form: in a connected molecule with at least one deleted atom, x is deleted iff it is a
   matched-and-unkept atom or no kept matched atom can be reached from it inside the remainder *)
Lemma first_deleted_on_path g D x y :
  reach_av g [] x y -> ~ In x D ->
  reach_av g D x y \/ exists d n, In d D /\ adj g n d /\ reach_av g D x n.
Proof.
  intros Hr Hx. induction Hr as [x _|x y z Hxy IH Ha _].
  - left. apply ra_refl. exact Hx.
  - destruct (IH Hx) as [H|H]; [|right; exact H].
    destruct (in_dec Z.eq_dec z D) as [Hz|Hz].
    + right. exists z, y. auto.
    + left. eapply ra_step; eassumption.
Qed.

Theorem get_deleted_spec_connected : forall g mapping to_del,
  sym_graph g = true -> connected g ->
  (forall p, In p to_del -> exists v, zget mapping p = Some v /\ In v (keys g)) ->
  to_del <> [] ->
  exists r, get_deleted g mapping to_del = Ok r /\
    forall x, In x (keys g) ->
      (In x r <-> In x (image mapping to_del) \/
                  (~ In x (image mapping to_del) /\
                   forall y, reach_av g (image mapping to_del) x y -> ~ In y (kept mapping to_del))).
Proof.
  intros g mapping to_del Hs Hc Hm Hne.
  destruct (get_deleted_spec g mapping to_del Hs Hm) as (r & E & Hspec).
  exists r. split; [exact E|]. intros x Hx. rewrite Hspec. unfold deleted_spec, detached.
  split; [tauto|]. intros [H|[HnD Hno]]; [left; exact H|]. right. split; [exact HnD|]. split; [|exact Hno].
  (* some deleted atom exists and x is connected to it: the piece of x hangs on the first deleted atom of the path *)
  destruct to_del as [|p0 rest]; [congruence|].
  destruct (Hm p0 (or_introl eq_refl)) as (d0 & Ed0 & Hd0).
  assert (Hd0D : In d0 (image mapping (p0 :: rest))).
  { destruct (map_image_total mapping (p0 :: rest)) as [vs Evs].
    { intros p Hp. destruct (Hm p Hp) as (v & Ev & _). exists v. exact Ev. }
    unfold image. rewrite Evs. apply nodup_In. eapply map_image_In_rev; [exact Evs|left; reflexivity|exact Ed0]. }
  destruct (first_deleted_on_path g (image mapping (p0 :: rest)) x d0 (Hc x d0 Hx Hd0) HnD) as [H|(d & n & HdD & Hnd & Hxn)].
  - exfalso. exact (reach_notD_r _ _ _ _ H Hd0D).
  - exists d, n. split; [exact HdD|]. split; [apply sym_graph_sym; assumption|].
    apply reach_sym; [apply sym_graph_sym; exact Hs|exact Hxn].
Qed.

(* molecules of Model.Graph: well-formedness gives the symmetry the theorems need *)
Lemma zget_map_snd {V W} (f : V -> W) (d : list (Z * V)) k :
  zget (map (fun kv => (fst kv, f (snd kv))) d) k = option_map f (zget d k).
Proof.
  induction d as [|[k' v] d IH]; cbn; [reflexivity|]. destruct (k =? k'); [reflexivity|exact IH].
Qed.

Lemma gnbrs_graph_of m n : gnbrs (graph_of m) n = nbr_ids m n.
Proof.
  unfold gnbrs, graph_of, nbr_ids, nbrs. rewrite (zget_map_snd (fun l => keys l)).
  destruct (zget (m_adj m) n); reflexivity.
Qed.

Lemma wf_mol_sym_graph m : wf_mol m = true -> sym_graph (graph_of m) = true.
Proof.
  unfold wf_mol, sym_graph. intros H. apply andb_prop in H. destruct H as [_ H].
  rewrite forallb_forall in H. apply forallb_forall. intros [n ks] Hin.
  unfold graph_of in Hin. apply in_map_iff in Hin. destruct Hin as ([n' l] & Eq & Hin). cbn in Eq. inversion Eq; subst n' ks.
  specialize (H (n, l) Hin). cbn [fst snd] in *. apply andb_prop in H. destruct H as [_ H].
  rewrite forallb_forall in H. apply forallb_forall. intros b Hb.
  unfold keys in Hb. apply in_map_iff in Hb. destruct Hb as ([b' bd] & Eb & Hb). cbn in Eb. subst b'.
  specialize (H (b, bd) Hb). cbn [fst snd] in H.
  apply andb_prop in H. destruct H as [_ H].
  rewrite gnbrs_graph_of. apply zmem_In. unfold nbr_ids.
  unfold bond_of in H. destruct (zget (nbrs m b) n) eqn:E; [|discriminate].
  eapply zget_Some_key. exact E.
Qed.

Theorem get_deleted_spec_mol : forall m mapping to_del,
  wf_mol m = true ->
  (forall p, In p to_del -> exists v, zget mapping p = Some v /\ In v (keys (m_adj m))) ->
  exists r, get_deleted (graph_of m) mapping to_del = Ok r /\
            forall x, In x r <-> deleted_spec (graph_of m) (image mapping to_del) (kept mapping to_del) x.
Proof.
  intros m mapping to_del Hwf Hm. apply get_deleted_spec.
  - apply wf_mol_sym_graph. exact Hwf.
  - intros p Hp. destruct (Hm p Hp) as (v & Ev & Hv). exists v. split; [exact Ev|].
    unfold graph_of, keys. rewrite map_map. cbn. exact Hv.
Qed.

(* ====================================================================================================
   non-vacuity: the two inputs on which the code before fix: b90326c violated the specification
   ==================================================================================================== *)
(* C1N2CC1C2, atoms numbered as chython reads the SMILES; pattern [C:1][N:2] -> [C:1], match {1:5, 2:2}.
   Atom 3 hangs on the deleted atom 2 but 3-4-5 joins it to the kept atom 5: nothing but 2 is removed
   (the old code returned {2, 3}) *)
Definition wit_g : graph := [(1, [2; 4]); (2, [1; 3; 5]); (3, [2; 4]); (4, [3; 1; 5]); (5, [4; 2])].
Definition wit_mapping : list (Z * Z) := [(1, 5); (2, 2)].
Definition wit_to_del : list Z := [2].

(* C1N(F)N(C1)Cl; pattern [C:1][N:2][N:4] -> [C:1], match {1:1, 2:2, 4:4}: the fluorine 3 and the chlorine 6 hang only
   on deleted atoms and go with them, the carbon 5 stays (the old code kept the chlorine) *)
Definition wit2_g : graph := [(1, [2; 5]); (2, [1; 3; 4]); (3, [2]); (4, [2; 5; 6]); (5, [4; 1]); (6, [4])].
Definition wit2_mapping : list (Z * Z) := [(1, 1); (2, 2); (4, 4)].
Definition wit2_to_del : list Z := [2; 4].

Example get_deleted_on_witnesses :
  sym_graph wit_g = true /\
  (forall p, In p wit_to_del -> exists v, zget wit_mapping p = Some v /\ In v (keys wit_g)) /\
  get_deleted wit_g wit_mapping wit_to_del = Ok [2] /\
  get_deleted_sets wit_g wit_mapping wit_to_del = Ok ([], [3; 4; 1]) /\
  sym_graph wit2_g = true /\
  (forall p, In p wit2_to_del -> exists v, zget wit2_mapping p = Some v /\ In v (keys wit2_g)) /\
  sorted_res (get_deleted wit2_g wit2_mapping wit2_to_del) = Ok [2; 3; 4; 6] /\
  get_deleted_sets wit2_g wit2_mapping wit2_to_del = Ok ([6; 3], [5]).
Proof.
  split; [vm_compute; reflexivity|]. split.
  { intros p [<-|[]]. exists 2. split; vm_compute; auto. }
  split; [vm_compute; reflexivity|]. split; [vm_compute; reflexivity|].
  split; [vm_compute; reflexivity|]. split.
  { intros p [<-|[<-|[]]]; [exists 2|exists 4]; split; vm_compute; auto. }
  split; vm_compute; reflexivity.
Qed.

(* both witnesses are connected molecules (hypothesis of get_deleted_spec_connected) *)
Lemma connected_from g r : (forall a b, adj g a b -> adj g b a) ->
  (forall b, In b (keys g) -> reach_av g [] r b) -> connected g.
Proof.
  intros Hs Hr a b Ha Hb. eapply reach_trans; [apply reach_sym; [exact Hs|apply Hr; exact Ha]|apply Hr; exact Hb].
Qed.

Example witnesses_connected : connected wit_g /\ connected wit2_g.
Proof.
  assert (E : forall g x y, In y (gnbrs g x) -> reach_av g [] x x -> reach_av g [] x y).
  { intros g x y Hy Hx. eapply ra_step; [exact Hx|exact Hy|intros []]. }
  assert (S : forall g r x y, reach_av g [] r x -> In y (gnbrs g x) -> reach_av g [] r y).
  { intros g r x y Hx Hy. eapply ra_step; [exact Hx|exact Hy|intros []]. }
  split.
  - apply (connected_from wit_g 1); [apply sym_graph_sym; vm_compute; reflexivity|].
    assert (R1 : reach_av wit_g [] 1 1) by (apply ra_refl; intros []).
    assert (R2 : reach_av wit_g [] 1 2) by (apply (S _ _ 1 2 R1); vm_compute; auto).
    assert (R4 : reach_av wit_g [] 1 4) by (apply (S _ _ 1 4 R1); vm_compute; auto).
    assert (R3 : reach_av wit_g [] 1 3) by (apply (S _ _ 2 3 R2); vm_compute; auto).
    assert (R5 : reach_av wit_g [] 1 5) by (apply (S _ _ 2 5 R2); vm_compute; auto).
    intros b Hb. vm_compute in Hb. repeat (destruct Hb as [<-|Hb]; [assumption|]). destruct Hb.
  - apply (connected_from wit2_g 1); [apply sym_graph_sym; vm_compute; reflexivity|].
    assert (R1 : reach_av wit2_g [] 1 1) by (apply ra_refl; intros []).
    assert (R2 : reach_av wit2_g [] 1 2) by (apply (S _ _ 1 2 R1); vm_compute; auto).
    assert (R5 : reach_av wit2_g [] 1 5) by (apply (S _ _ 1 5 R1); vm_compute; auto).
    assert (R3 : reach_av wit2_g [] 1 3) by (apply (S _ _ 2 3 R2); vm_compute; auto).
    assert (R4 : reach_av wit2_g [] 1 4) by (apply (S _ _ 2 4 R2); vm_compute; auto).
    assert (R6 : reach_av wit2_g [] 1 6) by (apply (S _ _ 4 6 R4); vm_compute; auto).
    intros b Hb. vm_compute in Hb. repeat (destruct Hb as [<-|Hb]; [assumption|]). destruct Hb.
Qed.

(* the specification really separates the atoms of the second witness: 6 is detached, 5 is not *)
Example deleted_spec_on_witness :
  deleted_spec wit2_g (image wit2_mapping wit2_to_del) (kept wit2_mapping wit2_to_del) 6 /\
  ~ deleted_spec wit2_g (image wit2_mapping wit2_to_del) (kept wit2_mapping wit2_to_del) 5.
Proof.
  change (image wit2_mapping wit2_to_del) with [2; 4]. change (kept wit2_mapping wit2_to_del) with [1].
  split.
  - right. split; [intros [E|[E|[]]]; discriminate|]. split.
    + exists 4, 6. split; [right; left; reflexivity|]. split; [unfold adj; vm_compute; auto|].
      apply ra_refl. intros [E|[E|[]]]; discriminate.
    + (* nothing but 6 itself can be reached from 6 without passing the deleted atom 4 *)
      assert (Hall : forall y, reach_av wit2_g [2; 4] 6 y -> y = 6).
      { apply reach_ind_from; [reflexivity|]. intros y z _ -> Ha Hz.
        unfold adj in Ha. vm_compute in Ha. destruct Ha as [<-|[]]. exfalso. apply Hz. right. left. reflexivity. }
      intros y Hy. apply Hall in Hy. subst y. intros [E|[]]. discriminate.
  - intros [[E|[E|[]]]|(_ & _ & Hno)]; try discriminate.
    apply (Hno 1); [|left; reflexivity].
    assert (N : forall a, a <> 2 -> a <> 4 -> ~ In a [2; 4]) by (intros a H2 H4 [E|[E|[]]]; congruence).
    eapply ra_step; [apply ra_refl; apply N; discriminate|unfold adj; vm_compute; auto|apply N; discriminate].
Qed.

(* ====================================================================================================
   structural part of _patcher
   ==================================================================================================== *)
(* ---------- dict updates ---------- *)
Lemma zget_zset_same {V} (d : list (Z * V)) k v : zget (zset d k v) k = Some v.
Proof.
  induction d as [|[k' v'] d IH]; cbn; [rewrite Z.eqb_refl; reflexivity|].
  destruct (Z.eqb_spec k k'); cbn.
  - rewrite Z.eqb_refl. reflexivity.
  - destruct (Z.eqb_spec k k'); [contradiction|exact IH].
Qed.

Lemma zget_zset_other {V} (d : list (Z * V)) k v k' : k' <> k -> zget (zset d k v) k' = zget d k'.
Proof.
  intros Hne. induction d as [|[k0 v0] d IH]; cbn.
  - destruct (Z.eqb_spec k' k); [contradiction|reflexivity].
  - destruct (Z.eqb_spec k k0); cbn.
    + subst k0. destruct (Z.eqb_spec k' k); [contradiction|reflexivity].
    + destruct (k' =? k0); [reflexivity|exact IH].
Qed.

Lemma zget_zset {V} (d : list (Z * V)) k v k' : zget (zset d k v) k' = if k' =? k then Some v else zget d k'.
Proof.
  destruct (Z.eqb_spec k' k); [subst; apply zget_zset_same|apply zget_zset_other; assumption].
Qed.

Lemma keys_zset_In {V} (d : list (Z * V)) k v x : In x (keys (zset d k v)) <-> x = k \/ In x (keys d).
Proof.
  induction d as [|[k' v'] d IH]; cbn.
  - intuition.
  - destruct (Z.eqb_spec k k'); cbn.
    + subst. intuition.
    + rewrite IH. intuition.
Qed.

Lemma keys_zset_present {V} (d : list (Z * V)) k v : In k (keys d) -> keys (zset d k v) = keys d.
Proof.
  induction d as [|[k' v'] d IH]; cbn; [intros []|].
  destruct (Z.eqb_spec k k'); cbn; [subst; reflexivity|].
  intros [E|H]; [congruence|]. f_equal. apply IH. exact H.
Qed.

Lemma keys_zset_absent {V} (d : list (Z * V)) k v : ~ In k (keys d) -> keys (zset d k v) = keys d ++ [k].
Proof.
  induction d as [|[k' v'] d IH]; cbn; [reflexivity|].
  intros H. destruct (Z.eqb_spec k k'); [exfalso; apply H; left; congruence|].
  cbn. f_equal. apply IH. intros Hi. apply H. right. exact Hi.
Qed.

Lemma NoDup_snoc (l : list Z) k : NoDup l -> ~ In k l -> NoDup (l ++ [k]).
Proof.
  induction l as [|a l IH]; intros Hn Hk; cbn.
  - constructor; [intros []|constructor].
  - inversion Hn; subst. constructor.
    + rewrite in_app_iff. intros [H|[H|[]]]; [contradiction|]. subst. apply Hk. left. reflexivity.
    + apply IH; [assumption|]. intros H. apply Hk. right. exact H.
Qed.

Lemma NoDup_keys_zset {V} (d : list (Z * V)) k v : NoDup (keys d) -> NoDup (keys (zset d k v)).
Proof.
  intros H. destruct (in_dec Z.eq_dec k (keys d)) as [Hi|Hi].
  - rewrite keys_zset_present; assumption.
  - rewrite keys_zset_absent by assumption. apply NoDup_snoc; assumption.
Qed.

(* ---------- nbonds[n][m] = ... : sequences of `link` ---------- *)

Lemma bond_of_get2 atoms adj x y : bond_of (mkMol atoms adj) x y = get2 adj x y.
Proof. reflexivity. Qed.

Lemma get2_key adj x y b : get2 adj x y = Some b -> In x (keys adj).
Proof.
  unfold get2. destruct (zget adj x) eqn:E; [intros _; eapply zget_Some_key; exact E|cbn; discriminate].
Qed.

Lemma link_ok adj n m fresh adj' : link adj n m fresh = Ok adj' ->
  In n (keys adj) /\ In m (keys adj) /\ keys adj' = keys adj /\
  forall x y, get2 adj' x y =
              if (x =? n) && (y =? m) then Some (match get2 adj m n with Some b => b | None => fresh end) else get2 adj x y.
Proof.
  unfold link. destruct (zget adj m) as [lm|] eqn:Em; [|discriminate].
  destruct (zget adj n) as [ln|] eqn:En; [|discriminate].
  intros H. inversion H; subst adj'. clear H.
  split; [eapply zget_Some_key; exact En|]. split; [eapply zget_Some_key; exact Em|].
  split; [apply keys_zset_present; eapply zget_Some_key; exact En|].
  intros x y. unfold get2 at 1. rewrite zget_zset.
  destruct (Z.eqb_spec x n) as [->|Hx]; cbn [andb].
  - rewrite zget_zset. unfold get2. rewrite Em, En. destruct (y =? m); reflexivity.
  - reflexivity.
Qed.

Definition req := (Z * Z * bond)%type.
Definition link_req (adj : adjT) (w : req) : pyres adjT := link adj (fst (fst w)) (snd (fst w)) (snd w).
Definition targets (W : list req) (x y : Z) : bool := existsb (fun w => (x =? fst (fst w)) && (y =? snd (fst w))) W.

Lemma targets_In W x y : targets W x y = true <-> exists b, In (x, y, b) W.
Proof.
  unfold targets. rewrite existsb_exists. split.
  - intros ([[n m] b] & Hin & H). cbn in H. apply andb_prop in H. destruct H as [H1 H2].
    apply Z.eqb_eq in H1. apply Z.eqb_eq in H2. subst. exists b. exact Hin.
  - intros [b Hin]. exists (x, y, b). split; [exact Hin|]. cbn. rewrite !Z.eqb_refl. reflexivity.
Qed.

Lemma links_keys : forall W adj adj', fold_res link_req W adj = Ok adj' ->
  keys adj' = keys adj /\
  (forall n m b, In (n, m, b) W -> In n (keys adj) /\ In m (keys adj)) /\
  (forall x y, targets W x y = false -> get2 adj' x y = get2 adj x y).
Proof.
  induction W as [|[[n m] b] W IH]; intros adj adj' H; cbn [fold_res] in H.
  - inversion H; subst. split; [reflexivity|]. split; [intros ? ? ? []|reflexivity].
  - unfold link_req at 1 in H. cbn [fst snd] in H.
    destruct (link adj n m b) as [adj1|] eqn:E1; [|discriminate].
    destruct (link_ok _ _ _ _ _ E1) as (Hn & Hm & Hk & Hg).
    destruct (IH adj1 adj' H) as (Hk' & Hin' & Hg').
    split; [congruence|]. split.
    + intros n' m' b' [E|Hin]; [inversion E; subst; split; assumption|].
      rewrite <- Hk. eapply Hin'. exact Hin.
    + intros x y Ht. cbn [targets existsb fst snd] in Ht. apply orb_false_iff in Ht. destruct Ht as [Ht1 Ht2].
      rewrite (Hg' x y Ht2), Hg, Ht1. reflexivity.
Qed.

Lemma links_spec (v : Z -> Z -> bond) : forall W adj adj',
  (forall n m b, In (n, m, b) W -> b = v n m /\ v m n = v n m) ->
  (forall n m b b', In (n, m, b) W -> get2 adj m n = Some b' -> b' = v n m) ->
  fold_res link_req W adj = Ok adj' ->
  forall x y, get2 adj' x y = if targets W x y then Some (v x y) else get2 adj x y.
Proof.
  induction W as [|[[n m] b] W IH]; intros adj adj' HA HB H; cbn [fold_res] in H.
  - inversion H; subst. reflexivity.
  - unfold link_req at 1 in H. cbn [fst snd] in H.
    destruct (link adj n m b) as [adj1|] eqn:E1; [|discriminate].
    destruct (link_ok _ _ _ _ _ E1) as (_ & _ & _ & Hg).
    destruct (HA n m b (or_introl eq_refl)) as [Hb Hsym].
    assert (Hval : (match get2 adj m n with Some b0 => b0 | None => b end) = v n m).
    { destruct (get2 adj m n) eqn:E; [eapply HB; [left; reflexivity|exact E]|exact Hb]. }
    rewrite Hval in Hg.
    intros x y. cbn [targets existsb fst snd]. fold (targets W x y).
    rewrite (IH adj1 adj'); [| | |exact H].
    + rewrite Hg. destruct (targets W x y); [rewrite orb_true_r; reflexivity|rewrite orb_false_r].
      destruct ((x =? n) && (y =? m)) eqn:E; [|reflexivity].
      apply andb_prop in E. destruct E as [Ex Ey]. apply Z.eqb_eq in Ex. apply Z.eqb_eq in Ey. subst. reflexivity.
    + intros n' m' b' Hin. apply HA. right. exact Hin.
    + intros n' m' b' b'' Hin Hget. rewrite Hg in Hget.
      destruct ((m' =? n) && (n' =? m)) eqn:E.
      * apply andb_prop in E. destruct E as [Ex Ey]. apply Z.eqb_eq in Ex. apply Z.eqb_eq in Ey. subst.
        inversion Hget; subst. apply (proj2 (HA m n b' (or_intror Hin))).
      * eapply HB; [right; exact Hin|exact Hget].
Qed.

Lemma fold_res_app {A S} (f : S -> A -> pyres S) (a b : list A) s :
  fold_res f (a ++ b) s = match fold_res f a s with Ok s' => fold_res f b s' | Err e => Err e end.
Proof.
  revert s. induction a as [|x a IH]; intros s; cbn; [reflexivity|]. destruct (f s x); [apply IH|reflexivity].
Qed.

Lemma fold_res_flat {A B S} (f : S -> A -> pyres S) (h : S -> B -> pyres S) (k : A -> list B) :
  (forall s a, f s a = fold_res h (k a) s) -> forall l s, fold_res f l s = fold_res h (flat_map k l) s.
Proof.
  intros Hf. induction l as [|a l IH]; intros s; cbn [fold_res flat_map]; [reflexivity|].
  rewrite fold_res_app, Hf. destruct (fold_res h (k a) s); [apply IH|reflexivity].
Qed.

(* ---------- step 1: the atoms of the replacement ---------- *)
Lemma truthy_get_zset mp n m n' : m <> 0 ->
  truthy_get (zset mp n m) n' = if n' =? n then Some m else truthy_get mp n'.
Proof.
  intros Hm. unfold truthy_get. rewrite zget_zset. destruct (n' =? n); [|reflexivity].
  destruct (Z.eqb_spec m 0); [contradiction|reflexivity].
Qed.

Lemma keys_zset_lockstep {V W} (d1 : list (Z * V)) (d2 : list (Z * W)) k v1 v2 :
  keys d1 = keys d2 -> keys (zset d1 k v1) = keys (zset d2 k v2).
Proof.
  intros E. destruct (in_dec Z.eq_dec k (keys d1)) as [Hi|Hi].
  - rewrite !keys_zset_present; [exact E|rewrite <- E; exact Hi|exact Hi].
  - rewrite !keys_zset_absent; [rewrite E; reflexivity|rewrite <- E; exact Hi|exact Hi].
Qed.

(* the atom the patcher builds for a replacement atom: sa = the matched atom (unused for a new atom) *)
Lemma patch_atom_ok g s n ra s' : patch_atom g s (n, ra) = Ok s' -> 0 <= p_max s ->
  exists m a,
    p_atoms s' = zset (p_atoms s) m a /\ p_adj s' = zset (p_adj s) m [] /\ truthy_get (p_map s') n = Some m /\
    ((truthy_get (p_map s) n = Some m /\ p_map s' = p_map s /\ p_max s' = p_max s /\
      exists sa, atom_of g m = Some sa /\ a = built ra sa false) \/
     (truthy_get (p_map s) n = None /\ p_map s' = zset (p_map s) n m /\ m = p_max s + 1 /\ p_max s' = m /\
      a = built ra dummy_atom true)).
Proof.
  unfold patch_atom. intros H Hmax. destruct ra as [chg rad|num iso chg rad h].
  - destruct (truthy_get (p_map s) n) as [m|] eqn:Em; [|discriminate].
    destruct (atom_of g m) as [sa|] eqn:Ea; [|discriminate].
    inversion H; subst s'. cbn. eexists m, _. split; [reflexivity|]. split; [reflexivity|]. split; [exact Em|].
    left. split; [reflexivity|]. split; [reflexivity|]. split; [reflexivity|]. exists sa. split; [exact Ea|reflexivity].
  - destruct (truthy_get (p_map s) n) as [m|] eqn:Em.
    + destruct (atom_of g m) as [sa|] eqn:Ea; [|discriminate].
      inversion H; subst s'. cbn. eexists m, _. split; [reflexivity|]. split; [reflexivity|]. split; [exact Em|].
      left. split; [reflexivity|]. split; [reflexivity|]. split; [reflexivity|]. exists sa. split; [exact Ea|reflexivity].
    + inversion H; subst s'. cbn. eexists (p_max s + 1), _. split; [reflexivity|]. split; [reflexivity|].
      split; [rewrite truthy_get_zset by lia; rewrite Z.eqb_refl; reflexivity|].
      right. repeat (split; [reflexivity|]). reflexivity.
Qed.

Lemma patch_atoms_spec g : forall l s s', fold_res (patch_atom g) l s = Ok s' -> 0 <= p_max s ->
  p_max s <= p_max s' /\
  (forall n m, truthy_get (p_map s) n = Some m -> truthy_get (p_map s') n = Some m) /\
  (forall n m, truthy_get (p_map s') n = Some m ->
               truthy_get (p_map s) n = Some m \/ (In n (keys l) /\ p_max s < m <= p_max s')) /\
  (forall x, In x (keys (p_atoms s')) <->
             In x (keys (p_atoms s)) \/ exists n, In n (keys l) /\ truthy_get (p_map s') n = Some x) /\
  (keys (p_adj s) = keys (p_atoms s) -> keys (p_adj s') = keys (p_atoms s')) /\
  ((forall x l0, zget (p_adj s) x = Some l0 -> l0 = []) -> forall x l0, zget (p_adj s') x = Some l0 -> l0 = []) /\
  (NoDup (keys (p_atoms s)) -> NoDup (keys (p_atoms s'))).
Proof.
  induction l as [|[n ra] l IH]; intros s s' H Hmax; cbn [fold_res] in H.
  - inversion H; subst s'. split; [lia|]. split; [auto|]. split; [auto|]. split; [|auto].
    intros x. split; [auto|]. intros [Hx|(n & [] & _)]. exact Hx.
  - destruct (patch_atom g s (n, ra)) as [s1|] eqn:E1; [|discriminate].
    destruct (patch_atom_ok _ _ _ _ _ E1 Hmax) as (m & a & Ha & Hadj & Hn1 & Hcase).
    assert (Hmax1 : p_max s <= p_max s1 /\ 0 <= p_max s1) by (destruct Hcase as [(_ & _ & -> & _)|(_ & _ & -> & -> & _)]; lia).
    assert (Hext1 : forall n' m', truthy_get (p_map s) n' = Some m' -> truthy_get (p_map s1) n' = Some m').
    { intros n' m' Hg. destruct Hcase as [(_ & -> & _)|(Hnone & -> & -> & _)]; [exact Hg|].
      rewrite truthy_get_zset by lia. destruct (Z.eqb_spec n' n); [subst; congruence|exact Hg]. }
    assert (Hnew1 : forall n' m', truthy_get (p_map s1) n' = Some m' ->
                                  truthy_get (p_map s) n' = Some m' \/ (n' = n /\ p_max s < m' <= p_max s1)).
    { intros n' m' Hg. destruct Hcase as [(_ & E & _)|(Hnone & E & Em & Emax & _)]; rewrite E in Hg; [left; exact Hg|].
      rewrite truthy_get_zset in Hg by lia. destruct (Z.eqb_spec n' n); [|left; exact Hg].
      right. inversion Hg; subst. split; [reflexivity|lia]. }
    destruct (IH s1 s' H (proj2 Hmax1)) as (I1 & I2 & I3 & I4 & I5 & I6 & I7).
    split; [lia|]. split; [auto|]. split; [|split; [|split; [|split]]].
    + intros n' m' Hg. destruct (I3 n' m' Hg) as [Hg1|(Hin & Hr)].
      * destruct (Hnew1 n' m' Hg1) as [?|(-> & Hr)]; [left; assumption|]. right. split; [left; reflexivity|lia].
      * right. split; [right; exact Hin|lia].
    + intros x. rewrite I4, Ha, keys_zset_In. cbn [keys map fst]. split.
      * intros [[->|Hx]|(n' & Hin & Hg)].
        -- right. exists n. split; [left; reflexivity|]. apply I2. exact Hn1.
        -- left. exact Hx.
        -- right. exists n'. split; [right; exact Hin|exact Hg].
      * intros [Hx|(n' & [<-|Hin] & Hg)].
        -- left. right. exact Hx.
        -- left. left. apply I2 in Hn1. congruence.
        -- right. exists n'. split; assumption.
    + intros Hk. apply I5. rewrite Ha, Hadj. apply keys_zset_lockstep. exact Hk.
    + intros Hall. apply I6. intros x l0. rewrite Hadj, zget_zset. destruct (x =? m); [congruence|apply Hall].
    + intros Hnd. apply I7. rewrite Ha. apply NoDup_keys_zset. exact Hnd.
Qed.

(* an atom that no later replacement atom is mapped to keeps its value *)
Lemma patch_atoms_preserve g : forall l s s', fold_res (patch_atom g) l s = Ok s' -> 0 <= p_max s ->
  forall x, x <= p_max s -> (forall n, In n (keys l) -> truthy_get (p_map s) n <> Some x) ->
  zget (p_atoms s') x = zget (p_atoms s) x.
Proof.
  induction l as [|[n ra] l IH]; intros s s' H Hmax x Hx Hno; cbn [fold_res] in H.
  - inversion H; subst. reflexivity.
  - destruct (patch_atom g s (n, ra)) as [s1|] eqn:E1; [|discriminate].
    destruct (patch_atom_ok _ _ _ _ _ E1 Hmax) as (m & a & Ha & _ & _ & Hcase).
    assert (Hm : m <> x).
    { destruct Hcase as [(Hg & _)|(_ & _ & -> & _)]; [|lia]. intros ->. apply (Hno n); [left; reflexivity|exact Hg]. }
    rewrite (IH s1 s' H).
    + rewrite Ha. apply zget_zset_other. congruence.
    + destruct Hcase as [(_ & _ & -> & _)|(_ & _ & -> & -> & _)]; lia.
    + destruct Hcase as [(_ & _ & -> & _)|(_ & _ & -> & -> & _)]; lia.
    + intros n' Hin. destruct Hcase as [(_ & -> & _)|(_ & -> & Em & _)]; [apply Hno; right; exact Hin|].
      rewrite truthy_get_zset by lia. destruct (n' =? n); [congruence|apply Hno; right; exact Hin].
Qed.

(* the match is injective on the atoms of the replacement and its images are numbers in use *)
Definition inj_on (T : list Z) (mp : list (Z * Z)) (mx : Z) : Prop :=
  (forall n1 n2 m, In n1 T -> In n2 T -> truthy_get mp n1 = Some m -> truthy_get mp n2 = Some m -> n1 = n2) /\
  (forall n m, In n T -> truthy_get mp n = Some m -> m <= mx).

Lemma patch_atoms_values g T : forall l s s', fold_res (patch_atom g) l s = Ok s' -> 0 <= p_max s ->
  NoDup (keys l) -> incl (keys l) T -> inj_on T (p_map s) (p_max s) ->
  forall n ra, In (n, ra) l ->
    exists m, truthy_get (p_map s') n = Some m /\
      ((truthy_get (p_map s) n = Some m /\ exists sa, atom_of g m = Some sa /\ zget (p_atoms s') m = Some (built ra sa false)) \/
       (truthy_get (p_map s) n = None /\ p_max s < m /\ zget (p_atoms s') m = Some (built ra dummy_atom true))).
Proof.
  induction l as [|[n0 ra0] l IH]; intros s s' H Hmax Hnd Hincl Hinj n ra Hin; [destruct Hin|].
  cbn [fold_res] in H. destruct (patch_atom g s (n0, ra0)) as [s1|] eqn:E1; [|discriminate].
  destruct (patch_atom_ok _ _ _ _ _ E1 Hmax) as (m & a & Ha & _ & Hn1 & Hcase).
  cbn [keys map fst] in Hnd, Hincl. inversion Hnd as [|? ? Hn0 Hnd']; subst.
  assert (Hmax1 : 0 <= p_max s1 /\ p_max s <= p_max s1) by (destruct Hcase as [(_ & _ & -> & _)|(_ & _ & -> & -> & _)]; lia).
  assert (Hinj1 : inj_on T (p_map s1) (p_max s1)).
  { destruct Hinj as [Hi Hb]. destruct Hcase as [(_ & -> & -> & _)|(Hnone & -> & Em & -> & _)]; [split; assumption|].
    split.
    - intros n1 n2 m' H1 H2. rewrite !truthy_get_zset by lia.
      destruct (Z.eqb_spec n1 n0), (Z.eqb_spec n2 n0); subst; try congruence.
      + intros E1' E2'. inversion E1'; subst m'. specialize (Hb n2 _ H2 E2'). lia.
      + intros E1' E2'. inversion E2'; subst m'. specialize (Hb n1 _ H1 E1'). lia.
      + apply Hi; assumption.
    - intros n' m' Hn'. rewrite truthy_get_zset by lia. destruct (n' =? n0).
      + intros E. inversion E. lia.
      + intros E. specialize (Hb n' m' Hn' E). lia. }
  destruct (patch_atoms_spec g l s1 s' H (proj1 Hmax1)) as (_ & Hext & _).
  destruct Hin as [E|Hin].
  - inversion E; subst n0 ra0. exists m. split; [apply Hext; exact Hn1|].
    assert (Hkeep : zget (p_atoms s') m = Some a).
    { rewrite (patch_atoms_preserve g l s1 s' H (proj1 Hmax1) m).
      - rewrite Ha. apply zget_zset_same.
      - destruct Hcase as [(Hg & _ & -> & _)|(_ & _ & _ & -> & _)]; [|lia].
        apply (proj2 Hinj n m); [apply Hincl; left; reflexivity|exact Hg].
      - intros n' Hn' Hg. apply Hn0.
        assert (n' = n); [|subst; exact Hn'].
        apply (proj1 Hinj1 n' n m); [apply Hincl; right; exact Hn'|apply Hincl; left; reflexivity|exact Hg|exact Hn1]. }
    destruct Hcase as [(Hg & _ & _ & sa & Hsa & ->)|(Hnone & _ & Em & _ & ->)].
    + left. split; [exact Hg|]. exists sa. split; [exact Hsa|exact Hkeep].
    + right. split; [exact Hnone|]. split; [lia|exact Hkeep].
  - assert (Hne : n <> n0).
    { intros ->. apply Hn0. unfold keys. apply in_map_iff. exists (n0, ra). split; [reflexivity|exact Hin]. }
    assert (Hsame : truthy_get (p_map s1) n = truthy_get (p_map s) n).
    { destruct Hcase as [(_ & -> & _)|(_ & -> & Em & _)]; [reflexivity|].
      rewrite truthy_get_zset by lia. destruct (Z.eqb_spec n n0); [contradiction|reflexivity]. }
    destruct (IH s1 s' H (proj1 Hmax1) Hnd' (fun y Hy => Hincl y (or_intror Hy)) Hinj1 n ra Hin) as (m' & Hm' & Hc).
    exists m'. split; [exact Hm'|]. rewrite Hsame in Hc.
    destruct Hc as [Hc|(Hc1 & Hc2 & Hc3)]; [left; exact Hc|]. right. split; [exact Hc1|]. split; [lia|exact Hc3].
Qed.

(* ---------- well-formed molecules ---------- *)
Lemma list_eqb_Z_eq' a b : list_eqb Z.eqb a b = true -> a = b.
Proof.
  revert b. induction a as [|x a IH]; intros [|y b] H; try discriminate; [reflexivity|].
  cbn in H. apply andb_prop in H. destruct H as [H1 H2]. apply Z.eqb_eq in H1. subst. f_equal. apply IH. exact H2.
Qed.

Lemma nodup_z_NoDup l : nodup_z l = true -> NoDup l.
Proof.
  induction l as [|x l IH]; cbn; [constructor|]. intros H. apply andb_prop in H. destruct H as [H1 H2].
  constructor; [apply zmem_false; apply negb_true_iff; exact H1|apply IH; exact H2].
Qed.

Lemma In_NoDup_zget {V} (d : list (Z * V)) k v : NoDup (keys d) -> In (k, v) d -> zget d k = Some v.
Proof.
  induction d as [|[k' v'] d IH]; cbn; [intros _ []|].
  intros Hnd [E|Hin].
  - inversion E; subst. rewrite Z.eqb_refl. reflexivity.
  - inversion Hnd as [|? ? Hk Hnd']; subst. destruct (Z.eqb_spec k k').
    + subst. exfalso. apply Hk. unfold keys. apply in_map_iff. exists (k', v). split; [reflexivity|exact Hin].
    + apply IH; assumption.
Qed.

Lemma wf_mol_facts g : wf_mol g = true ->
  NoDup (ids g) /\ keys (m_adj g) = ids g /\
  forall n bs, In (n, bs) (m_adj g) ->
    NoDup (keys bs) /\
    forall m b, In (m, b) bs -> m <> n /\ In m (ids g) /\ exists b', bond_of g m n = Some b' /\ b_ord b = b_ord b'.
Proof.
  unfold wf_mol. intros H. apply andb_prop in H. destruct H as [H H3]. apply andb_prop in H. destruct H as [H1 H2].
  apply list_eqb_Z_eq' in H1. split; [apply nodup_z_NoDup; exact H2|]. split; [symmetry; exact H1|].
  intros n bs Hin. rewrite forallb_forall in H3. specialize (H3 (n, bs) Hin). cbn [fst snd] in H3.
  apply andb_prop in H3. destruct H3 as [Hnd Hall]. split; [apply nodup_z_NoDup; exact Hnd|].
  intros m b Hmb. rewrite forallb_forall in Hall. specialize (Hall (m, b) Hmb). cbn [fst snd] in Hall.
  apply andb_prop in Hall. destruct Hall as [Hall Hb]. apply andb_prop in Hall. destruct Hall as [Hne Hm].
  split; [apply Z.eqb_neq; apply negb_true_iff; exact Hne|]. split; [apply zmem_In; exact Hm|].
  destruct (bond_of g m n) as [b'|]; [|discriminate]. exists b'. split; [reflexivity|].
  unfold bond_eqb in Hb. apply andb_prop in Hb. apply Z.eqb_eq. exact (proj1 Hb).
Qed.

Lemma fold_left_max_ge : forall r a, a <= fold_left Z.max r a /\ forall x, In x r -> x <= fold_left Z.max r a.
Proof.
  induction r as [|y r IH]; intros a; cbn; [split; [lia|intros ? []]|].
  destruct (IH (Z.max a y)) as [H1 H2]. split; [lia|]. intros x [->|Hx]; [lia|apply H2; exact Hx].
Qed.

Lemma fold_left_max_In : forall r a, fold_left Z.max r a = a \/ In (fold_left Z.max r a) r.
Proof.
  induction r as [|y r IH]; intros a; cbn; [left; reflexivity|].
  destruct (IH (Z.max a y)) as [H|H]; [|right; right; exact H].
  rewrite H. destruct (Z.max_spec a y) as [[_ ->]|[_ ->]]; [right; left; reflexivity|left; reflexivity].
Qed.

Lemma zmax_list_spec l mx : zmax_list l = Some mx -> In mx l /\ forall x, In x l -> x <= mx.
Proof.
  destruct l as [|a r]; cbn; [discriminate|]. intros H. inversion H; subst mx.
  destruct (fold_left_max_ge r a) as [H1 H2]. split.
  - destruct (fold_left_max_In r a) as [->|Hi]; [left; reflexivity|right; exact Hi].
  - intros x [<-|Hx]; [exact H1|apply H2; exact Hx].
Qed.

(* ---------- step 3: atoms the template does not touch ---------- *)
Lemma get2_zset_nil (adj : adjT) n x y b : get2 (zset adj n []) x y = Some b -> get2 adj x y = Some b.
Proof.
  unfold get2. rewrite zget_zset. destruct (x =? n); [cbn; discriminate|auto].
Qed.

Lemma keep_atoms_spec P del : forall l st,
  (keys (snd st) = keys (fst st) -> keys (snd (fold_left (keep_atom P del) l st)) = keys (fst (fold_left (keep_atom P del) l st))) /\
  (NoDup (keys (fst st)) -> NoDup (keys (fst (fold_left (keep_atom P del) l st)))) /\
  (forall x, In x (keys (fst (fold_left (keep_atom P del) l st))) <->
             In x (keys (fst st)) \/ (In x (keys l) /\ ~ In x P /\ ~ In x del)) /\
  (forall x, In x P \/ In x del \/ ~ In x (keys l) ->
             zget (fst (fold_left (keep_atom P del) l st)) x = zget (fst st) x /\
             zget (snd (fold_left (keep_atom P del) l st)) x = zget (snd st) x) /\
  (forall x y b, get2 (snd (fold_left (keep_atom P del) l st)) x y = Some b -> get2 (snd st) x y = Some b).
Proof.
  induction l as [|[n a] l IH]; intros st; cbn [fold_left].
  - split; [auto|]. split; [auto|]. split; [|split; [auto|auto]].
    intros x. split; [auto|]. intros [H|([] & _)]. exact H.
  - destruct (IH (keep_atom P del st (n, a))) as (I1 & I2 & I3 & I4 & I5).
    unfold keep_atom in *. cbn [fst snd] in *.
    destruct (zmem n P || zmem n del) eqn:E.
    + split; [exact I1|]. split; [exact I2|]. split; [|split].
      * intros x. rewrite I3. cbn [keys map fst In]. split; [intros [H|(H1 & H2 & H3)]; auto|].
        intros [H|([->|H1] & H2 & H3)]; auto. exfalso.
        apply orb_true_iff in E. destruct E as [E|E]; apply zmem_In in E; contradiction.
      * intros x Hx. apply I4. cbn [keys map fst In] in Hx. destruct Hx as [Hx|[Hx|Hx]]; auto.
        destruct (Z.eq_dec x n) as [->|Hne].
        -- apply orb_true_iff in E. destruct E as [E|E]; apply zmem_In in E; auto.
        -- right. right. intros Hi. apply Hx. right. exact Hi.
      * exact I5.
    + apply orb_false_iff in E. destruct E as [EP Ed]. apply zmem_false in EP. apply zmem_false in Ed.
      cbn [fst snd] in *. split; [|split; [|split; [|split]]].
      * intros Hk. apply I1. apply keys_zset_lockstep. exact Hk.
      * intros Hnd. apply I2. apply NoDup_keys_zset. exact Hnd.
      * intros x. rewrite I3, keys_zset_In. cbn [keys map fst In]. split.
        -- intros [[->|H]|(H1 & H2 & H3)]; auto.
        -- intros [H|([->|H1] & H2 & H3)]; auto.
      * intros x Hx. cbn [keys map fst In] in Hx.
        assert (Hne : x <> n).
        { destruct Hx as [Hx|[Hx|Hx]]; [intros ->; contradiction|intros ->; contradiction|intros ->; apply Hx; left; reflexivity]. }
        assert (Hx' : In x P \/ In x del \/ ~ In x (keys l)).
        { destruct Hx as [Hx|[Hx|Hx]]; auto. right. right. intros Hi. apply Hx. right. exact Hi. }
        destruct (I4 x Hx') as [J1 J2]. rewrite J1, J2, !zget_zset_other by exact Hne. split; reflexivity.
      * intros x y b Hg. apply I5 in Hg. eapply get2_zset_nil. exact Hg.
Qed.

Lemma keep_atoms_value P del : forall l st x a, NoDup (keys l) -> In (x, a) l -> ~ In x P -> ~ In x del ->
  zget (fst (fold_left (keep_atom P del) l st)) x = Some (plain_atom a).
Proof.
  induction l as [|[n a0] l IH]; intros st x a Hnd Hin HP Hd; [destruct Hin|].
  cbn [keys map fst] in Hnd. inversion Hnd as [|? ? Hn Hnd']; subst. cbn [fold_left].
  destruct Hin as [E|Hin].
  - inversion E; subst n a0.
    destruct (keep_atoms_spec P del l (keep_atom P del st (x, a))) as (_ & _ & _ & I4 & _).
    rewrite (proj1 (I4 x (or_intror (or_intror Hn)))).
    unfold keep_atom. cbn [fst snd].
    assert (E1 : zmem x P || zmem x del = false) by (apply orb_false_iff; split; apply zmem_false; assumption).
    rewrite E1. cbn [fst]. apply zget_zset_same.
  - apply IH; assumption.
Qed.

(* ---------- steps 2 and 4 as sequences of link requests ---------- *)
Definition keep_reqs (P del : list Z) (nbs : Z * list (Z * bond)) : list req :=
  if zmem (fst nbs) del then []
  else flat_map (fun mb => if zmem (fst mb) del || (zmem (fst nbs) P && zmem (fst mb) P) then []
                           else [(fst nbs, fst mb, plain (snd mb))]) (snd nbs).

Lemma keep_bonds_of_flat P del adj nbs : keep_bonds_of P del adj nbs = fold_res link_req (keep_reqs P del nbs) adj.
Proof.
  unfold keep_bonds_of, keep_reqs. destruct (zmem (fst nbs) del); [reflexivity|].
  apply fold_res_flat. intros s mb.
  destruct (zmem (fst mb) del || (zmem (fst nbs) P && zmem (fst mb) P)); [reflexivity|].
  cbn [fold_res]. unfold link_req. cbn [fst snd]. destruct (link s (fst nbs) (fst mb) (plain (snd mb))); reflexivity.
Qed.

Lemma keep_reqs_In P del l n m b :
  In (n, m, b) (flat_map (keep_reqs P del) l) <->
  exists bs b0, In (n, bs) l /\ In (m, b0) bs /\ b = plain b0 /\ ~ In n del /\ ~ In m del /\ ~ (In n P /\ In m P).
Proof.
  rewrite in_flat_map. split.
  - intros ([n' bs] & Hin & Hreq). unfold keep_reqs in Hreq. cbn [fst snd] in Hreq.
    destruct (zmem n' del) eqn:En; [destruct Hreq|]. apply zmem_false in En.
    apply in_flat_map in Hreq. destruct Hreq as ([m' b0] & Hmb & Hreq). cbn [fst snd] in Hreq.
    destruct (zmem m' del || (zmem n' P && zmem m' P)) eqn:Ec; [destruct Hreq|].
    destruct Hreq as [E|[]]. inversion E; subst n' m' b.
    apply orb_false_iff in Ec. destruct Ec as [Em Eb]. apply zmem_false in Em.
    exists bs, b0. repeat (split; [assumption || reflexivity|]).
    intros [Hn Hm]. apply zmem_In in Hn. apply zmem_In in Hm. rewrite Hn, Hm in Eb. discriminate.
  - intros (bs & b0 & Hin & Hmb & -> & Hn & Hm & Hb). exists (n, bs). split; [exact Hin|].
    unfold keep_reqs. cbn [fst snd]. apply zmem_false in Hn. rewrite Hn.
    apply in_flat_map. exists (m, b0). split; [exact Hmb|]. cbn [fst snd].
    apply zmem_false in Hm. rewrite Hm. cbn [orb].
    destruct (zmem n P && zmem m P) eqn:Eb; [|left; reflexivity].
    exfalso. apply andb_prop in Eb. destruct Eb as [E1 E2]. apply Hb. split; apply zmem_In; assumption.
Qed.

Fixpoint opt_flat {A} (l : list (option (list A))) : option (list A) :=
  match l with
  | [] => Some []
  | None :: _ => None
  | Some a :: r => match opt_flat r with Some b => Some (a ++ b) | None => None end
  end.

Definition tpl_reqs_of (mp : list (Z * Z)) (nbs : Z * list (Z * bond)) : option (list req) :=
  match zget mp (fst nbs) with
  | None => None
  | Some n => opt_flat (map (fun mrb => match zget mp (fst mrb) with
                                        | None => None
                                        | Some m => Some [(n, m, plain (snd mrb))]
                                        end) (snd nbs))
  end.
Definition tpl_reqs (mp : list (Z * Z)) (tb : list (Z * list (Z * bond))) : option (list req) :=
  opt_flat (map (tpl_reqs_of mp) tb).

Lemma patch_bonds_of_flat mp nbs adj adj' : patch_bonds_of mp adj nbs = Ok adj' ->
  exists W, tpl_reqs_of mp nbs = Some W /\ fold_res link_req W adj = Ok adj'.
Proof.
  unfold patch_bonds_of, tpl_reqs_of. destruct (zget mp (fst nbs)) as [n|]; [|discriminate].
  generalize (snd nbs). intros bs. revert adj. induction bs as [|[m0 rb] bs IH]; intros adj H; cbn [fold_res map opt_flat] in *.
  - inversion H; subst. exists []. split; reflexivity.
  - cbn [fst snd] in *. destruct (zget mp m0) as [m|]; [|discriminate].
    destruct (link adj n m (plain rb)) as [adj1|] eqn:E1; [|discriminate].
    destruct (IH adj1 H) as (W & EW & HW). rewrite EW. exists ((n, m, plain rb) :: W). split; [reflexivity|].
    cbn [fold_res app]. unfold link_req at 1. cbn [fst snd]. rewrite E1. exact HW.
Qed.

Lemma patch_bonds_flat mp : forall tb adj adj', fold_res (patch_bonds_of mp) tb adj = Ok adj' ->
  exists W, tpl_reqs mp tb = Some W /\ fold_res link_req W adj = Ok adj'.
Proof.
  unfold tpl_reqs. induction tb as [|nbs tb IH]; intros adj adj' H; cbn [fold_res map opt_flat] in *.
  - inversion H; subst. exists []. split; reflexivity.
  - destruct (patch_bonds_of mp adj nbs) as [adj1|] eqn:E1; [|discriminate].
    destruct (patch_bonds_of_flat _ _ _ _ E1) as (W1 & EW1 & HW1). rewrite EW1.
    destruct (IH adj1 adj' H) as (W & EW & HW). rewrite EW. exists (W1 ++ W). split; [reflexivity|].
    rewrite fold_res_app, HW1. exact HW.
Qed.

Lemma opt_flat_In {A} (l : list (option (list A))) W x :
  opt_flat l = Some W -> (In x W <-> exists a, In (Some a) l /\ In x a).
Proof.
  revert W. induction l as [|[a|] l IH]; intros W; cbn [opt_flat].
  - intros H. inversion H; subst. split; [intros []|intros (a & [] & _)].
  - destruct (opt_flat l) as [b|]; [|discriminate]. intros H. inversion H; subst W.
    rewrite in_app_iff, (IH b eq_refl). split.
    + intros [Hx|(a' & Hin & Hx)]; [exists a; split; [left; reflexivity|exact Hx]|exists a'; split; [right; exact Hin|exact Hx]].
    + intros (a' & [E|Hin] & Hx); [inversion E; subst; left; exact Hx|right; exists a'; split; assumption].
  - discriminate.
Qed.

Lemma opt_flat_all_some {A B} (f : A -> option (list B)) l W a :
  opt_flat (map f l) = Some W -> In a l -> exists r, f a = Some r.
Proof.
  revert W. induction l as [|a0 l IH]; intros W H Hin; [destruct Hin|]. cbn [map opt_flat] in H.
  destruct (f a0) as [r0|] eqn:E; [|discriminate]. destruct (opt_flat (map f l)) as [r1|] eqn:E2; [|discriminate].
  destruct Hin as [->|Hin]; [eexists; exact E|]. eapply IH; [reflexivity|exact Hin].
Qed.

Lemma tpl_reqs_In mp tb W x y b : tpl_reqs mp tb = Some W ->
  (In (x, y, b) W <-> exists n0 bs m0 rb, In (n0, bs) tb /\ In (m0, rb) bs /\
                                          zget mp n0 = Some x /\ zget mp m0 = Some y /\ b = plain rb).
Proof.
  unfold tpl_reqs. intros H. rewrite (opt_flat_In _ _ _ H). split.
  - intros (a & Hin & Hx). apply in_map_iff in Hin. destruct Hin as ([n0 bs] & Ea & Hin).
    unfold tpl_reqs_of in Ea. cbn [fst snd] in Ea. destruct (zget mp n0) as [n|] eqn:En; [|discriminate].
    rewrite (opt_flat_In _ _ _ Ea) in Hx. destruct Hx as (a' & Hin' & Hx').
    apply in_map_iff in Hin'. destruct Hin' as ([m0 rb] & Ea' & Hin'). cbn [fst snd] in Ea'.
    destruct (zget mp m0) as [m|] eqn:Em; [|discriminate]. inversion Ea'; subst a'.
    destruct Hx' as [E|[]]. inversion E; subst. exists n0, bs, m0, rb. repeat (split; [assumption|]). reflexivity.
  - intros (n0 & bs & m0 & rb & Hin & Hmb & En & Em & ->).
    assert (Hsome : exists a, tpl_reqs_of mp (n0, bs) = Some a) by (eapply opt_flat_all_some; [exact H|exact Hin]).
    destruct Hsome as [a Ea]. exists a. split; [apply in_map_iff; exists (n0, bs); split; [exact Ea|exact Hin]|].
    unfold tpl_reqs_of in Ea. cbn [fst snd] in Ea. rewrite En in Ea.
    rewrite (opt_flat_In _ _ _ Ea). exists [(x, y, plain rb)]. split; [|left; reflexivity].
    apply in_map_iff. exists (m0, rb). cbn [fst snd]. rewrite Em. split; [reflexivity|exact Hmb].
Qed.

(* ---------- the anatomy of one patcher run ---------- *)
Lemma get2_all_nil (adj : adjT) x y : (forall x l0, zget adj x = Some l0 -> l0 = []) -> get2 adj x y = None.
Proof.
  intros H. unfold get2. destruct (zget adj x) as [l0|] eqn:E; [rewrite (H x l0 E)|]; reflexivity.
Qed.

Lemma truthy_get_zget mp n m : truthy_get mp n = Some m -> zget mp n = Some m /\ m <> 0.
Proof.
  unfold truthy_get. destruct (zget mp n) as [m0|]; [|discriminate]. destruct (Z.eqb_spec m0 0); [discriminate|].
  intros H. inversion H; subst. split; [reflexivity|assumption].
Qed.

Lemma patch_atoms_mapped g : forall l s s', fold_res (patch_atom g) l s = Ok s' -> 0 <= p_max s ->
  forall n, In n (keys l) -> exists m, truthy_get (p_map s') n = Some m.
Proof.
  induction l as [|[n0 ra] l IH]; intros s s' H Hmax n Hn; [destruct Hn|]. cbn [fold_res] in H.
  destruct (patch_atom g s (n0, ra)) as [s1|] eqn:E1; [|discriminate].
  destruct (patch_atom_ok _ _ _ _ _ E1 Hmax) as (m & a & _ & _ & Hn1 & Hcase).
  assert (Hmax1 : 0 <= p_max s1) by (destruct Hcase as [(_ & _ & -> & _)|(_ & _ & -> & -> & _)]; lia).
  destruct Hn as [<-|Hn]; [|eapply IH; eassumption].
  exists m. apply (proj1 (proj2 (patch_atoms_spec g l s1 s' H Hmax1))). exact Hn1.
Qed.

Lemma patcher_anatomy g mapping tpl del new mp' :
  patcher g mapping tpl del = Ok (new, mp') -> (forall x, In x (ids g) -> 0 < x) ->
  exists mx s1 adj2 W2 atoms3 adj3 adj4,
    zmax_list (ids g) = Some mx /\ 0 < mx /\
    fold_res (patch_atom g) (t_atoms tpl) (mkP [] [] mapping mx) = Ok s1 /\ mp' = p_map s1 /\
    tpl_reqs mp' (t_bonds tpl) = Some W2 /\ fold_res link_req W2 (p_adj s1) = Ok adj2 /\
    fold_left (keep_atom (keys (p_atoms s1)) del) (m_atoms g) (p_atoms s1, adj2) = (atoms3, adj3) /\
    fold_res link_req (flat_map (keep_reqs (keys (p_atoms s1)) del) (m_adj g)) adj3 = Ok adj4 /\
    new = mkMol atoms3 adj4 /\
    (forall x, In x (keys (p_atoms s1)) <-> named tpl mp' x) /\
    keys (p_adj s1) = keys (p_atoms s1) /\ NoDup (keys (p_atoms s1)) /\
    (forall x y, get2 (p_adj s1) x y = None).
Proof.
  unfold patcher. intros H Hpos.
  destruct (zmax_list (ids g)) as [mx|] eqn:Emx; [|discriminate].
  destruct (fold_res (patch_atom g) (t_atoms tpl) (mkP [] [] mapping mx)) as [s1|] eqn:E1; [|discriminate].
  destruct (fold_res (patch_bonds_of (p_map s1)) (t_bonds tpl) (p_adj s1)) as [adj2|] eqn:E2; [|discriminate].
  destruct (fold_left (keep_atom (keys (p_atoms s1)) del) (m_atoms g) (p_atoms s1, adj2)) as [atoms3 adj3] eqn:E3.
  destruct (fold_res (keep_bonds_of (keys (p_atoms s1)) del) (m_adj g) adj3) as [adj4|] eqn:E4; [|discriminate].
  inversion H; subst new mp'. clear H.
  destruct (patch_bonds_flat _ _ _ _ E2) as (W2 & EW2 & HW2).
  assert (Hmx : 0 < mx) by (apply Hpos; apply (zmax_list_spec _ _ Emx)).
  destruct (patch_atoms_spec g _ _ _ E1) as (_ & _ & _ & I4 & I5 & I6 & I7); [cbn; lia|]. cbn [p_atoms p_adj p_map p_max] in *.
  exists mx, s1, adj2, W2, atoms3, adj3, adj4.
  split; [first [reflexivity|exact Emx]|]. split; [exact Hmx|]. split; [first [reflexivity|exact E1]|]. split; [reflexivity|].
  split; [exact EW2|]. split; [exact HW2|]. split; [first [reflexivity|exact E3]|].
  split; [etransitivity; [|exact E4]; symmetry; apply fold_res_flat; intros; apply keep_bonds_of_flat|].
  split; [reflexivity|]. split.
  { intros x. rewrite I4. unfold named. cbn. tauto. }
  split; [apply I5; reflexivity|]. split; [apply I7; constructor|].
  intros x y. apply get2_all_nil. apply I6. intros ? ? Hc. discriminate.
Qed.

Section PatcherTheorems.
  Variables (g : mol) (mapping : list (Z * Z)) (tpl : template) (del : list Z) (new : mol) (mp' : list (Z * Z)).
  Hypothesis Hrun : patcher g mapping tpl del = Ok (new, mp').
  Hypothesis Hwf : wf_mol g = true.
  Hypothesis Hpos : forall x, In x (ids g) -> 0 < x.

  (* bonds of the intermediate adjacency join replacement atoms only *)
  Lemma anatomy_adj3 s1 adj2 W2 atoms3 adj3 :
    fold_res link_req W2 (p_adj s1) = Ok adj2 ->
    fold_left (keep_atom (keys (p_atoms s1)) del) (m_atoms g) (p_atoms s1, adj2) = (atoms3, adj3) ->
    keys (p_adj s1) = keys (p_atoms s1) -> (forall x y, get2 (p_adj s1) x y = None) ->
    (forall x y b, get2 adj3 x y = Some b -> In x (keys (p_atoms s1)) /\ In y (keys (p_atoms s1))) /\
    (forall x y, In x (keys (p_atoms s1)) -> get2 adj3 x y = get2 adj2 x y) /\
    keys adj3 = keys atoms3.
  Proof.
    intros HW2 E3 Hk Hnil.
    destruct (links_keys _ _ _ HW2) as (Hk2 & Hin2 & Hun2).
    destruct (keep_atoms_spec (keys (p_atoms s1)) del (m_atoms g) (p_atoms s1, adj2)) as (K1 & _ & _ & K4 & K5).
    rewrite E3 in *. cbn [fst snd] in *.
    split; [|split].
    - intros x y b Hg. apply K5 in Hg.
      destruct (targets W2 x y) eqn:Et.
      + apply targets_In in Et. destruct Et as [b0 Hb0]. destruct (Hin2 _ _ _ Hb0) as [Hx Hy]. rewrite Hk in *. split; assumption.
      + rewrite (Hun2 x y Et), Hnil in Hg. discriminate.
    - intros x y Hx. unfold get2. rewrite (proj2 (K4 x (or_introl Hx))). reflexivity.
    - apply K1. congruence.
  Qed.

  Theorem patcher_frame :
    (* atoms the template does not name and that are not deleted keep element, isotope, charge, radical, hydrogens *)
    (forall x a, atom_of g x = Some a -> ~ named tpl mp' x -> ~ In x del -> atom_of new x = Some (plain_atom a)) /\
    (* bonds between surviving atoms, at least one of them not named by the template, are kept with their order *)
    (forall x y, In x (ids g) -> In y (ids g) -> ~ In x del -> ~ In y del -> ~ (named tpl mp' x /\ named tpl mp' y) ->
                 bond_of new x y = option_map plain (bond_of g x y)) /\
    (* and no other bond touches an atom the template does not name *)
    (forall x y b, bond_of new x y = Some b -> ~ (named tpl mp' x /\ named tpl mp' y) ->
                   exists b0, bond_of g x y = Some b0 /\ b = plain b0 /\ ~ In x del /\ ~ In y del) /\
    (* the atoms of the product: the named ones and the surviving ones; numbers are unique *)
    (forall x, In x (ids new) <-> named tpl mp' x \/ (In x (ids g) /\ ~ In x del)) /\
    NoDup (ids new) /\ keys (m_adj new) = ids new.
  Proof.
    destruct (patcher_anatomy _ _ _ _ _ _ Hrun Hpos)
      as (mx & s1 & adj2 & W2 & atoms3 & adj3 & adj4 & Emx & Hmx & E1 & Emp & EW2 & HW2 & E3 & HW4 & Enew & HP & Hk1 & Hnd1 & Hnil).
    destruct (wf_mol_facts g Hwf) as (Hnd & Hkeys & Hadj).
    destruct (anatomy_adj3 s1 adj2 W2 atoms3 adj3 HW2 E3 Hk1 Hnil) as (A1 & A2 & A3).
    set (P := keys (p_atoms s1)) in *.
    destruct (keep_atoms_spec P del (m_atoms g) (p_atoms s1, adj2)) as (K1 & K2 & K3 & K4 & K5).
    rewrite E3 in *. cbn [fst snd] in *.
    set (v := fun x y => match bond_of g x y with Some b => plain b | None => mkBond 0 None end).
    set (W4 := flat_map (keep_reqs P del) (m_adj g)) in *.
    (* every request of step 4 is a bond of the input between survivors, not both named *)
    assert (HW4in : forall n m b, In (n, m, b) W4 ->
                      exists b0, bond_of g n m = Some b0 /\ b = plain b0 /\ ~ In n del /\ ~ In m del /\ ~ (In n P /\ In m P) /\
                                 exists b1, bond_of g m n = Some b1 /\ b_ord b0 = b_ord b1).
    { intros n m b Hin. apply keep_reqs_In in Hin. destruct Hin as (bs & b0 & Hnbs & Hmb & -> & Hn & Hm & Hb).
      destruct (Hadj n bs Hnbs) as (Hndbs & Hall). destruct (Hall m b0 Hmb) as (_ & _ & b1 & Hb1 & Hord).
      exists b0. split.
      - unfold bond_of, nbrs. rewrite (In_NoDup_zget (m_adj g) n bs); [|rewrite Hkeys; exact Hnd|exact Hnbs].
        apply In_NoDup_zget; assumption.
      - repeat (split; [assumption || reflexivity|]). exists b1. split; assumption. }
    assert (Hspec4 : forall x y, get2 adj4 x y = if targets W4 x y then Some (v x y) else get2 adj3 x y).
    { apply (links_spec v W4 adj3 adj4); [| |exact HW4].
      - intros n m b Hin. destruct (HW4in n m b Hin) as (b0 & Hb0 & -> & _ & _ & _ & b1 & Hb1 & Hord).
        unfold v. rewrite Hb0, Hb1. unfold plain. rewrite Hord. split; reflexivity.
      - intros n m b b' Hin Hg. destruct (HW4in n m b Hin) as (_ & _ & _ & _ & _ & Hb & _).
        exfalso. apply Hb. destruct (A1 m n b' Hg). split; assumption. }
    assert (Hbond : forall x y, bond_of new x y = get2 adj4 x y) by (intros; subst new; reflexivity).
    assert (Hatom : forall x, atom_of new x = zget atoms3 x) by (intros; subst new; reflexivity).
    split; [|split; [|split; [|split; [|split]]]].
    - intros x a Ha Hnn Hd. rewrite Hatom.
      pose proof (keep_atoms_value P del (m_atoms g) (p_atoms s1, adj2) x a Hnd (zget_Some_In _ _ _ Ha)) as Hv.
      rewrite E3 in Hv. cbn [fst] in Hv. apply Hv; [rewrite HP; exact Hnn|exact Hd].
    - intros x y Hx Hy Hdx Hdy Hnn. rewrite Hbond, Hspec4.
      assert (HnP : ~ (In x P /\ In y P)) by (rewrite !HP; exact Hnn).
      destruct (bond_of g x y) as [b0|] eqn:Eb.
      + assert (Hin : In (x, y, plain b0) W4).
        { apply keep_reqs_In. unfold bond_of, nbrs in Eb. destruct (zget (m_adj g) x) as [bs|] eqn:Ebs; [|discriminate].
          exists bs, b0. split; [eapply zget_Some_In; exact Ebs|]. split; [eapply zget_Some_In; exact Eb|]. auto. }
        assert (Et : targets W4 x y = true) by (apply targets_In; eexists; exact Hin).
        rewrite Et. unfold v. rewrite Eb. reflexivity.
      + destruct (targets W4 x y) eqn:Et.
        * apply targets_In in Et. destruct Et as [b Hin]. destruct (HW4in _ _ _ Hin) as (b0 & Hb0 & _). congruence.
        * cbn. destruct (get2 adj3 x y) as [b|] eqn:Eg; [|reflexivity]. exfalso. apply HnP. eapply A1. exact Eg.
    - intros x y b Hb Hnn. rewrite Hbond, Hspec4 in Hb.
      assert (HnP : ~ (In x P /\ In y P)) by (rewrite !HP; exact Hnn).
      destruct (targets W4 x y) eqn:Et.
      + apply targets_In in Et. destruct Et as [b' Hin]. destruct (HW4in _ _ _ Hin) as (b0 & Hb0 & _ & Hdx & Hdy & _).
        exists b0. inversion Hb; subst b. unfold v. rewrite Hb0. auto.
      + exfalso. apply HnP. eapply A1. exact Hb.
    - intros x. unfold ids at 1. subst new. cbn [m_atoms]. rewrite K3. fold P. fold (ids g). rewrite (HP x).
      split; [intros [Hq|(Hq1 & Hq2 & Hq3)]; [left; exact Hq|right; split; assumption]|]. intros [Hq|(Hq1 & Hq2)]; [left; exact Hq|].
      destruct (in_dec Z.eq_dec x P) as [Hi|Hi]; [left; apply HP; exact Hi|right].
      split; [exact Hq1|]. split; [rewrite <- (HP x); exact Hi|exact Hq2].
    - unfold ids. subst new. cbn [m_atoms]. apply K2. exact Hnd1.
    - unfold ids. subst new. cbn [m_atoms m_adj]. rewrite (proj1 (links_keys _ _ _ HW4)). exact A3.
  Qed.
End PatcherTheorems.

(* ---------- new atom numbers are fresh and distinct ---------- *)
Lemma patch_atoms_new_distinct g : forall l s s', fold_res (patch_atom g) l s = Ok s' -> 0 <= p_max s ->
  forall n1 n2 m, truthy_get (p_map s) n1 = None -> truthy_get (p_map s) n2 = None ->
                  truthy_get (p_map s') n1 = Some m -> truthy_get (p_map s') n2 = Some m -> n1 = n2.
Proof.
  induction l as [|[n ra] l IH]; intros s s' H Hmax n1 n2 m N1 N2 S1 S2; cbn [fold_res] in H.
  - inversion H; subst. congruence.
  - destruct (patch_atom g s (n, ra)) as [s1|] eqn:E1; [|discriminate].
    destruct (patch_atom_ok _ _ _ _ _ E1 Hmax) as (m0 & a & _ & _ & Hn1 & Hcase).
    destruct Hcase as [(_ & Emap & Emax & _)|(Hnone & Emap & Em0 & Emax & _)].
    + assert (Hmax1 : 0 <= p_max s1) by lia.
      apply (IH s1 s' H Hmax1 n1 n2 m); try assumption; rewrite Emap; assumption.
    + assert (Hmax1 : 0 <= p_max s1) by lia.
      destruct (patch_atoms_spec g l s1 s' H Hmax1) as (_ & Hext & Hnew & _).
      assert (Hother : forall k, k <> n -> truthy_get (p_map s1) k = truthy_get (p_map s) k).
      { intros k Hk. rewrite Emap, truthy_get_zset by lia. destruct (Z.eqb_spec k n); [contradiction|reflexivity]. }
      assert (Hhead : forall k, k <> n -> truthy_get (p_map s) k = None -> truthy_get (p_map s') k = Some m0 -> False).
      { intros k Hk Nk Sk. destruct (Hnew k m0 Sk) as [Hc|(_ & Hc)]; [rewrite Hother in Hc by exact Hk; congruence|lia]. }
      pose proof (Hext n m0 Hn1) as Sn.
      destruct (Z.eq_dec n1 n) as [->|D1], (Z.eq_dec n2 n) as [->|D2]; [reflexivity| | |].
      * exfalso. rewrite Sn in S1. inversion S1; subst m. eapply Hhead; eassumption.
      * exfalso. rewrite Sn in S2. inversion S2; subst m. eapply Hhead; eassumption.
      * apply (IH s1 s' H Hmax1 n1 n2 m); try assumption; rewrite Hother; assumption.
Qed.

Theorem patcher_fresh : forall g mapping tpl del new mp',
  patcher g mapping tpl del = Ok (new, mp') -> (forall x, In x (ids g) -> 0 < x) ->
  (* the match is extended, never changed *)
  (forall n m, truthy_get mapping n = Some m -> truthy_get mp' n = Some m) /\
  (* every replacement atom has an image; an image that is not from the match is a number greater than every number in use *)
  (forall n, In n (keys (t_atoms tpl)) -> exists m, truthy_get mp' n = Some m) /\
  (forall n m, truthy_get mp' n = Some m -> truthy_get mapping n = Some m \/
               (In n (keys (t_atoms tpl)) /\ forall x, In x (ids g) -> x < m)) /\
  (* different new atoms get different numbers *)
  (forall n1 n2 m, truthy_get mapping n1 = None -> truthy_get mapping n2 = None ->
                   truthy_get mp' n1 = Some m -> truthy_get mp' n2 = Some m -> n1 = n2).
Proof.
  intros g mapping tpl del new mp' Hrun Hpos.
  destruct (patcher_anatomy _ _ _ _ _ _ Hrun Hpos)
    as (mx & s1 & adj2 & W2 & atoms3 & adj3 & adj4 & Emx & Hmx & E1 & Emp & _).
  subst mp'.
  destruct (patch_atoms_spec g _ _ _ E1) as (_ & Hext & Hnew & _); [cbn; lia|]. cbn [p_map p_max] in *.
  split; [exact Hext|]. split; [|split].
  - intros n Hn. eapply (patch_atoms_mapped g _ _ _ E1); [cbn; lia|exact Hn].
  - intros n m Hg. destruct (Hnew n m Hg) as [?|(Hin & Hr)]; [left; assumption|]. right. split; [exact Hin|].
    intros x Hx. pose proof (proj2 (zmax_list_spec _ _ Emx) x Hx). lia.
  - intros n1 n2 m. apply (patch_atoms_new_distinct g _ _ _ E1). cbn. lia.
Qed.

(* ---------- replacement atoms get the requested values ---------- *)
Lemma patch_atoms_inj g T : forall l s s', fold_res (patch_atom g) l s = Ok s' -> 0 <= p_max s ->
  incl (keys l) T -> inj_on T (p_map s) (p_max s) -> inj_on T (p_map s') (p_max s').
Proof.
  induction l as [|[n0 ra0] l IH]; intros s s' H Hmax Hincl Hinj; cbn [fold_res] in H.
  - inversion H; subst. exact Hinj.
  - destruct (patch_atom g s (n0, ra0)) as [s1|] eqn:E1; [|discriminate].
    destruct (patch_atom_ok _ _ _ _ _ E1 Hmax) as (m & a & _ & _ & _ & Hcase).
    cbn [keys map fst] in Hincl.
    apply (IH s1 s' H).
    + destruct Hcase as [(_ & _ & -> & _)|(_ & _ & -> & -> & _)]; lia.
    + intros y Hy. apply Hincl. right. exact Hy.
    + destruct Hinj as [Hi Hb]. destruct Hcase as [(_ & -> & -> & _)|(Hnone & -> & Em & -> & _)]; [split; assumption|].
      split.
      * intros n1 n2 m' H1 H2. rewrite !truthy_get_zset by lia.
        destruct (Z.eqb_spec n1 n0), (Z.eqb_spec n2 n0); subst; try congruence.
        -- intros E1' E2'. inversion E1'; subst m'. specialize (Hb n2 _ H2 E2'). lia.
        -- intros E1' E2'. inversion E2'; subst m'. specialize (Hb n1 _ H1 E1'). lia.
        -- apply Hi; assumption.
      * intros n' m' Hn'. rewrite truthy_get_zset by lia. destruct (n' =? n0).
        -- intros E. inversion E. lia.
        -- intros E. specialize (Hb n' m' Hn' E). lia.
Qed.

Section NamedAtoms.
  Variables (g : mol) (mapping : list (Z * Z)) (tpl : template) (del : list Z) (new : mol) (mp' : list (Z * Z)).
  Hypothesis Hrun : patcher g mapping tpl del = Ok (new, mp').
  Hypothesis Hpos : forall x, In x (ids g) -> 0 < x.
  Hypothesis Hnd : NoDup (keys (t_atoms tpl)).
  (* the match is injective on the atoms of the replacement and maps them to atoms of the structure *)
  Hypothesis Hinj : forall n1 n2 m, In n1 (keys (t_atoms tpl)) -> In n2 (keys (t_atoms tpl)) ->
                                    truthy_get mapping n1 = Some m -> truthy_get mapping n2 = Some m -> n1 = n2.
  Hypothesis Himg : forall n m, In n (keys (t_atoms tpl)) -> truthy_get mapping n = Some m -> In m (ids g).

  Lemma initial_inj mx : zmax_list (ids g) = Some mx -> inj_on (keys (t_atoms tpl)) mapping mx.
  Proof.
    intros Emx. split; [exact Hinj|]. intros n m Hn Hg. apply (zmax_list_spec _ _ Emx). eapply Himg; eassumption.
  Qed.

  Theorem patcher_named_atoms : forall n ra, In (n, ra) (t_atoms tpl) ->
    exists m, truthy_get mp' n = Some m /\
      ((truthy_get mapping n = Some m /\ exists sa, atom_of g m = Some sa /\ atom_of new m = Some (built ra sa false)) \/
       (truthy_get mapping n = None /\ (forall x, In x (ids g) -> x < m) /\ atom_of new m = Some (built ra dummy_atom true))).
  Proof.
    intros n ra Hin.
    destruct (patcher_anatomy _ _ _ _ _ _ Hrun Hpos)
      as (mx & s1 & adj2 & W2 & atoms3 & adj3 & adj4 & Emx & Hmx & E1 & Emp & _ & _ & E3 & _ & Enew & _).
    destruct (patch_atoms_values g (keys (t_atoms tpl)) _ _ _ E1) with (n := n) (ra := ra) as (m & Hm & Hc);
      [cbn; lia|exact Hnd|apply incl_refl|cbn; apply initial_inj; exact Emx|exact Hin|].
    cbn [p_map p_max] in *. subst mp'. exists m. split; [exact Hm|].
    assert (Hatom : forall a, zget (p_atoms s1) m = Some a -> atom_of new m = Some a).
    { intros a Ha. subst new. unfold atom_of. cbn [m_atoms].
      destruct (keep_atoms_spec (keys (p_atoms s1)) del (m_atoms g) (p_atoms s1, adj2)) as (_ & _ & _ & K4 & _).
      rewrite E3 in K4. cbn [fst snd] in K4.
      rewrite (proj1 (K4 m (or_introl (zget_Some_key _ _ _ Ha)))). exact Ha. }
    destruct Hc as [(Hg & sa & Hsa & Hz)|(Hnone & Hlt & Hz)].
    - left. split; [exact Hg|]. exists sa. split; [exact Hsa|apply Hatom; exact Hz].
    - right. split; [exact Hnone|]. split; [|apply Hatom; exact Hz].
      intros x Hx. pose proof (proj2 (zmax_list_spec _ _ Emx) x Hx). lia.
  Qed.
End NamedAtoms.

(* ---------- replacement bonds get the requested order, and only they join replacement atoms ---------- *)
Lemma wf_template_facts t : wf_template t = true ->
  keys (t_bonds t) = keys (t_atoms t) /\ NoDup (keys (t_atoms t)) /\
  forall n bs, In (n, bs) (t_bonds t) ->
    NoDup (keys bs) /\
    forall m b, In (m, b) bs -> m <> n /\ In m (keys (t_atoms t)) /\
                                exists b', get2 (t_bonds t) m n = Some b' /\ b_ord b = b_ord b'.
Proof.
  unfold wf_template. intros H. apply andb_prop in H. destruct H as [H H3]. apply andb_prop in H. destruct H as [H1 H2].
  apply list_eqb_Z_eq' in H1. split; [symmetry; exact H1|]. split; [apply nodup_z_NoDup; exact H2|].
  intros n bs Hin. rewrite forallb_forall in H3. specialize (H3 (n, bs) Hin). cbn [fst snd] in H3.
  apply andb_prop in H3. destruct H3 as [Hnd Hall]. split; [apply nodup_z_NoDup; exact Hnd|].
  intros m b Hmb. rewrite forallb_forall in Hall. specialize (Hall (m, b) Hmb). cbn [fst snd] in Hall.
  apply andb_prop in Hall. destruct Hall as [Hall Hb]. apply andb_prop in Hall. destruct Hall as [Hne Hm].
  split; [apply Z.eqb_neq; apply negb_true_iff; exact Hne|]. split; [apply zmem_In; exact Hm|].
  unfold get2. destruct (zget (t_bonds t) m) as [lm|]; [|discriminate].
  destruct (zget lm n) as [b'|]; [|discriminate]. exists b'. split; [reflexivity|apply Z.eqb_eq; exact Hb].
Qed.

Definition lookup_req (W : list req) (x y : Z) : option bond :=
  option_map snd (find (fun w => (x =? fst (fst w)) && (y =? snd (fst w))) W).

Lemma lookup_req_In W x y b : In (x, y, b) W -> exists b', lookup_req W x y = Some b' /\ In (x, y, b') W.
Proof.
  unfold lookup_req. intros Hin.
  destruct (find (fun w => (x =? fst (fst w)) && (y =? snd (fst w))) W) as [[[x' y'] b']|] eqn:E.
  - apply find_some in E. destruct E as [Hin' Hc]. cbn in Hc. apply andb_prop in Hc. destruct Hc as [H1 H2].
    apply Z.eqb_eq in H1. apply Z.eqb_eq in H2. subst. exists b'. split; [reflexivity|exact Hin'].
  - exfalso. pose proof (find_none _ _ E _ Hin) as Hc. cbn in Hc. rewrite !Z.eqb_refl in Hc. discriminate.
Qed.

Section NamedBonds.
  Variables (g : mol) (mapping : list (Z * Z)) (tpl : template) (del : list Z) (new : mol) (mp' : list (Z * Z)).
  Hypothesis Hrun : patcher g mapping tpl del = Ok (new, mp').
  Hypothesis Hpos : forall x, In x (ids g) -> 0 < x.
  Hypothesis Hwt : wf_template tpl = true.
  Hypothesis Hinj : forall n1 n2 m, In n1 (keys (t_atoms tpl)) -> In n2 (keys (t_atoms tpl)) ->
                                    truthy_get mapping n1 = Some m -> truthy_get mapping n2 = Some m -> n1 = n2.
  Hypothesis Himg : forall n m, In n (keys (t_atoms tpl)) -> truthy_get mapping n = Some m -> In m (ids g).

  Theorem patcher_named_bonds :
    (forall n0 m0 rb x y, get2 (t_bonds tpl) n0 m0 = Some rb -> truthy_get mp' n0 = Some x -> truthy_get mp' m0 = Some y ->
                          bond_of new x y = Some (plain rb)) /\
    (forall x y b, named tpl mp' x -> named tpl mp' y -> bond_of new x y = Some b ->
                   exists n0 m0 rb, get2 (t_bonds tpl) n0 m0 = Some rb /\ truthy_get mp' n0 = Some x /\
                                    truthy_get mp' m0 = Some y /\ b = plain rb).
  Proof.
    destruct (patcher_anatomy _ _ _ _ _ _ Hrun Hpos)
      as (mx & s1 & adj2 & W2 & atoms3 & adj3 & adj4 & Emx & Hmx & E1 & Emp & EW2 & HW2 & E3 & HW4 & Enew & HP & Hk1 & Hnd1 & Hnil).
    destruct (wf_template_facts tpl Hwt) as (Hkb & HndT & Htb).
    set (T := keys (t_atoms tpl)) in *.
    assert (Hinj' : inj_on T mp' (p_max s1)).
    { subst mp'. apply (patch_atoms_inj g T _ _ _ E1); [cbn; lia|apply incl_refl|].
      cbn. apply (initial_inj g mapping tpl Hinj Himg mx Emx). }
    assert (Hmapped : forall n, In n T -> exists m, truthy_get mp' n = Some m).
    { subst mp'. intros n Hn. eapply (patch_atoms_mapped g _ _ _ E1); [cbn; lia|exact Hn]. }
    assert (Hz2t : forall n x, In n T -> zget mp' n = Some x -> truthy_get mp' n = Some x).
    { intros n x Hn Hz. destruct (Hmapped n Hn) as [m Hm]. destruct (truthy_get_zget _ _ _ Hm) as [Hz' _]. congruence. }
    (* bonds of the replacement as pairs of entries *)
    assert (Hget2 : forall n0 m0 rb, get2 (t_bonds tpl) n0 m0 = Some rb <->
                                     exists bs, In (n0, bs) (t_bonds tpl) /\ In (m0, rb) bs).
    { intros n0 m0 rb. unfold get2. split.
      - destruct (zget (t_bonds tpl) n0) as [bs|] eqn:Ebs; [|cbn; discriminate]. intros Hz.
        exists bs. split; eapply zget_Some_In; eassumption.
      - intros (bs & Hin & Hmb). rewrite (In_NoDup_zget _ _ _ ltac:(rewrite Hkb; exact HndT) Hin).
        apply In_NoDup_zget; [apply (Htb n0 bs Hin)|exact Hmb]. }
    assert (HW2in : forall x y b, In (x, y, b) W2 <->
                      exists n0 m0 rb, get2 (t_bonds tpl) n0 m0 = Some rb /\ truthy_get mp' n0 = Some x /\
                                       truthy_get mp' m0 = Some y /\ b = plain rb).
    { intros x y b. rewrite (tpl_reqs_In _ _ _ x y b EW2). split.
      - intros (n0 & bs & m0 & rb & Hin & Hmb & Hx & Hy & ->). exists n0, m0, rb.
        split; [apply Hget2; exists bs; split; assumption|].
        assert (Hn0 : In n0 T) by (rewrite <- Hkb; unfold keys; apply in_map_iff; exists (n0, bs); split; [reflexivity|exact Hin]).
        assert (Hm0 : In m0 T) by (apply (Htb n0 bs Hin) in Hmb; apply Hmb).
        split; [apply Hz2t; assumption|]. split; [apply Hz2t; assumption|reflexivity].
      - intros (n0 & m0 & rb & Hg & Hx & Hy & ->). apply Hget2 in Hg. destruct Hg as (bs & Hin & Hmb).
        exists n0, bs, m0, rb. repeat (split; [assumption|]).
        split; [apply (truthy_get_zget _ _ _ Hx)|]. split; [apply (truthy_get_zget _ _ _ Hy)|reflexivity]. }
    assert (HinT : forall n0 m0 rb, get2 (t_bonds tpl) n0 m0 = Some rb -> In n0 T /\ In m0 T).
    { intros n0 m0 rb Hg. apply Hget2 in Hg. destruct Hg as (bs & Hin & Hmb). split.
      - rewrite <- Hkb. unfold keys. apply in_map_iff. exists (n0, bs). split; [reflexivity|exact Hin].
      - apply (Htb n0 bs Hin) in Hmb. apply Hmb. }
    assert (Huniq : forall x y b1 b2, In (x, y, b1) W2 -> In (x, y, b2) W2 -> b1 = b2).
    { intros x y b1 b2 H1 H2. apply HW2in in H1. apply HW2in in H2.
      destruct H1 as (n1 & m1 & r1 & G1 & X1 & Y1 & ->). destruct H2 as (n2 & m2 & r2 & G2 & X2 & Y2 & ->).
      destruct (HinT _ _ _ G1) as [Tn1 Tm1]. destruct (HinT _ _ _ G2) as [Tn2 Tm2].
      assert (n1 = n2) by (eapply (proj1 Hinj'); eassumption).
      assert (m1 = m2) by (eapply (proj1 Hinj'); eassumption). subst. congruence. }
    set (v2 := fun x y => match lookup_req W2 x y with Some b => b | None => mkBond 0 None end).
    assert (Hv2 : forall x y b, In (x, y, b) W2 -> v2 x y = b).
    { intros x y b Hin. unfold v2. destruct (lookup_req_In _ _ _ _ Hin) as (b' & -> & Hin'). eapply Huniq; eassumption. }
    assert (Hspec2 : forall x y, get2 adj2 x y = if targets W2 x y then Some (v2 x y) else None).
    { intros x y. rewrite (links_spec v2 W2 (p_adj s1) adj2); [rewrite Hnil; reflexivity| | |exact HW2].
      - intros n m b Hin. split; [symmetry; apply Hv2; exact Hin|].
        rewrite (Hv2 _ _ _ Hin). apply HW2in in Hin. destruct Hin as (n0 & m0 & rb & Hg & Hx & Hy & ->).
        destruct (proj1 (Hget2 _ _ _) Hg) as (bs & Hin & Hmb).
        destruct (proj2 (Htb n0 bs Hin) m0 rb Hmb) as (_ & _ & rb' & Hg' & Hord).
        rewrite (Hv2 m n (plain rb')); [unfold plain; rewrite Hord; reflexivity|].
        apply HW2in. exists m0, n0, rb'. repeat (split; [assumption|]). reflexivity.
      - intros n m b b' _ Hg. rewrite Hnil in Hg. discriminate. }
    destruct (anatomy_adj3 g del s1 adj2 W2 atoms3 adj3 HW2 E3 Hk1 Hnil) as (A1 & A2 & A3).
    assert (Hnew2 : forall x y, In x (keys (p_atoms s1)) -> In y (keys (p_atoms s1)) -> bond_of new x y = get2 adj2 x y).
    { intros x y Hx Hy. subst new. rewrite bond_of_get2.
      rewrite (proj2 (proj2 (links_keys _ _ _ HW4)) x y); [apply A2; exact Hx|].
      destruct (targets _ x y) eqn:Et; [|reflexivity]. exfalso.
      apply targets_In in Et. destruct Et as [b Hin]. apply keep_reqs_In in Hin.
      destruct Hin as (_ & _ & _ & _ & _ & _ & _ & Hb). apply Hb. split; assumption. }
    split.
    - intros n0 m0 rb x y Hg Hx Hy. destruct (HinT _ _ _ Hg) as [Tn Tm].
      rewrite Hnew2; [|apply HP; exists n0; split; assumption|apply HP; exists m0; split; assumption].
      assert (Hin : In (x, y, plain rb) W2) by (apply HW2in; exists n0, m0, rb; auto).
      rewrite Hspec2. assert (Et : targets W2 x y = true) by (apply targets_In; eexists; exact Hin).
      rewrite Et, (Hv2 _ _ _ Hin). reflexivity.
    - intros x y b Hx Hy Hb. rewrite Hnew2, Hspec2 in Hb by (apply HP; assumption).
      destruct (targets W2 x y) eqn:Et; [|discriminate]. apply targets_In in Et. destruct Et as [b' Hin].
      inversion Hb; subst b. rewrite (Hv2 _ _ _ Hin). apply HW2in. exact Hin.
  Qed.
End NamedBonds.

(* ---------- a template whose replacement equals its pattern returns the input ---------- *)
Lemma named_dec tpl mp' x : named tpl mp' x \/ ~ named tpl mp' x.
Proof.
  unfold named. induction (keys (t_atoms tpl)) as [|n l IH].
  - right. intros (n & [] & _).
  - destruct IH as [(n' & Hin & Hg)|Hno]; [left; exists n'; split; [right; exact Hin|exact Hg]|].
    destruct (truthy_get mp' n) as [m|] eqn:E.
    + destruct (Z.eq_dec m x) as [->|Hne]; [left; exists n; split; [left; reflexivity|exact E]|].
      right. intros (n' & [<-|Hin] & Hg); [congruence|]. apply Hno. exists n'. split; assumption.
    + right. intros (n' & [<-|Hin] & Hg); [congruence|]. apply Hno. exists n'. split; assumption.
Qed.

Lemma bond_of_ids g x y b : wf_mol g = true -> bond_of g x y = Some b -> In x (ids g) /\ In y (ids g).
Proof.
  intros Hwf Hb. destruct (wf_mol_facts g Hwf) as (_ & Hkeys & Hadj).
  unfold bond_of, nbrs in Hb. destruct (zget (m_adj g) x) as [bs|] eqn:E; [|discriminate].
  split; [rewrite <- Hkeys; eapply zget_Some_key; exact E|].
  apply (proj2 (Hadj x bs (zget_Some_In _ _ _ E)) y b). eapply zget_Some_In. exact Hb.
Qed.

Theorem identity_template : forall g mapping tpl new mp',
  patcher g mapping tpl [] = Ok (new, mp') ->
  wf_mol g = true -> (forall x, In x (ids g) -> 0 < x) -> wf_template tpl = true ->
  (forall n1 n2 m, In n1 (keys (t_atoms tpl)) -> In n2 (keys (t_atoms tpl)) ->
                   truthy_get mapping n1 = Some m -> truthy_get mapping n2 = Some m -> n1 = n2) ->
  (* every replacement atom is matched and requests what the matched atom already has *)
  (forall n ra, In (n, ra) (t_atoms tpl) ->
                exists m sa, truthy_get mapping n = Some m /\ atom_of g m = Some sa /\ same_request ra sa) ->
  (* the replacement has exactly the bonds of the matched part, with the same orders *)
  (forall n0 m0 x y, In n0 (keys (t_atoms tpl)) -> In m0 (keys (t_atoms tpl)) ->
                     truthy_get mapping n0 = Some x -> truthy_get mapping m0 = Some y ->
                     option_map b_ord (get2 (t_bonds tpl) n0 m0) = option_map b_ord (bond_of g x y)) ->
  (forall n, truthy_get mp' n = truthy_get mapping n) /\
  (forall x, option_map core (atom_of new x) = option_map core (atom_of g x)) /\
  (forall x, ~ named tpl mp' x -> atom_of new x = option_map plain_atom (atom_of g x)) /\
  (forall x y, option_map b_ord (bond_of new x y) = option_map b_ord (bond_of g x y)).
Proof.
  intros g mapping tpl new mp' Hrun Hwf Hpos Hwt Hinj Hsame Hbonds.
  set (T := keys (t_atoms tpl)) in *.
  assert (Hra : forall n, In n T -> exists ra, In (n, ra) (t_atoms tpl)).
  { intros n Hn. unfold T, keys in Hn. apply in_map_iff in Hn. destruct Hn as ([n' ra] & <- & Hin). exists ra. exact Hin. }
  assert (Hall : forall n, In n T -> exists m, truthy_get mapping n = Some m /\ In m (ids g)).
  { intros n Hn. destruct (Hra n Hn) as [ra Hin]. destruct (Hsame n ra Hin) as (m & sa & Hg & Ha & _).
    exists m. split; [exact Hg|]. eapply zget_Some_key. exact Ha. }
  assert (Himg : forall n m, In n T -> truthy_get mapping n = Some m -> In m (ids g)).
  { intros n m Hn Hg. destruct (Hall n Hn) as (m' & Hg' & Hm'). congruence. }
  destruct (patcher_fresh _ _ _ _ _ _ Hrun Hpos) as (Hext & Hmapped & Hnew & _).
  assert (Hmp : forall n, truthy_get mp' n = truthy_get mapping n).
  { intros n. destruct (truthy_get mp' n) as [m|] eqn:E.
    - destruct (Hnew n m E) as [Hg|(Hn & _)]; [symmetry; exact Hg|].
      destruct (Hall n Hn) as (m' & Hg' & _). rewrite (Hext _ _ Hg') in E. congruence.
    - destruct (truthy_get mapping n) as [m|] eqn:E'; [|reflexivity]. rewrite (Hext _ _ E') in E. discriminate. }
  destruct (patcher_frame _ _ _ _ _ _ Hrun Hwf Hpos) as (F1 & F2 & F3 & F4 & _).
  destruct (wf_template_facts tpl Hwt) as (_ & HndT & _).
  destruct (patcher_named_bonds _ _ _ _ _ _ Hrun Hpos Hwt Hinj Himg) as (B1 & B2).
  split; [exact Hmp|]. split; [|split].
  - intros x. destruct (named_dec tpl mp' x) as [(n & Hn & Hg)|Hno].
    + destruct (Hra n Hn) as [ra Hin].
      destruct (patcher_named_atoms _ _ _ _ _ _ Hrun Hpos HndT Hinj Himg n ra Hin) as (m & Hm & Hc).
      assert (m = x) by congruence. subst m.
      destruct Hc as [(Hgm & sa & Hsa & Hnewa)|(Hnone & _)].
      * rewrite Hnewa, Hsa. destruct (Hsame n ra Hin) as (m' & sa' & Hg' & Ha' & Hreq).
        assert (m' = x) by congruence. subst m'. assert (sa' = sa) by congruence. subst sa'.
        cbn [option_map]. f_equal. unfold core. destruct ra as [chg rad|num iso chg rad h]; cbn in *.
        -- destruct Hreq as [-> ->]. reflexivity.
        -- destruct Hreq as (-> & -> & -> & ->). reflexivity.
      * destruct (Hall n Hn) as (m' & Hg' & _). congruence.
    + destruct (atom_of g x) as [a|] eqn:Ea.
      * rewrite (F1 x a Ea Hno (fun H => H)). reflexivity.
      * destruct (atom_of new x) as [a'|] eqn:Ea'; [|reflexivity]. exfalso.
        assert (Hin : In x (ids new)) by (eapply zget_Some_key; exact Ea').
        apply F4 in Hin. destruct Hin as [Hc|[Hc _]]; [contradiction|].
        apply zget_None_key in Ea. contradiction.
  - intros x Hno. destruct (atom_of g x) as [a|] eqn:Ea.
    + rewrite (F1 x a Ea Hno (fun H => H)). reflexivity.
    + destruct (atom_of new x) as [a'|] eqn:Ea'; [|reflexivity]. exfalso.
      assert (Hin : In x (ids new)) by (eapply zget_Some_key; exact Ea').
      apply F4 in Hin. destruct Hin as [Hc|[Hc _]]; [contradiction|].
      apply zget_None_key in Ea. contradiction.
  - intros x y.
    destruct (named_dec tpl mp' x) as [Hx|Hx], (named_dec tpl mp' y) as [Hy|Hy].
    + destruct Hx as (n0 & Hn0 & Hgx). destruct Hy as (m0 & Hm0 & Hgy).
      pose proof (Hbonds n0 m0 x y Hn0 Hm0) as Hb. rewrite <- !Hmp in Hb. specialize (Hb Hgx Hgy).
      destruct (get2 (t_bonds tpl) n0 m0) as [rb|] eqn:Eg.
      * rewrite (B1 n0 m0 rb x y Eg Hgx Hgy). rewrite <- Hb. reflexivity.
      * rewrite <- Hb. destruct (bond_of new x y) as [b|] eqn:Eb; [|reflexivity]. exfalso.
        destruct (B2 x y b (ex_intro _ n0 (conj Hn0 Hgx)) (ex_intro _ m0 (conj Hm0 Hgy)) Eb) as (n1 & m1 & rb & Eg1 & Hx1 & Hy1 & _).
        assert (HT1 : In n1 T /\ In m1 T).
        { unfold get2 in Eg1. destruct (zget (t_bonds tpl) n1) as [bs|] eqn:Ebs; [|discriminate].
          destruct (wf_template_facts tpl Hwt) as (Hkb & _ & Htb). split.
          - unfold T. rewrite <- Hkb. eapply zget_Some_key. exact Ebs.
          - apply (proj2 (Htb n1 bs (zget_Some_In _ _ _ Ebs)) m1 rb). eapply zget_Some_In. exact Eg1. }
        rewrite Hmp in Hgx, Hgy, Hx1, Hy1.
        assert (n1 = n0) by (eapply Hinj; [apply HT1|exact Hn0|exact Hx1|exact Hgx]).
        assert (m1 = m0) by (eapply Hinj; [apply HT1|exact Hm0|exact Hy1|exact Hgy]). subst. congruence.
    + (* y is not named *)
      destruct (bond_of new x y) as [b|] eqn:Eb.
      * destruct (F3 x y b Eb (fun H => Hy (proj2 H))) as (b0 & Hb0 & -> & _). rewrite Hb0. reflexivity.
      * destruct (bond_of g x y) as [b0|] eqn:Eb0; [|reflexivity]. exfalso.
        destruct (bond_of_ids g x y b0 Hwf Eb0) as [Ix Iy].
        rewrite (F2 x y Ix Iy (fun H => H) (fun H => H) (fun H => Hy (proj2 H))), Eb0 in Eb. discriminate.
    + destruct (bond_of new x y) as [b|] eqn:Eb.
      * destruct (F3 x y b Eb (fun H => Hx (proj1 H))) as (b0 & Hb0 & -> & _). rewrite Hb0. reflexivity.
      * destruct (bond_of g x y) as [b0|] eqn:Eb0; [|reflexivity]. exfalso.
        destruct (bond_of_ids g x y b0 Hwf Eb0) as [Ix Iy].
        rewrite (F2 x y Ix Iy (fun H => H) (fun H => H) (fun H => Hx (proj1 H))), Eb0 in Eb. discriminate.
    + destruct (bond_of new x y) as [b|] eqn:Eb.
      * destruct (F3 x y b Eb (fun H => Hx (proj1 H))) as (b0 & Hb0 & -> & _). rewrite Hb0. reflexivity.
      * destruct (bond_of g x y) as [b0|] eqn:Eb0; [|reflexivity]. exfalso.
        destruct (bond_of_ids g x y b0 Hwf Eb0) as [Ix Iy].
        rewrite (F2 x y Ix Iy (fun H => H) (fun H => H) (fun H => Hx (proj1 H))), Eb0 in Eb. discriminate.
Qed.

(* ---------- _patcher as it is called (to_delete = _get_deleted(...)): the atoms of the product ---------- *)
Theorem template_application_atoms : forall g mapping to_del tpl new mp',
  patcher_with get_deleted g mapping to_del tpl = Ok (new, mp') ->
  wf_mol g = true -> (forall x, In x (ids g) -> 0 < x) ->
  (forall p, In p to_del -> exists v, zget mapping p = Some v /\ In v (ids g)) ->
  forall x, In x (ids new) <->
            named tpl mp' x \/
            (In x (ids g) /\ ~ deleted_spec (graph_of g) (image mapping to_del) (kept mapping to_del) x).
Proof.
  intros g mapping to_del tpl new mp' Hrun Hwf Hpos Hm x.
  unfold patcher_with in Hrun.
  destruct (wf_mol_facts g Hwf) as (_ & Hkeys & _).
  destruct (get_deleted_spec_mol g mapping to_del Hwf) as (r & Er & Hspec).
  { intros p Hp. destruct (Hm p Hp) as (v & Ev & Hv). exists v. split; [exact Ev|]. rewrite Hkeys. exact Hv. }
  rewrite Er in Hrun.
  destruct (patcher_frame _ _ _ _ _ _ Hrun Hwf Hpos) as (_ & _ & _ & F4 & _).
  rewrite F4, Hspec. tauto.
Qed.

(* the frame condition of the property for the whole call: an atom the template does not name and that is not in a removed
   piece keeps its decorations and hydrogens, and keeps exactly its bonds to the atoms that survive *)
Theorem template_application_frame : forall g mapping to_del tpl new mp',
  patcher_with get_deleted g mapping to_del tpl = Ok (new, mp') ->
  wf_mol g = true -> (forall x, In x (ids g) -> 0 < x) ->
  (forall p, In p to_del -> exists v, zget mapping p = Some v /\ In v (ids g)) ->
  let gone := deleted_spec (graph_of g) (image mapping to_del) (kept mapping to_del) in
  (forall x a, atom_of g x = Some a -> ~ named tpl mp' x -> ~ gone x -> atom_of new x = Some (plain_atom a)) /\
  (forall x y, In x (ids g) -> In y (ids g) -> ~ gone x -> ~ gone y -> ~ (named tpl mp' x /\ named tpl mp' y) ->
               bond_of new x y = option_map plain (bond_of g x y)) /\
  (forall x y b, bond_of new x y = Some b -> ~ (named tpl mp' x /\ named tpl mp' y) ->
                 exists b0, bond_of g x y = Some b0 /\ b = plain b0 /\ ~ gone x /\ ~ gone y) /\
  NoDup (ids new) /\ keys (m_adj new) = ids new.
Proof.
  intros g mapping to_del tpl new mp' Hrun Hwf Hpos Hm gone.
  unfold patcher_with in Hrun.
  destruct (wf_mol_facts g Hwf) as (_ & Hkeys & _).
  destruct (get_deleted_spec_mol g mapping to_del Hwf) as (r & Er & Hspec).
  { intros p Hp. destruct (Hm p Hp) as (v & Ev & Hv). exists v. split; [exact Ev|]. rewrite Hkeys. exact Hv. }
  rewrite Er in Hrun.
  destruct (patcher_frame _ _ _ _ _ _ Hrun Hwf Hpos) as (F1 & F2 & F3 & _ & F5 & F6).
  assert (Hg : forall x, In x r <-> gone x) by exact Hspec.
  split; [|split; [|split; [|split; assumption]]].
  - intros x a Ha Hn Hx. apply (F1 x a Ha Hn). rewrite Hg. exact Hx.
  - intros x y Hx Hy Gx Gy Hn. apply F2; try assumption; rewrite Hg; assumption.
  - intros x y b Hb Hn. destruct (F3 x y b Hb Hn) as (b0 & Hb0 & Eb & Dx & Dy).
    exists b0. rewrite <- !Hg. auto.
Qed.

(* ---------- non-vacuity: a concrete run that satisfies every hypothesis used above ---------- *)
(* ethyl acetate CC(=O)OCC, template [C:1](=[O:2])[O:3][C:4] >> [A:1](=[A:2])[A:3] + new [Na:5] on no bond, match 2,3,4,5 *)
Definition ex_mol : mol :=
  mkMol [(1, mkAtom 6 None 0 false (Some 3) None); (2, mkAtom 6 None 0 false (Some 0) None); (3, mkAtom 8 None 0 false (Some 0) None);
         (4, mkAtom 8 None 0 false (Some 0) None); (5, mkAtom 6 None 0 false (Some 2) None); (6, mkAtom 6 None 0 false (Some 3) None)]
        [(1, [(2, mkBond 1 None)]); (2, [(1, mkBond 1 None); (3, mkBond 2 None); (4, mkBond 1 None)]); (3, [(2, mkBond 2 None)]);
         (4, [(2, mkBond 1 None); (5, mkBond 1 None)]); (5, [(4, mkBond 1 None); (6, mkBond 1 None)]); (6, [(5, mkBond 1 None)])].
Definition ex_tpl : template :=
  mkTpl [(1, RAny 0 false); (2, RAny 0 false); (3, RAny (-1) false); (5, RElem 11 None 1 false None)]
        [(1, [(2, mkBond 2 None); (3, mkBond 1 None)]); (2, [(1, mkBond 2 None)]); (3, [(1, mkBond 1 None)]); (5, [])].
Definition ex_mapping : list (Z * Z) := [(1, 2); (2, 3); (3, 4); (4, 5)].

Example patcher_example :
  wf_mol ex_mol = true /\ wf_template ex_tpl = true /\ (forall x, In x (ids ex_mol) -> 0 < x) /\
  exists new mp', patcher_with get_deleted ex_mol ex_mapping [4] ex_tpl = Ok (new, mp') /\
                  ids new = [2; 3; 4; 7; 1] /\ mp' = ex_mapping ++ [(5, 7)] /\
                  bond_of new 2 4 = Some (mkBond 1 None) /\ bond_of new 4 5 = None /\
                  atom_of new 4 = Some (mkAtom 8 None (-1) false None None).
Proof.
  split; [vm_compute; reflexivity|]. split; [vm_compute; reflexivity|]. split.
  - intros x Hx. vm_compute in Hx. repeat (destruct Hx as [<-|Hx]; [reflexivity|]). destruct Hx.
  - eexists _, _. split; [vm_compute; reflexivity|]. repeat split; vm_compute; reflexivity.
Qed.

(* non-vacuity of identity_template: ethyl acetate, [C:1]=[O:2] >> [A:1]=[A:2], match {1:2, 2:3} *)
Definition id_tpl : template :=
  mkTpl [(1, RAny 0 false); (2, RAny 0 false)] [(1, [(2, mkBond 2 None)]); (2, [(1, mkBond 2 None)])].
Definition id_mapping : list (Z * Z) := [(1, 2); (2, 3)].

Example identity_example :
  wf_template id_tpl = true /\
  (forall n1 n2 m, In n1 (keys (t_atoms id_tpl)) -> In n2 (keys (t_atoms id_tpl)) ->
                   truthy_get id_mapping n1 = Some m -> truthy_get id_mapping n2 = Some m -> n1 = n2) /\
  (forall n ra, In (n, ra) (t_atoms id_tpl) ->
                exists m sa, truthy_get id_mapping n = Some m /\ atom_of ex_mol m = Some sa /\ same_request ra sa) /\
  (forall n0 m0 x y, In n0 (keys (t_atoms id_tpl)) -> In m0 (keys (t_atoms id_tpl)) ->
                     truthy_get id_mapping n0 = Some x -> truthy_get id_mapping m0 = Some y ->
                     option_map b_ord (get2 (t_bonds id_tpl) n0 m0) = option_map b_ord (bond_of ex_mol x y)) /\
  exists new mp', patcher ex_mol id_mapping id_tpl [] = Ok (new, mp') /\ ids new = [2; 3; 1; 4; 5; 6].
Proof.
  split; [vm_compute; reflexivity|]. split.
  { intros n1 n2 m H1 H2. vm_compute in H1, H2.
    destruct H1 as [<-|[<-|[]]]; destruct H2 as [<-|[<-|[]]]; vm_compute; intros E1 E2; congruence. }
  split.
  { intros n ra Hin. vm_compute in Hin. destruct Hin as [E|[E|[]]]; inversion E; subst; eexists _, _;
      (split; [vm_compute; reflexivity|split; [vm_compute; reflexivity|cbn; split; reflexivity]]). }
  split.
  { intros n0 m0 x y H1 H2. vm_compute in H1, H2.
    destruct H1 as [<-|[<-|[]]]; destruct H2 as [<-|[<-|[]]]; vm_compute; intros E1 E2; inversion E1; inversion E2; subst; reflexivity. }
  eexists _, _. split; vm_compute; reflexivity.
Qed.

(* ---------- _patcher never raises on a real match of a well-formed template ---------- *)
Lemma link_total adj n m fresh : In n (keys adj) -> In m (keys adj) ->
  exists adj', link adj n m fresh = Ok adj' /\ keys adj' = keys adj.
Proof.
  intros Hn Hm. unfold link.
  destruct (zget_key_Some _ _ Hm) as [lm Em]. destruct (zget_key_Some _ _ Hn) as [ln En]. rewrite Em, En.
  eexists. split; [reflexivity|]. apply keys_zset_present. exact Hn.
Qed.

Lemma patch_atoms_total g : forall l s,
  NoDup (keys l) -> 0 <= p_max s ->
  (forall n chg rad, In (n, RAny chg rad) l -> exists m, truthy_get (p_map s) n = Some m) ->
  (forall n m, In n (keys l) -> truthy_get (p_map s) n = Some m -> In m (ids g)) ->
  exists s', fold_res (patch_atom g) l s = Ok s'.
Proof.
  induction l as [|[n ra] l IH]; intros s Hnd Hmax Hany Himg; cbn [fold_res]; [eexists; reflexivity|].
  cbn [keys map fst] in Hnd. inversion Hnd as [|? ? Hn Hnd']; subst.
  assert (Hstep : exists s1, patch_atom g s (n, ra) = Ok s1 /\ 0 <= p_max s1 /\
                             forall k, k <> n -> truthy_get (p_map s1) k = truthy_get (p_map s) k).
  { unfold patch_atom. destruct ra as [chg rad|num iso chg rad h].
    - destruct (Hany n chg rad (or_introl eq_refl)) as [m Em]. rewrite Em.
      destruct (zget_key_Some _ _ (Himg n m (or_introl eq_refl) Em)) as [sa Esa]. unfold atom_of. rewrite Esa.
      eexists. split; [reflexivity|]. cbn. split; [exact Hmax|reflexivity].
    - destruct (truthy_get (p_map s) n) as [m|] eqn:Em.
      + destruct (zget_key_Some _ _ (Himg n m (or_introl eq_refl) Em)) as [sa Esa]. unfold atom_of. rewrite Esa.
        eexists. split; [reflexivity|]. cbn. split; [exact Hmax|reflexivity].
      + eexists. split; [reflexivity|]. cbn. split; [lia|].
        intros k Hk. rewrite truthy_get_zset by lia. destruct (Z.eqb_spec k n); [contradiction|reflexivity]. }
  destruct Hstep as (s1 & E1 & Hmax1 & Hother). rewrite E1.
  assert (Hne : forall k, In k (keys l) -> k <> n) by (intros k Hk ->; contradiction).
  apply IH; [exact Hnd'|exact Hmax1| |].
  - intros k chg rad Hin.
    assert (Hk : In k (keys l)) by (unfold keys; apply in_map_iff; exists (k, RAny chg rad); split; [reflexivity|exact Hin]).
    rewrite (Hother k (Hne k Hk)). apply (Hany k chg rad). right. exact Hin.
  - intros k m Hk. rewrite (Hother k (Hne k Hk)). apply Himg. right. exact Hk.
Qed.

Lemma patch_bonds_of_total mp T nbs : forall adj,
  (forall n, In n T -> exists x, zget mp n = Some x /\ In x (keys adj)) ->
  In (fst nbs) T -> (forall m b, In (m, b) (snd nbs) -> In m T) ->
  exists adj', patch_bonds_of mp adj nbs = Ok adj' /\ keys adj' = keys adj.
Proof.
  intros adj Hmp Hn Hbs. unfold patch_bonds_of.
  destruct (Hmp _ Hn) as (x & Ex & Hx). rewrite Ex.
  revert adj Hmp Hx Hbs. generalize (snd nbs). intros bs.
  induction bs as [|[m rb] bs IH]; intros adj Hmp Hx Hbs; cbn [fold_res]; [eexists; split; reflexivity|].
  cbn [fst snd]. destruct (Hmp m (Hbs m rb (or_introl eq_refl))) as (y & Ey & Hy). rewrite Ey.
  destruct (link_total adj x y (plain rb) Hx Hy) as (adj1 & E1 & K1). rewrite E1.
  destruct (IH adj1) as (adj' & E' & K').
  - intros n Hn'. destruct (Hmp n Hn') as (z & Ez & Hz). exists z. split; [exact Ez|rewrite K1; exact Hz].
  - rewrite K1. exact Hx.
  - intros m' b' Hin. apply (Hbs m' b'). right. exact Hin.
  - exists adj'. split; [exact E'|congruence].
Qed.

Lemma patch_bonds_total mp T : forall tb adj,
  (forall n, In n T -> exists x, zget mp n = Some x /\ In x (keys adj)) ->
  (forall n bs, In (n, bs) tb -> In n T /\ forall m b, In (m, b) bs -> In m T) ->
  exists adj', fold_res (patch_bonds_of mp) tb adj = Ok adj' /\ keys adj' = keys adj.
Proof.
  induction tb as [|[n bs] tb IH]; intros adj Hmp Htb; cbn [fold_res]; [eexists; split; reflexivity|].
  destruct (Htb n bs (or_introl eq_refl)) as [Hn Hbs].
  destruct (patch_bonds_of_total mp T (n, bs) adj Hmp Hn Hbs) as (adj1 & E1 & K1). rewrite E1.
  destruct (IH adj1) as (adj' & E' & K').
  - intros k Hk. destruct (Hmp k Hk) as (z & Ez & Hz). exists z. split; [exact Ez|rewrite K1; exact Hz].
  - intros k bs' Hin. apply Htb. right. exact Hin.
  - exists adj'. split; [exact E'|congruence].
Qed.

Lemma keep_bonds_of_total P del nbs : forall adj,
  (~ In (fst nbs) del -> In (fst nbs) (keys adj)) ->
  (forall m b, In (m, b) (snd nbs) -> ~ In m del -> In m (keys adj)) ->
  exists adj', keep_bonds_of P del adj nbs = Ok adj' /\ keys adj' = keys adj.
Proof.
  intros adj Hn Hbs. unfold keep_bonds_of.
  destruct (zmem (fst nbs) del) eqn:Ed; [eexists; split; reflexivity|].
  apply zmem_false in Ed. specialize (Hn Ed).
  revert adj Hn Hbs. generalize (snd nbs). intros bs.
  induction bs as [|[m b0] bs IH]; intros adj Hn Hbs; cbn [fold_res]; [eexists; split; reflexivity|].
  cbn [fst snd].
  destruct (zmem m del || zmem (fst nbs) P && zmem m P) eqn:Es.
  - apply IH; [exact Hn|]. intros m' b' Hin. apply (Hbs m' b'). right. exact Hin.
  - apply orb_false_iff in Es. destruct Es as [Em _]. apply zmem_false in Em.
    destruct (link_total adj (fst nbs) m (plain b0) Hn (Hbs m b0 (or_introl eq_refl) Em)) as (adj1 & E1 & K1). rewrite E1.
    destruct (IH adj1) as (adj' & E' & K').
    + rewrite K1. exact Hn.
    + intros m' b' Hin Hd. rewrite K1. apply (Hbs m' b'); [right; exact Hin|exact Hd].
    + exists adj'. split; [exact E'|congruence].
Qed.

Lemma keep_bonds_total P del : forall l adj,
  (forall n bs, In (n, bs) l -> (~ In n del -> In n (keys adj)) /\ forall m b, In (m, b) bs -> ~ In m del -> In m (keys adj)) ->
  exists adj', fold_res (keep_bonds_of P del) l adj = Ok adj' /\ keys adj' = keys adj.
Proof.
  induction l as [|[n bs] l IH]; intros adj Hl; cbn [fold_res]; [eexists; split; reflexivity|].
  destruct (Hl n bs (or_introl eq_refl)) as [Hn Hbs].
  destruct (keep_bonds_of_total P del (n, bs) adj Hn Hbs) as (adj1 & E1 & K1). rewrite E1.
  destruct (IH adj1) as (adj' & E' & K').
  - intros k bs' Hin. rewrite K1. apply Hl. right. exact Hin.
  - exists adj'. split; [exact E'|congruence].
Qed.

Theorem patcher_total : forall g mapping tpl del,
  wf_mol g = true -> (forall x, In x (ids g) -> 0 < x) -> ids g <> [] ->
  wf_template tpl = true ->
  (* every any-atom of the replacement is matched; matched replacement atoms lie in the structure *)
  (forall n chg rad, In (n, RAny chg rad) (t_atoms tpl) -> exists m, truthy_get mapping n = Some m) ->
  (forall n m, In n (keys (t_atoms tpl)) -> truthy_get mapping n = Some m -> In m (ids g)) ->
  exists new mp', patcher g mapping tpl del = Ok (new, mp').
Proof.
  intros g mapping tpl del Hwf Hpos Hne Hwt Hany Himg.
  destruct (wf_mol_facts g Hwf) as (Hndg & Hkeys & Hadj).
  destruct (wf_template_facts tpl Hwt) as (Hkb & HndT & Htb).
  unfold patcher.
  destruct (zmax_list (ids g)) as [mx|] eqn:Emx.
  2:{ exfalso. unfold zmax_list in Emx. destruct (ids g); [contradiction|discriminate]. }
  assert (Hmx : 0 < mx) by (apply Hpos; apply (zmax_list_spec _ _ Emx)).
  destruct (patch_atoms_total g (t_atoms tpl) (mkP [] [] mapping mx)) as [s1 E1]; [exact HndT|cbn; lia|exact Hany|exact Himg|].
  rewrite E1.
  destruct (patch_atoms_spec g _ _ _ E1) as (_ & _ & _ & I4 & I5 & _ & _); [cbn; lia|]. cbn [p_atoms p_adj p_map p_max] in *.
  assert (Hmapped : forall n, In n (keys (t_atoms tpl)) -> exists x, zget (p_map s1) n = Some x /\ In x (keys (p_adj s1))).
  { intros n Hn. destruct (patch_atoms_mapped g _ _ _ E1) with (n := n) as [x Ex]; [cbn; lia|exact Hn|].
    exists x. split; [apply (truthy_get_zget _ _ _ Ex)|].
    rewrite (I5 eq_refl). apply I4. right. exists n. split; assumption. }
  destruct (patch_bonds_total (p_map s1) (keys (t_atoms tpl)) (t_bonds tpl) (p_adj s1) Hmapped) as (adj2 & E2 & K2).
  { intros n bs Hin. split.
    - rewrite <- Hkb. unfold keys. apply in_map_iff. exists (n, bs). split; [reflexivity|exact Hin].
    - intros m b Hmb. apply (proj2 (Htb n bs Hin) m b Hmb). }
  rewrite E2.
  set (P := keys (p_atoms s1)).
  destruct (fold_left (keep_atom P del) (m_atoms g) (p_atoms s1, adj2)) as [atoms3 adj3] eqn:E3.
  destruct (keep_atoms_spec P del (m_atoms g) (p_atoms s1, adj2)) as (K1 & _ & K3 & _ & _).
  rewrite E3 in *. cbn [fst snd] in *.
  assert (Hk3 : keys adj3 = keys atoms3) by (apply K1; rewrite K2; apply I5; reflexivity).
  assert (Hsurv : forall x, In x (ids g) -> ~ In x del -> In x (keys adj3)).
  { intros x Hx Hd. rewrite Hk3. apply K3. destruct (in_dec Z.eq_dec x P) as [Hp|Hp]; [left; exact Hp|right]. unfold ids in Hx. auto. }
  destruct (keep_bonds_total P del (m_adj g) adj3) as (adj4 & E4 & _).
  { intros n bs Hin. split.
    - intros Hd. apply Hsurv; [|exact Hd]. rewrite <- Hkeys. unfold keys. apply in_map_iff. exists (n, bs). split; [reflexivity|exact Hin].
    - intros m b Hmb Hd. apply Hsurv; [|exact Hd]. apply (proj2 (Hadj n bs Hin) m b Hmb). }
  rewrite E4. eexists _, _. reflexivity.
Qed.

(* the whole call: to_delete computed by _get_deleted *)
Theorem template_application_total : forall g mapping to_del tpl,
  wf_mol g = true -> (forall x, In x (ids g) -> 0 < x) -> ids g <> [] ->
  wf_template tpl = true ->
  (forall p, In p to_del -> exists v, zget mapping p = Some v /\ In v (ids g)) ->
  (forall n chg rad, In (n, RAny chg rad) (t_atoms tpl) -> exists m, truthy_get mapping n = Some m) ->
  (forall n m, In n (keys (t_atoms tpl)) -> truthy_get mapping n = Some m -> In m (ids g)) ->
  exists new mp', patcher_with get_deleted g mapping to_del tpl = Ok (new, mp').
Proof.
  intros g mapping to_del tpl Hwf Hpos Hne Hwt Hm Hany Himg.
  unfold patcher_with.
  destruct (wf_mol_facts g Hwf) as (_ & Hkeys & _).
  destruct (get_deleted_spec_mol g mapping to_del Hwf) as (r & Er & _).
  { intros p Hp. destruct (Hm p Hp) as (v & Ev & Hv). exists v. split; [exact Ev|]. rewrite Hkeys. exact Hv. }
  rewrite Er. apply patcher_total; assumption.
Qed.

(* non-vacuity: the ethyl acetate example satisfies the hypotheses of template_application_total *)
Example total_example :
  ids ex_mol <> [] /\
  (forall p, In p [4] -> exists v, zget ex_mapping p = Some v /\ In v (ids ex_mol)) /\
  (forall n chg rad, In (n, RAny chg rad) (t_atoms ex_tpl) -> exists m, truthy_get ex_mapping n = Some m) /\
  (forall n m, In n (keys (t_atoms ex_tpl)) -> truthy_get ex_mapping n = Some m -> In m (ids ex_mol)).
Proof.
  split; [discriminate|]. split.
  { intros p [<-|[]]. exists 5. split; vm_compute; auto 10. }
  split.
  { intros n chg rad Hin. vm_compute in Hin.
    destruct Hin as [E|[E|[E|[E|[]]]]]; inversion E; subst; eexists; vm_compute; reflexivity. }
  intros n m Hn. vm_compute in Hn.
  destruct Hn as [<-|[<-|[<-|[<-|[]]]]]; vm_compute; intros E; inversion E; subst; auto 10.
Qed.

(* ====================================================================================================
   fix_mapping_overlap
   ==================================================================================================== *)
Lemma all_disjoint_snoc l a :
  all_disjoint (l ++ [a]) <-> all_disjoint l /\ forall b, In b l -> forall x, In x b -> ~ In x a.
Proof.
  induction l as [|c l IH]; cbn [app all_disjoint].
  - split; [intros _; split; [exact I|intros ? []]|intros _; split; [intros ? []|exact I]].
  - rewrite IH. split.
    + intros (H1 & H2 & H3). split; [split; [|exact H2]|].
      * intros b Hb. apply H1. apply in_or_app. left. exact Hb.
      * intros b [<-|Hb]; [apply H1; apply in_or_app; right; left; reflexivity|apply H3; exact Hb].
    + intros ((H1 & H2) & H3). split; [|split; [exact H2|]].
      * intros b Hb. apply in_app_or in Hb. destruct Hb as [Hb|[<-|[]]]; [apply H1; exact Hb|apply H3; left; reflexivity].
      * intros b Hb. apply H3. right. exact Hb.
Qed.

Lemma zip_count_get : forall l s n m, zget (zip_count l s) n = Some m ->
  In n l /\ s <= m /\ forall n', zget (zip_count l s) n' = Some m -> n' = n.
Proof.
  induction l as [|x r IH]; intros s n m; cbn [zip_count zget]; [discriminate|].
  assert (Hlow : forall k q, zget (zip_count r (s + 1)) k = Some q -> s + 1 <= q) by (intros k q Hq; apply (IH _ _ _ Hq)).
  destruct (Z.eqb_spec n x) as [->|Hne].
  - intros H. inversion H; subst m. split; [left; reflexivity|]. split; [lia|].
    intros n'. destruct (Z.eqb_spec n' x); [auto|]. intros Hq. apply Hlow in Hq. lia.
  - intros H. destruct (IH _ _ _ H) as (Hin & Hs & Huniq). split; [right; exact Hin|]. split; [lia|].
    intros n'. destruct (Z.eqb_spec n' x) as [->|Hne']; [|apply Huniq].
    intros Hq. inversion Hq. lia.
Qed.

Lemma zip_count_keys l s : keys (zip_count l s) = l.
Proof. revert s. induction l as [|x r IH]; intros s; cbn; [reflexivity|]. f_equal. apply IH. Qed.

Lemma NoDup_map_inj_on {A B} (f : A -> B) (l : list A) :
  (forall a b, In a l -> In b l -> f a = f b -> a = b) -> NoDup l -> NoDup (map f l).
Proof.
  induction l as [|x l IH]; intros Hinj Hnd; cbn; [constructor|]. inversion Hnd as [|? ? Hx Hnd']; subst. constructor.
  - intros Hin. apply in_map_iff in Hin. destruct Hin as (y & Hy & Hin).
    assert (y = x) by (apply Hinj; [right; exact Hin|left; reflexivity|exact Hy]). subst. contradiction.
  - apply IH; [|exact Hnd']. intros a b Ha Hb. apply Hinj; right; assumption.
Qed.

Lemma remap_collisions structure atoms a b :
  NoDup structure -> (forall x, In x atoms -> x <= a) -> (forall x, In x structure -> x <= b) ->
  let s' := remap_ids (zip_count (zinter structure atoms) (Z.max a b + 1)) structure in
  length s' = length structure /\ NoDup s' /\ (forall x, In x s' -> ~ In x atoms) /\
  (forall i d, ~ In (nth i structure d) atoms -> nth i s' d = nth i structure d).
Proof.
  intros Hnd Ha Hb. set (mp := zip_count (zinter structure atoms) (Z.max a b + 1)).
  set (f := fun n => match zget mp n with Some m => m | None => n end).
  assert (Hsome : forall n m, zget mp n = Some m -> In n structure /\ In n atoms /\ Z.max a b + 1 <= m /\
                                                    forall n', zget mp n' = Some m -> n' = n).
  { intros n m Hg. destruct (zip_count_get _ _ _ _ Hg) as (Hin & Hs & Hu). apply zinter_In in Hin. tauto. }
  assert (Hnone : forall n, In n structure -> zget mp n = None -> ~ In n atoms).
  { intros n Hn Hg Hat. apply zget_None_key in Hg. apply Hg. unfold mp. rewrite zip_count_keys. apply zinter_In. tauto. }
  cbn zeta. unfold remap_ids. fold mp. fold f. split; [apply map_length|]. split; [|split].
  - apply NoDup_map_inj_on; [|exact Hnd]. intros x y Hx Hy. unfold f.
    destruct (zget mp x) as [mx|] eqn:Ex, (zget mp y) as [my|] eqn:Ey; intros E; subst.
    + symmetry. apply (Hsome _ _ Ex). exact Ey.
    + destruct (Hsome _ _ Ex) as (_ & _ & Hs & _). specialize (Hb _ Hy). lia.
    + destruct (Hsome _ _ Ey) as (_ & _ & Hs & _). specialize (Hb _ Hx). lia.
    + reflexivity.
  - intros x Hx. apply in_map_iff in Hx. destruct Hx as (n & <- & Hn). unfold f.
    destruct (zget mp n) as [m|] eqn:E.
    + intros Hat. destruct (Hsome _ _ E) as (_ & _ & Hs & _). specialize (Ha _ Hat). lia.
    + apply Hnone; assumption.
  - intros i d Hi. destruct (Nat.lt_ge_cases i (length structure)) as [Hlt|Hge].
    + rewrite (nth_indep _ d (f d)) by (rewrite map_length; exact Hlt). rewrite map_nth. unfold f.
      destruct (zget mp (nth i structure d)) as [m|] eqn:E; [|reflexivity].
      exfalso. apply Hi. apply (Hsome _ _ E).
    + rewrite !nth_overflow; [reflexivity|exact Hge|rewrite map_length; exact Hge].
Qed.

(* the state of the loop: checked_atoms is the union of the structures already checked, which are pairwise disjoint *)
Definition overlap_inv (st : list (list Z) * list Z) : Prop :=
  (forall x, In x (snd st) <-> exists c, In c (fst st) /\ In x c) /\ all_disjoint (fst st).

Definition overlap_rel (atoms : list Z) (s o : list Z) : Prop :=
  length o = length s /\ NoDup o /\ (forall x, In x o -> ~ In x atoms) /\
  (forall i d, ~ In (nth i s d) atoms -> nth i o d = nth i s d).

Lemma overlap_step_ok st s st' : overlap_step st s = Ok st' -> overlap_inv st -> NoDup s ->
  overlap_inv st' /\ exists o, fst st' = fst st ++ [o] /\ overlap_rel (snd st) s o.
Proof.
  destruct st as [checked atoms]. unfold overlap_step. intros H (I1 & I2) Hnd. cbn [fst snd] in *.
  assert (Hfin : forall o, overlap_rel atoms s o ->
                           overlap_inv (checked ++ [o], zunion o atoms) /\
                           exists o', fst (checked ++ [o], zunion o atoms) = checked ++ [o'] /\ overlap_rel atoms s o').
  { intros o Ho. split; [|exists o; split; [reflexivity|exact Ho]]. split; cbn [fst snd].
    - intros x. rewrite zunion_In, I1. split.
      + intros [Hx|(c & Hc & Hx)]; [exists o; split; [apply in_or_app; right; left; reflexivity|exact Hx]|].
        exists c. split; [apply in_or_app; left; exact Hc|exact Hx].
      + intros (c & Hc & Hx). apply in_app_or in Hc. destruct Hc as [Hc|[<-|[]]]; [right; exists c; split; assumption|left; exact Hx].
    - apply all_disjoint_snoc. split; [exact I2|]. intros c Hc x Hx Hxo.
      destruct Ho as (_ & _ & Ho & _). apply (Ho x Hxo). apply I1. exists c. split; assumption. }
  destruct (zinter s atoms) as [|i0 irest] eqn:Ei.
  - inversion H; subst st'. apply Hfin. split; [reflexivity|]. split; [exact Hnd|]. split; [|reflexivity].
    intros x Hx Hat. assert (Hin : In x (zinter s atoms)) by (apply zinter_In; split; assumption). rewrite Ei in Hin. destruct Hin.
  - destruct (zmax_list atoms) as [a|] eqn:Ea; [|discriminate]. destruct (zmax_list s) as [b|] eqn:Eb; [|discriminate].
    inversion H; subst st'.
    change ((i0, Z.max a b + 1) :: zip_count irest (Z.max a b + 1 + 1)) with (zip_count (i0 :: irest) (Z.max a b + 1)).
    rewrite <- Ei. apply Hfin.
    apply (remap_collisions s atoms a b Hnd (proj2 (zmax_list_spec _ _ Ea)) (proj2 (zmax_list_spec _ _ Eb))).
Qed.

Lemma overlap_fold_ok : forall l st st', fold_res overlap_step l st = Ok st' -> overlap_inv st -> Forall (@NoDup Z) l ->
  overlap_inv st' /\ exists outs, fst st' = fst st ++ outs /\ Forall2 (fun s o => length o = length s /\ NoDup o) l outs.
Proof.
  induction l as [|s l IH]; intros st st' H Hinv Hnd; cbn [fold_res] in H.
  - inversion H; subst. split; [exact Hinv|]. exists []. split; [rewrite app_nil_r; reflexivity|constructor].
  - destruct (overlap_step st s) as [st1|] eqn:E1; [|discriminate]. inversion Hnd as [|? ? Hs Hl]; subst.
    destruct (overlap_step_ok _ _ _ E1 Hinv Hs) as (Hinv1 & o & Eo & Ho).
    destruct (IH st1 st' H Hinv1 Hl) as (Hinv' & outs & Eouts & Hall).
    split; [exact Hinv'|]. exists (o :: outs). split; [rewrite Eouts, Eo, <- app_assoc; reflexivity|].
    constructor; [split; apply Ho|exact Hall].
Qed.

(* the structures handed to the reactor never share an atom number; sizes and uniqueness inside a structure are kept *)
Theorem overlap_fix_disjoint : forall structures out,
  fix_mapping_overlap structures = Ok out -> Forall (@NoDup Z) structures ->
  all_disjoint out /\ Forall2 (fun s o => length o = length s /\ NoDup o) structures out.
Proof.
  intros structures out H Hnd. unfold fix_mapping_overlap in H.
  assert (Hgen : match fold_res overlap_step structures ([], []) with Ok (checked, _) => Ok checked | Err e => Err e end = Ok out ->
                 all_disjoint out /\ Forall2 (fun s o => length o = length s /\ NoDup o) structures out).
  { destruct (fold_res overlap_step structures ([], [])) as [[checked atoms]|] eqn:E; [|discriminate].
    intros Ho. inversion Ho; subst out.
    destruct (overlap_fold_ok _ _ _ E) as ((_ & Hd) & outs & Eouts & Hall); [split; cbn; [intros x; split; [intros []|intros (c & [] & _)]|exact I]|exact Hnd|].
    cbn [fst] in *. subst checked. split; assumption. }
  destruct structures as [|s [|s2 r]]; [apply Hgen; exact H| |apply Hgen; exact H].
  inversion H; subst out. split; [cbn; split; [intros ? []|exact I]|].
  constructor; [|constructor]. inversion Hnd; subst. split; [reflexivity|assumption].
Qed.

(* structures that do not collide are returned unchanged *)
Theorem overlap_fix_identity : forall structures,
  all_disjoint structures -> fix_mapping_overlap structures = Ok structures.
Proof.
  intros structures Hd.
  assert (Hgen : forall l checked atoms,
            (forall x, In x atoms <-> exists c, In c checked /\ In x c) ->
            (forall c s, In c checked -> In s l -> forall x, In x c -> ~ In x s) -> all_disjoint l ->
            exists atoms', fold_res overlap_step l (checked, atoms) = Ok (checked ++ l, atoms')).
  { induction l as [|s l IH]; intros checked atoms Hat Hcl Hdl; cbn [fold_res].
    - exists atoms. rewrite app_nil_r. reflexivity.
    - unfold overlap_step at 1.
      assert (Ei : zinter s atoms = []).
      { destruct (zinter s atoms) as [|x r] eqn:E; [reflexivity|]. exfalso.
        assert (Hx : In x (zinter s atoms)) by (rewrite E; left; reflexivity).
        apply zinter_In in Hx. destruct Hx as [Hxs Hxa]. apply Hat in Hxa. destruct Hxa as (c & Hc & Hxc).
        apply (Hcl c s Hc (or_introl eq_refl) x Hxc Hxs). }
      rewrite Ei. destruct Hdl as [Hd1 Hd2].
      destruct (IH (checked ++ [s]) (zunion s atoms)) as [atoms' E'].
      + intros x. rewrite zunion_In, Hat. split.
        * intros [Hx|(c & Hc & Hx)]; [exists s; split; [apply in_or_app; right; left; reflexivity|exact Hx]|].
          exists c. split; [apply in_or_app; left; exact Hc|exact Hx].
        * intros (c & Hc & Hx). apply in_app_or in Hc. destruct Hc as [Hc|[<-|[]]]; [right; exists c; split; assumption|left; exact Hx].
      + intros c s' Hc Hs' x Hxc. apply in_app_or in Hc. destruct Hc as [Hc|[<-|[]]].
        * apply (Hcl c s' Hc (or_intror Hs') x Hxc).
        * apply (Hd1 s' Hs' x Hxc).
      + exact Hd2.
      + exists atoms'. rewrite E', <- app_assoc. reflexivity. }
  unfold fix_mapping_overlap. destruct structures as [|s [|s2 r]]; [reflexivity|reflexivity|].
  destruct (Hgen (s :: s2 :: r) [] []) as [atoms' E]; [intros x; split; [intros []|intros (c & [] & _)]|intros c s' []|exact Hd|].
  rewrite E. reflexivity.
Qed.

(* non-vacuity: three structures numbered from 1 *)
Example overlap_example :
  Forall (@NoDup Z) [[1; 2; 3]; [1; 2]; [2; 5]] /\
  fix_mapping_overlap [[1; 2; 3]; [1; 2]; [2; 5]] = Ok [[1; 2; 3]; [4; 5]; [6; 7]].
Proof.
  split; [|vm_compute; reflexivity].
  repeat constructor; cbn; intuition discriminate.
Qed.

(* ====================================================================================================
   Reactor._single_stage: number-collision remapping against the molecules that take no part
   ==================================================================================================== *)
Theorem stage_remap_disjoint : forall new ignored out,
  stage_remap new ignored = Ok out -> NoDup new ->
  length out = length new /\ NoDup out /\ (forall x, In x out -> ~ In x ignored) /\
  (forall i d, ~ In (nth i new d) ignored -> nth i out d = nth i new d).
Proof.
  intros new ignored out H Hnd. unfold stage_remap in H.
  destruct (zinter new ignored) as [|c0 crest] eqn:Ei.
  - inversion H; subst out. split; [reflexivity|]. split; [exact Hnd|]. split; [|reflexivity].
    intros x Hx Hi. assert (Hin : In x (zinter new ignored)) by (apply zinter_In; split; assumption).
    rewrite Ei in Hin. destruct Hin.
  - destruct (zmax_list new) as [b|] eqn:Eb; [|discriminate].
    assert (Hout : out = remap_ids (zip_count (c0 :: crest) (Z.max (zmax0 ignored) b + 1)) new) by congruence.
    rewrite Hout, <- Ei.
    apply (remap_collisions new ignored (zmax0 ignored) b Hnd).
    + intros x Hx. unfold zmax0. destruct (zmax_list ignored) as [a|] eqn:Ea.
      * apply (zmax_list_spec _ _ Ea). exact Hx.
      * destruct ignored; [destruct Hx|discriminate].
    + apply (zmax_list_spec _ _ Eb).
Qed.

(* it never raises, and a product that collides with nothing keeps its numbers *)
Theorem stage_remap_total : forall new ignored, exists out, stage_remap new ignored = Ok out.
Proof.
  intros new ignored. unfold stage_remap. destruct (zinter new ignored) as [|c0 crest] eqn:Ei; [eexists; reflexivity|].
  destruct new as [|x r]; [discriminate|]. cbn [zmax_list]. eexists; reflexivity.
Qed.

Theorem stage_remap_identity : forall new ignored,
  (forall x, In x new -> ~ In x ignored) -> stage_remap new ignored = Ok new.
Proof.
  intros new ignored H. unfold stage_remap.
  destruct (zinter new ignored) as [|c0 crest] eqn:Ei; [reflexivity|]. exfalso.
  assert (Hin : In c0 (zinter new ignored)) by (rewrite Ei; left; reflexivity).
  apply zinter_In in Hin. exact (H c0 (proj1 Hin) (proj2 Hin)).
Qed.

(* the products of one reaction: the patched product after the remap, and the untouched molecules, share no number *)
Example stage_remap_example :
  NoDup [1; 2; 3; 8; 9] /\ stage_remap [1; 2; 3; 8; 9] [8; 9; 10; 11] = Ok [1; 2; 3; 12; 13].
Proof. split; [repeat constructor; cbn; intuition discriminate|vm_compute; reflexivity]. Qed.

(* ====================================================================================================
   _get_deleted does not depend on the numbering of the structure
   ==================================================================================================== *)
Section Rename.
  Variable s : Z -> Z.
  Hypothesis Hinj : forall a b, s a = s b -> a = b.

  Lemma zget_rename_graph g a : zget (rename_graph s g) (s a) = option_map (map s) (zget g a).
  Proof.
    induction g as [|[v l] g IH]; cbn; [reflexivity|].
    destruct (Z.eqb_spec (s a) (s v)) as [E|E], (Z.eqb_spec a v) as [E'|E']; try reflexivity.
    - exfalso. apply E'. apply Hinj. exact E.
    - subst. contradiction.
    - exact IH.
  Qed.

  Lemma keys_rename_graph g : keys (rename_graph s g) = map s (keys g).
  Proof. unfold keys, rename_graph. rewrite !map_map. reflexivity. Qed.

  Lemma adj_rename g a b : adj (rename_graph s g) (s a) (s b) <-> adj g a b.
  Proof.
    unfold adj, gnbrs. rewrite zget_rename_graph. destruct (zget g a) as [l|]; cbn; [|tauto].
    rewrite in_map_iff. split.
    - intros (b' & E & Hb). apply Hinj in E. subst. exact Hb.
    - intros Hb. exists b. split; [reflexivity|exact Hb].
  Qed.

  (* every neighbour of a renamed atom is a renamed neighbour *)
  Lemma adj_rename_inv g a z : adj (rename_graph s g) (s a) z -> exists b, z = s b /\ adj g a b.
  Proof.
    unfold adj, gnbrs. rewrite zget_rename_graph. destruct (zget g a) as [l|]; cbn; [|intros []].
    rewrite in_map_iff. intros (b & E & Hb). exists b. split; [symmetry; exact E|exact Hb].
  Qed.

  Lemma sym_rename g : sym_graph g = true -> sym_graph (rename_graph s g) = true.
  Proof.
    intros Hs. pose proof (sym_graph_sym g Hs) as Hsym.
    unfold sym_graph. apply forallb_forall. intros [v' l'] Hin.
    unfold rename_graph in Hin. apply in_map_iff in Hin. destruct Hin as ([v l] & E & Hin). cbn in E. inversion E; subst v' l'.
    cbn [fst snd]. apply forallb_forall. intros b' Hb'. apply in_map_iff in Hb'. destruct Hb' as (b & <- & Hb).
    apply zmem_In.
    (* v is a key of g: its FIRST entry may differ from l if keys repeat; use the symmetry of g on the first entry *)
    assert (Hvb : adj g b v).
    { unfold sym_graph in Hs. rewrite forallb_forall in Hs. specialize (Hs (v, l) Hin). cbn in Hs.
      rewrite forallb_forall in Hs. specialize (Hs b Hb). apply zmem_In in Hs. exact Hs. }
    apply (adj_rename g b v). exact Hvb.
  Qed.

  Section Reach.
    Variables (g : graph) (D D' : list Z).
    Hypothesis HD : forall x, In x D' <-> exists y, In y D /\ x = s y.

    Lemma notD_rename a : ~ In a D <-> ~ In (s a) D'.
    Proof.
      rewrite HD. split.
      - intros H (y & Hy & E). apply Hinj in E. subst. contradiction.
      - intros H Ha. apply H. exists a. split; [exact Ha|reflexivity].
    Qed.

    Lemma reach_rename a b : reach_av g D a b -> reach_av (rename_graph s g) D' (s a) (s b).
    Proof.
      induction 1 as [x Hx|x y z Hxy IH Ha Hz].
      - apply ra_refl. apply notD_rename. exact Hx.
      - eapply ra_step; [exact IH|apply adj_rename; exact Ha|apply notD_rename; exact Hz].
    Qed.

    Lemma reach_rename_inv a z : reach_av (rename_graph s g) D' (s a) z -> exists b, z = s b /\ reach_av g D a b.
    Proof.
      intros H. remember (s a) as a' eqn:Ea. revert a Ea.
      induction H as [x Hx|x y z Hxy IH Ha Hz]; intros a Ea; subst.
      - exists a. split; [reflexivity|]. apply ra_refl. apply notD_rename. exact Hx.
      - destruct (IH a eq_refl) as (b & -> & Hab).
        destruct (adj_rename_inv g b z Ha) as (c & -> & Hbc).
        exists c. split; [reflexivity|]. eapply ra_step; [exact Hab|exact Hbc|apply notD_rename; exact Hz].
    Qed.

    Variables (K K' : list Z).
    Hypothesis HK : forall x, In x K' <-> exists y, In y K /\ x = s y.

    Lemma deleted_spec_rename x :
      deleted_spec (rename_graph s g) D' K' x <-> exists y, x = s y /\ deleted_spec g D K y.
    Proof.
      unfold deleted_spec, detached, attached. split.
      - intros [H|(HnD & (d' & n' & Hd' & Hdn & Hnx) & Hno)].
        + apply HD in H. destruct H as (y & Hy & ->). exists y. split; [reflexivity|left; exact Hy].
        + apply HD in Hd'. destruct Hd' as (d & Hd & ->).
          destruct (adj_rename_inv g d n' Hdn) as (n & -> & Hdn0).
          destruct (reach_rename_inv n x Hnx) as (y & -> & Hny).
          exists y. split; [reflexivity|]. right. split; [apply notD_rename; exact HnD|]. split.
          * exists d, n. auto.
          * intros z Hyz HzK. apply (Hno (s z)); [apply reach_rename; exact Hyz|]. apply HK. exists z. auto.
      - intros (y & -> & [H|(HnD & (d & n & Hd & Hdn & Hny) & Hno)]).
        + left. apply HD. exists y. auto.
        + right. split; [apply notD_rename; exact HnD|]. split.
          * exists (s d), (s n). split; [apply HD; exists d; auto|]. split; [apply adj_rename; exact Hdn|apply reach_rename; exact Hny].
          * intros z' Hz' Hk'. destruct (reach_rename_inv y z' Hz') as (z & -> & Hyz).
            apply HK in Hk'. destruct Hk' as (k & Hk & E). apply Hinj in E. subst k. exact (Hno z Hyz Hk).
    Qed.
  End Reach.

  Lemma zget_rename_match mapping p : zget (rename_match s mapping) p = option_map s (zget mapping p).
  Proof. induction mapping as [|[k v] l IH]; cbn; [reflexivity|]. destruct (p =? k); [reflexivity|exact IH]. Qed.

  Lemma map_image_rename mapping l : map_image (rename_match s mapping) l = option_map (map s) (map_image mapping l).
  Proof.
    induction l as [|p l IH]; cbn [map_image]; [reflexivity|].
    rewrite zget_rename_match, IH. destruct (zget mapping p); cbn; [|reflexivity]. destruct (map_image mapping l); reflexivity.
  Qed.

  Lemma image_rename mapping l x : In x (image (rename_match s mapping) l) <-> exists y, In y (image mapping l) /\ x = s y.
  Proof.
    unfold image. rewrite map_image_rename. destruct (map_image mapping l) as [vs|]; cbn.
    - rewrite nodup_In, in_map_iff. split.
      + intros (y & <- & Hy). exists y. split; [apply nodup_In; exact Hy|reflexivity].
      + intros (y & Hy & ->). exists y. split; [reflexivity|]. apply nodup_In in Hy. exact Hy.
    - split; [intros []|intros (y & [] & _)].
  Qed.

  Lemma kept_rename mapping l x : In x (kept (rename_match s mapping) l) <-> exists y, In y (kept mapping l) /\ x = s y.
  Proof.
    unfold kept. rewrite zdiff_In. split.
    - intros [Hx Hn]. unfold rename_match in Hx. rewrite map_map in Hx. apply in_map_iff in Hx. destruct Hx as ([k v] & <- & Hkv). cbn [fst snd] in *.
      exists v. split; [|reflexivity]. apply zdiff_In. split; [apply in_map_iff; exists (k, v); split; [reflexivity|exact Hkv]|].
      intros Hi. apply Hn. apply image_rename. exists v. auto.
    - intros (y & Hy & ->). apply zdiff_In in Hy. destruct Hy as [Hy Hn]. split.
      + unfold rename_match. rewrite map_map. apply in_map_iff in Hy. destruct Hy as ([k v] & <- & Hkv).
        apply in_map_iff. exists (k, v). split; [reflexivity|exact Hkv].
      + intros Hi. apply image_rename in Hi. destruct Hi as (z & Hz & E). apply Hinj in E. subst. contradiction.
  Qed.

  (* the set _get_deleted returns for a renumbered structure is the renumbered set: it does not depend on atom numbers *)
  Theorem get_deleted_equivariant : forall g mapping to_del r r',
    sym_graph g = true ->
    (forall p, In p to_del -> exists v, zget mapping p = Some v /\ In v (keys g)) ->
    get_deleted g mapping to_del = Ok r ->
    get_deleted (rename_graph s g) (rename_match s mapping) to_del = Ok r' ->
    forall x, In x r' <-> exists y, In y r /\ x = s y.
  Proof.
    intros g mapping to_del r r' Hs Hm E E'.
    destruct (get_deleted_spec g mapping to_del Hs Hm) as (r1 & E1 & H1). rewrite E in E1. inversion E1; subst r1.
    destruct (get_deleted_spec (rename_graph s g) (rename_match s mapping) to_del (sym_rename g Hs)) as (r2 & E2 & H2).
    { intros p Hp. destruct (Hm p Hp) as (v & Ev & Hv). exists (s v). split; [rewrite zget_rename_match, Ev; reflexivity|].
      rewrite keys_rename_graph. apply in_map. exact Hv. }
    rewrite E' in E2. inversion E2; subst r2.
    intros x. rewrite H2.
    rewrite (deleted_spec_rename g (image mapping to_del) (image (rename_match s mapping) to_del) (image_rename mapping to_del)
               (kept mapping to_del) (kept (rename_match s mapping) to_del) (kept_rename mapping to_del) x).
    split; intros (y & A & B); exists y; [rewrite H1|rewrite <- H1]; tauto.
  Qed.
End Rename.

Example equivariant_example :
  (forall a b : Z, a + 10 = b + 10 -> a = b) /\
  sorted_res (get_deleted (rename_graph (fun x => x + 10) wit2_g) (rename_match (fun x => x + 10) wit2_mapping) wit2_to_del) = Ok [12; 13; 14; 16].
Proof. split; [intros; lia|vm_compute; reflexivity]. Qed.
