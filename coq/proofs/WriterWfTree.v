(* C02, writer_wellformed, part 6: no atom is written twice.
   (1) the table `edges` any DFS builds is a forest with unique parents: children lists are duplicate-free, no node is the
       child of two nodes, the start atom is nobody's child (invariant of dfs_step);
   (2) on such a table the flattening loop (fl_step) never places an atom twice, for any fuel (invariant over the stack:
       placed atoms are pairwise different, a placed atom other than the start has its parent expanded, the tail of the top
       entry is never an expanded node, an expanded tail waits directly under a main-chain entry);
   hence the ring positions of any traversal are duplicate-free and C02_traverse_wf_events holds without side condition. *)
From Coq Require Import ZArith List Bool Lia Permutation.
From Model Require Import PyBase Graph Writer.
From Proofs Require Import WriterProofsClosures WriterWfAtoms WriterWfStream WriterWfDfs WriterWfEvents.
Import ListNotations.
Open Scope Z_scope.

Record Forest (edges : list (Z * list Z)) (root : Z) : Prop := mkForest {
  fo_nodup : forall p, NoDup (zgetl edges p);
  fo_parent : forall p p' c, In c (zgetl edges p) -> In c (zgetl edges p') -> p = p';
  fo_root : forall p, ~ In root (zgetl edges p)
}.

(* ------------------------------------------------------------------------------------------------ (1) the DFS *)
Section DfsTree.
  Variable g : mol.
  Variable key : Z -> Z -> list Z.
  Variable start : Z.

  Record DT (st : dfs_st) : Prop := mkDT {
    dt_forest : Forest (ds_edges st) start;
    dt_vis : forall p c, In c (zgetl (ds_edges st) p) -> zhas (ds_visited st) c = true;
    dt_start : zhas (ds_visited st) start = true
  }.

  Lemma zhas_app {V} (d : list (Z * V)) k v x : zhas d x = true -> zhas (d ++ [(k, v)]) x = true.
  Proof.
    unfold zhas. rewrite zget_app_last. destruct (zget d x); [reflexivity | discriminate].
  Qed.

  Lemma dfs_step_DT st st' : DT st -> dfs_step g key st = Some st' -> DT st'.
  Proof.
    intros I H. unfold dfs_step in H. destruct (ds_stack st) as [|[[parent depth] children] rest]; [discriminate|].
    destruct children as [|child children'].
    - inversion H. subst st'. destruct I. constructor; assumption.
    - destruct (negb (zhas (ds_visited st) child)) eqn:Ev.
      + apply negb_true_iff in Ev. inversion H. subst st'. clear H. destruct I as [[F1 F2 F3] Hv Hs].
        assert (Hnew : forall p, ~ In child (zgetl (ds_edges st) p)).
        { intros p Hin. rewrite (Hv p child Hin) in Ev. discriminate. }
        constructor; cbn [ds_edges ds_visited].
        * constructor.
          -- intros p. rewrite zgetl_zapp. destruct (p =? parent) eqn:Ep; [|apply F1].
             apply NoDup_snoc; [apply F1 | apply Hnew].
          -- intros p p' c Hc Hc'. rewrite zgetl_zapp in Hc, Hc'.
             destruct (p =? parent) eqn:Ep; destruct (p' =? parent) eqn:Ep'.
             ++ apply Z.eqb_eq in Ep. apply Z.eqb_eq in Ep'. congruence.
             ++ apply in_app_or in Hc. destruct Hc as [Hc | [<- | []]].
                ** apply Z.eqb_eq in Ep. subst p. apply (F2 parent p' c Hc Hc').
                ** exfalso. exact (Hnew p' Hc').
             ++ apply in_app_or in Hc'. destruct Hc' as [Hc' | [<- | []]].
                ** apply Z.eqb_eq in Ep'. subst p'. apply (F2 p parent c Hc Hc').
                ** exfalso. exact (Hnew p Hc).
             ++ apply (F2 p p' c Hc Hc').
          -- intros p Hin. rewrite zgetl_zapp in Hin. destruct (p =? parent); [|exact (F3 p Hin)].
             apply in_app_or in Hin. destruct Hin as [Hin | [E | []]]; [exact (F3 parent Hin)|].
             subst child. rewrite Hs in Ev. discriminate.
        * intros p c Hc. rewrite zgetl_zapp in Hc. destruct (p =? parent).
          -- apply in_app_or in Hc. destruct Hc as [Hc | [<- | []]].
             ++ apply zhas_app. apply (Hv parent c Hc).
             ++ unfold zhas. rewrite zget_app_last. destruct (zget (ds_visited st) child); [reflexivity | rewrite Z.eqb_refl; reflexivity].
          -- apply zhas_app. apply (Hv p c Hc).
        * apply zhas_app. exact Hs.
      + destruct (negb (pair_mem (child, parent) (ds_disc st))); inversion H; subst st'; destruct I; constructor; assumption.
  Qed.
End DfsTree.

Theorem traverse_forest : forall g w tb o all st t, traverse g w tb o all st = Ok t ->
  Forest (ds_edges (tr_dfs t)) (tr_start t).
Proof.
  intros g w tb o all st t H. unfold traverse in H.
  destruct (min_by (key_start w tb o all) (ws_atoms st)) as [start|]; [|discriminate].
  match type of H with context [iter_opt ?f ?step ?s0] => destruct (iter_opt f step s0) as [d|] eqn:Ed; [|discriminate] end.
  inversion H. subst t. cbn [tr_dfs tr_start].
  apply (dt_forest start d).
  eapply (iter_opt_inv (DT start) _ (dfs_step_DT g _ start)); [|exact Ed].
  constructor; cbn [ds_edges ds_visited].
  - constructor; [intros p; constructor | intros p p' c [] | intros p []].
  - intros p c [].
  - unfold zhas. cbn [zget]. rewrite Z.eqb_refl. reflexivity.
Qed.

(* ------------------------------------------------------------------------------------------------ (2) the flattening loop *)
Fixpoint atoms_of (smi : list tok) : list Z :=
  match smi with [] => [] | TAtom n :: r => n :: atoms_of r | _ :: r => atoms_of r end.
Fixpoint srcs_of (smi : list tok) : list Z :=
  match smi with [] => [] | TBond p _ :: r => p :: srcs_of r | _ :: r => srcs_of r end.

Lemma atoms_of_app a b : atoms_of (a ++ b) = atoms_of a ++ atoms_of b.
Proof. induction a as [|[n| | |p c] a IH]; cbn [app atoms_of]; rewrite ?IH; reflexivity. Qed.
Lemma srcs_of_app a b : srcs_of (a ++ b) = srcs_of a ++ srcs_of b.
Proof. induction a as [|[n| | |p c] a IH]; cbn [app srcs_of]; rewrite ?IH; reflexivity. Qed.

Definition tail_of (e : fl_entry) : Z := fst (fst e).
Definition clo_of (e : fl_entry) : Z := snd (fst e).
Definition placed (st : list fl_entry) : list Z := flat_map (fun e => atoms_of (snd e)) st.
Definition srcs (st : list fl_entry) : list Z := flat_map (fun e => srcs_of (snd e)) st.

Section Flatten.
  Variable edges : list (Z * list Z).
  Variable root : Z.
  Hypothesis HF : Forest edges root.

  (* entries directly above one another: an expanded tail waits under a main-chain entry *)
  Fixpoint waits (ex : list Z) (st : list fl_entry) : Prop :=
    match st with
    | x :: ((y :: _) as r) => (In (tail_of y) ex -> clo_of x = 0) /\ waits ex r
    | _ => True
    end.

  Record FI (st : list fl_entry) : Prop := mkFI {
    fi_nodup : NoDup (placed st);
    fi_tail : forall e, In e st -> In (tail_of e) (placed st);
    fi_par : forall c, In c (placed st) -> c = root \/ exists p, In c (zgetl edges p) /\ In p (srcs st);
    fi_top : match st with e :: _ => ~ In (tail_of e) (srcs st) | [] => True end;
    fi_wait : waits (srcs st) st;
    fi_tails : NoDup (map tail_of st);
    fi_src : forall n, In n (srcs st) -> In n (placed st)
  }.

  Lemma waits_tl ex x st : waits ex (x :: st) -> waits ex st.
  Proof. destruct st as [|y r]; cbn [waits]; [intros _; exact I | intros [_ H]; exact H]. Qed.

  Lemma waits_cons ex x st :
    (match st with y :: _ => In (tail_of y) ex -> clo_of x = 0 | [] => True end) -> waits ex st -> waits ex (x :: st).
  Proof. destruct st as [|y r]; cbn [waits]; [intros _ _; exact I | intros H1 H2; split; assumption]. Qed.

  Lemma waits_mono ex ex' : forall st, (forall y, In y (tl st) -> In (tail_of y) ex' -> In (tail_of y) ex) -> waits ex st -> waits ex' st.
  Proof.
    induction st as [|x st IH]; intros Hm H; [exact I|]. destruct st as [|y r]; [exact I|].
    cbn [waits] in H |- *. destruct H as [H1 H2]. split.
    - intros Hin. apply H1. apply Hm; [left; reflexivity | exact Hin].
    - apply IH; [|exact H2]. intros z Hz. apply Hm. cbn [tl] in *. right. exact Hz.
  Qed.

  Lemma waits_fst ex : forall st st', map fst st = map fst st' -> waits ex st -> waits ex st'.
  Proof.
    induction st as [|x st IH]; intros [|x' st'] E H; cbn [map] in E; try discriminate; [exact I|].
    injection E as E1 E2. destruct st as [|y r]; destruct st' as [|y' r']; cbn [map] in E2; try discriminate; [exact I|].
    injection E2 as E3 E4. cbn [waits] in *. destruct H as [H1 H2]. split.
    - unfold tail_of, clo_of in *. rewrite <- E1, <- E3. exact H1.
    - apply (IH (y' :: r')); [cbn [map]; rewrite E3, E4; reflexivity | exact H2].
  Qed.

  Lemma map_tail_fst : forall (st st' : list fl_entry), map fst st = map fst st' -> map tail_of st = map tail_of st'.
  Proof.
    induction st as [|x st IH]; intros [|x' st'] H; cbn [map] in *; try discriminate; [reflexivity|].
    injection H as H1 H2. unfold tail_of at 1 3. rewrite H1. f_equal. apply IH. exact H2.
  Qed.

  (* appending to one entry of the stack permutes the placed atoms / bond sources *)
  Lemma placed_upd i add : forall st, (i < List.length st)%nat ->
    Permutation (placed (upd_at i (fun e : fl_entry => (fst e, snd e ++ add)) st)) (atoms_of add ++ placed st) /\
    Permutation (srcs (upd_at i (fun e : fl_entry => (fst e, snd e ++ add)) st)) (srcs_of add ++ srcs st) /\
    map fst (upd_at i (fun e : fl_entry => (fst e, snd e ++ add)) st) = map fst st.
  Proof.
    induction i as [|i IH]; intros [|e st] Hi; cbn [List.length] in Hi; try lia; cbn [upd_at].
    - unfold placed, srcs. cbn [flat_map snd map fst]. rewrite atoms_of_app, srcs_of_app. repeat split.
      + rewrite <- app_assoc. apply Permutation_app_swap_app.
      + rewrite <- app_assoc. apply Permutation_app_swap_app.
    - destruct (IH st ltac:(lia)) as [P1 [P2 P3]]. unfold placed, srcs in *. cbn [flat_map map]. repeat split.
      + eapply Permutation_trans; [apply Permutation_app_head; exact P1|]. apply Permutation_app_swap_app.
      + eapply Permutation_trans; [apply Permutation_app_head; exact P2|]. apply Permutation_app_swap_app.
      + rewrite P3. reflexivity.
  Qed.

  Lemma pop_second_last_atoms smi : second_last_is_open smi = Some true ->
    atoms_of (pop_second_last smi) = atoms_of smi /\ srcs_of (pop_second_last smi) = srcs_of smi.
  Proof.
    unfold second_last_is_open, pop_second_last. destruct (rev smi) as [|a [|x r]] eqn:E; try discriminate.
    destruct x; try discriminate. intros _.
    assert (Hs : smi = rev r ++ [TOpen; a]).
    { rewrite <- (rev_involutive smi), E. cbn [rev]. rewrite <- app_assoc. reflexivity. }
    rewrite Hs. rewrite !atoms_of_app, !srcs_of_app. split; reflexivity.
  Qed.

  Lemma sides_placed tl L : forall l,
    flat_map (fun e : fl_entry => atoms_of (snd e)) (map (fun c => (c, L, [TOpen; TBond tl c; TAtom c])) l) = l.
  Proof. induction l as [|c l IHl]; [reflexivity|]. cbn [map flat_map snd atoms_of app]. rewrite IHl. reflexivity. Qed.

  Definition res_ok (r : list tok) : Prop := NoDup (atoms_of r).

  Lemma fl_step_FI st : FI st ->
    match fl_step edges st with
    | FlCont st' => FI st'
    | FlDone r => res_ok r
    | FlErr _ => True
    end.
  Proof.
    intros I. unfold fl_step. destruct st as [|[[tail closure] smi] rest]; [exact Logic.I|].
    set (T := (tail, closure, smi)) in *. set (old := T :: rest) in *.
    destruct I as [Ind Itail Ipar Itop Iwait Itails Isrc]. cbn [tail_of fst T] in Itop.
    assert (Htail_pl : In tail (placed old)) by (apply (Itail T); left; reflexivity).
    assert (Htail_rest : ~ In tail (map tail_of rest)).
    { unfold old in Itails. cbn [map] in Itails. inversion Itails. assumption. }
    assert (Hpl_old : placed old = atoms_of smi ++ placed rest) by reflexivity.
    assert (Hsr_old : srcs old = srcs_of smi ++ srcs rest) by reflexivity.
    destruct (zget edges tail) as [children|] eqn:Ech.
    - (* the tail has children: they are placed now, for the first time *)
      assert (Hzl : zgetl edges tail = children) by (unfold zgetl; rewrite Ech; reflexivity).
      assert (Hnew : forall c, In c children -> ~ In c (placed old)).
      { intros c Hc Hin. destruct (Ipar c Hin) as [-> | [p [Hp Hs]]].
        - apply (fo_root _ _ HF tail). rewrite Hzl. exact Hc.
        - assert (p = tail) by (apply (fo_parent _ _ HF p tail c Hp); rewrite Hzl; exact Hc). subst p. exact (Itop Hs). }
      assert (Hndc : NoDup children) by (rewrite <- Hzl; apply (fo_nodup _ _ HF)).
      destruct (rev children) as [|last revfront] eqn:Er; [exact Logic.I|].
      assert (Hch : children = rev revfront ++ [last]) by (rewrite <- (rev_involutive children), Er; reflexivity).
      assert (Hnot_src : forall c, In c children -> c <> tail /\ ~ In c (srcs old)).
      { intros c Hc. split; [intros ->; exact (Hnew tail Hc Htail_pl) | intros Hin; exact (Hnew c Hc (Isrc c Hin))]. }
      destruct (1 <? Z.of_nat (List.length children)).
      + (* side chains and main chain *)
        cbv zeta. set (L := Z.of_nat (List.length old)).
        set (front := rev revfront) in *.
        set (sides := map (fun c => (c, L, [TOpen; TBond tail c; TAtom c])) front).
        set (M := (last, 0, [TBond tail last; TAtom last])).
        assert (Hpl : placed (sides ++ M :: old) = (front ++ [last]) ++ placed old).
        { unfold placed. rewrite flat_map_app. cbn [flat_map]. rewrite <- app_assoc. unfold sides. rewrite sides_placed. reflexivity. }
        assert (Hsr : forall n, In n (srcs (sides ++ M :: old)) <-> n = tail \/ In n (srcs old)).
        { intros n. unfold srcs. rewrite flat_map_app, in_app_iff. cbn [flat_map]. rewrite in_app_iff. cbn [snd srcs_of M In]. split.
          - intros [H | [[H | []] | H]]; [|left; symmetry; exact H | right; exact H].
            apply in_flat_map in H. destruct H as [e [He Hn]]. unfold sides in He. apply in_map_iff in He. destruct He as [c [<- _]].
            cbn in Hn. destruct Hn as [Hn | []]. left. symmetry. exact Hn.
          - intros [-> | H]; [right; left; left; reflexivity | right; right; exact H]. }
        assert (Htl : map tail_of (sides ++ M :: old) = (front ++ [last]) ++ map tail_of old).
        { rewrite map_app. cbn [map]. rewrite <- app_assoc. f_equal. unfold sides. rewrite map_map. cbn. apply map_id. }
        rewrite <- Hch in Hpl, Htl.
        assert (Hnosrc' : forall c, In c children -> ~ In c (srcs (sides ++ M :: old))).
        { intros c Hc Hin. apply Hsr in Hin. destruct (Hnot_src c Hc) as [A B]. destruct Hin; contradiction. }
        change (FI (sides ++ M :: old)). constructor.
        * rewrite Hpl. apply NoDup_app_intro; [exact Hndc | exact Ind | intros c H1 H2; exact (Hnew c H1 H2)].
        * intros e He. rewrite Hpl. apply in_or_app. apply in_app_or in He. destruct He as [He | [<- | He]].
          -- left. unfold sides in He. apply in_map_iff in He. destruct He as [c [<- Hc]]. cbn [tail_of fst]. rewrite Hch. apply in_or_app. left. exact Hc.
          -- left. cbn [tail_of fst M]. rewrite Hch. apply in_or_app. right. left. reflexivity.
          -- right. apply Itail. exact He.
        * intros c Hc. rewrite Hpl in Hc. apply in_app_or in Hc. destruct Hc as [Hc | Hc].
          -- right. exists tail. split; [rewrite Hzl; exact Hc | apply Hsr; left; reflexivity].
          -- destruct (Ipar c Hc) as [E | [p [Hp Hs]]]; [left; exact E | right; exists p; split; [exact Hp | apply Hsr; right; exact Hs]].
        * assert (Hhd : exists e r, sides ++ M :: old = e :: r /\ In (tail_of e) children).
          { unfold sides. destruct front as [|c0 l0] eqn:Ef; cbn [map app].
            - exists M, old. split; [reflexivity|]. cbn [tail_of fst M]. rewrite Hch. apply in_or_app. right. left. reflexivity.
            - eexists. eexists. split; [reflexivity|]. cbn [tail_of fst]. rewrite Hch. apply in_or_app. left. left. reflexivity. }
          destruct Hhd as [e [r [E Hin]]]. rewrite E. rewrite <- E. apply Hnosrc'. exact Hin.
        * (* waiting structure *)
          assert (Hold : waits (srcs (sides ++ M :: old)) old).
          { apply (waits_mono (srcs old)); [|exact Iwait]. intros y Hy Hin. apply Hsr in Hin. destruct Hin as [E | Hin]; [|exact Hin].
            exfalso. apply Htail_rest. rewrite <- E. apply in_map. exact Hy. }
          assert (HM : waits (srcs (sides ++ M :: old)) (M :: old)).
          { apply waits_cons; [|exact Hold]. intros _. reflexivity. }
          assert (Hfr : forall c, In c front -> In c children) by (intros c Hc; rewrite Hch; apply in_or_app; left; exact Hc).
          set (ex := srcs (sides ++ M :: old)) in *.
          assert (Hgen : forall l, (forall c, In c l -> In c children) ->
                                   waits ex (map (fun c => (c, L, [TOpen; TBond tail c; TAtom c])) l ++ M :: old)).
          { induction l as [|c l IHl]; intros Hl; [exact HM|].
            cbn [map app]. apply waits_cons; [|apply IHl; intros c' Hc'; apply Hl; right; exact Hc'].
            destruct l as [|c1 l1]; cbn [map app].
            - intros Hin. exfalso. apply (Hnosrc' last); [rewrite Hch; apply in_or_app; right; left; reflexivity | exact Hin].
            - intros Hin. exfalso. apply (Hnosrc' c1); [apply Hl; right; left; reflexivity | exact Hin]. }
          apply Hgen. exact Hfr.
        * rewrite Htl. apply NoDup_app_intro; [exact Hndc | exact Itails |].
          intros c H1 H2. apply in_map_iff in H2. destruct H2 as [e [<- He]]. exact (Hnew _ H1 (Itail e He)).
        * intros n Hn. apply Hsr in Hn. rewrite Hpl. apply in_or_app. right. destruct Hn as [-> | Hn]; [exact Htail_pl | apply Isrc; exact Hn].
      + (* the chain grows by one atom *)
        assert (Hlast : In last children) by (rewrite Hch; apply in_or_app; right; left; reflexivity).
        set (T' := (last, closure, smi ++ [TBond tail last; TAtom last])).
        assert (Hpl : Permutation (placed (T' :: rest)) (last :: placed old)).
        { unfold placed. cbn [flat_map snd T']. rewrite atoms_of_app. cbn [atoms_of]. rewrite <- app_assoc. cbn [app].
          apply Permutation_sym. apply Permutation_middle. }
        assert (Hsr : forall n, In n (srcs (T' :: rest)) <-> n = tail \/ In n (srcs old)).
        { intros n. change (srcs (T' :: rest)) with (srcs_of (smi ++ [TBond tail last; TAtom last]) ++ srcs rest).
          rewrite Hsr_old, srcs_of_app, !in_app_iff. cbn [srcs_of In]. split.
          - intros [[H | [H | []]] | H]; [right; left; exact H | left; symmetry; exact H | right; right; exact H].
          - intros [-> | [H | H]]; [left; right; left; reflexivity | left; left; exact H | right; exact H]. }
        destruct (Hnot_src last Hlast) as [Hlt Hls].
        constructor.
        * apply (Permutation_NoDup (Permutation_sym Hpl)). constructor; [exact (Hnew last Hlast) | exact Ind].
        * intros e [<- | He]; apply (Permutation_in _ (Permutation_sym Hpl)).
          -- left. reflexivity.
          -- right. apply Itail. right. exact He.
        * intros c Hc. apply (Permutation_in _ Hpl) in Hc. destruct Hc as [<- | Hc].
          -- right. exists tail. split; [rewrite Hzl; exact Hlast | apply Hsr; left; reflexivity].
          -- destruct (Ipar c Hc) as [E | [p [Hp Hs]]]; [left; exact E | right; exists p; split; [exact Hp | apply Hsr; right; exact Hs]].
        * cbn [tail_of fst T']. intros Hin. apply Hsr in Hin. destruct Hin; contradiction.
        * assert (Hrest : waits (srcs (T' :: rest)) rest).
          { apply (waits_mono (srcs old)); [|apply (waits_tl _ T); exact Iwait]. intros y Hy Hin. apply Hsr in Hin. destruct Hin as [E | Hin]; [|exact Hin].
            exfalso. apply Htail_rest. rewrite <- E. apply in_map. destruct rest; [destruct Hy | right; exact Hy]. }
          apply waits_cons; [|exact Hrest]. destruct rest as [|y r]; [exact Logic.I|].
          intros Hin. apply Hsr in Hin. destruct Hin as [E | Hin].
          -- exfalso. apply Htail_rest. rewrite <- E. left. reflexivity.
          -- unfold old in Iwait. cbn [waits] in Iwait. destruct Iwait as [H1 _]. apply H1. exact Hin.
        * cbn [map tail_of fst T']. unfold old in Itails. cbn [map] in Itails. inversion Itails as [|? ? _ Hr]. constructor; [|exact Hr].
          intros Hin. apply in_map_iff in Hin. destruct Hin as [e [E He]]. apply (Hnew last Hlast). rewrite <- E. apply Itail. right. exact He.
        * intros n Hn. apply Hsr in Hn. apply (Permutation_in _ (Permutation_sym Hpl)). right. destruct Hn as [-> | Hn]; [exact Htail_pl | apply Isrc; exact Hn].
    - destruct (negb (closure =? 0)) eqn:Ecl.
      + (* end of a side chain: its tokens move to the entry that opened it *)
        apply negb_true_iff in Ecl. apply Z.eqb_neq in Ecl.
        destruct (second_last_is_open smi) as [b|] eqn:Eb; [|exact Logic.I].
        set (smi' := if b then pop_second_last smi else smi ++ [TClose]).
        assert (Hsmi' : atoms_of smi' = atoms_of smi /\ srcs_of smi' = srcs_of smi).
        { unfold smi'. destruct b; [apply pop_second_last_atoms; exact Eb|]. rewrite atoms_of_app, srcs_of_app. cbn. rewrite !app_nil_r. split; reflexivity. }
        destruct Hsmi' as [Ha' Hs'].
        destruct (closure - 1 <? Z.of_nat (List.length rest)); [|exact Logic.I].
        destruct (Nat.eq_dec (List.length rest) 0) as [Hz | Hnz].
        { apply length_zero_iff_nil in Hz. rewrite Hz.
          assert (Hn : forall i, upd_at i (fun e : fl_entry => (fst e, snd e ++ smi')) [] = []) by (intros [|i]; reflexivity).
          rewrite Hn. constructor; cbn; try constructor; try tauto; intros; contradiction. }
        set (idx := (List.length rest - 1 - Z.to_nat (closure - 1))%nat).
        assert (Hidx : (idx < List.length rest)%nat) by (unfold idx; lia).
        destruct (placed_upd idx smi' rest Hidx) as [P1 [P2 P3]]. rewrite Ha' in P1. rewrite Hs' in P2.
        rewrite <- Hpl_old in P1. rewrite <- Hsr_old in P2.
        set (new := upd_at idx (fun e : fl_entry => (fst e, snd e ++ smi')) rest) in *.
        pose proof (map_tail_fst _ _ P3) as P4.
        constructor.
        * apply (Permutation_NoDup (Permutation_sym P1)). exact Ind.
        * intros e He. apply (Permutation_in _ (Permutation_sym P1)).
          assert (Hin : In (tail_of e) (map tail_of rest)) by (rewrite <- P4; apply in_map; exact He).
          apply in_map_iff in Hin. destruct Hin as [e0 [<- He0]]. apply Itail. right. exact He0.
        * intros c Hc. apply (Permutation_in _ P1) in Hc. destruct (Ipar c Hc) as [E | [p [Hp Hs]]]; [left; exact E|].
          right. exists p. split; [exact Hp | apply (Permutation_in _ (Permutation_sym P2)); exact Hs].
        * change (match new with e :: _ => ~ In (tail_of e) (srcs new) | [] => True end).
          destruct new as [|e n'] eqn:En; [exact Logic.I|]. intros Hin. apply (Permutation_in _ P2) in Hin.
          destruct rest as [|y r]; [cbn [map] in P4; discriminate P4|].
          cbn [map] in P4. injection P4 as E1 _. rewrite E1 in Hin.
          unfold old in Iwait. cbn [waits] in Iwait. destruct Iwait as [H1 _]. apply Ecl. apply (H1 Hin).
        * apply (waits_fst _ rest new (eq_sym P3)). apply (waits_mono (srcs old)); [|apply (waits_tl _ T); exact Iwait].
          intros z _ Hin. apply (Permutation_in _ P2). exact Hin.
        * change (NoDup (map tail_of new)). rewrite P4. unfold old in Itails. cbn [map] in Itails. inversion Itails. assumption.
        * intros n Hn. apply (Permutation_in _ (Permutation_sym P1)). apply Isrc. apply (Permutation_in _ P2). exact Hn.
      + (* end of a main chain: merge into the entry below *)
        clear Hpl_old Hsr_old. unfold old in *. clear old.
        destruct rest as [|[[t1 c1] s1] rest'].
        { unfold res_ok. unfold placed in Ind. cbn [flat_map snd T] in Ind. rewrite app_nil_r in Ind. exact Ind. }
        destruct rest' as [|z r'].
        { unfold res_ok. rewrite atoms_of_app. unfold placed in Ind. cbn [flat_map snd T] in Ind. rewrite app_nil_r in Ind.
          apply (Permutation_NoDup (Permutation_app_comm _ _) Ind). }
        set (rest' := z :: r') in *.
        set (X := (t1, c1, s1)) in *. set (N := (tail, c1, s1 ++ smi)).
        set (old := T :: X :: rest') in *.
        assert (P1 : Permutation (placed (N :: rest')) (placed old)).
        { unfold placed, old, T. cbn [flat_map snd N X]. rewrite atoms_of_app. rewrite <- !app_assoc.
          rewrite app_assoc. rewrite (app_assoc (atoms_of smi)). apply Permutation_app_tail. apply Permutation_app_comm. }
        assert (P2 : Permutation (srcs (N :: rest')) (srcs old)).
        { unfold srcs, old, T. cbn [flat_map snd N X]. rewrite srcs_of_app. rewrite <- !app_assoc.
          rewrite app_assoc. rewrite (app_assoc (srcs_of smi)). apply Permutation_app_tail. apply Permutation_app_comm. }
        change (FI (N :: rest')). constructor.
        * apply (Permutation_NoDup (Permutation_sym P1)). exact Ind.
        * intros e [<- | He]; apply (Permutation_in _ (Permutation_sym P1)).
          -- exact Htail_pl.
          -- apply Itail. right. right. exact He.
        * intros c Hc. apply (Permutation_in _ P1) in Hc. destruct (Ipar c Hc) as [E | [p [Hp Hs]]]; [left; exact E|].
          right. exists p. split; [exact Hp | apply (Permutation_in _ (Permutation_sym P2)); exact Hs].
        * cbn [tail_of fst N]. intros Hin. apply Itop. apply (Permutation_in _ P2). exact Hin.
        * pose proof (waits_tl _ _ _ Iwait) as W1.
          assert (W2 : waits (srcs (N :: rest')) rest').
          { apply (waits_mono (srcs old)); [|apply (waits_tl _ X); exact W1]. intros y _ Hin. apply (Permutation_in _ P2). exact Hin. }
          apply waits_cons; [|exact W2]. unfold rest'. intros Hin. apply (Permutation_in _ P2) in Hin.
          unfold rest' in W1. cbn [waits] in W1. destruct W1 as [H1 _]. cbn [clo_of fst snd N]. apply (H1 Hin).
        * cbn [map] in Itails. cbn [map tail_of fst N].
          inversion Itails as [|? ? Hn1 Hr1]. subst. inversion Hr1 as [|? ? _ Hr2]. subst. constructor; [|exact Hr2].
          intros Hin. apply Hn1. right. exact Hin.
        * intros n Hn. apply (Permutation_in _ (Permutation_sym P1)). apply Isrc. apply (Permutation_in _ P2). exact Hn.
  Qed.

  Lemma fl_run_FI : forall fuel st r, FI st -> fl_run fuel edges st = Ok r -> res_ok r.
  Proof.
    induction fuel as [|fuel IH]; intros st r Hst H; cbn [fl_run] in H; [discriminate|].
    pose proof (fl_step_FI st Hst) as Hs. destruct (fl_step edges st) as [st'|r'|e].
    - apply (IH st' r Hs H).
    - inversion H. subst. exact Hs.
    - discriminate.
  Qed.
End Flatten.

(* ------------------------------------------------------------------------------------------------ any traversal *)
Theorem flatten_nodup : forall g w tb o all st t smi, traverse g w tb o all st = Ok t -> flatten g t = Ok smi ->
  NoDup (atoms_of smi).
Proof.
  intros g w tb o all st t smi Ht Hf. pose proof (traverse_forest _ _ _ _ _ _ _ Ht) as HF. unfold flatten in Hf.
  apply (fl_run_FI _ _ HF _ _ _) in Hf; [exact Hf|].
  constructor; cbn.
  - constructor; [intros [] | constructor].
  - intros e [<- | []]. left. reflexivity.
  - intros c [<- | []]. left. reflexivity.
  - intros [].
  - exact I.
  - constructor; [intros [] | constructor].
  - intros n [].
Qed.

Lemma ring_positions_sub tokens : forall smi i, exists l, map fst (ring_positions tokens smi i) = l /\
  (forall x, In x l -> In x (atoms_of smi)) /\ (NoDup (atoms_of smi) -> NoDup l).
Proof.
  induction smi as [|t smi IH]; intros i; cbn [ring_positions atoms_of].
  - exists []. repeat split; [intros x [] | intros _; constructor].
  - destruct t as [n| | |a b]; try (apply IH).
    destruct (IH (i + 1)) as [l [E [Hs Hn]]]. destruct (zhas tokens n).
    + exists (n :: l). cbn [map fst]. rewrite E. repeat split.
      * intros x [<- | Hx]; [left; reflexivity | right; apply Hs; exact Hx].
      * intros Hnd. inversion Hnd as [|? ? Hx Hnd']. subst. constructor; [intros Hin; apply Hx; apply Hs; exact Hin | apply Hn; exact Hnd'].
    + exists l. repeat split; [exact E | intros x Hx; right; apply Hs; exact Hx | intros Hnd; inversion Hnd; apply Hn; assumption].
Qed.

(* the closure lists of ANY traversal of a well-formed molecule satisfy wf_events: no side condition left *)
Theorem traverse_wf_events_full : forall g w tb o all st t smi open seen, loop_free g -> adj_sym g ->
  traverse g w tb o all st = Ok t -> flatten g t = Ok smi ->
  (forall c, In c open -> In c seen) -> (forall c, In c seen -> c <= ws_cycle st) ->
  let tokens := ds_tokens (tr_dfs t) in
  let ro := ring_positions tokens smi 0 in
  wf_events open seen (map (fun a => map snd (atom_closures tokens ro (fst a))) ro).
Proof.
  intros g w tb o all st t smi open seen Hl Hs Ht Hf Hos Hseen tokens ro.
  apply (traverse_wf_events g w tb o all st t Hl Hs Ht smi open seen); [|exact Hos|exact Hseen].
  destruct (ring_positions_sub (ds_tokens (tr_dfs t)) smi 0) as [l [E [_ Hn]]].
  change (NoDup (map fst (ring_positions (ds_tokens (tr_dfs t)) smi 0))). rewrite E.
  apply Hn. apply (flatten_nodup g w tb o all st t smi Ht Hf).
Qed.
