(* C08 -- denotation of multi-component SMARTS texts  tree ( "." tree )*  with the atoms and bonds of Proofs.SmartsTreeText. *)
From Coq Require Import ZArith List String Ascii Bool Lia.
From Gen Require Import Elements TokenTables SmartsTables.
From Model Require Import PyBase Graph PeriodicTable Tokenize Smarts Query SmartsFull.
From Model Require Parser.
From Proofs Require Import QueryProofs SmartsProofs SmartsDenote SmartsDenoteText SmartsTree SmartsTreeText SmartsDots.
Import ListNotations.
Open Scope Z_scope.

Lemma dot_loop st rest : aft st ->
  tok_loop tok_step st ("."%char :: rest) = tok_loop tok_step (mkT (Some 4) PdNone ((4, PNone) :: flushed st)) rest.
Proof. intros Hs. destruct st as [ty pd toks]. cases_st Hs; reflexivity. Qed.

Fixpoint text_comps (ts : list ttree) : list ascii :=
  match ts with [] => [] | t :: r => ("."%char :: text_tree t ++ text_comps r)%list end.
Fixpoint raw_comps (ts : list ttree) : list token :=
  match ts with [] => [] | t :: r => ((4, PNone) :: raw_tree t ++ raw_comps r)%list end.

Lemma comps_text_loop ts : forall st rest, aft st -> Forall tok_ok_tree ts ->
  exists st', aft st' /\ flushed st' = (rev (raw_comps ts) ++ flushed st)%list /\
              tok_loop tok_step st (text_comps ts ++ rest) = tok_loop tok_step st' rest.
Proof.
  induction ts as [|t r IH]; intros st rest Hs Hok.
  - exists st. split; [exact Hs|]. split; reflexivity.
  - inversion Hok as [|? ? Ht Hr]; subst. cbn [text_comps raw_comps app]. rewrite (dot_loop st _ Hs). rewrite <- app_assoc.
    destruct (proj1 text_loop t (mkT (Some 4) PdNone ((4, PNone) :: flushed st)) (text_comps r ++ rest)
                ltac:(right; split; [reflexivity | cbn; tauto]) Ht) as [s1 [A1 [F1 E1]]]. rewrite E1.
    destruct (IH s1 rest A1 Hr) as [s2 [A2 [F2 E2]]]. exists s2. split; [exact A2|]. split; [|exact E2].
    rewrite F2, F1. cbn [flushed truthy t_pend t_toks rev]. rewrite !rev_app_distr. rewrite <- !app_assoc. reflexivity.
Qed.

Definition text_pattern (t : ttree) (ts : list ttree) : list ascii := (text_tree t ++ text_comps ts)%list.

Lemma tokenize_pattern t ts : tok_ok_tree t -> Forall tok_ok_tree ts ->
  tokenize_raw (string_of_list_ascii (text_pattern t ts)) = Ok (raw_tree t ++ raw_comps ts)%list.
Proof.
  intros Hok Hts. unfold tokenize_raw, tokenize_raw_with, text_pattern. rewrite list_ascii_of_string_of_list_ascii.
  destruct (proj1 text_loop t t_init (text_comps ts) ltac:(right; split; [reflexivity | cbn; tauto]) Hok) as [s1 [A1 [F1 E1]]]. rewrite E1.
  destruct (comps_text_loop ts s1 [] A1 Hts) as [st [A [F E]]]. rewrite <- (app_nil_r (text_comps ts)), E. cbn [tok_loop].
  cbn [flushed truthy t_init t_pend t_toks] in F1. rewrite app_nil_r in F1.
  unfold tok_finish.
  assert (T : tt_is st 5 = false /\ tt_is st 7 = false /\ tt_is st 11 = false /\ tt_is st 12 = false).
  { destruct st as [ty pd toks]. unfold aft, pendCB in A. cbn [t_type t_pend In] in A.
    repeat match goal with H : _ \/ _ |- _ => destruct H | H : _ /\ _ |- _ => destruct H | H : False |- _ => destruct H end; subst;
      repeat split; reflexivity. }
  destruct T as [-> [-> [-> ->]]]. rewrite F, F1, rev_app_distr, !rev_involutive. reflexivity.
Qed.

Lemma split_comps ts : Forall tok_ok_tree ts ->
  split_tokens (raw_comps ts) = Ok (tok_comps (map to_tree ts), atoms_comps (map to_tree ts)).
Proof.
  induction ts as [|t r IH]; intros H; [reflexivity|]. inversion H as [|? ? Ht Hr]; subst. cbn [raw_comps map tok_comps atoms_comps].
  pose proof (proj1 split_tree t (raw_comps r) _ _ Ht (IH Hr)) as S.
  etransitivity; [exact (split_step (4, PNone) _ _ _ (STok (4, PNone)) eq_refl S)|]. reflexivity.
Qed.

Theorem pattern_text_denotation t ts qs :
  tok_ok_tree t -> Forall tok_ok_tree ts ->
  Forall2 (fun p q => build_atom p = Ok q) (atoms_pattern (to_tree t) (map to_tree ts)) qs ->
  NoDup (explicit_maps (atoms_pattern (to_tree t) (map to_tree ts))) ->
  Forall payload_valid (bonds_pattern (to_tree t) (map to_tree ts)) ->
  smarts_full (string_of_list_ascii (text_pattern t ts)) =
  Ok (map (fun pq => atom_result (fst pq) (snd pq)) (combine (atoms_pattern (to_tree t) (map to_tree ts)) qs),
      map to_sbond (bonds_pattern (to_tree t) (map to_tree ts))).
Proof.
  intros Hok Hts Hat Hnd Hv. unfold smarts_full.
  assert (Es : String.eqb (string_of_list_ascii (text_pattern t ts)) "" = false).
  { destruct t as [[body|u] p f]; [reflexivity | destruct u; reflexivity]. }
  rewrite Es, (tokenize_pattern t ts Hok Hts).
  pose proof (proj1 split_tree t (raw_comps ts) _ _ Hok (split_comps ts Hts)) as S. rewrite S.
  apply pattern_denotation; try assumption.
  - apply (proj1 to_tree_ok); exact Hok.
  - apply Forall_map. eapply Forall_impl; [|exact Hts]. intros x Hx. apply (proj1 to_tree_ok); exact Hx.
Qed.

(* non-vacuity: two components *)
Theorem pattern_text_example :
  let t1 := TNode (TBr (s2l "C;D2")) (qp "C;D2") (TNext (BCore (CSym Bdouble) None) (TNode (TSym UO) (simple_query "O") TNil)) in
  let t2 := TNode (TSym UN) (simple_query "N") (TBranch BNone (TNode (TSym UC) (simple_query "C") TNil) (TNext (BCore (CNot Bsingle) None) (TNode (TSym UCl) (simple_query "Cl") TNil))) in
  tok_ok_tree t1 /\ tok_ok_tree t2 /\ string_of_list_ascii (text_pattern t1 [t2]) = "[C;D2]=O.N(C)!-Cl"%string /\
  smarts_full "[C;D2]=O.N(C)!-Cl" =
  Ok ([(QElem 6 None (mkQX 0 false [2] [] [] [] [] false), None); (QElem 8 None (mkQX 0 false [] [] [] [] [] false), None);
       (QElem 7 None (mkQX 0 false [] [] [] [] [] false), None); (QElem 6 None (mkQX 0 false [] [] [] [] [] false), None);
       (QElem 17 None (mkQX 0 false [] [] [] [] [] false), None)],
      [mkSB 1 0 (mkQB [2] None) None; mkSB 3 2 (mkQB [1] None) None; mkSB 4 2 (mkQB [2; 3; 4] None) None]).
Proof.
  cbv zeta. split; [|split; [|split; vm_compute; reflexivity]].
  - cbn. repeat split; try exact I; try reflexivity; try discriminate; vm_compute; reflexivity.
  - cbn. repeat split; try exact I; reflexivity.
Qed.
