(* C01, extension: the atom / bond token functions of the writer model WITH stereo marks are equivariant under renumberings
   that keep the insertion orders (remap()): the stereo registries, the neighbour table `visited` and the cis/trans map are
   renamed, the sign translations (Model.Stereo) see the same positions.  This discharges the two formatter hypotheses of
   WriterInvProofs.smiles_text_ren: `smiles_invariant_discrete` holds for strings with stereo marks (renumberings that keep
   the insertion orders, injective weights, any tie-break priorities).

   s is injective on Z and fixes 0 (`__ct_map` tests an atom number for truthiness: `elif x := ct_map.get(k)`; atom numbers of
   molecules are positive, so every renumbering of a molecule extends to such a map). *)
From Coq Require Import ZArith List String Bool Lia Permutation.
From Model Require Import PyBase PyHash Graph Morgan Stereo Writer.
From Proofs Require Import MorganProofs WriterInvProofs.
Import ListNotations.
Open Scope Z_scope.

Definition ren_env (s : Z -> Z) (e : env4) : env4 :=
  let '(n0, n1, n2, n3) := e in (s n0, s n1, option_map s n2, option_map s n3).
Definition ren_pairv (s : Z -> Z) (p : Z * Z) : Z * Z := (s (fst p), s (snd p)).
(* the stereo registries of the renumbered molecule (dict comprehensions over the same atoms in the same order) *)
Definition ren_tabs (s : Z -> Z) (t : stabs) : stabs :=
  mkStabs (map (fun kv => (s (fst kv), map s (snd kv))) (t_tetra t))
          (map (fun kv => (s (fst kv), ren_env s (snd kv))) (t_allenes t))
          (map (fun kv => (s (fst kv), ren_pairv s (snd kv))) (t_allene_term t))
          (map (fun kv => (ren_pairv s (fst kv), ren_env s (snd kv))) (t_sct t))
          (map (fun kv => (s (fst kv), ren_pairv s (snd kv))) (t_ctc t))
          (map (fun kv => (s (fst kv), ren_pairv s (snd kv))) (t_ctt t))
          (map (fun kv => (s (fst kv), s (snd kv))) (t_ctcp t)).
Definition ren_pm (s : Z -> Z) (pm : list ((Z * Z) * bool)) : list ((Z * Z) * bool) :=
  map (fun kv => (ren_pairv s (fst kv), snd kv)) pm.
Definition ren_ct (s : Z -> Z) (st : ctst) : ctst :=
  mkCt (ren_pm s (ct_pm st)) (map (fun kv => (s (fst kv), s (snd kv))) (ct_im st)) (map s (ct_si st)) (ren_pairs s (ct_sp st)).
Definition ren_ctres (s : Z -> Z) (r : pyres ctst) : pyres ctst := match r with Ok st => Ok (ren_ct s st) | Err e => Err e end.
Definition ren_pmres (s : Z -> Z) (r : pyres (list ((Z * Z) * bool))) : pyres (list ((Z * Z) * bool)) :=
  match r with Ok pm => Ok (ren_pm s pm) | Err e => Err e end.

Section StereoRen.
  Variable s : Z -> Z.
  Hypothesis s_inj : forall x y, s x = s y -> x = y.

  Let sq := seqb s s_inj.

  (* ---- generic lookups ---- *)
  Lemma find_map (P P' : Z -> bool) l : (forall x, P' (s x) = P x) -> find P' (map s l) = option_map s (find P l).
  Proof. intros H. induction l as [|x l IH]; cbn; [reflexivity|]. rewrite H. destruct (P x); [reflexivity | exact IH]. Qed.

  Lemma index_from_ren o x : forall i, index_from (s x) (map s o) i = index_from x o i.
  Proof. induction o as [|y o IH]; intros i; cbn; [reflexivity|]. rewrite sq. destruct (x =? y); [reflexivity | apply IH]. Qed.
  Lemma index_of_ren o x : index_of (map s o) (s x) = index_of o x.
  Proof. apply index_from_ren. Qed.

  Lemma pair_eqb_ren a b : pair_eqbZ (ren_pairv s a) (ren_pairv s b) = pair_eqbZ a b.
  Proof. unfold pair_eqbZ, ren_pairv. cbn [fst snd]. rewrite !sq. reflexivity. Qed.

  Lemma pget_ren {V W} (f : V -> W) (d : list ((Z * Z) * V)) k :
    pget (map (fun kv => (ren_pairv s (fst kv), f (snd kv))) d) (ren_pairv s k) = option_map f (pget d k).
  Proof.
    induction d as [|[k' v] d IH]; cbn [map pget fst snd]; [reflexivity|]. rewrite pair_eqb_ren.
    destruct (pair_eqbZ k k'); [reflexivity | exact IH].
  Qed.

  Lemma pset_ren (d : list ((Z * Z) * bool)) k v : pset (ren_pm s d) (ren_pairv s k) v = ren_pm s (pset d k v).
  Proof.
    unfold ren_pm. induction d as [|[k' v'] d IH]; cbn [map pset fst snd]; [reflexivity|]. rewrite pair_eqb_ren.
    destruct (pair_eqbZ k k'); cbn [map fst snd]; [reflexivity | rewrite IH; reflexivity].
  Qed.

  Lemma zset_ren_val (d : list (Z * Z)) k v :
    zset (map (fun kv => (s (fst kv), s (snd kv))) d) (s k) (s v) = map (fun kv => (s (fst kv), s (snd kv))) (zset d k v).
  Proof.
    induction d as [|[k' v'] d IH]; cbn; [reflexivity|]. rewrite sq. destruct (k =? k'); cbn; [reflexivity | rewrite IH; reflexivity].
  Qed.

  Lemma zmem_renG x l : zmem (s x) (map s l) = zmem x l.
  Proof. unfold zmem. induction l as [|y l IH]; cbn; [reflexivity|]. rewrite sq, IH. reflexivity. Qed.

  (* ---- sign translation: the same positions ---- *)
  Section Translate.
    Variable isH isH' : Z -> bool.
    Hypothesis HisH : forall x, isH' (s x) = isH x.

    Lemma translate_th_ren order env sg : translate_th isH' (map s order) (map s env) sg = translate_th isH order env sg.
    Proof.
      unfold translate_th. rewrite !map_length, (find_map isH isH' env HisH).
      assert (forall o, map (index_of (map s o)) (firstn 3 (map s env)) = map (index_of o) (firstn 3 env)) as Hidx.
      { intros o. rewrite firstn_map, map_map. apply map_ext. intros x. apply index_of_ren. }
      destruct (Z.of_nat (List.length order) =? 3).
      - destruct (Z.of_nat (List.length env) =? 4).
        + destruct (find isH env) as [hh|]; cbn [option_map]; [|reflexivity].
          change (map s order ++ [s hh]) with (map s order ++ map s [hh]). rewrite <- map_app, Hidx. reflexivity.
        + destruct (Z.of_nat (List.length env) =? 3); [rewrite Hidx; reflexivity | reflexivity].
      - destruct ((Z.of_nat (List.length env) =? 3) || (Z.of_nat (List.length env) =? 4)); [rewrite Hidx; reflexivity | reflexivity].
    Qed.

    Lemma opt_is_ren o x : opt_is (option_map s o) (s x) isH' = opt_is o x isH.
    Proof. destruct o as [y|]; cbn; [apply sq | apply HisH]. Qed.

    Lemma translate_env_ren e nn nm sg : translate_env isH' (ren_env s e) (s nn) (s nm) sg = translate_env isH e nn nm sg.
    Proof.
      destruct e as [[[n0 n1] n2] n3]. unfold translate_env, ren_env. rewrite !sq, !opt_is_ren. reflexivity.
    Qed.

    Lemma translate_ct_ren e1 e2 nn nm sg :
      translate_ct isH' (option_map (ren_env s) e1) (option_map (ren_env s) e2) (s nn) (s nm) sg = translate_ct isH e1 e2 nn nm sg.
    Proof.
      unfold translate_ct. destruct e1 as [e|]; cbn [option_map]; [apply translate_env_ren|].
      destruct e2 as [e|]; cbn [option_map]; [apply translate_env_ren | reflexivity].
    Qed.
  End Translate.

  Lemma in_env_ren x e : in_env (s x) (ren_env s e) = in_env x e.
  Proof.
    destruct e as [[[n0 n1] n2] n3]. unfold in_env, ren_env. rewrite !sq.
    destruct n2, n3; cbn [option_map]; rewrite ?sq; reflexivity.
  Qed.

  Variable g : mol.
  Variable o : opts.
  Variable tabs : stabs.
  Let g' := ren_mol s g.
  Let tabs' := ren_tabs s tabs.

  Lemma is_H_ren x : is_H g' (s x) = is_H g x.
  Proof. unfold is_H, g'. rewrite (atom_of_renG g s s_inj). reflexivity. Qed.

  (* ---- _format_atom ---- *)
  Lemma first_key_ren adj x : match first_key (ren_vis s adj) with Some k => k =? s x | None => false end =
                              match first_key adj with Some k => k =? x | None => false end.
  Proof. destruct adj as [|[k v] adj]; cbn; [reflexivity | apply sq]. Qed.

  Lemma stereo_mark_ren n adj a : stereo_mark g' o tabs' (s n) (ren_vis s adj) a = stereo_mark g o tabs n adj a.
  Proof.
    unfold stereo_mark. destruct (a_stereo a) as [sg|]; [|reflexivity]. destruct (negb (o_stereo o)); [reflexivity|].
    unfold tabs', ren_tabs. cbn [t_allene_term t_allenes t_tetra].
    rewrite (zget_renG s s_inj (ren_pairv s)). destruct (zget (t_allene_term tabs) n) as [[t1 t2]|]; cbn [option_map ren_pairv fst snd].
    - rewrite (zget_renG s s_inj (ren_env s)). destruct (zget (t_allenes tabs) n) as [env|]; cbn [option_map]; [|reflexivity].
      unfold ren_vis. rewrite !(zget_renG s s_inj (map s)).
      destruct (zget adj t1) as [l1|]; cbn [option_map]; [|reflexivity].
      destruct (zget adj t2) as [l2|]; cbn [option_map]; [|reflexivity].
      rewrite !(find_map (fun x => in_env x env || is_H g x) (fun x => in_env x (ren_env s env) || is_H g' x))
        by (intros x; rewrite in_env_ren, is_H_ren; reflexivity).
      destruct (find _ l1) as [n1|]; cbn [option_map]; [|reflexivity].
      destruct (find _ l2) as [n2|]; cbn [option_map]; [|reflexivity].
      unfold translate_al. rewrite (translate_env_ren (is_H g) (is_H g') is_H_ren). reflexivity.
    - unfold ren_vis. rewrite !(zget_renG s s_inj (map s)).
      destruct (zget adj n) as [env|]; cbn [option_map]; [|reflexivity].
      destruct (zget (t_tetra tabs) n) as [order|]; cbn [option_map]; [|reflexivity].
      rewrite (translate_th_ren (is_H g) (is_H g') is_H_ren). fold (ren_vis s adj). rewrite first_key_ren. reflexivity.
  Qed.

  Theorem format_atom_ren n adj : o_mapping o = false ->
    format_atom g' o tabs' (s n) (ren_vis s adj) = format_atom g o tabs n adj.
  Proof.
    intros Hmp. unfold format_atom, atom_fields, g'. rewrite (atom_of_renG g s s_inj). destruct (atom_of g n) as [a|]; [|reflexivity].
    destruct (symbol_of_num (a_num a)) as [sym|]; [|reflexivity].
    fold g'. rewrite stereo_mark_ren, Hmp. unfold g'. rewrite (hybridization_renG g s s_inj), (no_plain_renG g s s_inj). reflexivity.
  Qed.
  (* ---- __ct_map ---- *)
  Hypothesis s_zero : s 0 = 0.
  Lemma s_is_zero x : (s x =? 0) = (x =? 0).
  Proof. rewrite <- s_zero at 1. apply sq. Qed.

  Lemma stereo_bond_atoms_renG : stereo_bond_atoms g' = map s (stereo_bond_atoms g).
  Proof. apply stereo_bond_atoms_ren. Qed.

  Lemma ct_note_ren st v k : ct_note tabs' (ren_ct s st) (s v) (s k) = ren_ct s (ct_note tabs st v k).
  Proof.
    unfold ct_note, tabs', ren_tabs. cbn [t_ctc]. rewrite (zget_renG s s_inj (ren_pairv s)).
    destruct (zget (t_ctc tabs) v) as [y|]; cbn [option_map]; [|reflexivity].
    unfold ren_ct. cbn [ct_pm ct_im ct_si ct_sp]. rewrite zset_ren_val. reflexivity.
  Qed.

  Lemma centre_stereo_ren k : centre_stereo g' tabs' (s k) = centre_stereo g tabs k.
  Proof.
    unfold centre_stereo, tabs', ren_tabs. cbn [t_ctc]. rewrite (zget_renG s s_inj (ren_pairv s)).
    destruct (zget (t_ctc tabs) k) as [[i j]|]; cbn [option_map ren_pairv fst snd]; [|reflexivity].
    unfold g'. rewrite (bond_of_renG g s s_inj). reflexivity.
  Qed.

  Lemma ct_pm_ren st : ct_pm (ren_ct s st) = ren_pm s (ct_pm st). Proof. reflexivity. Qed.
  Lemma ct_im_ren st : ct_im (ren_ct s st) = map (fun kv => (s (fst kv), s (snd kv))) (ct_im st). Proof. reflexivity. Qed.
  Lemma ct_si_ren st : ct_si (ren_ct s st) = map s (ct_si st). Proof. reflexivity. Qed.
  Lemma ct_sp_ren st : ct_sp (ren_ct s st) = ren_pairs s (ct_sp st). Proof. reflexivity. Qed.
  Lemma pget_pm_ren pm a b : pget (ren_pm s pm) (s a, s b) = pget pm (a, b).
  Proof. change (s a, s b) with (ren_pairv s (a, b)). unfold ren_pm. rewrite (pget_ren (fun x : bool => x)). destruct (pget pm (a, b)); reflexivity. Qed.
  Lemma pset_pm_ren pm a b v : pset (ren_pm s pm) (s a, s b) v = ren_pm s (pset pm (a, b) v).
  Proof. change (s a, s b) with (ren_pairv s (a, b)). apply pset_ren. Qed.
  Lemma pget_sct_ren a b : pget (t_sct tabs') (s a, s b) = option_map (ren_env s) (pget (t_sct tabs) (a, b)).
  Proof. change (s a, s b) with (ren_pairv s (a, b)). unfold tabs', ren_tabs. cbn [t_sct]. apply (pget_ren (ren_env s)). Qed.
  Lemma mkCt_ren pm im si sp :
    mkCt (ren_pm s pm) (map (fun kv => (s (fst kv), s (snd kv))) im) (map s si) (ren_pairs s sp) = ren_ct s (mkCt pm im si sp).
  Proof. reflexivity. Qed.

  (* the common tail: the entry reached through the counterpart of the double bond *)
  Lemma ct_inner_ren k cs env acc v :
    ct_inner g' tabs' (s k) (ren_pairv s cs) (ren_env s env) (ren_ctres s acc) (s v) = ren_ctres s (ct_inner g tabs k cs env acc v).
  Proof.
    unfold ct_inner. destruct acc as [st|e]; cbn [ren_ctres]; [|reflexivity].
    rewrite in_env_ren. destruct (in_env v env); cbn [negb]; [|reflexivity].
    rewrite !ct_pm_ren, !ct_im_ren, !ct_si_ren, !ct_sp_ren, pget_pm_ren.
    destruct (pget (ct_pm st) (k, v)) as [b0|]; [reflexivity|].
    rewrite (zget_renG s s_inj s).
    assert (match option_map s (zget (ct_im st) k) with Some x => if x =? 0 then None else Some x | None => None end =
            option_map s (match zget (ct_im st) k with Some x => if x =? 0 then None else Some x | None => None end)) as ->.
    { destruct (zget (ct_im st) k) as [x|]; cbn [option_map]; [|reflexivity]. rewrite s_is_zero. destruct (x =? 0); reflexivity. }
    destruct (match zget (ct_im st) k with Some x => if x =? 0 then None else Some x | None => None end) as [x|]; cbn [option_map].
    - rewrite pget_pm_ren. destruct (pget (ct_pm st) (k, x)) as [sg|]; [|reflexivity]. cbn [ren_ctres]. f_equal.
      rewrite !pset_pm_ren, mkCt_ren. apply ct_note_ren.
    - destruct cs as [c1 c2]. change (ren_pairv s (c1, c2)) with (s c1, s c2). rewrite (pair_mem_renG s s_inj). destruct (pair_mem (c1, c2) (ct_sp st)).
      + unfold tabs' at 1, ren_tabs. cbn [t_ctcp]. rewrite (zget_renG s s_inj s).
        destruct (zget (t_ctcp tabs) k) as [o'|]; cbn [option_map]; [|reflexivity].
        rewrite (zget_renG s s_inj s). destruct (zget (ct_im st) o') as [on|]; cbn [option_map]; [|reflexivity].
        rewrite pget_pm_ren. destruct (pget (ct_pm st) (o', on)) as [sg|]; [|reflexivity].
        rewrite centre_stereo_ren. destruct (centre_stereo g tabs k) as [s0|]; [|reflexivity].
        rewrite !pget_sct_ren, (translate_ct_ren (is_H g) (is_H g') is_H_ren).
        destruct (translate_ct (is_H g) _ _ v on s0) as [r|e]; [|reflexivity]. cbn [ren_ctres]. f_equal.
        rewrite !pset_pm_ren, zset_ren_val, mkCt_ren. apply ct_note_ren.
      + cbn [ren_ctres]. f_equal.
        change (mkCt (ren_pm s (ct_pm st)) (map (fun kv => (s (fst kv), s (snd kv))) (ct_im st)) (map s (ct_si st)) (ren_pairs s (ct_sp st)))
          with (ren_ct s st).
        rewrite ct_note_ren, !ct_pm_ren, !ct_im_ren, !ct_si_ren, !ct_sp_ren, !pset_pm_ren, zset_ren_val. apply mkCt_ren.
  Qed.
  Lemma ct_inner_fold k cs env vs : forall acc,
    fold_left (ct_inner g' tabs' (s k) (ren_pairv s cs) (ren_env s env)) (map s vs) (ren_ctres s acc) =
    ren_ctres s (fold_left (ct_inner g tabs k cs env) vs acc).
  Proof. induction vs as [|v vs IH]; intros acc; cbn [map fold_left]; [reflexivity|]. rewrite ct_inner_ren. apply IH. Qed.

  Lemma ct_outer_ren acc k vs : ct_outer g' tabs' (ren_ctres s acc) (s k, map s vs) = ren_ctres s (ct_outer g tabs acc (k, vs)).
  Proof.
    unfold ct_outer. destruct acc as [st0|e]; cbn [ren_ctres]; [|reflexivity].
    rewrite !ct_pm_ren, !ct_im_ren, !ct_si_ren, !ct_sp_ren.
    change (mkCt (ren_pm s (ct_pm st0)) (map (fun kv => (s (fst kv), s (snd kv))) (ct_im st0)) (s k :: map s (ct_si st0)) (ren_pairs s (ct_sp st0)))
      with (ren_ct s (mkCt (ct_pm st0) (ct_im st0) (k :: ct_si st0) (ct_sp st0))).
    set (st := mkCt (ct_pm st0) (ct_im st0) (k :: ct_si st0) (ct_sp st0)).
    unfold tabs' at 1, ren_tabs. cbn [t_ctc]. rewrite (zget_renG s s_inj (ren_pairv s)).
    destruct (zget (t_ctc tabs) k) as [cs|]; cbn [option_map]; [|reflexivity].
    rewrite stereo_bond_atoms_renG. unfold ren_pairv at 1 2. cbn [fst snd]. rewrite !zmem_renG.
    destruct (zmem (fst cs) (stereo_bond_atoms g) && zmem (snd cs) (stereo_bond_atoms g)); [|reflexivity].
    unfold tabs' at 1, ren_tabs. cbn [t_ctt]. rewrite (zget_renG s s_inj (ren_pairv s)).
    destruct (zget (t_ctt tabs) k) as [tpair|]; cbn [option_map]; [|reflexivity].
    destruct tpair as [ta tb]. unfold ren_pairv at 1. cbn [fst snd]. rewrite pget_sct_ren.
    destruct (pget (t_sct tabs) (ta, tb)) as [env|]; cbn [option_map]; [|reflexivity].
    change (Ok (ren_ct s st)) with (ren_ctres s (Ok st)). rewrite ct_inner_fold.
    destruct (fold_left (ct_inner g tabs k cs env) vs (Ok st)) as [st'|e]; cbn [ren_ctres]; reflexivity.
  Qed.

  Lemma ct_outer_fold adj : forall acc,
    fold_left (ct_outer g' tabs') (ren_vis s adj) (ren_ctres s acc) = ren_ctres s (fold_left (ct_outer g tabs) adj acc).
  Proof.
    induction adj as [|[k vs] adj IH]; intros acc; cbn [ren_vis map fold_left fst snd]; [reflexivity|].
    rewrite ct_outer_ren. apply IH.
  Qed.

  Theorem ct_map_ren adj : ct_map g' tabs' (ren_vis s adj) = ren_pmres s (ct_map g tabs adj).
  Proof.
    unfold ct_map. rewrite stereo_bond_atoms_renG. destruct (stereo_bond_atoms g) as [|b0 bs]; cbn [map]; [reflexivity|].
    pose proof (ct_outer_fold adj (Ok (mkCt [] [] [] []))) as H.
    change (ren_ctres s (Ok (mkCt [] [] [] []))) with (Ok (mkCt [] [] [] [])) in H. rewrite H.
    destruct (fold_left (ct_outer g tabs) adj (Ok (mkCt [] [] [] []))) as [st|e]; reflexivity.
  Qed.

  (* ---- _format_bond ---- *)
  Theorem format_bond_ren adj n m :
    format_bond g' o (ct_map g' tabs' (ren_vis s adj)) (s n) (s m) = format_bond g o (ct_map g tabs adj) n m.
  Proof.
    rewrite ct_map_ren. unfold format_bond, g'. rewrite (bond_of_renG g s s_inj), !(hybridization_renG g s s_inj).
    destruct (ct_map g tabs adj) as [cm|e]; cbn [ren_pmres]; [|reflexivity].
    rewrite pget_pm_ren. reflexivity.
  Qed.
End StereoRen.

(* ==================================================================================================== *)
(* DESIGN appendix A `smiles_invariant_discrete` WITH stereo marks, for renumberings that keep the insertion orders (remap()):
   injective weights, any tie-break priorities on the two sides, the stereo registries of the renumbered molecule are the
   renamed registries: the same text (stereo marks, cis/trans marks, closure numbers, CXSMILES suffix), the written order
   mapped by s.  No formatter hypothesis is left. *)
Theorem smiles_invariant_discrete_remap (g : mol) (s w w' tb tb' : Z -> Z) (o : opts) (tabs : stabs) :
  wf_mol g = true -> (forall x y, s x = s y -> x = y) -> s 0 = 0 -> inj_on (ids g) w -> (forall n, In n (ids g) -> w' (s n) = w n) ->
  o_mapping o = false ->
  smiles_text (ren_mol s g) w' tb' o (ren_tabs s tabs) = map_order s (smiles_text g w tb o tabs).
Proof.
  intros Hwf Hs H0 Hw Hr Hmp. apply smiles_text_ren; try assumption.
  - intros visited n. apply format_atom_ren; assumption.
  - intros visited n m. apply format_bond_ren; assumption.
Qed.

(* non-vacuity: (S)- or (R)-1-aminoethanol as a labelled graph with a stereo mark, renumbered n -> 7 n, other tie-breaks *)
Definition exs_b : bond := mkBond 1 None.
Definition exs_g : mol :=
  mkMol [(1, mkAtom 6 None 0 false (Some 3) None); (2, mkAtom 6 None 0 false (Some 1) (Some true));
         (3, mkAtom 7 None 0 false (Some 2) None); (4, mkAtom 8 None 0 false (Some 1) None)]
        [(1, [(2, exs_b)]); (2, [(1, exs_b); (3, exs_b); (4, exs_b)]); (3, [(2, exs_b)]); (4, [(2, exs_b)])].
Definition exs_tabs : stabs := mkStabs [(2, [1; 3; 4])] [] [] [] [] [] [].
Definition exs_s (n : Z) : Z := 7 * n.
Definition exs_w (n : Z) : Z := 10 - n.
Definition exs_w' (m : Z) : Z := 10 - m / 7.

Theorem remap_stereo_example :
  wf_mol exs_g = true /\ (forall x y, exs_s x = exs_s y -> x = y) /\ exs_s 0 = 0 /\ inj_on (ids exs_g) exs_w /\
  (forall n, In n (ids exs_g) -> exs_w' (exs_s n) = exs_w n) /\ o_mapping default_opts = false /\
  smiles_text exs_g exs_w (fun n => n) default_opts exs_tabs = Ok ("O[C@@H](N)C"%string, [4; 2; 3; 1]) /\
  smiles_text (ren_mol exs_s exs_g) exs_w' (fun n => - n) default_opts (ren_tabs exs_s exs_tabs) = Ok ("O[C@@H](N)C"%string, [28; 14; 21; 7]).
Proof.
  split; [vm_compute; reflexivity|]. split; [intros x y; unfold exs_s; lia|]. split; [reflexivity|].
  split; [intros x y _ _; unfold exs_w; lia|].
  split; [intros n Hn; cbn in Hn; intuition (subst; vm_compute; reflexivity)|].
  repeat split; vm_compute; reflexivity.
Qed.
